-- Root of the `Strengths` library: everything that `lake build` (setup) must check.
import Strengths.Driver.All
import Strengths.Props.C06
import Strengths.Props.C01
import Strengths.Props.C03
import Strengths.Props.C04
