/-
Grid geometry: index ↔ coordinates (Python side), neighbour table (C++ side).
All formulas come from the generated files (`Gen.IndexPy`, `Gen.EngineCpp`); this file only
assembles them the way the code does.
-/
import Strengths.Model.Basic
import Strengths.Gen.IndexPy
import Strengths.Gen.EngineCpp
import Strengths.Gen.GeomPy

namespace Strengths
open Gen

/-- shape and boundary settings of an `RDGridSpace` (`true` = "periodical") -/
structure GridShape where
  w : Nat
  h : Nat
  d : Nat
  px : Bool := false
  py : Bool := false
  pz : Bool := false
  deriving DecidableEq, Repr, Inhabited

def GridShape.size (g : GridShape) : Nat := g.w * g.h * g.d
def GridShape.valid (g : GridShape) : Bool := decide (0 < g.w) && decide (0 < g.h) && decide (0 < g.d)

/-! ### Python side (`RDGridSpace`) -/

/-- `get_cell_index((x, y, z))` (tuple/list form; the object form has the same generated formula) -/
def pyCellIndexOfCoords (g : GridShape) (x y z : Int) : Res Int :=
  if withinBoundsArr g.w g.h g.d x y z then .ok (cellIndexArr g.w g.h x y z) else .error .outOfRange

/-- `get_cell_index(p)` for a number -/
def pyCellIndexOfNum (g : GridShape) (p : Int) : Res Int :=
  if withinBoundsNum (gridSize g.w g.h g.d) p then .ok (cellIndexNum p) else .error .outOfRange

/-- `get_cell_coordinates(i)` -/
def pyCellCoords (g : GridShape) (i : Int) : Res (Int × Int × Int) :=
  if withinBoundsNum (gridSize g.w g.h g.d) i then
    .ok (cellCoordX g.w g.h i, cellCoordY g.w g.h i, cellCoordZ g.w g.h i)
  else .error .outOfRange

/-! ### Python side: positions in their three forms, neighbour queries -/

/-- a position argument of `RDGridSpace`: a number (linear index), a tuple/list/array `(x, y, z)`,
or an object with `x`, `y`, `z` attributes -/
inductive Pos where
  | num (p : Int)
  | arr (x y z : Int)
  | obj (x y z : Int)
  deriving DecidableEq, Repr, Inhabited

/-- `RDGridSpace.is_within_bounds(position)` -/
def pyWithinBounds (g : GridShape) : Pos → Bool
  | .num p => withinBoundsNum (gridSize g.w g.h g.d) p
  | .arr x y z => withinBoundsArr g.w g.h g.d x y z
  | .obj x y z => withinBoundsObj g.w g.h g.d x y z

/-- `RDGridSpace.get_cell_index(position)` (all three forms) -/
def pyCellIndex (g : GridShape) (pos : Pos) : Res Int :=
  if (!cellIndexGuarded) || pyWithinBounds g pos then
    match pos with
    | .num p => .ok (cellIndexNum p)
    | .arr x y z => .ok (cellIndexArr g.w g.h x y z)
    | .obj x y z => .ok (cellIndexObj g.w g.h x y z)
  else .error .outOfRange

/-- `get_cell_coordinates(i)` honouring the generated guard flag -/
def pyCoords (g : GridShape) (i : Int) : Res (Int × Int × Int) :=
  if (!cellCoordsGuarded) || withinBoundsNum (gridSize g.w g.h g.d) i then
    .ok (cellCoordX g.w g.h i, cellCoordY g.w g.h i, cellCoordZ g.w g.h i)
  else .error .outOfRange

/-- the distance test of `are_neighbors` on two coordinate triples -/
def areNbrCoords (g : GridShape) (c1 c2 : Int × Int × Int) : Bool :=
  let dx := areNbrDist0 c1.1 c2.1
  let dy := areNbrDist1 c1.2.1 c2.2.1
  let dz := areNbrDist2 c1.2.2 c2.2.2
  let dx := if g.px then areNbrWrap0 g.w dx else dx
  let dy := if g.py then areNbrWrap1 g.h dy else dy
  let dz := if g.pz then areNbrWrap2 g.d dz else dz
  areNbrTest dx dy dz

/-- `RDGridSpace.are_neighbors(position1, position2)` -/
def pyAreNeighbors (g : GridShape) (p1 p2 : Pos) : Res Bool :=
  if areNbrGuards ≥ 1 && !pyWithinBounds g p1 then .error .outOfRange
  else if areNbrGuards ≥ 2 && !pyWithinBounds g p2 then .error .outOfRange
  else
    match pyCellIndex g p1 with
    | .error e => .error e
    | .ok i1 =>
      match pyCoords g i1 with
      | .error e => .error e
      | .ok c1 =>
        match pyCellIndex g p2 with
        | .error e => .error e
        | .ok i2 =>
          match pyCoords g i2 with
          | .error e => .error e
          | .ok c2 => .ok (areNbrCoords g c1 c2)

/-- all elements `ok` → the list of values; the first error otherwise (evaluation order of a Python loop) -/
def seqRes {α} : List (Res α) → Res (List α)
  | [] => .ok []
  | .error e :: _ => .error e
  | .ok a :: rest =>
    match seqRes rest with
    | .error e => .error e
    | .ok l => .ok (a :: l)

/-- `RDGridSpace.get_neighbors(position)` : the list in the order the code appends -/
def pyGetNeighbors (g : GridShape) (pos : Pos) : Res (List Int) :=
  match pyCellIndex g pos with
  | .error e => .error e
  | .ok i =>
    match pyCoords g i with
    | .error e => .error e
    | .ok (x, y, z) =>
      seqRes (((getNbrRules g.w g.h g.d g.px g.py g.pz x y z).filter (·.1)).map
        fun r => pyCellIndex g (.arr r.2.1 r.2.2.1 r.2.2.2))

/-! ### kinetics: the neighbour enumeration of `_compute_dspeciesdt_grid` -/

/-- the candidate coordinates after the three wrap lines -/
def kinCandidates (g : GridShape) (x y z : Int) : List (Int × Int × Int) :=
  (kinDeltas x y z).map fun c =>
    let cx := if kinWrapCond0 g.px g.w then kinWrap0 g.w c.1 else c.1
    let cy := if kinWrapCond1 g.py g.h then kinWrap1 g.h c.2.1 else c.2.1
    let cz := if kinWrapCond2 g.pz g.d then kinWrap2 g.d c.2.2 else c.2.2
    (cx, cy, cz)

/-- the cells whose diffusion terms `_compute_dspeciesdt_grid` adds for the cell at `pos`, in order
(with repetitions); `compute_diffusion_rates` raises when a candidate is not `are_neighbors` with the cell -/
def kinNeighbors (g : GridShape) (pos : Pos) : Res (List Int) :=
  match pyCellIndex g pos with
  | .error e => .error e
  | .ok i =>
    match pyCoords g i with
    | .error e => .error e
    | .ok (x, y, z) =>
      seqRes (((kinCandidates g x y z).filter fun c => (!kinBoundsGuard) || withinBoundsArr g.w g.h g.d c.1 c.2.1 c.2.2).map
        fun c =>
          match pyCellIndex g (.arr c.1 c.2.1 c.2.2) with
          | .error e => .error e
          | .ok j =>
            -- compute_diffusion_rates(system, species, p, c): p is the coordinate tuple, c the list;
            -- both are turned into indices, then `are_neighbors(src_index, dst_index)` must hold
            match pyCellIndex g (.arr x y z) with
            | .error e => .error e
            | .ok i' =>
              match pyAreNeighbors g (.num i') (.num j) with
              | .error e => .error e
              | .ok true => .ok j
              | .ok false => .error .badValue)

/-! ### C++ side (`SimulationAlgorithm3DBase`) -/

/-- the `switch(direction)` of `GetNeighborIndex`: shift of (x, y, z) -/
def shiftDir (dir : Nat) (x y z : Int) : Int × Int × Int :=
  match dirDelta.find? (fun t => t.1 == dir) with
  | some (_, 0, dl) => (x + dl, y, z)
  | some (_, 1, dl) => (x, y + dl, z)
  | some (_, 2, dl) => (x, y, z + dl)
  | _ => (x, y, z)

/-- `boundary_conditions[axis]` as the engine receives it (`cppBoundary` codes) -/
def bcCode (periodic : Bool) : Int :=
  ((cppBoundary.lookup (if periodic then "periodical" else "reflecting")).getD 0)

/-- `GetNeighborIndex(x, y, z, direction)`; `nbrNone` (= -1) when there is no neighbour -/
def engNeighborOfCoords (g : GridShape) (x y z : Int) (dir : Nat) : Int :=
  let (xn, yn, zn) := shiftDir dir x y z
  let xn := if bcCode g.px == wrapFlag.getD 0 0 then wrapAxis0 g.w xn else xn
  let yn := if bcCode g.py == wrapFlag.getD 1 0 then wrapAxis1 g.h yn else yn
  let zn := if bcCode g.pz == wrapFlag.getD 2 0 then wrapAxis2 g.d zn else zn
  if nbrInRange g.w g.h g.d xn yn zn then nbrIndex g.w g.h xn yn zn else nbrNone

/-- `mesh_neighbors[i*6+n]` as built by `BuildMeshNeighbors` -/
def engNeighbor (g : GridShape) (i : Nat) (dir : Nat) : Int :=
  engNeighborOfCoords g (meshX g.w g.h i) (meshY g.w g.h i) (meshZ g.w g.h i) dir

/-- neighbour as an `Option Nat` (none = wall) -/
def engNbr? (g : GridShape) (i : Nat) (dir : Nat) : Option Nat :=
  let j := engNeighbor g i dir
  if j == nbrNone || j < 0 then none else some j.toNat

/-- `opposed_direction[n]` -/
def oppOf (dir : Nat) : Nat := oppDir.getD dir 0

end Strengths
