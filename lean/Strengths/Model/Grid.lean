/-
Grid geometry: index ↔ coordinates (Python side), neighbour table (C++ side).
All formulas come from the generated files (`Gen.IndexPy`, `Gen.EngineCpp`); this file only
assembles them the way the code does.
-/
import Strengths.Model.Basic
import Strengths.Gen.IndexPy
import Strengths.Gen.EngineCpp

namespace Strengths
open Gen

/-- shape and boundary settings of an `RDGridSpace` (`true` = "periodical") -/
structure GridShape where
  w : Nat
  h : Nat
  d : Nat
  px : Bool := false
  py : Bool := false
  pz : Bool := false
  deriving DecidableEq, Repr, Inhabited

def GridShape.size (g : GridShape) : Nat := g.w * g.h * g.d
def GridShape.valid (g : GridShape) : Bool := decide (0 < g.w) && decide (0 < g.h) && decide (0 < g.d)

/-! ### Python side (`RDGridSpace`) -/

/-- `get_cell_index((x, y, z))` (tuple/list form; the object form has the same generated formula) -/
def pyCellIndexOfCoords (g : GridShape) (x y z : Int) : Res Int :=
  if withinBoundsArr g.w g.h g.d x y z then .ok (cellIndexArr g.w g.h x y z) else .error .outOfRange

/-- `get_cell_index(p)` for a number -/
def pyCellIndexOfNum (g : GridShape) (p : Int) : Res Int :=
  if withinBoundsNum (gridSize g.w g.h g.d) p then .ok (cellIndexNum p) else .error .outOfRange

/-- `get_cell_coordinates(i)` -/
def pyCellCoords (g : GridShape) (i : Int) : Res (Int × Int × Int) :=
  if withinBoundsNum (gridSize g.w g.h g.d) i then
    .ok (cellCoordX g.w g.h i, cellCoordY g.w g.h i, cellCoordZ g.w g.h i)
  else .error .outOfRange

/-! ### C++ side (`SimulationAlgorithm3DBase`) -/

/-- the `switch(direction)` of `GetNeighborIndex`: shift of (x, y, z) -/
def shiftDir (dir : Nat) (x y z : Int) : Int × Int × Int :=
  match dirDelta.find? (fun t => t.1 == dir) with
  | some (_, 0, dl) => (x + dl, y, z)
  | some (_, 1, dl) => (x, y + dl, z)
  | some (_, 2, dl) => (x, y, z + dl)
  | _ => (x, y, z)

/-- `boundary_conditions[axis]` as the engine receives it (`cppBoundary` codes) -/
def bcCode (periodic : Bool) : Int :=
  ((cppBoundary.lookup (if periodic then "periodical" else "reflecting")).getD 0)

/-- `GetNeighborIndex(x, y, z, direction)`; `nbrNone` (= -1) when there is no neighbour -/
def engNeighborOfCoords (g : GridShape) (x y z : Int) (dir : Nat) : Int :=
  let (xn, yn, zn) := shiftDir dir x y z
  let xn := if bcCode g.px == wrapFlag.getD 0 0 then wrapAxis0 g.w xn else xn
  let yn := if bcCode g.py == wrapFlag.getD 1 0 then wrapAxis1 g.h yn else yn
  let zn := if bcCode g.pz == wrapFlag.getD 2 0 then wrapAxis2 g.d zn else zn
  if nbrInRange g.w g.h g.d xn yn zn then nbrIndex g.w g.h xn yn zn else nbrNone

/-- `mesh_neighbors[i*6+n]` as built by `BuildMeshNeighbors` -/
def engNeighbor (g : GridShape) (i : Nat) (dir : Nat) : Int :=
  engNeighborOfCoords g (meshX g.w g.h i) (meshY g.w g.h i) (meshZ g.w g.h i) dir

/-- neighbour as an `Option Nat` (none = wall) -/
def engNbr? (g : GridShape) (i : Nat) (dir : Nat) : Option Nat :=
  let j := engNeighbor g i dir
  if j == nbrNone || j < 0 then none else some j.toNat

/-- `opposed_direction[n]` -/
def oppOf (dir : Nat) : Nat := oppDir.getD dir 0

end Strengths
