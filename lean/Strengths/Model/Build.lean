/-
Executable model of how a *description* becomes a system (C04): the units inheritance of
`valproc.retrive_units_system_from_dict` threaded script → system → network / space → species / reaction /
node / edge, `valproc.process_unitvar_input` (a bare number is a quantity in the owner's system with the
field's dimension; an explicit quantity is kept after a dimension check), the constructors' defaults, the
default state `density(env_i)·V_i` and the default chemostat map.  Values end up as SI quantities (`Q`),
i.e. as the `PySys` the kinetics model reads.  Core Lean only.
-/
import Strengths.Model.Kinetics

namespace Strengths
open Gen

/-- the value of a "units" key -/
inductive UDecl where
  | absent
  | inherit
  | dflt
  | dict (d : List (String × String))
  | other
  deriving Repr, Inhabited, DecidableEq

/-- `retrive_units_system_from_dict(d, default, parent)`: the key's default is "default" for a script and
"inherit" for everything below it -/
def resolveUnits (decl : UDecl) (scriptLevel : Bool) (parent : Sys) : Res Sys :=
  match decl with
  | .absent => if scriptLevel then .ok Sys.default else .ok parent
  | .inherit => .ok parent
  | .dflt => .ok Sys.default
  | .dict d => sysFromDict d
  | .other => .error .badValue

/-- a dimensioned field as written: bare number, or explicit quantity (value + parsed units) -/
inductive Num where
  | bare (v : Rat)
  | expl (v : Rat) (u : Units)
  deriving Repr, Inhabited, DecidableEq

/-- `process_unitvar_input` on a single value / `UnitValue(v, Units(owner, dim), convert=False)` -/
def processUnitVar (x : Num) (owner : Sys) (dim : Dim) : Res Q :=
  match x with
  | .bare v => .ok (Q.ofU owner dim v)
  | .expl v u => if u.dim = dim then .ok (Q.ofU u.sys u.dim v) else .error .dimMismatch

/-- per-environment field as written -/
inductive EnvNum where
  | single (x : Num)
  | dict (es : List (String × Num))
  deriving Repr, Inhabited

/-- dict assignment `d[k] = v` as far as look-ups are concerned -/
def dictSet {α : Type} (l : List (String × α)) (k : String) (v : α) : List (String × α) :=
  l.filter (fun p => p.1 != k) ++ [(k, v)]

/-- keys may list several labels separated by commas: `for ki in k.split(","): out[ki.strip()] = …` -/
def splitKey (k : String) : List String := (k.splitOn ",").map fun s => s.trimAscii.toString

/-- one entry of a per-environment dict: process the value, assign it to every label of the key -/
def envDictStep (owner : Sys) (dim : Dim) (acc : List (String × Q)) (p : String × Num) : Res (List (String × Q)) :=
  match processUnitVar p.2 owner dim with
  | .error e => .error e
  | .ok q => .ok ((splitKey p.1).foldl (fun a k => dictSet a k q) acc)

def processEnvDict (es : List (String × Num)) (owner : Sys) (dim : Dim) : Res (List (String × Q)) :=
  foldRes (envDictStep owner dim) [] es

def processEnvNum (x : EnvNum) (owner : Sys) (dim : Dim) : Res EnvVal :=
  match x with
  | .single n =>
    match processUnitVar n owner dim with
    | .error e => .error e
    | .ok q => .ok (.single q)
  | .dict es =>
    match processEnvDict es owner dim with
    | .error e => .error e
    | .ok l => .ok (.dict l)

/-- species chstt as written -/
inductive ChemD where
  | none
  | flag (b : Bool)
  | dict (es : List (String × Bool))
  deriving Repr, Inhabited

structure SpeciesD where
  units : UDecl
  D : Option EnvNum
  density : Option EnvNum
  chstt : ChemD
  deriving Repr, Inhabited

structure ReactionD where
  units : UDecl
  sub : List Nat
  prod : List Nat
  kf : Option EnvNum
  kr : Option EnvNum
  deriving Repr, Inhabited

structure NetD where
  units : UDecl
  envs : Option (List String)
  species : List SpeciesD
  reactions : List ReactionD
  deriving Repr, Inhabited

structure NodeD where
  units : UDecl
  vol : Option Num
  env : Option Nat
  deriving Repr, Inhabited

structure EdgeD where
  units : UDecl
  i : Nat
  j : Nat
  sfc : Option Num
  dst : Option Num
  deriving Repr, Inhabited

inductive CellEnvD where
  | none
  | all (e : Nat)
  | map (l : List Nat)
  deriving Repr, Inhabited

inductive SpaceD where
  | grid (units : UDecl) (g : GridShape) (env : CellEnvD) (vol : Option Num)
  | graph (units : UDecl) (nodes : List NodeD) (edges : List EdgeD)
  deriving Repr, Inhabited

structure SystemD where
  units : UDecl
  net : NetD
  space : SpaceD
  /-- a bare "state" list (numbers in the system's units system) -/
  state : Option (List Rat)
  chem : Option (List Int)
  deriving Repr, Inhabited

/-- a built species: what the kinetics read plus density and chemostat setting -/
structure BuiltSpecies where
  D : EnvVal
  density : EnvVal
  chstt : ChemD

def mapRes {α β : Type} (f : α → Res β) : List α → Res (List β)
  | [] => .ok []
  | a :: as =>
    match f a with
    | .error e => .error e
    | .ok b =>
      match mapRes f as with
      | .error e => .error e
      | .ok bs => .ok (b :: bs)

def optEnv (x : Option EnvNum) : EnvNum := x.getD (.single (.bare 0))

/-- `species_from_dict` + `Species(...)` (defaults `D = 0`, `density = 0`) -/
def buildSpecies (parent : Sys) (d : SpeciesD) : Res BuiltSpecies :=
  match resolveUnits d.units false parent with
  | .error e => .error e
  | .ok u =>
    match processEnvNum (optEnv d.D) u Dim.diffusion, processEnvNum (optEnv d.density) u Dim.density with
    | .error e, _ => .error e
    | _, .error e => .error e
    | .ok dv, .ok cv => .ok ⟨dv, cv, d.chstt⟩

/-- `reaction_from_dict` + `Reaction(...)` (defaults `kf = kr = 0`) -/
def buildReaction (parent : Sys) (d : ReactionD) : Res PyReaction :=
  match resolveUnits d.units false parent with
  | .error e => .error e
  | .ok u =>
    match processEnvNum (optEnv d.kf) u (kfDim (natSum d.sub)), processEnvNum (optEnv d.kr) u (krDim (natSum d.prod)) with
    | .error e, _ => .error e
    | _, .error e => .error e
    | .ok f, .ok r => .ok ⟨d.sub, d.prod, f, r⟩

def optNum (x : Option Num) : Num := x.getD (.bare 1)

/-- `rdgraphspacenode_from_dict` + `RDGraphSpaceNode(...)` for node number `p.2` under the space's system `u` -/
def buildNode (u : Sys) (edges : List Rat) (p : NodeD × Nat) : Res PyNode :=
  match resolveUnits p.1.units false u with
  | .error e => .error e
  | .ok un =>
    match processUnitVar (optNum p.1.vol) un Dim.volume with
    | .error e => .error e
    | .ok v => .ok ({ vol := v, edge := edges.getD p.2 0, env := p.1.env.getD 0 } : PyNode)

/-- `rdgraphspaceedge_from_dict` + `RDGraphSpaceEdge(...)` under the space's system `u` -/
def buildEdge (u : Sys) (ed : EdgeD) : Res PyEdge :=
  match resolveUnits ed.units false u with
  | .error e => .error e
  | .ok ue =>
    match processUnitVar (optNum ed.sfc) ue Dim.surface, processUnitVar (optNum ed.dst) ue Dim.length with
    | .error e, _ => .error e
    | _, .error e => .error e
    | .ok s, .ok l => .ok ({ i := ed.i, j := ed.j, sfc := s, dst := l } : PyEdge)

/-- the `cell_env` argument of `RDGridSpace` -/
def buildCellEnv (g : GridShape) (env : CellEnvD) : Res (List Nat) :=
  match env with
  | .none => .ok (List.replicate g.size 0)
  | .all e => .ok (List.replicate g.size e)
  | .map l => if l.length = g.size then .ok l else .error .badValue

/-- `rdspace_from_dict`: `edges` are the SI cell edges (cube roots of the volumes), an input -/
def buildSpace (parent : Sys) (edges : List Rat) (d : SpaceD) : Res PySpace :=
  match d with
  | .grid units g env vol =>
    match resolveUnits units false parent with
    | .error e => .error e
    | .ok u =>
      if !g.valid then .error .badValue
      else
        match buildCellEnv g env with
        | .error e => .error e
        | .ok envl =>
          match processUnitVar (optNum vol) u Dim.volume with
          | .error e => .error e
          | .ok v => .ok (.grid g v (edges.getD 0 0) envl)
  | .graph units nodes es =>
    match resolveUnits units false parent with
    | .error e => .error e
    | .ok u =>
      match mapRes (buildNode u edges) (nodes.zip (List.range nodes.length)) with
      | .error e => .error e
      | .ok ns =>
        match mapRes (buildEdge u) es with
        | .error e => .error e
        | .ok el => .ok (.graph ns el)

/-- `bool(get_value_in_env(chstt, env, 0))` -/
def chemIn (c : ChemD) (env : String) : Int :=
  match c with
  | .none => 0
  | .flag b => if b then 1 else 0
  | .dict es =>
    match es.lookup env with
    | some b => if b then 1 else 0
    | none =>
      match es.lookup "default" with
      | some b => if b then 1 else 0
      | none => 0

/-- a built system: the `PySys`, the state (SI, species-major) and the units systems that were resolved -/
structure Built where
  sys : PySys
  state : List Rat

/-- `rdnetwork_from_dict`: the network's own units system, then its species and reactions under it -/
def buildNet (us : Sys) (d : NetD) : Res (List BuiltSpecies × List PyReaction) :=
  match resolveUnits d.units false us with
  | .error e => .error e
  | .ok un =>
    match mapRes (buildSpecies un) d.species, mapRes (buildReaction un) d.reactions with
    | .error e, _ => .error e
    | _, .error e => .error e
    | .ok sp, .ok rs => .ok (sp, rs)

/-- the explicit "state" list of a description (bare numbers in the system's units system), or the default state -/
def stateOfDesc (us : Sys) (st : Option (List Rat)) (dflt : List Rat) : List Rat :=
  match st with
  | none => dflt
  | some l => l.map fun v => (Q.ofU us Dim.quantity v).si

/-- the system assembled from its built parts: environment check of the `RDSystem.space` setter, default state
`density(env_i)·V_i`, default chemostat map -/
def assemble (us : Sys) (d : SystemD) (sp : List BuiltSpecies) (rs : List PyReaction) (space : PySpace) : Res Built :=
  let envs := d.net.envs.getD [""]
  let n := space.size
  -- RDSystem.space setter: every cell environment index must be below the number of environments
  if (List.range n).any (fun i => space.envOf i ≥ envs.length) then .error .badValue
  else
    let ns := sp.length
    let envLabel (i : Nat) : String := envs.getD (space.envOf i) ""
    let dfltState : List Rat := (List.range ns).flatMap fun s => (List.range n).map fun i =>
      ((getValueInEnv (sp.getD s ⟨.single default, .single default, .none⟩).density (envLabel i) ⟨0, Dim.density⟩).mul (space.volOf i)).si
    let dfltChem : List Int := (List.range ns).flatMap fun s => (List.range n).map fun i =>
      chemIn (sp.getD s ⟨.single default, .single default, .none⟩).chstt (envLabel i)
    .ok { sys := { nSpecies := ns, dcoef := sp.map (·.D), reactions := rs, envs := envs, space := space,
                   chem := d.chem.getD dfltChem }
          state := stateOfDesc us d.state dfltState }

/-- `rdsystem_from_dict(d, parent)` + `RDSystem(...)` -/
def buildSystem (parent : Sys) (edges : List Rat) (d : SystemD) : Res Built :=
  match resolveUnits d.units false parent with
  | .error e => .error e
  | .ok us =>
    let envs := d.net.envs.getD [""]
    match buildNet us d.net with
    | .error e => .error e
    | .ok (sp, rs) =>
      -- RDNetwork(...): the environment list must be non-empty and must not contain "default"
      if envs.isEmpty ∨ envs.contains "default" then .error .badValue
      else
        match buildSpace us edges d.space with
        | .error e => .error e
        | .ok space => assemble us d sp rs space

end Strengths
