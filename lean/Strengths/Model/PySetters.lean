/-
Failure atomicity of the public setters: reading of the generated path inventories `Gen.PySetters`.  Core Lean only.
-/
import Strengths.Gen.PySetters

namespace Strengths.PySetters
open Strengths.Gen.PySetters

def Ev.isStore : Ev → Bool
  | .store _ => true
  | _ => false

/-- on this execution path nothing can be refused once something has been stored: after the first store into `self`
there is no `raise` and no call of a checking function -/
def atomicPath : List Ev → Bool
  | [] => true
  | .store _ :: rest => rest.all Ev.isStore
  | _ :: rest => atomicPath rest

/-- a setter validates before it stores, on every path -/
def atomic (s : Setter) : Bool := s.paths.all atomicPath

/-- a path that refuses its argument -/
def refuses (p : List Ev) : Bool := p.any fun e => e == .raise

end Strengths.PySetters
