/-
Reading of the per-file numeric inventories `Gen.PyNumeric` (rounding / tolerance calls, `dtype=` values, narrow numeric
type names, `astype`, limited-digit format specifications, floor division).  Core Lean only.
-/
import Strengths.Gen.PyNumeric

namespace Strengths.PyNumeric

/-- dtypes that keep every value the package computes: Python `int` / `float` (numpy int64 / float64) and `object` -/
def fullDtypes : List String := ["int", "float", "object"]

/-- a file keeps full precision when its inventory consists of full-width `dtype=` values only: no `round`, `isclose`,
`floor`/`ceil`/`trunc`, no `float32`/`int32`-like type, no `astype`, no `%g`-like or `{:.Ng}`-like format, no `//` -/
def fullPrecision (inv : List (String × String)) : Bool :=
  inv.all fun e => e.1 == "dtype" && fullDtypes.contains e.2

end Strengths.PyNumeric
