/-
The Python <-> C++ boundary of `LibRDEngine` (librdengine.py `_setup_grid`, `_setup_graph`, `_get_data`,
`_get_t_sample`; engine.cpp `engineexport_initialize_*`, `engineexport_get_*`).

The *tables* (`Gen.Marshal.pyGrid`, `cppGrid`, …) are regenerated from the sources on every run; the functions below
are the hand-written reading of them: positional type agreement, "every real-valued argument is handed over in the
engine's units", and the number that is handed over for a stored quantity.  Core Lean only.
-/
import Strengths.Gen.Marshal
import Strengths.Model.Units

namespace Strengths.Boundary
open Strengths.Gen.Marshal

/-- positional agreement of the ctypes wrapper chosen in Python with the C++ parameter type -/
def typesAgree (py : List PyArg) (cpp : List CParam) : Bool :=
  py.length == cpp.length && (py.zip cpp).all fun ap => ap.1.ty == ap.2.ty

def isReal (t : CTy) : Bool := t == .dbl || t == .dblArr

/-- every real-valued (double / double array) argument is expressed in the engine's units system on the way in -/
def realsInEngineUnits (py : List PyArg) : Bool := py.all fun a => !isReal a.ty || a.conv != .none

/-- integer, text and integer-array arguments are handed over as they are -/
def discreteUnconverted (py : List PyArg) : Bool := py.all fun a => isReal a.ty || a.conv == .none

/-- the Python argument bound to the C++ parameter `name` -/
def argOf (py : List PyArg) (cpp : List CParam) (name : String) : Option PyArg :=
  ((cpp.map (·.name)).zip py).lookup name

/-- names of the parameters two initialisers have in common -/
def commonNames (a b : List CParam) : List String := (a.map (·.name)).filter fun n => (b.map (·.name)).contains n

/-- a physical quantity as the package stores it: a number, the units system it is stored in, its dimension -/
structure Stored where
  v : Rat
  sys : Sys
  dim : Dim
  deriving DecidableEq, Repr

def Stored.si (q : Stored) : Rat := q.v * siFactor q.sys q.dim

/-- the number handed to the engine for a stored quantity (`U` = the engine's units system):
`.none` hands the stored number over unchanged; the three other routes convert to `U` -/
def marshalReal (U : Sys) (c : Conv) (q : Stored) : Rat :=
  match c with
  | .none => q.v
  | _ => q.v * convFactor q.sys U q.dim

/-- all real-valued arguments of a call, in order, under an assignment `ρ` of stored quantities to source expressions -/
def marshalReals (U : Sys) (py : List PyArg) (ρ : String → Stored) : List Rat :=
  (py.filter fun a => isReal a.ty).map fun a => marshalReal U a.conv (ρ a.src)

/-- read-back: a number `x` the engine reports in its units `U` for dimension `d`, as labelled and converted by
`_get_data` / `_get_t_sample` to the script's units `S` -/
def readBack (U S : Sys) (d : Dim) (x : Rat) : Rat := x * convFactor U S d

/-- does a read-back function allocate a `double` buffer of `length` entries, pass exactly that buffer to the native
function, copy `length` entries, label with the engine's units and convert to the script's? -/
def readBackShape (r : ReadBack) (nativeFn bufVar var dimFn : String) : Bool :=
  r.count == "self._count_samples()" && r.buffer == "(LEN*ctypes.c_double)()" &&
  r.native == "self._lib." ++ nativeFn ++ "(" ++ bufVar ++ ")" && r.alloc == "np.zeros(LEN)" &&
  r.copyLoop == "foriinrange(LEN):" ++ var ++ "[i]=" ++ bufVar ++ "[i]" &&
  r.labelSys == "self._units_system" && r.labelDim == dimFn && r.convertTo == "self._script.units_system"

end Strengths.Boundary
