/-
Executable model of `RDTrajectory` (strengths/rdoutput.py): the four accessors and the sample-index
lookup.  The flat index formula, the guards / loop conditions / returned indices of the three lookup
methods and the policy list come from the generated files (`Gen.IndexPy`, `Gen.TrajPy`).
Core Lean only.
-/
import Strengths.Model.Units
import Strengths.Model.Grid
import Strengths.Gen.TrajPy

namespace Strengths
open Gen

/-! ### numpy pieces (stated model of numpy: C-order reshape, negative indices wrap) -/

/-- numpy / Python list index normalisation: `-len ≤ i < len`, negative indices count from the end;
anything else raises `IndexError`. -/
def npNorm (len : Nat) (i : Int) : Res Nat :=
  if 0 ≤ i ∧ i < len then .ok i.toNat
  else if -(len : Int) ≤ i ∧ i < 0 then .ok (i + len).toNat
  else .error .outOfRange

/-- `a[i]` for a 1-D array -/
def npGet {α} [Inhabited α] (l : List α) (i : Int) : Res α :=
  match npNorm l.length i with
  | .error e => .error e
  | .ok k => .ok (l.getD k default)

/-- `m` consecutive blocks of length `c` (row-major / C order) -/
def chunks {α} (c m : Nat) (l : List α) : List (List α) :=
  (List.range m).map fun i => (l.drop (i * c)).take c

/-- `a.reshape((n, m))` of a flat array: `ValueError` unless the sizes match -/
def reshape2 (l : List Rat) (n m : Nat) : Res (List (List Rat)) :=
  if l.length = n * m then .ok (chunks m n l) else .error .badValue

/-- `a.reshape((n, s, c))` -/
def reshape3 (l : List Rat) (n s c : Nat) : Res (List (List (List Rat))) :=
  if l.length = n * s * c then .ok ((chunks (s * c) n l).map (chunks c s)) else .error .badValue

/-! ### the trajectory -/

/-- what the accessors read: shape, sample times (with their units), flat data (with its units) -/
structure Traj where
  ns : Nat            -- `nspecies()`
  nc : Nat            -- `ncells()`
  ts : List Rat       -- `t.value`
  tu : Units          -- `t.units`
  data : List Rat     -- `data.value`
  du : Units          -- `data.units`
  deriving Repr

def Traj.nsamples (tr : Traj) : Nat := tr.ts.length

/-! edits through the public interface of the trajectory's arrays (`traj.data.value = …`, `traj.data.set_value`, `set_at`,
`traj.t.value = …`, `traj.data.units = …`): the trajectory holds the new content, nothing else is remembered -/

/-- `traj.data.value = d` / `traj.data.set_value(d)` / in-place edits resulting in `d` -/
def Traj.setData (tr : Traj) (d : List Rat) : Traj := { tr with data := d }

/-- `traj.t.value = ts` -/
def Traj.setTimes (tr : Traj) (ts : List Rat) : Traj := { tr with ts := ts }

/-- `traj.data.units = u` (a re-labelling: the numbers stay) -/
def Traj.setDataUnits (tr : Traj) (u : Units) : Traj := { tr with du := u }

/-- one edit of a trajectory -/
inductive TrajEdit where
  | data (d : List Rat)
  | times (ts : List Rat)
  | dataUnits (u : Units)

def Traj.edit (tr : Traj) : TrajEdit → Traj
  | .data d => tr.setData d
  | .times ts => tr.setTimes ts
  | .dataUnits u => tr.setDataUnits u

/-- a history of edits, oldest first -/
def Traj.edits (tr : Traj) (es : List TrajEdit) : Traj := es.foldl Traj.edit tr

/-- a species argument: number, label, or `Species` object (only its label is read) -/
inductive SpeciesArg where
  | idx (i : Int)
  | label (s : String)
  | obj (label : String)
  deriving Repr

/-- `RDNetwork.get_species_index` (labels = the species labels in order); `none` ↦ the accessors raise -/
def trajSpeciesIndex (labels : List String) : SpeciesArg → Option Nat
  | .idx i => if i ≥ 0 ∧ i < labels.length then some i.toNat else none
  | .label s => let k := labels.findIdx (· == s); if k < labels.length then some k else none
  | .obj s => let k := labels.findIdx (· == s); if k < labels.length then some k else none

/-- a position argument -/
inductive PosArg where
  | idx (i : Int)
  | coords (x y z : Int)     -- tuple / list
  | obj (x y z : Int)        -- object with x, y, z
  deriving Repr

/-- the space of the trajectory's system, as far as `get_cell_index` reads it -/
inductive SpaceKind where
  | grid (g : GridShape)
  | graph (size : Nat)
  deriving Repr

/-- `space.get_cell_index(position)` for both space classes (graph: `int(position)` in `[0, size)`;
a tuple given to a graph raises `TypeError` in `int()`) -/
def cellIndexOf : SpaceKind → PosArg → Res Nat
  | .grid g, .idx i => (pyCellIndexOfNum g i).map Int.toNat
  | .grid g, .coords x y z => (pyCellIndexOfCoords g x y z).map Int.toNat
  | .grid g, .obj x y z =>
    if withinBoundsObj g.w g.h g.d x y z then .ok (cellIndexObj g.w g.h x y z).toNat else .error .outOfRange
  | .graph n, .idx i => if i < 0 ∨ i ≥ n then .error .outOfRange else .ok i.toNat
  | .graph _, _ => .error .typeError

def SpaceKind.size : SpaceKind → Nat
  | .grid g => g.size
  | .graph n => n

/-- `get_trajectory_point(species, sample, position)` (indices already resolved) -/
def Traj.point (tr : Traj) (s : Nat) (k : Int) (c : Nat) : Res Rat :=
  npGet tr.data (trajPointIndex tr.ns tr.nc k s c)

/-- `get_state(species, sample)` -/
def Traj.state (tr : Traj) (s : Nat) (k : Int) : Res (List Rat) :=
  match reshape3 tr.data tr.nsamples tr.ns tr.nc with
  | .error e => .error e
  | .ok a =>
    match npGet a k with
    | .error e => .error e
    | .ok blk => npGet blk s

/-- `get_state(None, sample)` -/
def Traj.wholeState (tr : Traj) (k : Int) : Res (List Rat) :=
  match reshape2 tr.data tr.nsamples (tr.ns * tr.nc) with
  | .error e => .error e
  | .ok a => npGet a k

/-- `get_trajectory(species, position)` : `[:, s, c]` -/
def Traj.cellTrajectory (tr : Traj) (s c : Nat) : Res (List Rat) :=
  match reshape3 tr.data tr.nsamples tr.ns tr.nc with
  | .error e => .error e
  | .ok a => a.mapM fun blk =>
      match npGet blk s with
      | .error e => .error e
      | .ok row => npGet row c

/-- `get_trajectory(species, merge=True)` : `[sum(state) for state in [:, s, :]]` -/
def Traj.merged (tr : Traj) (s : Nat) : Res (List Rat) :=
  match reshape3 tr.data tr.nsamples tr.ns tr.nc with
  | .error e => .error e
  | .ok a => a.mapM fun blk =>
      match npGet blk s with
      | .error e => .error e
      | .ok row => .ok (sumRat row)

/-! ### accessors with argument resolution, as called by users -/

structure TrajCtx where
  tr : Traj
  labels : List String
  space : SpaceKind

def TrajCtx.species (cx : TrajCtx) (sp : SpeciesArg) : Res Nat :=
  match trajSpeciesIndex cx.labels sp with
  | none => .error .badValue
  | some s => .ok s

def TrajCtx.getPoint (cx : TrajCtx) (sp : SpeciesArg) (k : Int) (p : PosArg) : Res (Rat × Units) :=
  match cx.species sp with
  | .error e => .error e
  | .ok s =>
    match cellIndexOf cx.space p with
    | .error e => .error e
    | .ok c => (cx.tr.point s k c).map fun v => (v, cx.tr.du)

def TrajCtx.getState (cx : TrajCtx) (sp : Option SpeciesArg) (k : Int) : Res (List Rat × Units) :=
  match sp with
  | none => (cx.tr.wholeState k).map fun v => (v, cx.tr.du)
  | some sp =>
    match cx.species sp with
    | .error e => .error e
    | .ok s => (cx.tr.state s k).map fun v => (v, cx.tr.du)

def TrajCtx.getTrajectory (cx : TrajCtx) (sp : SpeciesArg) (p : PosArg) (merge : Bool) : Res (List Rat × Units) :=
  match cx.species sp with
  | .error e => .error e
  | .ok s =>
    match cellIndexOf cx.space p with      -- evaluated even when merge=True (default position 0)
    | .error e => .error e
    | .ok c => ((if merge then cx.tr.merged s else cx.tr.cellTrajectory s c)).map fun v => (v, cx.tr.du)

/-! ### sample-index lookup -/

/-- `for i in range(n-1): if cond(t[i], t[i+1]): return ret(i)`; falling off the loop returns `None`.
A returned value is `(walk, index)`: `walk` = the code passes the index through `_first_sample_with_same_time`. -/
def lookupLoop (cond : Rat → Rat → Bool) (ret : Nat → Rat → Rat → Option (Bool × Nat)) : Nat → List Rat → Option (Bool × Nat)
  | _, [] => none
  | _, [_] => none
  | i, a :: b :: r => if cond a b then ret i a b else lookupLoop cond ret (i + 1) (b :: r)

def lookupWith (pre : Nat → Rat → Rat → Rat → Option (Option (Bool × Nat))) (cond : Rat → Rat → Rat → Bool)
    (ret : Nat → Rat → Rat → Rat → Option (Bool × Nat)) (ts : List Rat) (t : Rat) : Option (Bool × Nat) :=
  match pre ts.length t (ts.headD 0) (ts.getLastD 0) with
  | some r => r
  | none => lookupLoop (cond t) (fun i => ret i t) 0 ts

/-- `_first_sample_with_same_time(i)`: `while i>0 and t[i-1]==t[i] : i -= 1 ; return i` -/
def firstSame (ts : List Rat) : Nat → Nat
  | 0 => if firstSameCond 0 (ts.getD 0 0) (ts.getD 0 0) then 0 else 0     -- `i > 0` fails; nothing is read
  | i + 1 => if firstSameCond ((i + 1 : Nat) : Int) (ts.getD i 0) (ts.getD (i + 1) 0) then firstSame ts i else i + 1

/-- the index finally returned -/
def finish (ts : List Rat) (r : Bool × Nat) : Nat := if r.1 then firstSame ts r.2 else r.2

/-- `_get_sample_index_closest(t)` -/
def sampleClosest (ts : List Rat) (t : Rat) : Option Nat := (lookupWith closestPre closestCond closestRet ts t).map (finish ts)
/-- `_get_sample_index_infeq(t)` -/
def sampleInfeq (ts : List Rat) (t : Rat) : Option Nat := (lookupWith infeqPre infeqCond infeqRet ts t).map (finish ts)
/-- `_get_sample_index_supeq(t)` -/
def sampleSupeq (ts : List Rat) (t : Rat) : Option Nat := (lookupWith supeqPre supeqCond supeqRet ts t).map (finish ts)

/-- the query time as given by the caller -/
inductive TimeArg where
  | num (v : Rat)                    -- bare number: taken in the units of the sample times
  | uval (x : UVal)                  -- UnitValue
  | str (v : Rat) (units : String)   -- text "v units" (the number part is read by `float`, trusted)
  | other                            -- any other type
  deriving Repr

/-- `t = UnitValue(t, self.t.units, convert=True)` -/
def queryTime (tu : Units) : TimeArg → Res Rat
  | .num v => .ok v
  | .uval x => (x.convert (.units tu)).map (·.v)
  | .str v s =>
    match parseUnits s with
    | .error e => .error e
    | .ok u => ((⟨v, u⟩ : UVal).convert (.units tu)).map (·.v)
  | .other => .error .typeError

/-- `get_sample_index(t, policy)`; the accepted-but-undispatched policies return `None` -/
def Traj.sampleIndex (tr : Traj) (q : TimeArg) (policy : String) : Res (Option Nat) :=
  match (if sampleQueryConverted then queryTime tr.tu q else match q with | .num v => .ok v | _ => .error .typeError) with
  | .error e => .error e
  | .ok t =>
    if !samplePolicies.contains policy then .error .badValue
    else
      match sampleDispatch.lookup policy with
      | some "self._get_sample_index_closest(t)" => .ok (sampleClosest tr.ts t)
      | some "self._get_sample_index_infeq(t)" => .ok (sampleInfeq tr.ts t)
      | some "self._get_sample_index_supeq(t)" => .ok (sampleSupeq tr.ts t)
      | _ => .ok none

end Strengths
