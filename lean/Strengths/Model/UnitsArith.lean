/-
Executable model of the arithmetic of `strengths/units.py`: the operators of `UnitValue` and
`UnitArray` (`_sum/_product/_modulo/_rmodulo/invert`, the module functions `_neg/_inv`, the forward
and reflected dunder methods, `__pow__` via `Units.raiseto`, the comparison methods) and Python's
dispatch between them, followed line by line.  Numbers are exact rationals (DESIGN §4).
Core Lean only.  The SI-level specification (`evalSI`) is at the end of the file.

Boundaries of the model (all explicit, none silent):
* division / modulo by an exact zero: Python floats raise `ZeroDivisionError` (`Err.badValue`);
  numpy elements give `inf`/`nan` with a warning instead — non-finite doubles are outside the exact
  model, reported as `Err.outOfRange`.  The correspondence check skips both (generated magnitudes are
  non-zero; an exact zero can only appear through cancellation).
* a non-integer power of a positive number is irrational in general: `pyPow` is a parameter
  (trusted primitive, contract `PowContract` in `Props/C05.lean`).
-/
import Strengths.Model.Units
import Strengths.Gen.UnitsOps

namespace Strengths

/-- what can stand on either side of an operator -/
inductive Operand where
  | num (r : Rat)        -- int / float / bool / numpy scalar (`isnumber`)
  | val (x : UVal)       -- UnitValue
  | arr (x : UArr)       -- UnitArray
  deriving DecidableEq, Repr, Inhabited

inductive BinOp where
  | add | sub | mul | div | mod
  deriving DecidableEq, Repr, Inhabited

inductive CmpOp where
  | eq | ne | lt | le | gt | ge
  deriving DecidableEq, Repr, Inhabited

/-- Python float `a % b` for `b ≠ 0`: the result has the sign of the divisor. -/
def pyMod (a b : Rat) : Rat := a - b * ((a / b).floor : Int)

/-- Python `int(x)` on a number: truncation toward zero. -/
def ratTrunc (r : Rat) : Int := if 0 ≤ r then r.floor else -((-r).floor)

/-! ### `Units.invert / multiply / raiseto` -/

def Units.invert (u : Units) : Units := ⟨u.sys, u.dim.neg⟩

/-- `Units.multiply`: refuses different systems (callers convert first) -/
def Units.multiply (a b : Units) : Res Units :=
  if a.sys ≠ b.sys then .error .badValue else .ok ⟨a.sys, a.dim.add b.dim⟩

/-- one component of `raiseto`: `rdim = int(dim*e)`; raises when `dim*e - rdim != 0` -/
def raiseDim (d : Int) (e : Rat) : Res Int :=
  if (d : Rat) * e - (ratTrunc ((d : Rat) * e) : Int) ≠ 0 then .error .badValue else .ok (ratTrunc ((d : Rat) * e))

def Units.raiseto (u : Units) (e : Rat) : Res Units :=
  match raiseDim u.dim.space e with
  | .error er => .error er
  | .ok a =>
    match raiseDim u.dim.time e with
    | .error er => .error er
    | .ok b =>
      match raiseDim u.dim.qty e with
      | .error er => .error er
      | .ok c => .ok ⟨u.sys, ⟨a, b, c⟩⟩

/-! ### `_neg`, `_inv`, `invert`, `__neg__`, `__abs__` -/

/-- `_neg(v)` = `-v` (`__neg__` of the two classes) -/
def Operand.neg : Operand → Operand
  | .num r => .num (-r)
  | .val x => .val ⟨-x.v, x.u⟩
  | .arr x => .arr ⟨x.vs.map (fun a => -a), x.u⟩

/-- `abs(v)` -/
def Operand.abs : Operand → Operand
  | .num r => .num (if 0 ≤ r then r else -r)
  | .val x => .val ⟨if 0 ≤ x.v then x.v else -x.v, x.u⟩
  | .arr x => .arr ⟨x.vs.map (fun a => if 0 ≤ a then a else -a), x.u⟩

/-- `UnitValue.invert` : `UnitValue(1/self.value, self.units.invert())` -/
def UVal.invert (x : UVal) : Res UVal :=
  if x.v = 0 then .error .badValue else .ok ⟨1 / x.v, x.u.invert⟩

/-- `UnitArray.invert` : `UnitArray(1/self.value, …)` (numpy: a zero element gives `inf`, outside the model) -/
def UArr.invert (x : UArr) : Res UArr :=
  if 0 ∈ x.vs then .error .outOfRange else .ok ⟨x.vs.map (fun a => 1 / a), x.u.invert⟩

/-- `_inv(v)` -/
def Operand.inv : Operand → Res Operand
  | .num r => if r = 0 then .error .badValue else .ok (.num (1 / r))
  | .val x => match x.invert with | .error e => .error e | .ok y => .ok (.val y)
  | .arr x => match x.invert with | .error e => .error e | .ok y => .ok (.arr y)

/-! ### `UnitValue._sum/_product/_modulo/_rmodulo` -/

def UVal.sum (self : UVal) : Operand → Res Operand
  | .val v =>
    if self.u.dim = v.u.dim then .ok (.val ⟨self.v + (v.toSys self.u.sys).v, self.u⟩)
    else .error .dimMismatch
  | .num n => .ok (.val ⟨self.v + n, self.u⟩)
  | .arr v =>
    if self.u.dim ≠ v.u.dim then .error .dimMismatch
    else .ok (.arr ⟨(v.toSys self.u.sys).vs.map (fun b => self.v + b), self.u⟩)

def UVal.product (self : UVal) : Operand → Res Operand
  | .val v =>
    match self.u.multiply (v.toSys self.u.sys).u with
    | .error e => .error e
    | .ok u => .ok (.val ⟨self.v * (v.toSys self.u.sys).v, u⟩)
  | .num n => .ok (.val ⟨self.v * n, self.u⟩)
  | .arr v =>
    match self.u.multiply (v.toSys self.u.sys).u with
    | .error e => .error e
    | .ok u => .ok (.arr ⟨(v.toSys self.u.sys).vs.map (fun b => self.v * b), u⟩)

def UVal.modulo (self : UVal) : Operand → Res Operand
  | .val m =>
    if self.u.dim = m.u.dim then
      if (m.toSys self.u.sys).v = 0 then .error .badValue
      else .ok (.val ⟨pyMod self.v (m.toSys self.u.sys).v, self.u⟩)
    else .error .dimMismatch
  | .num n => if n = 0 then .error .badValue else .ok (.val ⟨pyMod self.v n, self.u⟩)
  | .arr m =>
    if self.u.dim ≠ m.u.dim then .error .dimMismatch
    else if 0 ∈ (m.toSys self.u.sys).vs then .error .outOfRange
    else .ok (.arr ⟨(m.toSys self.u.sys).vs.map (fun b => pyMod self.v b), self.u⟩)

def UVal.rmodulo (self : UVal) : Operand → Res Operand
  | .val v =>
    if self.u.dim = v.u.dim then
      if self.v = 0 then .error .badValue
      else .ok (.val ⟨pyMod (v.toSys self.u.sys).v self.v, self.u⟩)
    else .error .dimMismatch
  | .num n => if self.v = 0 then .error .badValue else .ok (.val ⟨pyMod n self.v, self.u⟩)
  | .arr v =>
    if self.u.dim ≠ v.u.dim then .error .dimMismatch
    else if self.v = 0 then .error .outOfRange
    else .ok (.arr ⟨(v.toSys self.u.sys).vs.map (fun a => pyMod a self.v), self.u⟩)

/-! ### `UnitArray._sum/_product/_modulo/_rmodulo` -/

def UArr.sum (self : UArr) : Operand → Res Operand
  | .val v =>
    if self.u.dim ≠ v.u.dim then .error .dimMismatch
    else .ok (.arr ⟨self.vs.map (fun a => a + (v.toSys self.u.sys).v), self.u⟩)
  | .num n => .ok (.arr ⟨self.vs.map (fun a => a + n), self.u⟩)
  | .arr v =>
    if self.u.dim ≠ v.u.dim then .error .dimMismatch
    else if self.vs.length ≠ v.vs.length then .error .badValue
    else .ok (.arr ⟨List.zipWith (fun a b => a + b) self.vs (v.toSys self.u.sys).vs, self.u⟩)

def UArr.product (self : UArr) : Operand → Res Operand
  | .val v =>
    match self.u.multiply (v.toSys self.u.sys).u with
    | .error e => .error e
    | .ok u => .ok (.arr ⟨self.vs.map (fun a => a * (v.toSys self.u.sys).v), u⟩)
  | .num n => .ok (.arr ⟨self.vs.map (fun a => a * n), self.u⟩)
  | .arr v =>
    if self.vs.length ≠ v.vs.length then .error .badValue
    else
      match self.u.multiply (v.toSys self.u.sys).u with
      | .error e => .error e
      | .ok u => .ok (.arr ⟨List.zipWith (fun a b => a * b) self.vs (v.toSys self.u.sys).vs, u⟩)

def UArr.modulo (self : UArr) : Operand → Res Operand
  | .val m =>
    if self.u.dim ≠ m.u.dim then .error .dimMismatch
    else if (m.toSys self.u.sys).v = 0 then .error .outOfRange
    else .ok (.arr ⟨self.vs.map (fun a => pyMod a (m.toSys self.u.sys).v), self.u⟩)
  | .num n =>
    if n = 0 then .error .outOfRange else .ok (.arr ⟨self.vs.map (fun a => pyMod a n), self.u⟩)
  | .arr m =>
    if self.u.dim ≠ m.u.dim then .error .dimMismatch
    else if self.vs.length ≠ m.vs.length then .error .badValue
    else if 0 ∈ (m.toSys self.u.sys).vs then .error .outOfRange
    else .ok (.arr ⟨List.zipWith (fun a b => pyMod a b) self.vs (m.toSys self.u.sys).vs, self.u⟩)

def UArr.rmodulo (self : UArr) : Operand → Res Operand
  | .val v =>
    if self.u.dim ≠ v.u.dim then .error .dimMismatch
    else if 0 ∈ self.vs then .error .outOfRange
    else .ok (.arr ⟨self.vs.map (fun b => pyMod (v.toSys self.u.sys).v b), self.u⟩)
  | .num n =>
    if 0 ∈ self.vs then .error .outOfRange else .ok (.arr ⟨self.vs.map (fun b => pyMod n b), self.u⟩)
  | .arr v =>
    if self.u.dim ≠ v.u.dim then .error .dimMismatch
    else if self.vs.length ≠ v.vs.length then .error .badValue
    else if 0 ∈ self.vs then .error .outOfRange
    else .ok (.arr ⟨List.zipWith (fun a b => pyMod a b) (v.toSys self.u.sys).vs self.vs, self.u⟩)

/-! ### the operator methods (`__add__` … `__rmod__`) and Python's dispatch -/

/-- `Res.map Operand.neg` without `do` -/
def negRes : Res Operand → Res Operand
  | .error e => .error e
  | .ok r => .ok r.neg

/-- forward methods of `UnitValue` -/
def UVal.dunder (op : BinOp) (self : UVal) (v : Operand) : Res Operand :=
  match op with
  | .add => self.sum v                                   -- `self._sum(v)`
  | .sub => self.sum v.neg                               -- `self._sum(_neg(v))`
  | .mul => self.product v                               -- `self._product(v)`
  | .div => match v.inv with                             -- `self._product(_inv(v))`
    | .error e => .error e
    | .ok w => self.product w
  | .mod => self.modulo v                                -- `self._modulo(v)`

/-- reflected methods of `UnitValue` (`v op self`) -/
def UVal.rdunder (op : BinOp) (self : UVal) (v : Operand) : Res Operand :=
  match op with
  | .add => self.sum v                                   -- `self._sum(v)`
  | .sub => negRes (self.sum v.neg)                      -- `_neg(self._sum(_neg(v)))`
  | .mul => self.product v                               -- `self._product(v)`
  | .div => match self.invert with                       -- `self.invert()._product(v)`
    | .error e => .error e
    | .ok s => s.product v
  | .mod => self.rmodulo v                               -- `self._rmodulo(v)`

def UArr.dunder (op : BinOp) (self : UArr) (v : Operand) : Res Operand :=
  match op with
  | .add => self.sum v
  | .sub => self.sum v.neg
  | .mul => self.product v
  | .div => match v.inv with
    | .error e => .error e
    | .ok w => self.product w
  | .mod => self.modulo v

def UArr.rdunder (op : BinOp) (self : UArr) (v : Operand) : Res Operand :=
  match op with
  | .add => self.sum v
  | .sub => negRes (self.sum v.neg)
  | .mul => self.product v
  | .div => match self.invert with
    | .error e => .error e
    | .ok s => s.product v
  | .mod => self.rmodulo v

/-- number `op` number: plain Python arithmetic -/
def numOp (op : BinOp) (a b : Rat) : Res Operand :=
  match op with
  | .add => .ok (.num (a + b))
  | .sub => .ok (.num (a - b))
  | .mul => .ok (.num (a * b))
  | .div => if b = 0 then .error .badValue else .ok (.num (a / b))
  | .mod => if b = 0 then .error .badValue else .ok (.num (pyMod a b))

/-- Python's binary-operator dispatch: the left operand's forward method when it is a quantity;
for a number on the left, `number.__op__` returns `NotImplemented` and the right operand's
reflected method runs. -/
def binop (op : BinOp) : Operand → Operand → Res Operand
  | .num a, .num b => numOp op a b
  | .val x, v => x.dunder op v
  | .arr x, v => x.dunder op v
  | .num a, .val x => x.rdunder op (.num a)
  | .num a, .arr x => x.rdunder op (.num a)

/-! ### `**` -/

/-- `float ** v` : integer exponents exactly; a non-integer exponent of a positive base is the trusted
primitive `pyPow`; `0.0 ** negative` raises `ZeroDivisionError`; a negative base with a non-integer
exponent gives a complex number, which `float()` in the `UnitValue` constructor rejects (`TypeError`). -/
def powVal (pyPow : Rat → Rat → Rat) (v e : Rat) : Res Rat :=
  if e.den = 1 then
    if v = 0 ∧ e.num < 0 then .error .badValue else .ok (v ^ e.num)
  else if v < 0 then .error .typeError
  else if v = 0 then (if e < 0 then .error .badValue else .ok 0)
  else .ok (pyPow v e)

/-- `UnitValue.__pow__` : `UnitValue(self.value**v, self.units.raiseto(v))` -/
def UVal.pow (pyPow : Rat → Rat → Rat) (self : UVal) (e : Rat) : Res UVal :=
  match powVal pyPow self.v e with
  | .error er => .error er
  | .ok w =>
    match self.u.raiseto e with
    | .error er => .error er
    | .ok u => .ok ⟨w, u⟩

/-- `a ** b` with Python's dispatch: `UnitValue.__pow__` wants a number; `UnitArray.__pow__` always
raises `NotImplementedError`; `UnitValue.__rpow__` raises `NotImplementedError`, `UnitArray.__rpow__`
`ValueError`. -/
def powOp (pyPow : Rat → Rat → Rat) : Operand → Operand → Res Operand
  | .val x, .num e => match x.pow pyPow e with | .error er => .error er | .ok y => .ok (.val y)
  | .val _, .val _ => .error .typeError
  | .val _, .arr _ => .error .typeError
  | .arr _, _ => .error .notImplemented
  | .num _, .val _ => .error .notImplemented
  | .num _, .arr _ => .error .badValue
  | .num a, .num e => match powVal pyPow a e with | .error er => .error er | .ok w => .ok (.num w)

/-! ### expression trees -/

inductive Expr where
  | leaf (o : Operand)
  | bin (op : BinOp) (a b : Expr)
  | pow (a b : Expr)
  | neg (a : Expr)
  | abs (a : Expr)
  | inv (a : Expr)          -- `_inv(a)` (= `a.invert()` for quantities, `1/a` for numbers)
  deriving Repr, Inhabited

def eval (pyPow : Rat → Rat → Rat) : Expr → Res Operand
  | .leaf o => .ok o
  | .bin op a b =>
    match eval pyPow a with
    | .error e => .error e
    | .ok x =>
      match eval pyPow b with
      | .error e => .error e
      | .ok y => binop op x y
  | .pow a b =>
    match eval pyPow a with
    | .error e => .error e
    | .ok x =>
      match eval pyPow b with
      | .error e => .error e
      | .ok y => powOp pyPow x y
  | .neg a => match eval pyPow a with | .error e => .error e | .ok x => .ok x.neg
  | .abs a => match eval pyPow a with | .error e => .error e | .ok x => .ok x.abs
  | .inv a => match eval pyPow a with | .error e => .error e | .ok x => x.inv

/-! ### comparisons -/

/-- what a comparison evaluates to: a boolean, or — `UnitValue.__gt__/__ge__/__lt__/__le__` on an
operand that is neither a UnitValue nor a number — a `TypeError` *instance* that is returned, not raised -/
inductive CmpRes where
  | bool (b : Bool)
  | excObject
  deriving DecidableEq, Repr, Inhabited

def cmpRat (op : CmpOp) (a b : Rat) : Bool :=
  match op with
  | .eq => decide (a = b) | .ne => !decide (a = b)
  | .lt => decide (a < b) | .le => decide (a ≤ b)
  | .gt => decide (a > b) | .ge => decide (a ≥ b)

/-- the operator Python tries on the right operand when the left one does not implement `op` -/
def CmpOp.swap : CmpOp → CmpOp
  | .eq => .eq | .ne => .ne | .lt => .gt | .le => .ge | .gt => .lt | .ge => .le

def CmpOp.isOrdering : CmpOp → Bool
  | .eq => false | .ne => false | _ => true

/-- does the last (`else`) branch of the ordering method `op` of `UnitValue` *raise* its `TypeError`?  Read from
the regenerated source (`Gen.uvalCmp_*`): at the time of writing it `return`s the exception object (known finding
`cmp-array-returns-exception-object`); the model follows whichever the tree under test does. -/
def cmpElseRaises (op : CmpOp) : Bool :=
  let tbl := match op with
    | .gt => Gen.uvalCmp_gt | .ge => Gen.uvalCmp_ge | .lt => Gen.uvalCmp_lt | .le => Gen.uvalCmp_le
    | _ => []
  tbl.getLast? == some ("else", "raise TypeError")

/-- `UnitValue.__eq__/__gt__/__ge__/__lt__/__le__(v)`, and `!=` as Python derives it (`not __eq__`;
the class only defines a mis-named `__neq__`) -/
def UVal.cmp (op : CmpOp) (self : UVal) : Operand → Res CmpRes
  | .val v =>
    if self.u.dim = v.u.dim then .ok (.bool (cmpRat op self.v (v.toSys self.u.sys).v))
    else
      match op with
      | .eq => .ok (.bool false)
      | .ne => .ok (.bool true)
      | _ => .error .dimMismatch
  | .num n => .ok (.bool (cmpRat op self.v n))
  | .arr _ =>
    match op with
    | .eq => .ok (.bool false)
    | .ne => .ok (.bool true)
    | _ => if cmpElseRaises op then .error .typeError else .ok .excObject

/-- `a op b` with Python's rich-comparison dispatch.  `UnitArray` defines no comparison method:
`==` falls back to object identity (two distinct objects: `False`), ordering against a non-`UnitValue`
raises `TypeError`, and against a `UnitValue` Python calls the swapped method of the `UnitValue`. -/
def cmpOp (op : CmpOp) : Operand → Operand → Res CmpRes
  | .num a, .num b => .ok (.bool (cmpRat op a b))
  | .val x, v => x.cmp op v
  | .num a, .val x => x.cmp op.swap (.num a)
  | .arr a, .val x => x.cmp op.swap (.arr a)
  | .arr _, .num _ | .num _, .arr _ | .arr _, .arr _ =>
    match op with
    | .eq => .ok (.bool false)
    | .ne => .ok (.bool true)
    | _ => .error .typeError

def evalCmp (pyPow : Rat → Rat → Rat) (op : CmpOp) (a b : Expr) : Res CmpRes :=
  match eval pyPow a with
  | .error e => .error e
  | .ok x =>
    match eval pyPow b with
    | .error e => .error e
    | .ok y => cmpOp op x y

/-! ## Specification: arithmetic on SI values and dimension vectors

Written from the property text, not from the code: a quantity is its value in SI base units, its
dimension vector, and the unit system it is currently expressed in.  The system is consulted in exactly
one place: a plain number standing next to a quantity in `+ - %` or a comparison is read in that
quantity's units (`n` means `n · siFactor sys dim`). -/

/-- one SI value, or a list of them -/
inductive Pay where
  | one (q : Rat)
  | many (qs : List Rat)
  deriving DecidableEq, Repr, Inhabited

def Pay.map (f : Rat → Rat) : Pay → Pay
  | .one q => .one (f q)
  | .many qs => .many (qs.map f)

def Pay.hasZero : Pay → Bool
  | .one q => decide (q = 0)
  | .many qs => decide (0 ∈ qs)

/-- element-wise combination with broadcasting; two lists must have the same length -/
def Pay.zip (f : Rat → Rat → Rat) : Pay → Pay → Res Pay
  | .one a, .one b => .ok (.one (f a b))
  | .one a, .many bs => .ok (.many (bs.map (fun b => f a b)))
  | .many as, .one b => .ok (.many (as.map (fun a => f a b)))
  | .many as, .many bs =>
    if as.length ≠ bs.length then .error .badValue else .ok (.many (List.zipWith f as bs))

inductive SIVal where
  | num (r : Rat)
  | qty (p : Pay) (d : Dim) (s : Sys)
  deriving DecidableEq, Repr, Inhabited

def siOf : Operand → SIVal
  | .num r => .num r
  | .val x => .qty (.one x.si) x.u.dim x.u.sys
  | .arr x => .qty (.many x.si) x.u.dim x.u.sys

def Dim.sub (a b : Dim) : Dim := ⟨a.space - b.space, a.time - b.time, a.qty - b.qty⟩

def ratOp (op : BinOp) (a b : Rat) : Rat :=
  match op with
  | .add => a + b | .sub => a - b | .mul => a * b | .div => a / b | .mod => pyMod a b

def BinOp.additive : BinOp → Bool
  | .add | .sub | .mod => true
  | _ => false

def BinOp.needsNonZero : BinOp → Bool
  | .div | .mod => true
  | _ => false

def qtyOk (p : Res Pay) (d : Dim) (s : Sys) : Res SIVal :=
  match p with
  | .error e => .error e
  | .ok p => .ok (.qty p d s)

/-- `a op b` on SI values: same dimension required for `+ - %`, dimension vectors added / subtracted
for `* /`; a plain number is read in the other operand's units for `+ - %` and is dimensionless for
`* /`; a zero divisor is an error.  The result stays expressed in the system of the (left-most)
quantity operand. -/
def siBin (op : BinOp) : SIVal → SIVal → Res SIVal
  | .num a, .num b =>
    if op.needsNonZero ∧ b = 0 then .error .badValue else .ok (.num (ratOp op a b))
  | .qty p d s, .num n =>
    if op.needsNonZero ∧ n = 0 then .error .badValue
    else if op.additive then qtyOk (Pay.zip (ratOp op) p (.one (n * siFactor s d))) d s
    else qtyOk (Pay.zip (ratOp op) p (.one n)) d s
  | .num n, .qty p d s =>
    if op.needsNonZero ∧ p.hasZero then .error .badValue
    else if op.additive then qtyOk (Pay.zip (ratOp op) (.one (n * siFactor s d)) p) d s
    else qtyOk (Pay.zip (ratOp op) (.one n) p) (if op = .div then d.neg else d) s
  | .qty p d s, .qty p' d' _ =>
    if op.additive then
      if d ≠ d' then .error .dimMismatch
      else if op.needsNonZero ∧ p'.hasZero then .error .badValue
      else qtyOk (Pay.zip (ratOp op) p p') d s
    else if op.needsNonZero ∧ p'.hasZero then .error .badValue
    else qtyOk (Pay.zip (ratOp op) p p') (if op = .div then d.sub d' else d.add d') s

def siNeg : SIVal → SIVal
  | .num r => .num (-r)
  | .qty p d s => .qty (p.map (fun a => -a)) d s

def siAbs : SIVal → SIVal
  | .num r => .num (if 0 ≤ r then r else -r)
  | .qty p d s => .qty (p.map (fun a => if 0 ≤ a then a else -a)) d s

def siInv : SIVal → Res SIVal
  | .num r => if r = 0 then .error .badValue else .ok (.num (1 / r))
  | .qty p d s => if p.hasZero then .error .badValue else .ok (.qty (p.map (fun a => 1 / a)) d.neg s)

/-- `dim · e` must be an integer vector -/
def dimPow (d : Dim) (e : Rat) : Option Dim :=
  if ((d.space : Rat) * e).den = 1 ∧ ((d.time : Rat) * e).den = 1 ∧ ((d.qty : Rat) * e).den = 1 then
    some ⟨((d.space : Rat) * e).num, ((d.time : Rat) * e).num, ((d.qty : Rat) * e).num⟩
  else none

/-- `**` is for scalar quantities (and plain numbers) with a plain-number exponent -/
def siPow (pyPow : Rat → Rat → Rat) : SIVal → SIVal → Res SIVal
  | .num a, .num e => match powVal pyPow a e with | .error er => .error er | .ok w => .ok (.num w)
  | .qty (.one q) d s, .num e =>
    match powVal pyPow q e with
    | .error er => .error er
    | .ok w =>
      match dimPow d e with
      | none => .error .badValue
      | some d' => .ok (.qty (.one w) d' s)
  | _, _ => .error .typeError

def evalSI (pyPow : Rat → Rat → Rat) : Expr → Res SIVal
  | .leaf o => .ok (siOf o)
  | .bin op a b =>
    match evalSI pyPow a with
    | .error e => .error e
    | .ok x =>
      match evalSI pyPow b with
      | .error e => .error e
      | .ok y => siBin op x y
  | .pow a b =>
    match evalSI pyPow a with
    | .error e => .error e
    | .ok x =>
      match evalSI pyPow b with
      | .error e => .error e
      | .ok y => siPow pyPow x y
  | .neg a => match evalSI pyPow a with | .error e => .error e | .ok x => .ok (siNeg x)
  | .abs a => match evalSI pyPow a with | .error e => .error e | .ok x => .ok (siAbs x)
  | .inv a => match evalSI pyPow a with | .error e => .error e | .ok x => siInv x

/-- comparison of SI values: scalars only (quantity–quantity of one dimension, quantity–number with the
number read in the quantity's units); different dimensions: `==` is `False`, `!=` is `True`, ordering is
an error; anything involving a list must not produce a truth value for an ordering. -/
def siCmp (op : CmpOp) : SIVal → SIVal → Res Bool
  | .num a, .num b => .ok (cmpRat op a b)
  | .qty (.one q) d s, .num n => .ok (cmpRat op q (n * siFactor s d))
  | .num n, .qty (.one q) d s => .ok (cmpRat op (n * siFactor s d) q)
  | .qty (.one q) d _, .qty (.one q') d' _ =>
    if d = d' then .ok (cmpRat op q q')
    else match op with
      | .eq => .ok false
      | .ne => .ok true
      | _ => .error .dimMismatch
  | _, _ =>
    match op with
    | .eq => .ok false
    | .ne => .ok true
    | _ => .error .typeError

def evalCmpSI (pyPow : Rat → Rat → Rat) (op : CmpOp) (a b : Expr) : Res Bool :=
  match evalSI pyPow a with
  | .error e => .error e
  | .ok x =>
    match evalSI pyPow b with
    | .error e => .error e
    | .ok y => siCmp op x y

end Strengths
