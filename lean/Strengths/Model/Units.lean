/-
Executable model of `strengths/units.py`: unit systems, dimensions, conversion, unit text.
Hand-written, parameterised by the generated tables of `Strengths.Gen.Units` (G1, G2).
Numbers are exact rationals (DESIGN §4).  Core Lean only.
-/
import Strengths.Model.Basic
import Strengths.Gen.Units
import Strengths.Gen.UnitsText

namespace Strengths
open Gen

/-- `UnitsSystem` : one unit symbol per base kind. -/
structure Sys where
  space : String
  time : String
  qty : String
  deriving DecidableEq, Repr, Inhabited

/-- `UnitsDimensions` : one integer exponent per base kind. -/
structure Dim where
  space : Int
  time : Int
  qty : Int
  deriving DecidableEq, Repr, Inhabited

/-- `Units` -/
structure Units where
  sys : Sys
  dim : Dim
  deriving DecidableEq, Repr, Inhabited

def Sys.default : Sys := ⟨defaultSpace, defaultTime, defaultQty⟩
def Dim.zero : Dim := ⟨0, 0, 0⟩
def Dim.add (a b : Dim) : Dim := ⟨a.space + b.space, a.time + b.time, a.qty + b.qty⟩
def Dim.neg (a : Dim) : Dim := ⟨-a.space, -a.time, -a.qty⟩
def Dim.smul (n : Int) (a : Dim) : Dim := ⟨n * a.space, n * a.time, n * a.qty⟩

-- the named dimensions of units.py
def Dim.density : Dim := ⟨-3, 0, 1⟩
def Dim.surface : Dim := ⟨2, 0, 0⟩
def Dim.volume : Dim := ⟨3, 0, 0⟩
def Dim.quantity : Dim := ⟨0, 0, 1⟩
def Dim.length : Dim := ⟨1, 0, 0⟩
def Dim.time_ : Dim := ⟨0, 1, 0⟩
def Dim.diffusion : Dim := ⟨2, -1, 0⟩
def Dim.rate : Dim := ⟨0, -1, 1⟩

/-- `UnitsSystem._check_space/_check_time/_check_quantity`: the symbol must be in the label list. -/
def Sys.valid (u : Sys) : Bool :=
  spaceSyms.contains u.space && timeSyms.contains u.time && qtySyms.contains u.qty

/-- `UnitsSystem(space, time, quantity)` -/
def mkSys (sp tm q : String) : Res Sys :=
  if Sys.valid ⟨sp, tm, q⟩ then .ok ⟨sp, tm, q⟩ else .error .badUnit

/-- `_units_conversion_dict[kind][sym]`; the code raises `KeyError` for a missing symbol, which
cannot happen for a valid system (theorem `C06.scale_tables_cover_labels`). -/
def scaleIn (tbl : List (String × Rat)) (s : String) : Rat := (tbl.lookup s).getD 0

def Sys.sSpace (u : Sys) : Rat := scaleIn spaceScale u.space
def Sys.sTime (u : Sys) : Rat := scaleIn timeScale u.time
def Sys.sQty (u : Sys) : Rat := scaleIn qtyScale u.qty

/-- `compute_conversion_factor(su_src, su_dst, sdim)` -/
def convFactor (src dst : Sys) (d : Dim) : Rat :=
  (src.sSpace / dst.sSpace) ^ d.space * (src.sTime / dst.sTime) ^ d.time * (src.sQty / dst.sQty) ^ d.qty

/-- SI value of one unit of dimension `d` in system `u` (Spec-side helper: metres, seconds, molecules). -/
def siFactor (u : Sys) (d : Dim) : Rat :=
  u.sSpace ^ d.space * u.sTime ^ d.time * u.sQty ^ d.qty

/-- `Units.__eq__` : same exponents, and same base unit wherever the exponent is non-zero. -/
def Units.eqv (a b : Units) : Bool :=
  a.dim == b.dim &&
  (a.dim.space == 0 || a.sys.space == b.sys.space) &&
  (a.dim.time == 0 || a.sys.time == b.sys.time) &&
  (a.dim.qty == 0 || a.sys.qty == b.sys.qty)

/-! ### Unit text -/

/-- decimal digit `d < 10` as a character -/
def digitChar (d : Nat) : Char := Char.ofNat (48 + d)

/-- `str(n)` for a natural number, most significant digit first (fuel-structural; `fuel ≥ n` suffices) -/
def showNatF : Nat → Nat → List Char
  | 0, n => [digitChar (n % 10)]
  | f + 1, n => if n < 10 then [digitChar n] else showNatF f (n / 10) ++ [digitChar (n % 10)]

def showNatChars (n : Nat) : List Char := showNatF n n

/-- `str(int)` -/
def showIntChars (n : Int) : List Char :=
  if n < 0 then '-' :: showNatChars n.natAbs else showNatChars n.toNat

def showInt (n : Int) : String := String.ofList (showIntChars n)

/-- Python `sep.join(parts)` on character lists -/
def joinSep (sep : List Char) : List (List Char) → List Char
  | [] => []
  | [a] => a
  | a :: b :: r => a ++ sep ++ joinSep sep (b :: r)

/-- one entry of the list `s` built by `Units.__str__`: nothing for the skipped exponent (0), the bare
symbol for exponent 1, symbol followed by `str(exponent)` otherwise -/
def showPart (sym : List Char) (e : Int) : List (List Char) :=
  if e == strSkipExp then [] else if e == strBareExp then [sym] else [sym ++ showIntChars e]

/-- `Units.__str__` on character lists (key order space, time, quantity: `strKeys`) -/
def showUnitsChars (u : Units) : List Char :=
  joinSep strSep.toList
    (showPart u.sys.space.toList u.dim.space ++ showPart u.sys.time.toList u.dim.time ++
      showPart u.sys.qty.toList u.dim.qty)

/-- `Units.__str__` -/
def showUnits (u : Units) : String := String.ofList (showUnitsChars u)

/-- Python `str.replace(a, b)` on character lists: leftmost non-overlapping occurrences.
Structural recursion: `skip` counts the remaining characters of an occurrence already replaced. -/
def replaceAux (a b : List Char) : Nat → List Char → List Char
  | _, [] => []
  | skip + 1, _ :: cs => replaceAux a b skip cs
  | 0, c :: cs =>
    if a.isPrefixOf (c :: cs) && !a.isEmpty then b ++ replaceAux a b (a.length - 1) cs
    else c :: replaceAux a b 0 cs

def replaceAll (a b : List Char) (s : List Char) : List Char := replaceAux a b 0 s

/-- the characters for which Python's `str.isspace()` holds, i.e. what `str.strip()`, `str.split()`,
`int()` and the whitespace guard of `parse_units` treat as blank -/
def isBlank (c : Char) : Bool :=
  c == ' ' || c == '\t' || c == '\n' || c == '\r' || c == '\x0b' || c == '\x0c' ||
  c == '\x1c' || c == '\x1d' || c == '\x1e' || c == '\x1f' || c == '\x85' || c == '\xa0' ||
  c == '\u1680' || (0x2000 ≤ c.toNat && c.toNat ≤ 0x200a) || c == '\u2028' || c == '\u2029' ||
  c == '\u202f' || c == '\u205f' || c == '\u3000'

def stripBy (p : Char → Bool) (s : List Char) : List Char :=
  ((s.dropWhile p).reverse.dropWhile p).reverse

def stripBlank (s : List Char) : List Char := stripBy isBlank s

/-- the blanks `int(text)` strips: `str.isspace()` except the ASCII separators 0x1c–0x1f
(CPython converts non-ASCII blanks to spaces, then strips C `isspace` characters) -/
def isIntBlank (c : Char) : Bool :=
  isBlank c && !(c == '\x1c' || c == '\x1d' || c == '\x1e' || c == '\x1f')

/-- digit loop of `int(text)`: ASCII digits, single underscores allowed between digits -/
def pyIntGo (acc : Nat) (prevDigit : Bool) : List Char → Option Nat
  | [] => if prevDigit then some acc else none
  | c :: cs =>
    if c.isDigit then pyIntGo (acc * 10 + (c.toNat - '0'.toNat)) true cs
    else if c == '_' && prevDigit && (cs.head?.map Char.isDigit).getD false then pyIntGo acc false cs
    else none

/-- Python `int(text)` for the texts that can reach it here: optional surrounding blanks, an optional
sign, then ASCII digits, single underscores allowed between digits.  (Non-ASCII decimal digits, which
Python's `int` also accepts, are outside the model.) -/
def pyIntBody (neg : Bool) (body : List Char) : Option Int :=
  match body with
  | [] => none
  | _ =>
    match pyIntGo 0 false body with
    | none => none
    | some n => some (if neg then -(Int.ofNat n) else Int.ofNat n)

def pyInt (s : List Char) : Option Int :=
  match stripBy isIntBlank s with
  | '-' :: r => pyIntBody true r
  | '+' :: r => pyIntBody false r
  | r => pyIntBody false r

/-- one block of the character loop of `parse_units`: separator, symbol text, exponent text -/
structure Block where
  sep : Char
  sym : List Char
  exp : List Char
  deriving Repr, DecidableEq

/-- the character loop of `parse_units` (state: finished blocks in reverse, current block, exp flag) -/
def scanBlocks : List Char → List Block → Block → Bool → List Block
  | [], done, cur, _ => (cur :: done).reverse
  | c :: cs, done, cur, exp =>
    if sepChars.contains c then scanBlocks cs (cur :: done) ⟨c, [], []⟩ false
    else
      let exp' := exp || expChars.contains c
      if exp' then scanBlocks cs done { cur with exp := cur.exp ++ [c] } exp'
      else scanBlocks cs done { cur with sym := cur.sym ++ [c] } exp'

/-- `get_unit_type` : first label list (in dictionary order) containing the symbol -/
def unitType (sym : String) : Option String :=
  let tbl : List (String × List String) :=
    [("space", spaceSyms), ("time", timeSyms), ("quantity", qtySyms), ("density", densitySyms), ("volume", volumeSyms)]
  (unitTypeOrder.filterMap fun k => (tbl.lookup k).bind fun l => if l.contains sym then some k else none).head?

/-- accumulator of `parse_units`: unit chosen (if any) and exponent, per base kind -/
structure Acc where
  space : Option String := none
  time : Option String := none
  qty : Option String := none
  dim : Dim := Dim.zero
  deriving Repr, DecidableEq

/-- `addunit(field, su, se)` -/
def Acc.add (a : Acc) (field su : String) (se : Int) : Res Acc :=
  if field == "space" then
    if a.space == none || a.space == some su then .ok { a with space := some su, dim := { a.dim with space := a.dim.space + se } }
    else .error .badUnit
  else if field == "time" then
    if a.time == none || a.time == some su then .ok { a with time := some su, dim := { a.dim with time := a.dim.time + se } }
    else .error .badUnit
  else if field == "quantity" then
    if a.qty == none || a.qty == some su then .ok { a with qty := some su, dim := { a.dim with qty := a.dim.qty + se } }
    else .error .badUnit
  else .error .badUnit

/-- `t.isascii() and t.isdecimal()` : a non-empty run of ASCII digits -/
def asciiDigits (t : List Char) : Bool := !t.isEmpty && t.all Char.isDigit

/-- the strict exponent test of `parse_units`:
`b[2].isascii() and (b[2][1:] if b[2][0] == "-" else b[2]).isdecimal()` (for non-empty `b[2]`) -/
def strictExp (t : List Char) : Bool :=
  match t with
  | '-' :: r => asciiDigits r
  | r => asciiDigits r

/-- does the first loop of `parse_units` raise on this (non-empty) exponent text?  Either the strict test
(when present in the source) fails, or `int()` does. -/
def badExpText (t : List Char) : Bool := (puStrictExponent && !strictExp t) || (pyInt t).isNone

/-- exponent pass of `parse_units` for one block: `if b[2] == "": b[2] = "1"`, `b[2] = int(b[2])`,
`if b[0] == "/": b[2] = -b[2]`; `none` = `int()` raises -/
def blockExp (b : Block) : Option Int :=
  match (if b.exp.isEmpty then pyInt puDefaultExp.toList else pyInt b.exp) with
  | some e => some (if b.sep == puNegSep then -e else e)
  | none => none

/-- the `addunit` calls a symbol gives rise to: (field, base unit, exponent multiplier), in call order;
error = `undefined unit` / `unexpected unit` -/
def symContrib (sym : String) : Res (List (String × String × Int)) :=
  match unitType sym with
  | none => .error .badUnit
  | some "space" => .ok (addUnit_space.map fun (f, m) => (f, sym, m))
  | some "time" => .ok (addUnit_time.map fun (f, m) => (f, sym, m))
  | some "quantity" => .ok (addUnit_quantity.map fun (f, m) => (f, sym, m))
  | some "volume" =>
    match volBase.lookup sym with
    | none => .error .badUnit
    | some base => .ok (addUnit_volume.map fun (f, m) => (f, base, m))
  | some "density" =>
    match concBase.lookup sym with
    | none => .error .badUnit
    | some (q, sp) => .ok (addUnit_density.map fun (f, m) => (f, if f == "space" then sp else q, m))
  | some _ => .error .badUnit

/-- the `addunit` calls of one block, in order, with the block's exponent `e` -/
def Acc.addAll (a : Acc) (e : Int) : List (String × String × Int) → Res Acc
  | [] => .ok a
  | (f, su, m) :: r =>
    match a.add f su (e * m) with
    | .error x => .error x
    | .ok a' => a'.addAll e r

/-- the per-block body of the second loop of `parse_units` -/
def Acc.addBlock (a : Acc) (b : Block) : Res Acc :=
  match blockExp b with
  | none => .error .badSyntax
  | some e =>
    match symContrib (String.ofList b.sym) with
    | .error x => .error x
    | .ok cs => a.addAll e cs

/-- the second loop of `parse_units` -/
def Acc.addBlocks (a : Acc) : List Block → Res Acc
  | [] => .ok a
  | b :: bs =>
    match a.addBlock b with
    | .error x => .error x
    | .ok a' => a'.addBlocks bs

/-- preprocessing of `parse_units`: the `u`→`µ` replace chain, then `strip()` -/
def prepUnits (s0 : List Char) : List Char :=
  stripBlank (uSubst.foldl (fun acc (a, b) => replaceAll a.toList b.toList acc) s0)

/-- `parse_units` after preprocessing -/
def parseUnitsCore (s : List Char) : Res Units :=
  if s.isEmpty then .ok ⟨Sys.default, Dim.zero⟩
  else if puRejectsInnerBlank && s.any isBlank then .error .badSyntax   -- whitespace inside the unit text is rejected
  else
    let blocks := scanBlocks s [] ⟨puFirstBlockSep, [], []⟩ false
    -- first loop: every exponent text must pass the strict test (when present) and be readable by `int()`
    if blocks.any (fun b => !b.exp.isEmpty && badExpText b.exp) then .error .badSyntax
    else
      match ({} : Acc).addBlocks blocks with
      | .error e => .error e
      | .ok acc =>
        let sys : Sys := ⟨acc.space.getD defaultSpace, acc.time.getD defaultTime, acc.qty.getD defaultQty⟩
        if sys.valid then .ok ⟨sys, acc.dim⟩ else .error .badUnit

/-- `parse_units(s)` on a character list.  Note the order of the code: all exponents are read
(`int(...)`) for every block *before* any symbol is looked up. -/
def parseUnitsChars (s0 : List Char) : Res Units := parseUnitsCore (prepUnits s0)

def parseUnits (s : String) : Res Units := parseUnitsChars s.toList

/-- Python `str.split()` (no argument): maximal runs of non-blank characters -/
def splitBlankAux : List Char → List Char → List (List Char)
  | cur, [] => if cur.isEmpty then [] else [cur]
  | cur, c :: cs =>
    if isBlank c then (if cur.isEmpty then splitBlankAux [] cs else cur :: splitBlankAux [] cs)
    else splitBlankAux (cur ++ [c]) cs

def splitBlank (s : List Char) : List (List Char) := splitBlankAux [] s

/-! ### Quantities -/

/-- `UnitValue` -/
structure UVal where
  v : Rat
  u : Units
  deriving DecidableEq, Repr, Inhabited

/-- `UnitArray` -/
structure UArr where
  vs : List Rat
  u : Units
  deriving DecidableEq, Repr, Inhabited

/-- `parse_unitvalue(s)`.  `pyFloat` is Python's `float(text)` (TRUSTED primitive: `none` = raises).
`s.strip()`, `tok = s.split()`; no token: value `uvEmptyValue` with `parse_units(uvEmptyUnits)`; otherwise
`float(tok[0])` and `parse_units(uvUnitTokJoin.join(tok[1:]))`. -/
def parseUnitValueChars (pyFloat : List Char → Option Rat) (s : List Char) : Res UVal :=
  match splitBlank (stripBlank s) with
  | [] =>
    match parseUnitsChars uvEmptyUnits.toList with
    | .error e => .error e
    | .ok u => .ok ⟨uvEmptyValue, u⟩
  | t :: rest =>
    match pyFloat t with
    | none => .error .badSyntax
    | some v =>
      match parseUnitsChars (joinSep uvUnitTokJoin.toList rest) with
      | .error e => .error e
      | .ok u => .ok ⟨v, u⟩

/-- `UnitValue.__str__`.  `pyRepr` is Python's `str(float)` (TRUSTED primitive). -/
def showUValChars (pyRepr : Rat → List Char) (x : UVal) : List Char :=
  pyRepr x.v ++ uvStrSep.toList ++ showUnitsChars x.u

def UVal.si (x : UVal) : Rat := x.v * siFactor x.u.sys x.u.dim
def UArr.si (x : UArr) : List Rat := x.vs.map (· * siFactor x.u.sys x.u.dim)

/-- the five accepted forms of a conversion target -/
inductive Target where
  | str (s : String)
  | units (u : Units)
  | uval (x : UVal)
  | sys (s : Sys)
  | dict (d : List (String × String))
  deriving Repr

/-- `valproc.process_input_dict_keys(d, [["space"],["time"],["quantity"]])` + `UnitsSystem(...)`
as used by `unitssystem_from_dict`: unknown keys raise; omitted keys take the documented default. -/
def sysFromDict (d : List (String × String)) : Res Sys :=
  if d.any (fun (k, _) => !(k == "space" || k == "time" || k == "quantity")) then .error .badKey
  else mkSys ((d.lookup "space").getD defaultSpace) ((d.lookup "time").getD defaultTime)
    ((d.lookup "quantity").getD defaultQty)

/-- destination system of `convert_unitvalue` / `UnitArray.convert`, with the dimension check -/
def targetSys (d : Dim) : Target → Res Sys
  | .str s =>
    match parseUnits s with
    | .error e => .error e
    | .ok u => if u.dim != d then .error .dimMismatch else .ok u.sys
  | .units u => if u.dim != d then .error .dimMismatch else .ok u.sys
  | .uval x => if x.u.dim != d then .error .dimMismatch else .ok x.u.sys
  | .sys s => .ok s
  | .dict dd => sysFromDict dd

/-- `UnitValue.convert(u)` -/
def UVal.convert (x : UVal) (t : Target) : Res UVal :=
  match targetSys x.u.dim t with
  | .error e => .error e
  | .ok dst => .ok ⟨x.v * convFactor x.u.sys dst x.u.dim, ⟨dst, x.u.dim⟩⟩

/-- `UnitArray.convert(u)` -/
def UArr.convert (x : UArr) (t : Target) : Res UArr :=
  match targetSys x.u.dim t with
  | .error e => .error e
  | .ok dst => .ok ⟨x.vs.map (· * convFactor x.u.sys dst x.u.dim), ⟨dst, x.u.dim⟩⟩

/-- conversion to a units system (the form used internally everywhere) -/
def UVal.toSys (x : UVal) (dst : Sys) : UVal := ⟨x.v * convFactor x.u.sys dst x.u.dim, ⟨dst, x.u.dim⟩⟩
def UArr.toSys (x : UArr) (dst : Sys) : UArr := ⟨x.vs.map (· * convFactor x.u.sys dst x.u.dim), ⟨dst, x.u.dim⟩⟩

end Strengths
