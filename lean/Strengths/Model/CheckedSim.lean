/-
Checked-access engine (C11), part 3: the sampler members with the guarded read of `t_samples`, the algorithm object
(`Init`, `Iterate`), the export functions, and the single-object lifecycle `runChecked`.
-/
import Strengths.Model.CheckedInit
import Strengths.Model.Lifecycle

namespace Strengths

/-! ### sampler -/

structure CSampler where
  policy : Nat
  interval : Rat
  tMax : Rat
  /-- `t_samples` (copy of the `MkVec`'ed argument) and `n_samples` (the `sample_n` argument) -/
  tSamples : Vec Rat
  nSamples : Nat
  samplePos : Nat
  lastTsi : Tsi
  done : Bool
  complete : Bool
  t : Rat
  /-- `sampled_mesh_x`, `sampled_t` -/
  sampledX : Vec (Vec Rat)
  sampledT : Vec Rat

namespace CSampler

/-- `Sample()` -/
def sample (S : CSampler) (x : Vec Rat) : CSampler :=
  if S.done then S else { S with sampledX := S.sampledX.push x, sampledT := S.sampledT.push S.t, done := true }

/-- one conjunct of the `while` condition of `SampleOnTSample`, by its (generated) text -/
def evalCond (S : CSampler) (c : String) : CRes Bool :=
  if c = "sample_pos<n_samples" then .ok (decide (S.samplePos < S.nSamples))
  else if c = "t>=t_samples[sample_pos]" then S.tSamples.rd S.samplePos >>= fun τ => .ok (decide (τ ≤ S.t))
  else .error .oob

/-- `c1 && c2 && …` evaluated left to right with short-circuit -/
def evalConds (S : CSampler) : List String → CRes Bool
  | [] => .ok true
  | c :: rest => S.evalCond c >>= fun b => if b then S.evalConds rest else .ok false

/-- `SampleOnTSample()`: the loop runs at most `n_samples - sample_pos + 1` times (the position grows) -/
def sampleOnTSample (conds : List String) (S : CSampler) (x : Vec Rat) : CRes CSampler :=
  (forUpTo (fun _ (p : CSampler × Bool) =>
    if p.2 then .ok p
    else p.1.evalConds conds >>= fun b =>
      if b then .ok ({ (p.1.sample x) with samplePos := p.1.samplePos + 1 }, false) else .ok (p.1, true))
    (S.nSamples - S.samplePos + 1) (S, false)) >>= fun p => .ok p.1

def sampleOnInterval (S : CSampler) (x : Vec Rat) : CSampler :=
  let r := tsiRatio S.t S.interval
  if r.gt S.lastTsi then { (S.sample x) with lastTsi := r } else S

def samplingStep (conds : List String) (S : CSampler) (x : Vec Rat) : CRes CSampler :=
  match S.policy with
  | 0 => S.sampleOnTSample conds x
  | 1 => .ok (S.sample x)
  | 2 => .ok (S.sampleOnInterval x)
  | _ => .ok S

def checkTMax (S : CSampler) : CSampler :=
  if 0 ≤ S.tMax ∧ S.tMax < S.t then { S with complete := true } else S

end CSampler

/-! ### the algorithm object -/

inductive Scratch where
  | euler (dxdt : Vec Rat)
  | tau (st : TauSt)
  | gil (g : GilSt)

structure CSim where
  T : Tabs
  L : Layout
  /-- the generated conjunct list of this space type's `SampleOnTSample` -/
  conds : List String
  x : Vec Rat
  dt : Rat
  scratch : Scratch
  smp : CSampler
  /-- uniform / log draws consumed -/
  ucnt : Nat

/-- the part of `Iterate()` after the state update: `t += dt; SamplingStep(); CheckTMax(); return !complete` -/
def CSim.finishStep (S : CSim) (x : Vec Rat) (dt : Rat) (scratch : Scratch) (ucnt : Nat) : CRes (CSim × Bool) :=
  CSampler.samplingStep S.conds { S.smp with done := false, t := S.smp.t + dt } x >>= fun smp =>
  let smp := smp.checkTMax
  .ok ({ S with x := x, dt := dt, scratch := scratch, smp := smp, ucnt := ucnt }, !smp.complete)

/-- `Iterate()` of the six algorithms -/
def CSim.iterate (o : Oracles) (S : CSim) : CRes (CSim × Bool) :=
  if S.smp.complete then .ok ({ S with smp := { S.smp with done := false } }, false)
  else
    match S.scratch with
    | .euler dxdt =>
      computeDxdt S.T S.L S.x dxdt >>= fun d => applyDxdt S.T S.dt d S.x >>= fun x' => S.finishStep x' S.dt (.euler d) S.ucnt
    | .tau st =>
      computeNevt S.T S.L o S.dt S.x st >>= fun st' => applyNevt S.T S.L st' S.x >>= fun x' => S.finishStep x' S.dt (.tau st') S.ucnt
    | .gil g =>
      computePropensities S.T S.L S.x g >>= fun g' =>
      if g'.a0 = 0 then .ok ({ S with scratch := .gil g', smp := { S.smp with done := false, complete := true } }, false)
      else
        drawAndApplyEvent S.T S.L g' (o.unif S.ucnt * g'.a0) S.x >>= fun x' =>
        S.finishStep x' (o.logInv (S.ucnt + 1) / g'.a0) (.gil g') (S.ucnt + 2)

/-- `engineexport_iterate_n` -/
def CSim.iterateN (o : Oracles) : Nat → CSim → CRes (CSim × Bool)
  | 0, S => .ok (S, true)
  | n + 1, S => S.iterate o >>= fun r => if r.2 then CSim.iterateN o n r.1 else .ok r

/-- `engineexport_run` (`k` further iterations until the clock test succeeds) -/
def CSim.run (o : Oracles) : Nat → CSim → CRes (CSim × Bool)
  | 0, S => S.iterate o
  | k + 1, S => S.iterate o >>= fun r => if r.2 then CSim.run o k r.1 else .ok r

/-! ### exports (`LibRDEngine._get_data`, `_get_t_sample`, `engineexport_get_state`) -/

/-- `engineexport_get_trajectory(trajectory_data)` into a caller buffer of `bufSize` doubles -/
def exportTrajectory (S : CSim) (bufSize : Nat) : CRes (Vec Rat) :=
  forUpTo (fun k (out : Vec Rat) => forUpTo (fun s (out : Vec Rat) => forUpTo (fun i (out : Vec Rat) =>
    S.smp.sampledX.rd k >>= fun rec => rec.rd (Gen.exportSrc S.T.ns S.T.n s i) >>= fun v =>
    out.wr (Gen.exportDst S.T.ns S.T.n k s i) v) S.T.n out) S.T.ns out) S.smp.sampledT.size (Vec.replicate bufSize 0)

/-- `engineexport_get_tsample(t_sample)` -/
def exportTimesC (S : CSim) (bufSize : Nat) : CRes (Vec Rat) :=
  forUpTo (fun i (out : Vec Rat) => S.smp.sampledT.rd i >>= fun v => out.wr i v) S.smp.sampledT.size (Vec.replicate bufSize 0)

/-- `engineexport_get_state(state_data)` -/
def exportState (S : CSim) (bufSize : Nat) : CRes (Vec Rat) :=
  forUpTo (fun s (out : Vec Rat) => forUpTo (fun i (out : Vec Rat) =>
    S.x.rd (Gen.stateExportSrc S.T.ns S.T.n s i) >>= fun v => out.wr (Gen.stateExportDst S.T.ns S.T.n s i) v) S.T.n out) S.T.ns
    (Vec.replicate bufSize 0)

/-- `get_output()`: the wrapper allocates `n_sample * state_size` and `n_sample` doubles (`stateSize` is the script's) -/
def getOutputC (S : CSim) (stateSize : Nat) : CRes (Vec Rat × Vec Rat) :=
  exportTrajectory S (S.smp.sampledT.size * stateSize) >>= fun d => exportTimesC S S.smp.sampledT.size >>= fun t => .ok (d, t)

/-! ### set-up -/

/-- the arguments of `engineexport_initialize_*` common to both space types: the ctypes buffers and the counts -/
structure EngArgs where
  ns : Nat
  nr : Nat
  nenv : Nat
  state : Vec Rat
  chstt : Vec Int
  env : Vec Int
  k : Vec Rat
  sub : Vec Nat
  sto : Vec Int
  D : Vec Rat
  sampleN : Nat
  sampleT : Vec Rat
  policy : Nat
  interval : Rat
  tMax : Rat
  dt : Rat
  /-- 0 euler, 1 tauleap, 2 gillespie -/
  option : Nat
  /-- the initial-state processing on the `MkVec`'ed state (none / floor / Poisson / redistribution: C14), any
  function that keeps the size -/
  process : Vec Rat → Vec Rat

instance : Inhabited Nat := ⟨0⟩

def freshSampler (a : EngArgs) (ts : Vec Rat) : CSampler :=
  { policy := a.policy, interval := a.interval, tMax := a.tMax, tSamples := ts, nSamples := a.sampleN, samplePos := 0,
    lastTsi := .fin (-1), done := false, complete := false, t := 0, sampledX := Vec.replicate 0 default, sampledT := Vec.replicate 0 0 }

/-- `AlgorithmSpecificInit()` -/
def scratchInit (option : Nat) (n ns nr : Nat) (slotVecInt : SlotVec Int) (slotVecRat : SlotVec Rat) : Scratch :=
  match option with
  | 0 => .euler (Vec.replicate (ns * n) 0)
  | 1 => .tau { mnr := Vec.replicate (nr * n) 0, mnd := slotVecInt, cnt := 0 }
  | _ => .gil { ar := Vec.replicate (nr * n) 0, ad := slotVecRat, a0r := Vec.replicate n 0, a0d := Vec.replicate n 0, a0 := 0 }

/-- `engineexport_initialize_grid` + `SimulationAlgorithm3DBase::Init` -/
def setupGridC (a : EngArgs) (g : GridShape) (vol h : Rat) : CRes CSim :=
  let n := g.w * g.h * g.d
  mkVec a.state (n * a.ns) >>= fun st0 =>
  speciesFirstToMeshFirst (a.process st0) a.ns n >>= fun x0 =>
  mkVec a.chstt (n * a.ns) >>= fun ch0 => speciesFirstToMeshFirst ch0 a.ns n >>= fun ch =>
  mkVec a.env n >>= fun env =>
  mkVec a.k (a.nenv * a.nr) >>= fun k => mkVec a.sub (a.ns * a.nr) >>= fun sub => mkVec a.sto (a.ns * a.nr) >>= fun sto =>
  mkVec a.D (a.ns * a.nenv) >>= fun D => mkVec a.sampleT a.sampleN >>= fun ts =>
  buildMeshNeighbors g >>= fun nbrs =>
  buildMeshKr n a.ns a.nr env sub k (fun _ => .ok vol) >>= fun kr =>
  buildMeshKdGrid n a.ns a.nenv nbrs env D h >>= fun kd =>
  let T : Tabs := { n := n, ns := a.ns, nr := a.nr, nenv := a.nenv, chstt := ch, sub := sub, sto := sto, kr := kr }
  let G : GridTabs := { nbrs := nbrs, opp := oppVec, kd := kd }
  let S : CSim := { T := T, L := gridLayout a.ns G, conds := Gen.tSampleLoopCondsGrid, x := x0, dt := a.dt,
                    scratch := scratchInit a.option n a.ns a.nr (.flat (Vec.replicate (6 * a.ns * n) 0)) (.flat (Vec.replicate (6 * a.ns * n) 0)),
                    smp := freshSampler a ts, ucnt := 0 }
  -- `SamplingStep()` for t0 sampling
  CSampler.samplingStep S.conds S.smp S.x >>= fun smp => .ok { S with smp := smp }

/-- graph `AlgorithmSpecificInit`: `v.resize(n_meshes)` then `v[i].resize(mesh_neighbor_n[i]*n_species)` -/
def nestedInit {α : Type} [Inhabited (Vec α)] (n ns : Nat) (nn : Vec Int) (zero : α) : CRes (Vec (Vec α)) :=
  forUpTo (fun i (v : Vec (Vec α)) => nn.rd i >>= fun m => v.wr i (Vec.replicate (m.toNat * ns) zero)) n (Vec.replicate n default)

/-- the further arguments of `engineexport_initialize_graph` -/
structure GraphArgs where
  n : Nat
  nEdges : Nat
  edgeI : Vec Int
  edgeJ : Vec Int
  edgeSfc : Vec Rat
  edgeDst : Vec Rat
  vol : Vec Rat
  /-- `pow(v, 1.0/3.0)` -/
  cbrt : Rat → Rat

/-- `engineexport_initialize_graph` + `SimulationAlgorithmGraphBase::Init` -/
def setupGraphC (a : EngArgs) (ga : GraphArgs) : CRes CSim :=
  let n := ga.n
  mkVec ga.edgeI ga.nEdges >>= fun ei => mkVec ga.edgeJ ga.nEdges >>= fun ej =>
  mkVec ga.edgeSfc ga.nEdges >>= fun sfc => mkVec ga.edgeDst ga.nEdges >>= fun dst =>
  mkVec a.state (n * a.ns) >>= fun st0 =>
  speciesFirstToMeshFirst (a.process st0) a.ns n >>= fun x0 =>
  mkVec a.chstt (n * a.ns) >>= fun ch0 => speciesFirstToMeshFirst ch0 a.ns n >>= fun ch =>
  mkVec a.env n >>= fun env => mkVec ga.vol n >>= fun vol =>
  mkVec a.k (a.nenv * a.nr) >>= fun k => mkVec a.sub (a.ns * a.nr) >>= fun sub => mkVec a.sto (a.ns * a.nr) >>= fun sto =>
  mkVec a.D (a.ns * a.nenv) >>= fun D => mkVec a.sampleT a.sampleN >>= fun ts =>
  setNeighbors n ga.nEdges ei ej sfc dst >>= fun nb =>
  buildMeshKr n a.ns a.nr env sub k (fun i => vol.rd i) >>= fun kr =>
  buildMeshKdGraph n a.ns a.nenv nb env vol D ga.cbrt >>= fun kd =>
  nestedInit n a.ns nb.nn (0 : Int) >>= fun mnd => nestedInit n a.ns nb.nn (0 : Rat) >>= fun mad =>
  let T : Tabs := { n := n, ns := a.ns, nr := a.nr, nenv := a.nenv, chstt := ch, sub := sub, sto := sto, kr := kr }
  let G : GraphTabs := GraphTabs.ofParts nb kd
  let S : CSim := { T := T, L := graphLayout G, conds := Gen.tSampleLoopCondsGraph, x := x0, dt := a.dt,
                    scratch := scratchInit a.option n a.ns a.nr (.nested mnd) (.nested mad), smp := freshSampler a ts, ucnt := 0 }
  CSampler.samplingStep S.conds S.smp S.x >>= fun smp => .ok { S with smp := smp }

/-! ### lifecycle of one engine object -/

inductive CCall where
  | setupGrid (a : EngArgs) (g : GridShape) (vol h : Rat) (stateSize : Nat)
  | setupGraph (a : EngArgs) (ga : GraphArgs) (stateSize : Nat)
  | iterate
  | iterateN (n : Int)
  | run (k : Nat)
  | sample
  | getOutput
  | getState
  | getProgress
  | finalize

structure CWorld where
  cur : Ptr CSim
  freed : Bool
  /-- `self._script.system.state_size()` of the wrapper -/
  stateSize : Nat

def CWorld.boot : CWorld := ⟨.null, true, 0⟩

/-- one call; the entry points return at once when `global_algo_freed` -/
def CWorld.call (o : Oracles) (w : CWorld) : CCall → CRes CWorld
  | .setupGrid a g vol h sz => setupGridC a g vol h >>= fun S => .ok { cur := .live S, freed := false, stateSize := sz }
  | .setupGraph a ga sz => setupGraphC a ga >>= fun S => .ok { cur := .live S, freed := false, stateSize := sz }
  | .finalize =>
    if w.freed then .ok w
    else match w.cur with
      | .live _ => .ok { w with cur := .dangling, freed := true }
      | .null => .ok { w with freed := true }
      | .dangling => .error .badPtr
  | c =>
    if w.freed then .ok w
    else match w.cur with
      | .live S =>
        (match c with
        | .iterate => S.iterate o >>= fun r => .ok r.1
        | .iterateN n => if n ≤ 0 then .ok S else S.iterateN o n.toNat >>= fun r => .ok r.1
        | .run k => S.run o k >>= fun r => .ok r.1
        | .sample => .ok { S with smp := S.smp.sample S.x }
        | .getOutput => getOutputC S w.stateSize >>= fun _ => .ok S
        | .getState => exportState S w.stateSize >>= fun _ => .ok S
        | _ => .ok S) >>= fun S' => .ok { w with cur := .live S' }
      | _ => .error .badPtr

/-- a history of calls -/
def runChecked (o : Oracles) : List CCall → CWorld → CRes CWorld
  | [], w => .ok w
  | c :: rest, w => w.call o c >>= fun w' => runChecked o rest w'

end Strengths
