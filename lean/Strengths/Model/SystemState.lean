/-
RDSystem: default state and chemostat map, species-major layout, per-entry getters / setters
(`rdsystem.py`: generate_species_state, generate_system_state, generate_species_chemostats,
generate_system_chemostats, RDSystem.get_state_index / get_state / set_state / get_chemostat /
set_chemostat / set_default_state / set_default_chemostats; `value_processing.get_value_in_env`,
`process_unitvar_input`; `rdnetwork.get_species_index`; the `get_cell_vol_array` / `get_cell_env_array`
of both space classes).  Core Lean only; formulas and constants from `Gen.IndexPy`, `Gen.SystemPy`,
`Gen.GeomPy`.
-/
import Strengths.Model.GridGraph
import Strengths.Model.Units
import Strengths.Gen.SystemPy

namespace Strengths.RDS
open Strengths Strengths.Gen

/-! ### inputs as the user gives them -/

/-- a quantity given as a bare number (takes the owner's units system) or as a `UnitValue`
(a unit string is a `UnitValue` once parsed) -/
inductive QIn where
  | num (v : Rat)
  | uval (x : UVal)
  deriving DecidableEq, Repr, Inhabited

/-- `UnitValue(v, Units(sys, dim), convert=False)` -/
def QIn.toUVal (sys : Sys) (dim : Dim) : QIn → Res UVal
  | .num v => .ok ⟨v, ⟨sys, dim⟩⟩
  | .uval x => if x.u.dim != dim then .error .dimMismatch else .ok x

/-- a per-environment property: one value, or a dictionary keyed by environment label -/
inductive EnvVal (α : Type) where
  | single (a : α)
  | dict (l : List (String × α))
  deriving Repr

/-- Python `d[k] = v` on an insertion-ordered dictionary -/
def dictSet {α} (l : List (String × α)) (k : String) (v : α) : List (String × α) :=
  if l.any (·.1 == k) then l.map fun p => if p.1 == k then (k, v) else p else l ++ [(k, v)]

/-- Python `s.split(",")` -/
def splitComma : List Char → List (List Char)
  | [] => [[]]
  | c :: cs =>
    match splitComma cs with
    | [] => [[]]   -- unreachable
    | hd :: tl => if c == ',' then [] :: hd :: tl else (c :: hd) :: tl

/-- the keys `ki.strip() for ki in k.split(",")` -/
def dictKeys (k : String) : List String := (splitComma k.toList).map fun cs => String.ofList (stripBlank cs)

/-- `process_unitvar_input(v, sys, dim, accepts_singlevalue=True, accepts_dict=True, accepts_array=False)`
for numbers / UnitValues / dictionaries of them -/
def processUnitVar (sys : Sys) (dim : Dim) : EnvVal QIn → Res (EnvVal UVal)
  | .single q =>
    match q.toUVal sys dim with
    | .error e => .error e
    | .ok x => .ok (.single x)
  | .dict l =>
    let rec go : List (String × QIn) → List (String × UVal) → Res (List (String × UVal))
      | [], acc => .ok acc
      | (k, q) :: rest, acc =>
        match q.toUVal sys dim with
        | .error e => .error e
        | .ok x => go rest ((dictKeys k).foldl (fun a ki => dictSet a ki x) acc)
    match go l [] with
    | .error e => .error e
    | .ok d => .ok (.dict d)

/-- `valproc.get_value_in_env(value, environment, default)` -/
def valueInEnv {α} (v : EnvVal α) (env : String) (dflt : α) : α :=
  match v with
  | .single a => a
  | .dict l =>
    match l.lookup env with
    | some a => a
    | none =>
      match envFallbackKeys.findSome? fun k => l.lookup k with
      | some a => a
      | none => dflt

/-! ### network, space, system -/

structure Species where
  label : String
  density : EnvVal UVal
  /-- `chstt`: a bool (stored as 0/1) or the dictionary as given (values through `int()`) -/
  chstt : EnvVal Int
  deriving Repr

structure Network where
  species : List Species
  envs : List String
  sys : Sys
  deriving Repr

inductive Space where
  /-- `RDGridSpace`: shape, `cell_vol`, `cell_env`, units system -/
  | grid (g : GridShape) (cellVol : UVal) (cellEnv : List Int) (sys : Sys)
  /-- `RDGraphSpace`: nodes (volume, environment), units system -/
  | graph (nodes : List (UVal × Int)) (sys : Sys)
  deriving Repr

/-- `int(v)` of a non-negative numeric default -/
def defaultNat (o : Option Rat) (fallback : Nat) : Nat :=
  match o with
  | some r => r.floor.toNat
  | none => fallback

/-- `RDGridSpace(w=…, h=…, d=…, cell_env=…, cell_vol=…, boundary_conditions=…, units_system=sys)` with any of the
arguments omitted: the generated constructor defaults apply.  A numeric default cell volume is a number of cubic SPACE
units (`toUVal sys`); `cellEnv` as one number is applied to every cell. -/
def mkGridSpace (w h d : Option Nat) (px py pz : Option Bool) (cellVol : Option QIn) (cellEnv : Option (List Int)) (sys : Sys) :
    Res Space :=
  let per (axis : String) : Bool := (gridDefaultBoundary.lookup axis) == some "periodical"
  let g : GridShape := { w := w.getD (defaultNat gridDefaultW 1), h := h.getD (defaultNat gridDefaultH 1),
                         d := d.getD (defaultNat gridDefaultD 1),
                         px := px.getD (per "x"), py := py.getD (per "y"), pz := pz.getD (per "z") }
  let env := cellEnv.getD (List.replicate g.size (match gridDefaultCellEnv with | some r => r.floor | none => 0))
  match (cellVol.getD (.num (gridDefaultCellVol.getD 1))).toUVal sys Dim.volume with
  | .error e => .error e
  | .ok v => .ok (.grid g v env sys)

/-- `RDGraphSpaceNode(volume=…, environment=…, units_system=sys)` with omitted arguments -/
def mkGraphNode (vol : Option QIn) (env : Option Int) (sys : Sys) : Res (UVal × Int) :=
  match (vol.getD (.num (nodeDefaultVolume.getD 1))).toUVal sys Dim.volume with
  | .error e => .error e
  | .ok v => .ok (v, env.getD (match nodeDefaultEnv with | some r => r.floor | none => 0))

def Space.size : Space → Nat
  | .grid g _ _ _ => g.size
  | .graph nodes _ => nodes.length

/-- Python sequence subscript `l[i]` (negative indices count from the end) -/
def pyGet {α} (l : List α) (i : Int) : Res α :=
  if 0 ≤ i then
    match l[i.toNat]? with
    | some a => .ok a
    | none => .error .outOfRange
  else
    if -(l.length : Int) ≤ i then
      match l[(l.length : Int) + i |>.toNat]? with
      | some a => .ok a
      | none => .error .outOfRange
    else .error .outOfRange

/-- `space.get_cell_vol_array()` : values in the space's units system -/
def Space.volArray : Space → UArr
  | .grid g v _ sys => (UArr.mk (List.replicate g.size v.v) v.u).toSys sys
  | .graph nodes sys =>
    -- UnitArray([node.volume …], Units(sys, volume)): an element of another system is converted
    ⟨nodes.map fun (v, _) => if v.u.sys != sys then (v.toSys sys).v else v.v, ⟨sys, Dim.volume⟩⟩

def Space.envArray : Space → List Int
  | .grid _ _ e _ => e
  | .graph nodes _ => nodes.map (·.2)

/-- `space.get_cell_index(position)` -/
def Space.cellIndex : Space → Pos → Res Int
  | .grid g _ _ _, p => pyCellIndex g p
  | .graph nodes _, .num p => graphCellIndex nodes.length p
  | .graph _ _, _ => .error .typeError      -- `int(position)` of a tuple / object

/-- the default density `UnitValue(0, "molecule/µm3")` -/
def defaultDensity : UVal :=
  ⟨defaultDensityValue, match parseUnits defaultDensityUnit with
    | .ok u => u
    | .error _ => ⟨Sys.default, Dim.density⟩⟩

/-- `a * b` for two UnitValues (`UnitValue._product`): `b` is converted to `a`'s system -/
def uvalMul (a b : UVal) : UVal :=
  let b' := b.toSys a.u.sys
  ⟨a.v * b'.v, ⟨a.u.sys, a.u.dim.add b'.u.dim⟩⟩

/-- one entry of `generate_species_state` -/
def speciesStateEntryAt (sp : Species) (net : Network) (vols : UArr) (envs : List Int) (target : Sys) (i : Nat) : Res Rat :=
  match pyGet envs i with
  | .error e => .error e
  | .ok ei =>
    match pyGet net.envs ei with
    | .error e => .error e
    | .ok label =>
      let dens := valueInEnv sp.density label defaultDensity
      match vols.vs[i]? with
      | none => .error .outOfRange
      | some v => .ok ((uvalMul dens ⟨v, vols.u⟩).toSys target).v

/-- `generate_species_state(species, network, space, units_system).value` -/
def speciesState (sp : Species) (net : Network) (space : Space) (target : Sys) : Res (List Rat) :=
  seqRes ((List.range space.size).map fun i => speciesStateEntryAt sp net space.volArray space.envArray target i)

/-- concatenation over the species, in network order -/
def concatRes {α} : List (Res (List α)) → Res (List α)
  | [] => .ok []
  | .error e :: _ => .error e
  | .ok a :: rest =>
    match concatRes rest with
    | .error e => .error e
    | .ok l => .ok (a ++ l)

/-- `generate_system_state(network, space, units_system)` (no overriding dictionary) -/
def systemState (net : Network) (space : Space) (target : Sys) : Res UArr :=
  match concatRes (net.species.map fun sp => speciesState sp net space target) with
  | .error e => .error e
  | .ok vs => .ok ⟨vs, ⟨target, Dim.quantity⟩⟩

def speciesChemEntryAt (sp : Species) (net : Network) (envs : List Int) (i : Nat) : Res Int :=
  match pyGet envs i with
  | .error e => .error e
  | .ok ei =>
    match pyGet net.envs ei with
    | .error e => .error e
    | .ok label => .ok (valueInEnv sp.chstt label defaultChemostatValue)

def speciesChem (sp : Species) (net : Network) (space : Space) : Res (List Int) :=
  seqRes ((List.range space.size).map fun i => speciesChemEntryAt sp net space.envArray i)

/-- `generate_system_chemostats(network, space)` -/
def systemChem (net : Network) (space : Space) : Res (List Int) :=
  concatRes (net.species.map fun sp => speciesChem sp net space)

/-- an `RDSystem` -/
structure System where
  net : Network
  space : Space
  sys : Sys
  state : UArr
  chem : List Int
  deriving Repr

/-- the units system `set_default_state` asks the state in -/
def defaultStateSys (net : Network) (sysUnits : Sys) : Sys :=
  if defaultStateUnitsSource == "self.network.units_system" then net.sys
  else if defaultStateUnitsSource == "self.units_system" then sysUnits
  else if defaultStateUnitsSource == "self.space.units_system" then Sys.default   -- not modelled
  else Sys.default

def System.setDefaultState (s : System) : Res System :=
  match systemState s.net s.space (defaultStateSys s.net s.sys) with
  | .error e => .error e
  | .ok st => .ok { s with state := st }

def System.setDefaultChem (s : System) : Res System :=
  match systemChem s.net s.space with
  | .error e => .error e
  | .ok c => .ok { s with chem := c }

/-- the `space` setter of `RDSystem`: every cell environment index must pass the generated test -/
def spaceAccepted (net : Network) (space : Space) : Bool :=
  space.envArray.all fun e => !spaceEnvBad net.envs.length e

/-- `RDSystem(network, space, units_system=…)` with `state=None`, `chemostats=None` -/
def mkSystem (net : Network) (space : Space) (sysUnits : Sys) : Res System :=
  if !spaceAccepted net space then .error .badValue else
  match systemState net space (defaultStateSys net sysUnits) with
  | .error e => .error e
  | .ok st =>
    match systemChem net space with
    | .error e => .error e
    | .ok c => .ok ⟨net, space, sysUnits, st, c⟩

/-- `network.species = [network.species[i] for i in order]` : the public setter replaces the list (nothing else is kept
about the previous one); the arrays of a system that holds the network are left as they are until regenerated -/
def System.assignSpeciesOrder (s : System) (order : List Nat) : Res System :=
  match seqRes (order.map fun i => match s.net.species[i]? with
      | some sp => (.ok sp : Res Species)
      | none => .error .outOfRange) with
  | .error e => .error e
  | .ok l => .ok { s with net := { s.net with species := l } }

/-- `network.environments = envs` -/
def System.assignEnvs (s : System) (envs : List String) : System :=
  { s with net := { s.net with envs := envs } }

/-- how a species is named in an accessor call -/
inductive SpRef where
  | idx (i : Int)
  | label (s : String)
  | obj (label : String)
  deriving DecidableEq, Repr, Inhabited

/-- `RDNetwork.get_species_index` (`none` = Python `None`) -/
def speciesIndex (net : Network) : SpRef → Option Int
  | .idx i => if i ≥ 0 && i < net.species.length then some i else none
  | .label s => (net.species.findIdx? fun sp => sp.label == s).map fun (k : Nat) => (k : Int)
  | .obj s => (net.species.findIdx? fun sp => sp.label == s).map fun (k : Nat) => (k : Int)

/-- `RDSystem.get_state_index(species, position)` -/
def System.stateIndex (s : System) (sp : SpRef) (pos : Pos) : Res Int :=
  let si := speciesIndex s.net sp
  match s.space.cellIndex pos with
  | .error e => .error e
  | .ok c =>
    match si with
    | none => .error .typeError          -- `None * size`
    | some k => .ok (Gen.stateIndex s.space.size k c)

/-- `RDSystem.get_state` -/
def System.getState (s : System) (sp : SpRef) (pos : Pos) : Res UVal :=
  match s.stateIndex sp pos with
  | .error e => .error e
  | .ok k =>
    match pyGet s.state.vs k with
    | .error e => .error e
    | .ok v => .ok ⟨v, s.state.u⟩

def System.getChem (s : System) (sp : SpRef) (pos : Pos) : Res Int :=
  match s.stateIndex sp pos with
  | .error e => .error e
  | .ok k => pyGet s.chem k

/-- Python `l[k] = v` (negative indices count from the end) -/
def pySet {α} (l : List α) (k : Int) (v : α) : Res (List α) :=
  if 0 ≤ k then
    if k.toNat < l.length then .ok (l.set k.toNat v) else .error .outOfRange
  else if -(l.length : Int) ≤ k then .ok (l.set ((l.length : Int) + k).toNat v)
  else .error .outOfRange

/-- `RDSystem.set_state(species, position, value)` -/
def System.setState (s : System) (sp : SpRef) (pos : Pos) (value : QIn) : Res System :=
  match s.stateIndex sp pos with
  | .error e => .error e
  | .ok k =>
    let x : UVal := match value with
      | .num v => ⟨v, ⟨s.sys, Dim.quantity⟩⟩
      | .uval x => x
    -- UnitArray.set_at: `v.convert(self.units)`
    if x.u.dim != s.state.u.dim then .error .dimMismatch
    else
      match pySet s.state.vs k (x.toSys s.state.u.sys).v with
      | .error e => .error e
      | .ok vs => .ok { s with state := ⟨vs, s.state.u⟩ }

/-- `RDSystem.set_chemostat(species, position, value)` (`value` already through `int()`) -/
def System.setChem (s : System) (sp : SpRef) (pos : Pos) (value : Int) : Res System :=
  match s.stateIndex sp pos with
  | .error e => .error e
  | .ok k =>
    match pySet s.chem k value with
    | .error e => .error e
    | .ok c => .ok { s with chem := c }

end Strengths.RDS
