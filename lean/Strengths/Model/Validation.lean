/-
Executable model of the input checks of the package (C20): `process_input_dict_keys` and the
mandatory keys of the `*_from_dict` functions, the accepted enumerations, grid sizes, environment
maps, positions (grid and graph), species lookup, state access, quantity fields and their
dimensions, unit symbols, and the coarse-graining map rules.

Everything that is a table or a predicate in the source comes from `Gen.Validation`, `Gen.IndexPy`,
`Gen.Network`, `Gen.Units` (regenerated on every run).  Core Lean only.
-/
import Strengths.Model.Network
import Strengths.Model.Grid
import Strengths.Model.Coarsegrain
import Strengths.Gen.Validation

namespace Strengths
open Gen

/-! ### Dictionary keys -/

/-- first loop of `process_input_dict_keys`: a key that is in no synonym list -/
def unknownKey (syn : List (List String)) (keys : List String) : Bool :=
  keys.any fun k => !(syn.any fun s => s.contains k)

/-- second loop: a synonym list of which more than one member is present -/
def doublyAliased (syn : List (List String)) (keys : List String) : Bool :=
  syn.any fun s => decide ((keys.filter fun k => s.contains k).length > 1)

/-- third loop: the canonical names present afterwards (`d[s[0]] = d[k]`) -/
def canonicalKeys (syn : List (List String)) (keys : List String) : List String :=
  syn.filterMap fun s => if keys.any (fun k => s.contains k) then s.head? else none

/-- `process_input_dict_keys(d, synonyms)` with the default policy, on the key list of `d` -/
def processKeys (syn : List (List String)) (keys : List String) : Res (List String) :=
  if unknownKey syn keys then .error .badKey
  else if doublyAliased syn keys then .error .badKey
  else .ok (canonicalKeys syn keys)

/-- key handling of one `*_from_dict` function: aliases, then the keys it cannot do without -/
def fromDictKeys (fn : String) (keys : List String) : Res Unit :=
  match aliasTable.lookup fn, mandatoryKeys.lookup fn with
  | some syn, some mand =>
    match processKeys syn keys with
    | .error e => .error e
    | .ok canon => if mand.all canon.contains then .ok () else .error .badKey
  | _, _ => .error .notImplemented

/-- `retrive_units_system_from_dict`: a string value of "units" must be one of the keywords -/
def unitsKeyword (v : String) : Res Unit := if unitsKeywords.contains v then .ok () else .error .badValue

/-! ### Enumerations -/

/-- `RDGridSpace.set_boundary_conditions(bc)`: the result and the boundary conditions stored afterwards
(the defaults are assigned before the loop; the loop stops at the first bad entry) -/
def setBoundaryLoop : List (String × String) → List (String × String) → Res Unit × List (String × String)
  | [], st => (.ok (), st)
  | (axis, c) :: r, st =>
    if !pyAxes.contains axis then (.error .badValue, st)
    else if !pyBoundary.contains c then (.error .badValue, st)
    else setBoundaryLoop r (st.map fun p => if p.1 == axis then (axis, c) else p)

/-- `cur` = the boundary conditions stored before the call.  When the source validates the whole input before
storing anything (`bcStoresBeforeValidation = false`), a rejected call leaves `cur` in place. -/
def setBoundaryConditions (cur bc : List (String × String)) : Res Unit × List (String × String) :=
  match setBoundaryLoop bc pyBoundaryDefaults with
  | (.ok (), st) => (.ok (), st)
  | (.error e, st) => if bcStoresBeforeValidation then (.error e, st) else (.error e, cur)

def setSamplingPolicy (p : String) : Res Unit := if pyPolicies.contains p then .ok () else .error .badValue
def setInitStateProcessing (m : String) : Res Unit := if pyModes.contains m then .ok () else .error .badValue

/-- `LibRDEngine.setup` → `engineexport_initialize_grid/_graph`: the engine option is looked up in the native
`CompareStr` chain (exact comparison, `compareStrBody`); an option matching no entry makes the native call return
the code that `setup` turns into an exception -/
def engineSetupOption (graph : Bool) (option : String) : Res Unit :=
  let known := (if graph then cppOptionsGraph else cppOptionsGrid).map (·.1)
  if compareStrBody == "return(std::string(str1)==std::string(str2));" && known.contains option then .ok ()
  else if known.any (fun k => k.isPrefixOf option) && compareStrBody != "return(std::string(str1)==std::string(str2));" then .ok ()
  else .error .badValue

/-! ### Grid construction, environment maps -/

inductive CellEnvIn where
  | num (e : Int)
  | arr (l : List Int)
  deriving Repr

/-- `RDGridSpace(w, h, d, cell_env)` : the cell environment array, or the error -/
def mkGridEnv (w h d : Int) (ce : CellEnvIn) : Res (List Int) :=
  if gridSizeBad w h d then .error .badValue
  else match ce with
    | .num e => .ok (List.replicate (gridSize w h d).toNat e)
    | .arr l => if cellEnvLenBad l.length (gridSize w h d) then .error .badValue else .ok l

/-- Python tuple indexing `environments[e]` with `nenv` entries -/
def tupleIndexOk (nenv : Nat) (e : Int) : Bool := decide (-(nenv : Int) ≤ e) && decide (e < nenv)

/-- `generate_species_state` / `generate_species_chemostats`: `network.environments[cell_env[i]]` for every cell
(executed when the network has at least one species) -/
def defaultStateEnvCheck (nspecies nenv : Nat) (cellEnv : List Int) : Res Unit :=
  if nspecies == 0 then .ok ()
  else if cellEnv.all (tupleIndexOk nenv) then .ok () else .error .outOfRange

/-- `RDSystem(network, space, state, chemostats)`: the environment map is looked up only while a default
state or a default chemostat map is generated (`state` / `chemostats` omitted or given as a dictionary) -/
def systemEnvCheck (stateGiven chemGiven : Bool) (nspecies nenv : Nat) (cellEnv : List Int) : Res Unit :=
  if systemSpaceChecksEnv && cellEnv.any (fun e => decide (e ≥ (nenv : Int))) then .error .outOfRange
  else if stateGiven && chemGiven then .ok () else defaultStateEnvCheck nspecies nenv cellEnv

/-! ### Positions, species, state access -/

inductive VSpace where
  | grid (g : GridShape)
  | graph (n : Nat)
  deriving Repr

def VSpace.size : VSpace → Nat
  | .grid g => g.size
  | .graph n => n

inductive VPos where
  | num (p : Int)
  | xyz (x y z : Int)       -- a tuple / list of coordinates
  | obj (x y z : Int)       -- an object with `x`, `y`, `z` attributes (the documented Coord-like form)
  deriving Repr

/-- `space.get_cell_index(position)` -/
def VSpace.cellIndex : VSpace → VPos → Res Int
  | .grid g, .num p => pyCellIndexOfNum g p
  | .grid g, .xyz x y z => pyCellIndexOfCoords g x y z
  | .graph n, .num p => if graphNodeIndexBad n p then .error .outOfRange else .ok p
  | .grid g, .obj x y z =>
    if withinBoundsObj g.w g.h g.d x y z then .ok (cellIndexObj g.w g.h x y z) else .error .outOfRange
  | .graph _, .xyz _ _ _ => .error .typeError        -- `int(tuple)`
  | .graph _, .obj _ _ _ => .error .typeError        -- `int(object)`

/-- the position check of a positional accessor of the space classes (`get_cell_env`, `get_cell_vol`,
`get_neighbors`, …): the cell index when the method validates its argument, nothing when it does not -/
def VSpace.accessorCheck (sp : VSpace) (accessor : String) (p : VPos) : Res (Option Int) :=
  let guards := match sp with
    | .grid _ => gridAccessorGuards
    | .graph _ => graphAccessorGuards
  match guards.lookup accessor with
  | none => .error .notImplemented
  | some true => match sp.cellIndex p with
    | .error e => .error e
    | .ok i => .ok (some i)
  | some false => .ok none

inductive SpeciesRef where
  | idx (i : Int)
  | label (l : Label)
  deriving Repr

def firstIndex (labels : List (Option Label)) (l : Label) : Option Nat :=
  let i := labels.findIdx (· == some l)
  if i < labels.length then some i else none

/-- `network.get_species_index(species)` : `None` when there is no such species -/
def vSpeciesIndex (labels : List (Option Label)) : SpeciesRef → Option Int
  | .idx i => if speciesIndexOk labels.length i then some i else none
  | .label l => (firstIndex labels l).map Int.ofNat

/-- `RDSystem.get_state_index(species, position)` (`None * size` raises) -/
def stateIndexOf (labels : List (Option Label)) (sp : VSpace) (s : SpeciesRef) (p : VPos) : Res Int :=
  match vSpeciesIndex labels s with
  | none => .error .typeError
  | some si =>
    match sp.cellIndex p with
    | .error e => .error e
    | .ok ci => .ok (stateIndex sp.size si ci)

/-- `get_state` / `get_chemostat` on a flat array -/
def getEntry {α} (arr : List α) (labels : List (Option Label)) (sp : VSpace) (s : SpeciesRef) (p : VPos) : Res α :=
  match stateIndexOf labels sp s p with
  | .error e => .error e
  | .ok i => if 0 ≤ i then (match arr[i.toNat]? with | some v => .ok v | none => .error .outOfRange) else .error .outOfRange

/-- `set_state` / `set_chemostat` on a flat array -/
def setEntry {α} (arr : List α) (labels : List (Option Label)) (sp : VSpace) (s : SpeciesRef) (p : VPos) (v : α) : Res (List α) :=
  match stateIndexOf labels sp s p with
  | .error e => .error e
  | .ok i => if 0 ≤ i ∧ i.toNat < arr.length then .ok (arr.set i.toNat v) else .error .outOfRange

/-! ### Quantity fields -/

def fieldDimOf (field : String) : Option Dim := (fieldDims.lookup field).map fun (a, b, c) => ⟨a, b, c⟩

/-- setter of a quantity field given one value (all of them go through `UnitValue(v, Units(sys, dim), convert=False)`) -/
def setField (field : String) (sys : Sys) (v : Scalar) : Res UVal :=
  match fieldDimOf field with
  | none => .error .notImplemented
  | some d => processScalar sys d v

/-- a text element of a list handed to `UnitArray.set_value` (e.g. `t_sample=[0, "5 s"]`): `np.array(list)` turns
every item into `np.str_`, which the `type(item) == str` test does not recognise, so the text is never parsed as a
quantity; it finally goes through `float()`, which accepts it iff nothing follows the number.  When the source keeps
the items' types (`arrayTextItemsParsed`), the text is parsed and its dimension checked like any other quantity. -/
def arrayTextElement (field : String) (sys : Sys) (v : Rat) (unitsText : String) : Res Unit :=
  if arrayTextItemsParsed then
    (match setField field sys (.text v unitsText) with | .ok _ => .ok () | .error e => .error e)
  else if (stripBlank unitsText.toList).isEmpty then .ok () else .error .badSyntax

/-! ### Coarse-graining index maps (`check_index_map_validity`) -/

/-- `check_index_map_validity(im, space)`: the model of the coarse-graining builder (`Model/Coarsegrain.lean`,
every test generated from coarsegrain.py by group `CoarsePy`); `none` = an entry that is not a Python `int` -/
def vCheckIndexMap (im : List (Option Int)) (env : List Int) : Res Unit := checkIndexMap im env

end Strengths
