/-
Checked-access engine (C11), part 2: what `engineexport_initialize_grid` / `…_graph` and `Init` do before the first
iteration — `MkVec` (reads of the ctypes buffers), `SpeciesFirstToMeshFirstArray`, `BuildMeshNeighbors`,
`SetNeighbors`, `Build_mesh_kr`, `Build_mesh_kd`, `AlgorithmSpecificInit` — and the two layouts.
-/
import Strengths.Model.Checked

namespace Strengths

/-- `MkVec<T>(a, len)`: `len` reads of the caller's buffer -/
def mkVec {α : Type} [Inhabited α] (buf : Vec α) (len : Nat) : CRes (Vec α) :=
  forUpTo (fun i (v : Vec α) => buf.rd i >>= fun a => v.wr i a) len (Vec.replicate len default)

/-- `SpeciesFirstToMeshFirstArray(v, n_species, n_meshes)` -/
def speciesFirstToMeshFirst {α : Type} [Inhabited α] (v : Vec α) (ns n : Nat) : CRes (Vec α) :=
  forUpTo (fun s (mf : Vec α) => forUpTo (fun i (mf : Vec α) =>
    v.rd (Gen.transposeSrc ns n s i) >>= fun a => mf.wr (Gen.transposeDst ns n s i) a) n mf) ns (Vec.replicate v.size default)

/-- `Build_mesh_kr(k)`; `vol i` is `mesh_vol` (grid) / `mesh_vol[i]` (graph, a checked read) -/
def buildMeshKr (n ns nr : Nat) (env : Vec Int) (sub : Vec Nat) (k : Vec Rat) (vol : Nat → CRes Rat) : CRes (Vec Rat) :=
  forUpTo (fun i (kr : Vec Rat) => forUpTo (fun r (kr : Vec Rat) =>
    forUpTo (fun s (q : Nat) => sub.rd (Gen.subIndex nr s r) >>= fun c => .ok (q + c)) ns 0 >>= fun q =>
    env.rd i >>= fun e => k.rd (Gen.kIndex nr e r) >>= fun kv => vol i >>= fun v =>
    kr.wr (Gen.krIndex nr i r) (kv * v ^ ((1 : Int) - (q : Int)))) nr kr) n (Vec.replicate (n * nr) 0)

/-! ### grid -/

structure GridTabs where
  /-- `mesh_neighbors` -/
  nbrs : Vec Int
  /-- `opposed_direction` -/
  opp : Vec Int
  /-- `mesh_kd` -/
  kd : Vec Rat

/-- `BuildMeshNeighbors()`: `std::vector<int>(w*h*d*6)` filled with `GetNeighborIndex` -/
def buildMeshNeighbors (g : GridShape) : CRes (Vec Int) :=
  forUpTo (fun i (v : Vec Int) => forUpTo (fun n (v : Vec Int) => v.wr (Gen.nbrSlot i n) (engNeighbor g i n)) 6 v)
    (g.w * g.h * g.d) (Vec.replicate (g.w * g.h * g.d * 6) 0)

/-- `opposed_direction = std::vector<int>{…}` (`Gen.oppDir`) -/
def oppVec : Vec Int := ⟨Gen.oppDir.length, fun i => (Gen.oppDir.getD i 0 : Nat)⟩

/-- `Build_mesh_kd(D)` of the grid base class -/
def buildMeshKdGrid (n ns nenv : Nat) (nbrs : Vec Int) (env : Vec Int) (D : Vec Rat) (h : Rat) : CRes (Vec Rat) :=
  forUpTo (fun s (kd : Vec Rat) => forUpTo (fun i (kd : Vec Rat) => forUpTo (fun k (kd : Vec Rat) =>
    nbrs.rd (Gen.nbrReadIndex i k) >>= fun j =>
    if j = Gen.nbrNone then kd.wr (Gen.kdIndexGrid ns i s k) 0
    else
      env.rd i >>= fun ei => env.rd j >>= fun ej =>
      D.rd (Gen.dIndex nenv s ei) >>= fun Di => D.rd (Gen.dIndex nenv s ej) >>= fun Dj =>
      let Dij : Rat := if Di != 0 && Dj != 0 then (2 * h) / (h / Di + h / Dj) else 0
      kd.wr (Gen.kdIndexGrid ns i s k) (Dij / (h * h))) 6 kd) n kd) ns (Vec.replicate (ns * n * 6) 0)

/-- the grid layout: 6 slots, `mesh_neighbors[i*6+n]`, `mesh_kd[i*n_species*6+s*6+n]`, flat scratch vectors -/
def gridLayout (ns : Nat) (G : GridTabs) : Layout where
  nSlots := fun _ => .ok 6
  nbr := fun i k => G.nbrs.rd (Gen.nbrReadIndex i k) >>= fun j => .ok (if j = Gen.nbrNone then none else some j.toNat)
  kout := fun i s k => G.kd.rd (Gen.kdIndexGrid ns i s k)
  kin := fun i s k =>
    G.nbrs.rd (Gen.nbrReadIndex i k) >>= fun j => G.opp.rd k >>= fun o => G.kd.rd (Gen.kdIndexGrid ns j s o) >>= fun c => .ok (j, c)
  slot := fun i s k => .ok (.flat (Gen.ndIndexGrid ns i s k))

/-! ### graph -/

structure GraphTabs where
  /-- `mesh_neighbor_n` -/
  nn : Vec Int
  /-- `mesh_neighbor_index` -/
  nidx : Vec (Vec Int)
  nsfc : Vec (Vec Rat)
  ndst : Vec (Vec Rat)
  kdOut : Vec (Vec Rat)
  kdIn : Vec (Vec Rat)

instance : Inhabited (Vec Int) := ⟨⟨0, fun _ => 0⟩⟩
instance : Inhabited (Vec Rat) := ⟨⟨0, fun _ => 0⟩⟩

/-- `v[o].push_back(a)` -/
def pushAt {α : Type} (v : Vec (Vec α)) (o : Int) (a : α) : CRes (Vec (Vec α)) :=
  v.rd o >>= fun row => v.wr o (row.push a)

structure NbSt where
  nn : Vec Int
  nidx : Vec (Vec Int)
  nsfc : Vec (Vec Rat)
  ndst : Vec (Vec Rat)

/-- `SetNeighbors(n_edges, edge_i, edge_j, edge_sfc, edge_dst)` -/
def setNeighbors (n nEdges : Nat) (ei ej : Vec Int) (sfc dst : Vec Rat) : CRes NbSt :=
  forUpTo (fun e (st : NbSt) =>
    ei.rd e >>= fun a => ej.rd e >>= fun b => sfc.rd e >>= fun sf => dst.rd e >>= fun ds =>
    st.nn.rd a >>= fun ca => st.nn.wr a (ca + 1) >>= fun nn1 =>
    nn1.rd b >>= fun cb => nn1.wr b (cb + 1) >>= fun nn2 =>
    pushAt st.nidx a b >>= fun x1 => pushAt x1 b a >>= fun x2 =>
    pushAt st.nsfc a sf >>= fun s1 => pushAt s1 b sf >>= fun s2 =>
    pushAt st.ndst a ds >>= fun d1 => pushAt d1 b ds >>= fun d2 =>
    .ok { nn := nn2, nidx := x2, nsfc := s2, ndst := d2 }) nEdges
    { nn := Vec.replicate n 0, nidx := Vec.replicate n default, nsfc := Vec.replicate n default, ndst := Vec.replicate n default }

/-- `Build_mesh_kd(D)` of the graph base class; `edge i` is `pow(mesh_vol[i], 1/3)` -/
def buildMeshKdGraph (n ns nenv : Nat) (nb : NbSt) (env : Vec Int) (vol : Vec Rat) (D : Vec Rat) (edge : Rat → Rat) :
    CRes (Vec (Vec Rat) × Vec (Vec Rat)) :=
  forUpTo (fun i (p : Vec (Vec Rat) × Vec (Vec Rat)) =>
    nb.nn.rd i >>= fun m =>
    p.1.wr i (Vec.replicate (ns * m.toNat) 0) >>= fun o1 => p.2.wr i (Vec.replicate (ns * m.toNat) 0) >>= fun i1 =>
    forUpTo (fun s (p : Vec (Vec Rat) × Vec (Vec Rat)) => forUpTo (fun k (p : Vec (Vec Rat) × Vec (Vec Rat)) =>
      nb.nidx.rd i >>= fun row => row.rd k >>= fun j =>
      vol.rd i >>= fun vi => vol.rd j >>= fun vj =>
      env.rd i >>= fun e1 => env.rd j >>= fun e2 =>
      D.rd (Gen.dIndex nenv s e1) >>= fun Di => D.rd (Gen.dIndex nenv s e2) >>= fun Dj =>
      nb.nsfc.rd i >>= fun srow => srow.rd k >>= fun sf => nb.ndst.rd i >>= fun drow => drow.rd k >>= fun ds =>
      let hi := edge vi
      let hj := edge vj
      let Dij : Rat := if Di != 0 && Dj != 0 then (hi + hj) / (hi / Di + hj / Dj) else 0
      p.1.rd i >>= fun orow => orow.wr (Gen.slotInnerGraph m s k) (Dij * sf / (vi * ds)) >>= fun orow' => p.1.wr i orow' >>= fun o2 =>
      p.2.rd i >>= fun irow => irow.wr (Gen.slotInnerGraph m s k) (Dij * sf / (vj * ds)) >>= fun irow' => p.2.wr i irow' >>= fun i2 =>
      .ok (o2, i2)) m.toNat p) ns (o1, i1)) n (Vec.replicate n default, Vec.replicate n default)

def GraphTabs.ofParts (nb : NbSt) (kd : Vec (Vec Rat) × Vec (Vec Rat)) : GraphTabs :=
  { nn := nb.nn, nidx := nb.nidx, nsfc := nb.nsfc, ndst := nb.ndst, kdOut := kd.1, kdIn := kd.2 }

/-- the graph layout: `mesh_neighbor_n[i]` slots, nested tables and scratch vectors -/
def graphLayout (G : GraphTabs) : Layout where
  nSlots := fun i => G.nn.rd i >>= fun m => .ok m.toNat
  nbr := fun i k => G.nidx.rd i >>= fun row => row.rd k >>= fun j => .ok (some j.toNat)
  kout := fun i s k => G.nn.rd i >>= fun m => G.kdOut.rd i >>= fun row => row.rd (Gen.slotInnerGraph m s k)
  kin := fun i s k =>
    G.nidx.rd i >>= fun row => row.rd k >>= fun j => G.nn.rd i >>= fun m => G.kdIn.rd i >>= fun r2 => r2.rd (Gen.slotInnerGraph m s k) >>= fun c =>
    .ok (j, c)
  slot := fun i s k => G.nn.rd i >>= fun m => .ok (.nested i (Gen.slotInnerGraph m s k))

end Strengths
