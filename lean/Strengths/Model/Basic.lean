/-
Shared basics of the executable model: error type, small list helpers.
Core Lean only (no Mathlib) so that the driver starts fast.
-/
namespace Strengths

/-- Why an operation of the real code raises.  The correspondence check only compares
"raised or not"; the constructor is kept for readable replays. -/
inductive Err where
  | dimMismatch      -- quantities of different dimension combined / converted
  | badUnit          -- unknown or unsupported unit symbol
  | badSyntax        -- text outside the grammar
  | badKey           -- unknown / duplicated-alias / missing dictionary key
  | badValue         -- value outside the accepted domain (sizes, enumerations, lengths …)
  | outOfRange       -- index / position outside the space
  | notImplemented
  | typeError
  deriving DecidableEq, Repr, Inhabited

abbrev Res (α : Type) := Except Err α

def Res.isError {α} : Res α → Bool
  | .ok _ => false
  | .error _ => true

deriving instance DecidableEq for Except

/-- sum of a list of rationals (left fold, as the loops in the code accumulate) -/
def sumRat (l : List Rat) : Rat := l.foldl (· + ·) 0

def sumInt (l : List Int) : Int := l.foldl (· + ·) 0

end Strengths
