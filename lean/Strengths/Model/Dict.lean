/-
Executable model of the dictionary forms of the package: `process_input_dict_keys`,
`retrive_units_system_from_dict`, `process_unitvar_input`, `format_unitvar_for_save`, `get_path_with_base`,
and ONE generic reader / writer (`fromDictG` / `toDictG`) interpreting a field schema, instantiated for
species, reaction, network, grid, graph node, graph edge, graph, system and script.

* The key tables (synonym groups, key ↦ constructor parameter, defaults, emitted keys) are NOT written here:
  they come from `Strengths.Gen.DictKeys` (regenerated from the sources on every run).  This file only says of
  which *kind* each constructor parameter is.
* JSON text, `float`/`repr` of a double and the reaction-equation text are tokens carrying their value
  (`Json.qty v unitsText` is the Python string `repr(v) + " " + unitsText`; `Json.eqn` is the text produced by
  `Reaction.to_string`).  The unit text inside a quantity is real text, read by `parseUnits` (Model/Units).
* The file system is a function `String → Option Json` (a JSON file ↦ its content, an array file ↦ `Json.arr`).
Core Lean only.
-/
import Strengths.Model.Units
import Strengths.Gen.DictKeys

namespace Strengths.Dict
open Strengths Strengths.Gen

/-! ## JSON values -/

inductive Json where
  | null
  | bool (b : Bool)
  | num (q : Rat)
  | str (s : String)
  /-- the string `repr(float v) ++ " " ++ utext` -/
  | qty (v : Rat) (utext : String)
  /-- the string `Reaction.to_string()` of a reaction with these (non-zero) sides -/
  | eqn (subs prods : List (String × Int))
  | arr (l : List Json)
  | obj (kv : List (String × Json))
  deriving Inhabited

abbrev KV := List (String × Json)
abbrev FS := String → Option Json

/-- Python `d[k] = v` on an insertion-ordered dictionary -/
def kvSet (d : KV) (k : String) (v : Json) : KV :=
  if d.any (fun p => p.1 == k) then d.map (fun p => if p.1 == k then (k, v) else p) else d ++ [(k, v)]

/-- `valproc.process_input_dict_keys(d, synonyms)` with the default policy "error":
unknown key → raise; two synonyms of one group → raise; then `d[s[0]] = d[k]` for every present synonym. -/
def processKeys (syn : List (List String)) (d : KV) : Res KV :=
  if d.any (fun p => !(syn.any (fun s => s.contains p.1))) then .error .badKey
  else if syn.any (fun s => decide ((d.filter (fun p => s.contains p.1)).length > 1)) then .error .badKey
  else .ok (syn.foldl (fun acc s =>
      match s with
      | [] => acc
      | c :: _ => acc.foldl (fun acc' p => if s.contains p.1 then kvSet acc' c p.2 else acc') acc) d)

/-! ## Units of a dictionary (`retrive_units_system_from_dict`, `unitssystem_from_dict`) -/

def sysToJson (s : Sys) : Json :=
  .obj [("space", .str s.space), ("time", .str s.time), ("quantity", .str s.qty)]

/-- `unitssystem_from_dict` on JSON: keys ⊆ {space,time,quantity}, values must be strings of the tables;
omitted keys take the defaults -/
def sysOfJson (kv : KV) : Res Sys :=
  match processKeys DictKeys.unitsSystem.aliases kv with
  | .error e => .error e
  | .ok d =>
    let get (k : String) (dflt : String) : Res String :=
      match d.lookup k with
      | none => .ok dflt
      | some (.str s) => .ok s
      | some _ => .error .badValue
    match get "space" defaultSpace, get "time" defaultTime, get "quantity" defaultQty with
    | .ok a, .ok b, .ok c => mkSys a b c
    | .error e, _, _ => .error e
    | _, .error e, _ => .error e
    | _, _, .error e => .error e

/-- `retrive_units_system_from_dict(d, default, parent)` given the (optional) value of the `units` key -/
def readUnits (parent : Sys) (dflt : String) (v : Option Json) : Res Sys :=
  match v.getD (.str dflt) with
  | .str "default" => .ok Sys.default
  | .str "inherit" => .ok parent
  | .str _ => .error .badValue
  | .obj kv => sysOfJson kv
  | _ => .error .typeError

/-! ## Quantities (`process_unitvar_input`, `UnitValue(v, Units(us, dim), convert=False)`, `format_unitvar_for_save`) -/

/-- a single value: number → in the owner's units; text → its own units (dimension checked, never converted) -/
def readQty (us : Sys) (dim : Dim) : Json → Res UVal
  | .num q => .ok ⟨q, ⟨us, dim⟩⟩
  | .bool b => .ok ⟨if b then 1 else 0, ⟨us, dim⟩⟩
  | .qty v t =>
    match parseUnits t with
    | .error e => .error e
    | .ok u => if u.dim != dim then .error .dimMismatch else .ok ⟨v, u⟩
  | .str _ => .error .badSyntax
  | _ => .error .typeError

/-- `str(UnitValue)` -/
def writeQty (x : UVal) : Json := .qty x.v (showUnits x.u)

/-- Python `k.split(",")` then `.strip()` of every piece -/
def splitOnComma : List Char → List Char → List (List Char)
  | [], cur => [cur.reverse]
  | c :: cs, cur => if c == ',' then cur.reverse :: splitOnComma cs [] else splitOnComma cs (c :: cur)

def splitKeys (k : String) : List String :=
  (splitOnComma k.toList []).map fun s => String.ofList (stripBlank s)

def assocSet {α} (m : List (String × α)) (k : String) (v : α) : List (String × α) :=
  if m.any (fun p => p.1 == k) then m.map (fun p => if p.1 == k then (k, v) else p) else m ++ [(k, v)]

def isUnitArrayDict (kv : KV) : Bool :=
  (match kv.lookup "units" with | some .null => false | some _ => true | none => false) ||
  (match kv.lookup "value" with | some .null => false | some _ => true | none => false)

/-- the dict branch of `process_unitvar_input` (arrays not accepted): keys are split at commas -/
def readEnvQty (us : Sys) (dim : Dim) : KV → List (String × UVal) → Res (List (String × UVal))
  | [], acc => .ok acc
  | (k, j) :: rest, acc =>
    match j with
    | .obj _ => .error .typeError
    | .arr _ => .error .badValue
    | .null => .error .typeError
    | _ =>
      match readQty us dim j with
      | .error e => .error e
      | .ok x => readEnvQty us dim rest ((splitKeys k).foldl (fun a ki => assocSet a ki x) acc)

/-! ## Values and kinds -/

/-- value of a constructor parameter; `χ` = type of nested objects -/
inductive Val (χ : Type) where
  | none
  | bool (b : Bool)
  | int (n : Int)
  | str (s : String)
  | qty (x : UVal)
  | envQty (m : List (String × UVal))
  | raw (j : Json)
  | arr (x : UArr)
  | ints (l : List Int)
  | strs (l : List String)
  | sys (s : Sys)
  | stoich (subs prods : List (String × Int))
  | child (c : χ)
  | children (l : List χ)
  deriving Inhabited

abbrev Obj (χ : Type) := List (String × Val χ)

inductive DimSpec where
  | fixed (d : Dim)
  | kf
  | kr

inductive Kind where
  | label                    -- str or None, checked by assert_string_is_a_valid_label
  | qtyEnv (ds : DimSpec)    -- process_unitvar_input(single ✓, dict ✓, array ✗)
  | qty (d : Dim)            -- single value only
  | boolEnv                  -- chstt: number/bool → bool, dict kept raw
  | int                      -- int(v)
  | intOrInts                -- grid cell_env: number, array or path of an array file
  | bc                       -- boundary_conditions
  | stoich
  | strList                  -- environments
  | uarr (d : Dim)           -- unit array dictionary / plain array / None
  | intsOrPath               -- chemostats: array, path or None
  | enum (allowed : List String)
  | seed
  | tmax
  | child (tag : String)          -- nested dictionary
  | childOrPath (tag : String)    -- nested dictionary or path of a JSON file
  | children (tag : String)
  | intPair                  -- edge "nodes"

structure Field where
  key : String
  param : String
  kind : Kind
  /-- JSON form of the constructor default (`none` = the reader insists on the key) -/
  dflt : Option Json

/-- reading context -/
structure Ctx (χ : Type) where
  us : Sys
  base : Option String
  fs : FS
  readChild : String → Sys → Option String → Json → Res χ

/-! ### paths (`filepath.get_path_with_base`, `get_base_path`) -/

def isAbsolute (p : String) : Bool := p.startsWith "/"

/-- `str(pathlib.Path(base).joinpath(path))` for plain relative paths -/
def joinPath (base p : String) : String :=
  if base.endsWith "/" then base ++ p else base ++ "/" ++ p

def pathWithBase (p : String) : Option String → String
  | none => p
  | some b => if isAbsolute p then p else joinPath b p

/-- `str(pathlib.Path(path).parent)` of an absolute path -/
def basePath (p : String) : String :=
  match (p.splitOn "/").reverse with
  | _ :: rest@(_ :: _) =>
    let s := "/".intercalate rest.reverse
    if s.isEmpty then "/" else s
  | _ => "."

/-! ### small readers -/

def mapRes {α β} (f : α → Res β) : List α → Res (List β)
  | [] => .ok []
  | a :: as =>
    match f a with
    | .error e => .error e
    | .ok b =>
      match mapRes f as with
      | .error e => .error e
      | .ok bs => .ok (b :: bs)

/-- Python `int(x)` of a JSON number (truncation toward zero) or bool -/
def pyIntOf : Json → Res Int
  | .num q => .ok (if q ≥ 0 then q.floor else -((-q).floor))
  | .bool b => .ok (if b then 1 else 0)
  | _ => .error .typeError

def readInts (l : List Json) : Res (List Int) := mapRes pyIntOf l

/-- `assert_string_is_a_valid_label` -/
def validLabel (s : String) : Bool := !(s.toList.any fun c => isBlank c || c == '+')

def sidesOrder (l : List (String × Int)) : Int := (l.map (·.2)).foldl (· + ·) 0

/-- `Reaction.kf_units_dimensions` / `kr_units_dimensions` for a side of total order `n` -/
def kDim (n : Int) : Dim := ⟨-3 + 3 * n, -1, 1 - n⟩

/-- the sides of the reaction of a (canonical) reaction dictionary -/
def stoichOf (d : KV) : Option (List (String × Int) × List (String × Int)) :=
  match d.lookup "stoichiometry" with
  | some (.eqn s p) => some (s, p)
  | _ => none

def dimOf (d : KV) : DimSpec → Res Dim
  | .fixed dm => .ok dm
  | .kf => match stoichOf d with | some (s, _) => .ok (kDim (sidesOrder s)) | none => .error .badSyntax
  | .kr => match stoichOf d with | some (_, p) => .ok (kDim (sidesOrder p)) | none => .error .badSyntax

/-- `unitarray_from_dict(d, base_path)` followed by `UnitArray(value, units)` -/
def readUArrDict (base : Option String) (fs : FS) (kv : KV) : Res UArr :=
  match processKeys DictKeys.unitArray.aliases kv with
  | .error e => .error e
  | .ok d =>
    match d.lookup "value", d.lookup "units" with
    | some v, some (.str t) =>
      match parseUnits t with
      | .error e => .error e
      | .ok u =>
        let vals : Res (List Json) := match v with
          | .arr l => .ok l
          | .str p => match fs (pathWithBase p base) with | some (.arr l) => .ok l | _ => .error .badValue
          | _ => .error .typeError
        match vals with
        | .error e => .error e
        | .ok l => (mapRes (fun j => match j with | .num q => Except.ok q | _ => .error .typeError) l).map fun qs => ⟨qs, u⟩
    | _, _ => .error .badKey

def writeUArr (x : UArr) : Json := .obj [("value", .arr (x.vs.map .num)), ("units", .str (showUnits x.u))]

def bcOf (kv : KV) : Res (List (String × String)) :=
  kv.foldl (fun acc p =>
    match acc with
    | .error e => .error e
    | .ok m =>
      if !DictKeys.bcAxes.contains p.1 then .error .badValue
      else match p.2 with
        | .str v => if DictKeys.bcValues.contains v then .ok (assocSet m p.1 v) else .error .badValue
        | _ => .error .badValue) (.ok DictKeys.bcInitial)

/-- read one value of the given kind (`d` = the canonical dictionary, for dimensions that depend on another key) -/
def readKind {χ} (c : Ctx χ) (d : KV) : Kind → Json → Res (Val χ)
  | .label, .null => .ok .none
  | .label, .str s => if validLabel s then .ok (.str s) else .error .badValue
  | .label, _ => .error .typeError
  | .qtyEnv ds, j =>
    match dimOf d ds with
    | .error e => .error e
    | .ok dim =>
      match j with
      | .obj kv =>
        if isUnitArrayDict kv then .error .badValue
        else (readEnvQty c.us dim kv []).map .envQty
      | _ => (readQty c.us dim j).map .qty
  | .qty dim, j => (readQty c.us dim j).map .qty
  | .boolEnv, .obj kv => .ok (.raw (.obj kv))
  | .boolEnv, .bool b => .ok (.bool b)
  | .boolEnv, .num q => .ok (.bool (q != 0))
  | .boolEnv, _ => .error .typeError
  | .int, j => (pyIntOf j).map .int
  | .intOrInts, .arr l => (readInts l).map .ints
  | .intOrInts, .str p =>
    match c.fs (pathWithBase p c.base) with
    | some (.arr l) => (readInts l).map .ints
    | _ => .error .badValue
  | .intOrInts, j => (pyIntOf j).map .int
  | .bc, .null => .ok (.raw (.obj (DictKeys.bcInitial.map fun p => (p.1, .str p.2))))
  | .bc, .obj kv => (bcOf kv).map fun m => .raw (.obj (m.map fun p => (p.1, .str p.2)))
  | .bc, _ => .error .typeError
  | .stoich, .eqn s p => .ok (.stoich s p)
  | .stoich, _ => .error .badSyntax
  | .strList, .arr l =>
    if l.isEmpty then .error .badValue
    else (mapRes (fun j => match j with
        | .str s => if s == "default" then Except.error Err.badValue else .ok s
        | _ => .error .typeError) l).map .strs
  | .strList, _ => .error .typeError
  | .uarr _, .null => .ok .none
  | .uarr dim, .obj kv =>
    match readUArrDict c.base c.fs kv with
    | .error e => .error e
    | .ok x => if x.u.dim != dim then .error .dimMismatch else .ok (.arr x)
  | .uarr dim, .arr l =>
    (mapRes (fun j => match j with | .num q => Except.ok q | _ => .error .typeError) l).map fun qs => .arr ⟨qs, ⟨c.us, dim⟩⟩
  | .uarr _, _ => .error .typeError
  | .intsOrPath, .null => .ok .none
  | .intsOrPath, .arr l => (readInts l).map .ints
  | .intsOrPath, .str p =>
    match c.fs (pathWithBase p c.base) with
    | some (.arr l) => (readInts l).map .ints
    | _ => .error .badValue
  | .intsOrPath, _ => .error .badValue
  | .enum allowed, .str s => if allowed.contains s then .ok (.str s) else .error .badValue
  | .enum _, _ => .error .typeError
  | .seed, .null => .ok .none
  | .seed, j => (pyIntOf j).map .int
  | .tmax, .str s => if s == "default" then .ok (.str "default") else .error .badSyntax
  | .tmax, j => (readQty c.us Dim.time_ j).map .qty
  | .child tag, j => (c.readChild tag c.us c.base j).map .child
  | .childOrPath tag, .str p =>
    let full := pathWithBase p c.base
    match c.fs full with
    | some j => (c.readChild tag c.us (some (basePath full)) j).map .child
    | none => .error .badValue
  | .childOrPath tag, j => (c.readChild tag c.us c.base j).map .child
  | .children tag, .arr l => (mapRes (c.readChild tag c.us c.base) l).map .children
  | .children _, _ => .error .typeError
  | .intPair, .arr (a :: b :: _) =>
    match pyIntOf a, pyIntOf b with
    | .ok i, .ok j => .ok (.ints [i, j])
    | .error e, _ => .error e
    | _, .error e => .error e
  | .intPair, _ => .error .typeError

/-- `Reaction.to_string` skips the species whose stored coefficient is 0 -/
def nz (l : List (String × Int)) : List (String × Int) := l.filter fun p => p.2 != 0

/-- write one value (`format_unitvar_for_save`, `str(UnitValue)`, `unitarray_to_dict`, …) -/
def writeVal {χ} (wc : χ → Json) : Val χ → Json
  | .none => .null
  | .bool b => .bool b
  | .int n => .num (n : Rat)
  | .str s => .str s
  | .qty x => writeQty x
  | .envQty m => .obj (m.map fun p => (p.1, writeQty p.2))
  | .raw j => j
  | .arr x => writeUArr x
  | .ints l => .arr (l.map fun (n : Int) => .num (n : Rat))
  | .strs l => .arr (l.map .str)
  | .sys s => sysToJson s
  | .stoich s p => .eqn (nz s) (nz p)
  | .child c => wc c
  | .children l => .arr (l.map wc)

/-! ## The generic reader and writer -/

def readField {χ} (c : Ctx χ) (d : KV) (f : Field) : Res (String × Val χ) :=
  match (d.lookup f.key).or f.dflt with
  | none => .error .badKey
  | some j => (readKind c d f.kind j).map fun v => (f.param, v)

/-- `X_from_dict(d, parent_units_system, base_path)`: synonyms → units → every constructor parameter.
The object is `("units_system", us) :: parameters` in schema order. -/
def fromDictG {χ} (tbl : DictKeys.Table) (fields : List Field) (parent : Sys) (base : Option String) (fs : FS)
    (rc : String → Sys → Option String → Json → Res χ) : Json → Res (Obj χ)
  | .obj kv =>
    match processKeys tbl.aliases kv with
    | .error e => .error e
    | .ok d =>
      match readUnits parent (tbl.unitsDefault.getD "inherit") (d.lookup "units") with
      | .error e => .error e
      | .ok us =>
        match mapRes (readField ⟨us, base, fs, rc⟩ d) fields with
        | .error e => .error e
        | .ok o => .ok (("units_system", .sys us) :: o)
  | _ => .error .typeError

def objSys {χ} (o : Obj χ) : Sys :=
  match o.lookup "units_system" with
  | some (.sys s) => s
  | _ => Sys.default

/-- `X_to_dict(x)`: `units` (unless the writer omits it because it equals `parentOmit`) then every field
under its canonical key. `extra` = constant entries (`"type"`). -/
def toDictG {χ} (fields : List Field) (extra : KV) (parentOmit : Option Sys) (wc : χ → Json) (o : Obj χ) : Json :=
  let us := objSys o
  let units : KV := if parentOmit == some us then [] else [("units", sysToJson us)]
  .obj (extra ++ units ++ fields.map fun f => (f.key, writeVal wc ((o.lookup f.param).getD .none)))

/-! ## Field kinds of every class (keys, parameters and defaults come from Gen) -/

/-- Python literal of a constructor default → JSON (only the forms that occur) -/
def pyLit (s : String) : Option Json :=
  if s == "0" then some (.num 0) else if s == "1" then some (.num 1)
  else if s == "1e-3" then some (.num (1 / 1000))
  else if s == "False" then some (.bool false) else if s == "True" then some (.bool true)
  else if s == "None" then some .null
  else if s == "[]" then some (.arr [])
  else if s == "[\"\"]" then some (.arr [.str ""])
  else if s == "\"default\"" then some (.str "default")
  else if s == "\"on_t_sample\"" then some (.str "on_t_sample")
  else if s == "\"auto\"" then some (.str "auto")
  else none

/-- schema of a class = its generated wiring (minus `units`) + the kind of each parameter;
a key is optional iff the reader does not insist on it; its default is the constructor's (or the
`d.get` default `[]` for `reactions`) -/
def mkFields (tbl : DictKeys.Table) (kinds : List (String × Kind)) : List Field :=
  kinds.filterMap fun (param, kind) =>
    match tbl.wiring.find? (fun w => w.2 == param) with
    | none => none
    | some w =>
      let dflt : Option Json :=
        if tbl.mandatory.contains w.1 then none
        else if tbl.optionalGet.contains w.1 then some (.arr [])
        else ((tbl.ctor.lookup param).getD none).bind pyLit
      some ⟨w.1, param, kind, dflt⟩

def speciesFields : List Field := mkFields DictKeys.species
  [("label", .label), ("D", .qtyEnv (.fixed Dim.diffusion)), ("density", .qtyEnv (.fixed Dim.density)), ("chstt", .boolEnv)]

def reactionFields : List Field := mkFields DictKeys.reaction
  [("label", .label), ("stoichiometry", .stoich), ("kf", .qtyEnv .kf), ("kr", .qtyEnv .kr)]

def networkFields : List Field := mkFields DictKeys.network
  [("species", .children "species"), ("reactions", .children "reaction"), ("environments", .strList)]

def gridFields : List Field := mkFields DictKeys.grid
  [("w", .int), ("h", .int), ("d", .int), ("cell_env", .intOrInts), ("cell_vol", .qty Dim.volume), ("boundary_conditions", .bc)]

def nodeFields : List Field := mkFields DictKeys.node [("volume", .qty Dim.volume), ("environment", .int)]

/-- the edge reader feeds both `i` and `j` from `nodes`; the model keeps them as one pair under `i` -/
def edgeFields : List Field := mkFields DictKeys.edge
  [("i", .intPair), ("surface", .qty Dim.surface), ("distance", .qty Dim.length)]

def graphFields : List Field := mkFields DictKeys.graph [("nodes", .children "node"), ("edges", .children "edge")]

def systemFields : List Field := mkFields DictKeys.system
  [("network", .childOrPath "network"), ("space", .childOrPath "space"), ("state", .uarr Dim.quantity), ("chemostats", .intsOrPath)]

def scriptFields : List Field := mkFields DictKeys.script
  [("system", .childOrPath "system"), ("t_sample", .uarr Dim.time_), ("time_step", .qty Dim.time_), ("t_max", .tmax),
   ("sampling_policy", .enum DictKeys.pyPolicies), ("sampling_interval", .qty Dim.time_), ("rng_seed", .seed),
   ("init_state_processing", .enum DictKeys.pyModes)]

/-! ## Constructor-side checks that involve several parameters -/

def getInt {χ} (o : Obj χ) (k : String) : Int := match o.lookup k with | some (.int n) => n | _ => 0

/-- `RDGridSpace.__init__`: positive sizes, `cell_env` scalar expanded / array length checked -/
def finishGrid {χ} (o : Obj χ) : Res (Obj χ) :=
  let w := getInt o "w"; let h := getInt o "h"; let d := getInt o "d"
  if w ≤ 0 || h ≤ 0 || d ≤ 0 then .error .badValue
  else
    let size := (w * h * d).toNat
    match o.lookup "cell_env" with
    | some (.int n) => .ok (o.map fun p => if p.1 == "cell_env" then (p.1, .ints (List.replicate size n)) else p)
    | some (.ints l) => if l.length != size then .error .badValue else .ok o
    | _ => .error .typeError

/-- `RDNetwork._assert_validity` on labels: species labels distinct, reaction labels distinct, every label of a
reaction side is a species label -/
def networkValid (speciesLabels : List (Option String)) (reactionLabels : List (Option String))
    (sideLabels : List String) : Bool :=
  let sl := speciesLabels.filterMap id
  let rl := reactionLabels.filterMap id
  decide (sl.eraseDups.length = sl.length) && decide (rl.eraseDups.length = rl.length) &&
  sideLabels.all fun l => speciesLabels.contains (some l)

def labelOf {χ} (o : Obj χ) : Option String := match o.lookup "label" with | some (.str s) => some s | _ => none

def sidesOf {χ} (o : Obj χ) : List String :=
  match o.lookup "stoichiometry" with
  | some (.stoich s p) => s.map (·.1) ++ p.map (·.1)
  | _ => []

/-! ## The classes -/

abbrev L0 := Obj Empty
abbrev L1 := Obj L0
abbrev L2 := Obj L1
abbrev L3 := Obj L2

def noChild : String → Sys → Option String → Json → Res Empty := fun _ _ _ _ => .error .typeError
def noWrite : Empty → Json := fun e => nomatch e

def speciesFromDict (parent : Sys) (j : Json) : Res L0 :=
  fromDictG DictKeys.species speciesFields parent none (fun _ => none) noChild j
def speciesToDict (o : L0) : Json := toDictG speciesFields [] none noWrite o

def reactionFromDict (parent : Sys) (j : Json) : Res L0 :=
  fromDictG DictKeys.reaction reactionFields parent none (fun _ => none) noChild j
def reactionToDict (o : L0) : Json := toDictG reactionFields [] none noWrite o

def nodeFromDict (parent : Sys) (j : Json) : Res L0 :=
  fromDictG DictKeys.node nodeFields parent none (fun _ => none) noChild j
def nodeToDict (parent : Sys) (o : L0) : Json := toDictG nodeFields [] (some parent) noWrite o

def edgeFromDict (parent : Sys) (j : Json) : Res L0 :=
  fromDictG DictKeys.edge edgeFields parent none (fun _ => none) noChild j
def edgeToDict (parent : Sys) (o : L0) : Json := toDictG edgeFields [] (some parent) noWrite o

def level0Child : String → Sys → Option String → Json → Res L0
  | "species", us, _, j => speciesFromDict us j
  | "reaction", us, _, j => reactionFromDict us j
  | "node", us, _, j => nodeFromDict us j
  | "edge", us, _, j => edgeFromDict us j
  | _, _, _, _ => .error .typeError

def childList {χ} (o : Obj χ) (k : String) : List χ := match o.lookup k with | some (.children l) => l | _ => []

def networkFromDict (parent : Sys) (base : Option String) (fs : FS) (j : Json) : Res L1 :=
  match fromDictG DictKeys.network networkFields parent base fs level0Child j with
  | .error e => .error e
  | .ok o =>
    let sp := childList o "species"
    let rs := childList o "reactions"
    if networkValid (sp.map labelOf) (rs.map labelOf) (rs.flatMap sidesOf) then .ok o else .error .badValue

/-- which writer a level-0 child uses is decided by what it is (its constructor parameters) -/
def writeL0 (parent : Sys) (o : L0) : Json :=
  if (o.lookup "stoichiometry").isSome then reactionToDict o
  else if (o.lookup "D").isSome then speciesToDict o
  else if (o.lookup "volume").isSome then nodeToDict parent o
  else edgeToDict parent o

def networkToDict (o : L1) : Json := toDictG networkFields [] none (writeL0 (objSys o)) o

def gridFromDict (parent : Sys) (base : Option String) (fs : FS) (j : Json) : Res L1 :=
  match fromDictG DictKeys.grid gridFields parent base fs level0Child j with
  | .error e => .error e
  | .ok o => finishGrid o

def gridToDict (o : L1) : Json := toDictG gridFields [("type", .str "grid")] none (fun _ => .null) o

def graphFromDict (parent : Sys) (base : Option String) (fs : FS) (j : Json) : Res L1 :=
  fromDictG DictKeys.graph graphFields parent base fs level0Child j

def graphToDict (o : L1) : Json := toDictG graphFields [("type", .str "graph")] none (writeL0 (objSys o)) o

/-- `rdspace_from_dict`: dispatch on "type" (absent = grid) -/
def spaceFromDict (parent : Sys) (base : Option String) (fs : FS) (j : Json) : Res L1 :=
  match j with
  | .obj kv =>
    let ty := match kv.lookup "type" with | some (.str s) => s | none => DictKeys.spaceTypeDefault | _ => "?"
    let kv' := if (kv.lookup "type").isNone then kv ++ [("type", .str DictKeys.spaceTypeDefault)] else kv
    if ty == "grid" then (gridFromDict parent base fs (.obj kv')).map fun o => ("type", .str "grid") :: o
    else if ty == "graph" then (graphFromDict parent base fs (.obj kv')).map fun o => ("type", .str "graph") :: o
    else .error .badValue
  | _ => .error .typeError

def spaceToDict (o : L1) : Json :=
  match o.lookup "type" with
  | some (.str "graph") => graphToDict o
  | _ => gridToDict o

def level1Child (fs : FS) : String → Sys → Option String → Json → Res L1
  | "network", us, base, j => networkFromDict us base fs j
  | "space", us, base, j => spaceFromDict us base fs j
  | _, _, _, _ => .error .typeError

/-- number of environments of a network object -/
def nEnvOf (n : L1) : Nat := match n.lookup "environments" with | some (.strs l) => l.length | _ => 0

/-- `space.get_cell_env_array()`: the grid's map, or the environment of every node of a graph -/
def cellEnvsOf (sp : L1) : List Int :=
  match sp.lookup "cell_env" with
  | some (.ints l) => l
  | _ => (childList sp "nodes").map fun n => getInt n "environment"

/-- `RDSystem.space` setter: no cell may name an environment beyond the network's list -/
def finishSystem (o : L2) : Res L2 :=
  let nenv : Nat := match o.lookup "network" with | some (.child n) => nEnvOf n | _ => 0
  let envs : List Int := match o.lookup "space" with | some (.child sp) => cellEnvsOf sp | _ => []
  if envs.any (fun e => decide (e ≥ (nenv : Int))) then .error .badValue else .ok o

/-- does the reader fill an omitted "space" itself with a grid in the system's units (documented default),
or leave it to the constructor default `RDGridSpace()` (default units)?  Read from the generated table. -/
def systemSpaceInherits : Bool :=
  DictKeys.system.readerDefault.any fun p => p.1 == "space" && p.2 == "RDGridSpace(units_system=da[\"units_system\"])"

def systemFromDictRaw (parent : Sys) (base : Option String) (fs : FS) (j : Json) : Res L2 :=
  match j with
  | .obj kv =>
    match processKeys DictKeys.system.aliases kv with
    | .error e => .error e
    | .ok d =>
      let absent : Bool := match d.lookup "space" with
        | none => true
        | some .null => DictKeys.system.noneAsOmitted.contains "space"
        | some _ => false
      if !absent then
        fromDictG DictKeys.system systemFields parent base fs (level1Child fs) j
      else
        match fromDictG DictKeys.system (systemFields.filter fun f => f.key != "space") parent base fs (level1Child fs) j with
        | .error e => .error e
        | .ok o =>
          -- `RDGridSpace(units_system=us)` = the empty space dictionary read with parent `us`
          match spaceFromDict (if systemSpaceInherits then objSys o else Sys.default) none (fun _ => none) (.obj []) with
          | .error e => .error e
          | .ok sp => .ok (o ++ [("space", .child sp)])
  | _ => .error .typeError

def systemFromDict (parent : Sys) (base : Option String) (fs : FS) (j : Json) : Res L2 :=
  match systemFromDictRaw parent base fs j with
  | .error e => .error e
  | .ok o => finishSystem o

def writeL1 (o : L1) : Json :=
  if (o.lookup "species").isSome then networkToDict o else spaceToDict o

def systemToDict (o : L2) : Json := toDictG systemFields [] none writeL1 o

def level2Child (fs : FS) : String → Sys → Option String → Json → Res L2
  | "system", us, base, j => systemFromDict us base fs j
  | _, _, _, _ => .error .typeError

def scriptFromDict (base : Option String) (fs : FS) (j : Json) : Res L3 :=
  fromDictG DictKeys.script scriptFields Sys.default base fs (level2Child fs) j

/-- `script.t_max` as a value: "default" is the last requested sample time (in the units of `t_sample`) -/
def resolveTmax (o : L3) : L3 :=
  match o.lookup "t_max", o.lookup "t_sample" with
  | some (.qty _), _ => o
  | _, some (.arr a) =>
    (match a.vs.getLast? with
     | some v => o.map fun p => if p.1 == "t_max" then (p.1, .qty ⟨v, a.u⟩) else p
     | none => o)
  | _, _ => o

/-- `rdscript_to_dict`; `str(script.t_max)` resolves "default" to the last requested sample time -/
def scriptToDict (o : L3) : Json := toDictG scriptFields [] none systemToDict (resolveTmax o)

end Strengths.Dict

namespace Strengths.Dict
open Strengths Strengths.Gen

/-! ## trajectories: `save_rdtrajectory` / `load_rdtrajectory` over the virtual file system

A trajectory file lives in directory `dir` under the name `stem ++ ".json"`; with `separate_data` the samples go to
`stem ++ "_data.npy"` in the same directory and the JSON refers to that file by its bare name. -/

structure Traj where
  data : UArr
  t : UArr
  system : L2
  script : Option L3
  engineDescription : Option String
  engineOption : Option String
  cgmap : Option (List Int)

def optStrJson : Option String → Json
  | none => .null
  | some s => .str s

def scriptJson : Option L3 → Json
  | none => .null
  | some s => scriptToDict s

/-- the "data" entry: the samples inline, or the name of the separate array file -/
def dataJson (data : UArr) : Option String → Json
  | some name => .obj [("value", .str name), ("units", .str (showUnits data.u))]
  | none => writeUArr data

def cgEntries : Option (List Int) → KV
  | none => []
  | some l => [("cgmap", .arr (l.map fun (n : Int) => .num (n : Rat)))]

/-- the unconditional entries of the saved dictionary (`dj` = the "data" entry) -/
def trajEntries (tr : Traj) (dj : Json) : KV :=
  [("script", scriptJson tr.script), ("system", systemToDict tr.system), ("data", dj), ("t_sample", writeUArr tr.t),
   ("engine_description", optStrJson tr.engineDescription), ("engine_option", optStrJson tr.engineOption)]

/-- the dictionary `save_rdtrajectory` dumps; `dataRef` = name of the separate data file, if any -/
def trajToDict (tr : Traj) (dataRef : Option String) : Json :=
  .obj (trajEntries tr (dataJson tr.data dataRef) ++ cgEntries tr.cgmap)

def jsonName (stem : String) : String := stem ++ ".json"
def dataName (stem : String) : String := stem ++ "_data.npy"

/-- the files written by `save_rdtrajectory(tr, dir/stem[.json], separate_data)` -/
def saveTrajectory (tr : Traj) (dir stem : String) (separate : Bool) : List (String × Json) :=
  if separate then
    [(joinPath dir (dataName stem), .arr (tr.data.vs.map .num)),
     (joinPath dir (jsonName stem), trajToDict tr (some (dataName stem)))]
  else [(joinPath dir (jsonName stem), trajToDict tr none)]

/-- the file system after writing `files` -/
def fsWith (fs : FS) (files : List (String × Json)) : FS := fun p => (files.lookup p).or (fs p)

def optStrOf : Json → Res (Option String)
  | .null => .ok none
  | .str s => .ok (some s)
  | _ => .error .typeError

/-- `None if d.get("script") is None else rdscript_from_dict(d["script"], base)` -/
def scriptEntry (dir : String) (fs : FS) (j : Option Json) : Res (Option L3) :=
  match j.getD .null with
  | .null => .ok none
  | j' => (scriptFromDict (some dir) fs j').map some

/-- `d.get("cgmap", None)` -/
def cgmapEntry : Option Json → Res (Option (List Int))
  | none => .ok none
  | some .null => .ok none
  | some (.arr l) => (readInts l).map some
  | some _ => .error .typeError

/-- `unitarray_from_dict(d[k], base)` (`KeyError` when the key is missing) -/
def uarrEntry (base : Option String) (fs : FS) : Option Json → Res UArr
  | some (.obj kv) => readUArrDict base fs kv
  | some _ => .error .typeError
  | none => .error .badKey

def strEntry : Option Json → Res (Option String)
  | some j => optStrOf j
  | none => .error .badKey

/-- `load_rdtrajectory(dir/file)` : base path of every relative path inside = `dir` -/
def loadTrajectory (fs : FS) (dir file : String) : Res Traj :=
  match fs (joinPath dir file) with
  | some (.obj d) =>
    match scriptEntry dir fs (d.lookup "script") with
    | .error e => .error e
    | .ok sc =>
      match (match d.lookup "system" with
             | some sj => systemFromDict Sys.default (some dir) fs sj
             | none => .error .badKey) with
      | .error e => .error e
      | .ok sy =>
        match uarrEntry (some dir) fs (d.lookup "data") with
        | .error e => .error e
        | .ok da =>
          match uarrEntry none fs (d.lookup "t_sample") with
          | .error e => .error e
          | .ok ts =>
            match strEntry (d.lookup "engine_description") with
            | .error e => .error e
            | .ok ed =>
              match strEntry (d.lookup "engine_option") with
              | .error e => .error e
              | .ok eo =>
                match cgmapEntry (d.lookup "cgmap") with
                | .error e => .error e
                | .ok cg => .ok ⟨da, ts, sy, sc, ed, eo, cg⟩
  | _ => .error .badValue

end Strengths.Dict
