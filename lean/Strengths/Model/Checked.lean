/-
Checked-access version of the native engine (C11).

Every `std::vector` of the algorithm objects is a `Vec` (a size fixed by the same constructor / `resize` /
copy as in the code, and its contents); every `v[index]` of the sources is a read `Vec.rd` or a write `Vec.wr`
that fails with `.oob` outside `[0, size)`.  The index expressions are the GENERATED formulas
(`Gen.kIndex`, `subIndex`, `stoIndex`, `dIndex`, `krIndex`, `kdIndexGrid`, `nbrSlot`, `transposeDst/Src`,
`exportDst/Src`, `stateExportDst/Src`) applied to the loop variables, so a changed stride in the C++ changes what
is accessed here.  `std::poisson_distribution<int>(mean)` has the library precondition `mean > 0`
(`.precondition`).  Random draws, `log(1/u)` and `pow(V, 1/3)` are external parameters (`Oracles`).

The three algorithms (Euler, tau-leap, Gillespie) are written once over a `Layout` — the slot structure of a
cell with its checked table reads — and instantiated for the grid tables (`mesh_neighbors[i*6+n]`,
`mesh_kd[i*n_species*6+s*6+n]`, `opposed_direction[n]`, flat `mesh_nd` / `mesh_ad`) and the graph tables
(`mesh_neighbor_n[i]`, `mesh_neighbor_index[i][n]`, `mesh_kd_out/in[i][s*mesh_neighbor_n[i]+n]`, nested
`mesh_nd` / `mesh_ad`), as `Model/Engine.lean` does for the unchecked model.  `break` is a flag that skips the rest
of the loop body (no further access happens).  Core Lean only.
-/
import Strengths.Model.Grid
import Strengths.Model.Sampler
import Strengths.Gen.EngineLife

namespace Strengths

inductive CErr where
  | oob            -- vector subscript outside [0, size)
  | precondition   -- library precondition violated (Poisson mean ≤ 0)
  | badPtr         -- use of a null / freed object, double delete
  deriving DecidableEq, Repr

abbrev CRes (α : Type) := Except CErr α

/-- a `std::vector<α>`: size and contents -/
structure Vec (α : Type) where
  size : Nat
  get : Nat → α

namespace Vec
variable {α : Type}

/-- `std::vector<α>(n, a)` / `resize(n, a)` of an empty vector -/
def replicate (n : Nat) (a : α) : Vec α := ⟨n, fun _ => a⟩
/-- a vector built from `n` given values (`MkVec`, copies of the arguments of `Init`) -/
def ofFn (n : Nat) (f : Nat → α) : Vec α := ⟨n, f⟩
def ofList [Inhabited α] (l : List α) : Vec α := ⟨l.length, fun i => l.getD i default⟩

/-- `v[i]` as an rvalue -/
def rd (v : Vec α) (i : Int) : CRes α :=
  if 0 ≤ i ∧ i < (v.size : Int) then .ok (v.get i.toNat) else .error .oob

/-- `v[i] = a` -/
def wr (v : Vec α) (i : Int) (a : α) : CRes (Vec α) :=
  if 0 ≤ i ∧ i < (v.size : Int) then .ok ⟨v.size, fun k => if k = i.toNat then a else v.get k⟩ else .error .oob

/-- `push_back` -/
def push (v : Vec α) (a : α) : Vec α := ⟨v.size + 1, fun k => if k = v.size then a else v.get k⟩

end Vec

/-- `for(int k = 0; k < n; k++) body(k)` threading a state, stopping at the first failed access -/
def forUpTo {σ : Type} (f : Nat → σ → CRes σ) : Nat → σ → CRes σ
  | 0, s => .ok s
  | n + 1, s => forUpTo f n s >>= f n

/-! ### slot-indexed scratch vectors (`mesh_nd`, `mesh_ad`): flat on a grid, nested on a graph -/

inductive SlotAddr where
  | flat (i : Int)
  | nested (o i : Int)
  deriving DecidableEq, Repr

inductive SlotVec (α : Type) where
  | flat (v : Vec α)
  | nested (v : Vec (Vec α))

namespace SlotVec
variable {α : Type}

def rd : SlotVec α → SlotAddr → CRes α
  | .flat v, .flat i => v.rd i
  | .nested v, .nested o i => v.rd o >>= fun row => row.rd i
  | _, _ => .error .oob

def wr : SlotVec α → SlotAddr → α → CRes (SlotVec α)
  | .flat v, .flat i, a => (v.wr i a).map .flat
  | .nested v, .nested o i, a => v.rd o >>= fun row => row.wr i a >>= fun row' => (v.wr o row').map .nested
  | _, _, _ => .error .oob

end SlotVec

/-! ### tables -/

/-- the read-only tables common to both space types, as `Init` leaves them -/
structure Tabs where
  n : Nat
  ns : Nat
  nr : Nat
  nenv : Nat
  /-- `mesh_chstt`, cell-major, `n*ns` -/
  chstt : Vec Int
  /-- `sub`, `ns*nr` -/
  sub : Vec Nat
  /-- `sto`, `ns*nr` -/
  sto : Vec Int
  /-- `mesh_kr`, `n*nr` -/
  kr : Vec Rat

/-- the slot structure of a space with its checked table reads -/
structure Layout where
  /-- upper bound of the slot loop of cell `i` (6; `mesh_neighbor_n[i]`) -/
  nSlots : Nat → CRes Nat
  /-- neighbour through slot `n` (`none` = −1) -/
  nbr : Nat → Nat → CRes (Option Nat)
  /-- `mesh_kd[…]` / `mesh_kd_out[i][…]` -/
  kout : Nat → Nat → Nat → CRes Rat
  /-- the neighbour `j` and the constant its amount is multiplied with in `DiffusionRateDifference`
  (grid: `mesh_neighbors`, `opposed_direction[n]`, `mesh_kd[j…]`; graph: `mesh_neighbor_index`, `mesh_kd_in`) -/
  kin : Nat → Nat → Nat → CRes (Int × Rat)
  /-- address of slot (i, s, n) in `mesh_nd` / `mesh_ad` -/
  slot : Nat → Nat → Nat → CRes SlotAddr

/-- external primitives: the k-th Poisson count, uniform draw, `log(1/u)` -/
structure Oracles where
  pois : Nat → Int
  unif : Nat → Rat
  logInv : Nat → Rat

/-- `Poisson(lambda)` of the base classes, with the library precondition of the distribution's constructor -/
def poissonChecked (o : Oracles) (cnt : Nat) (lambda : Rat) : CRes (Int × Nat) :=
  if lambda ≤ 0 then .ok (0, cnt)
  else if 0 < lambda then .ok (o.pois cnt, cnt + 1)     -- std::poisson_distribution<int>(lambda): requires lambda > 0
  else .error .precondition

namespace Tabs

def xIdx (T : Tabs) (i s : Nat) : Int := Gen.xIndex T.ns i s     -- `mesh_x[i*n_species+s]`
def cIdx (T : Tabs) (i s : Nat) : Int := Gen.chsttIndex T.ns i s     -- `mesh_chstt[i*n_species+s]`
def dIdx (T : Tabs) (i s : Nat) : Int := Gen.dxdtIndex T.ns i s     -- `mesh_dxdt[i*n_species+s]`

/-- `ReactionRate(i, r)` -/
def reactionRate (T : Tabs) (x : Vec Rat) (i r : Nat) : CRes Rat :=
  T.kr.rd (Gen.krIndex T.nr i r) >>= fun k0 =>
  forUpTo (fun s acc => x.rd (T.xIdx i s) >>= fun xv => T.sub.rd (Gen.subIndex T.nr s r) >>= fun q => .ok (acc * xv ^ q)) T.ns k0

/-- `ReactionProp(i, r)`: state = (a, broken) -/
def reactionProp (T : Tabs) (x : Vec Rat) (i r : Nat) : CRes Rat :=
  T.kr.rd (Gen.krIndex T.nr i r) >>= fun k0 =>
  (forUpTo (fun s (st : Rat × Bool) =>
      if st.2 then .ok st
      else
        x.rd (T.xIdx i s) >>= fun xv => T.sub.rd (Gen.subIndex T.nr s r) >>= fun q =>
        if (q : Rat) ≤ xv then
          -- inner loop re-reads the same two entries
          .ok (st.1 * (List.range q).foldl (fun (acc : Rat) (k : Nat) => acc * (xv - (k : Rat))) 1, false)
        else .ok (0, true)) T.ns (k0, false)) >>= fun st => .ok st.1

end Tabs

/-- `DiffusionRate` = `DiffusionProp` -/
def diffusionPropC (T : Tabs) (L : Layout) (x : Vec Rat) (i s n : Nat) : CRes Rat :=
  x.rd (T.xIdx i s) >>= fun xv => L.kout i s n >>= fun k => .ok (xv * k)

/-- `DiffusionRateDifference` -/
def diffusionRateDifferenceC (T : Tabs) (L : Layout) (x : Vec Rat) (i s n : Nat) : CRes Rat :=
  diffusionPropC T L x i s n >>= fun a =>
  L.kin i s n >>= fun jk => x.rd (Gen.xIndex T.ns jk.1 s) >>= fun xj => .ok (a - xj * jk.2)

/-! ### Euler -/

/-- `Compute_dxdt` (the local `rr` is a vector of `n_reactions` entries) -/
def computeDxdt (T : Tabs) (L : Layout) (x : Vec Rat) (dxdt : Vec Rat) : CRes (Vec Rat) :=
  forUpTo (fun i dxdt =>
    forUpTo (fun r (rr : Vec Rat) => T.reactionRate x i r >>= fun v => rr.wr r v) T.nr (Vec.replicate T.nr 0) >>= fun rr =>
    L.nSlots i >>= fun m =>
    forUpTo (fun s dxdt =>
      dxdt.wr (T.dIdx i s) 0 >>= fun d0 =>
      T.chstt.rd (T.cIdx i s) >>= fun c =>
      if c ≠ 0 then .ok d0
      else
        forUpTo (fun r d =>
          d.rd (T.dIdx i s) >>= fun cur => T.sto.rd (Gen.stoIndex T.nr s r) >>= fun st => rr.rd r >>= fun v =>
          d.wr (T.dIdx i s) (cur + (st : Rat) * v)) T.nr d0 >>= fun d1 =>
        forUpTo (fun n d =>
          L.nbr i n >>= fun nb =>
          if nb.isSome then
            diffusionRateDifferenceC T L x i s n >>= fun v => d.rd (T.dIdx i s) >>= fun cur => d.wr (T.dIdx i s) (cur - v)
          else .ok d) m d1) T.ns dxdt) T.n dxdt

/-- `Apply_dxdt` -/
def applyDxdt (T : Tabs) (dt : Rat) (dxdt : Vec Rat) (x : Vec Rat) : CRes (Vec Rat) :=
  forUpTo (fun i x => forUpTo (fun j x =>
    x.rd (T.xIdx i j) >>= fun xv => dxdt.rd (T.dIdx i j) >>= fun d => x.wr (T.xIdx i j) (xv + d * dt)) T.ns x) T.n x

/-! ### tau-leap -/

structure TauSt where
  mnr : Vec Int
  mnd : SlotVec Int
  cnt : Nat

/-- `Compute_nevt` -/
def computeNevt (T : Tabs) (L : Layout) (o : Oracles) (dt : Rat) (x : Vec Rat) (st : TauSt) : CRes TauSt :=
  forUpTo (fun i st =>
    forUpTo (fun r (st : TauSt) =>
      T.reactionProp x i r >>= fun a => poissonChecked o st.cnt (a * dt) >>= fun p =>
      st.mnr.wr (Gen.nrIndex T.nr i r) p.1 >>= fun v => .ok { st with mnr := v, cnt := p.2 }) T.nr st >>= fun st =>
    L.nSlots i >>= fun m =>
    forUpTo (fun s st => forUpTo (fun n (st : TauSt) =>
      L.nbr i n >>= fun nb =>
      L.slot i s n >>= fun a =>
      if nb.isSome then
        diffusionPropC T L x i s n >>= fun pr => poissonChecked o st.cnt (pr * dt) >>= fun p =>
        st.mnd.wr a p.1 >>= fun v => .ok { st with mnd := v, cnt := p.2 }
      else st.mnd.wr a 0 >>= fun v => .ok { st with mnd := v }) m st) T.ns st) T.n st

/-- `Apply_nevt` -/
def applyNevt (T : Tabs) (L : Layout) (st : TauSt) (x : Vec Rat) : CRes (Vec Rat) :=
  forUpTo (fun i x =>
    forUpTo (fun r x => forUpTo (fun j x =>
      T.chstt.rd (T.cIdx i j) >>= fun c =>
      if c ≠ 0 then .ok x
      else
        x.rd (T.xIdx i j) >>= fun xv => T.sto.rd (Gen.stoIndex T.nr j r) >>= fun sv => st.mnr.rd (Gen.nrIndex T.nr i r) >>= fun nv =>
        x.wr (T.xIdx i j) (xv + (sv : Rat) * (nv : Rat))) T.ns x) T.nr x >>= fun x =>
    L.nSlots i >>= fun m =>
    forUpTo (fun s x => forUpTo (fun n x =>
      L.slot i s n >>= fun a => st.mnd.rd a >>= fun nd =>
      if nd = 0 then .ok x
      else
        T.chstt.rd (T.cIdx i s) >>= fun c =>
        (if c ≠ 0 then .ok x else x.rd (T.xIdx i s) >>= fun xv => x.wr (T.xIdx i s) (xv - (nd : Rat))) >>= fun x1 =>
        L.nbr i n >>= fun nb =>
        -- `int j = mesh_neighbors[i*6+n]`: −1 when there is no neighbour
        let j : Int := match nb with | some j => (j : Int) | none => -1
        T.chstt.rd (Gen.chsttIndex T.ns j s) >>= fun cj =>
        if cj ≠ 0 then .ok x1
        else x1.rd (Gen.xIndex T.ns j s) >>= fun xj => x1.wr (Gen.xIndex T.ns j s) (xj + (nd : Rat))) m x) T.ns x) T.n x

/-! ### Gillespie -/

structure GilSt where
  ar : Vec Rat
  ad : SlotVec Rat
  a0r : Vec Rat
  a0d : Vec Rat
  a0 : Rat

/-- `ComputePropensities` -/
def computePropensities (T : Tabs) (L : Layout) (x : Vec Rat) (g : GilSt) : CRes GilSt :=
  forUpTo (fun i (g : GilSt) =>
    g.a0d.wr i 0 >>= fun v1 => g.a0r.wr i 0 >>= fun v2 =>
    forUpTo (fun r (g : GilSt) =>
      T.reactionProp x i r >>= fun a => g.ar.wr (Gen.arIndex T.nr i r) a >>= fun ar =>
      ar.rd (Gen.arIndex T.nr i r) >>= fun a' => g.a0r.rd i >>= fun c => g.a0r.wr i (c + a') >>= fun a0r =>
      .ok { g with ar := ar, a0r := a0r, a0 := g.a0 + a' }) T.nr { g with a0d := v1, a0r := v2 } >>= fun g =>
    L.nSlots i >>= fun m =>
    forUpTo (fun s g => forUpTo (fun n (g : GilSt) =>
      L.nbr i n >>= fun nb => L.slot i s n >>= fun a =>
      (if nb.isSome then diffusionPropC T L x i s n else .ok 0) >>= fun pr =>
      g.ad.wr a pr >>= fun ad => ad.rd a >>= fun pr' => g.a0d.rd i >>= fun c => g.a0d.wr i (c + pr') >>= fun a0d =>
      .ok { g with ad := ad, a0d := a0d, a0 := g.a0 + pr' }) m g) T.ns g) T.n { g with a0 := 0 }

/-- `ApplyReaction` -/
def applyReactionC (T : Tabs) (x : Vec Rat) (i r : Nat) : CRes (Vec Rat) :=
  forUpTo (fun s x =>
    T.chstt.rd (T.cIdx i s) >>= fun c =>
    if c ≠ 0 then .ok x
    else x.rd (T.xIdx i s) >>= fun xv => T.sto.rd (Gen.stoIndex T.nr s r) >>= fun sv => x.wr (T.xIdx i s) (xv + (sv : Rat))) T.ns x

/-- `ApplyDiffusion` -/
def applyDiffusionC (T : Tabs) (L : Layout) (x : Vec Rat) (i s n : Nat) : CRes (Vec Rat) :=
  L.nbr i n >>= fun nb =>
  let j : Int := match nb with | some j => (j : Int) | none => -1
  T.chstt.rd (T.cIdx i s) >>= fun c =>
  (if c ≠ 0 then .ok x else x.rd (T.xIdx i s) >>= fun xv => x.wr (T.xIdx i s) (xv - 1)) >>= fun x1 =>
  T.chstt.rd (Gen.chsttIndex T.ns j s) >>= fun cj =>
  if cj ≠ 0 then .ok x1 else x1.rd (Gen.xIndex T.ns j s) >>= fun xj => x1.wr (Gen.xIndex T.ns j s) (xj + 1)

/-- state of the scan of `DrawAndApplyEvent`: cumulative sum, `break` flag, `mesh_x` -/
structure ScanSt where
  cum : Rat
  done : Bool
  x : Vec Rat

/-- `DrawAndApplyEvent` for `r = u·a0` -/
def drawAndApplyEvent (T : Tabs) (L : Layout) (g : GilSt) (r : Rat) (x : Vec Rat) : CRes (Vec Rat) :=
  (forUpTo (fun i (st : ScanSt) =>
    if st.done then .ok st
    else
      g.a0r.rd i >>= fun ar0 =>
      if r < st.cum + ar0 then
        -- reaction: inner scan with its own cumulative sum
        forUpTo (fun j (s2 : ScanSt) =>
          if s2.done then .ok s2
          else
            g.ar.rd (Gen.arIndex T.nr i j) >>= fun a =>
            if r - st.cum < s2.cum + a then applyReactionC T s2.x i j >>= fun x' => .ok { cum := s2.cum + a, done := true, x := x' }
            else .ok { s2 with cum := s2.cum + a }) T.nr { cum := 0, done := false, x := st.x } >>= fun s2 =>
        .ok { cum := st.cum, done := true, x := s2.x }
      else
        g.a0d.rd i >>= fun ad0 =>
        if r < st.cum + ar0 + ad0 then
          L.nSlots i >>= fun m =>
          forUpTo (fun s (s2 : ScanSt) => forUpTo (fun n (s2 : ScanSt) =>
            if s2.done then .ok s2
            else
              L.slot i s n >>= fun a => g.ad.rd a >>= fun pr =>
              if r - (st.cum + ar0) < s2.cum + pr then
                applyDiffusionC T L s2.x i s n >>= fun x' => .ok { cum := s2.cum + pr, done := true, x := x' }
              else .ok { s2 with cum := s2.cum + pr }) m s2) T.ns { cum := 0, done := false, x := st.x } >>= fun s2 =>
          .ok { cum := st.cum, done := true, x := s2.x }
        else .ok { st with cum := st.cum + ar0 + ad0 }) T.n { cum := 0, done := false, x := x }) >>= fun st => .ok st.x

end Strengths
