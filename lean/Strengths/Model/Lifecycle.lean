/-
Engine lifecycle: the native globals of `engine.cpp` (`global_grid_algo`, `global_graph_algo`,
`global_space_type`, `global_algo_freed`), the `engineexport_*` entry points, and the `LibRDEngine`
wrapper attributes (`_simulation_unfinished`, `_script`/`_units_system`), for up to two engine objects
loaded from the same shared library (they share the globals).

Pointers are `null | live obj | dangling`; an entry point that dereferences a non-live pointer, or
deletes a dangling one, or overflows the output buffer, is a `fault` (undefined behaviour of the real
code: crash / garbage), after which the model stops (`crashed`).  Every entry point first tests
`global_algo_freed` and returns 0 when no simulation is set up.  Python-level exceptions are `raised`.

The algorithm object is `NSim` = sampler members (`Model/Sampler.lean`) + the `Init` arguments it keeps.
Core Lean only.
-/
import Strengths.Model.Sampler

namespace Strengths

inductive Ptr (α : Type) where
  | null
  | live (a : α)
  | dangling

/-- what `LibRDEngine.setup` marshals out of a script -/
structure Setup (σ ω : Type) where
  /-- 0: `RDGridSpace` → `engineexport_initialize_grid`, 1: `RDGraphSpace` → `…_graph` -/
  spaceType : Nat
  cfg : SamplerCfg
  algo : Algo σ ω
  /-- processed initial state (`init_state_processing`, C14) and seeded generator -/
  x0 : σ
  /-- `script.system.state_size()` = n_species · n_cells -/
  stateSize : Nat
  /-- marshalling raises a Python exception before the native call (e.g. default `t_max` of an empty
  `t_sample`); `_script` and `_simulation_unfinished` are already assigned at that point -/
  raises : Bool
  /-- EXTERNAL ASSUMPTION 1 (C14's hypothesis): the initial-state processing of this script returns — the
  redistribution loop of `GenerateStochasticDistribution` terminates.  `false`: `setup` never returns. -/
  initReturns : Bool := true
  /-- EXTERNAL ASSUMPTION 2 (size assumption): every Poisson draw of this run returns.  On the pinned tree
  (`std::poisson_distribution<int>`) this needed Poisson means below 2³¹ — a mean beyond that never returned (observed on the real
  code; repaired by fix30, which draws with `<long long>`: the bound is now 2⁶³).  `false`: a drive call never returns. -/
  stepReturns : Bool := true

/-- the C++ algorithm object -/
structure NSim (σ ω : Type) where
  cfg : SamplerCfg
  algo : Algo σ ω
  sim : SimSt σ ω
  /-- n_species · n_meshes -/
  size : Nat
  /-- see `Setup.stepReturns` -/
  stepReturns : Bool := true

/-- globals of `engine.cpp` -/
structure Native (σ ω : Type) where
  spaceType : Nat
  grid : Ptr (NSim σ ω)
  graph : Ptr (NSim σ ω)
  freed : Bool

/-- static initialisation: zero / null, `global_algo_freed = true` (`Gen.engineGlobals`) -/
def Native.boot {σ ω : Type} : Native σ ω := ⟨0, .null, .null, true⟩

/-- attributes of a `LibRDEngine` object -/
structure Wrapper (σ ω : Type) where
  /-- `_simulation_unfinished` -/
  unfinished : Bool
  /-- `_script` (and `_units_system`): absent before the first `setup` -/
  script : Option (Setup σ ω)

def Wrapper.fresh {σ ω : Type} : Wrapper σ ω := ⟨true, none⟩

inductive Obj where
  | A
  | B
  deriving DecidableEq, Repr

structure World (σ ω : Type) where
  native : Native σ ω
  a : Wrapper σ ω
  b : Wrapper σ ω
  crashed : Bool

def World.boot {σ ω : Type} : World σ ω := ⟨Native.boot, Wrapper.fresh, Wrapper.fresh, false⟩

inductive Call (σ ω : Type) where
  | setup (sc : Setup σ ω)
  | iterate
  | iterateN (n : Int)
  /-- `run(breathe_dt)`; `k` = further iterations until the wall-clock test succeeds -/
  | run (k : Nat)
  | sample
  | getProgress
  | isComplete
  | getOutput
  | finalize

/-- what a call returns -/
inductive Obs (ω : Type) where
  | unit
  | bool (b : Bool)
  | num (q : Rat)
  /-- `RDTrajectory`: times and recorded states -/
  | output (ts : List Rat) (data : List ω)
  /-- output buffer of the wrapper's script size filled by a simulation of a smaller size -/
  | garbled
  | raised
  | fault
  /-- the call never returns (only under a violated external assumption) -/
  | hang
  deriving DecidableEq

namespace World
variable {σ ω : Type}

def obj (w : World σ ω) : Obj → Wrapper σ ω
  | .A => w.a
  | .B => w.b

def setObj (w : World σ ω) (o : Obj) (x : Wrapper σ ω) : World σ ω :=
  match o with
  | .A => { w with a := x }
  | .B => { w with b := x }

/-- the pointer the entry points dereference (`global_space_type == 0 ? grid : graph`) -/
def cur (n : Native σ ω) : Ptr (NSim σ ω) := if n.spaceType = 0 then n.grid else n.graph

def setCur (n : Native σ ω) (p : Ptr (NSim σ ω)) : Native σ ω :=
  if n.spaceType = 0 then { n with grid := p } else { n with graph := p }

def crash (w : World σ ω) : World σ ω × Obs ω := ({ w with crashed := true }, .fault)

/-- a call that never returns: nothing happens afterwards -/
def hangs (w : World σ ω) : World σ ω × Obs ω := ({ w with crashed := true }, .hang)

/-- an entry point: `if(global_algo_freed) return 0;` (answer `dead`), else run `f` on the current algorithm
object, which must be live -/
def onSim (w : World σ ω) (dead : World σ ω × Obs ω) (f : NSim σ ω → World σ ω × Obs ω) : World σ ω × Obs ω :=
  if w.native.freed then dead
  else
    match cur w.native with
    | .live m => f m
    | _ => w.crash

def putSim (w : World σ ω) (m : NSim σ ω) (s : SimSt σ ω) : World σ ω :=
  { w with native := setCur w.native (.live { m with sim := s }) }

/-- `engineexport_initialize_*` for a valid script: `global_space_type = …; global_*_algo = new …;
global_algo_freed = false; …->Init(…)` (a previous live object is leaked, not freed) -/
def nativeInit (n : Native σ ω) (sc : Setup σ ω) : Native σ ω :=
  let m : NSim σ ω := { cfg := sc.cfg, algo := sc.algo, sim := SimSt.init sc.algo sc.cfg sc.x0, size := sc.stateSize,
                        stepReturns := sc.stepReturns }
  let n1 : Native σ ω := { n with spaceType := sc.spaceType }
  { (setCur n1 (.live m)) with freed := false }

/-- a drive call: store `unfinished` in the wrapper, return it as a bool -/
def drive (w : World σ ω) (o : Obj) (m : NSim σ ω) (r : SimSt σ ω × Bool) : World σ ω × Obs ω :=
  ((w.putSim m r.1).setObj o { (w.obj o) with unfinished := r.2 }, .bool r.2)

/-- a drive call on a live simulation: it returns only if the run's Poisson calls do (external assumption 2) -/
def driveIf (w : World σ ω) (o : Obj) (m : NSim σ ω) (r : SimSt σ ω × Bool) : World σ ω × Obs ω :=
  if m.stepReturns then w.drive o m r else w.hangs

/-- a drive entry point on a released / never set-up library returns 0: "finished" -/
def driveDead (w : World σ ω) (o : Obj) : World σ ω × Obs ω :=
  (w.setObj o { (w.obj o) with unfinished := false }, .bool false)

/-- `get_output()` when the library holds no simulation: `engineexport_get_nsamples` is 0 — an empty trajectory
(or an AttributeError when this object was never set up) -/
def outputDead (w : World σ ω) (o : Obj) : World σ ω × Obs ω :=
  match (w.obj o).script with
  | none => (w, .raised)
  | some _ => (w, .output [] [])

/-- `get_output()` on a live simulation -/
def outputOf (w : World σ ω) (o : Obj) (m : NSim σ ω) : World σ ω × Obs ω :=
  match (w.obj o).script with
  | none => (w, .raised)
  | some sc =>
    if m.sim.recs.length = 0 ∨ m.size = sc.stateSize then
      (w, .output (exportTimes m.sim.recs) (m.sim.recs.map (·.2)))
    else if sc.stateSize < m.size then w.crash
    else (w, .garbled)

/-- one API call on object `o` -/
def call (w : World σ ω) (o : Obj) (c : Call σ ω) : World σ ω × Obs ω :=
  if w.crashed then (w, .fault)
  else
    match c with
    | .setup sc =>
      let w1 := w.setObj o { unfinished := true, script := some sc }
      if sc.raises then (w1, .raised)
      else if sc.initReturns then ({ w1 with native := nativeInit w1.native sc }, .unit)
      else w1.hangs
    | .iterate => w.onSim (w.driveDead o) fun m => w.driveIf o m (SimSt.iterate m.algo m.cfg m.sim)
    | .iterateN n =>
      -- `LibRDEngine.iterate_n`: a non-positive count returns the current status without a native call
      if n ≤ 0 then (w, .bool (w.obj o).unfinished)
      else w.onSim (w.driveDead o) fun m => w.driveIf o m (SimSt.iterateN m.algo m.cfg n.toNat m.sim)
    | .run k => w.onSim (w.driveDead o) fun m => w.driveIf o m (SimSt.run m.algo m.cfg k m.sim)
    | .sample => w.onSim (w, .unit) fun m => (w.putSim m (m.sim.sample m.algo), .unit)
    | .getProgress => w.onSim (w, .num 0) fun m => (w, .num (SimSt.progress m.cfg m.sim))
    | .isComplete => (w, .bool (!(w.obj o).unfinished))
    | .getOutput => w.onSim (w.outputDead o) fun m => w.outputOf o m
    | .finalize =>
      if w.native.freed then (w, .unit)
      else
        match cur w.native with
        | .live _ => ({ w with native := { (setCur w.native .dangling) with freed := true } }, .unit)
        | .null => ({ w with native := { w.native with freed := true } }, .unit)
        | .dangling => w.crash

/-- a history of calls; observables in order -/
def runHist (w : World σ ω) : List (Obj × Call σ ω) → World σ ω × List (Obs ω)
  | [] => (w, [])
  | (o, c) :: rest =>
    let r := w.call o c
    let r2 := runHist r.1 rest
    (r2.1, r.2 :: r2.2)

end World

/-! ### Concrete algorithm used by the correspondence: a step counter driven by a recorded clock

The lifecycle correspondence does not re-run the chemistry (that is the step correspondence of
C01/C07): the algorithm state is the number of performed steps, the time increments are those of the
real clock (`clock[n+1] - clock[n]`, falling back to the fixed `dt`), and Gillespie's `a0 == 0` is the
step index `stop`. -/
structure ClockAlgo where
  dt : Rat
  clock : Array Rat
  stop : Option Nat

def ClockAlgo.algo (c : ClockAlgo) : Algo Nat Nat where
  step := fun n =>
    if c.stop = some n then none
    else
      if n + 1 < c.clock.size then some (n + 1, c.clock.getD (n + 1) 0 - c.clock.getD n 0)
      else some (n + 1, c.dt)
  obs := id

end Strengths
