/-
Reading of the per-file idiom inventories `Gen.PyIdioms`.  Core Lean only.
-/
import Strengths.Gen.PyIdioms

namespace Strengths.PyIdioms

/-- constructs that keep value semantics: a conjunction / disjunction of comparisons used as a Boolean value, and a
membership test in a one-character literal -/
def harmless : List String := ["boolop-of-comparisons", "in-char"]

/-- the file compares by value (no `is` except with None), tests membership only in real collections, never relies on
`assert` to refuse input, never uses `x or y` / `x and y` to select a value (which would treat 0, False, "", {} and empty
arrays as missing), never spreads a dictionary's values positionally, and never re-orders what it was given (no `sorted`,
`set`, `reversed`, `unique`, `.sort()`: labels, environments, reactions and cells are addressed by their declared position) -/
def valueSemantic (inv : List (String × String)) : Bool := inv.all fun e => harmless.contains e.1

end Strengths.PyIdioms
