/-
Initial-state processing of the native engine (`engine.cpp`): the `init_state_processing` dispatch of
`engineexport_initialize_grid/_graph`, `GenerateStochasticDistribution` ("redist"), the Poisson and floor
modes, and the Python-side acceptance of the mode (`RDScript.init_state_processing` setter).

Conventions (as in `Model/Engine.lean`): a state is `cell → species → amount` (`State`); the flattening
formulas (`Gen.transposeSrc/transposeDst`, `Gen.gsdIndex`, `Gen.exportSrc/exportDst`) are generated and the
(un)flattening is done by the driver through them; the orders in which the C++ loops visit the flat arrays
are modelled explicitly (`cellMajor`, `speciesMajor`), because they fix which primitive draw an entry gets.

External primitives are the *draw stream*: every `std::poisson_distribution<int>(m)(rng)` is a `Draw.pois`
(a natural number: contract of the primitive), every `std::normal_distribution<double>(m, sd)(rng)` a
`Draw.norm` (any rational), every `uiud(rng)` a `Draw.unif`.  The correction loop `for(;;)` of
`GenerateStochasticDistribution` consumes one uniform per pass, so the draw list itself is its fuel:
running out of draws (`none`) means "needs more fuel", never a result.
Core Lean only.
-/
import Strengths.Model.Engine
import Strengths.Gen.Stoch

namespace Strengths
open Gen

/-- one primitive draw, as logged by the shimmed engine build -/
inductive Draw where
  | pois (n : Nat)
  | norm (v : Rat)
  | unif (u : Rat)
  deriving Repr, DecidableEq

/-- visiting order of a loop over the flat *cell-major* array (`i*n_species+s` increasing): (cell, species) -/
def cellMajor (n ns : Nat) : List (Nat × Nat) :=
  (List.range n).flatMap fun i => (List.range ns).map fun s => (i, s)

/-- visiting order of a loop over the flat *species-major* array (`s*n_meshes+i` increasing): (cell, species) -/
def speciesMajor (n ns : Nat) : List (Nat × Nat) :=
  (List.range ns).flatMap fun s => (List.range n).map fun i => (i, s)

def State.zero : State := ⟨fun _ _ => 0⟩

/-- `Σ_i x[i][s]` accumulated in cell order (steps 1 and 3 of `GenerateStochasticDistribution`) -/
def speciesTotal (x : State) (n s : Nat) : Rat :=
  (List.range n).foldl (fun acc i => acc + x i s) 0

/-! ### "redist": `GenerateStochasticDistribution` -/

/-- step 2, one entry: below the switch a Poisson draw (no draw and 0 when the amount is not positive),
from the switch on `max(0, floor(normal draw))` -/
def redistEntry (v : Rat) (ds : List Draw) : Option (Rat × List Draw) :=
  if v < poissonNormalSwitch then
    if v > 0 then
      match ds with
      | .pois k :: r => some ((k : Rat), r)
      | _ => none
    else some (0, ds)
  else
    match ds with
    | .norm d :: r => some (max 0 ((d.floor : Int) : Rat), r)
    | _ => none

/-- step 2, the loop over the flat cell-major array -/
def redistDraw (x : State) : List (Nat × Nat) → List Draw → State → Option (State × List Draw)
  | [], ds, acc => some (acc, ds)
  | (i, s) :: rest, ds, acc =>
    match redistEntry (x i s) ds with
    | none => none
    | some (v, ds') => redistDraw x rest ds' (acc.update i s v)

/-- the inner `for(i…)` of the correction loop: first cell whose cumulated amount exceeds `target` -/
def hitCell (x : State) (s : Nat) (target : Rat) : List Nat → Rat → Option Nat
  | [], _ => none
  | i :: rest, cum =>
    let cum' := cum + x i s
    if target < cum' then some i else hitCell x s target rest cum'

/-- step 5 for one species: the `for(;;)` with `remaining = delta − delta_count` passes still to succeed.
One uniform per pass; a pass that hits no cell, or (when removing) a cell that holds no molecule, changes
nothing.  `none`: draws exhausted (needs more fuel) or a draw of the wrong kind. -/
def correctSpecies (x : State) (n s : Nat) (realTot : Rat) (rm : Bool) :
    List Draw → Nat → State → Option (State × List Draw)
  | ds, 0, sto => some (sto, ds)
  | [], _ + 1, _ => none
  | .unif u :: ds, k + 1, sto =>
    match hitCell x s (u * realTot) (List.range n) 0 with
    | none => correctSpecies x n s realTot rm ds (k + 1) sto
    | some i =>
      if rm then
        if sto i s > 0 then correctSpecies x n s realTot rm ds k (sto.update i s (sto i s - 1))
        else correctSpecies x n s realTot rm ds (k + 1) sto
      else correctSpecies x n s realTot rm ds k (sto.update i s (sto i s + 1))
  | _ :: _, _ + 1, _ => none

/-- `delta = static_cast<int>(tot2 − floor(tot))` (both integers here; truncation is the identity on them) -/
def redistDelta (x sto : State) (n s : Nat) : Int :=
  (speciesTotal sto n s - ((speciesTotal x n s).floor : Int)).floor

/-- step 5: species in order; `delta == 0` → `continue` (no draw) -/
def redistCorrect (x : State) (n : Nat) : List Nat → List Draw → State → Option (State × List Draw)
  | [], ds, sto => some (sto, ds)
  | s :: rest, ds, sto =>
    let delta := redistDelta x sto n s
    if delta == 0 then redistCorrect x n rest ds sto
    else
      match correctSpecies x n s (speciesTotal x n s) (decide (delta > 0)) ds delta.natAbs sto with
      | none => none
      | some (sto', ds') => redistCorrect x n rest ds' sto'

/-- `GenerateStochasticDistribution(mesh_x, n_meshes, n_species, seed)` as a function of the draw stream -/
def redist (x : State) (n ns : Nat) (ds : List Draw) : Option (State × List Draw) :=
  match redistDraw x (cellMajor n ns) ds State.zero with
  | none => none
  | some (sto, ds') => redistCorrect x n (List.range ns) ds' sto

/-! ### Poisson and floor modes (loops over the species-major input) -/

def poissonEntry (v : Rat) (ds : List Draw) : Option (Rat × List Draw) :=
  if v > 0 then
    match ds with
    | .pois k :: r => some ((k : Rat), r)
    | _ => none
  else some (0, ds)

def poissonMode (x : State) : List (Nat × Nat) → List Draw → State → Option (State × List Draw)
  | [], ds, acc => some (acc, ds)
  | (i, s) :: rest, ds, acc =>
    match poissonEntry (x i s) ds with
    | none => none
    | some (v, ds') => poissonMode x rest ds' (acc.update i s v)

/-- the means handed to `std::poisson_distribution`, in call order (Poisson mode) -/
def poissonModeMeans (x : State) (n ns : Nat) : List Rat :=
  (speciesMajor n ns).filterMap fun (i, s) => if x i s > 0 then some (x i s) else none

/-- the means / switch decisions of step 2 of "redist", in call order: (mean, is-normal) -/
def redistMeans (x : State) (n ns : Nat) : List (Rat × Bool) :=
  (cellMajor n ns).filterMap fun (i, s) =>
    if x i s < poissonNormalSwitch then (if x i s > 0 then some (x i s, false) else none) else some (x i s, true)

def floorMode (x : State) : State := ⟨fun i s => ((x i s).floor : Int)⟩

/-! ### dispatch -/

inductive InitMode where
  | poisson | floor | redist | none
  deriving Repr, DecidableEq

/-- the `if / else if` chain of `engineexport_initialize_*` (`Gen.initBranchesGrid/Graph`); `none` = `return 4` -/
def selectInitMode (mode : String) (isStochastic : Bool) : Option InitMode :=
  if mode == "Poisson" then some .poisson
  else if mode == "floor" then some .floor
  else if mode == "redist" || (isStochastic && mode == "auto") then some .redist
  else if mode == "none" || (!isStochastic && mode == "auto") then some .none
  else none

/-- `is_stochastic` of `engineexport_initialize_*` -/
def optionIsStochastic (option : String) : Bool := option == "tauleap" || option == "gillespie"

/-- the state `Init` receives (hence sample 0), as a function of the draw stream.
`.error .badValue`: the engine returns 4 (unknown mode); `.ok none`: draw stream too short / wrong kinds. -/
def engineInitState (mode option : String) (x : State) (n ns : Nat) (ds : List Draw) :
    Res (Option (State × List Draw)) :=
  match selectInitMode mode (optionIsStochastic option) with
  | none => .error .badValue
  | some .poisson => .ok (poissonMode x (speciesMajor n ns) ds State.zero)
  | some .floor => .ok (some (floorMode x, ds))
  | some .redist => .ok (redist x n ns ds)
  | some .none => .ok (some (x, ds))

/-- `RDScript(init_state_processing = mode)` followed by the engine: the setter rejects anything outside
`Gen.pyInitModes` (ValueError); the accepted string reaches the engine unchanged. -/
def scriptInitState (mode option : String) (x : State) (n ns : Nat) (ds : List Draw) :
    Res (Option (State × List Draw)) :=
  if pyInitModesGuarded && !pyInitModes.contains mode then .error .badValue
  else engineInitState mode option x n ns ds

end Strengths
