/-
Core of the native engine model (C++ `SimulationAlgorithm3DBase` / `SimulationAlgorithmGraphBase` and the
six algorithms), over exact rationals.

Grid and graph algorithms are the same code modulo the *slot* structure of a cell: a grid cell has 6
slots (directions; a slot may have no neighbour), a graph node has one slot per incident half-edge.
`Topo` captures exactly that, so each algorithm is modelled once and instantiated by `gridTopo` /
`graphTopo`, which follow `BuildMeshNeighbors`+`Build_mesh_kd` (grid) and `SetNeighbors`+`Build_mesh_kd`
(graph) literally.

State layout: the C++ keeps `mesh_x[i*n_species+s]` (cell-major).  Here a state is a function
`cell → species → amount`; the flattening formulas are generated (`Gen.EngineCpp`: `transposeDst`,
`exportDst`, …) and the (un)flattening is done by the driver through those formulas.

External primitives are parameters: uniform draws `u ∈ [0,1)`, Poisson counts, `log(1/u)`,
`pow(V, 1/3)` (the cell edge `h` with `h³ = V` is an input).
Core Lean only.
-/
import Strengths.Model.Grid

namespace Strengths

/-- marshalled reaction network (reversible reactions already split into irreversible ones) -/
structure Net where
  nSpecies : Nat
  nReact : Nat
  nEnv : Nat
  /-- `k[env*n_reactions + r]` -/
  k : Nat → Nat → Rat
  /-- `sub[s*n_reactions + r]` substrate coefficient -/
  sub : Nat → Nat → Nat
  /-- `sto[s*n_reactions + r]` net change -/
  sto : Nat → Nat → Int
  /-- `D[s*n_env + env]` -/
  dcoef : Nat → Nat → Rat

/-- slot structure + diffusion constants of a space, as the engine tabulates them in `Init` -/
structure Topo where
  nCells : Nat
  /-- number of slots of cell `i` (6 on a grid; `mesh_neighbor_n[i]` on a graph) -/
  nSlots : Nat → Nat
  /-- neighbour reached from cell `i` through slot `n` (`none` = wall, grid only) -/
  nbr : Nat → Nat → Option Nat
  /-- first-order constant for leaving `i` through slot `n` (cell → species → slot) -/
  kout : Nat → Nat → Nat → Rat
  /-- constant with which the neighbour's amount enters `i` through slot `n` -/
  kin : Nat → Nat → Nat → Rat

/-- everything `Init` receives that the step functions read -/
structure EngIn where
  net : Net
  topo : Topo
  /-- `mesh_env[i]` -/
  env : Nat → Nat
  /-- `mesh_chstt[i*n_species+s] ≠ 0` -/
  chem : Nat → Nat → Bool
  /-- `mesh_vol` (grid: constant function) -/
  vol : Nat → Rat

/-- `mesh_x` as cell → species → amount.  (A structure rather than a bare function type, so that
sequential in-place updates are evaluated strictly by the compiled driver.) -/
structure State where
  get : Nat → Nat → Rat

instance : CoeFun State (fun _ => Nat → Nat → Rat) := ⟨State.get⟩

def State.update (x : State) (i s : Nat) (v : Rat) : State :=
  ⟨fun i' s' => if i' = i ∧ s' = s then v else x.get i' s'⟩

/-! ### Diffusion constants -/

/-- Bernstein interface diffusivity: size-weighted harmonic mean, zero if either coefficient is zero
(`Dij` in both `Build_mesh_kd`) -/
def interfaceD (hi hj Di Dj : Rat) : Rat :=
  if Di != 0 && Dj != 0 then (hi + hj) / (hi / Di + hj / Dj) else 0

/-- grid `mesh_kd[i*n_species*6 + s*6 + n]` (`Build_mesh_kd` of `SimulationAlgorithm3DBase`):
`0` for a wall, else `Dij/(h·h)` with `Dij = 2h/(h/Di + h/Dj)` -/
def gridKd (g : GridShape) (net : Net) (env : Nat → Nat) (h : Rat) (i s n : Nat) : Rat :=
  match engNbr? g i n with
  | none => 0
  | some j =>
    let Di := net.dcoef s (env i)
    let Dj := net.dcoef s (env j)
    let Dij := if Di != 0 && Dj != 0 then (2 * h) / (h / Di + h / Dj) else 0
    Dij / (h * h)

/-- grid: slots are the six directions; the amount coming back from neighbour `j` uses `j`'s own
constant in the opposed direction (`DiffusionRateDifference`) -/
def gridTopo (g : GridShape) (net : Net) (env : Nat → Nat) (h : Rat) : Topo where
  nCells := g.size
  nSlots := fun _ => 6
  nbr := fun i n => engNbr? g i n
  kout := fun i s n => gridKd g net env h i s n
  kin := fun i s n =>
    match engNbr? g i n with
    | none => 0
    | some j => gridKd g net env h j s (oppOf n)

/-- a graph edge as passed to `engineexport_initialize_graph` -/
structure GEdge where
  i : Nat
  j : Nat
  sfc : Rat
  dst : Rat
  deriving Repr, DecidableEq

/-- `SetNeighbors`: the half-edge list of node `i` in push order: (neighbour, surface, distance) -/
def graphSlots (edges : List GEdge) (i : Nat) : List (Nat × Rat × Rat) :=
  edges.flatMap fun e =>
    (if e.i = i then [(e.j, e.sfc, e.dst)] else []) ++ (if e.j = i then [(e.i, e.sfc, e.dst)] else [])

/-- graph `Build_mesh_kd`: `kd_out = Dij·S/(V_i·d)`, `kd_in = Dij·S/(V_j·d)`,
`Dij = (h_i+h_j)/(h_i/D_i + h_j/D_j)`; `edge i` is `pow(mesh_vol[i], 1/3)` -/
def graphTopo (nNodes : Nat) (edges : List GEdge) (net : Net) (env : Nat → Nat) (vol edge : Nat → Rat) : Topo where
  nCells := nNodes
  nSlots := fun i => (graphSlots edges i).length
  nbr := fun i n => ((graphSlots edges i)[n]?).map (·.1)
  kout := fun i s n =>
    match (graphSlots edges i)[n]? with
    | none => 0
    | some (j, sfc, dst) =>
      interfaceD (edge i) (edge j) (net.dcoef s (env i)) (net.dcoef s (env j)) * sfc / (vol i * dst)
  kin := fun i s n =>
    match (graphSlots edges i)[n]? with
    | none => 0
    | some (j, sfc, dst) =>
      interfaceD (edge i) (edge j) (net.dcoef s (env i)) (net.dcoef s (env j)) * sfc / (vol j * dst)

/-! ### Reaction constants, rates and propensities -/

/-- order of reaction `r`: `q = Σ_s sub[s][r]` -/
def Net.order (net : Net) (r : Nat) : Nat := ((List.range net.nSpecies).map fun s => net.sub s r).sum

/-- `mesh_kr[i*n_reactions+r] = k[env_i][r] · pow(V_i, 1-q)` -/
def meshKr (e : EngIn) (i r : Nat) : Rat :=
  e.net.k (e.env i) r * (e.vol i) ^ ((1 : Int) - (e.net.order r : Int))

/-- `ReactionRate(i, r)`: `kr · Π_s x_s^{sub_s}` -/
def reactionRate (e : EngIn) (x : State) (i r : Nat) : Rat :=
  (List.range e.net.nSpecies).foldl (fun acc s => acc * (x i s) ^ (e.net.sub s r)) (meshKr e i r)

/-- `Π_{q<m} (v - q)` (inner loop of `ReactionProp`) -/
def fallingProd (v : Rat) (m : Nat) : Rat :=
  (List.range m).foldl (fun (acc : Rat) (q : Nat) => acc * (v - (q : Rat))) 1

/-- `ReactionProp(i, r)`: loop over species, `a *= Π_{q<sub}(x-q)` while `x ≥ sub`, else `a = 0; break` -/
def reactionPropAux (e : EngIn) (x : State) (i r : Nat) : List Nat → Rat → Rat
  | [], a => a
  | s :: rest, a =>
    if x i s ≥ (e.net.sub s r : Rat) then reactionPropAux e x i r rest (a * fallingProd (x i s) (e.net.sub s r))
    else 0

def reactionProp (e : EngIn) (x : State) (i r : Nat) : Rat :=
  reactionPropAux e x i r (List.range e.net.nSpecies) (meshKr e i r)

/-- `DiffusionProp(i, s, n)` = `DiffusionRate(i, s, n)` = `x[i][s] · kd_out` -/
def diffusionProp (e : EngIn) (x : State) (i s n : Nat) : Rat := x i s * e.topo.kout i s n

/-- `DiffusionRateDifference(i, s, n)` (only evaluated when slot `n` has a neighbour) -/
def diffusionRateDifference (e : EngIn) (x : State) (i s n : Nat) : Rat :=
  match e.topo.nbr i n with
  | none => 0
  | some j => x i s * e.topo.kout i s n - x j s * e.topo.kin i s n

/-! ### Euler -/

/-- `Compute_dxdt`: entry (i, s) -/
def eulerDxdt (e : EngIn) (x : State) (i s : Nat) : Rat :=
  if e.chem i s then 0
  else
    let reac := (List.range e.net.nReact).foldl (fun acc r => acc + (e.net.sto s r : Rat) * reactionRate e x i r) 0
    (List.range (e.topo.nSlots i)).foldl
      (fun acc n => if (e.topo.nbr i n).isSome then acc - diffusionRateDifference e x i s n else acc) reac

/-- `Apply_dxdt` after `Compute_dxdt`: all derivatives are computed from the old state -/
def eulerStep (e : EngIn) (dt : Rat) (x : State) : State :=
  ⟨fun i s => x i s + eulerDxdt e x i s * dt⟩

/-! ### Tau-leap -/

/-- event counts of one tau-leap step: reactions `nr i r`, diffusion `nd i s n` -/
structure Counts where
  nr : Nat → Nat → Int
  nd : Nat → Nat → Nat → Int

/-- the Poisson means handed to `Poisson(...)` by `Compute_nevt`, in call order:
for each cell: all reactions, then for each species each slot *that has a neighbour*
(walls draw nothing and get count 0). -/
def tauLeapMeans (e : EngIn) (dt : Rat) (x : State) : List Rat :=
  (List.range e.topo.nCells).flatMap fun i =>
    ((List.range e.net.nReact).map fun r => reactionProp e x i r * dt) ++
    ((List.range e.net.nSpecies).flatMap fun s =>
      (List.range (e.topo.nSlots i)).filterMap fun n =>
        if (e.topo.nbr i n).isSome then some (diffusionProp e x i s n * dt) else none)

/-- `Poisson(lambda)` of the base classes: no draw and count 0 when `lambda ≤ 0`, otherwise the next
drawn count.  Expands the actually drawn counts to one count per mean (`none`: wrong number of draws). -/
def poissonCounts : List Rat → List Int → Option (List Int)
  | [], [] => some []
  | [], _ :: _ => none
  | m :: ms, ds =>
    if m ≤ 0 then (poissonCounts ms ds).map (0 :: ·)
    else match ds with
      | [] => none
      | d :: ds' => (poissonCounts ms ds').map (d :: ·)

/-- distribute a flat list of drawn counts (same order as `tauLeapMeans`) into `Counts`;
`none` if the list has the wrong length -/
def countsOfDraws (e : EngIn) (draws : List Int) : Option Counts :=
  let keys : List (Nat × Option Nat × Nat) :=   -- (cell, some species | none = reaction, r or slot)
    (List.range e.topo.nCells).flatMap fun i =>
      ((List.range e.net.nReact).map fun r => (i, none, r)) ++
      ((List.range e.net.nSpecies).flatMap fun s =>
        (List.range (e.topo.nSlots i)).filterMap fun n =>
          if (e.topo.nbr i n).isSome then some (i, some s, n) else none)
  if keys.length != draws.length then none
  else
    let tbl := keys.zip draws
    some {
      nr := fun i r => ((tbl.find? fun (k, _) => k == (i, none, r)).map (·.2)).getD 0
      nd := fun i s n => ((tbl.find? fun (k, _) => k == (i, some s, n)).map (·.2)).getD 0 }

/-- `Apply_nevt`, the part of cell `i`: reactions of `i` then diffusion out of `i` (in place) -/
def applyNevtCell (e : EngIn) (c : Counts) (x : State) (i : Nat) : State :=
  let x1 : State := (List.range e.net.nReact).foldl (fun x r =>
      (List.range e.net.nSpecies).foldl (fun x j =>
        if e.chem i j then x else x.update i j (x i j + (e.net.sto j r : Rat) * (c.nr i r : Rat))) x) x
  (List.range e.net.nSpecies).foldl (fun x s =>
    (List.range (e.topo.nSlots i)).foldl (fun x n =>
      if c.nd i s n == 0 then x
      else
        let x' := if e.chem i s then x else x.update i s (x i s - (c.nd i s n : Rat))
        match e.topo.nbr i n with
        | none => x'   -- unreachable in the code: a wall slot always has count 0
        | some j => if e.chem j s then x' else x'.update j s (x' j s + (c.nd i s n : Rat))) x) x1

/-- `Apply_nevt`: cells in order, updating in place -/
def tauLeapApply (e : EngIn) (c : Counts) (x : State) : State :=
  (List.range e.topo.nCells).foldl (applyNevtCell e c) x

/-! ### Gillespie -/

/-- `mesh_a0r[i]`, `mesh_a0d[i]`, `a0` of `ComputePropensities` -/
def a0r (e : EngIn) (x : State) (i : Nat) : Rat :=
  (List.range e.net.nReact).foldl (fun acc r => acc + reactionProp e x i r) 0

/-- `mesh_ad[i][s,n]`: zero on a wall slot -/
def diffPropSlot (e : EngIn) (x : State) (i s n : Nat) : Rat :=
  if (e.topo.nbr i n).isSome then diffusionProp e x i s n else 0

def a0d (e : EngIn) (x : State) (i : Nat) : Rat :=
  (List.range e.net.nSpecies).foldl (fun acc s =>
    (List.range (e.topo.nSlots i)).foldl (fun acc n => acc + diffPropSlot e x i s n) acc) 0

def a0 (e : EngIn) (x : State) : Rat :=
  (List.range e.topo.nCells).foldl (fun acc i => acc + a0r e x i + a0d e x i) 0

/-- an event of the stochastic engines -/
inductive Event where
  | reaction (cell r : Nat)
  | diffusion (cell s slot : Nat)
  deriving Repr, DecidableEq

/-- inner scan over the reactions of cell `i`: first `j` with `r2 < Σ_{j' ≤ j} ar` -/
def scanReactions (e : EngIn) (x : State) (i : Nat) (r2 : Rat) : List Nat → Rat → Option Event
  | [], _ => none
  | j :: rest, cum =>
    let cum' := cum + reactionProp e x i j
    if r2 < cum' then some (.reaction i j) else scanReactions e x i r2 rest cum'

/-- inner scan over (species, slot) of cell `i` -/
def scanDiffusion (e : EngIn) (x : State) (i : Nat) (r2 : Rat) : List (Nat × Nat) → Rat → Option Event
  | [], _ => none
  | (s, n) :: rest, cum =>
    let cum' := cum + diffPropSlot e x i s n
    if r2 < cum' then some (.diffusion i s n) else scanDiffusion e x i r2 rest cum'

def speciesSlots (e : EngIn) (i : Nat) : List (Nat × Nat) :=
  (List.range e.net.nSpecies).flatMap fun s => (List.range (e.topo.nSlots i)).map fun n => (s, n)

/-- `DrawAndApplyEvent`, the selection part: outer scan over cells with the two-level cumulative sums.
`none` = no event applied (can only happen through rounding in the real code; impossible for
`0 ≤ r < a0` in exact arithmetic — theorem `select_total` of C07). -/
def selectEvent (e : EngIn) (x : State) (r : Rat) : List Nat → Rat → Option Event
  | [], _ => none
  | i :: rest, cum =>
    if r < cum + a0r e x i then scanReactions e x i (r - cum) (List.range e.net.nReact) 0
    else
      let cum1 := cum + a0r e x i
      if r < cum1 + a0d e x i then scanDiffusion e x i (r - cum1) (speciesSlots e i) 0
      else selectEvent e x r rest (cum1 + a0d e x i)

/-- `ApplyReaction` / `ApplyDiffusion` -/
def applyEvent (e : EngIn) (x : State) : Event → State
  | .reaction i r => ⟨fun i' s => if i' = i ∧ !e.chem i s then x i s + (e.net.sto s r : Rat) else x i' s⟩
  | .diffusion i s n =>
    let x' := if e.chem i s then x else x.update i s (x i s - 1)
    match e.topo.nbr i n with
    | none => x'
    | some j => if e.chem j s then x' else x'.update j s (x' j s + 1)

/-- result of one Gillespie `Iterate` on the state: `a0 = 0` → completes without drawing;
otherwise the event chosen by `u1` (`r = u1·a0`) and the waiting time `L/a0` where `L = log(1/u2)`
is supplied by the caller (external primitive). -/
structure GStep where
  x : State
  dt : Rat
  event : Option Event

def gillespieStep (e : EngIn) (x : State) (u1 L : Rat) : Option GStep :=
  let a := a0 e x
  if a == 0 then none
  else
    let ev := selectEvent e x (u1 * a) (List.range e.topo.nCells) 0
    some { x := match ev with | some v => applyEvent e x v | none => x, dt := L / a, event := ev }

end Strengths
