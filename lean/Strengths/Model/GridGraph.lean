/-
`coarsegrain.grid_to_graph` and the graph-side edge lookup (`RDGraphSpace.get_edge`,
`get_neighbors`, the neighbour enumeration of `kinetics._compute_dspeciesdt_graph`).

Cube roots: the grid is parameterised by its cell edge `a` (rational) with `cell_vol = a³`
(DESIGN §4); `edge_dst = cell_vol**(1/3) = a`, `edge_sfc = edge_dst**2 = a²`.
All rules (conditions, end points, loop nests) come from `Gen.GeomPy`.
-/
import Strengths.Model.Grid

namespace Strengths
open Gen

/-- an `RDGraphSpaceEdge` produced by `grid_to_graph` (values in the grid's units system) -/
structure PyGEdge where
  i : Int
  j : Int
  surface : Rat
  distance : Rat
  deriving DecidableEq, Repr, Inhabited

/-- an `RDGraphSpaceNode` -/
structure GNode where
  volume : Rat
  env : Int
  deriving DecidableEq, Repr, Inhabited

structure Graph where
  nodes : List GNode
  edges : List PyGEdge
  deriving DecidableEq, Repr, Inhabited

/-- all `(x, y, z)` in the order of the loop nest `for z … for y … for x …` -/
def loopZYX (g : GridShape) : List (Int × Int × Int) :=
  (List.range g.d).flatMap fun (z : Nat) => (List.range g.h).flatMap fun (y : Nat) => (List.range g.w).map fun (x : Nat) =>
    ((x : Int), (y : Int), (z : Int))

/-- `for z … for y …` (x-periodic block), `for z … for x …` (y), `for y … for x …` (z) -/
def loopZY (g : GridShape) : List (Int × Int × Int) :=
  (List.range g.d).flatMap fun (z : Nat) => (List.range g.h).map fun (y : Nat) => ((0 : Int), (y : Int), (z : Int))
def loopZX (g : GridShape) : List (Int × Int × Int) :=
  (List.range g.d).flatMap fun (z : Nat) => (List.range g.w).map fun (x : Nat) => ((x : Int), (0 : Int), (z : Int))
def loopYX (g : GridShape) : List (Int × Int × Int) :=
  (List.range g.h).flatMap fun (y : Nat) => (List.range g.w).map fun (x : Nat) => ((x : Int), (y : Int), (0 : Int))

/-- end points of one edge: both go through `grid.get_cell_index((x, y, z))` (which may raise) -/
def edgeEnds (g : GridShape) (ci cj : Int × Int × Int) : Res (Int × Int) :=
  match pyCellIndex g (.arr ci.1 ci.2.1 ci.2.2) with
  | .error e => .error e
  | .ok i =>
    match pyCellIndex g (.arr cj.1 cj.2.1 cj.2.2) with
    | .error e => .error e
    | .ok j => .ok (i, j)

/-- the end points of all edges, in the order `grid_to_graph` appends them -/
def gridEdgeEnds (g : GridShape) : List (Res (Int × Int)) :=
  let w : Int := g.w
  let h : Int := g.h
  let d : Int := g.d
  ((loopZYX g).flatMap fun c =>
      ((g2gInnerRules w h d c.1 c.2.1 c.2.2).filter (·.1)).map fun r => edgeEnds g r.2.1 r.2.2)
  ++ (if g.px then (loopZY g).map fun c => edgeEnds g (g2gPerI0 w h d c.1 c.2.1 c.2.2) (g2gPerJ0 w h d c.1 c.2.1 c.2.2) else [])
  ++ (if g.py then (loopZX g).map fun c => edgeEnds g (g2gPerI1 w h d c.1 c.2.1 c.2.2) (g2gPerJ1 w h d c.1 c.2.1 c.2.2) else [])
  ++ (if g.pz then (loopYX g).map fun c => edgeEnds g (g2gPerI2 w h d c.1 c.2.1 c.2.2) (g2gPerJ2 w h d c.1 c.2.1 c.2.2) else [])

/-- `grid_to_graph(grid)`; `a` = cell edge (`cell_vol = a³`), `envs` = `grid.cell_env` -/
def gridToGraph (g : GridShape) (a : Rat) (envs : List Int) : Res Graph :=
  match seqRes (gridEdgeEnds g) with
  | .error e => .error e
  | .ok ends =>
    .ok { nodes := envs.map fun e => ⟨a * a * a, e⟩,
          edges := ends.map fun (i, j) => ⟨i, j, a * a, a⟩ }

/-! ### graph-side lookups -/

/-- `RDGraphSpace.get_edge(i, j)` : the first matching edge -/
def getEdge (edges : List PyGEdge) (i j : Int) : Option PyGEdge :=
  edges.find? fun e => edgeMatches e.i e.j i j

/-- `RDGraphSpace.get_cell_index(position)` -/
def graphCellIndex (size : Nat) (p : Int) : Res Int :=
  if graphIndexBad size p then .error .outOfRange else .ok p

/-- `RDGraphSpace.get_neighbors(i)`: one entry per edge end (with multiplicity; a self-loop gives two) -/
def graphGetNeighbors (edges : List PyGEdge) (i : Int) : List Int :=
  edges.flatMap fun e => (if i == e.i then [e.j] else []) ++ (if i == e.j then [e.i] else [])

/-- the cells whose diffusion terms `_compute_dspeciesdt_graph` adds for node `i`: every `j ≠ i`
with an edge, once (no multiplicity) -/
def kinGraphNeighbors (size : Nat) (edges : List PyGEdge) (i : Int) : List Int :=
  ((List.range size).map fun (j : Nat) => (j : Int)).filter fun j => j != i && (getEdge edges i j).isSome

end Strengths
