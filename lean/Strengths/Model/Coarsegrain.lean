/-
Executable model of `strengths/coarsegrain.py`: grid_to_graph, check_index_map_validity,
coarsegrain_grid, coarsegrain_system, uncoarsegrain_trajectory_data.
Hand-written line by line; the tests of the validity check, the aggregation / spreading subscripts
come from `Gen.CoarsePy`, the grid index formula from `Gen.IndexPy`.  Core Lean only.

Geometry convention (DESIGN §4): the grid is given by its cell edge `h` (cell volume `V = h³`), expressed
in the units system of `cell_vol` (`uv`); the grid's own units system is `ug`.  As in the code, node
volumes of the coarse graph are accumulated in `ug` (initial `0` + converted terms) while edge surfaces
and distances keep the units of `cell_vol`.  Distances are returned squared.
-/
import Strengths.Model.Units
import Strengths.Model.Grid
import Strengths.Model.Trajectory
import Strengths.Gen.CoarsePy

namespace Strengths
open Gen

/-- an edge of a graph space: `(i, j, surface, distance or distance²)` -/
structure CgEdge where
  i : Int
  j : Int
  surface : Rat
  dist : Rat
  deriving DecidableEq, Repr, Inhabited

/-! ### grid_to_graph -/

/-- the `(x, y, z)` triples in the order of `for z … for y … for x …` -/
def gridCoords (g : GridShape) : List (Nat × Nat × Nat) :=
  (List.range g.d).flatMap fun z => (List.range g.h).flatMap fun y => (List.range g.w).map fun x => (x, y, z)

/-- `grid.get_cell_index((x, y, z))` for coordinates the loops produce (`-1` ↦ would raise; never for loop coordinates) -/
def gci (g : GridShape) (x y z : Int) : Int :=
  match pyCellIndexOfCoords g x y z with
  | .ok i => i
  | .error _ => -1

/-- the inner-face edges appended for one cell, in source order (+x, +y, +z) -/
def faceEdges (g : GridShape) (sfc dst : Rat) (c : Nat × Nat × Nat) : List CgEdge :=
  let (x, y, z) := c
  (if (x : Int) < g.w - 1 then [⟨gci g x y z, gci g (x + 1) y z, sfc, dst⟩] else []) ++
  (if (y : Int) < g.h - 1 then [⟨gci g x y z, gci g x (y + 1) z, sfc, dst⟩] else []) ++
  (if (z : Int) < g.d - 1 then [⟨gci g x y z, gci g x y (z + 1), sfc, dst⟩] else [])

/-- the wrap-around edges of the periodic axes, in source order (x, then y, then z) -/
def periodicEdges (g : GridShape) (sfc dst : Rat) : List CgEdge :=
  (if g.px then (List.range g.d).flatMap fun (z : Nat) => (List.range g.h).map fun (y : Nat) =>
      (⟨gci g (g.w - 1) y z, gci g 0 y z, sfc, dst⟩ : CgEdge) else []) ++
  (if g.py then (List.range g.d).flatMap fun (z : Nat) => (List.range g.w).map fun (x : Nat) =>
      (⟨gci g x (g.h - 1) z, gci g x 0 z, sfc, dst⟩ : CgEdge) else []) ++
  (if g.pz then (List.range g.h).flatMap fun (y : Nat) => (List.range g.w).map fun (x : Nat) =>
      (⟨gci g x y (g.d - 1), gci g x y 0, sfc, dst⟩ : CgEdge) else [])

/-- `grid_to_graph(grid)`: node volumes (`h³` each), node environments, edges (surface `h²`, distance `h`),
all in the units of `cell_vol` -/
structure CgGraph where
  vols : List Rat
  envs : List Int
  edges : List CgEdge
  deriving Repr, DecidableEq

def cgGridToGraph (g : GridShape) (h : Rat) (envs : List Int) : CgGraph :=
  { vols := List.replicate g.size (h * h * h), envs := envs,
    edges := (gridCoords g).flatMap (faceEdges g (h * h) h) ++ periodicEdges g (h * h) h }

/-! ### check_index_map_validity -/

def listMax : List Int → Option Int
  | [] => none
  | a :: r => some (r.foldl max a)

def listMin : List Int → Option Int
  | [] => none
  | a :: r => some (r.foldl min a)

/-- the environment-consistency loop: `out` is `env_out` (slot `k` ↦ `env_out[k]`; Python negative indices wrap) -/
def envLoop : List (Int × Int) → List Int → Res Unit
  | [], _ => .ok ()
  | (g, e) :: rest, out =>
    if envSkip g then envLoop rest out
    else
      match npNorm out.length g with
      | .error err => .error err
      | .ok k =>
        let cur := out.getD k 0
        if envUnset cur e then envLoop rest (out.set k e)
        else if envSame cur e then envLoop rest out
        else .error .badValue

/-- `check_index_map_validity(im, space)`; `im` entries that are not Python `int`s are `none` -/
def checkIndexMap (im : List (Option Int)) (envs : List Int) : Res Unit :=
  if imLenBad im.length envs.length then .error .badValue
  else if im.any Option.isNone then .error .typeError
  else
    let ims := im.filterMap id
    match listMax ims, listMin ims with
    | some mx, some mn =>
      if imMinBad mn then .error .badValue
      else if imMaxBad mx then .error .badValue
      else if (List.range (imPresenceHi mx - imPresenceLo mx).toNat).any
          (fun k => !ims.contains (imPresenceLo mx + k)) then .error .badValue
      else envLoop (ims.zip envs) (List.replicate (mx + 1 - mn).toNat envSentinel)
    | _, _ => .error .badValue      -- `max([])` raises

/-! ### coarsegrain_grid -/

/-- `acc[g] += v` for every `(g, v)` with `g ≠ -1` (the guard of the loops), in order -/
def scatterAdd (n : Nat) (pairs : List (Int × Rat)) : List Rat :=
  pairs.foldl (fun acc p => if cgKeep p.1 then acc.modify p.1.toNat (· + p.2) else acc) (List.replicate n 0)

/-- `env[g] = e` for every kept cell, in order (last writer wins) -/
def scatterSet (n : Nat) (pairs : List (Int × Int)) : List Int :=
  pairs.foldl (fun acc p => if cgKeep p.1 then acc.set p.1.toNat p.2 else acc) (List.replicate n 0)

/-- one step of the edge loop: skip self / dropped, merge into the first equal pair, else append -/
def addEdge (im : List Int) (acc : List CgEdge) (e : CgEdge) : List CgEdge :=
  let i := im.getD e.i.toNat 0
  let j := im.getD e.j.toNat 0
  let c0 := min i j
  let c1 := max i j
  if i == j then acc
  else if i == -1 || j == -1 then acc
  else if acc.any (fun o => o.i == c0 && o.j == c1) then
    -- `out_edge.surface += edge.surface` on the first matching edge
    let k := acc.findIdx (fun o => o.i == c0 && o.j == c1)
    acc.modify k (fun o => { o with surface := o.surface + e.surface })
  else acc ++ [⟨c0, c1, e.surface, 0⟩]

/-- result of `coarsegrain_grid` -/
structure CgSpace where
  vols : List Rat          -- node volumes, in the grid's units system `ug`
  envs : List Int
  edges : List CgEdge       -- surface in `uv²`, `dist` = distance² in `uv²`
  cx : List Rat            -- centroids (in `uv`), kept for the theorems
  cy : List Rat
  cz : List Rat
  counts : List Rat
  deriving Repr, DecidableEq

def sq (x : Rat) : Rat := x * x

/-- `coarsegrain_grid(grid, index_map)`; `uv` = units system of `cell_vol`, `ug` = the grid's -/
def coarsegrainGrid (g : GridShape) (h : Rat) (uv ug : Sys) (envs : List Int) (im : List (Option Int)) : Res CgSpace :=
  if g.px || g.py || g.pz then .error .badValue
  else
    let space := cgGridToGraph g h envs
    match checkIndexMap im space.envs with
    | .error e => .error e
    | .ok () =>
      let ims := im.filterMap id
      let nOut := ((listMax ims).getD 0 + 1).toNat
      let f := convFactor uv ug Dim.volume
      let vols := scatterAdd nOut (ims.zip (space.vols.map (· * f)))
      let envOut := scatterSet nOut (ims.zip space.envs)
      let pos := gridCoords g
      let sx := scatterAdd nOut (ims.zip (pos.map fun c => (c.1 : Rat) * h))
      let sy := scatterAdd nOut (ims.zip (pos.map fun c => (c.2.1 : Rat) * h))
      let sz := scatterAdd nOut (ims.zip (pos.map fun c => (c.2.2 : Rat) * h))
      let cnt := scatterAdd nOut (ims.map fun gI => (gI, (1 : Rat)))
      let cx := List.zipWith (· / ·) sx cnt
      let cy := List.zipWith (· / ·) sy cnt
      let cz := List.zipWith (· / ·) sz cnt
      let edges0 := space.edges.foldl (addEdge ims) []
      let edges := edges0.map fun e =>
        { e with dist := sq (cx.getD e.i.toNat 0 - cx.getD e.j.toNat 0) + sq (cy.getD e.i.toNat 0 - cy.getD e.j.toNat 0)
                          + sq (cz.getD e.i.toNat 0 - cz.getD e.j.toNat 0) }
      .ok { vols := vols, envs := envOut, edges := edges, cx := cx, cy := cy, cz := cz, counts := cnt }

/-! ### coarsegrain_system -/

/-- the aggregation loop of `coarsegrain_system` for one array (`src` species-major over `n` cells) -/
def aggregate (ns n ncg : Nat) (ims : List Int) (src : List Rat) : List Rat :=
  let pairs : List (Int × Rat) :=
    (ims.zipIdx).flatMap fun (gI, i) => (List.range ns).map fun (s : Nat) =>
      ((if cgKeep gI then cgStateDst ncg s gI else -1), src.getD (cgStateSrc n s i).toNat 0)
  scatterAdd (ncg * ns) pairs

structure CgSystem where
  space : CgSpace
  state : List Rat
  chem : List Int
  deriving Repr, DecidableEq

/-- `int(min(x, 1))` -/
def clampChem (x : Rat) : Int := if x ≤ 1 then x.floor + (if x < 0 ∧ (x.floor : Rat) ≠ x then 1 else 0) else 1

/-- `coarsegrain_system(system, index_map)` (`ns` species; state and chemostats species-major) -/
def coarsegrainSystem (g : GridShape) (h : Rat) (uv ug : Sys) (envs : List Int) (ns : Nat)
    (state : List Rat) (chem : List Int) (im : List (Option Int)) : Res CgSystem :=
  match coarsegrainGrid g h uv ug envs im with
  | .error e => .error e
  | .ok sp =>
    let ims := im.filterMap id
    let ncg := sp.vols.length
    let n := g.size
    .ok { space := sp,
          state := aggregate ns n ncg ims state,
          chem := (aggregate ns n ncg ims (chem.map fun (c : Int) => (c : Rat))).map clampChem }

/-! ### uncoarsegrain_trajectory_data -/

/-- `cg_nodes`: members of every coarse node, in increasing cell order (Python negative indices wrap) -/
def cgMembers (ncg : Nat) (ims : List Int) : Res (List (List Nat)) :=
  (ims.zipIdx).foldlM (fun acc (p : Int × Nat) =>
    if cgKeep p.1 then
      match npNorm acc.length p.1 with
      | .error e => .error e
      | .ok k => .ok (acc.modify k (· ++ [p.2]))
    else .ok acc) (List.replicate ncg [])

/-- the assignments `data[dst] = value` of the four nested loops, in order -/
def uncgAssignments (N ns nf : Nat) (members : List (List Nat)) (inState : List (List (List Rat))) : List (Nat × Rat) :=
  (List.range N).flatMap fun k => (List.range ns).flatMap fun s => (members.zipIdx).flatMap fun (mem, node) =>
    mem.map fun (j : Nat) =>
      ((uncgDst (uncgStateSize ns nf) nf k s j).toNat,
       (((inState.getD k []).getD s []).getD node 0) / (mem.length : Rat))

/-- `uncoarsegrain_trajectory_data(trajectory, ncg_space, index_map)`:
`N` samples, `ns` species, `ncg` coarse nodes, `nf` fine cells, `cg` = coarse data (flat) -/
def uncoarsegrain (N ns ncg nf : Nat) (ims : List Int) (cg : List Rat) : Res (List Rat) :=
  match cgMembers ncg (ims.take nf) with
  | .error e => .error e
  | .ok members =>
    if ims.length < nf then .error .outOfRange      -- `index_map[i]` for i ≥ len raises IndexError
    else
      match reshape3 cg N ns ncg with
      | .error e => .error e
      | .ok inState =>
        let zeros := List.replicate ((uncgStateSize ns nf).toNat * N) (0 : Rat)
        let asg := uncgAssignments N ns nf members inState
        if asg.any (fun p => p.1 ≥ zeros.length) then .error .outOfRange
        else .ok (asg.foldl (fun d p => d.set p.1 p.2) zeros)

end Strengths
