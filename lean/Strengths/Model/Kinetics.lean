/-
Executable model of the *Python* side of the deterministic rate law:
`strengths/kinetics.py` (compute_reaction_rates, compute_diffusion_rates, _compute_dspeciesdt_grid/_graph,
compute_dstatedt), `RDSystem.make_dxdtf`, `RDSystem.apply_reaction`, `RDSystem.get_chemostat`, and the
marshalling of `librdengine.py` (reaction splitting, build_*_matrix, engine units).

Quantities (`UnitValue`) are modelled by their SI value and their dimension vector (`Q`): every
`UnitValue` operation of units.py acts on SI values as the plain operation and on dimensions as the
corresponding vector operation (that is property C05); the units *system* a value is stored in only
matters where a bare number is read or written (`Q.inU` / `Q.ofU`).
`V**(1/3)` is irrational in general: the cell edge `h` (with `h³ = V`) is an input.

Neighbour enumeration, wrap lines, the rate-constant dimensions, the marshalling subscripts and the
state index are the *generated* definitions (`Gen.KineticsPy`, `Gen.IndexPy`).  Core Lean only.
-/
import Strengths.Model.Engine
import Strengths.Model.Units
import Strengths.Gen.KineticsPy

namespace Strengths
open Gen

/-- a `UnitValue` seen through SI: value in SI base units (m, s, molecule) and dimension vector -/
structure Q where
  si : Rat
  dim : Dim
  deriving DecidableEq, Repr, Inhabited

namespace Q
/-- `UnitValue._product` -/
def mul (a b : Q) : Q := ⟨a.si * b.si, a.dim.add b.dim⟩
/-- `UnitValue.invert` (callers guard the zero case, where Python raises ZeroDivisionError) -/
def inv (a : Q) : Q := ⟨1 / a.si, a.dim.neg⟩
/-- `self / v` = `self._product(_inv(v))` -/
def div (a b : Q) : Q := a.mul b.inv
/-- number * UnitValue -/
def scale (c : Rat) (a : Q) : Q := ⟨c * a.si, a.dim⟩
/-- number / UnitValue = `self.invert()._product(v)` -/
def rdiv (c : Rat) (a : Q) : Q := ⟨(1 / a.si) * c, a.dim.neg⟩
/-- `self ** n` for an integer `n ≥ 0` -/
def npow (a : Q) (n : Nat) : Q := ⟨a.si ^ n, Dim.smul (n : Int) a.dim⟩
/-- `UnitValue._sum` for two quantities: dimensions must agree -/
def add (a b : Q) : Res Q := if a.dim = b.dim then .ok ⟨a.si + b.si, a.dim⟩ else .error .dimMismatch
/-- `self - v` = `self._sum(-v)` -/
def sub (a b : Q) : Res Q := if a.dim = b.dim then .ok ⟨a.si - b.si, a.dim⟩ else .error .dimMismatch
/-- sum of two quantities whose dimensions are equal by construction (setter invariants) -/
def add! (a b : Q) : Q := ⟨a.si + b.si, a.dim⟩
/-- `V ** (1/3)`: `Units.raiseto(1/3)` needs every exponent divisible by 3; the value is the given root -/
def cbrt (a : Q) (root : Rat) : Res Q :=
  if a.dim.space % 3 = 0 ∧ a.dim.time % 3 = 0 ∧ a.dim.qty % 3 = 0 then
    .ok ⟨root, ⟨a.dim.space / 3, a.dim.time / 3, a.dim.qty / 3⟩⟩
  else .error .dimMismatch
/-- the number stored when the quantity is expressed in system `U` (`.convert(U).value`) -/
def inU (a : Q) (U : Sys) : Rat := a.si / siFactor U a.dim
/-- the quantity denoted by the bare number `v` in system `U` with dimension `d` -/
def ofU (U : Sys) (d : Dim) (v : Rat) : Q := ⟨v * siFactor U d, d⟩
end Q

/-- a per-environment property after its setter: one quantity, or a dict label → quantity -/
inductive EnvVal where
  | single (q : Q)
  | dict (es : List (String × Q))
  deriving Repr, Inhabited

/-- `valproc.get_value_in_env(value, environment, default)` -/
def getValueInEnv (v : EnvVal) (env : String) (dflt : Q) : Q :=
  match v with
  | .single q => q
  | .dict es =>
    match es.lookup env with
    | some q => q
    | none =>
      match es.lookup "default" with
      | some q => q
      | none => dflt

/-- `Reaction.kf_units_dimensions()` / `kr_units_dimensions()` for `count` molecules on the counted side -/
def kfDim (count : Nat) : Dim := ⟨dimKfSpace count, dimKfTime count, dimKfQty count⟩
def krDim (count : Nat) : Dim := ⟨dimKrSpace count, dimKrTime count, dimKrQty count⟩

/-- a `Reaction` of the network: stoichiometric vectors over the network's species (`ssto`, `psto`) -/
structure PyReaction where
  sub : List Nat
  prod : List Nat
  kf : EnvVal
  kr : EnvVal
  deriving Repr, Inhabited

def natSum (l : List Nat) : Nat := l.foldl (· + ·) 0

/-- `Reaction.order()` / `rorder()` -/
def PyReaction.order (r : PyReaction) : Nat := natSum r.sub
def PyReaction.rorder (r : PyReaction) : Nat := natSum r.prod

/-- `Reaction.split()`: forward and reverse irreversible reactions (`kr = 0`) -/
def PyReaction.split (r : PyReaction) : PyReaction × PyReaction :=
  (⟨r.sub, r.prod, r.kf, .single ⟨0, krDim (natSum r.prod)⟩⟩,
   ⟨r.prod, r.sub, r.kr, .single ⟨0, krDim (natSum r.sub)⟩⟩)

structure PyNode where
  vol : Q
  edge : Rat
  env : Nat
  deriving Repr, Inhabited

structure PyEdge where
  i : Nat
  j : Nat
  sfc : Q
  dst : Q
  deriving Repr, Inhabited

inductive PySpace where
  /-- `RDGridSpace`: shape, `cell_vol`, SI value of `cell_vol**(1/3)`, `cell_env` -/
  | grid (g : GridShape) (vol : Q) (edge : Rat) (env : List Nat)
  /-- `RDGraphSpace` -/
  | graph (nodes : List PyNode) (edges : List PyEdge)
  deriving Repr, Inhabited

def PySpace.size : PySpace → Nat
  | .grid g _ _ _ => g.size
  | .graph ns _ => ns.length

/-- `get_cell_vol_array().get_at(i)` -/
def PySpace.volOf : PySpace → Nat → Q
  | .grid _ v _ _, _ => v
  | .graph ns _, i => (ns.getD i default).vol

def PySpace.edgeOf : PySpace → Nat → Rat
  | .grid _ _ h _, _ => h
  | .graph ns _, i => (ns.getD i default).edge

/-- `get_cell_env_array()[i]` -/
def PySpace.envOf : PySpace → Nat → Nat
  | .grid _ _ _ env, i => env.getD i 0
  | .graph ns _, i => (ns.getD i default).env

/-- an `RDSystem` as the kinetics functions read it -/
structure PySys where
  nSpecies : Nat
  /-- `network.species[s].D` -/
  dcoef : List EnvVal
  reactions : List PyReaction
  /-- `network.environments` -/
  envs : List String
  space : PySpace
  /-- `system.chemostats` (species-major flat) -/
  chem : List Int
  deriving Repr, Inhabited

/-- `RDSystem.get_state_index(species, position)` on indices -/
def stIdx (n s i : Nat) : Nat := (stateIndex n s i).toNat

/-- `RDSystem.get_chemostat(species, position)` -/
def pyGetChemostat (sys : PySys) (s i : Nat) : Int := sys.chem.getD (stIdx sys.space.size s i) 0

def PySys.envLabel (sys : PySys) (i : Nat) : String := sys.envs.getD (sys.space.envOf i) ""

/-- a state handed to the kinetics functions: SI values (species-major) and the array's dimension -/
structure PyState where
  vals : List Rat
  dim : Dim
  deriving Repr, Inhabited

def PyState.at (x : PyState) (k : Nat) : Q := ⟨x.vals.getD k 0, x.dim⟩

/-! ### compute_reaction_rates -/

/-- `rf = k * volume; for i in range(nspecies): rf *= (state[i]/volume) ** sto[i]` -/
def pyRateLoop (ns : Nat) (k V : Q) (conc : Nat → Q) (sto : List Nat) : Q :=
  (List.range ns).foldl (fun acc s => acc.mul ((conc s).npow (sto.getD s 0))) (k.mul V)

/-- `compute_reaction_rates(system, reaction, position, state, units_system)` (the final
`.convert(units_system)` changes neither SI value nor dimension) -/
def pyReactionRates (sys : PySys) (r : PyReaction) (i : Nat) (x : PyState) : Res (Q × Q) :=
  let V := sys.space.volOf i
  -- `state.get_at(k) / volume` raises ZeroDivisionError for a zero volume
  if sys.nSpecies > 0 ∧ V.si = 0 then .error .badValue
  else
    let conc : Nat → Q := fun s => (x.at (stIdx sys.space.size s i)).div V
    let kf := getValueInEnv r.kf (sys.envLabel i) ⟨0, kfDim (natSum r.sub)⟩
    let kr := getValueInEnv r.kr (sys.envLabel i) ⟨0, krDim (natSum r.prod)⟩
    .ok (pyRateLoop sys.nSpecies kf V conc r.sub, pyRateLoop sys.nSpecies kr V conc r.prod)

/-! ### compute_diffusion_rates -/

/-- `RDGraphSpace.get_edge(i, j)`: the first edge joining the two nodes, in either orientation -/
def pyGetEdge (edges : List PyEdge) (i j : Nat) : Option PyEdge :=
  edges.find? fun e => (e.i == i && e.j == j) || (e.i == j && e.j == i)

def bcString (periodic : Bool) : String := if periodic then "periodical" else "reflecting"

/-- `RDGridSpace.are_neighbors(i, j)` for in-range linear indices -/
def kinAreNeighbors (g : GridShape) (i j : Nat) : Bool :=
  let w : Int := g.w
  let h : Int := g.h
  let d : Int := g.d
  let ad (a b : Int) : Int := Int.ofNat (Int.natAbs (a - b))
  let dx := ad (cellCoordX w h i) (cellCoordX w h j)
  let dy := ad (cellCoordY w h i) (cellCoordY w h j)
  let dz := ad (cellCoordZ w h i) (cellCoordZ w h j)
  let dx := if g.px then min dx (Int.ofNat (Int.natAbs (w - dx))) else dx
  let dy := if g.py then min dy (Int.ofNat (Int.natAbs (h - dy))) else dy
  let dz := if g.pz then min dz (Int.ofNat (Int.natAbs (d - dz))) else dz
  dx + dy + dz == 1

/-- the diffusion coefficients of species `s` in the environments of the two cells -/
def pyDpair (sys : PySys) (s src dst : Nat) : Q × Q :=
  let D := sys.dcoef.getD s default
  let dflt : Q := ⟨0, Dim.diffusion⟩          -- UnitValue(0, "µm2/s")
  (getValueInEnv D (sys.envLabel src) dflt, getValueInEnv D (sys.envLabel dst) dflt)

/-- `compute_diffusion_rates`, grid branch: `k = 2/(h**2 * (1/Di + 1/Dj))`, zero if either is zero -/
def pyDiffusionRatesGrid (sys : PySys) (g : GridShape) (vol : Q) (edge : Rat) (s src dst : Nat) (x : PyState) :
    Res (Q × Q) :=
  if !(kinAreNeighbors g src dst) then .error .badValue
  else
    let (Di, Dj) := pyDpair sys s src dst
    match vol.cbrt edge with
    | .error e => .error e
    | .ok h =>
      let nonzero : Bool := Di.si != 0 && Dj.si != 0
      if nonzero && h.si = 0 then .error .badValue      -- 2/0
      else
        let k : Q := if nonzero then Q.rdiv 2 ((h.npow 2).mul ((Q.rdiv 1 Di).add! (Q.rdiv 1 Dj))) else ⟨0, ⟨0, -1, 0⟩⟩
        let n := sys.space.size
        .ok (k.mul (x.at (stIdx n s src)), k.mul (x.at (stIdx n s dst)))

/-- `compute_diffusion_rates`, graph branch: `Dij = (hi+hj)/(hi/Di + hj/Dj)`,
`kf = Dij*surface/(Vi*distance)`, `kr = Dij*surface/(Vj*distance)` -/
def pyDiffusionRatesGraph (sys : PySys) (nodes : List PyNode) (edges : List PyEdge) (s src dst : Nat) (x : PyState) :
    Res (Q × Q) :=
  match pyGetEdge edges src dst with
  | none => .error .badValue
  | some e =>
    let (Di, Dj) := pyDpair sys s src dst
    let ni := nodes.getD src default
    let nj := nodes.getD dst default
    match ni.vol.cbrt ni.edge, nj.vol.cbrt nj.edge with
    | .error er, _ => .error er
    | _, .error er => .error er
    | .ok hi, .ok hj =>
      let Dij : Q := if Di.si != 0 && Dj.si != 0 then (hi.add! hj).div ((hi.div Di).add! (hj.div Dj)) else ⟨0, Dim.diffusion⟩
      -- `Dij * surface / (V * distance)` raises ZeroDivisionError for a zero volume or distance
      if ni.vol.si * e.dst.si = 0 ∨ nj.vol.si * e.dst.si = 0 then .error .badValue
      else
        let kf := (Dij.mul e.sfc).div (ni.vol.mul e.dst)
        let kr := (Dij.mul e.sfc).div (nj.vol.mul e.dst)
        let n := sys.space.size
        .ok (kf.mul (x.at (stIdx n s src)), kr.mul (x.at (stIdx n s dst)))

/-! ### _compute_dspeciesdt_grid / _graph -/

/-- fold with early exit on the first error (a Python loop whose body may raise) -/
def foldRes {σ α : Type} (f : σ → α → Res σ) : σ → List α → Res σ
  | s, [] => .ok s
  | s, a :: as =>
    match f s a with
    | .error e => .error e
    | .ok s' => foldRes f s' as

/-- `d += t` (`UnitValue._sum`: the dimensions must agree); `d` starts as `UnitValue(0, "molecule/s")` -/
def accAdd (d : Q) (t : Q) : Res Q := d.add t

/-- `(rates[0] - rates[1]) * (product stoichiometry - substrate stoichiometry)` -/
def pyReactionTerm (sys : PySys) (r : PyReaction) (s i : Nat) (x : PyState) : Res Q :=
  match pyReactionRates sys r i x with
  | .error e => .error e
  | .ok (rf, rr) =>
    match rf.sub rr with
    | .error e => .error e
    | .ok df => .ok (df.scale (((r.prod.getD s 0 : Nat) : Rat) - ((r.sub.getD s 0 : Nat) : Rat)))

/-- the loop over the reactions of the network -/
def pyReactionPart (sys : PySys) (s i : Nat) (x : PyState) : Res Q :=
  foldRes (fun d r =>
    match pyReactionTerm sys r s i x with
    | .error e => .error e
    | .ok t => accAdd d t) ⟨0, Dim.rate⟩ sys.reactions

/-- position handed to `compute_diffusion_rates` as source: `p = get_cell_coordinates(get_cell_index(position))`
re-encoded by `get_cell_index(p)` -/
def pyGridSrc (g : GridShape) (i : Nat) : Nat :=
  (cellIndexArr g.w g.h (cellCoordX g.w g.h i) (cellCoordY g.w g.h i) (cellCoordZ g.w g.h i)).toNat

/-- the candidates of `_compute_dspeciesdt_grid` after the wrap lines that pass `is_within_bounds`,
as linear indices (`get_cell_index(c)`), in loop order -/
def pyGridNeighbors (g : GridShape) (i : Nat) : List Nat :=
  let w : Int := g.w
  let h : Int := g.h
  let d : Int := g.d
  pyNbrOffsets.filterMap fun (dx, dy, dz) =>
    let c0 := cellCoordX w h i + dx
    let c1 := cellCoordY w h i + dy
    let c2 := cellCoordZ w h i + dz
    let c0 := if bcString g.px == pyWrapMode.getD 0 "" && pyWrapGuard0 w then pyWrap0 w c0 else c0
    let c1 := if bcString g.py == pyWrapMode.getD 1 "" && pyWrapGuard1 h then pyWrap1 h c1 else c1
    let c2 := if bcString g.pz == pyWrapMode.getD 2 "" && pyWrapGuard2 d then pyWrap2 d c2 else c2
    if withinBoundsArr w h d c0 c1 c2 then some (cellIndexArr w h c0 c1 c2).toNat else none

/-- the neighbours enumerated by `_compute_dspeciesdt_graph`: every other node joined by some edge, once -/
def pyGraphNeighbors (n : Nat) (edges : List PyEdge) (i : Nat) : List Nat :=
  (List.range n).filter fun j => j != i && (pyGetEdge edges i j).isSome

/-- `d += (d_rates[1] - d_rates[0])` -/
def pyDiffusionTerm (rates : Res (Q × Q)) : Res Q :=
  match rates with
  | .error e => .error e
  | .ok (out, inn) => inn.sub out

/-- the diffusion loop of either space type, continuing from the accumulator of the reaction loop -/
def pyDiffusionPart (sys : PySys) (s i : Nat) (x : PyState) (d : Q) : Res Q :=
  match sys.space with
  | .grid g vol edge _ =>
    foldRes (fun d j =>
      match pyDiffusionTerm (pyDiffusionRatesGrid sys g vol edge s (pyGridSrc g i) j x) with
      | .error e => .error e
      | .ok t => accAdd d t) d (pyGridNeighbors g i)
  | .graph nodes edges =>
    foldRes (fun d j =>
      match pyDiffusionTerm (pyDiffusionRatesGraph sys nodes edges s i j x) with
      | .error e => .error e
      | .ok t => accAdd d t) d (pyGraphNeighbors nodes.length edges i)

/-- `compute_dspeciesdt(system, species, position, state, apply_chemostats, units_system)`:
`d` is computed first (and may raise); a set flag then returns `UnitValue(0, "molecule/s")`;
otherwise `d.convert(units_system)`. -/
def pyDspeciesdt (sys : PySys) (s i : Nat) (x : PyState) (applyChem : Bool) : Res Q :=
  if s ≥ sys.nSpecies ∨ i ≥ sys.space.size then .error .outOfRange
  else
    match pyReactionPart sys s i x with
    | .error e => .error e
    | .ok d1 =>
      match pyDiffusionPart sys s i x d1 with
      | .error e => .error e
      | .ok d2 =>
        if applyChem && pyGetChemostat sys s i != 0 then .ok ⟨0, Dim.rate⟩
        else .ok d2

/-- `compute_dstatedt`: species-major list of all entries; `UnitArray(a, a[0].units)` needs at least one
entry and every entry of the first one's dimension -/
def pyDstatedt (sys : PySys) (x : PyState) (applyChem : Bool) : Res (List Rat × Dim) :=
  let entries := (List.range sys.nSpecies).flatMap fun s => (List.range sys.space.size).map fun i => (s, i)
  match foldRes (fun acc (p : Nat × Nat) =>
      match pyDspeciesdt sys p.1 p.2 x applyChem with
      | .error e => .error e
      | .ok q => .ok (acc ++ [q])) [] entries with
  | .error e => .error e
  | .ok [] => .error .outOfRange
  | .ok (q0 :: qs) =>
    if qs.all (fun q => q.dim == q0.dim) then .ok ((q0 :: qs).map (·.si), q0.dim) else .error .dimMismatch

/-! ### RDSystem.make_dxdtf -/

/-- the split reaction list `[r1, r2 for r in reactions]` -/
def pySplitReactions (rs : List PyReaction) : List PyReaction :=
  rs.flatMap fun r => [r.split.1, r.split.2]

/-- `k_r = kf(env).convert(U).value * vol ** (1 - r.order())` for the split reaction `r` -/
def pyDxdtfK (sys : PySys) (U : Sys) (r : PyReaction) : Rat :=
  (getValueInEnv r.kf (sys.envLabel 0) ⟨0, kfDim (natSum r.sub)⟩).inU U *
    ((sys.space.volOf 0).inU U) ^ ((1 : Int) - (r.order : Int))

/-- the closure returned by `make_dxdtf(units_system = U)`, applied to `x` (numbers in `U`):
`rates[r] = k[r]·Π_s x[s]^sub[r][s]`, `dxdt[s] = (Σ_r rates[r]·sto[r][s])·(1 - chemostats[s])` -/
def pyDxdtf (sys : PySys) (U : Sys) (x : List Rat) : Res (List Rat) :=
  if sys.space.size ≠ 1 then .error .notImplemented
  else
    let rs := pySplitReactions sys.reactions
    let rates : List Rat := rs.map fun r =>
      (List.range sys.nSpecies).foldl (fun acc s => acc * (x.getD s 0) ^ (r.sub.getD s 0)) (pyDxdtfK sys U r)
    .ok ((List.range sys.nSpecies).map fun s =>
      ((rs.zip rates).foldl (fun acc (p : PyReaction × Rat) =>
          acc + p.2 * (((p.1.prod.getD s 0 : Nat) : Rat) - ((p.1.sub.getD s 0 : Nat) : Rat))) 0)
        * (((1 : Int) - sys.chem.getD s 0 : Int) : Rat))

/-! ### RDSystem.apply_reaction -/

/-- `apply_reaction(reaction, position=i, n=n)` on a state given as numbers in the state's own units
(`molPerUnit` = how many molecules one unit of the state's quantity is: `dx` is built in "molecule"
and converted to the state's units): entries whose flag is 0 get `dsto·n`, the others are skipped -/
def pyApplyReaction (sys : PySys) (r : PyReaction) (i : Nat) (n : Rat) (molPerUnit : Rat) (x : List Rat) : Res (List Rat) :=
  if i ≥ sys.space.size then .error .outOfRange
  else
    .ok ((List.range sys.nSpecies).foldl (fun (st : List Rat) s =>
      let index := stIdx sys.space.size s i
      if sys.chem.getD index 0 == 0 then
        st.set index (st.getD index 0 +
          ((((r.prod.getD s 0 : Nat) : Rat) - ((r.sub.getD s 0 : Nat) : Rat)) * n) / molPerUnit)
      else st) x)

/-! ### Marshalling (librdengine.py) -/

/-- a flat table written by two nested loops, outer index first -/
def flat2 {α : Type} (a b : Nat) (f : Nat → Nat → α) : List α :=
  (List.range a).flatMap fun i => (List.range b).map (f i)

/-- the arrays `LibRDEngine._setup_grid/_setup_graph` hand to the native initialiser (numbers in the
engine system `U`) -/
structure EngArrays where
  ns : Nat
  nr : Nat
  nenv : Nat
  k : List Rat
  sub : List Nat
  sto : List Int
  D : List Rat
  vol : List Rat
  deriving Repr

def pyMarshal (sys : PySys) (U : Sys) : EngArrays :=
  let rs := pySplitReactions sys.reactions
  let nr := rs.length
  let ne := sys.envs.length
  { ns := sys.nSpecies, nr := nr, nenv := ne
    -- build_reaction_rate_constant_matrix: `for env: for r: km.append(...)`
    k := flat2 ne nr fun e r =>
      let rx := rs.getD r default
      (getValueInEnv rx.kf (sys.envs.getD e "") ⟨0, kfDim (natSum rx.sub)⟩).inU U
    -- build_substrate_stoechiometric_matrix: `sub[s*n_reactions+r] = reactions[r].ssto(labels)[s]`
    sub := flat2 sys.nSpecies nr fun s r => (rs.getD r default).sub.getD s 0
    -- build_stoechiometric_difference_matrix
    sto := flat2 sys.nSpecies nr fun s r =>
      (((rs.getD r default).prod.getD s 0 : Nat) : Int) - (((rs.getD r default).sub.getD s 0 : Nat) : Int)
    -- build_diff_coef_environment_matrix: `D[s*n_env+e]`
    D := flat2 sys.nSpecies ne fun s e =>
      (getValueInEnv (sys.dcoef.getD s default) (sys.envs.getD e "") ⟨0, Dim.diffusion⟩).inU U
    vol := (List.range sys.space.size).map fun i => (sys.space.volOf i).inU U }

/-! ### what the engine reads out of the marshalled arrays -/

/-- the network tables as the native code reads them: flat arrays through the generated index formulas -/
def netOfArrays (A : EngArrays) : Net where
  nSpecies := A.ns
  nReact := A.nr
  nEnv := A.nenv
  k := fun e r => A.k.getD (kIndex A.nr e r).toNat 0
  sub := fun s r => A.sub.getD (subIndex A.nr s r).toNat 0
  sto := fun s r => A.sto.getD (stoIndex A.nr s r).toNat 0
  dcoef := fun s e => A.D.getD (dIndex A.nenv s e).toNat 0

/-- graph initialiser: the tables, `mesh_env`, the edge list, `pow(V, 1/3)` per node (external primitive), `mesh_chstt` -/
def engOfArraysGraph (A : EngArrays) (env : Nat → Nat) (edges : List GEdge) (edge : Nat → Rat) (chem : Nat → Nat → Bool) : EngIn where
  net := netOfArrays A
  topo := graphTopo A.vol.length edges (netOfArrays A) env (fun i => A.vol.getD i 0) edge
  env := env
  chem := chem
  vol := fun i => A.vol.getD i 0

/-- grid initialiser (`h` = `pow(cell_vol, 1/3)`) -/
def engOfArraysGrid (A : EngArrays) (env : Nat → Nat) (g : GridShape) (h : Rat) (chem : Nat → Nat → Bool) : EngIn where
  net := netOfArrays A
  topo := gridTopo g (netOfArrays A) env h
  env := env
  chem := chem
  vol := fun i => A.vol.getD i 0

/-- the edge list handed to `engineexport_initialize_graph`: endpoints, surface and distance as numbers in `U` -/
def edgesInU (U : Sys) (edges : List PyEdge) : List GEdge := edges.map fun e => ⟨e.i, e.j, e.sfc.inU U, e.dst.inU U⟩

/-! ### dimension well-formedness (the invariants the setters establish), as a computable test

`Props/C01Units.lean` proves that it implies `DimWF` / `EdgesWF`, the hypotheses of the any-units theorems; the driver op
`pysys_dimwf` evaluates it on every real system the harness builds. -/

def envValDimB (v : EnvVal) (d : Dim) : Bool :=
  match v with
  | .single q => q.dim == d
  | .dict es => es.all fun p => p.2.dim == d

def dimWFb (sys : PySys) : Bool :=
  sys.reactions.all (fun r => r.sub.length == sys.nSpecies && r.prod.length == sys.nSpecies &&
    envValDimB r.kf (kfDim (natSum r.sub)) && envValDimB r.kr (kfDim (natSum r.prod))) &&
  sys.dcoef.all (fun v => envValDimB v Dim.diffusion) &&
  (match sys.space with
   | .grid _ v _ _ => v.dim == Dim.volume
   | .graph ns es => ns.all (fun n => n.vol.dim == Dim.volume) &&
      es.all (fun e => e.sfc.dim == Dim.surface && e.dst.dim == Dim.length))

end Strengths
