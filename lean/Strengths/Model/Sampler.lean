/-
The sampling / completion skeleton shared by the six native algorithms
(`SimulationAlgorithm3DBase.hpp` / `SimulationAlgorithmGraphBase.hpp`: `Init`'s tail, `Sample`,
`SampleOnTSample`, `SampleOnInterval`, `SamplingStep`, `CheckTMax`, `GetProgress`, and the `Iterate`
bodies of `Euler*`, `TauLeap*`, `Gillespie*`), over an ABSTRACT algorithm step.

* `Algo σ ω`: `step : σ → Option (σ × Rat)` is what one `Iterate` does to the algorithm state (`mesh_x`
  plus the generator state) together with the time increment; `none` is Gillespie's `a0 == 0`
  (`FlagAsComplete`, no clock advance).  `obs` projects the recorded part (`mesh_x`).
  The concrete steps of `Model/Engine.lean` instantiate it (`Model/Lifecycle.lean`).
* time is exact (`Rat`); `floor(t/sampling_interval)` is modelled with the IEEE special values it takes
  when the interval is 0 (`Tsi`).
* `n_samples` is `t_samples.size()` (LibRDEngine passes `len(script.t_sample)` for both).

Export (`engineexport_get_trajectory`, `engineexport_get_tsample`, `LibRDEngine._get_data/_get_t_sample`)
and `RDScript.t_max`'s default are at the end.  Core Lean only.
-/
import Strengths.Model.Basic
import Strengths.Gen.EngineCpp

namespace Strengths

/-- the double `floor(t/sampling_interval)`: an integer, ±∞ (`x/0`) or NaN (`0/0`) -/
inductive Tsi where
  | fin (z : Int)
  | pinf
  | ninf
  | nan
  deriving DecidableEq, Repr, Inhabited

/-- IEEE `a > b` on those values -/
def Tsi.gt : Tsi → Tsi → Bool
  | .fin a, .fin b => decide (b < a)
  | .pinf, .fin _ => true
  | .pinf, .ninf => true
  | .fin _, .ninf => true
  | _, _ => false

/-- `floor(t/sampling_interval)` -/
def tsiRatio (t iv : Rat) : Tsi :=
  if iv = 0 then (if t = 0 then .nan else if 0 < t then .pinf else .ninf) else .fin (t / iv).floor

/-- the `Init` arguments the sampler reads -/
structure SamplerCfg where
  /-- `sampling_policy_code`: 0 on_t_sample, 1 on_iteration, 2 on_interval, 3 no_sampling (`Gen.cppPolicies*`) -/
  policy : Nat
  tSamples : List Rat
  interval : Rat
  tMax : Rat
  deriving Repr, DecidableEq

/-- code of a policy string as `engineexport_initialize_*` assigns it (`none`: return code 3) -/
def policyCode (s : String) : Option Nat := Gen.cppPoliciesGrid.lookup s

/-- one algorithm (see the header) -/
structure Algo (σ ω : Type) where
  step : σ → Option (σ × Rat)
  obs : σ → ω

/-- the members of the base class that `Iterate` / `Sample` / the getters read or write -/
structure SimSt (σ ω : Type) where
  /-- `mesh_x` (+ `rng`) -/
  x : σ
  t : Rat
  samplePos : Nat
  lastTsi : Tsi
  /-- `sampling_done_this_iteration` -/
  done : Bool
  complete : Bool
  /-- `sampled_t` zipped with `sampled_mesh_x` -/
  recs : List (Rat × ω)

namespace SimSt
variable {σ ω : Type}

/-- `Sample()` -/
def sample (A : Algo σ ω) (s : SimSt σ ω) : SimSt σ ω :=
  if s.done then s else { s with recs := s.recs ++ [(s.t, A.obs s.x)], done := true }

/-- the `while` of `SampleOnTSample`, run on the not yet consumed requests `t_samples[sample_pos..]`:
`sample_pos<n_samples` = "the list is not empty", `t>=t_samples[sample_pos]` tests its head -/
def tsLoop (A : Algo σ ω) (s : SimSt σ ω) : List Rat → SimSt σ ω
  | [] => s
  | τ :: rest => if τ ≤ s.t then tsLoop A { (s.sample A) with samplePos := s.samplePos + 1 } rest else s

/-- `SampleOnTSample()` -/
def sampleOnTSample (A : Algo σ ω) (cfg : SamplerCfg) (s : SimSt σ ω) : SimSt σ ω :=
  tsLoop A s (cfg.tSamples.drop s.samplePos)

/-- `SampleOnInterval()` -/
def sampleOnInterval (A : Algo σ ω) (cfg : SamplerCfg) (s : SimSt σ ω) : SimSt σ ω :=
  let r := tsiRatio s.t cfg.interval
  if r.gt s.lastTsi then { (s.sample A) with lastTsi := r } else s

/-- `SamplingStep()`: the `switch` has no default, other codes do nothing -/
def samplingStep (A : Algo σ ω) (cfg : SamplerCfg) (s : SimSt σ ω) : SimSt σ ω :=
  match cfg.policy with
  | 0 => sampleOnTSample A cfg s
  | 1 => s.sample A
  | 2 => sampleOnInterval A cfg s
  | _ => s

/-- `CheckTMax()` -/
def checkTMax (cfg : SamplerCfg) (s : SimSt σ ω) : SimSt σ ω :=
  if 0 ≤ cfg.tMax ∧ cfg.tMax < s.t then { s with complete := true } else s

/-- the members as `Init` leaves them before its final `SamplingStep()` -/
def fresh (x0 : σ) : SimSt σ ω :=
  { x := x0, t := 0, samplePos := 0, lastTsi := .fin (-1), done := false, complete := false, recs := [] }

/-- `Init(...)`: everything reset, then `SamplingStep()` "for t0 sampling if necessary" -/
def init (A : Algo σ ω) (cfg : SamplerCfg) (x0 : σ) : SimSt σ ω := samplingStep A cfg (fresh x0)

/-- `Iterate()` of all six algorithms: new members and the returned `!complete` -/
def iterate (A : Algo σ ω) (cfg : SamplerCfg) (s : SimSt σ ω) : SimSt σ ω × Bool :=
  let s0 : SimSt σ ω := { s with done := false }
  if s0.complete then (s0, false)
  else
    match A.step s0.x with
    | none => ({ s0 with complete := true }, false)
    | some (x', dt) =>
      let s1 := checkTMax cfg (samplingStep A cfg { s0 with x := x', t := s0.t + dt })
      (s1, !s1.complete)

/-- the state after `Iterate()` -/
def next (A : Algo σ ω) (cfg : SamplerCfg) (s : SimSt σ ω) : SimSt σ ω := (iterate A cfg s).1

/-- `n` calls of `Iterate()` -/
def iter (A : Algo σ ω) (cfg : SamplerCfg) : Nat → SimSt σ ω → SimSt σ ω
  | 0, s => s
  | n + 1, s => iter A cfg n (next A cfg s)

/-- `GetProgress()` -/
def progress (cfg : SamplerCfg) (s : SimSt σ ω) : Rat :=
  if 0 < cfg.tMax then 100 * s.t / cfg.tMax else 0

/-- `engineexport_iterate_n(n)`: the `for` with its `break`; returns the members and `unfinished`
(`true` when the loop body never runs) -/
def iterateN (A : Algo σ ω) (cfg : SamplerCfg) : Nat → SimSt σ ω → SimSt σ ω × Bool
  | 0, s => (s, true)
  | n + 1, s =>
    let r := iterate A cfg s
    if r.2 then iterateN A cfg n r.1 else r

/-- `engineexport_run(breathe_dt)`: `for(;;)` with the wall-clock test; `k` is the number of further
iterations after which the elapsed-time test first succeeds (the clock is an external parameter) -/
def run (A : Algo σ ω) (cfg : SamplerCfg) : Nat → SimSt σ ω → SimSt σ ω × Bool
  | 0, s => iterate A cfg s
  | k + 1, s =>
    let r := iterate A cfg s
    if r.2 then run A cfg k r.1 else r

end SimSt

/-! ### Export -/

/-- `engineexport_get_tsample` + `_get_t_sample` (the time unit of the engine's units system is the
script's, so the conversion back is the identity on times) -/
def exportTimes {ω : Type} (recs : List (Rat × ω)) : List Rat := recs.map (·.1)

/-- `engineexport_get_trajectory`: the triple loop `n, s, i` writing `out[exportDst] = rec_n[exportSrc]`;
a recorded state is read through `get i s` (= `trajectory_data_vec[n][i*n_species+s]`).  The loops visit
`exportDst` in increasing order (theorem `exportDst_rowmajor` in C09), so the buffer is this list. -/
def exportData {α : Type} (ns n : Nat) (recs : List (Nat → Nat → α)) : List α :=
  recs.flatMap fun get => (List.range ns).flatMap fun s => (List.range n).map fun i => get i s

/-! ### `RDScript.t_max` -/

/-- the `t_max` getter: `"default"` (here `none`) is the last element of `t_sample`
(`get_at(len-1)`; an empty list raises) -/
def scriptTMax (tMax : Option Rat) (tSample : List Rat) : Res Rat :=
  match tMax with
  | some v => .ok v
  | none =>
    match tSample.getLast? with
    | some v => .ok v
    | none => .error .outOfRange

end Strengths
