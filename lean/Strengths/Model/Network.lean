/-
Executable model of `strengths/rdnetwork.py` (Reaction equations, rate constants, network validity)
and of `value_processing.process_unitvar_input` (C19, C20).  Hand-written, line by line after the
Python code; core Lean only.  Strings are `List Char`.

Python string primitives modelled here: `str.split(sep)` for the separators `"+"`, `","` (one
character) and `"->"` (two different characters), `str.split()` (blank separated words),
`str.strip()` (`stripBlank`, Model/Units), `int(text)` (`pyInt`, Model/Units), `str(int)` (`showIntChars`).
-/
import Strengths.Model.Units
import Strengths.Gen.Network

namespace Strengths
open Gen

/-! ### Python string primitives -/

/-- `s.split(c)` for a one-character separator -/
def splitChar (sep : Char) : List Char → List (List Char)
  | [] => [[]]
  | c :: cs =>
    if c == sep then [] :: splitChar sep cs
    else match splitChar sep cs with
      | [] => [[c]]
      | p :: ps => (c :: p) :: ps

/-- `s.split(ab)` for a two-character separator `a b` (leftmost, non-overlapping) -/
def splitTwo (a b : Char) : List Char → List (List Char)
  | [] => [[]]
  | [c] => [[c]]
  | c :: d :: cs =>
    if c == a && d == b then [] :: splitTwo a b cs
    else match splitTwo a b (d :: cs) with
      | [] => [[c]]
      | p :: ps => (c :: p) :: ps

/-- `s.split()` : maximal runs of non-blank characters (`cur` = current word, reversed) -/
def pyWordsAux : List Char → List Char → List (List Char)
  | [], cur => if cur.isEmpty then [] else [cur.reverse]
  | c :: cs, cur =>
    if isBlank c then (if cur.isEmpty then pyWordsAux cs [] else cur.reverse :: pyWordsAux cs [])
    else pyWordsAux cs (c :: cur)

def pyWords (s : List Char) : List (List Char) := pyWordsAux s []

/-- Python `str(int)` (decimal text; `showIntChars` of Model/Units) -/
def pyStrInt (n : Int) : List Char := showIntChars n

/-! ### Reaction sides: insertion-ordered `dict` label ↦ coefficient -/

abbrev Label := List Char
abbrev Side := List (Label × Int)

/-- `d.get(l, None)` -/
def Side.get? (d : Side) (l : Label) : Option Int := d.lookup l

/-- `d.get(l, 0)` -/
def Side.coef (d : Side) (l : Label) : Int := (d.lookup l).getD 0

/-- `d[l] += c` for an existing key (position kept) -/
def Side.bump (l : Label) (c : Int) : Side → Side
  | [] => []
  | (k, v) :: r => if k == l then (k, v + c) :: r else (k, v) :: Side.bump l c r

/-- `if d.get(label, None) == None : d[label] = coef  else : d[label] += coef` -/
def Side.add (d : Side) (l : Label) (c : Int) : Side :=
  match d.lookup l with
  | none => d ++ [(l, c)]
  | some _ => Side.bump l c d

/-- body of the `for token in tokens` loop of `parse_side`: (coef, label) of one token -/
def parseToken (tok : List Char) : Res (Int × Label) :=
  match pyWords (stripBlank tok) with
  | [w] => .ok (1, stripBlank w)
  | [n, w] =>
    match pyInt (stripBlank n) with
    | some c => .ok (c, stripBlank w)
    | none => .error .badSyntax
  | _ => .error .badSyntax

def parseTokens : List (List Char) → Side → Res Side
  | [], d => .ok d
  | t :: ts, d =>
    match parseToken t with
    | .error e => .error e
    | .ok (c, l) => parseTokens ts (d.add l c)

/-- `parse_side(side)` -/
def parseSide (side : List Char) : Res Side :=
  let tokens := splitChar '+' side
  if tokens.length == 1 && (stripBlank (tokens.headD [])).isEmpty then .ok []
  else parseTokens tokens []

/-- `Reaction._fromstring(string)` : (substrates, products) -/
def parseEquation (s : List Char) : Res (Side × Side) :=
  match splitTwo '-' '>' s with
  | [l, r] =>
    match parseSide l with
    | .error e => .error e
    | .ok sub =>
      match parseSide r with
      | .error e => .error e
      | .ok prod => .ok (sub, prod)
  | _ => .error .badSyntax

/-- `encode_side(d)` of `to_string` -/
def encodeSideAux : Side → Bool → List Char
  | [], _ => []
  | (l, c) :: r, first =>
    if c != 0 then
      (if first then [] else ['+', ' ']) ++ (if c != 1 then pyStrInt c ++ [' '] else []) ++ l ++ [' ']
        ++ encodeSideAux r false
    else encodeSideAux r first

def encodeSide (d : Side) : List Char := encodeSideAux d true

/-- `Reaction.to_string()` -/
def eqToString (sub prod : Side) : List Char := encodeSide sub ++ ['-', '>', ' '] ++ encodeSide prod

/-- `ssto` / `psto` / `dsto` (entry formulas generated from the source) -/
def sstoVec (sub prod : Side) (labels : List Label) : List Int :=
  labels.map fun l => sstoEntry (sub.coef l) (prod.coef l)
def pstoVec (sub prod : Side) (labels : List Label) : List Int :=
  labels.map fun l => pstoEntry (sub.coef l) (prod.coef l)
def dstoVec (sub prod : Side) (labels : List Label) : List Int :=
  labels.map fun l => dstoEntry (sub.coef l) (prod.coef l)

/-- `order()` / `rorder()` / the `count` of `k*_units_dimensions` : sum of the dict values -/
def Side.order (d : Side) : Int := (d.map (·.2)).foldl (· + ·) 0

/-- `kf_units_dimensions()` / `kr_units_dimensions()` (formula generated from the source) -/
def kDim (count : Int) : Dim := ⟨kDimSpace count, kDimTime count, kDimQty count⟩

/-! ### `process_unitvar_input` (scalar and per-environment forms) -/

/-- one value as the user may give it -/
inductive Scalar where
  | num (r : Rat)                         -- a bare number
  | text (v : Rat) (units : String)       -- "v units" (value token read by `float`, rest by `parse_units`)
  | badText                               -- a string `parse_unitvalue` cannot read
  | uval (x : UVal)                       -- a `UnitValue`
  deriving Repr

/-- `UnitValue(v, Units(sys, dim), convert=False)` -/
def processScalar (sys : Sys) (dim : Dim) : Scalar → Res UVal
  | .num r => .ok ⟨r, ⟨sys, dim⟩⟩
  | .text v us =>
    match parseUnits us with
    | .error e => .error e
    | .ok u => if u.dim != dim then .error .dimMismatch else .ok ⟨v, u⟩
  | .badText => .error .badSyntax
  | .uval x => if x.u.dim != dim then .error .dimMismatch else .ok x

/-- a property value: single value, per-environment dict, or an array (never accepted here) -/
inductive KIn where
  | scalar (s : Scalar)
  | dict (d : List (String × Scalar))
  | array
  deriving Repr

inductive KVal where
  | scalar (x : UVal)
  | dict (d : List (String × UVal))
  deriving Repr, DecidableEq

/-- `d[k] = v` on an insertion-ordered dict -/
def kDictSet {α} (d : List (String × α)) (k : String) (v : α) : List (String × α) :=
  if d.any (·.1 == k) then d.map (fun p => if p.1 == k then (k, v) else p) else d ++ [(k, v)]

/-- the keys `ki.strip() for ki in k.split(",")` -/
def splitKeys (k : String) : List String :=
  (splitChar ',' k.toList).map fun p => String.ofList (stripBlank p)

def processDict (sys : Sys) (dim : Dim) : List (String × Scalar) → List (String × UVal) → Res (List (String × UVal))
  | [], out => .ok out
  | (k, s) :: r, out =>
    match processScalar sys dim s with
    | .error e => .error e
    | .ok x => processDict sys dim r ((splitKeys k).foldl (fun o ki => kDictSet o ki x) out)

/-- `process_unitvar_input(v, sys, dim, accepts_singlevalue=True, accepts_dict=True, accepts_array=False)` -/
def processKInput (sys : Sys) (dim : Dim) : KIn → Res KVal
  | .scalar s =>
    match processScalar sys dim s with
    | .error e => .error e
    | .ok x => .ok (.scalar x)
  | .dict d =>
    match processDict sys dim d [] with
    | .error e => .error e
    | .ok o => .ok (.dict o)
  | .array => .error .badValue

/-! ### Reaction -/

structure Reaction where
  sys : Sys
  sub : Side
  prod : Side
  kf : KVal
  kr : KVal
  label : Option Label
  deriving Repr

/-- `assert_string_is_a_valid_label` : the six blanks of `string.whitespace` (`isAsciiBlank`) and `+` are refused
(the `c.count("->")` test on single characters can never fire) -/
def isAsciiBlank (c : Char) : Bool :=
  c == ' ' || c == '\t' || c == '\n' || c == '\r' || c == '\x0b' || c == '\x0c'

def labelOk (l : Label) : Bool := !(l.any fun c => isAsciiBlank c || c == '+')

def checkLabel : Option Label → Res Unit
  | none => .ok ()
  | some l => if labelOk l then .ok () else .error .badValue

/-- `Reaction(stoichiometry, kf, kr, label, units_system)` with the stoichiometry already read -/
def mkReactionSides (sys : Sys) (sub prod : Side) (kf kr : KIn) (label : Option Label) : Res Reaction :=
  match checkLabel label with
  | .error e => .error e
  | .ok () =>
    match processKInput sys (kDim sub.order) kf with
    | .error e => .error e
    | .ok f =>
      match processKInput sys (kDim prod.order) kr with
      | .error e => .error e
      | .ok r => .ok ⟨sys, sub, prod, f, r, label⟩

/-- `Reaction("equation", kf, kr, label, units_system)` -/
def mkReaction (sys : Sys) (eq : List Char) (kf kr : KIn) (label : Option Label) : Res Reaction :=
  match parseEquation eq with
  | .error e => .error e
  | .ok (sub, prod) => mkReactionSides sys sub prod kf kr label

def KVal.toIn : KVal → KIn
  | .scalar x => .scalar (.uval x)
  | .dict d => .dict (d.map fun (k, x) => (k, .uval x))

/-- `Reaction.split()` -/
def Reaction.split (r : Reaction) : Res (Reaction × Reaction) :=
  match mkReactionSides r.sys r.sub r.prod r.kf.toIn (.scalar (.num 0)) none with
  | .error e => .error e
  | .ok f =>
    match mkReactionSides r.sys r.prod r.sub r.kr.toIn (.scalar (.num 0)) none with
    | .error e => .error e
    | .ok b => .ok (f, b)

/-- `UnitValue.__truediv__` : `a._product(b.invert())` -/
def uvalDiv (a b : UVal) : UVal :=
  ⟨a.v * ((1 / b.v) * convFactor b.u.sys a.u.sys b.u.dim.neg), ⟨a.u.sys, a.u.dim.add b.u.dim.neg⟩⟩

/-- `get_value_in_env(value, environment, default)` -/
def kValueInEnv (k : KVal) (env : String) (dflt : UVal) : UVal :=
  match k with
  | .scalar x => x
  | .dict d =>
    match d.lookup env with
    | some x => x
    | none => match d.lookup "default" with
      | some x => x
      | none => dflt

def ratioOrNone (f r : UVal) : Option UVal := if r.v == 0 then none else some (uvalDiv f r)

inductive KConst where
  | scalar (x : Option UVal)
  | dict (d : List (String × Option UVal))
  deriving Repr, DecidableEq

def KVal.keys : KVal → List String
  | .scalar _ => []
  | .dict d => d.map (·.1)

/-- `Reaction.equilibrium_constant()` -/
def Reaction.K (r : Reaction) : KConst :=
  match r.kf, r.kr with
  | .scalar f, .scalar b => .scalar (ratioOrNone f b)
  | kf, kr =>
    let keys0 : List String := match kf with
      | .dict d => d.map (·.1) ++ (kr.keys.filter fun i => !(d.map (·.1)).contains i)
      | .scalar _ => kr.keys
    let keys := if keys0.contains "default" then keys0 else keys0 ++ ["default"]
    .dict (keys.map fun i =>
      (i, ratioOrNone (kValueInEnv kf i ⟨0, ⟨r.sys, kDim r.sub.order⟩⟩) (kValueInEnv kr i ⟨0, ⟨r.sys, kDim r.prod.order⟩⟩)))

/-! ### RDNetwork validity -/

/-- what `_assert_validity` looks at -/
structure NetDesc where
  species : List (Option Label)
  reactions : List (Option Label × List Label × List Label)   -- label, substrate keys, product keys
  deriving Repr

/-- first loop: `sd.get(s.label, None) != None` ⇒ duplicated -/
def dupIn : List (Option Label) → List (Option Label) → Bool
  | [], _ => false
  | l :: r, seen => if seen.contains l then true else dupIn r (l :: seen)

/-- second loop: labelled reactions only -/
def dupReactionLabels (rs : List (Option Label)) : Bool := dupIn (rs.filter Option.isSome) []

/-- third loop: every substrate / product key must be a species label -/
def undeclared (d : NetDesc) : Bool :=
  d.reactions.any fun (_, sub, prod) =>
    sub.any (fun l => !d.species.contains (some l)) || prod.any (fun l => !d.species.contains (some l))

/-- `RDNetwork._assert_validity()` -/
def assertValidity (d : NetDesc) : Res Unit :=
  if dupIn d.species [] then .error .badValue
  else if dupReactionLabels (d.reactions.map (·.1)) then .error .badValue
  else if undeclared d then .error .badValue
  else .ok ()

/-- `RDNetwork.environments` setter -/
def checkEnvironments (envs : List String) : Res Unit :=
  if envs.isEmpty then .error .badValue
  else if envs.contains envReserved then .error .badValue
  else .ok ()

end Strengths
