/-
Conservation laws (C02): a combination `c` of species that every reaction leaves unchanged and that involves
no chemostated entry has the same system-wide total after every step of every engine.
-/
import Strengths.Proofs.StepLegal

namespace Strengths
open Finset

/-- `c` is left unchanged by every reaction: it is in the left null space of the stoichiometric matrix -/
def Cons (net : Net) (c : Nat → Rat) : Prop :=
  ∀ r, r < net.nReact → ∑ s ∈ range net.nSpecies, c s * (net.sto s r : Rat) = 0

/-- no chemostated entry in the support of `c` -/
def Free (e : EngIn) (c : Nat → Rat) : Prop :=
  ∀ i s, i < e.topo.nCells → s < e.net.nSpecies → e.chem i s = true → c s = 0

/-- system-wide total of the combination `c` -/
def total (e : EngIn) (c : Nat → Rat) (x : State) : Rat :=
  ∑ i ∈ range e.topo.nCells, ∑ s ∈ range e.net.nSpecies, c s * x i s

/-- every neighbour is a cell of the space -/
def TopoOK (e : EngIn) : Prop :=
  ∀ i n j, i < e.topo.nCells → n < e.topo.nSlots i → e.topo.nbr i n = some j → j < e.topo.nCells

/-- a state that differs from `x` only in row (cell) `i` -/
theorem total_row {e : EngIn} {c : Nat → Rat} {x y : State} {i : Nat} (hi : i < e.topo.nCells)
    (h : ∀ i' s, i' ≠ i → y i' s = x i' s) :
    total e c y = total e c x + ∑ s ∈ range e.net.nSpecies, c s * (y i s - x i s) := by
  unfold total
  rw [sum_range_update_point (fun i' => ∑ s ∈ range e.net.nSpecies, c s * x i' s)
    (fun i' => ∑ s ∈ range e.net.nSpecies, c s * y i' s) _ i hi
    (fun j hj => Finset.sum_congr rfl (fun s _ => by rw [h j s hj]))]
  rw [← Finset.sum_sub_distrib]
  congr 1
  apply Finset.sum_congr rfl; intro s _; ring

theorem total_update {e : EngIn} {c : Nat → Rat} (x : State) {i s : Nat} (v : Rat)
    (hi : i < e.topo.nCells) (hs : s < e.net.nSpecies) :
    total e c (x.update i s v) = total e c x + c s * (v - x i s) := by
  rw [total_row hi (fun i' s' hne => State.update_other_cell x i s v i' s' hne)]
  congr 1
  rw [Finset.sum_eq_single_of_mem s (Finset.mem_range.2 hs)]
  · simp
  · intro s' _ hne
    rw [State.update_other_species x i s v i s' hne]; ring

/-- a fold whose every step changes the total by a step-dependent amount -/
theorem total_foldl {α : Type} (e : EngIn) (c : Nat → Rat) (step : State → α → State) (δ : α → Rat) :
    ∀ (l : List α) (x : State), (∀ y a, a ∈ l → total e c (step y a) = total e c y + δ a) →
      total e c (l.foldl step x) = total e c x + (l.map δ).sum := by
  intro l
  induction l with
  | nil => intro x _; simp
  | cons a rest ih =>
    intro x h
    rw [List.foldl_cons, ih (step x a) (fun y b hb => h y b (by simp [hb])), h x a (by simp)]
    simp [add_assoc]

theorem total_foldl_zero {α : Type} (e : EngIn) (c : Nat → Rat) (step : State → α → State)
    (l : List α) (x : State) (h : ∀ y a, a ∈ l → total e c (step y a) = total e c y) :
    total e c (l.foldl step x) = total e c x := by
  have := total_foldl e c step (fun _ => 0) l x (fun y a ha => by rw [h y a ha, add_zero])
  simpa using this

/-- the masked stoichiometric sum vanishes: chemostated entries carry no weight (`Free`), the rest is `Cons` -/
theorem masked_sto_sum_zero {e : EngIn} {c : Nat → Rat} (hc : Cons e.net c) (hf : Free e c) {i r : Nat}
    (hi : i < e.topo.nCells) (hr : r < e.net.nReact) :
    ∑ s ∈ range e.net.nSpecies, c s * (if e.chem i s = true then 0 else (e.net.sto s r : Rat)) = 0 := by
  rw [← hc r hr]
  apply Finset.sum_congr rfl
  intro s hs
  by_cases h : e.chem i s = true
  · rw [if_pos h, hf i s hi (Finset.mem_range.1 hs) h]; simp
  · rw [if_neg h]

/-! ### Gillespie -/

theorem total_applyEvent_reaction {e : EngIn} {c : Nat → Rat} (hc : Cons e.net c) (hf : Free e c) (x : State)
    {i r : Nat} (hi : i < e.topo.nCells) (hr : r < e.net.nReact) :
    total e c (applyEvent e x (.reaction i r)) = total e c x := by
  rw [total_row (x := x) (y := applyEvent e x (.reaction i r)) hi (fun i' s hne => by
    rw [applyEvent_reaction]; simp [hne])]
  have : ∑ s ∈ range e.net.nSpecies, c s * ((applyEvent e x (.reaction i r)) i s - x i s) =
      ∑ s ∈ range e.net.nSpecies, c s * (if e.chem i s = true then 0 else (e.net.sto s r : Rat)) := by
    apply Finset.sum_congr rfl
    intro s _
    rw [applyEvent_reaction]
    cases e.chem i s <;> simp
  rw [this, masked_sto_sum_zero hc hf hi hr, add_zero]

/-- moving `m` molecules of species `s` from cell `i` to cell `j`, each side unless chemostated
(`ApplyDiffusion` with `m = 1`, the diffusion part of `Apply_nevt` with `m = count`) -/
theorem total_move {e : EngIn} {c : Nat → Rat} (hf : Free e c) (x : State) {i j s : Nat} (m : Rat)
    (hi : i < e.topo.nCells) (hj : j < e.topo.nCells) (hs : s < e.net.nSpecies) :
    let x' := if e.chem i s then x else x.update i s (x i s - m)
    total e c (if e.chem j s then x' else x'.update j s (x' j s + m)) = total e c x := by
  intro x'
  by_cases hci : e.chem i s = true
  · have hc0 := hf i s hi hs hci
    have hx' : x' = x := by simp [x', hci]
    rw [hx']
    by_cases hcj : e.chem j s = true
    · simp [hcj]
    · have hcj' : e.chem j s = false := by simpa using hcj
      simp only [hcj', Bool.false_eq_true, if_false]; rw [total_update x _ hj hs, hc0]; simp
  · have hx' : x' = x.update i s (x i s - m) := by simp [x', hci]
    have ht : total e c x' = total e c x + c s * (x i s - m - x i s) := by rw [hx', total_update x _ hi hs]
    by_cases hcj : e.chem j s = true
    · have hc0 := hf j s hj hs hcj
      simp only [hcj, if_true]; rw [ht, hc0]; simp
    · have hcj' : e.chem j s = false := by simpa using hcj
      simp only [hcj', Bool.false_eq_true, if_false]
      rw [total_update x' _ hj hs, ht]; ring

theorem total_applyEvent_diffusion {e : EngIn} {c : Nat → Rat} (hf : Free e c) (htopo : TopoOK e) (x : State)
    {i s n : Nat} (hi : i < e.topo.nCells) (hs : s < e.net.nSpecies) (hn : n < e.topo.nSlots i)
    (hsome : (e.topo.nbr i n).isSome) :
    total e c (applyEvent e x (.diffusion i s n)) = total e c x := by
  obtain ⟨j, hj⟩ := Option.isSome_iff_exists.1 hsome
  have hjlt := htopo i n j hi hn hj
  simp only [applyEvent, hj]
  have := total_move hf x (1 : Rat) hi hjlt hs (c := c)
  simpa using this

/-- `gillespie_conserves`: one `Iterate` of the exact engine, for every pair of draws -/
theorem gillespie_conserves {e : EngIn} {c : Nat → Rat} (hv : EngValid e) (hc : Cons e.net c) (hf : Free e c)
    {x : State} (hx : ∀ i s, 0 ≤ x i s) {u1 L : Rat} (hu0 : 0 ≤ u1) (hu1 : u1 < 1) {g : GStep}
    (h : gillespieStep e x u1 L = some g) : total e c g.x = total e c x := by
  have ha : a0 e x ≠ 0 := fun h0 => by rw [(gillespieStep_none_iff e x u1 L).2 h0] at h; cases h
  have hnn := propsNonneg_of_valid hv hx
  have hapos : 0 < a0 e x := by
    rcases lt_or_gt_of_ne ha with h' | h'
    · rw [a0_eq] at h'
      have : 0 ≤ ((channels e (List.range e.topo.nCells)).map (propOf e x)).sum :=
        list_sum_nonneg (fun w hw => by
          simp only [List.mem_map] at hw; obtain ⟨c, _, rfl⟩ := hw; exact hnn c)
      linarith
    · exact h'
  obtain ⟨ev, hstep, _, _, hleg⟩ := gillespieStep_legal hv hx (L := L) hu0 hu1 hapos
  rw [hstep] at h; cases h
  cases ev with
  | reaction i r =>
    obtain ⟨hi, hr, _, _⟩ := hleg
    exact total_applyEvent_reaction hc hf x hi hr
  | diffusion i s n =>
    obtain ⟨hi, hs, hn, j, hj, _, _⟩ := hleg
    exact total_applyEvent_diffusion hf (fun i n j _ _ h => hv.nbr_lt i n j h) x hi hs hn (by simp [hj])

/-! ### Tau-leap -/

/-- the counts of slots without a neighbour are 0 (`Compute_nevt` writes 0 there without drawing) -/
def WallZero (e : EngIn) (k : Counts) : Prop := ∀ i s n, e.topo.nbr i n = none → k.nd i s n = 0

theorem total_applyNevtCell {e : EngIn} {c : Nat → Rat} (hc : Cons e.net c) (hf : Free e c) (htopo : TopoOK e)
    (k : Counts) (hw : WallZero e k) (x : State) {i : Nat} (hi : i < e.topo.nCells) :
    total e c (applyNevtCell e k x i) = total e c x := by
  unfold applyNevtCell
  -- diffusion part
  rw [total_foldl_zero e c _ _ _ (fun y s hs => by
    rw [total_foldl_zero e c _ _ _ (fun z n hnmem => by
      by_cases h0 : (k.nd i s n == 0) = true
      · simp only [h0, if_true]
      · simp only [h0]
        cases hn : e.topo.nbr i n with
        | none =>
          have := hw i s n hn
          simp [this] at h0
        | some j =>
          have hjlt := htopo i n j hi (List.mem_range.1 hnmem) hn
          exact total_move hf z ((k.nd i s n : Int) : Rat) hi hjlt (List.mem_range.1 hs))])]
  -- reaction part
  rw [total_foldl_zero e c _ _ _ (fun y r hr => by
    rw [total_foldl e c _ (fun j => c j * (if e.chem i j = true then 0 else (e.net.sto j r : Rat)) * (k.nr i r : Rat))
      _ y (fun z j hj => by
        by_cases hcj : e.chem i j = true
        · simp [hcj]
        · have hcj' : e.chem i j = false := by simpa using hcj
          simp only [hcj', Bool.false_eq_true, if_false]
          rw [total_update z _ hi (List.mem_range.1 hj)]
          ring)]
    rw [list_range_map_sum, ← Finset.sum_mul, masked_sto_sum_zero hc hf hi (List.mem_range.1 hr)]
    simp)]

/-- `tauleap_conserves`: one `Apply_nevt`, for EVERY vector of event counts (whatever was drawn) -/
theorem tauleap_conserves {e : EngIn} {c : Nat → Rat} (hc : Cons e.net c) (hf : Free e c) (htopo : TopoOK e)
    (k : Counts) (hw : WallZero e k) (x : State) : total e c (tauLeapApply e k x) = total e c x := by
  unfold tauLeapApply
  exact total_foldl_zero e c _ _ _ (fun y i hi => total_applyNevtCell hc hf htopo k hw y (List.mem_range.1 hi))

end Strengths
