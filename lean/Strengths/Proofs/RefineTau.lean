/-
Refinement, tau-leap: `Apply_nevt` of the checked engine is `tauLeapApply` of the core model for the counts stored in
`mesh_nr` / `mesh_nd`; `Compute_nevt` stores the counts that `poissonCounts` / `countsOfDraws` produce from the draws
of the generator in call order.
-/
import Strengths.Proofs.RefineGillespie

namespace Strengths

/-! ### the pieces of `applyNevtCell` -/

def nevtReacJ (e : EngIn) (c : Counts) (i r : Nat) (x : State) (j : Nat) : State :=
  if e.chem i j then x else x.update i j (x i j + (e.net.sto j r : Rat) * (c.nr i r : Rat))

def nevtReac (e : EngIn) (c : Counts) (i : Nat) (x : State) (r : Nat) : State :=
  (List.range e.net.nSpecies).foldl (nevtReacJ e c i r) x

def nevtDiffN (e : EngIn) (c : Counts) (i s : Nat) (x : State) (n : Nat) : State :=
  if c.nd i s n == 0 then x
  else
    let x' := if e.chem i s then x else x.update i s (x i s - (c.nd i s n : Rat))
    match e.topo.nbr i n with
    | none => x'
    | some j => if e.chem j s then x' else x'.update j s (x' j s + (c.nd i s n : Rat))

def nevtDiff (e : EngIn) (c : Counts) (i : Nat) (x : State) (s : Nat) : State :=
  (List.range (e.topo.nSlots i)).foldl (nevtDiffN e c i s) x

theorem applyNevtCell_eq_rf (e : EngIn) (c : Counts) (x : State) (i : Nat) :
    applyNevtCell e c x i =
      (List.range e.net.nSpecies).foldl (nevtDiff e c i) ((List.range e.net.nReact).foldl (nevtReac e c i) x) := rfl

section tau
variable {e : EngIn} {T : Tabs} {L : Layout}

/-- `mesh_nr` / `mesh_nd` hold the counts `c` (slots without a neighbour: 0) -/
structure CountsOK (e : EngIn) (T : Tabs) (L : Layout) (c : Counts) (st : TauSt) : Prop where
  mnr : st.mnr.size = T.n * T.nr
  nr : ∀ i r, i < T.n → r < T.nr → st.mnr.get (i * T.nr + r) = c.nr i r
  nd : ∀ i s k, i < T.n → s < T.ns → k < e.topo.nSlots i → ∀ a, L.slot i s k = .ok a → st.mnd.rd a = .ok (c.nd i s k)
  wall : ∀ i s k, i < T.n → s < T.ns → k < e.topo.nSlots i → e.topo.nbr i k = none → c.nd i s k = 0

theorem chem_false_of {b : Bool} {c : Int} (hc : c ≠ 0 ↔ b = true) (hcz : ¬ c ≠ 0) : b = false := by
  cases b with
  | false => rfl
  | true => exact absurd (hc.mpr rfl) hcz

/-- one `(i, r, j)` body of the reaction part of `Apply_nevt` -/
theorem applyNevt_reacJ (hR : Refines e T L) {c : Counts} {st : TauSt} (hC : CountsOK e T L c st)
    (y : Vec Rat) (hy : y.size = T.n * T.ns) (Y : State) (hA : Agree T y Y) {i r j : Nat} (hi : i < T.n) (hr : r < T.nr) (hj : j < T.ns) :
    Ok (T.chstt.rd (T.cIdx i j) >>= fun c0 =>
        if c0 ≠ 0 then (.ok y : CRes (Vec Rat))
        else
          y.rd (T.xIdx i j) >>= fun xv => T.sto.rd (Gen.stoIndex T.nr j r) >>= fun sv => st.mnr.rd (Gen.nrIndex T.nr i r) >>= fun nv =>
          y.wr (T.xIdx i j) (xv + (sv : Rat) * (nv : Rat)))
      (fun y' => y'.size = T.n * T.ns ∧ Agree T y' (nevtReacJ e c i r Y j)) := by
  refine Ok.bind (rd_chem hR hi hj) (fun c0 hc0 => ?_)
  unfold nevtReacJ
  by_cases hcz : c0 ≠ 0
  · rw [if_pos hcz, if_pos (hc0.mp hcz)]; exact Ok.pure ⟨hy, hA⟩
  · rw [if_neg hcz, chem_false_of hc0 hcz]
    simp only [Bool.false_eq_true, if_false]
    refine Ok.bind (rd_x y hy hi hj) (fun xv hxv => ?_)
    refine Ok.bind (rd_sto hR hj hr) (fun sv hsv => ?_)
    rw [nrIndex_nat]
    refine Ok.bind (Vec.rd_nat st.mnr _ (by rw [hC.mnr]; exact flat2_lt T.n T.nr i r hi hr)) (fun nv hnv => ?_)
    refine Ok.mono (wr_x y hy hi hj _) (fun y' h => ⟨h.1, ?_⟩)
    have := agree_wr hA hj (xv + (sv : Rat) * (nv : Rat)) ⟨h.2.1, h.2.2⟩
    rw [hxv, hA i j hi hj, hsv, hnv, hC.nr i r hi hr] at this
    exact this

/-- one `(i, s, n)` body of the diffusion part of `Apply_nevt` -/
theorem applyNevt_diffN (hR : Refines e T L) {c : Counts} {st : TauSt} (hC : CountsOK e T L c st)
    (y : Vec Rat) (hy : y.size = T.n * T.ns) (Y : State) (hA : Agree T y Y) {i s n : Nat} (hi : i < T.n) (hs : s < T.ns) (hn : n < e.topo.nSlots i) :
    Ok (L.slot i s n >>= fun a => st.mnd.rd a >>= fun nd =>
        if nd = 0 then (.ok y : CRes (Vec Rat))
        else
          T.chstt.rd (T.cIdx i s) >>= fun c0 =>
          (if c0 ≠ 0 then (.ok y : CRes (Vec Rat)) else y.rd (T.xIdx i s) >>= fun xv => y.wr (T.xIdx i s) (xv - (nd : Rat))) >>= fun x1 =>
          L.nbr i n >>= fun nb =>
          let j : Int := match nb with | some j => (j : Int) | none => -1
          T.chstt.rd (Gen.chsttIndex T.ns j s) >>= fun cj =>
          if cj ≠ 0 then .ok x1
          else x1.rd (Gen.xIndex T.ns j s) >>= fun xj => x1.wr (Gen.xIndex T.ns j s) (xj + (nd : Rat)))
      (fun y' => y'.size = T.n * T.ns ∧ Agree T y' (nevtDiffN e c i s Y n)) := by
  obtain ⟨a, ha, _⟩ := hR.layout.slot i s n hi hs hn
  rw [ha, ok_bind, hC.nd i s n hi hs hn a ha, ok_bind]
  unfold nevtDiffN
  by_cases hz : c.nd i s n = 0
  · rw [if_pos hz]
    simp only [hz, beq_self_eq_true, if_true]
    exact Ok.pure ⟨hy, hA⟩
  rw [if_neg hz]
  have hbeq : (c.nd i s n == 0) = false := by simpa using hz
  rw [hbeq]
  simp only [Bool.false_eq_true, if_false]
  cases hnb : e.topo.nbr i n with
  | none => exact absurd (hC.wall i s n hi hs hn hnb) hz
  | some j =>
  have hj := hR.layout.nbr_lt i n j hi hn hnb
  refine Ok.bind (rd_chem hR hi hs) (fun c0 hc0 => ?_)
  let Y1 : State := if e.chem i s then Y else Y.update i s (Y i s - (c.nd i s n : Rat))
  have hx1 : Ok (if c0 ≠ 0 then (.ok y : CRes (Vec Rat)) else y.rd (T.xIdx i s) >>= fun xv => y.wr (T.xIdx i s) (xv - (c.nd i s n : Rat)))
      (fun x1 => x1.size = T.n * T.ns ∧ Agree T x1 Y1) := by
    by_cases hcz : c0 ≠ 0
    · rw [if_pos hcz]
      refine Ok.pure ⟨hy, ?_⟩
      show Agree T y (if e.chem i s then Y else _)
      rw [if_pos (hc0.mp hcz)]; exact hA
    · rw [if_neg hcz]
      refine Ok.bind (rd_x y hy hi hs) (fun xv hxv => ?_)
      refine Ok.mono (wr_x y hy hi hs _) (fun x1 h => ⟨h.1, ?_⟩)
      show Agree T x1 (if e.chem i s then Y else _)
      rw [chem_false_of hc0 hcz]
      simp only [Bool.false_eq_true, if_false]
      have := agree_wr hA hs (xv - (c.nd i s n : Rat)) ⟨h.2.1, h.2.2⟩
      rw [hxv, hA i s hi hs] at this
      exact this
  refine Ok.bind hx1 (fun x1 hx1 => ?_)
  rw [hR.layout.nbr i n hi hn, ok_bind, hnb]
  dsimp only
  refine Ok.bind (rd_chem_nbr hR hj hs) (fun cj hcj => ?_)
  show Ok _ (fun y' => y'.size = T.n * T.ns ∧ Agree T y' (if e.chem j s then Y1 else Y1.update j s (Y1 j s + (c.nd i s n : Rat))))
  by_cases hcz : cj ≠ 0
  · rw [if_pos hcz, if_pos (hcj.mp hcz)]; exact Ok.pure hx1
  · rw [if_neg hcz, chem_false_of hcj hcz]
    simp only [Bool.false_eq_true, if_false]
    refine Ok.bind (rd_x_nbr x1 hx1.1 hj hs) (fun xj hxj => ?_)
    refine Ok.mono (wr_x_nbr x1 hx1.1 hj hs _) (fun x2 h => ⟨h.1, ?_⟩)
    have := agree_wr hx1.2 hs (xj + (c.nd i s n : Rat)) ⟨h.2.1, h.2.2⟩
    rw [hxj, hx1.2 j s hj hs] at this
    exact this

/-- `Apply_nevt` ↔ `tauLeapApply` -/
theorem applyNevt_val (hR : Refines e T L) {c : Counts} {st : TauSt} (hC : CountsOK e T L c st)
    (x : Vec Rat) (hx : x.size = T.n * T.ns) :
    Ok (applyNevt T L st x) (fun x' => x'.size = T.n * T.ns ∧ Agree T x' (tauLeapApply e c (absState T.ns x))) := by
  unfold applyNevt tauLeapApply
  rw [← hR.n]
  refine Ok.forUpTo (fun i (y : Vec Rat) => y.size = T.n * T.ns ∧
    Agree T y ((List.range i).foldl (applyNevtCell e c) (absState T.ns x))) ⟨hx, agree_abs x⟩ (fun i hi y hy => ?_)
  rw [foldl_range_succ, applyNevtCell_eq_rf, ← hR.ns, ← hR.nr]
  generalize (List.range i).foldl (applyNevtCell e c) (absState T.ns x) = Yi at hy ⊢
  -- reactions
  have hreac : Ok (forUpTo (fun r x => forUpTo (fun j x =>
      T.chstt.rd (T.cIdx i j) >>= fun c0 =>
      if c0 ≠ 0 then (.ok x : CRes (Vec Rat))
      else
        x.rd (T.xIdx i j) >>= fun xv => T.sto.rd (Gen.stoIndex T.nr j r) >>= fun sv => st.mnr.rd (Gen.nrIndex T.nr i r) >>= fun nv =>
        x.wr (T.xIdx i j) (xv + (sv : Rat) * (nv : Rat))) T.ns x) T.nr y)
      (fun y' => y'.size = T.n * T.ns ∧ Agree T y' ((List.range T.nr).foldl (nevtReac e c i) Yi)) := by
    refine Ok.forUpTo (fun r (y' : Vec Rat) => y'.size = T.n * T.ns ∧ Agree T y' ((List.range r).foldl (nevtReac e c i) Yi)) hy
      (fun r hr y1 hy1 => ?_)
    rw [foldl_range_succ]
    generalize (List.range r).foldl (nevtReac e c i) Yi = Yr at hy1 ⊢
    unfold nevtReac
    rw [← hR.ns]
    refine Ok.forUpTo (fun j (y' : Vec Rat) => y'.size = T.n * T.ns ∧ Agree T y' ((List.range j).foldl (nevtReacJ e c i r) Yr)) hy1
      (fun j hj y2 hy2 => ?_)
    rw [foldl_range_succ]
    exact applyNevt_reacJ hR hC y2 hy2.1 _ hy2.2 hi hr hj
  refine Ok.bind hreac (fun y1 hy1 => ?_)
  generalize (List.range T.nr).foldl (nevtReac e c i) Yi = Y1 at hy1 ⊢
  rw [hR.layout.nSlots i hi, ok_bind]
  refine Ok.forUpTo (fun s (y' : Vec Rat) => y'.size = T.n * T.ns ∧ Agree T y' ((List.range s).foldl (nevtDiff e c i) Y1)) hy1
    (fun s hs y2 hy2 => ?_)
  rw [foldl_range_succ]
  generalize (List.range s).foldl (nevtDiff e c i) Y1 = Ys at hy2 ⊢
  unfold nevtDiff
  refine Ok.forUpTo (fun n (y' : Vec Rat) => y'.size = T.n * T.ns ∧ Agree T y' ((List.range n).foldl (nevtDiffN e c i s) Ys)) hy2
    (fun n hn y3 hy3 => ?_)
  rw [foldl_range_succ]
  exact applyNevt_diffN hR hC y3 hy3.1 _ hy3.2 hi hs hn

end tau

/-! ### `Compute_nevt` ↔ `poissonCounts` + `countsOfDraws`

The draws of `Compute_nevt` are `o.pois cnt0, o.pois (cnt0+1), …` in call order.  The keys of `countsOfDraws`
(`(cell, none, r)` for reactions, `(cell, some s, slot)` for slots with a neighbour) are listed in the order of the loops;
the invariant of the loops is that the keys passed so far (`P`) with the counts stored so far (`cs`) are a run of
`poissonCounts` on the means of `P`, and that every entry passed so far holds the value the table `P.zip cs` gives it. -/

abbrev TKey := Nat × Option Nat × Nat

def tauKeysDiff (e : EngIn) (i s m : Nat) : List TKey :=
  (List.range m).filterMap fun n => if (e.topo.nbr i n).isSome then some (i, some s, n) else none

def tauKeysCell (e : EngIn) (i : Nat) : List TKey :=
  ((List.range e.net.nReact).map fun r => (i, none, r)) ++
    ((List.range e.net.nSpecies).flatMap fun s => tauKeysDiff e i s (e.topo.nSlots i))

def tauKeys (e : EngIn) : List TKey := (List.range e.topo.nCells).flatMap (tauKeysCell e)

def keyMean (e : EngIn) (dt : Rat) (X : State) : TKey → Rat
  | (i, none, r) => reactionProp e X i r * dt
  | (i, some s, n) => diffusionProp e X i s n * dt

theorem tauLeapMeans_keys (e : EngIn) (dt : Rat) (X : State) : tauLeapMeans e dt X = (tauKeys e).map (keyMean e dt X) := by
  unfold tauLeapMeans tauKeys tauKeysCell tauKeysDiff
  rw [List.map_flatMap]
  congr 1; funext i
  rw [List.map_append, List.map_map, List.map_flatMap]
  congr 1
  congr 1; funext s
  rw [List.map_filterMap]
  congr 1; funext n
  by_cases h : (e.topo.nbr i n).isSome = true
  · rw [if_pos h, if_pos h]; rfl
  · rw [if_neg h, if_neg h]; rfl

def tlookup (tbl : List (TKey × Int)) (k : TKey) : Int := ((tbl.find? fun (k', _) => k' == k).map (·.2)).getD 0

theorem countsOfDraws_keys (e : EngIn) (cs : List Int) (h : (tauKeys e).length = cs.length) :
    countsOfDraws e cs = some ⟨fun i r => tlookup ((tauKeys e).zip cs) (i, none, r),
      fun i s n => tlookup ((tauKeys e).zip cs) (i, some s, n)⟩ := by
  show (if ((tauKeys e).length != cs.length) = true then none else some _) = _
  rw [if_neg (by simp [h])]
  rfl

theorem tlookup_not_mem (P : List TKey) (cs : List Int) (k : TKey) (h : k ∉ P) : tlookup (P.zip cs) k = 0 := by
  unfold tlookup
  have : (P.zip cs).find? (fun (k', _) => k' == k) = none := by
    rw [List.find?_eq_none]
    intro x hx
    obtain ⟨k', v⟩ := x
    have := (List.of_mem_zip hx).1
    intro hb
    have : k' = k := by simpa using hb
    subst this; exact h ‹_›
  rw [this]; rfl

theorem tlookup_snoc_ne (P : List TKey) (cs : List Int) (hlen : P.length = cs.length) (kc k : TKey) (v : Int) (hne : k ≠ kc) :
    tlookup ((P ++ [kc]).zip (cs ++ [v])) k = tlookup (P.zip cs) k := by
  unfold tlookup
  rw [List.zip_append hlen, List.find?_append]
  cases hf : (P.zip cs).find? (fun (k', _) => k' == k) with
  | some a => rfl
  | none =>
    have : (kc == k) = false := by simpa using fun h => hne h.symm
    simp [List.find?, this]

theorem tlookup_snoc_new (P : List TKey) (cs : List Int) (hlen : P.length = cs.length) (kc : TKey) (v : Int) (hnm : kc ∉ P) :
    tlookup ((P ++ [kc]).zip (cs ++ [v])) kc = v := by
  have h0 : (P.zip cs).find? (fun (k', _) => k' == kc) = none := by
    rw [List.find?_eq_none]
    intro x hx
    obtain ⟨k', w⟩ := x
    have := (List.of_mem_zip hx).1
    intro hb
    have : k' = kc := by simpa using hb
    subst this; exact hnm ‹_›
  unfold tlookup
  rw [List.zip_append hlen, List.find?_append, h0]
  simp [List.find?]

/-- the draws `o.pois cnt0 … o.pois (cnt0+k-1)` -/
def drawsFrom (o : Oracles) (cnt0 k : Nat) : List Int := (List.range k).map fun j => o.pois (cnt0 + j)

theorem drawsFrom_succ (o : Oracles) (cnt0 k : Nat) : drawsFrom o cnt0 (k + 1) = drawsFrom o cnt0 k ++ [o.pois (cnt0 + k)] := by
  unfold drawsFrom; rw [List.range_succ, List.map_append]; rfl

theorem poissonCounts_snoc : ∀ (ms : List Rat) (ds cs : List Int) (m : Rat), poissonCounts ms ds = some cs →
    (m ≤ 0 → poissonCounts (ms ++ [m]) ds = some (cs ++ [0])) ∧
    (¬ m ≤ 0 → ∀ d, poissonCounts (ms ++ [m]) (ds ++ [d]) = some (cs ++ [d])) := by
  intro ms
  induction ms with
  | nil =>
    intro ds cs m h
    cases ds with
    | nil =>
      simp only [poissonCounts] at h; cases h
      exact ⟨fun hm => by simp [poissonCounts, hm], fun hm d => by simp [poissonCounts, hm]⟩
    | cons d ds => simp [poissonCounts] at h
  | cons m0 ms ih =>
    intro ds cs m h
    simp only [poissonCounts] at h
    by_cases hm0 : m0 ≤ 0
    · rw [if_pos hm0] at h
      cases hr : poissonCounts ms ds with
      | none => rw [hr] at h; cases h
      | some cs' =>
        rw [hr] at h; cases h
        obtain ⟨i1, i2⟩ := ih ds cs' m hr
        refine ⟨fun hm => ?_, fun hm d => ?_⟩
        · show poissonCounts (m0 :: (ms ++ [m])) ds = _
          simp only [poissonCounts]; rw [if_pos hm0, i1 hm]; rfl
        · show poissonCounts (m0 :: (ms ++ [m])) (ds ++ [d]) = _
          simp only [poissonCounts]; rw [if_pos hm0, i2 hm d]; rfl
    · rw [if_neg hm0] at h
      cases ds with
      | nil => cases h
      | cons d0 ds' =>
        simp only [] at h
        cases hr : poissonCounts ms ds' with
        | none => rw [hr] at h; cases h
        | some cs' =>
          rw [hr] at h; cases h
          obtain ⟨i1, i2⟩ := ih ds' cs' m hr
          refine ⟨fun hm => ?_, fun hm d => ?_⟩
          · show poissonCounts (m0 :: (ms ++ [m])) (d0 :: ds') = _
            simp only [poissonCounts]; rw [if_neg hm0, i1 hm]; rfl
          · show poissonCounts (m0 :: (ms ++ [m])) (d0 :: (ds' ++ [d])) = _
            simp only [poissonCounts]; rw [if_neg hm0, i2 hm d]; rfl

/-- loop order on keys / cursor positions -/
def KLt : TKey → TKey → Prop
  | (i', p', m'), (i, p, m) => i' < i ∨ (i' = i ∧
      match p', p with
      | none, none => m' < m
      | none, some _ => True
      | some _, none => False
      | some s', some s => s' < s ∨ (s' = s ∧ m' < m))

/-- the key is an entry of the scratch vectors -/
def VK (e : EngIn) (T : Tabs) : TKey → Prop
  | (i, none, r) => i < T.n ∧ r < T.nr
  | (i, some s, n) => i < T.n ∧ s < T.ns ∧ n < e.topo.nSlots i

/-- the entry of key holds `v` -/
def Stored (T : Tabs) (L : Layout) (st : TauSt) : TKey → Int → Prop
  | (i, none, r), v => st.mnr.get (i * T.nr + r) = v
  | (i, some s, n), v => ∀ a, L.slot i s n = .ok a → st.mnd.rd a = .ok v

structure TauInv (e : EngIn) (T : Tabs) (L : Layout) (o : Oracles) (dt : Rat) (X : State) (cnt0 : Nat)
    (cur : TKey) (P : List TKey) (st : TauSt) : Prop where
  mnr : st.mnr.size = T.n * T.nr
  mnd : SlotOK T L e.topo.nSlots st.mnd
  ex : ∃ k cs, st.cnt = cnt0 + k ∧ P.length = cs.length ∧
    poissonCounts (P.map (keyMean e dt X)) (drawsFrom o cnt0 k) = some cs ∧
    ∀ key, VK e T key → KLt key cur → Stored T L st key (tlookup (P.zip cs) key)
  mem : ∀ k' ∈ P, KLt k' cur

section inv
variable {e : EngIn} {T : Tabs} {L : Layout} {o : Oracles} {dt : Rat} {X : State} {cnt0 : Nat}

theorem TauInv.shift {cur cur' : TKey} {P : List TKey} {st : TauSt} (h : TauInv e T L o dt X cnt0 cur P st)
    (h1 : ∀ key, VK e T key → KLt key cur' → KLt key cur) (h2 : ∀ key, KLt key cur → KLt key cur') :
    TauInv e T L o dt X cnt0 cur' P st := by
  obtain ⟨k, cs, a, b, c, d⟩ := h.ex
  exact ⟨h.mnr, h.mnd, ⟨k, cs, a, b, c, fun key hv hl => d key hv (h1 key hv hl)⟩, fun k' hk' => h2 k' (h.mem k' hk')⟩

/-- a `Poisson(mean)` call for entry `kc`, its result stored in the entry -/
theorem TauInv.draw {cur cur' : TKey} {P : List TKey} {st st' : TauSt} (h : TauInv e T L o dt X cnt0 cur P st)
    (kc : TKey) (v : Int) (hsz : st'.mnr.size = T.n * T.nr) (hmnd : SlotOK T L e.topo.nSlots st'.mnd)
    (hframe : ∀ key w, VK e T key → key ≠ kc → Stored T L st key w → Stored T L st' key w)
    (hnew : Stored T L st' kc v)
    (hcur : ∀ key, VK e T key → KLt key cur' → KLt key cur ∨ key = kc)
    (hmono : ∀ key, KLt key cur → KLt key cur') (hkc : KLt kc cur') (hirr : ¬ KLt kc cur)
    (hval : (keyMean e dt X kc ≤ 0 ∧ v = 0 ∧ st'.cnt = st.cnt) ∨ (0 < keyMean e dt X kc ∧ v = o.pois st.cnt ∧ st'.cnt = st.cnt + 1)) :
    TauInv e T L o dt X cnt0 cur' (P ++ [kc]) st' := by
  obtain ⟨k, cs, hcnt, hlen, hpc, hst⟩ := h.ex
  have hnm : kc ∉ P := fun hm => hirr (h.mem kc hm)
  have hS : ∀ key, VK e T key → KLt key cur' → Stored T L st' key (tlookup ((P ++ [kc]).zip (cs ++ [v])) key) := by
    intro key hvk hlt
    rcases hcur key hvk hlt with hold | hk
    · have hne : key ≠ kc := fun hh => hirr (hh ▸ hold)
      rw [tlookup_snoc_ne P cs hlen kc key v hne]
      exact hframe key _ hvk hne (hst key hvk hold)
    · subst hk
      rw [tlookup_snoc_new P cs hlen key v hnm]
      exact hnew
  have hM : ∀ k' ∈ P ++ [kc], KLt k' cur' := by
    intro k' hk'
    rcases List.mem_append.mp hk' with h1 | h1
    · exact hmono k' (h.mem k' h1)
    · rw [List.mem_singleton.mp h1]; exact hkc
  have hL : (P ++ [kc]).length = (cs ++ [v]).length := by simp [hlen]
  obtain ⟨i1, i2⟩ := poissonCounts_snoc _ _ _ (keyMean e dt X kc) hpc
  rcases hval with ⟨hm, hv, hc⟩ | ⟨hm, hv, hc⟩
  · refine ⟨hsz, hmnd, ⟨k, cs ++ [v], by rw [hc, hcnt], hL, ?_, hS⟩, hM⟩
    rw [List.map_append, List.map_singleton, hv]
    exact i1 hm
  · refine ⟨hsz, hmnd, ⟨k + 1, cs ++ [v], by rw [hc, hcnt]; rfl, hL, ?_, hS⟩, hM⟩
    rw [List.map_append, List.map_singleton, hv, drawsFrom_succ, hcnt]
    exact i2 (not_le.mpr hm) _

/-- a slot without neighbour: no call, 0 stored, the key list does not grow -/
theorem TauInv.wall {cur cur' : TKey} {P : List TKey} {st st' : TauSt} (h : TauInv e T L o dt X cnt0 cur P st)
    (kc : TKey) (hsz : st'.mnr.size = T.n * T.nr) (hmnd : SlotOK T L e.topo.nSlots st'.mnd)
    (hframe : ∀ key w, VK e T key → key ≠ kc → Stored T L st key w → Stored T L st' key w)
    (hnew : Stored T L st' kc 0)
    (hcur : ∀ key, VK e T key → KLt key cur' → KLt key cur ∨ key = kc)
    (hmono : ∀ key, KLt key cur → KLt key cur') (hirr : ¬ KLt kc cur) (hcnt' : st'.cnt = st.cnt) :
    TauInv e T L o dt X cnt0 cur' P st' := by
  obtain ⟨k, cs, hcnt, hlen, hpc, hst⟩ := h.ex
  have hnm : kc ∉ P := fun hm => hirr (h.mem kc hm)
  refine ⟨hsz, hmnd, ⟨k, cs, by rw [hcnt', hcnt], hlen, hpc, fun key hvk hlt => ?_⟩, fun k' hk' => hmono k' (h.mem k' hk')⟩
  rcases hcur key hvk hlt with hold | hk
  · have hne : key ≠ kc := fun hh => hirr (hh ▸ hold)
    exact hframe key _ hvk hne (hst key hvk hold)
  · subst hk
    rw [tlookup_not_mem P cs key hnm]
    exact hnew

end inv

/-! ### cursor arithmetic and the key prefixes of the loops -/

theorem KLt_r_succ (i r : Nat) (key : TKey) : KLt key (i, none, r + 1) ↔ KLt key (i, none, r) ∨ key = (i, none, r) := by
  rcases key with ⟨i', _ | s', m'⟩
  · simp only [KLt, Prod.mk.injEq, true_and]; omega
  · simp [KLt]

theorem KLt_n_succ (i s n : Nat) (key : TKey) : KLt key (i, some s, n + 1) ↔ KLt key (i, some s, n) ∨ key = (i, some s, n) := by
  rcases key with ⟨i', _ | s', m'⟩
  · simp [KLt]
  · simp only [KLt, Prod.mk.injEq, Option.some.injEq]; omega

theorem KLt_irr (k : TKey) : ¬ KLt k k := by
  rcases k with ⟨i', _ | s', m'⟩ <;> simp [KLt]

theorem KLt_rs_fwd (i nr : Nat) (key : TKey) : KLt key (i, none, nr) → KLt key (i, some 0, 0) := by
  rcases key with ⟨i', _ | s', m'⟩ <;> simp only [KLt, and_true, and_false, or_false, Nat.not_lt_zero] <;> omega

theorem KLt_rs_bwd (e : EngIn) (T : Tabs) (i : Nat) (key : TKey) (hv : VK e T key) : KLt key (i, some 0, 0) → KLt key (i, none, T.nr) := by
  rcases key with ⟨i', _ | s', m'⟩ <;> simp only [KLt, VK, and_true, and_false, or_false, Nat.not_lt_zero] at * <;> omega

theorem KLt_ns_fwd (i s m : Nat) (key : TKey) : KLt key (i, some s, m) → KLt key (i, some (s + 1), 0) := by
  rcases key with ⟨i', _ | s', m'⟩ <;> simp only [KLt, and_true, and_false, or_false, Nat.not_lt_zero] <;> omega

theorem KLt_ns_bwd (e : EngIn) (T : Tabs) (i s : Nat) (key : TKey) (hv : VK e T key) :
    KLt key (i, some (s + 1), 0) → KLt key (i, some s, e.topo.nSlots i) := by
  rcases key with ⟨i', _ | s', m'⟩
  · simp only [KLt, and_true]; omega
  · simp only [KLt, VK, Nat.not_lt_zero, and_false, or_false] at *
    rintro (h | ⟨rfl, h⟩)
    · exact Or.inl h
    · right; refine ⟨rfl, ?_⟩; omega

theorem KLt_si_fwd (i ns : Nat) (key : TKey) : KLt key (i, some ns, 0) → KLt key (i + 1, none, 0) := by
  rcases key with ⟨i', _ | s', m'⟩ <;> simp only [KLt, and_true, and_false, or_false, Nat.not_lt_zero] <;> omega

theorem KLt_si_bwd (e : EngIn) (T : Tabs) (i : Nat) (key : TKey) (hv : VK e T key) : KLt key (i + 1, none, 0) → KLt key (i, some T.ns, 0) := by
  rcases key with ⟨i', _ | s', m'⟩ <;> simp only [KLt, VK, and_true, and_false, or_false, Nat.not_lt_zero] at * <;> omega

def PO (e : EngIn) (i : Nat) : List TKey := (List.range i).flatMap (tauKeysCell e)
def PR (e : EngIn) (i r : Nat) : List TKey := PO e i ++ (List.range r).map (fun r => ((i, none, r) : TKey))
def PS (e : EngIn) (i s : Nat) : List TKey :=
  PR e i e.net.nReact ++ (List.range s).flatMap (fun s => tauKeysDiff e i s (e.topo.nSlots i))
def PN (e : EngIn) (i s n : Nat) : List TKey := PS e i s ++ tauKeysDiff e i s n

theorem PR_zero (e : EngIn) (i : Nat) : PR e i 0 = PO e i := by simp [PR]
theorem PR_succ (e : EngIn) (i r : Nat) : PR e i (r + 1) = PR e i r ++ [(i, none, r)] := by
  unfold PR; rw [List.range_succ, List.map_append, ← List.append_assoc]; rfl
theorem PS_zero (e : EngIn) (i : Nat) : PS e i 0 = PR e i e.net.nReact := by simp [PS]
theorem PN_zero (e : EngIn) (i s : Nat) : PN e i s 0 = PS e i s := by simp [PN, tauKeysDiff]
theorem PN_succ_some (e : EngIn) (i s n j : Nat) (h : e.topo.nbr i n = some j) : PN e i s (n + 1) = PN e i s n ++ [(i, some s, n)] := by
  unfold PN tauKeysDiff; rw [List.range_succ, List.filterMap_append, ← List.append_assoc]; simp [h]
theorem PN_succ_none (e : EngIn) (i s n : Nat) (h : e.topo.nbr i n = none) : PN e i s (n + 1) = PN e i s n := by
  unfold PN tauKeysDiff; rw [List.range_succ, List.filterMap_append]; simp [h]
theorem PS_succ (e : EngIn) (i s : Nat) : PS e i (s + 1) = PN e i s (e.topo.nSlots i) := by
  unfold PN PS; rw [List.range_succ, List.flatMap_append, ← List.append_assoc]; simp
theorem PO_succ (e : EngIn) (i : Nat) : PO e (i + 1) = PS e i e.net.nSpecies := by
  unfold PS PR PO; rw [List.range_succ, List.flatMap_append]; simp [tauKeysCell]


section loops
variable {e : EngIn} {T : Tabs} {L : Layout}

theorem poissonChecked_val (o : Oracles) (cnt : Nat) (m : Rat) :
    Ok (poissonChecked o cnt m) (fun p => (m ≤ 0 ∧ p.1 = 0 ∧ p.2 = cnt) ∨ (0 < m ∧ p.1 = o.pois cnt ∧ p.2 = cnt + 1)) := by
  unfold poissonChecked
  by_cases h : m ≤ 0
  · rw [if_pos h]; exact Ok.pure (Or.inl ⟨h, rfl, rfl⟩)
  · rw [if_neg h, if_pos (not_le.mp h)]; exact Ok.pure (Or.inr ⟨not_le.mp h, rfl, rfl⟩)

/-- `mesh_nr[i*n_reactions+r] = v` -/
theorem stored_wr_mnr (st : TauSt) (h1 : st.mnr.size = T.n * T.nr) {i r : Nat} (hi : i < T.n) (hr : r < T.nr) (v : Int) (cnt' : Nat) :
    Ok (st.mnr.wr (Gen.nrIndex T.nr i r) v) (fun w => w.size = T.n * T.nr ∧
      Stored T L { st with mnr := w, cnt := cnt' } (i, none, r) v ∧
      ∀ key v', VK e T key → key ≠ (i, none, r) → Stored T L st key v' → Stored T L { st with mnr := w, cnt := cnt' } key v') := by
  rw [nrIndex_nat]
  refine Ok.mono (Vec.wr_nat st.mnr _ v (by rw [h1]; exact flat2_lt T.n T.nr i r hi hr)) (fun w h => ⟨h.1.trans h1, h.2.1, ?_⟩)
  intro key v' hvk hne hs
  rcases key with ⟨i', _ | s', m'⟩
  · show w.get (i' * T.nr + m') = v'
    have hne' : i' * T.nr + m' ≠ i * T.nr + r := by
      intro hh
      obtain ⟨e1, e2⟩ := flat2_inj hvk.2 hr hh
      subst e1 e2; exact hne rfl
    rw [h.2.2 _ hne']; exact hs
  · exact hs

/-- `mesh_nd[slot(i,s,n)] = v` -/
theorem stored_wr_mnd (hL : LayoutOK T L e.topo.nSlots e.topo.nbr) (st : TauSt) (h2 : SlotOK T L e.topo.nSlots st.mnd)
    {i s n : Nat} (hi : i < T.n) (hs : s < T.ns) (hn : n < e.topo.nSlots i) (a : SlotAddr) (ha : L.slot i s n = .ok a) (v : Int) (cnt' : Nat) :
    Ok (st.mnd.wr a v) (fun w => SlotOK T L e.topo.nSlots w ∧
      Stored T L { st with mnd := w, cnt := cnt' } (i, some s, n) v ∧
      ∀ key v', VK e T key → key ≠ (i, some s, n) → Stored T L st key v' → Stored T L { st with mnd := w, cnt := cnt' } key v') := by
  refine Ok.mono (SlotVec.wr_Ok v (h2 i s n hi hs hn a ha)) (fun w hrw => ⟨?_, ?_, ?_⟩)
  · intro i' s' k' hi' hs' hk' b hb
    rw [hrw b]
    by_cases hba : b = a
    · rw [if_pos hba]; exact Ok.pure trivial
    · rw [if_neg hba]; exact h2 i' s' k' hi' hs' hk' b hb
  · intro b hb
    show w.rd b = .ok v
    rw [hrw b, if_pos (Except.ok.inj (hb.symm.trans ha))]
  · intro key v' hvk hne hst
    rcases key with ⟨i', _ | s', m'⟩
    · exact hst
    · intro b hb
      show w.rd b = .ok v'
      rw [hrw b]
      by_cases hba : b = a
      · exfalso
        subst hba
        obtain ⟨e1, e2, e3⟩ := hL.slot_inj i' s' m' i s n b hvk.1 hvk.2.1 hvk.2.2 hi hs hn hb ha
        subst e1 e2 e3; exact hne rfl
      · rw [if_neg hba]; exact hst b hb

/-- `Compute_nevt`: afterwards the scratch vectors hold, entry by entry, the table of `countsOfDraws` for the counts that
`poissonCounts` makes of the `k` draws `o.pois cnt0 …` on the means `tauLeapMeans` -/
theorem computeNevt_inv (hR : Refines e T L) (o : Oracles) (dt : Rat) (x : Vec Rat) (hx : x.size = T.n * T.ns)
    (st : TauSt) (h1 : st.mnr.size = T.n * T.nr) (h2 : SlotOK T L e.topo.nSlots st.mnd) :
    Ok (computeNevt T L o dt x st)
      (fun st' => TauInv e T L o dt (absState T.ns x) st.cnt (T.n, none, 0) (tauKeys e) st') := by
  let X := absState T.ns x
  unfold computeNevt
  have hkeys : tauKeys e = PO e T.n := by unfold tauKeys PO; rw [hR.n]
  rw [hkeys]
  have hstart : TauInv e T L o dt X st.cnt (0, none, 0) (PO e 0) st := by
    refine ⟨h1, h2, ⟨0, [], rfl, by simp [PO], by simp [PO, drawsFrom, poissonCounts], fun key _ hlt => ?_⟩, fun k' hk' => by simp [PO] at hk'⟩
    rcases key with ⟨i', _ | s', m'⟩ <;> simp [KLt] at hlt
  refine Ok.forUpTo (fun i st' => TauInv e T L o dt X st.cnt (i, none, 0) (PO e i) st') hstart (fun i hi st1 hst1 => ?_)
  -- reactions
  rw [← PR_zero] at hst1
  have hreac : Ok (forUpTo (fun r (st : TauSt) =>
      T.reactionProp x i r >>= fun a => poissonChecked o st.cnt (a * dt) >>= fun p =>
      st.mnr.wr (Gen.nrIndex T.nr i r) p.1 >>= fun v => .ok { st with mnr := v, cnt := p.2 }) T.nr st1)
      (fun st' => TauInv e T L o dt X st.cnt (i, none, T.nr) (PR e i T.nr) st') := by
    refine Ok.forUpTo (fun r st' => TauInv e T L o dt X st.cnt (i, none, r) (PR e i r) st') hst1 (fun r hr st2 hst2 => ?_)
    refine Ok.bind (reactionProp_val hR x hx hi hr) (fun a ha => ?_)
    refine Ok.bind (poissonChecked_val o st2.cnt (a * dt)) (fun p hp => ?_)
    refine Ok.bind (stored_wr_mnr (e := e) (L := L) st2 hst2.mnr hi hr p.1 p.2) (fun w hw => Ok.pure ?_)
    rw [PR_succ]
    refine hst2.draw (i, none, r) p.1 hw.1 hst2.mnd hw.2.2 hw.2.1 (fun key _ h => (KLt_r_succ i r key).mp h)
      (fun key h => (KLt_r_succ i r key).mpr (Or.inl h)) ((KLt_r_succ i r _).mpr (Or.inr rfl)) (KLt_irr _) ?_
    rw [ha] at hp
    exact hp
  refine Ok.bind hreac (fun st2 hst2 => ?_)
  rw [hR.layout.nSlots i hi, ok_bind]
  have hst2' : TauInv e T L o dt X st.cnt (i, some 0, 0) (PS e i 0) st2 := by
    rw [PS_zero, ← hR.nr]
    exact hst2.shift (fun key hv => KLt_rs_bwd e T i key hv) (fun key => KLt_rs_fwd i T.nr key)
  have hdiff : Ok (forUpTo (fun s st => forUpTo (fun n (st : TauSt) =>
      L.nbr i n >>= fun nb =>
      L.slot i s n >>= fun a =>
      if nb.isSome then
        diffusionPropC T L x i s n >>= fun pr => poissonChecked o st.cnt (pr * dt) >>= fun p =>
        st.mnd.wr a p.1 >>= fun v => .ok { st with mnd := v, cnt := p.2 }
      else st.mnd.wr a 0 >>= fun v => .ok { st with mnd := v }) (e.topo.nSlots i) st) T.ns st2)
      (fun st' => TauInv e T L o dt X st.cnt (i, some T.ns, 0) (PS e i T.ns) st') := by
    refine Ok.forUpTo (fun s st' => TauInv e T L o dt X st.cnt (i, some s, 0) (PS e i s) st') hst2' (fun s hs st3 hst3 => ?_)
    rw [← PN_zero] at hst3
    refine Ok.mono (Ok.forUpTo (fun n st' => TauInv e T L o dt X st.cnt (i, some s, n) (PN e i s n) st') hst3 (fun n hn st4 hst4 => ?_))
      (fun st' hst' => by
        rw [PS_succ]
        exact hst'.shift (fun key hv => KLt_ns_bwd e T i s key hv) (fun key => KLt_ns_fwd i s _ key))
    rw [hR.layout.nbr i n hi hn, ok_bind]
    obtain ⟨a, ha, _⟩ := hR.layout.slot i s n hi hs hn
    rw [ha, ok_bind]
    cases hnb : e.topo.nbr i n with
    | none =>
      simp only [Option.isSome_none, Bool.false_eq_true, if_false]
      refine Ok.bind (stored_wr_mnd hR.layout st4 hst4.mnd hi hs hn a ha 0 st4.cnt) (fun w hw => Ok.pure ?_)
      rw [PN_succ_none e i s n hnb]
      exact hst4.wall (i, some s, n) hst4.mnr hw.1 hw.2.2 hw.2.1 (fun key _ h => (KLt_n_succ i s n key).mp h)
        (fun key h => (KLt_n_succ i s n key).mpr (Or.inl h)) (KLt_irr _) rfl
    | some j =>
      simp only [Option.isSome_some, if_true]
      refine Ok.bind (diffusionPropC_val hR x hx hi hs hn) (fun pr hpr => ?_)
      refine Ok.bind (poissonChecked_val o st4.cnt (pr * dt)) (fun p hp => ?_)
      refine Ok.bind (stored_wr_mnd hR.layout st4 hst4.mnd hi hs hn a ha p.1 p.2) (fun w hw => Ok.pure ?_)
      rw [PN_succ_some e i s n j hnb]
      refine hst4.draw (i, some s, n) p.1 hst4.mnr hw.1 hw.2.2 hw.2.1 (fun key _ h => (KLt_n_succ i s n key).mp h)
        (fun key h => (KLt_n_succ i s n key).mpr (Or.inl h)) ((KLt_n_succ i s n _).mpr (Or.inr rfl)) (KLt_irr _) ?_
      rw [hpr] at hp
      exact hp
  refine Ok.mono hdiff (fun st3 hst3 => ?_)
  rw [PO_succ, ← hR.ns]
  exact hst3.shift (fun key hv => KLt_si_bwd e T i key hv) (fun key => KLt_si_fwd i T.ns key)

end loops

theorem not_mem_tauKeys_wall (e : EngIn) (i s k : Nat) (h : e.topo.nbr i k = none) : ((i, some s, k) : TKey) ∉ tauKeys e := by
  unfold tauKeys tauKeysCell tauKeysDiff
  simp only [List.mem_flatMap, List.mem_append, List.mem_map, List.mem_filterMap, List.mem_range]
  rintro ⟨i', _, h1 | ⟨s', _, n, _, h3⟩⟩
  · obtain ⟨r, _, hr⟩ := h1; cases hr
  · by_cases hs : (e.topo.nbr i' n).isSome = true
    · rw [if_pos hs] at h3; cases h3; rw [h] at hs; cases hs
    · rw [if_neg hs] at h3; cases h3

section step
variable {e : EngIn} {T : Tabs} {L : Layout}

/-- `Compute_nevt` ↔ `poissonCounts` on `tauLeapMeans` + `countsOfDraws`: the generator is called `k` times
(`o.pois cnt … o.pois (cnt+k-1)`), and the scratch vectors hold the counts `c` that the core model makes of these draws -/
theorem computeNevt_val (hR : Refines e T L) (o : Oracles) (dt : Rat) (x : Vec Rat) (hx : x.size = T.n * T.ns)
    (st : TauSt) (h1 : st.mnr.size = T.n * T.nr) (h2 : SlotOK T L e.topo.nSlots st.mnd) :
    Ok (computeNevt T L o dt x st) (fun st' => st'.mnr.size = T.n * T.nr ∧ SlotOK T L e.topo.nSlots st'.mnd ∧
      ∃ k cs c, st'.cnt = st.cnt + k ∧
        poissonCounts (tauLeapMeans e dt (absState T.ns x)) (drawsFrom o st.cnt k) = some cs ∧
        countsOfDraws e cs = some c ∧ CountsOK e T L c st') := by
  refine Ok.mono (computeNevt_inv hR o dt x hx st h1 h2) (fun st' hinv => ⟨hinv.mnr, hinv.mnd, ?_⟩)
  obtain ⟨k, cs, hcnt, hlen, hpc, hS⟩ := hinv.ex
  refine ⟨k, cs, _, hcnt, by rw [tauLeapMeans_keys]; exact hpc, countsOfDraws_keys e cs hlen, ?_⟩
  refine ⟨hinv.mnr, fun i r hi hr => hS (i, none, r) ⟨hi, hr⟩ (Or.inl hi),
    fun i s k hi hs hk => hS (i, some s, k) ⟨hi, hs, hk⟩ (Or.inl hi), fun i s k _ _ _ hnb => ?_⟩
  exact tlookup_not_mem _ _ _ (not_mem_tauKeys_wall e i s k hnb)

theorem SlotOK.transfer {α : Type} {slots slots' : Nat → Nat} {nb nb' : Nat → Nat → Option Nat} {sv : SlotVec α}
    (l1 : LayoutOK T L slots nb) (l2 : LayoutOK T L slots' nb') (h : SlotOK T L slots sv) : SlotOK T L slots' sv := by
  intro i s k hi hs hk a ha
  have : slots i = slots' i := by
    have a1 := l1.nSlots i hi
    rw [l2.nSlots i hi] at a1
    exact (Except.ok.inj a1).symm
  exact h i s k hi hs (by rw [this]; exact hk) a ha

/-- TAU-LEAP (both layouts): `Iterate()` of `TauLeap3D` / `TauLeapGraph` on the checked object is `tauLeapApply` of the
core model for the counts that `poissonCounts (tauLeapMeans …)` and `countsOfDraws` make of the `k` draws
`o.pois cnt, …, o.pois (cnt+k-1)` of the generator; the draw counter of the object advances by `k`. -/
theorem tauleap_iterate_refines (o : Oracles) (S : CSim) (h : SimOK S) (e : EngIn) (hR : Refines e S.T S.L)
    (st : TauSt) (hsc : S.scratch = .tau st) (hnc : S.smp.complete = false) :
    Ok (S.iterate o) (fun r => SimOK r.1 ∧ Refines e r.1.T r.1.L ∧ r.1.dt = S.dt ∧
      ∃ k cs c st', r.1.scratch = .tau st' ∧ st'.cnt = st.cnt + k ∧
        poissonCounts (tauLeapMeans e S.dt (absState S.T.ns S.x)) (drawsFrom o st.cnt k) = some cs ∧
        countsOfDraws e cs = some c ∧
        Agree r.1.T r.1.x (tauLeapApply e c (absState S.T.ns S.x))) := by
  unfold CSim.iterate
  rw [if_neg (by simp [hnc]), hsc]
  simp only []
  obtain ⟨slots, nb, hL, hscr⟩ := h.layout
  have hst : st.mnr.size = S.T.n * S.T.nr ∧ SlotOK S.T S.L e.topo.nSlots st.mnd := by
    rw [hsc] at hscr
    cases hscr with
    | tau _ h1 h2 => exact ⟨h1, h2.transfer hL hR.layout⟩
  refine Ok.bind (computeNevt_val hR o S.dt S.x h.x st hst.1 hst.2) (fun st' hst' => ?_)
  obtain ⟨hm1, hm2, k, cs, c, hcnt, hpc, hcd, hC⟩ := hst'
  refine Ok.bind (applyNevt_val hR hC S.x h.x) (fun x' hx' => ?_)
  refine Ok.mono (finishStep_fields S h x' hx'.1 S.dt (.tau st') ⟨_, _, hR.layout, .tau st' hm1 hm2⟩ S.ucnt) (fun r hr => ?_)
  obtain ⟨hok, hx, hT, hLe, hdt, hscr', _⟩ := hr
  refine ⟨hok, by rw [hT, hLe]; exact hR, hdt, k, cs, c, st', hscr', hcnt, hpc, hcd, ?_⟩
  rw [hT, hx]
  exact hx'.2

end step

end Strengths
