/-
Refinement, tau-leap: `Apply_nevt` of the checked engine is `tauLeapApply` of the core model for the counts stored in
`mesh_nr` / `mesh_nd`; `Compute_nevt` stores the counts that `poissonCounts` / `countsOfDraws` produce from the draws
of the generator in call order.
-/
import Strengths.Proofs.RefineGillespie

namespace Strengths

/-! ### the pieces of `applyNevtCell` -/

def nevtReacJ (e : EngIn) (c : Counts) (i r : Nat) (x : State) (j : Nat) : State :=
  if e.chem i j then x else x.update i j (x i j + (e.net.sto j r : Rat) * (c.nr i r : Rat))

def nevtReac (e : EngIn) (c : Counts) (i : Nat) (x : State) (r : Nat) : State :=
  (List.range e.net.nSpecies).foldl (nevtReacJ e c i r) x

def nevtDiffN (e : EngIn) (c : Counts) (i s : Nat) (x : State) (n : Nat) : State :=
  if c.nd i s n == 0 then x
  else
    let x' := if e.chem i s then x else x.update i s (x i s - (c.nd i s n : Rat))
    match e.topo.nbr i n with
    | none => x'
    | some j => if e.chem j s then x' else x'.update j s (x' j s + (c.nd i s n : Rat))

def nevtDiff (e : EngIn) (c : Counts) (i : Nat) (x : State) (s : Nat) : State :=
  (List.range (e.topo.nSlots i)).foldl (nevtDiffN e c i s) x

theorem applyNevtCell_eq (e : EngIn) (c : Counts) (x : State) (i : Nat) :
    applyNevtCell e c x i =
      (List.range e.net.nSpecies).foldl (nevtDiff e c i) ((List.range e.net.nReact).foldl (nevtReac e c i) x) := rfl

section tau
variable {e : EngIn} {T : Tabs} {L : Layout}

/-- `mesh_nr` / `mesh_nd` hold the counts `c` (slots without a neighbour: 0) -/
structure CountsOK (e : EngIn) (T : Tabs) (L : Layout) (c : Counts) (st : TauSt) : Prop where
  mnr : st.mnr.size = T.n * T.nr
  nr : ∀ i r, i < T.n → r < T.nr → st.mnr.get (i * T.nr + r) = c.nr i r
  nd : ∀ i s k, i < T.n → s < T.ns → k < e.topo.nSlots i → ∀ a, L.slot i s k = .ok a → st.mnd.rd a = .ok (c.nd i s k)
  wall : ∀ i s k, i < T.n → s < T.ns → k < e.topo.nSlots i → e.topo.nbr i k = none → c.nd i s k = 0

theorem chem_false_of {b : Bool} {c : Int} (hc : c ≠ 0 ↔ b = true) (hcz : ¬ c ≠ 0) : b = false := by
  cases b with
  | false => rfl
  | true => exact absurd (hc.mpr rfl) hcz

/-- one `(i, r, j)` body of the reaction part of `Apply_nevt` -/
theorem applyNevt_reacJ (hR : Refines e T L) {c : Counts} {st : TauSt} (hC : CountsOK e T L c st)
    (y : Vec Rat) (hy : y.size = T.n * T.ns) (Y : State) (hA : Agree T y Y) {i r j : Nat} (hi : i < T.n) (hr : r < T.nr) (hj : j < T.ns) :
    Ok (T.chstt.rd (T.cIdx i j) >>= fun c0 =>
        if c0 ≠ 0 then (.ok y : CRes (Vec Rat))
        else
          y.rd (T.xIdx i j) >>= fun xv => T.sto.rd (Gen.stoIndex T.nr j r) >>= fun sv => st.mnr.rd (Gen.nrIndex T.nr i r) >>= fun nv =>
          y.wr (T.xIdx i j) (xv + (sv : Rat) * (nv : Rat)))
      (fun y' => y'.size = T.n * T.ns ∧ Agree T y' (nevtReacJ e c i r Y j)) := by
  refine Ok.bind (rd_chem hR hi hj) (fun c0 hc0 => ?_)
  unfold nevtReacJ
  by_cases hcz : c0 ≠ 0
  · rw [if_pos hcz, if_pos (hc0.mp hcz)]; exact Ok.pure ⟨hy, hA⟩
  · rw [if_neg hcz, chem_false_of hc0 hcz]
    simp only [Bool.false_eq_true, if_false]
    refine Ok.bind (rd_x y hy hi hj) (fun xv hxv => ?_)
    refine Ok.bind (rd_sto hR hj hr) (fun sv hsv => ?_)
    rw [nrIndex_nat]
    refine Ok.bind (Vec.rd_nat st.mnr _ (by rw [hC.mnr]; exact flat2_lt T.n T.nr i r hi hr)) (fun nv hnv => ?_)
    refine Ok.mono (wr_x y hy hi hj _) (fun y' h => ⟨h.1, ?_⟩)
    have := agree_wr hA hj (xv + (sv : Rat) * (nv : Rat)) ⟨h.2.1, h.2.2⟩
    rw [hxv, hA i j hi hj, hsv, hnv, hC.nr i r hi hr] at this
    exact this

/-- one `(i, s, n)` body of the diffusion part of `Apply_nevt` -/
theorem applyNevt_diffN (hR : Refines e T L) {c : Counts} {st : TauSt} (hC : CountsOK e T L c st)
    (y : Vec Rat) (hy : y.size = T.n * T.ns) (Y : State) (hA : Agree T y Y) {i s n : Nat} (hi : i < T.n) (hs : s < T.ns) (hn : n < e.topo.nSlots i) :
    Ok (L.slot i s n >>= fun a => st.mnd.rd a >>= fun nd =>
        if nd = 0 then (.ok y : CRes (Vec Rat))
        else
          T.chstt.rd (T.cIdx i s) >>= fun c0 =>
          (if c0 ≠ 0 then (.ok y : CRes (Vec Rat)) else y.rd (T.xIdx i s) >>= fun xv => y.wr (T.xIdx i s) (xv - (nd : Rat))) >>= fun x1 =>
          L.nbr i n >>= fun nb =>
          let j : Int := match nb with | some j => (j : Int) | none => -1
          T.chstt.rd (Gen.chsttIndex T.ns j s) >>= fun cj =>
          if cj ≠ 0 then .ok x1
          else x1.rd (Gen.xIndex T.ns j s) >>= fun xj => x1.wr (Gen.xIndex T.ns j s) (xj + (nd : Rat)))
      (fun y' => y'.size = T.n * T.ns ∧ Agree T y' (nevtDiffN e c i s Y n)) := by
  obtain ⟨a, ha, _⟩ := hR.layout.slot i s n hi hs hn
  rw [ha, ok_bind, hC.nd i s n hi hs hn a ha, ok_bind]
  unfold nevtDiffN
  by_cases hz : c.nd i s n = 0
  · rw [if_pos hz]
    simp only [hz, beq_self_eq_true, if_true]
    exact Ok.pure ⟨hy, hA⟩
  rw [if_neg hz]
  have hbeq : (c.nd i s n == 0) = false := by simpa using hz
  rw [hbeq]
  simp only [Bool.false_eq_true, if_false]
  cases hnb : e.topo.nbr i n with
  | none => exact absurd (hC.wall i s n hi hs hn hnb) hz
  | some j =>
  have hj := hR.layout.nbr_lt i n j hi hn hnb
  refine Ok.bind (rd_chem hR hi hs) (fun c0 hc0 => ?_)
  let Y1 : State := if e.chem i s then Y else Y.update i s (Y i s - (c.nd i s n : Rat))
  have hx1 : Ok (if c0 ≠ 0 then (.ok y : CRes (Vec Rat)) else y.rd (T.xIdx i s) >>= fun xv => y.wr (T.xIdx i s) (xv - (c.nd i s n : Rat)))
      (fun x1 => x1.size = T.n * T.ns ∧ Agree T x1 Y1) := by
    by_cases hcz : c0 ≠ 0
    · rw [if_pos hcz]
      refine Ok.pure ⟨hy, ?_⟩
      show Agree T y (if e.chem i s then Y else _)
      rw [if_pos (hc0.mp hcz)]; exact hA
    · rw [if_neg hcz]
      refine Ok.bind (rd_x y hy hi hs) (fun xv hxv => ?_)
      refine Ok.mono (wr_x y hy hi hs _) (fun x1 h => ⟨h.1, ?_⟩)
      show Agree T x1 (if e.chem i s then Y else _)
      rw [chem_false_of hc0 hcz]
      simp only [Bool.false_eq_true, if_false]
      have := agree_wr hA hs (xv - (c.nd i s n : Rat)) ⟨h.2.1, h.2.2⟩
      rw [hxv, hA i s hi hs] at this
      exact this
  refine Ok.bind hx1 (fun x1 hx1 => ?_)
  rw [hR.layout.nbr i n hi hn, ok_bind, hnb]
  dsimp only
  refine Ok.bind (rd_chem_nbr hR hj hs) (fun cj hcj => ?_)
  show Ok _ (fun y' => y'.size = T.n * T.ns ∧ Agree T y' (if e.chem j s then Y1 else Y1.update j s (Y1 j s + (c.nd i s n : Rat))))
  by_cases hcz : cj ≠ 0
  · rw [if_pos hcz, if_pos (hcj.mp hcz)]; exact Ok.pure hx1
  · rw [if_neg hcz, chem_false_of hcj hcz]
    simp only [Bool.false_eq_true, if_false]
    refine Ok.bind (rd_x_nbr x1 hx1.1 hj hs) (fun xj hxj => ?_)
    refine Ok.mono (wr_x_nbr x1 hx1.1 hj hs _) (fun x2 h => ⟨h.1, ?_⟩)
    have := agree_wr hx1.2 hs (xj + (c.nd i s n : Rat)) ⟨h.2.1, h.2.2⟩
    rw [hxj, hx1.2 j s hj hs] at this
    exact this

/-- `Apply_nevt` ↔ `tauLeapApply` -/
theorem applyNevt_val (hR : Refines e T L) {c : Counts} {st : TauSt} (hC : CountsOK e T L c st)
    (x : Vec Rat) (hx : x.size = T.n * T.ns) :
    Ok (applyNevt T L st x) (fun x' => x'.size = T.n * T.ns ∧ Agree T x' (tauLeapApply e c (absState T.ns x))) := by
  unfold applyNevt tauLeapApply
  rw [← hR.n]
  refine Ok.forUpTo (fun i (y : Vec Rat) => y.size = T.n * T.ns ∧
    Agree T y ((List.range i).foldl (applyNevtCell e c) (absState T.ns x))) ⟨hx, agree_abs x⟩ (fun i hi y hy => ?_)
  rw [foldl_range_succ, applyNevtCell_eq, ← hR.ns, ← hR.nr]
  generalize (List.range i).foldl (applyNevtCell e c) (absState T.ns x) = Yi at hy ⊢
  -- reactions
  have hreac : Ok (forUpTo (fun r x => forUpTo (fun j x =>
      T.chstt.rd (T.cIdx i j) >>= fun c0 =>
      if c0 ≠ 0 then (.ok x : CRes (Vec Rat))
      else
        x.rd (T.xIdx i j) >>= fun xv => T.sto.rd (Gen.stoIndex T.nr j r) >>= fun sv => st.mnr.rd (Gen.nrIndex T.nr i r) >>= fun nv =>
        x.wr (T.xIdx i j) (xv + (sv : Rat) * (nv : Rat))) T.ns x) T.nr y)
      (fun y' => y'.size = T.n * T.ns ∧ Agree T y' ((List.range T.nr).foldl (nevtReac e c i) Yi)) := by
    refine Ok.forUpTo (fun r (y' : Vec Rat) => y'.size = T.n * T.ns ∧ Agree T y' ((List.range r).foldl (nevtReac e c i) Yi)) hy
      (fun r hr y1 hy1 => ?_)
    rw [foldl_range_succ]
    generalize (List.range r).foldl (nevtReac e c i) Yi = Yr at hy1 ⊢
    unfold nevtReac
    rw [← hR.ns]
    refine Ok.forUpTo (fun j (y' : Vec Rat) => y'.size = T.n * T.ns ∧ Agree T y' ((List.range j).foldl (nevtReacJ e c i r) Yr)) hy1
      (fun j hj y2 hy2 => ?_)
    rw [foldl_range_succ]
    exact applyNevt_reacJ hR hC y2 hy2.1 _ hy2.2 hi hr hj
  refine Ok.bind hreac (fun y1 hy1 => ?_)
  generalize (List.range T.nr).foldl (nevtReac e c i) Yi = Y1 at hy1 ⊢
  rw [hR.layout.nSlots i hi, ok_bind]
  refine Ok.forUpTo (fun s (y' : Vec Rat) => y'.size = T.n * T.ns ∧ Agree T y' ((List.range s).foldl (nevtDiff e c i) Y1)) hy1
    (fun s hs y2 hy2 => ?_)
  rw [foldl_range_succ]
  generalize (List.range s).foldl (nevtDiff e c i) Y1 = Ys at hy2 ⊢
  unfold nevtDiff
  refine Ok.forUpTo (fun n (y' : Vec Rat) => y'.size = T.n * T.ns ∧ Agree T y' ((List.range n).foldl (nevtDiffN e c i s) Ys)) hy2
    (fun n hn y3 hy3 => ?_)
  rw [foldl_range_succ]
  exact applyNevt_diffN hR hC y3 hy3.1 _ hy3.2 hi hs hn

end tau

end Strengths
