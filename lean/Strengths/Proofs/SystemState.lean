/-
Helper lemmas for C13: SI value of density × volume, list lemmas about the species-major concatenation,
Python-style item assignment.
-/
import Mathlib.Tactic.Ring
import Mathlib.Tactic.Linarith
import Strengths.Proofs.Units
import Strengths.Model.SystemState

namespace Strengths
open Gen

theorem siFactor_add_ss {U : Sys} (hU : U.valid = true) (d e : Dim) :
    siFactor U (d.add e) = siFactor U d * siFactor U e := by
  unfold siFactor Dim.add
  rw [zpow_add₀ (Sys.sSpace_ne hU), zpow_add₀ (Sys.sTime_ne hU), zpow_add₀ (Sys.sQty_ne hU)]
  ring

/-- converting keeps the SI value -/
theorem toSys_si {U : Sys} (x : UVal) (hU : U.valid = true) : (x.toSys U).si = x.si := by
  simp only [UVal.toSys, UVal.si, convFactor_eq_div]
  have := siFactor_ne hU x.u.dim
  field_simp

namespace RDS

/-- SI value of one default-state entry: (density × volume, converted to the target system) = SI(density) · SI(volume) -/
theorem entry_si {dens vol : UVal} {target : Sys} (hd : dens.u.sys.valid = true) (ht : target.valid = true) :
    ((uvalMul dens vol).toSys target).si = dens.si * vol.si := by
  rw [toSys_si _ ht]
  simp only [uvalMul, UVal.si, UVal.toSys]
  rw [siFactor_add_ss hd, convFactor_eq_div]
  have := siFactor_ne hd vol.u.dim
  field_simp

theorem entry_units (dens vol : UVal) (target : Sys) :
    ((uvalMul dens vol).toSys target).u = ⟨target, dens.u.dim.add vol.u.dim⟩ := rfl

theorem density_times_volume_is_amount : Dim.density.add Dim.volume = Dim.quantity := by decide

/-! ### `seqRes` / `concatRes` -/

theorem seqRes_ok {α} : ∀ {l : List (Res α)} {r : List α}, seqRes l = .ok r → l = r.map Except.ok
  | [], r, h => by simp only [seqRes] at h; cases h; rfl
  | .error e :: _, _, h => by simp [seqRes] at h
  | .ok a :: rest, r, h => by
    simp only [seqRes] at h
    split at h
    · cases h
    · next l' hl => cases h; rw [seqRes_ok hl]; rfl

theorem concatRes_ok {α} : ∀ {l : List (Res (List α))} {r : List α}, concatRes l = .ok r →
    ∃ parts : List (List α), l = parts.map Except.ok ∧ r = parts.flatten
  | [], r, h => by simp only [concatRes] at h; cases h; exact ⟨[], rfl, rfl⟩
  | .error e :: _, _, h => by simp [concatRes] at h
  | .ok a :: rest, r, h => by
    simp only [concatRes] at h
    split at h
    · cases h
    · next l' hl =>
      cases h
      obtain ⟨parts, hp, hr⟩ := concatRes_ok hl
      exact ⟨a :: parts, by rw [hp]; rfl, by rw [hr]; rfl⟩

/-- entry `s·n + i` of a concatenation of blocks of length `n` is entry `i` of block `s` -/
theorem flatten_uniform {α} (n : Nat) : ∀ (parts : List (List α)), (∀ p ∈ parts, p.length = n) →
    ∀ s i, i < n → parts.flatten[s * n + i]? = (parts[s]?).bind (·[i]?)
  | [], _, s, i, _ => by simp
  | p :: rest, hp, 0, i, hi => by
    have : p.length = n := hp p (by simp)
    simp [List.getElem?_append_left (by omega : i < p.length)]
  | p :: rest, hp, s + 1, i, hi => by
    have hl : p.length = n := hp p (by simp)
    have ih := flatten_uniform n rest (fun q hq => hp q (by simp [hq])) s i hi
    simp only [List.flatten_cons, List.getElem?_cons_succ]
    rw [List.getElem?_append_right (by rw [hl, Nat.add_mul]; omega), hl]
    rw [show (s + 1) * n + i - n = s * n + i by rw [Nat.add_mul]; omega]
    exact ih

theorem pyGet_nat {α} {l : List α} {i : Nat} {a : α} (h : l[i]? = some a) : pyGet l (i : Int) = .ok a := by
  simp [pyGet, h]

end RDS
end Strengths
