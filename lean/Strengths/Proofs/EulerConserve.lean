/-
Conservation for the deterministic engine (C02): exact over ℚ for any topology whose half-edges are paired
(`Pairing`): the flux through a half-edge is minus the flux through its reverse.
-/
import Mathlib.Algebra.BigOperators.Group.Finset.Sigma
import Strengths.Proofs.Conserve

namespace Strengths
open Finset

theorem foldl_sub_ite {α : Type} (p : α → Bool) (f : α → Rat) (l : List α) (a : Rat) :
    l.foldl (fun acc n => if p n then acc - f n else acc) a = a - (l.map fun n => if p n then f n else 0).sum := by
  induction l generalizing a with
  | nil => simp
  | cons n rest ih =>
    rw [List.foldl_cons, ih]
    cases hp : p n
    · simp [hp]
    · simp [hp]; ring

/-- `Compute_dxdt`, entry (i, s), in sum form -/
theorem eulerDxdt_eq (e : EngIn) (x : State) (i s : Nat) :
    eulerDxdt e x i s =
      if e.chem i s then 0 else
        ∑ r ∈ range e.net.nReact, (e.net.sto s r : Rat) * reactionRate e x i r -
        ∑ n ∈ range (e.topo.nSlots i), (if (e.topo.nbr i n).isSome then diffusionRateDifference e x i s n else 0) := by
  unfold eulerDxdt
  split
  · rfl
  · simp only [foldl_sub_ite (fun n => (e.topo.nbr i n).isSome), foldl_range_add, zero_add, list_range_map_sum]

/-- the two half-edges of every connection: `σ i n` is the slot of cell `j = nbr i n` that leads back to `i`,
with the diffusion constants swapped (what leaves `i` through `n` enters `j` through `σ i n`) -/
structure Pairing (e : EngIn) where
  σ : Nat → Nat → Nat
  ok : ∀ i n j, i < e.topo.nCells → n < e.topo.nSlots i → e.topo.nbr i n = some j →
    j < e.topo.nCells ∧ σ i n < e.topo.nSlots j ∧ e.topo.nbr j (σ i n) = some i ∧ σ j (σ i n) = n ∧
    ∀ s, e.topo.kout j s (σ i n) = e.topo.kin i s n ∧ e.topo.kin j s (σ i n) = e.topo.kout i s n

/-- the half-edges of the space -/
def halfEdges (e : EngIn) : Finset (Σ _ : Nat, Nat) :=
  (range e.topo.nCells).sigma fun i => (range (e.topo.nSlots i)).filter fun n => (e.topo.nbr i n).isSome

/-- `diffusion_total_zero`: the sum over all half-edges of the (antisymmetric) flux vanishes -/
theorem diffusion_flux_sum_zero {e : EngIn} (P : Pairing e) (x : State) (s : Nat) :
    ∑ p ∈ halfEdges e, diffusionRateDifference e x p.1 s p.2 = 0 := by
  classical
  let g : (Σ _ : Nat, Nat) → (Σ _ : Nat, Nat) := fun p =>
    match e.topo.nbr p.1 p.2 with
    | some j => ⟨j, P.σ p.1 p.2⟩
    | none => p
  have hmem : ∀ p ∈ halfEdges e, ∃ j, e.topo.nbr p.1 p.2 = some j ∧ p.1 < e.topo.nCells ∧ p.2 < e.topo.nSlots p.1 := by
    intro p hp
    simp only [halfEdges, mem_sigma, mem_range, mem_filter] at hp
    obtain ⟨j, hj⟩ := Option.isSome_iff_exists.1 hp.2.2
    exact ⟨j, hj, hp.1, hp.2.1⟩
  have hflux : ∀ p ∈ halfEdges e, diffusionRateDifference e x p.1 s p.2 +
      diffusionRateDifference e x (g p).1 s (g p).2 = 0 := by
    intro p hp
    obtain ⟨j, hj, hi, hn⟩ := hmem p hp
    obtain ⟨_, _, hback, _, hk⟩ := P.ok p.1 p.2 j hi hn hj
    have hg : g p = ⟨j, P.σ p.1 p.2⟩ := by simp only [g, hj]
    rw [hg]
    simp only [diffusionRateDifference, hj, hback, (hk s).1, (hk s).2]
    ring
  apply Finset.sum_involution (fun p _ => g p) hflux
  · intro p hp hne heq
    have := hflux p hp
    rw [heq] at this
    apply hne; linarith
  · intro p hp
    obtain ⟨j, hj, hi, hn⟩ := hmem p hp
    obtain ⟨hjlt, hσ, hback, _, _⟩ := P.ok p.1 p.2 j hi hn hj
    have hg : g p = ⟨j, P.σ p.1 p.2⟩ := by simp only [g, hj]
    rw [hg]
    simp only [halfEdges, mem_sigma, mem_range, mem_filter]
    exact ⟨hjlt, hσ, by simp [hback]⟩
  · intro p hp
    obtain ⟨j, hj, hi, hn⟩ := hmem p hp
    obtain ⟨_, _, hback, hinv, _⟩ := P.ok p.1 p.2 j hi hn hj
    have hg : g p = ⟨j, P.σ p.1 p.2⟩ := by simp only [g, hj]
    rw [hg]
    simp only [g, hback, hinv]

/-- the diffusion part of all derivatives of one species sums to zero over the space -/
def DiffusionBalanced (e : EngIn) (x : State) : Prop :=
  ∀ s, ∑ i ∈ range e.topo.nCells, ∑ n ∈ range (e.topo.nSlots i),
    (if (e.topo.nbr i n).isSome then diffusionRateDifference e x i s n else 0) = 0

theorem diffusionBalanced_of_pairing {e : EngIn} (P : Pairing e) (x : State) : DiffusionBalanced e x := by
  intro s
  have : ∑ i ∈ range e.topo.nCells, ∑ n ∈ range (e.topo.nSlots i),
      (if (e.topo.nbr i n).isSome then diffusionRateDifference e x i s n else 0) =
      ∑ p ∈ halfEdges e, diffusionRateDifference e x p.1 s p.2 := by
    unfold halfEdges
    rw [Finset.sum_sigma]
    apply Finset.sum_congr rfl
    intro i _
    rw [Finset.sum_filter]
  rw [this, diffusion_flux_sum_zero P x s]

/-- `reaction_total_zero` and `diffusion_total_zero` combined: the weighted sum of all derivatives vanishes -/
theorem euler_flux_zero_of_balanced {e : EngIn} {c : Nat → Rat} (hc : Cons e.net c) (hf : Free e c) (x : State)
    (hbal : DiffusionBalanced e x) :
    ∑ i ∈ range e.topo.nCells, ∑ s ∈ range e.net.nSpecies, c s * eulerDxdt e x i s = 0 := by
  have h1 : ∀ i ∈ range e.topo.nCells, ∀ s ∈ range e.net.nSpecies, c s * eulerDxdt e x i s =
      c s * (∑ r ∈ range e.net.nReact, (e.net.sto s r : Rat) * reactionRate e x i r) -
      c s * ∑ n ∈ range (e.topo.nSlots i), (if (e.topo.nbr i n).isSome then diffusionRateDifference e x i s n else 0) := by
    intro i hi s hs
    rw [eulerDxdt_eq]
    by_cases hch : e.chem i s = true
    · rw [hf i s (mem_range.1 hi) (mem_range.1 hs) hch]; simp
    · have : e.chem i s = false := by simpa using hch
      simp only [this, Bool.false_eq_true, if_false]; ring
  rw [Finset.sum_congr rfl (fun i hi => Finset.sum_congr rfl (h1 i hi))]
  simp only [Finset.sum_sub_distrib]
  have hreac : ∑ i ∈ range e.topo.nCells, ∑ s ∈ range e.net.nSpecies,
      c s * (∑ r ∈ range e.net.nReact, (e.net.sto s r : Rat) * reactionRate e x i r) = 0 := by
    apply Finset.sum_eq_zero
    intro i _
    simp only [Finset.mul_sum]
    rw [Finset.sum_comm]
    apply Finset.sum_eq_zero
    intro r hr
    have := hc r (mem_range.1 hr)
    calc ∑ s ∈ range e.net.nSpecies, c s * ((e.net.sto s r : Rat) * reactionRate e x i r)
        = (∑ s ∈ range e.net.nSpecies, c s * (e.net.sto s r : Rat)) * reactionRate e x i r := by
          rw [Finset.sum_mul]; apply Finset.sum_congr rfl; intro s _; ring
      _ = 0 := by rw [this, zero_mul]
  have hdiff : ∑ i ∈ range e.topo.nCells, ∑ s ∈ range e.net.nSpecies,
      c s * ∑ n ∈ range (e.topo.nSlots i), (if (e.topo.nbr i n).isSome then diffusionRateDifference e x i s n else 0) = 0 := by
    rw [Finset.sum_comm]
    apply Finset.sum_eq_zero
    intro s _
    rw [← Finset.mul_sum, hbal s, mul_zero]
  rw [hreac, hdiff, sub_zero]

theorem euler_flux_zero {e : EngIn} {c : Nat → Rat} (hc : Cons e.net c) (hf : Free e c) (P : Pairing e) (x : State) :
    ∑ i ∈ range e.topo.nCells, ∑ s ∈ range e.net.nSpecies, c s * eulerDxdt e x i s = 0 :=
  euler_flux_zero_of_balanced hc hf x (diffusionBalanced_of_pairing P x)

/-- `euler_conserves` from the balance of the diffusion sums -/
theorem euler_conserves_of_balanced {e : EngIn} {c : Nat → Rat} (hc : Cons e.net c) (hf : Free e c)
    (dt : Rat) (x : State) (hbal : DiffusionBalanced e x) : total e c (eulerStep e dt x) = total e c x := by
  unfold total eulerStep
  have : ∀ i ∈ range e.topo.nCells, ∑ s ∈ range e.net.nSpecies, c s * (x i s + eulerDxdt e x i s * dt) =
      ∑ s ∈ range e.net.nSpecies, c s * x i s + dt * ∑ s ∈ range e.net.nSpecies, c s * eulerDxdt e x i s := by
    intro i _
    rw [Finset.mul_sum, ← Finset.sum_add_distrib]
    apply Finset.sum_congr rfl; intro s _; ring
  simp only []
  rw [Finset.sum_congr rfl this, Finset.sum_add_distrib, ← Finset.mul_sum, euler_flux_zero_of_balanced hc hf x hbal]
  simp

/-- `euler_conserves`: one `Compute_dxdt` + `Apply_dxdt`, exactly over ℚ, for every time step -/
theorem euler_conserves {e : EngIn} {c : Nat → Rat} (hc : Cons e.net c) (hf : Free e c) (P : Pairing e)
    (dt : Rat) (x : State) : total e c (eulerStep e dt x) = total e c x := by
  unfold total eulerStep
  have : ∀ i ∈ range e.topo.nCells, ∑ s ∈ range e.net.nSpecies, c s * (x i s + eulerDxdt e x i s * dt) =
      ∑ s ∈ range e.net.nSpecies, c s * x i s + dt * ∑ s ∈ range e.net.nSpecies, c s * eulerDxdt e x i s := by
    intro i _
    rw [Finset.mul_sum, ← Finset.sum_add_distrib]
    apply Finset.sum_congr rfl; intro s _; ring
  simp only []
  rw [Finset.sum_congr rfl this, Finset.sum_add_distrib, ← Finset.mul_sum, euler_flux_zero hc hf P x]
  simp

end Strengths
