/-
Refinement, Gillespie: `ComputePropensities` ↔ `reactionProp` / `diffPropSlot` / `a0r` / `a0d` / `a0`,
`ApplyReaction` / `ApplyDiffusion` ↔ `applyEvent`, `DrawAndApplyEvent` ↔ `selectEvent` + `applyEvent`.
-/
import Strengths.Proofs.RefineStep

namespace Strengths

section gil
variable {e : EngIn} {T : Tabs} {L : Layout}

/-- writing the value `f i s k` at slot (i, s, k): every slot stays readable, the already written ones keep their values -/
theorem slot_write_fn {α : Type} (hL : LayoutOK T L e.topo.nSlots e.topo.nbr) (sv : SlotVec α) (hsv : SlotOK T L e.topo.nSlots sv)
    {i s k : Nat} (hi : i < T.n) (hs : s < T.ns) (hk : k < e.topo.nSlots i) (a : SlotAddr) (ha : L.slot i s k = .ok a)
    (f : Nat → Nat → Nat → α) (upto : Nat → Nat → Nat → Prop)
    (hz : ∀ i' s' k', i' < T.n → s' < T.ns → k' < e.topo.nSlots i' → upto i' s' k' → ∀ b, L.slot i' s' k' = .ok b → sv.rd b = .ok (f i' s' k')) :
    Ok (sv.wr a (f i s k)) (fun sv' => SlotOK T L e.topo.nSlots sv' ∧
      ∀ i' s' k', i' < T.n → s' < T.ns → k' < e.topo.nSlots i' → (upto i' s' k' ∨ (i' = i ∧ s' = s ∧ k' = k)) →
        ∀ b, L.slot i' s' k' = .ok b → sv'.rd b = .ok (f i' s' k')) := by
  refine Ok.mono (SlotVec.wr_Ok (f i s k) (hsv i s k hi hs hk a ha)) (fun sv' hrw => ⟨?_, ?_⟩)
  · intro i' s' k' hi' hs' hk' b hb
    rw [hrw b]
    by_cases hba : b = a
    · rw [if_pos hba]; exact Ok.pure trivial
    · rw [if_neg hba]; exact hsv i' s' k' hi' hs' hk' b hb
  · intro i' s' k' hi' hs' hk' hup b hb
    rw [hrw b]
    by_cases hba : b = a
    · rw [if_pos hba]
      subst hba
      obtain ⟨e1, e2, e3⟩ := hL.slot_inj i' s' k' i s k b hi' hs' hk' hi hs hk hb ha
      subst e1 e2 e3; rfl
    · rw [if_neg hba]
      rcases hup with hup | ⟨e1, e2, e3⟩
      · exact hz i' s' k' hi' hs' hk' hup b hb
      · subst e1 e2 e3
        exact absurd (hb.symm.trans ha |> Except.ok.inj) hba

/-- the scratch vectors hold the core model's propensities -/
structure PropsOK (e : EngIn) (T : Tabs) (L : Layout) (X : State) (g : GilSt) : Prop where
  ok : GilOK T L e.topo.nSlots g
  ar : ∀ i r, i < T.n → r < T.nr → g.ar.get (i * T.nr + r) = reactionProp e X i r
  ad : ∀ i s k, i < T.n → s < T.ns → k < e.topo.nSlots i → ∀ a, L.slot i s k = .ok a → g.ad.rd a = .ok (diffPropSlot e X i s k)
  a0r : ∀ i, i < T.n → g.a0r.get i = a0r e X i
  a0d : ∀ i, i < T.n → g.a0d.get i = a0d e X i
  a0 : g.a0 = Strengths.a0 e X

/-- partial sum of the diffusion propensities of cell `i`: species `< s` completely, species `s` up to slot `k` -/
def a0dPart (e : EngIn) (X : State) (i s k : Nat) : Rat :=
  (List.range k).foldl (fun acc n => acc + diffPropSlot e X i s n)
    ((List.range s).foldl (fun acc s' => (List.range (e.topo.nSlots i)).foldl (fun acc n => acc + diffPropSlot e X i s' n) acc) 0)

theorem a0dPart_succ_slot (e : EngIn) (X : State) (i s k : Nat) : a0dPart e X i s (k + 1) = a0dPart e X i s k + diffPropSlot e X i s k := by
  unfold a0dPart; rw [foldl_range_succ]

theorem a0dPart_succ_species (e : EngIn) (X : State) (i s : Nat) : a0dPart e X i (s + 1) 0 = a0dPart e X i s (e.topo.nSlots i) := by
  unfold a0dPart; rw [foldl_range_succ]; rfl

/-- `ComputePropensities` ↔ the core model's propensities and their sums -/
theorem computePropensities_val (hR : Refines e T L) (x : Vec Rat) (hx : x.size = T.n * T.ns) (g : GilSt)
    (hg : GilOK T L e.topo.nSlots g) :
    Ok (computePropensities T L x g) (fun g' => PropsOK e T L (absState T.ns x) g') := by
  let X := absState T.ns x
  -- invariant at cell `i`, species `s`, slot `k`
  let Inv := fun (i s k : Nat) (nrDone : Nat) (A0 : Rat) (g : GilSt) =>
    GilOK T L e.topo.nSlots g ∧
    (∀ i' r, i' < T.n → r < T.nr → (i' < i ∨ (i' = i ∧ r < nrDone)) → g.ar.get (i' * T.nr + r) = reactionProp e X i' r) ∧
    (∀ i' s' k', i' < T.n → s' < T.ns → k' < e.topo.nSlots i' → Before i s k i' s' k' → ∀ a, L.slot i' s' k' = .ok a →
      g.ad.rd a = .ok (diffPropSlot e X i' s' k')) ∧
    (∀ i', i' < i → g.a0r.get i' = a0r e X i') ∧ (∀ i', i' < i → g.a0d.get i' = a0d e X i') ∧
    A0 = (List.range i).foldl (fun acc i => acc + a0r e X i + a0d e X i) 0
  unfold computePropensities
  have hstart : Inv 0 0 0 0 0 { g with a0 := 0 } :=
    ⟨⟨hg.ar, hg.a0r, hg.a0d, hg.ad⟩, fun i' r _ _ h => by omega, fun i' s' k' _ _ _ hb => by unfold Before at hb; omega,
      fun i' h => by omega, fun i' h => by omega, rfl⟩
  refine Ok.mono (Ok.forUpTo (fun i g => Inv i 0 0 0 g.a0 g) hstart (fun i hi g hinv => ?_)) (fun g' h => ?_)
  swap
  · obtain ⟨h1, h2, h3, h4, h5, h6⟩ := h
    refine ⟨h1, fun i r hi hr => h2 i r hi hr (Or.inl hi), fun i s k hi hs hk a ha => h3 i s k hi hs hk (Or.inl hi) a ha,
      fun i hi => h4 i hi, fun i hi => h5 i hi, ?_⟩
    rw [h6, hR.n]; rfl
  obtain ⟨hok, har, had, ha0r, ha0d, hA0⟩ := hinv
  refine Ok.bind (Vec.wr_Ok _ _ _ (site_cell g.a0d hok.a0d hi)) (fun v1 hv1 => ?_)
  refine Ok.bind (Vec.wr_Ok _ _ _ (site_cell g.a0r hok.a0r hi)) (fun v2 hv2 => ?_)
  simp only [Int.toNat_natCast] at hv1 hv2
  -- reactions
  let InvR := fun (r : Nat) (g' : GilSt) =>
    GilOK T L e.topo.nSlots g' ∧
    (∀ i' r', i' < T.n → r' < T.nr → (i' < i ∨ (i' = i ∧ r' < r)) → g'.ar.get (i' * T.nr + r') = reactionProp e X i' r') ∧
    g'.ad = g.ad ∧ (∀ i', i' ≠ i → g'.a0r.get i' = g.a0r.get i') ∧ g'.a0d = v1 ∧
    g'.a0r.get i = (List.range r).foldl (fun acc r => acc + reactionProp e X i r) 0 ∧
    g'.a0 = g.a0 + (List.range r).foldl (fun acc r => acc + reactionProp e X i r) 0
  have hR0 : InvR 0 { g with a0d := v1, a0r := v2 } :=
    ⟨⟨hok.ar, hv2.1.trans hok.a0r, hv1.1.trans hok.a0d, hok.ad⟩, fun i' r' hi' hr' hb => har i' r' hi' hr' (by omega), rfl,
      fun i' hne => hv2.2.2 i' hne, rfl, hv2.2.1, by simp⟩
  refine Ok.bind (Ok.forUpTo (fun r g' => InvR r g') hR0 (fun r hr g' hg' => ?_)) (fun g1 hg1 => ?_)
  · obtain ⟨hok', har', hadeq, ha0rfr, ha0deq, ha0ri, ha0v⟩ := hg'
    refine Ok.bind (reactionProp_val hR x hx hi hr) (fun a ha => ?_)
    rw [arIndex_nat]
    refine Ok.bind (Vec.wr_nat g'.ar _ a (by rw [hok'.ar]; exact flat2_lt T.n T.nr i r hi hr)) (fun ar har2 => ?_)
    have hars : ar.size = T.n * T.nr := har2.1.trans hok'.ar
    refine Ok.bind (Vec.rd_nat ar _ (by rw [hars]; exact flat2_lt T.n T.nr i r hi hr)) (fun a' ha' => ?_)
    refine Ok.bind (Vec.rd_nat g'.a0r i (by rw [hok'.a0r]; exact hi)) (fun c hc => ?_)
    refine Ok.bind (Vec.wr_nat g'.a0r i (c + a') (by rw [hok'.a0r]; exact hi)) (fun a0r' ha0r' => ?_)
    have hav : a' = reactionProp e X i r := by rw [ha', har2.2.1, ha]
    refine Ok.pure ⟨⟨hars, ha0r'.1.trans hok'.a0r, hok'.a0d, hok'.ad⟩, ?_, hadeq, ?_, ha0deq, ?_, ?_⟩
    · intro i' r' hi' hr' hb
      by_cases heq : i' = i ∧ r' = r
      · obtain ⟨e1, e2⟩ := heq; subst e1 e2
        show ar.get _ = _
        rw [har2.2.1, ha]
      · have hne : i' * T.nr + r' ≠ i * T.nr + r := fun hh => heq (flat2_inj hr' hr hh)
        show ar.get _ = _
        rw [har2.2.2 _ hne]
        exact har' i' r' hi' hr' (by omega)
    · intro i' hne
      show a0r'.get i' = _
      rw [ha0r'.2.2 i' hne]; exact ha0rfr i' hne
    · show a0r'.get i = _
      rw [ha0r'.2.1, foldl_range_succ, hc, ha0ri, hav]
    · show g'.a0 + a' = _
      rw [ha0v, foldl_range_succ, hav]; ring
  obtain ⟨hok1, har1, hadeq1, ha0rfr1, ha0deq1, ha0ri1, ha0v1⟩ := hg1
  rw [hR.layout.nSlots i hi, ok_bind]
  -- diffusion
  let InvD := fun (s k : Nat) (g' : GilSt) =>
    GilOK T L e.topo.nSlots g' ∧ g'.ar = g1.ar ∧ g'.a0r = g1.a0r ∧
    (∀ i' s' k', i' < T.n → s' < T.ns → k' < e.topo.nSlots i' → Before i s k i' s' k' → ∀ a, L.slot i' s' k' = .ok a →
      g'.ad.rd a = .ok (diffPropSlot e X i' s' k')) ∧
    (∀ i', i' ≠ i → g'.a0d.get i' = g.a0d.get i') ∧ g'.a0d.get i = a0dPart e X i s k ∧
    g'.a0 = g.a0 + a0r e X i + a0dPart e X i s k
  have ha0ri1' : g1.a0r.get i = a0r e X i := by rw [ha0ri1]; unfold a0r; rw [hR.nr]
  have hD0 : InvD 0 0 g1 := by
    refine ⟨hok1, rfl, rfl, ?_, ?_, ?_, ?_⟩
    · intro i' s' k' hi' hs' hk' hb a ha
      rw [hadeq1]
      exact had i' s' k' hi' hs' hk' hb a ha
    · intro i' hne; rw [ha0deq1]; exact hv1.2.2 i' hne
    · rw [ha0deq1, hv1.2.1]; rfl
    · rw [ha0v1]; unfold a0dPart a0r; rw [hR.nr]; simp
  refine Ok.mono (Ok.forUpTo (fun s g' => InvD s 0 g') hD0 (fun s hs g' hg' => ?_)) (fun g2 hg2 => ?_)
  swap
  · obtain ⟨hok2, hareq, ha0req, had2, ha0dfr, ha0di, ha0v2⟩ := hg2
    have hfull : a0dPart e X i T.ns 0 = a0d e X i := by unfold a0dPart a0d; rw [hR.ns]; rfl
    refine ⟨hok2, ?_, ?_, ?_, ?_, ?_⟩
    · intro i' r hi' hr hb
      rw [hareq]
      rcases hb with hb | ⟨_, hb⟩
      · by_cases hlt : i' < i
        · exact har1 i' r hi' hr (Or.inl hlt)
        · have : i' = i := by omega
          subst this; exact har1 i' r hi' hr (Or.inr ⟨rfl, hr⟩)
      · omega
    · intro i' s' k' hi' hs' hk' hb a ha
      refine had2 i' s' k' hi' hs' hk' ?_ a ha
      unfold Before at hb ⊢
      rcases hb with hb | ⟨hb, hb2 | ⟨_, hb3⟩⟩
      · omega
      · omega
      · omega
    · intro i' hi'
      rw [ha0req]
      by_cases he : i' = i
      · subst he; exact ha0ri1'
      · rw [ha0rfr1 i' he]; exact ha0r i' (by omega)
    · intro i' hi'
      by_cases he : i' = i
      · subst he; rw [ha0di, hfull]
      · rw [ha0dfr i' he]; exact ha0d i' (by omega)
    · show g2.a0 = _
      rw [ha0v2, hfull, foldl_range_succ, ← hA0]
  refine Ok.mono (Ok.forUpTo (fun k g' => InvD s k g') hg' (fun k hk g' hg' => ?_)) (fun g3 hg3 => ?_)
  swap
  · obtain ⟨h1, h2, h3, h4, h5, h6, h7⟩ := hg3
    refine ⟨h1, h2, h3, ?_, h5, by rw [h6, a0dPart_succ_species], by rw [h7, a0dPart_succ_species]⟩
    intro i' s' k' hi' hs' hk' hb a ha
    refine h4 i' s' k' hi' hs' hk' ?_ a ha
    unfold Before at hb ⊢
    rcases hb with hb | ⟨hb, hb2 | ⟨hb2, hb3⟩⟩
    · exact Or.inl hb
    · subst hb; exact Or.inr ⟨rfl, by omega⟩
    · omega
  obtain ⟨hokD, hareqD, ha0reqD, hadD, ha0dfrD, ha0diD, ha0vD⟩ := hg'
  rw [hR.layout.nbr i k hi hk, ok_bind]
  obtain ⟨a, ha, _⟩ := hR.layout.slot i s k hi hs hk
  rw [ha, ok_bind]
  have hpr : Ok (if (e.topo.nbr i k).isSome then diffusionPropC T L x i s k else (.ok 0 : CRes Rat)) (fun pr => pr = diffPropSlot e X i s k) := by
    unfold diffPropSlot
    cases hnb : e.topo.nbr i k with
    | none => simp only [Option.isSome_none, Bool.false_eq_true, if_false]; exact Ok.pure rfl
    | some j =>
      simp only [Option.isSome_some, if_true]
      exact diffusionPropC_val hR x hx hi hs hk
  refine Ok.bind hpr (fun pr hprv => ?_)
  rw [hprv]
  refine Ok.bind (slot_write_fn hR.layout g'.ad hokD.ad hi hs hk a ha (fun i s k => diffPropSlot e X i s k) _ hadD) (fun ad had2 => ?_)
  have hrd : ad.rd a = .ok (diffPropSlot e X i s k) := had2.2 i s k hi hs hk (Or.inr ⟨rfl, rfl, rfl⟩) a ha
  rw [hrd, ok_bind]
  refine Ok.bind (Vec.rd_nat g'.a0d i (by rw [hokD.a0d]; exact hi)) (fun c hc => ?_)
  refine Ok.bind (Vec.wr_nat g'.a0d i _ (by rw [hokD.a0d]; exact hi)) (fun a0d' ha0d' => ?_)
  refine Ok.pure ⟨⟨hokD.ar, hokD.a0r, ha0d'.1.trans hokD.a0d, had2.1⟩, hareqD, ha0reqD, ?_, ?_, ?_, ?_⟩
  · intro i' s' k' hi' hs' hk' hb b hb'
    exact had2.2 i' s' k' hi' hs' hk' (before_slot_succ hb) b hb'
  · intro i' hne
    show a0d'.get i' = _
    rw [ha0d'.2.2 i' hne]; exact ha0dfrD i' hne
  · show a0d'.get i = _
    rw [ha0d'.2.1, hc, ha0diD, a0dPart_succ_slot]
  · show g'.a0 + _ = _
    rw [ha0vD, a0dPart_succ_slot]; ring

end gil

end Strengths
