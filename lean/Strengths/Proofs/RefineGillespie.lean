/-
Refinement, Gillespie: `ComputePropensities` ↔ `reactionProp` / `diffPropSlot` / `a0r` / `a0d` / `a0`,
`ApplyReaction` / `ApplyDiffusion` ↔ `applyEvent`, `DrawAndApplyEvent` ↔ `selectEvent` + `applyEvent`.
-/
import Strengths.Proofs.RefineStep

namespace Strengths

section gil
variable {e : EngIn} {T : Tabs} {L : Layout}

/-- writing the value `f i s k` at slot (i, s, k): every slot stays readable, the already written ones keep their values -/
theorem slot_write_fn {α : Type} (hL : LayoutOK T L e.topo.nSlots e.topo.nbr) (sv : SlotVec α) (hsv : SlotOK T L e.topo.nSlots sv)
    {i s k : Nat} (hi : i < T.n) (hs : s < T.ns) (hk : k < e.topo.nSlots i) (a : SlotAddr) (ha : L.slot i s k = .ok a)
    (f : Nat → Nat → Nat → α) (upto : Nat → Nat → Nat → Prop)
    (hz : ∀ i' s' k', i' < T.n → s' < T.ns → k' < e.topo.nSlots i' → upto i' s' k' → ∀ b, L.slot i' s' k' = .ok b → sv.rd b = .ok (f i' s' k')) :
    Ok (sv.wr a (f i s k)) (fun sv' => SlotOK T L e.topo.nSlots sv' ∧
      ∀ i' s' k', i' < T.n → s' < T.ns → k' < e.topo.nSlots i' → (upto i' s' k' ∨ (i' = i ∧ s' = s ∧ k' = k)) →
        ∀ b, L.slot i' s' k' = .ok b → sv'.rd b = .ok (f i' s' k')) := by
  refine Ok.mono (SlotVec.wr_Ok (f i s k) (hsv i s k hi hs hk a ha)) (fun sv' hrw => ⟨?_, ?_⟩)
  · intro i' s' k' hi' hs' hk' b hb
    rw [hrw b]
    by_cases hba : b = a
    · rw [if_pos hba]; exact Ok.pure trivial
    · rw [if_neg hba]; exact hsv i' s' k' hi' hs' hk' b hb
  · intro i' s' k' hi' hs' hk' hup b hb
    rw [hrw b]
    by_cases hba : b = a
    · rw [if_pos hba]
      subst hba
      obtain ⟨e1, e2, e3⟩ := hL.slot_inj i' s' k' i s k b hi' hs' hk' hi hs hk hb ha
      subst e1 e2 e3; rfl
    · rw [if_neg hba]
      rcases hup with hup | ⟨e1, e2, e3⟩
      · exact hz i' s' k' hi' hs' hk' hup b hb
      · subst e1 e2 e3
        exact absurd (hb.symm.trans ha |> Except.ok.inj) hba

/-- the scratch vectors hold the core model's propensities -/
structure PropsOK (e : EngIn) (T : Tabs) (L : Layout) (X : State) (g : GilSt) : Prop where
  ok : GilOK T L e.topo.nSlots g
  ar : ∀ i r, i < T.n → r < T.nr → g.ar.get (i * T.nr + r) = reactionProp e X i r
  ad : ∀ i s k, i < T.n → s < T.ns → k < e.topo.nSlots i → ∀ a, L.slot i s k = .ok a → g.ad.rd a = .ok (diffPropSlot e X i s k)
  a0r : ∀ i, i < T.n → g.a0r.get i = a0r e X i
  a0d : ∀ i, i < T.n → g.a0d.get i = a0d e X i
  a0 : g.a0 = Strengths.a0 e X

/-- partial sum of the diffusion propensities of cell `i`: species `< s` completely, species `s` up to slot `k` -/
def a0dPart (e : EngIn) (X : State) (i s k : Nat) : Rat :=
  (List.range k).foldl (fun acc n => acc + diffPropSlot e X i s n)
    ((List.range s).foldl (fun acc s' => (List.range (e.topo.nSlots i)).foldl (fun acc n => acc + diffPropSlot e X i s' n) acc) 0)

theorem a0dPart_succ_slot (e : EngIn) (X : State) (i s k : Nat) : a0dPart e X i s (k + 1) = a0dPart e X i s k + diffPropSlot e X i s k := by
  unfold a0dPart; rw [foldl_range_succ]

theorem a0dPart_succ_species (e : EngIn) (X : State) (i s : Nat) : a0dPart e X i (s + 1) 0 = a0dPart e X i s (e.topo.nSlots i) := by
  unfold a0dPart; rw [foldl_range_succ]; rfl

/-- `ComputePropensities` ↔ the core model's propensities and their sums -/
theorem computePropensities_val (hR : Refines e T L) (x : Vec Rat) (hx : x.size = T.n * T.ns) (g : GilSt)
    (hg : GilOK T L e.topo.nSlots g) :
    Ok (computePropensities T L x g) (fun g' => PropsOK e T L (absState T.ns x) g') := by
  let X := absState T.ns x
  -- invariant at cell `i`, species `s`, slot `k`
  let Inv := fun (i s k : Nat) (nrDone : Nat) (A0 : Rat) (g : GilSt) =>
    GilOK T L e.topo.nSlots g ∧
    (∀ i' r, i' < T.n → r < T.nr → (i' < i ∨ (i' = i ∧ r < nrDone)) → g.ar.get (i' * T.nr + r) = reactionProp e X i' r) ∧
    (∀ i' s' k', i' < T.n → s' < T.ns → k' < e.topo.nSlots i' → Before i s k i' s' k' → ∀ a, L.slot i' s' k' = .ok a →
      g.ad.rd a = .ok (diffPropSlot e X i' s' k')) ∧
    (∀ i', i' < i → g.a0r.get i' = a0r e X i') ∧ (∀ i', i' < i → g.a0d.get i' = a0d e X i') ∧
    A0 = (List.range i).foldl (fun acc i => acc + a0r e X i + a0d e X i) 0
  unfold computePropensities
  have hstart : Inv 0 0 0 0 0 { g with a0 := 0 } :=
    ⟨⟨hg.ar, hg.a0r, hg.a0d, hg.ad⟩, fun i' r _ _ h => by omega, fun i' s' k' _ _ _ hb => by unfold Before at hb; omega,
      fun i' h => by omega, fun i' h => by omega, rfl⟩
  refine Ok.mono (Ok.forUpTo (fun i g => Inv i 0 0 0 g.a0 g) hstart (fun i hi g hinv => ?_)) (fun g' h => ?_)
  swap
  · obtain ⟨h1, h2, h3, h4, h5, h6⟩ := h
    refine ⟨h1, fun i r hi hr => h2 i r hi hr (Or.inl hi), fun i s k hi hs hk a ha => h3 i s k hi hs hk (Or.inl hi) a ha,
      fun i hi => h4 i hi, fun i hi => h5 i hi, ?_⟩
    rw [h6, hR.n]; rfl
  obtain ⟨hok, har, had, ha0r, ha0d, hA0⟩ := hinv
  refine Ok.bind (Vec.wr_Ok _ _ _ (site_cell g.a0d hok.a0d hi)) (fun v1 hv1 => ?_)
  refine Ok.bind (Vec.wr_Ok _ _ _ (site_cell g.a0r hok.a0r hi)) (fun v2 hv2 => ?_)
  simp only [Int.toNat_natCast] at hv1 hv2
  -- reactions
  let InvR := fun (r : Nat) (g' : GilSt) =>
    GilOK T L e.topo.nSlots g' ∧
    (∀ i' r', i' < T.n → r' < T.nr → (i' < i ∨ (i' = i ∧ r' < r)) → g'.ar.get (i' * T.nr + r') = reactionProp e X i' r') ∧
    g'.ad = g.ad ∧ (∀ i', i' ≠ i → g'.a0r.get i' = g.a0r.get i') ∧ g'.a0d = v1 ∧
    g'.a0r.get i = (List.range r).foldl (fun acc r => acc + reactionProp e X i r) 0 ∧
    g'.a0 = g.a0 + (List.range r).foldl (fun acc r => acc + reactionProp e X i r) 0
  have hR0 : InvR 0 { g with a0d := v1, a0r := v2 } :=
    ⟨⟨hok.ar, hv2.1.trans hok.a0r, hv1.1.trans hok.a0d, hok.ad⟩, fun i' r' hi' hr' hb => har i' r' hi' hr' (by omega), rfl,
      fun i' hne => hv2.2.2 i' hne, rfl, hv2.2.1, by simp⟩
  refine Ok.bind (Ok.forUpTo (fun r g' => InvR r g') hR0 (fun r hr g' hg' => ?_)) (fun g1 hg1 => ?_)
  · obtain ⟨hok', har', hadeq, ha0rfr, ha0deq, ha0ri, ha0v⟩ := hg'
    refine Ok.bind (reactionProp_val hR x hx hi hr) (fun a ha => ?_)
    rw [arIndex_nat]
    refine Ok.bind (Vec.wr_nat g'.ar _ a (by rw [hok'.ar]; exact flat2_lt T.n T.nr i r hi hr)) (fun ar har2 => ?_)
    have hars : ar.size = T.n * T.nr := har2.1.trans hok'.ar
    refine Ok.bind (Vec.rd_nat ar _ (by rw [hars]; exact flat2_lt T.n T.nr i r hi hr)) (fun a' ha' => ?_)
    refine Ok.bind (Vec.rd_nat g'.a0r i (by rw [hok'.a0r]; exact hi)) (fun c hc => ?_)
    refine Ok.bind (Vec.wr_nat g'.a0r i (c + a') (by rw [hok'.a0r]; exact hi)) (fun a0r' ha0r' => ?_)
    have hav : a' = reactionProp e X i r := by rw [ha', har2.2.1, ha]
    refine Ok.pure ⟨⟨hars, ha0r'.1.trans hok'.a0r, hok'.a0d, hok'.ad⟩, ?_, hadeq, ?_, ha0deq, ?_, ?_⟩
    · intro i' r' hi' hr' hb
      by_cases heq : i' = i ∧ r' = r
      · obtain ⟨e1, e2⟩ := heq; subst e1 e2
        show ar.get _ = _
        rw [har2.2.1, ha]
      · have hne : i' * T.nr + r' ≠ i * T.nr + r := fun hh => heq (flat2_inj hr' hr hh)
        show ar.get _ = _
        rw [har2.2.2 _ hne]
        exact har' i' r' hi' hr' (by omega)
    · intro i' hne
      show a0r'.get i' = _
      rw [ha0r'.2.2 i' hne]; exact ha0rfr i' hne
    · show a0r'.get i = _
      rw [ha0r'.2.1, foldl_range_succ, hc, ha0ri, hav]
    · show g'.a0 + a' = _
      rw [ha0v, foldl_range_succ, hav]; ring
  obtain ⟨hok1, har1, hadeq1, ha0rfr1, ha0deq1, ha0ri1, ha0v1⟩ := hg1
  rw [hR.layout.nSlots i hi, ok_bind]
  -- diffusion
  let InvD := fun (s k : Nat) (g' : GilSt) =>
    GilOK T L e.topo.nSlots g' ∧ g'.ar = g1.ar ∧ g'.a0r = g1.a0r ∧
    (∀ i' s' k', i' < T.n → s' < T.ns → k' < e.topo.nSlots i' → Before i s k i' s' k' → ∀ a, L.slot i' s' k' = .ok a →
      g'.ad.rd a = .ok (diffPropSlot e X i' s' k')) ∧
    (∀ i', i' ≠ i → g'.a0d.get i' = g.a0d.get i') ∧ g'.a0d.get i = a0dPart e X i s k ∧
    g'.a0 = g.a0 + a0r e X i + a0dPart e X i s k
  have ha0ri1' : g1.a0r.get i = a0r e X i := by rw [ha0ri1]; unfold a0r; rw [hR.nr]
  have hD0 : InvD 0 0 g1 := by
    refine ⟨hok1, rfl, rfl, ?_, ?_, ?_, ?_⟩
    · intro i' s' k' hi' hs' hk' hb a ha
      rw [hadeq1]
      exact had i' s' k' hi' hs' hk' hb a ha
    · intro i' hne; rw [ha0deq1]; exact hv1.2.2 i' hne
    · rw [ha0deq1, hv1.2.1]; rfl
    · rw [ha0v1]; unfold a0dPart a0r; rw [hR.nr]; simp
  refine Ok.mono (Ok.forUpTo (fun s g' => InvD s 0 g') hD0 (fun s hs g' hg' => ?_)) (fun g2 hg2 => ?_)
  swap
  · obtain ⟨hok2, hareq, ha0req, had2, ha0dfr, ha0di, ha0v2⟩ := hg2
    have hfull : a0dPart e X i T.ns 0 = a0d e X i := by unfold a0dPart a0d; rw [hR.ns]; rfl
    refine ⟨hok2, ?_, ?_, ?_, ?_, ?_⟩
    · intro i' r hi' hr hb
      rw [hareq]
      rcases hb with hb | ⟨_, hb⟩
      · by_cases hlt : i' < i
        · exact har1 i' r hi' hr (Or.inl hlt)
        · have : i' = i := by omega
          subst this; exact har1 i' r hi' hr (Or.inr ⟨rfl, hr⟩)
      · omega
    · intro i' s' k' hi' hs' hk' hb a ha
      refine had2 i' s' k' hi' hs' hk' ?_ a ha
      unfold Before at hb ⊢
      rcases hb with hb | ⟨hb, hb2 | ⟨_, hb3⟩⟩
      · omega
      · omega
      · omega
    · intro i' hi'
      rw [ha0req]
      by_cases he : i' = i
      · subst he; exact ha0ri1'
      · rw [ha0rfr1 i' he]; exact ha0r i' (by omega)
    · intro i' hi'
      by_cases he : i' = i
      · subst he; rw [ha0di, hfull]
      · rw [ha0dfr i' he]; exact ha0d i' (by omega)
    · show g2.a0 = _
      rw [ha0v2, hfull, foldl_range_succ, ← hA0]
  refine Ok.mono (Ok.forUpTo (fun k g' => InvD s k g') hg' (fun k hk g' hg' => ?_)) (fun g3 hg3 => ?_)
  swap
  · obtain ⟨h1, h2, h3, h4, h5, h6, h7⟩ := hg3
    refine ⟨h1, h2, h3, ?_, h5, by rw [h6, a0dPart_succ_species], by rw [h7, a0dPart_succ_species]⟩
    intro i' s' k' hi' hs' hk' hb a ha
    refine h4 i' s' k' hi' hs' hk' ?_ a ha
    unfold Before at hb ⊢
    rcases hb with hb | ⟨hb, hb2 | ⟨hb2, hb3⟩⟩
    · exact Or.inl hb
    · subst hb; exact Or.inr ⟨rfl, by omega⟩
    · omega
  obtain ⟨hokD, hareqD, ha0reqD, hadD, ha0dfrD, ha0diD, ha0vD⟩ := hg'
  rw [hR.layout.nbr i k hi hk, ok_bind]
  obtain ⟨a, ha, _⟩ := hR.layout.slot i s k hi hs hk
  rw [ha, ok_bind]
  have hpr : Ok (if (e.topo.nbr i k).isSome then diffusionPropC T L x i s k else (.ok 0 : CRes Rat)) (fun pr => pr = diffPropSlot e X i s k) := by
    unfold diffPropSlot
    cases hnb : e.topo.nbr i k with
    | none => simp only [Option.isSome_none, Bool.false_eq_true, if_false]; exact Ok.pure rfl
    | some j =>
      simp only [Option.isSome_some, if_true]
      exact diffusionPropC_val hR x hx hi hs hk
  refine Ok.bind hpr (fun pr hprv => ?_)
  rw [hprv]
  refine Ok.bind (slot_write_fn hR.layout g'.ad hokD.ad hi hs hk a ha (fun i s k => diffPropSlot e X i s k) _ hadD) (fun ad had2 => ?_)
  have hrd : ad.rd a = .ok (diffPropSlot e X i s k) := had2.2 i s k hi hs hk (Or.inr ⟨rfl, rfl, rfl⟩) a ha
  rw [hrd, ok_bind]
  refine Ok.bind (Vec.rd_nat g'.a0d i (by rw [hokD.a0d]; exact hi)) (fun c hc => ?_)
  refine Ok.bind (Vec.wr_nat g'.a0d i _ (by rw [hokD.a0d]; exact hi)) (fun a0d' ha0d' => ?_)
  refine Ok.pure ⟨⟨hokD.ar, hokD.a0r, ha0d'.1.trans hokD.a0d, had2.1⟩, hareqD, ha0reqD, ?_, ?_, ?_, ?_⟩
  · intro i' s' k' hi' hs' hk' hb b hb'
    exact had2.2 i' s' k' hi' hs' hk' (before_slot_succ hb) b hb'
  · intro i' hne
    show a0d'.get i' = _
    rw [ha0d'.2.2 i' hne]; exact ha0dfrD i' hne
  · show a0d'.get i = _
    rw [ha0d'.2.1, hc, ha0diD, a0dPart_succ_slot]
  · show g'.a0 + _ = _
    rw [ha0vD, a0dPart_succ_slot]; ring

/-! ### applying an event -/

/-- `mesh_x` holds the core state `Y` -/
def Agree (T : Tabs) (x : Vec Rat) (Y : State) : Prop := ∀ i s, i < T.n → s < T.ns → x.get (i * T.ns + s) = Y i s

theorem agree_abs (x : Vec Rat) : Agree T x (absState T.ns x) := fun _ _ _ _ => rfl

/-- writing entry (i, s) is `State.update` -/
theorem agree_wr {x x' : Vec Rat} {Y : State} (h : Agree T x Y) {i s : Nat} (hs : s < T.ns) (v : Rat)
    (hw : x'.get (i * T.ns + s) = v ∧ ∀ k, k ≠ i * T.ns + s → x'.get k = x.get k) : Agree T x' (Y.update i s v) := by
  intro i' s' hi' hs'
  show x'.get (i' * T.ns + s') = if i' = i ∧ s' = s then v else Y i' s'
  by_cases heq : i' = i ∧ s' = s
  · obtain ⟨e1, e2⟩ := heq; subst e1 e2; rw [if_pos ⟨rfl, rfl⟩]; exact hw.1
  · rw [if_neg heq]
    have hne : i' * T.ns + s' ≠ i * T.ns + s := fun hh => heq (flat2_inj hs' hs hh)
    rw [hw.2 _ hne]; exact h i' s' hi' hs'

/-- `ApplyReaction` ↔ `applyEvent (.reaction i r)` -/
theorem applyReactionC_val (hR : Refines e T L) (x : Vec Rat) (hx : x.size = T.n * T.ns) {i r : Nat} (hi : i < T.n) (hr : r < T.nr) :
    Ok (applyReactionC T x i r) (fun x' => x'.size = T.n * T.ns ∧ Agree T x' (applyEvent e (absState T.ns x) (.reaction i r))) := by
  let X := absState T.ns x
  unfold applyReactionC
  refine Ok.mono (Ok.forUpTo (fun k (y : Vec Rat) => y.size = T.n * T.ns ∧ ∀ i' s', i' < T.n → s' < T.ns →
      y.get (i' * T.ns + s') = if i' = i ∧ s' < k ∧ e.chem i s' = false then X i s' + (e.net.sto s' r : Rat) else X i' s')
    ⟨hx, fun i' s' _ _ => by simp; rfl⟩ (fun s hs y hy => ?_)) (fun y hy => ⟨hy.1, fun i' s' hi' hs' => ?_⟩)
  swap
  · rw [hy.2 i' s' hi' hs']
    show _ = if i' = i ∧ (!e.chem i s') = true then X i s' + (e.net.sto s' r : Rat) else X i' s'
    by_cases h1 : i' = i
    · subst h1
      cases hc : e.chem i' s' <;> simp [hs', hc]
    · simp [h1]
  refine Ok.bind (rd_chem hR hi hs) (fun c hc => ?_)
  by_cases hcz : c ≠ 0
  · rw [if_pos hcz]
    refine Ok.pure ⟨hy.1, fun i' s' hi' hs' => ?_⟩
    rw [hy.2 i' s' hi' hs']
    have hch : e.chem i s = true := hc.mp hcz
    by_cases h1 : i' = i ∧ s' < s ∧ e.chem i s' = false
    · rw [if_pos h1, if_pos ⟨h1.1, by omega, h1.2.2⟩]
    · rw [if_neg h1, if_neg]
      rintro ⟨e1, e2, e3⟩
      have : s' = s ∨ s' < s := by omega
      rcases this with rfl | hlt
      · rw [hch] at e3; cases e3
      · exact h1 ⟨e1, hlt, e3⟩
  rw [if_neg hcz]
  have hch : e.chem i s = false := by
    cases h : e.chem i s with
    | false => rfl
    | true => exact absurd (hc.mpr h) hcz
  refine Ok.bind (rd_x y hy.1 hi hs) (fun xv hxv => ?_)
  refine Ok.bind (rd_sto hR hs hr) (fun sv hsv => ?_)
  refine Ok.mono (wr_x y hy.1 hi hs _) (fun y' h => ⟨h.1, fun i' s' hi' hs' => ?_⟩)
  by_cases heq : i' = i ∧ s' = s
  · obtain ⟨e1, e2⟩ := heq; subst e1 e2
    rw [h.2.1, if_pos ⟨rfl, by omega, hch⟩, hxv, hy.2 i' s' hi hs, if_neg (by omega), hsv]
  · have hne : i' * T.ns + s' ≠ i * T.ns + s := fun hh => heq (flat2_inj hs' hs hh)
    rw [h.2.2 _ hne, hy.2 i' s' hi' hs']
    by_cases h1 : i' = i ∧ s' < s ∧ e.chem i s' = false
    · rw [if_pos h1, if_pos ⟨h1.1, by omega, h1.2.2⟩]
    · rw [if_neg h1, if_neg]
      rintro ⟨e1, e2, e3⟩
      have : s' = s ∨ s' < s := by omega
      rcases this with e4 | hlt
      · exact heq ⟨e1, e4⟩
      · exact h1 ⟨e1, hlt, e3⟩

/-- `ApplyDiffusion` through a slot with a neighbour ↔ `applyEvent (.diffusion i s k)` -/
theorem applyDiffusionC_val (hR : Refines e T L) (x : Vec Rat) (hx : x.size = T.n * T.ns)
    {i s k j : Nat} (hi : i < T.n) (hs : s < T.ns) (hk : k < e.topo.nSlots i) (hnb : e.topo.nbr i k = some j) :
    Ok (applyDiffusionC T L x i s k) (fun x' => x'.size = T.n * T.ns ∧ Agree T x' (applyEvent e (absState T.ns x) (.diffusion i s k))) := by
  let X := absState T.ns x
  unfold applyDiffusionC
  rw [hR.layout.nbr i k hi hk, ok_bind, hnb]
  dsimp only
  have hj := hR.layout.nbr_lt i k j hi hk hnb
  refine Ok.bind (rd_chem hR hi hs) (fun c hc => ?_)
  -- first half
  let Y1 : State := if e.chem i s then X else X.update i s (X i s - 1)
  have hx1 : Ok (if c ≠ 0 then (.ok x : CRes (Vec Rat)) else x.rd (T.xIdx i s) >>= fun xv => x.wr (T.xIdx i s) (xv - 1))
      (fun x1 => x1.size = T.n * T.ns ∧ Agree T x1 Y1) := by
    by_cases hcz : c ≠ 0
    · rw [if_pos hcz]
      refine Ok.pure ⟨hx, ?_⟩
      show Agree T x (if e.chem i s then X else _)
      rw [if_pos (hc.mp hcz)]; exact agree_abs x
    · rw [if_neg hcz]
      have hch : e.chem i s = false := by
        cases h : e.chem i s with
        | false => rfl
        | true => exact absurd (hc.mpr h) hcz
      refine Ok.bind (rd_x x hx hi hs) (fun xv hxv => ?_)
      refine Ok.mono (wr_x x hx hi hs _) (fun x1 h => ⟨h.1, ?_⟩)
      show Agree T x1 (if e.chem i s then X else _)
      rw [hch]
      simp only [Bool.false_eq_true, if_false]
      have := agree_wr (agree_abs x) hs (xv - 1) ⟨h.2.1, h.2.2⟩
      rw [hxv] at this
      exact this
  refine Ok.bind hx1 (fun x1 hx1 => ?_)
  refine Ok.bind (rd_chem_nbr hR hj hs) (fun cj hcj => ?_)
  have hres : applyEvent e X (.diffusion i s k) = if e.chem j s then Y1 else Y1.update j s (Y1 j s + 1) := by
    show (match e.topo.nbr i k with | none => Y1 | some j => if e.chem j s then Y1 else Y1.update j s (Y1 j s + 1)) = _
    rw [hnb]
  rw [hres]
  by_cases hcz : cj ≠ 0
  · rw [if_pos hcz, if_pos (hcj.mp hcz)]; exact Ok.pure hx1
  · rw [if_neg hcz]
    have hch : e.chem j s = false := by
      cases h : e.chem j s with
      | false => rfl
      | true => exact absurd (hcj.mpr h) hcz
    rw [hch]
    simp only [Bool.false_eq_true, if_false]
    refine Ok.bind (rd_x_nbr x1 hx1.1 hj hs) (fun xj hxj => ?_)
    refine Ok.mono (wr_x_nbr x1 hx1.1 hj hs _) (fun x2 h => ⟨h.1, ?_⟩)
    have := agree_wr hx1.2 hs (xj + 1) ⟨h.2.1, h.2.2⟩
    rw [hxj, hx1.2 j s hj hs] at this
    exact this

/-! ### `DrawAndApplyEvent` ↔ `selectEvent` + `applyEvent` -/

/-- the state after the selected event (none selected: unchanged) -/
def evRes (e : EngIn) (X : State) : Option Event → State
  | some v => applyEvent e X v
  | none => X

theorem range'_cons (s m : Nat) (h : s < m) : List.range' s (m - s) = s :: List.range' (s + 1) (m - (s + 1)) := by
  have : m - s = (m - (s + 1)) + 1 := by omega
  rw [this, List.range'_succ]

/-- species `s ..` of the (species, slot) list scanned by `DrawAndApplyEvent` -/
def slotSuffix (ns slots s : Nat) : List (Nat × Nat) :=
  (List.range' s (ns - s)).flatMap fun s' => (List.range slots).map fun n => (s', n)

def slotSuffix2 (ns slots s k : Nat) : List (Nat × Nat) :=
  (List.range' k (slots - k)).map (fun n => (s, n)) ++ slotSuffix ns slots (s + 1)

theorem slotSuffix2_zero (ns slots s : Nat) (hs : s < ns) : slotSuffix2 ns slots s 0 = slotSuffix ns slots s := by
  unfold slotSuffix2 slotSuffix
  rw [range'_cons s ns hs, List.flatMap_cons, Nat.sub_zero, List.range_eq_range']

theorem slotSuffix2_cons (ns slots s k : Nat) (hk : k < slots) :
    slotSuffix2 ns slots s k = (s, k) :: slotSuffix2 ns slots s (k + 1) := by
  unfold slotSuffix2
  rw [range'_cons k slots hk]; rfl

theorem slotSuffix2_end (ns slots s : Nat) : slotSuffix2 ns slots s slots = slotSuffix ns slots (s + 1) := by
  unfold slotSuffix2; simp

theorem drawAndApplyEvent_val (hR : Refines e T L) (x : Vec Rat) (hx : x.size = T.n * T.ns) (g : GilSt)
    (hP : PropsOK e T L (absState T.ns x) g) (r : Rat) :
    Ok (drawAndApplyEvent T L g r x) (fun x' => x'.size = T.n * T.ns ∧
      Agree T x' (evRes e (absState T.ns x) (selectEvent e (absState T.ns x) r (List.range e.topo.nCells) 0))) := by
  let X := absState T.ns x
  let sel := selectEvent e X r (List.range T.n) 0
  unfold drawAndApplyEvent
  rw [← hR.n]
  let InvO := fun (i : Nat) (st : ScanSt) => st.x.size = T.n * T.ns ∧
    (st.done = false → st.x = x ∧ sel = selectEvent e X r (List.range' i (T.n - i)) st.cum) ∧
    (st.done = true → Agree T st.x (evRes e X sel))
  have hstart : InvO 0 { cum := 0, done := false, x := x } :=
    ⟨hx, fun _ => ⟨rfl, by show sel = _; rw [Nat.sub_zero, ← List.range_eq_range']⟩, fun h => by cases h⟩
  refine Ok.bind (Ok.forUpTo (fun i st => InvO i st) hstart (fun i hi st hst => ?_)) (fun st hst => Ok.pure ⟨hst.1, ?_⟩)
  swap
  · by_cases hd : st.done = true
    · exact hst.2.2 hd
    · simp only [Bool.not_eq_true] at hd
      obtain ⟨hxe, hsel⟩ := hst.2.1 hd
      rw [Nat.sub_self] at hsel
      have : sel = none := hsel
      show Agree T st.x (evRes e X sel)
      rw [this, hxe]; exact agree_abs x
  by_cases hd : st.done = true
  · rw [if_pos hd]; exact Ok.pure ⟨hst.1, fun h => (by rw [hd] at h; cases h), hst.2.2⟩
  rw [if_neg hd]
  simp only [Bool.not_eq_true] at hd
  obtain ⟨hxe, hsel⟩ := hst.2.1 hd
  rw [range'_cons i T.n hi] at hsel
  simp only [selectEvent] at hsel
  refine Ok.bind (Vec.rd_nat g.a0r i (by rw [hP.ok.a0r]; exact hi)) (fun ar0 har0 => ?_)
  have har0v : ar0 = a0r e X i := by rw [har0]; exact hP.a0r i hi
  rw [har0v]
  by_cases hreac : r < st.cum + a0r e X i
  · -- reaction
    rw [if_pos hreac]
    rw [if_pos hreac] at hsel
    let r2 := r - st.cum
    let sr := scanReactions e X i r2 (List.range e.net.nReact) 0
    let InvR := fun (j : Nat) (s2 : ScanSt) => s2.x.size = T.n * T.ns ∧
      (s2.done = false → s2.x = x ∧ sr = scanReactions e X i r2 (List.range' j (T.nr - j)) s2.cum) ∧
      (s2.done = true → Agree T s2.x (evRes e X sr))
    have hR0 : InvR 0 { cum := 0, done := false, x := st.x } :=
      ⟨hst.1, fun _ => ⟨hxe, by show sr = _; rw [Nat.sub_zero, ← List.range_eq_range', hR.nr]⟩, fun h => by cases h⟩
    refine Ok.bind (Ok.forUpTo (fun j s2 => InvR j s2) hR0 (fun j hj s2 hs2 => ?_)) (fun s2 hs2 => Ok.pure ⟨hs2.1, fun h => (by cases h), fun _ => ?_⟩)
    swap
    · show Agree T s2.x (evRes e X sel)
      rw [hsel]
      by_cases hd2 : s2.done = true
      · exact hs2.2.2 hd2
      · simp only [Bool.not_eq_true] at hd2
        obtain ⟨hxe2, hsr⟩ := hs2.2.1 hd2
        rw [Nat.sub_self] at hsr
        have : sr = none := hsr
        show Agree T s2.x (evRes e X sr)
        rw [this, hxe2]; exact agree_abs x
    by_cases hd2 : s2.done = true
    · rw [if_pos hd2]; exact Ok.pure ⟨hs2.1, fun h => (by rw [hd2] at h; cases h), hs2.2.2⟩
    rw [if_neg hd2]
    simp only [Bool.not_eq_true] at hd2
    obtain ⟨hxe2, hsr⟩ := hs2.2.1 hd2
    rw [range'_cons j T.nr hj] at hsr
    simp only [scanReactions] at hsr
    rw [arIndex_nat]
    refine Ok.bind (Vec.rd_nat g.ar _ (by rw [hP.ok.ar]; exact flat2_lt T.n T.nr i j hi hj)) (fun av hav => ?_)
    have havv : av = reactionProp e X i j := by rw [hav]; exact hP.ar i j hi hj
    rw [havv]
    by_cases hselj : r - st.cum < s2.cum + reactionProp e X i j
    · rw [if_pos hselj]
      rw [if_pos hselj] at hsr
      rw [hxe2]
      refine Ok.bind (applyReactionC_val hR x hx hi hj) (fun x' hx' => Ok.pure ⟨hx'.1, fun h => (by cases h), fun _ => ?_⟩)
      show Agree T x' (evRes e X sr)
      rw [hsr]; exact hx'.2
    · rw [if_neg hselj]
      rw [if_neg hselj] at hsr
      exact Ok.pure ⟨hs2.1, fun _ => ⟨hxe2, hsr⟩, fun h => by rw [hd2] at h; cases h⟩
  · rw [if_neg hreac]
    rw [if_neg hreac] at hsel
    refine Ok.bind (Vec.rd_nat g.a0d i (by rw [hP.ok.a0d]; exact hi)) (fun ad0 had0 => ?_)
    have had0v : ad0 = a0d e X i := by rw [had0]; exact hP.a0d i hi
    rw [had0v]
    by_cases hdiff : r < st.cum + a0r e X i + a0d e X i
    swap
    · rw [if_neg hdiff]
      rw [if_neg hdiff] at hsel
      exact Ok.pure ⟨hst.1, fun _ => ⟨hxe, hsel⟩, fun h => by rw [hd] at h; cases h⟩
    rw [if_pos hdiff]
    rw [if_pos hdiff] at hsel
    rw [hR.layout.nSlots i hi, ok_bind]
    let r2 := r - (st.cum + a0r e X i)
    let slots := e.topo.nSlots i
    let sd := scanDiffusion e X i r2 (speciesSlots e i) 0
    have hsd0 : speciesSlots e i = slotSuffix T.ns slots 0 := by
      unfold speciesSlots slotSuffix
      rw [Nat.sub_zero, ← List.range_eq_range', hR.ns]
    let InvS := fun (l : List (Nat × Nat)) (s2 : ScanSt) => s2.x.size = T.n * T.ns ∧
      (s2.done = false → s2.x = x ∧ sd = scanDiffusion e X i r2 l s2.cum ∧ s2.cum ≤ r2) ∧
      (s2.done = true → Agree T s2.x (evRes e X sd))
    have hS0 : InvS (slotSuffix T.ns slots 0) { cum := 0, done := false, x := st.x } :=
      ⟨hst.1, fun _ => ⟨hxe, by show sd = _; rw [← hsd0], by
        show (0 : Rat) ≤ r - (st.cum + a0r e X i)
        have := not_lt.mp hreac
        linarith⟩, fun h => by cases h⟩
    refine Ok.bind (Ok.forUpTo (fun s s2 => InvS (slotSuffix T.ns slots s) s2) hS0 (fun s hs s2 hs2 => ?_))
      (fun s2 hs2 => Ok.pure ⟨hs2.1, fun h => (by cases h), fun _ => ?_⟩)
    swap
    · show Agree T s2.x (evRes e X sel)
      rw [hsel]
      by_cases hd2 : s2.done = true
      · exact hs2.2.2 hd2
      · simp only [Bool.not_eq_true] at hd2
        obtain ⟨hxe2, hsdv, _⟩ := hs2.2.1 hd2
        have hnil : slotSuffix T.ns slots T.ns = [] := by unfold slotSuffix; simp
        rw [hnil] at hsdv
        have : sd = none := hsdv
        show Agree T s2.x (evRes e X sd)
        rw [this, hxe2]; exact agree_abs x
    rw [← slotSuffix2_zero T.ns slots s hs] at hs2
    refine Ok.mono (Ok.forUpTo (fun k s2 => InvS (slotSuffix2 T.ns slots s k) s2) hs2 (fun k hk s2 hs2 => ?_))
      (fun s2 hs2 => by rw [slotSuffix2_end] at hs2; exact hs2)
    by_cases hd2 : s2.done = true
    · rw [if_pos hd2]; exact Ok.pure ⟨hs2.1, fun h => (by rw [hd2] at h; cases h), hs2.2.2⟩
    rw [if_neg hd2]
    simp only [Bool.not_eq_true] at hd2
    obtain ⟨hxe2, hsdv, hle⟩ := hs2.2.1 hd2
    rw [slotSuffix2_cons T.ns slots s k hk] at hsdv
    simp only [scanDiffusion] at hsdv
    obtain ⟨a, ha, _⟩ := hR.layout.slot i s k hi hs hk
    rw [ha, ok_bind, hP.ad i s k hi hs hk a ha, ok_bind]
    by_cases hselk : r - (st.cum + a0r e X i) < s2.cum + diffPropSlot e X i s k
    · rw [if_pos hselk]
      rw [if_pos hselk] at hsdv
      -- the selected slot has a neighbour: its propensity is positive
      cases hnb : e.topo.nbr i k with
      | none =>
        exfalso
        have h0 : diffPropSlot e X i s k = 0 := by unfold diffPropSlot; rw [hnb]; rfl
        rw [h0] at hselk
        have : s2.cum ≤ r - (st.cum + a0r e X i) := hle
        linarith
      | some j =>
        rw [hxe2]
        refine Ok.bind (applyDiffusionC_val hR x hx hi hs hk hnb) (fun x' hx' => Ok.pure ⟨hx'.1, fun h => (by cases h), fun _ => ?_⟩)
        show Agree T x' (evRes e X sd)
        rw [hsdv]; exact hx'.2
    · rw [if_neg hselk]
      rw [if_neg hselk] at hsdv
      exact Ok.pure ⟨hs2.1, fun _ => ⟨hxe2, hsdv, not_lt.mp hselk⟩, fun h => by rw [hd2] at h; cases h⟩

end gil

/-- the scratch validity does not depend on which slot-count function describes the layout -/
theorem GilOK.transfer {T : Tabs} {L : Layout} {slots slots' : Nat → Nat} {nb nb' : Nat → Nat → Option Nat} {g : GilSt}
    (h1 : LayoutOK T L slots nb) (h2 : LayoutOK T L slots' nb') (hg : GilOK T L slots g) : GilOK T L slots' g := by
  refine ⟨hg.ar, hg.a0r, hg.a0d, fun i s k hi hs hk a ha => ?_⟩
  have : slots i = slots' i := by
    have a1 := h1.nSlots i hi
    rw [h2.nSlots i hi] at a1
    exact (Except.ok.inj a1).symm
  exact hg.ad i s k hi hs (by rw [this]; exact hk) a ha

/-- GILLESPIE (both layouts): `Iterate()` of `Gillespie3D` / `GillespieGraph` on the checked object is `gillespieStep`
of the core model, with `u1 = o.unif ucnt` the uniform draw and `Lg = o.logInv (ucnt+1)` the `log(1/u2)` draw:
total propensity 0 ↔ the core step is `none` (the object completes, the state is unchanged); otherwise the new state
and the new `dt` are those of the core step. -/
theorem gillespie_iterate_refines (o : Oracles) (S : CSim) (h : SimOK S) (e : EngIn) (hR : Refines e S.T S.L)
    (g : GilSt) (hsc : S.scratch = .gil g) (hnc : S.smp.complete = false) :
    Ok (S.iterate o) (fun r => SimOK r.1 ∧ Refines e r.1.T r.1.L ∧
      (a0 e (absState S.T.ns S.x) = 0 →
        gillespieStep e (absState S.T.ns S.x) (o.unif S.ucnt) (o.logInv (S.ucnt + 1)) = none ∧
        r.2 = false ∧ r.1.x = S.x ∧ r.1.smp.complete = true) ∧
      (a0 e (absState S.T.ns S.x) ≠ 0 →
        ∃ gs, gillespieStep e (absState S.T.ns S.x) (o.unif S.ucnt) (o.logInv (S.ucnt + 1)) = some gs ∧
          r.1.dt = gs.dt ∧ Agree r.1.T r.1.x gs.x ∧ r.1.ucnt = S.ucnt + 2)) := by
  unfold CSim.iterate
  rw [if_neg (by simp [hnc]), hsc]
  simp only []
  obtain ⟨slots, nb, hL, hscr⟩ := h.layout
  have hg : GilOK S.T S.L e.topo.nSlots g := by
    rw [hsc] at hscr
    cases hscr with
    | gil _ hg => exact hg.transfer hL hR.layout
  refine Ok.bind (computePropensities_val hR S.x h.x g hg) (fun g' hg' => ?_)
  rw [hg'.a0]
  by_cases h0 : a0 e (absState S.T.ns S.x) = 0
  · rw [if_pos h0]
    refine Ok.pure ⟨⟨h.tabs, ⟨_, _, hR.layout, .gil g' hg'.ok⟩, h.x, ⟨h.smp.ts, h.smp.recs, h.smp.recSize⟩, h.conds⟩, hR, fun _ => ⟨?_, rfl, rfl, rfl⟩, fun hne => absurd h0 hne⟩
    unfold gillespieStep
    simp [h0]
  · rw [if_neg h0]
    refine Ok.bind (drawAndApplyEvent_val hR S.x h.x g' hg' _) (fun x' hx' => ?_)
    refine Ok.mono (finishStep_fields S h x' hx'.1 _ (.gil g') ⟨_, _, hR.layout, .gil g' hg'.ok⟩ _) (fun r hr => ?_)
    obtain ⟨hok, hx, hT, hLe, hdt, _, hu⟩ := hr
    refine ⟨hok, by rw [hT, hLe]; exact hR, fun h00 => absurd h00 h0, fun _ => ?_⟩
    refine ⟨_, by unfold gillespieStep; simp only [beq_iff_eq, h0, if_false]; rfl, hdt, ?_⟩
    rw [hT, hx]
    exact ⟨hx'.2, hu⟩

end Strengths
