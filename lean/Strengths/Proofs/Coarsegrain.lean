/-
Helper lemmas for C16 (coarse-graining): the accumulation loops (`scatterAdd`), list maxima, what an
accepted call computed, the tests of `check_index_map_validity` as the documented rules.
-/
import Mathlib.Algebra.Order.Field.Rat
import Mathlib.Algebra.BigOperators.Group.List.Basic
import Mathlib.Tactic.Linarith
import Mathlib.Tactic.Ring
import Mathlib.Tactic.FieldSimp
import Strengths.Model.Coarsegrain
import Strengths.Proofs.Units

namespace Strengths
open Gen

/-- one step of the accumulation loops -/
def scatterStep (acc : List Rat) (p : Int × Rat) : List Rat :=
  if cgKeep p.1 then acc.modify p.1.toNat (· + p.2) else acc

theorem scatterAdd_eq (n : Nat) (pairs : List (Int × Rat)) :
    scatterAdd n pairs = pairs.foldl scatterStep (List.replicate n 0) := rfl

theorem scatterStep_length (acc : List Rat) (p : Int × Rat) : (scatterStep acc p).length = acc.length := by
  unfold scatterStep; split <;> simp

theorem foldl_scatter_length (pairs : List (Int × Rat)) (acc : List Rat) :
    (pairs.foldl scatterStep acc).length = acc.length := by
  induction pairs generalizing acc with
  | nil => rfl
  | cons p r ih => simp [List.foldl_cons, ih, scatterStep_length]

/-- contribution of the pairs that land in slot `k` -/
def slotSum (k : Nat) (pairs : List (Int × Rat)) : Rat :=
  ((pairs.filter fun p => cgKeep p.1 && p.1.toNat == k).map (·.2)).sum

theorem foldl_scatter_get (pairs : List (Int × Rat)) (acc : List Rat) (k : Nat) (hk : k < acc.length) :
    (pairs.foldl scatterStep acc)[k]'(by rw [foldl_scatter_length]; exact hk) = acc[k] + slotSum k pairs := by
  induction pairs generalizing acc with
  | nil => simp [slotSum]
  | cons p r ih =>
    simp only [List.foldl_cons]
    rw [ih (scatterStep acc p) (by rw [scatterStep_length]; exact hk)]
    unfold scatterStep slotSum
    by_cases h1 : cgKeep p.1 = true
    · by_cases h2 : p.1.toNat = k
      · simp [h1, h2, List.getElem_modify]; ring
      · have h2' : ¬ (k = p.1.toNat) := fun h => h2 h.symm
        simp [h1, h2, h2', List.getElem_modify]
    · simp [h1]

theorem scatterAdd_get (n : Nat) (pairs : List (Int × Rat)) (k : Nat) (hk : k < n) :
    (scatterAdd n pairs)[k]? = some (slotSum k pairs) := by
  have hlen : (scatterAdd n pairs).length = n := by rw [scatterAdd_eq, foldl_scatter_length]; simp
  rw [List.getElem?_eq_getElem (by omega)]
  simp only [scatterAdd_eq]
  rw [foldl_scatter_get pairs _ k (by simpa using hk)]
  simp

theorem sum_modify_add (l : List Rat) (k : Nat) (v : Rat) (hk : k < l.length) :
    (l.modify k (· + v)).sum = l.sum + v := by
  induction l generalizing k with
  | nil => simp at hk
  | cons a r ih =>
    cases k with
    | zero => simp [List.modify_cons]; ring
    | succ k =>
      simp only [List.length_cons, Nat.add_lt_add_iff_right] at hk
      simp [List.modify_cons, ih k hk]; ring

theorem foldl_scatter_sum (pairs : List (Int × Rat)) (acc : List Rat)
    (hr : ∀ p ∈ pairs, cgKeep p.1 = true → p.1.toNat < acc.length) :
    (pairs.foldl scatterStep acc).sum = acc.sum + ((pairs.filter fun p => cgKeep p.1).map (·.2)).sum := by
  induction pairs generalizing acc with
  | nil => simp
  | cons p r ih =>
    simp only [List.foldl_cons]
    rw [ih (scatterStep acc p) (fun q hq hk => by rw [scatterStep_length]; exact hr q (by simp [hq]) hk)]
    by_cases h1 : cgKeep p.1 = true
    · have := hr p (by simp) h1
      simp [scatterStep, h1, sum_modify_add _ _ _ this]; ring
    · simp [scatterStep, h1]

theorem scatterAdd_sum (n : Nat) (pairs : List (Int × Rat))
    (hr : ∀ p ∈ pairs, cgKeep p.1 = true → p.1.toNat < n) :
    (scatterAdd n pairs).sum = ((pairs.filter fun p => cgKeep p.1).map (·.2)).sum := by
  rw [scatterAdd_eq, foldl_scatter_sum pairs _ (by simpa using hr)]
  simp

theorem zip_replicate_filter (q : Int → Bool) (v : Rat) (l : List Int) :
    ((l.zip (List.replicate l.length v)).filter (fun p => q p.1)).map (·.2) = List.replicate (l.filter q).length v := by
  induction l with
  | nil => simp
  | cons a r ih =>
    simp only [List.length_cons, List.replicate_succ, List.zip_cons_cons, List.filter_cons]
    by_cases h : q a = true
    · simp [h, ih, List.replicate_succ]
    · simp [h, ih]

theorem foldl_max_ge (l : List Int) (a : Int) : a ≤ l.foldl max a ∧ ∀ x ∈ l, x ≤ l.foldl max a := by
  induction l generalizing a with
  | nil => simp
  | cons b r ih =>
    simp only [List.foldl_cons, List.mem_cons]
    obtain ⟨h1, h2⟩ := ih (max a b)
    refine ⟨le_trans (le_max_left a b) h1, ?_⟩
    intro x hx
    rcases hx with rfl | hx
    · exact le_trans (le_max_right a x) h1
    · exact h2 x hx

theorem listMax_ge {l : List Int} {m : Int} (h : listMax l = some m) : ∀ x ∈ l, x ≤ m := by
  cases l with
  | nil => simp [listMax] at h
  | cons a r =>
    simp only [listMax, Option.some.injEq] at h
    subst h
    intro x hx
    rcases List.mem_cons.1 hx with rfl | hx
    · exact (foldl_max_ge r x).1
    · exact (foldl_max_ge r a).2 x hx

/-- what an accepted `coarsegrainGrid` call computed -/
theorem coarsegrainGrid_ok {g : GridShape} {h : Rat} {uv ug : Sys} {envs : List Int} {im : List (Option Int)} {sp : CgSpace}
    (hok : coarsegrainGrid g h uv ug envs im = .ok sp) :
    (g.px || g.py || g.pz) = false ∧ checkIndexMap im envs = .ok () ∧
    sp.vols = scatterAdd ((listMax (im.filterMap id)).getD 0 + 1).toNat
      ((im.filterMap id).zip ((List.replicate g.size (h * h * h)).map (· * convFactor uv ug Dim.volume))) ∧
    sp.envs = scatterSet ((listMax (im.filterMap id)).getD 0 + 1).toNat ((im.filterMap id).zip envs) := by
  unfold coarsegrainGrid at hok
  split at hok
  · cases hok
  · rename_i hper
    simp only [gridToGraph] at hok
    split at hok
    · cases hok
    · rename_i hchk
      cases hok
      exact ⟨by simpa using hper, hchk, rfl, rfl⟩

/-- the five tests before the environment loop, as the documented rules -/
theorem checkIndexMap_ok_iff (im : List (Option Int)) (envs : List Int) :
    checkIndexMap im envs = .ok () ↔
      im.length = envs.length ∧ (∀ x ∈ im, x.isSome = true) ∧
      ∃ mx mn, listMax (im.filterMap id) = some mx ∧ listMin (im.filterMap id) = some mn ∧ -1 ≤ mn ∧ 0 ≤ mx ∧
        (∀ k : Nat, (k : Int) < mx → (k : Int) ∈ im.filterMap id) ∧
        envLoop ((im.filterMap id).zip envs) (List.replicate (mx + 1 - mn).toNat envSentinel) = .ok () := by
  unfold checkIndexMap
  constructor
  · intro h
    split at h
    · cases h
    · rename_i hlen
      split at h
      · cases h
      · rename_i hty
        dsimp only at h
        split at h
        · rename_i mx mn hmx hmn
          split at h
          · cases h
          · rename_i hmin
            split at h
            · cases h
            · rename_i hmax
              split at h
              · cases h
              · rename_i hpres
                refine ⟨?_, ?_, mx, mn, hmx, hmn, ?_, ?_, ?_, h⟩
                · simpa [imLenBad] using hlen
                · intro x hx
                  by_contra hc
                  exact hty (List.any_eq_true.2 ⟨x, hx, by simpa using hc⟩)
                · simpa [imMinBad] using hmin
                · simpa [imMaxBad] using hmax
                · intro k hk
                  simp only [imPresenceHi, imPresenceLo, Int.sub_zero, Int.zero_add, List.any_eq_true, List.mem_range,
                    Bool.not_eq_true', not_exists, not_and] at hpres
                  have := hpres k (by omega)
                  simpa using this
        · cases h
  · rintro ⟨hlen, hty, mx, mn, hmx, hmn, hmin, hmax, hpres, henv⟩
    have h1 : imLenBad (im.length : Int) (envs.length : Int) = false := by simp [imLenBad, hlen]
    have h2 : im.any Option.isNone = false := by
      rw [List.any_eq_false]
      intro x hx
      have := hty x hx
      cases x with
      | none => simp at this
      | some v => simp
    have h3 : imMinBad mn = false := by simp [imMinBad]; omega
    have h4 : imMaxBad mx = false := by simp [imMaxBad]; omega
    have h5 : (List.range (imPresenceHi mx - imPresenceLo mx).toNat).any
        (fun k => !(im.filterMap id).contains (imPresenceLo mx + (k : Int))) = false := by
      rw [List.any_eq_false]
      intro k hk
      simp only [imPresenceHi, imPresenceLo, Int.sub_zero, List.mem_range] at hk
      have := hpres k (by omega)
      simp only [imPresenceLo, Int.zero_add, Bool.not_eq_true']
      rw [List.contains_iff_mem.2 this]
      simp
    simp only [h1, h2, hmx, hmn, h3, h4, h5, Bool.false_eq_true, if_false]
    exact henv


theorem filterMap_id_length (im : List (Option Int)) (hty : ∀ x ∈ im, x.isSome = true) :
    (im.filterMap id).length = im.length := by
  induction im with
  | nil => rfl
  | cons a r ih =>
    have ha := hty a (by simp)
    have hr := ih (fun x hx => hty x (by simp [hx]))
    cases a with
    | none => simp at ha
    | some v =>
      rw [List.filterMap_cons]
      simp only [id, List.length_cons]
      exact congrArg (· + 1) hr

/-- number of retained cells -/
def keptCount (ims : List Int) : Nat := (ims.filter cgKeep).length

theorem cg_volume_aux {g : GridShape} {h : Rat} {uv ug : Sys} {envs : List Int} {im : List (Option Int)} {sp : CgSpace}
    (henv : envs.length = g.size) (hok : coarsegrainGrid g h uv ug envs im = .ok sp) :
    sp.vols.sum = (keptCount (im.filterMap id) : Rat) * (h * h * h * convFactor uv ug Dim.volume) := by
  obtain ⟨_, hchk, hv, _⟩ := coarsegrainGrid_ok hok
  obtain ⟨hlen, hty, mx, mn, hmx, hmn, hmin, hmax, hpres, _⟩ := (checkIndexMap_ok_iff im envs).1 hchk
  have hims : (im.filterMap id).length = g.size := by rw [← henv, ← hlen]; exact filterMap_id_length im hty
  rw [hv, scatterAdd_sum]
  · have : (List.replicate g.size (h * h * h)).map (· * convFactor uv ug Dim.volume)
        = List.replicate (im.filterMap id).length (h * h * h * convFactor uv ug Dim.volume) := by
      rw [hims]; simp
    rw [this, zip_replicate_filter cgKeep]
    simp [keptCount]
  · intro p hp hk
    have hmem : p.1 ∈ im.filterMap id := (List.of_mem_zip hp).1
    have hle := listMax_ge hmx p.1 hmem
    simp only [hmx, Option.getD_some]
    omega

def edgeKey (e : GEdge) : Int × Int := (e.i, e.j)

/-- invariant of the edge loop: endpoints ordered, no pair twice -/
def EdgesOk (acc : List GEdge) : Prop := (∀ o ∈ acc, o.i < o.j) ∧ (acc.map edgeKey).Nodup

theorem map_key_modify (acc : List GEdge) (k : Nat) (f : GEdge → GEdge) (hf : ∀ o, edgeKey (f o) = edgeKey o) :
    (acc.modify k f).map edgeKey = acc.map edgeKey := by
  induction acc generalizing k with
  | nil => simp
  | cons a r ih =>
    cases k with
    | zero => simp [List.modify_cons, hf]
    | succ k => simp [List.modify_cons, ih]

theorem addEdge_ok (im : List Int) (acc : List GEdge) (e : GEdge) (h : EdgesOk acc) : EdgesOk (addEdge im acc e) := by
  unfold addEdge
  dsimp only
  split
  · exact h
  · rename_i hij
    split
    · exact h
    · split
      · -- merge into the existing edge: keys unchanged
        have hk := map_key_modify acc (acc.findIdx fun o => o.i == min (im.getD e.i.toNat 0) (im.getD e.j.toNat 0) && o.j == max (im.getD e.i.toNat 0) (im.getD e.j.toNat 0))
          (fun o => { o with surface := o.surface + e.surface }) (fun o => rfl)
        refine ⟨?_, by rw [hk]; exact h.2⟩
        intro o ho
        have : edgeKey o ∈ (acc.modify _ fun o => { o with surface := o.surface + e.surface }).map edgeKey := List.mem_map_of_mem ho
        rw [hk] at this
        obtain ⟨o', ho', hkey⟩ := List.mem_map.1 this
        have := h.1 o' ho'
        simp only [edgeKey, Prod.mk.injEq] at hkey
        omega
      · rename_i hany
        have hne : im.getD e.i.toNat 0 ≠ im.getD e.j.toNat 0 := by simpa using hij
        refine ⟨?_, ?_⟩
        · intro o ho
          rcases List.mem_append.1 ho with ho | ho
          · exact h.1 o ho
          · simp only [List.mem_singleton] at ho
            subst ho
            simp only
            omega
        · rw [List.map_append, List.nodup_append]
          refine ⟨h.2, by simp, ?_⟩
          intro a ha b hb
          simp only [List.map_cons, List.map_nil, List.mem_singleton] at hb
          subst hb
          obtain ⟨o, ho, rfl⟩ := List.mem_map.1 ha
          intro heq
          apply hany
          rw [List.any_eq_true]
          refine ⟨o, ho, ?_⟩
          simp only [edgeKey, Prod.mk.injEq] at heq
          simp [heq.1, heq.2]

theorem foldl_addEdge_ok (im : List Int) (es : List GEdge) (acc : List GEdge) (h : EdgesOk acc) :
    EdgesOk (es.foldl (addEdge im) acc) := by
  induction es generalizing acc with
  | nil => exact h
  | cons e r ih => exact ih _ (addEdge_ok im acc e h)

theorem coarsegrainGrid_edges {g : GridShape} {h : Rat} {uv ug : Sys} {envs : List Int} {im : List (Option Int)} {sp : CgSpace}
    (hok : coarsegrainGrid g h uv ug envs im = .ok sp) :
    sp.edges.map edgeKey = ((gridToGraph g h envs).edges.foldl (addEdge (im.filterMap id)) []).map edgeKey := by
  unfold coarsegrainGrid at hok
  split at hok
  · cases hok
  · simp only [] at hok
    split at hok
    · cases hok
    · cases hok
      simp only [List.map_map]
      rfl

theorem cg_edges_ok {g : GridShape} {h : Rat} {uv ug : Sys} {envs : List Int} {im : List (Option Int)} {sp : CgSpace}
    (hok : coarsegrainGrid g h uv ug envs im = .ok sp) :
    (∀ e ∈ sp.edges, e.i < e.j) ∧ (sp.edges.map edgeKey).Nodup := by
  have hk := coarsegrainGrid_edges hok
  have hinv := foldl_addEdge_ok (im.filterMap id) (gridToGraph g h envs).edges [] ⟨by simp, by simp⟩
  refine ⟨?_, by rw [hk]; exact hinv.2⟩
  intro e he
  have : edgeKey e ∈ sp.edges.map edgeKey := List.mem_map_of_mem he
  rw [hk] at this
  obtain ⟨o, ho, hkey⟩ := List.mem_map.1 this
  have := hinv.1 o ho
  simp only [edgeKey, Prod.mk.injEq] at hkey
  omega

end Strengths
