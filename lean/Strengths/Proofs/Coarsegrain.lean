/-
Helper lemmas for C16 (coarse-graining): the accumulation loops (`scatterAdd`), list maxima, what an
accepted call computed, the tests of `check_index_map_validity` as the documented rules.
-/
import Mathlib.Algebra.Order.Field.Rat
import Mathlib.Algebra.BigOperators.Group.List.Basic
import Mathlib.Tactic.Linarith
import Mathlib.Tactic.Ring
import Mathlib.Tactic.FieldSimp
import Mathlib.Data.List.Nodup
import Strengths.Model.Coarsegrain
import Strengths.Proofs.Units
import Strengths.Proofs.Trajectory

namespace Strengths
open Gen

/-- one step of the accumulation loops -/
def scatterStep (acc : List Rat) (p : Int × Rat) : List Rat :=
  if cgKeep p.1 then acc.modify p.1.toNat (· + p.2) else acc

theorem scatterAdd_eq (n : Nat) (pairs : List (Int × Rat)) :
    scatterAdd n pairs = pairs.foldl scatterStep (List.replicate n 0) := rfl

theorem scatterStep_length (acc : List Rat) (p : Int × Rat) : (scatterStep acc p).length = acc.length := by
  unfold scatterStep; split <;> simp

theorem foldl_scatter_length (pairs : List (Int × Rat)) (acc : List Rat) :
    (pairs.foldl scatterStep acc).length = acc.length := by
  induction pairs generalizing acc with
  | nil => rfl
  | cons p r ih => simp [List.foldl_cons, ih, scatterStep_length]

/-- contribution of the pairs that land in slot `k` -/
def slotSum (k : Nat) (pairs : List (Int × Rat)) : Rat :=
  ((pairs.filter fun p => cgKeep p.1 && p.1.toNat == k).map (·.2)).sum

theorem foldl_scatter_get (pairs : List (Int × Rat)) (acc : List Rat) (k : Nat) (hk : k < acc.length) :
    (pairs.foldl scatterStep acc)[k]'(by rw [foldl_scatter_length]; exact hk) = acc[k] + slotSum k pairs := by
  induction pairs generalizing acc with
  | nil => simp [slotSum]
  | cons p r ih =>
    simp only [List.foldl_cons]
    rw [ih (scatterStep acc p) (by rw [scatterStep_length]; exact hk)]
    unfold scatterStep slotSum
    by_cases h1 : cgKeep p.1 = true
    · by_cases h2 : p.1.toNat = k
      · simp [h1, h2, List.getElem_modify]; ring
      · have h2' : ¬ (k = p.1.toNat) := fun h => h2 h.symm
        simp [h1, h2, h2', List.getElem_modify]
    · simp [h1]

theorem scatterAdd_get (n : Nat) (pairs : List (Int × Rat)) (k : Nat) (hk : k < n) :
    (scatterAdd n pairs)[k]? = some (slotSum k pairs) := by
  have hlen : (scatterAdd n pairs).length = n := by rw [scatterAdd_eq, foldl_scatter_length]; simp
  rw [List.getElem?_eq_getElem (by omega)]
  simp only [scatterAdd_eq]
  rw [foldl_scatter_get pairs _ k (by simpa using hk)]
  simp

theorem sum_modify_add (l : List Rat) (k : Nat) (v : Rat) (hk : k < l.length) :
    (l.modify k (· + v)).sum = l.sum + v := by
  induction l generalizing k with
  | nil => simp at hk
  | cons a r ih =>
    cases k with
    | zero => simp [List.modify_cons]; ring
    | succ k =>
      simp only [List.length_cons, Nat.add_lt_add_iff_right] at hk
      simp [List.modify_cons, ih k hk]; ring

theorem foldl_scatter_sum (pairs : List (Int × Rat)) (acc : List Rat)
    (hr : ∀ p ∈ pairs, cgKeep p.1 = true → p.1.toNat < acc.length) :
    (pairs.foldl scatterStep acc).sum = acc.sum + ((pairs.filter fun p => cgKeep p.1).map (·.2)).sum := by
  induction pairs generalizing acc with
  | nil => simp
  | cons p r ih =>
    simp only [List.foldl_cons]
    rw [ih (scatterStep acc p) (fun q hq hk => by rw [scatterStep_length]; exact hr q (by simp [hq]) hk)]
    by_cases h1 : cgKeep p.1 = true
    · have := hr p (by simp) h1
      simp [scatterStep, h1, sum_modify_add _ _ _ this]; ring
    · simp [scatterStep, h1]

theorem scatterAdd_sum (n : Nat) (pairs : List (Int × Rat))
    (hr : ∀ p ∈ pairs, cgKeep p.1 = true → p.1.toNat < n) :
    (scatterAdd n pairs).sum = ((pairs.filter fun p => cgKeep p.1).map (·.2)).sum := by
  rw [scatterAdd_eq, foldl_scatter_sum pairs _ (by simpa using hr)]
  simp

theorem zip_replicate_filter (q : Int → Bool) (v : Rat) (l : List Int) :
    ((l.zip (List.replicate l.length v)).filter (fun p => q p.1)).map (·.2) = List.replicate (l.filter q).length v := by
  induction l with
  | nil => simp
  | cons a r ih =>
    simp only [List.length_cons, List.replicate_succ, List.zip_cons_cons, List.filter_cons]
    by_cases h : q a = true
    · simp [h, ih, List.replicate_succ]
    · simp [h, ih]

theorem foldl_max_ge (l : List Int) (a : Int) : a ≤ l.foldl max a ∧ ∀ x ∈ l, x ≤ l.foldl max a := by
  induction l generalizing a with
  | nil => simp
  | cons b r ih =>
    simp only [List.foldl_cons, List.mem_cons]
    obtain ⟨h1, h2⟩ := ih (max a b)
    refine ⟨le_trans (le_max_left a b) h1, ?_⟩
    intro x hx
    rcases hx with rfl | hx
    · exact le_trans (le_max_right a x) h1
    · exact h2 x hx

theorem listMax_ge {l : List Int} {m : Int} (h : listMax l = some m) : ∀ x ∈ l, x ≤ m := by
  cases l with
  | nil => simp [listMax] at h
  | cons a r =>
    simp only [listMax, Option.some.injEq] at h
    subst h
    intro x hx
    rcases List.mem_cons.1 hx with rfl | hx
    · exact (foldl_max_ge r x).1
    · exact (foldl_max_ge r a).2 x hx

/-- what an accepted `coarsegrainGrid` call computed -/
theorem coarsegrainGrid_ok {g : GridShape} {h : Rat} {uv ug : Sys} {envs : List Int} {im : List (Option Int)} {sp : CgSpace}
    (hok : coarsegrainGrid g h uv ug envs im = .ok sp) :
    (g.px || g.py || g.pz) = false ∧ checkIndexMap im envs = .ok () ∧
    sp.vols = scatterAdd ((listMax (im.filterMap id)).getD 0 + 1).toNat
      ((im.filterMap id).zip ((List.replicate g.size (h * h * h)).map (· * convFactor uv ug Dim.volume))) ∧
    sp.envs = scatterSet ((listMax (im.filterMap id)).getD 0 + 1).toNat ((im.filterMap id).zip envs) := by
  unfold coarsegrainGrid at hok
  split at hok
  · cases hok
  · rename_i hper
    simp only [cgGridToGraph] at hok
    split at hok
    · cases hok
    · rename_i hchk
      cases hok
      exact ⟨by simpa using hper, hchk, rfl, rfl⟩

/-- the five tests before the environment loop, as the documented rules -/
theorem checkIndexMap_ok_iff (im : List (Option Int)) (envs : List Int) :
    checkIndexMap im envs = .ok () ↔
      im.length = envs.length ∧ (∀ x ∈ im, x.isSome = true) ∧
      ∃ mx mn, listMax (im.filterMap id) = some mx ∧ listMin (im.filterMap id) = some mn ∧ -1 ≤ mn ∧ 0 ≤ mx ∧
        (∀ k : Nat, (k : Int) < mx → (k : Int) ∈ im.filterMap id) ∧
        envLoop ((im.filterMap id).zip envs) (List.replicate (mx + 1 - mn).toNat envSentinel) = .ok () := by
  unfold checkIndexMap
  constructor
  · intro h
    split at h
    · cases h
    · rename_i hlen
      split at h
      · cases h
      · rename_i hty
        dsimp only at h
        split at h
        · rename_i mx mn hmx hmn
          split at h
          · cases h
          · rename_i hmin
            split at h
            · cases h
            · rename_i hmax
              split at h
              · cases h
              · rename_i hpres
                refine ⟨?_, ?_, mx, mn, hmx, hmn, ?_, ?_, ?_, h⟩
                · simpa [imLenBad] using hlen
                · intro x hx
                  by_contra hc
                  exact hty (List.any_eq_true.2 ⟨x, hx, by simpa using hc⟩)
                · simpa [imMinBad] using hmin
                · simpa [imMaxBad] using hmax
                · intro k hk
                  simp only [imPresenceHi, imPresenceLo, Int.sub_zero, Int.zero_add, List.any_eq_true, List.mem_range,
                    Bool.not_eq_true', not_exists, not_and] at hpres
                  have := hpres k (by omega)
                  simpa using this
        · cases h
  · rintro ⟨hlen, hty, mx, mn, hmx, hmn, hmin, hmax, hpres, henv⟩
    have h1 : imLenBad (im.length : Int) (envs.length : Int) = false := by simp [imLenBad, hlen]
    have h2 : im.any Option.isNone = false := by
      rw [List.any_eq_false]
      intro x hx
      have := hty x hx
      cases x with
      | none => simp at this
      | some v => simp
    have h3 : imMinBad mn = false := by simp [imMinBad]; omega
    have h4 : imMaxBad mx = false := by simp [imMaxBad]; omega
    have h5 : (List.range (imPresenceHi mx - imPresenceLo mx).toNat).any
        (fun k => !(im.filterMap id).contains (imPresenceLo mx + (k : Int))) = false := by
      rw [List.any_eq_false]
      intro k hk
      simp only [imPresenceHi, imPresenceLo, Int.sub_zero, List.mem_range] at hk
      have := hpres k (by omega)
      simp only [imPresenceLo, Int.zero_add, Bool.not_eq_true']
      rw [List.contains_iff_mem.2 this]
      simp
    simp only [h1, h2, hmx, hmn, h3, h4, h5, Bool.false_eq_true, if_false]
    exact henv


theorem filterMap_id_length (im : List (Option Int)) (hty : ∀ x ∈ im, x.isSome = true) :
    (im.filterMap id).length = im.length := by
  induction im with
  | nil => rfl
  | cons a r ih =>
    have ha := hty a (by simp)
    have hr := ih (fun x hx => hty x (by simp [hx]))
    cases a with
    | none => simp at ha
    | some v =>
      rw [List.filterMap_cons]
      simp only [id, List.length_cons]
      exact congrArg (· + 1) hr

/-- number of retained cells -/
def keptCount (ims : List Int) : Nat := (ims.filter cgKeep).length

theorem cg_volume_aux {g : GridShape} {h : Rat} {uv ug : Sys} {envs : List Int} {im : List (Option Int)} {sp : CgSpace}
    (henv : envs.length = g.size) (hok : coarsegrainGrid g h uv ug envs im = .ok sp) :
    sp.vols.sum = (keptCount (im.filterMap id) : Rat) * (h * h * h * convFactor uv ug Dim.volume) := by
  obtain ⟨_, hchk, hv, _⟩ := coarsegrainGrid_ok hok
  obtain ⟨hlen, hty, mx, mn, hmx, hmn, hmin, hmax, hpres, _⟩ := (checkIndexMap_ok_iff im envs).1 hchk
  have hims : (im.filterMap id).length = g.size := by rw [← henv, ← hlen]; exact filterMap_id_length im hty
  rw [hv, scatterAdd_sum]
  · have : (List.replicate g.size (h * h * h)).map (· * convFactor uv ug Dim.volume)
        = List.replicate (im.filterMap id).length (h * h * h * convFactor uv ug Dim.volume) := by
      rw [hims]; simp
    rw [this, zip_replicate_filter cgKeep]
    simp [keptCount]
  · intro p hp hk
    have hmem : p.1 ∈ im.filterMap id := (List.of_mem_zip hp).1
    have hle := listMax_ge hmx p.1 hmem
    simp only [hmx, Option.getD_some]
    omega

def edgeKey (e : CgEdge) : Int × Int := (e.i, e.j)

/-- invariant of the edge loop: endpoints ordered, no pair twice -/
def EdgesOk (acc : List CgEdge) : Prop := (∀ o ∈ acc, o.i < o.j) ∧ (acc.map edgeKey).Nodup

theorem map_key_modify (acc : List CgEdge) (k : Nat) (f : CgEdge → CgEdge) (hf : ∀ o, edgeKey (f o) = edgeKey o) :
    (acc.modify k f).map edgeKey = acc.map edgeKey := by
  induction acc generalizing k with
  | nil => simp
  | cons a r ih =>
    cases k with
    | zero => simp [List.modify_cons, hf]
    | succ k => simp [List.modify_cons, ih]

theorem addEdge_ok (im : List Int) (acc : List CgEdge) (e : CgEdge) (h : EdgesOk acc) : EdgesOk (addEdge im acc e) := by
  unfold addEdge
  dsimp only
  split
  · exact h
  · rename_i hij
    split
    · exact h
    · split
      · -- merge into the existing edge: keys unchanged
        have hk := map_key_modify acc (acc.findIdx fun o => o.i == min (im.getD e.i.toNat 0) (im.getD e.j.toNat 0) && o.j == max (im.getD e.i.toNat 0) (im.getD e.j.toNat 0))
          (fun o => { o with surface := o.surface + e.surface }) (fun o => rfl)
        refine ⟨?_, by rw [hk]; exact h.2⟩
        intro o ho
        have : edgeKey o ∈ (acc.modify _ fun o => { o with surface := o.surface + e.surface }).map edgeKey := List.mem_map_of_mem ho
        rw [hk] at this
        obtain ⟨o', ho', hkey⟩ := List.mem_map.1 this
        have := h.1 o' ho'
        simp only [edgeKey, Prod.mk.injEq] at hkey
        omega
      · rename_i hany
        have hne : im.getD e.i.toNat 0 ≠ im.getD e.j.toNat 0 := by simpa using hij
        refine ⟨?_, ?_⟩
        · intro o ho
          rcases List.mem_append.1 ho with ho | ho
          · exact h.1 o ho
          · simp only [List.mem_singleton] at ho
            subst ho
            simp only
            omega
        · rw [List.map_append, List.nodup_append]
          refine ⟨h.2, by simp, ?_⟩
          intro a ha b hb
          simp only [List.map_cons, List.map_nil, List.mem_singleton] at hb
          subst hb
          obtain ⟨o, ho, rfl⟩ := List.mem_map.1 ha
          intro heq
          apply hany
          rw [List.any_eq_true]
          refine ⟨o, ho, ?_⟩
          simp only [edgeKey, Prod.mk.injEq] at heq
          simp [heq.1, heq.2]

theorem foldl_addEdge_ok (im : List Int) (es : List CgEdge) (acc : List CgEdge) (h : EdgesOk acc) :
    EdgesOk (es.foldl (addEdge im) acc) := by
  induction es generalizing acc with
  | nil => exact h
  | cons e r ih => exact ih _ (addEdge_ok im acc e h)

theorem coarsegrainGrid_edges {g : GridShape} {h : Rat} {uv ug : Sys} {envs : List Int} {im : List (Option Int)} {sp : CgSpace}
    (hok : coarsegrainGrid g h uv ug envs im = .ok sp) :
    sp.edges.map edgeKey = ((cgGridToGraph g h envs).edges.foldl (addEdge (im.filterMap id)) []).map edgeKey := by
  unfold coarsegrainGrid at hok
  split at hok
  · cases hok
  · simp only [] at hok
    split at hok
    · cases hok
    · cases hok
      simp only [List.map_map]
      rfl

theorem cg_edges_ok {g : GridShape} {h : Rat} {uv ug : Sys} {envs : List Int} {im : List (Option Int)} {sp : CgSpace}
    (hok : coarsegrainGrid g h uv ug envs im = .ok sp) :
    (∀ e ∈ sp.edges, e.i < e.j) ∧ (sp.edges.map edgeKey).Nodup := by
  have hk := coarsegrainGrid_edges hok
  have hinv := foldl_addEdge_ok (im.filterMap id) (cgGridToGraph g h envs).edges [] ⟨by simp, by simp⟩
  refine ⟨?_, by rw [hk]; exact hinv.2⟩
  intro e he
  have : edgeKey e ∈ sp.edges.map edgeKey := List.mem_map_of_mem he
  rw [hk] at this
  obtain ⟨o, ho, hkey⟩ := List.mem_map.1 this
  have := hinv.1 o ho
  simp only [edgeKey, Prod.mk.injEq] at hkey
  omega


/-! ## aggregation of states and chemostat flags -/

theorem slotSum_nil (k : Nat) : slotSum k [] = 0 := by simp [slotSum]

theorem slotSum_cons (k : Nat) (p : Int × Rat) (r : List (Int × Rat)) :
    slotSum k (p :: r) = (if cgKeep p.1 && p.1.toNat == k then p.2 else 0) + slotSum k r := by
  unfold slotSum
  by_cases h : (cgKeep p.1 && p.1.toNat == k) = true
  · simp [List.filter_cons, h]
  · simp [List.filter_cons, h]

theorem slotSum_append (k : Nat) (a b : List (Int × Rat)) : slotSum k (a ++ b) = slotSum k a + slotSum k b := by
  induction a with
  | nil => simp [slotSum_nil]
  | cons p r ih => simp [slotSum_cons, ih]; ring

theorem slotSum_flatMap {α} (k : Nat) (l : List α) (f : α → List (Int × Rat)) :
    slotSum k (l.flatMap f) = (l.map fun x => slotSum k (f x)).sum := by
  induction l with
  | nil => simp [slotSum_nil]
  | cons a r ih => simp [List.flatMap_cons, slotSum_append, ih]

theorem slotSum_map {α} (k : Nat) (l : List α) (f : α → Int × Rat) :
    slotSum k (l.map f) = (l.map fun x => if cgKeep (f x).1 && (f x).1.toNat == k then (f x).2 else 0).sum := by
  induction l with
  | nil => simp [slotSum_nil]
  | cons a r ih => simp [slotSum_cons, ih]

theorem sum_range_ite_eq (n s : Nat) (hs : s < n) (f : Nat → Rat) :
    ((List.range n).map fun s' => if s' = s then f s' else 0).sum = f s := by
  induction n with
  | zero => omega
  | succ n ih =>
    rw [List.range_succ, List.map_append, List.sum_append]
    by_cases h : s = n
    · subst h
      have : ((List.range s).map fun s' => if s' = s then f s' else 0) = (List.range s).map fun _ => (0 : Rat) := by
        apply List.map_congr_left
        intro a ha
        have := List.mem_range.1 ha
        rw [if_neg (by omega)]
      rw [this]
      simp
    · rw [ih (by omega)]
      simp
      intro h'; omega

theorem sum_range_ite_none (n : Nat) (p : Nat → Prop) [DecidablePred p] (f : Nat → Rat) (h : ∀ s', s' < n → ¬ p s') :
    ((List.range n).map fun s' => if p s' then f s' else 0).sum = 0 := by
  have : ((List.range n).map fun s' => if p s' then f s' else 0) = (List.range n).map fun _ => (0 : Rat) := by
    apply List.map_congr_left
    intro a ha
    rw [if_neg (h a (List.mem_range.1 ha))]
  rw [this]; simp

/-- `a·m + b` with `b < m` determines `a` and `b` -/
theorem mul_add_inj {a b c d m : Nat} (hb : b < m) (hd : d < m) (h : a * m + b = c * m + d) : a = c ∧ b = d := by
  have h1 : (a * m + b) / m = a := by
    rw [Nat.add_comm, Nat.add_mul_div_right _ _ (by omega), Nat.div_eq_of_lt hb]; simp
  have h2 : (c * m + d) / m = c := by
    rw [Nat.add_comm, Nat.add_mul_div_right _ _ (by omega), Nat.div_eq_of_lt hd]; simp
  have hac : a = c := by rw [← h1, ← h2, h]
  subst hac
  exact ⟨rfl, by omega⟩

/-- every entry of the index map is `-1` or a group index below `ncg` -/
def InRange (ncg : Nat) (ims : List Int) : Prop := ∀ gI ∈ ims, gI = -1 ∨ (0 ≤ gI ∧ gI < ncg)

theorem inner_slot (ns n ncg : Nat) (src : List Rat) (gI : Int) (i s g : Nat) (hs : s < ns) (hg : g < ncg)
    (hr : gI = -1 ∨ (0 ≤ gI ∧ gI < ncg)) :
    slotSum (s * ncg + g) ((List.range ns).map fun (s' : Nat) =>
        ((if cgKeep gI then cgStateDst ncg s' gI else -1), src.getD (cgStateSrc n s' i).toNat 0))
      = if gI = (g : Int) then src.getD (s * n + i) 0 else 0 := by
  rw [slotSum_map]
  rcases hr with hm | ⟨h0, hlt⟩
  · subst hm
    have hk : cgKeep (-1) = false := by decide
    rw [if_neg (by omega)]
    apply sum_range_ite_none _ (fun s' => (cgKeep (if cgKeep (-1) = true then cgStateDst (↑ncg) (↑s') (-1) else -1) &&
      (if cgKeep (-1) = true then cgStateDst (↑ncg) (↑s') (-1) else -1).toNat == s * ncg + g) = true)
    intro s' _
    simp [hk]
  · have hk : cgKeep gI = true := by simp [cgKeep]; omega
    obtain ⟨gn, rfl⟩ := Int.eq_ofNat_of_zero_le h0
    have hgn : gn < ncg := by exact_mod_cast hlt
    have hd : ∀ s' : Nat, cgStateDst (ncg : Int) (s' : Int) (gn : Int) = ((s' * ncg + gn : Nat) : Int) := by
      intro s'; simp [cgStateDst]
    have hkd : ∀ s' : Nat, cgKeep (((s' * ncg + gn : Nat)) : Int) = true := by
      intro s'
      have h := Int.natCast_nonneg (s' * ncg + gn)
      simp only [cgKeep, bne_iff_ne, ne_eq]
      omega
    simp only [hk, if_true, hd, hkd, Bool.true_and, Int.toNat_natCast, beq_iff_eq]
    by_cases hgg : gn = g
    · subst hgg
      rw [if_pos rfl]
      have : ∀ s' : Nat, (s' * ncg + gn = s * ncg + gn) ↔ s' = s := by
        intro s'
        constructor
        · intro h; exact (mul_add_inj hgn hgn h).1
        · intro h; rw [h]
      simp only [this]
      rw [sum_range_ite_eq ns s hs]
      simp [cgStateSrc]
      congr 1
    · rw [if_neg (by exact_mod_cast hgg)]
      apply sum_range_ite_none
      intro s' _ h
      exact hgg (mul_add_inj hgn hg h).2

theorem aggregate_get (ns n ncg : Nat) (ims : List Int) (src : List Rat) (s g : Nat) (hs : s < ns) (hg : g < ncg)
    (hr : InRange ncg ims) :
    (aggregate ns n ncg ims src)[s * ncg + g]? =
      some ((ims.zipIdx.map fun p => if p.1 = (g : Int) then src.getD (s * n + p.2) 0 else 0).sum) := by
  unfold aggregate
  have hk : s * ncg + g < ncg * ns := by
    have := mul_add_lt hs hg
    rw [Nat.mul_comm ncg ns]; exact this
  rw [scatterAdd_get _ _ _ hk, slotSum_flatMap]
  congr 2
  apply List.map_congr_left
  intro p hp
  obtain ⟨gI, i⟩ := p
  have hmem : gI ∈ ims := List.fst_mem_of_mem_zipIdx hp
  exact inner_slot ns n ncg src gI i s g hs hg (hr gI hmem)

theorem sum_map_sum_comm {α β} (l1 : List α) (l2 : List β) (f : α → β → Rat) :
    (l1.map fun a => (l2.map fun b => f a b).sum).sum = (l2.map fun b => (l1.map fun a => f a b).sum).sum := by
  induction l1 with
  | nil => simp
  | cons a r ih =>
    simp only [List.map_cons, List.sum_cons, ih]
    rw [← List.sum_map_add]

theorem sum_range_ite_cast (ncg : Nat) (x : Int) (v : Rat) :
    ((List.range ncg).map fun (g : Nat) => if x = (g : Int) then v else 0).sum = if 0 ≤ x ∧ x < ncg then v else 0 := by
  by_cases h : 0 ≤ x ∧ x < ncg
  · obtain ⟨gn, rfl⟩ := Int.eq_ofNat_of_zero_le h.1
    have hgn : gn < ncg := by exact_mod_cast h.2
    rw [if_pos h]
    have : (fun (g : Nat) => if (gn : Int) = (g : Int) then v else 0) = fun g => if g = gn then (fun _ => v) g else 0 := by
      funext g
      by_cases hg : g = gn
      · simp [hg]
      · have : ¬ ((gn : Int) = (g : Int)) := by
          intro h
          exact hg (by exact_mod_cast h.symm)
        simp [hg, this]
    rw [this, sum_range_ite_eq ncg gn hgn]
  · rw [if_neg h]
    apply sum_range_ite_none
    intro g hg hx
    apply h
    subst hx
    exact ⟨Int.natCast_nonneg g, by exact_mod_cast hg⟩

/-- per species: the coarse amounts add up to the fine amounts of the retained cells -/
theorem aggregate_species_total (ns n ncg : Nat) (ims : List Int) (src : List Rat) (s : Nat) (hs : s < ns)
    (hr : InRange ncg ims) :
    ((List.range ncg).map fun g => (aggregate ns n ncg ims src).getD (s * ncg + g) 0).sum =
      (ims.zipIdx.map fun p => if cgKeep p.1 then src.getD (s * n + p.2) 0 else 0).sum := by
  have h1 : ((List.range ncg).map fun g => (aggregate ns n ncg ims src).getD (s * ncg + g) 0) =
      (List.range ncg).map fun (g : Nat) => (ims.zipIdx.map fun p => if p.1 = (g : Int) then src.getD (s * n + p.2) 0 else 0).sum := by
    apply List.map_congr_left
    intro g hg
    rw [List.getD_eq_getElem?_getD, aggregate_get ns n ncg ims src s g hs (List.mem_range.1 hg) hr]
    rfl
  rw [h1, sum_map_sum_comm]
  congr 1
  apply List.map_congr_left
  intro p hp
  rw [sum_range_ite_cast]
  have hmem : p.1 ∈ ims := List.fst_mem_of_mem_zipIdx hp
  rcases hr p.1 hmem with hm | ⟨h0, hlt⟩
  · have : cgKeep p.1 = false := by rw [hm]; decide
    rw [this, if_neg (by omega)]
    simp
  · have : cgKeep p.1 = true := by simp [cgKeep]; omega
    rw [this, if_pos ⟨h0, hlt⟩]
    simp

theorem sum_map_intCast (l : List Int) : (l.map fun (c : Int) => (c : Rat)).sum = ((l.sum : Int) : Rat) := by
  induction l with
  | nil => simp
  | cons a r ih => simp [ih]

theorem clampChem_intCast (m : Int) (h : 0 ≤ m) : clampChem (m : Rat) = if 1 ≤ m then 1 else 0 := by
  unfold clampChem
  rw [Rat.floor_intCast]
  have hneg : ¬ ((m : Rat) < 0 ∧ ((m : Int) : Rat) ≠ (m : Rat)) := fun hc => hc.2 rfl
  rw [if_neg hneg]
  by_cases h1 : 1 ≤ m
  · rw [if_pos h1]
    by_cases h2 : (m : Rat) ≤ 1
    · have : m ≤ 1 := by exact_mod_cast h2
      rw [if_pos h2]; omega
    · rw [if_neg h2]
  · rw [if_neg h1]
    have hm : m = 0 := by omega
    subst hm
    simp

theorem sum_nonneg_ge_one (l : List Int) (h : ∀ c ∈ l, 0 ≤ c) : (0 ≤ l.sum) ∧ (1 ≤ l.sum ↔ ∃ c ∈ l, 1 ≤ c) := by
  induction l with
  | nil => simp
  | cons a r ih =>
    obtain ⟨h0, h1⟩ := ih (fun c hc => h c (by simp [hc]))
    have ha := h a (by simp)
    simp only [List.sum_cons, List.mem_cons, exists_eq_or_imp]
    refine ⟨by omega, ?_⟩
    constructor
    · intro hs
      by_cases h2 : 1 ≤ a
      · exact Or.inl h2
      · exact Or.inr (h1.1 (by omega))
    · rintro (h2 | h2)
      · omega
      · have := h1.2 h2; omega

theorem getD_map_intCast (l : List Int) (i : Nat) : (l.map fun (c : Int) => (c : Rat)).getD i 0 = ((l.getD i 0 : Int) : Rat) := by
  simp only [List.getD_eq_getElem?_getD, List.getElem?_map]
  cases l[i]? <;> simp

/-- `int(min(Σ flags, 1))` over non-negative flags is "any member flagged" -/
theorem clamp_sum_any {α} (l : List α) (f : α → Int) (h : ∀ a ∈ l, 0 ≤ f a) :
    clampChem ((l.map fun a => ((f a : Int) : Rat)).sum) = if ∃ a ∈ l, 1 ≤ f a then 1 else 0 := by
  have : (l.map fun a => ((f a : Int) : Rat)) = (l.map f).map fun (c : Int) => (c : Rat) := by simp
  rw [this, sum_map_intCast]
  have hn := sum_nonneg_ge_one (l.map f) (by
    intro c hc
    obtain ⟨a, ha, rfl⟩ := List.mem_map.1 hc
    exact h a ha)
  rw [clampChem_intCast _ hn.1]
  by_cases hx : ∃ a ∈ l, 1 ≤ f a
  · rw [if_pos hx, if_pos]
    obtain ⟨a, ha, h1⟩ := hx
    exact hn.2.2 ⟨f a, List.mem_map_of_mem ha, h1⟩
  · rw [if_neg hx, if_neg]
    intro hs
    obtain ⟨c, hc, h1⟩ := hn.2.1 hs
    obtain ⟨a, ha, rfl⟩ := List.mem_map.1 hc
    exact hx ⟨a, ha, h1⟩


/-! ## the coarse system -/

theorem foldl_min_le (l : List Int) (a : Int) : l.foldl min a ≤ a ∧ ∀ x ∈ l, l.foldl min a ≤ x := by
  induction l generalizing a with
  | nil => simp
  | cons b r ih =>
    simp only [List.foldl_cons, List.mem_cons]
    obtain ⟨h1, h2⟩ := ih (min a b)
    refine ⟨le_trans h1 (min_le_left a b), ?_⟩
    intro x hx
    rcases hx with rfl | hx
    · exact le_trans h1 (min_le_right a x)
    · exact h2 x hx

theorem listMin_le {l : List Int} {m : Int} (h : listMin l = some m) : ∀ x ∈ l, m ≤ x := by
  cases l with
  | nil => simp [listMin] at h
  | cons a r =>
    simp only [listMin, Option.some.injEq] at h
    subst h
    intro x hx
    rcases List.mem_cons.1 hx with rfl | hx
    · exact (foldl_min_le r x).1
    · exact (foldl_min_le r a).2 x hx

/-- number of coarse nodes of an accepted map -/
def nGroups (im : List (Option Int)) : Nat := ((listMax (im.filterMap id)).getD 0 + 1).toNat

theorem check_inRange {im : List (Option Int)} {envs : List Int} (h : checkIndexMap im envs = .ok ()) :
    InRange (nGroups im) (im.filterMap id) := by
  obtain ⟨_, _, mx, mn, hmx, hmn, hmin, hmax, _, _⟩ := (checkIndexMap_ok_iff im envs).1 h
  intro x hx
  have h1 := listMax_ge hmx x hx
  have h2 := listMin_le hmn x hx
  simp only [nGroups, hmx, Option.getD_some]
  by_cases hm : x = -1
  · exact Or.inl hm
  · right
    refine ⟨by omega, ?_⟩
    rw [Int.toNat_of_nonneg (by omega)]
    omega

theorem scatterAdd_length (n : Nat) (pairs : List (Int × Rat)) : (scatterAdd n pairs).length = n := by
  rw [scatterAdd_eq, foldl_scatter_length]; simp

theorem coarsegrainGrid_nodes {g : GridShape} {h : Rat} {uv ug : Sys} {envs : List Int} {im : List (Option Int)} {sp : CgSpace}
    (hok : coarsegrainGrid g h uv ug envs im = .ok sp) : sp.vols.length = nGroups im := by
  rw [(coarsegrainGrid_ok hok).2.2.1, scatterAdd_length]; rfl

/-- what an accepted `coarsegrainSystem` call computed -/
theorem coarsegrainSystem_ok {g : GridShape} {h : Rat} {uv ug : Sys} {envs : List Int} {ns : Nat} {state : List Rat} {chem : List Int}
    {im : List (Option Int)} {c : CgSystem} (hok : coarsegrainSystem g h uv ug envs ns state chem im = .ok c) :
    coarsegrainGrid g h uv ug envs im = .ok c.space ∧
    c.state = aggregate ns g.size (nGroups im) (im.filterMap id) state ∧
    c.chem = (aggregate ns g.size (nGroups im) (im.filterMap id) (chem.map fun (x : Int) => (x : Rat))).map clampChem := by
  unfold coarsegrainSystem at hok
  split at hok
  · cases hok
  · rename_i sp hsp
    cases hok
    have := coarsegrainGrid_nodes hsp
    exact ⟨hsp, by simp only [this], by simp only [this]⟩

theorem cg_group_amount_aux {g : GridShape} {h : Rat} {uv ug : Sys} {envs : List Int} {ns : Nat} {state : List Rat} {chem : List Int}
    {im : List (Option Int)} {c : CgSystem} (hok : coarsegrainSystem g h uv ug envs ns state chem im = .ok c)
    (s k : Nat) (hs : s < ns) (hk : k < nGroups im) :
    c.state[s * nGroups im + k]? =
      some (((im.filterMap id).zipIdx.map fun p => if p.1 = (k : Int) then state.getD (s * g.size + p.2) 0 else 0).sum) := by
  obtain ⟨hsp, hst, _⟩ := coarsegrainSystem_ok hok
  have hchk := (coarsegrainGrid_ok hsp).2.1
  rw [hst, aggregate_get ns g.size (nGroups im) _ state s k hs hk (check_inRange hchk)]

theorem cg_species_total_aux {g : GridShape} {h : Rat} {uv ug : Sys} {envs : List Int} {ns : Nat} {state : List Rat} {chem : List Int}
    {im : List (Option Int)} {c : CgSystem} (hok : coarsegrainSystem g h uv ug envs ns state chem im = .ok c)
    (s : Nat) (hs : s < ns) :
    ((List.range (nGroups im)).map fun k => c.state.getD (s * nGroups im + k) 0).sum =
      ((im.filterMap id).zipIdx.map fun p => if cgKeep p.1 then state.getD (s * g.size + p.2) 0 else 0).sum := by
  obtain ⟨hsp, hst, _⟩ := coarsegrainSystem_ok hok
  have hchk := (coarsegrainGrid_ok hsp).2.1
  rw [hst]
  exact aggregate_species_total ns g.size (nGroups im) _ state s hs (check_inRange hchk)

theorem cg_chem_any_aux {g : GridShape} {h : Rat} {uv ug : Sys} {envs : List Int} {ns : Nat} {state : List Rat} {chem : List Int}
    {im : List (Option Int)} {c : CgSystem} (hok : coarsegrainSystem g h uv ug envs ns state chem im = .ok c)
    (hflags : ∀ x ∈ chem, 0 ≤ x) (s k : Nat) (hs : s < ns) (hk : k < nGroups im) :
    c.chem[s * nGroups im + k]? =
      some (if ∃ p ∈ (im.filterMap id).zipIdx, p.1 = (k : Int) ∧ 1 ≤ chem.getD (s * g.size + p.2) 0 then 1 else 0) := by
  obtain ⟨hsp, _, hch⟩ := coarsegrainSystem_ok hok
  have hchk := (coarsegrainGrid_ok hsp).2.1
  rw [hch, List.getElem?_map, aggregate_get ns g.size (nGroups im) _ _ s k hs hk (check_inRange hchk)]
  simp only [Option.map_some, Option.some.injEq]
  have hconv : ((im.filterMap id).zipIdx.map fun p => if p.1 = (k : Int) then
        (chem.map fun (x : Int) => (x : Rat)).getD (s * g.size + p.2) 0 else 0) =
      ((im.filterMap id).zipIdx.map fun p => (((if p.1 = (k : Int) then chem.getD (s * g.size + p.2) 0 else 0 : Int)) : Rat)) := by
    apply List.map_congr_left
    intro p _
    rw [getD_map_intCast]
    split <;> simp
  rw [hconv, clamp_sum_any]
  · congr 1
    apply propext
    constructor
    · rintro ⟨p, hp, h1⟩
      by_cases hpk : p.1 = (k : Int)
      · rw [if_pos hpk] at h1; exact ⟨p, hp, hpk, h1⟩
      · rw [if_neg hpk] at h1; omega
    · rintro ⟨p, hp, hpk, h1⟩
      exact ⟨p, hp, by rw [if_pos hpk]; exact h1⟩
  · intro p _
    split
    · simp only [List.getD_eq_getElem?_getD]
      cases hget : chem[s * g.size + p.2]? with
      | none => simp
      | some v => simp; exact hflags v (List.mem_of_getElem? hget)
    · exact le_refl 0


/-! ## validity, environments -/

/-- the environment rule: two retained cells of one group have the same environment -/
def NoMix (pairs : List (Int × Int)) : Prop :=
  pairs.Pairwise fun p q => p.1 = q.1 → p.1 ≠ -1 → p.2 = q.2

/-- what the slots already filled demand from the remaining cells -/
def SlotsAgree (out : List Int) (pairs : List (Int × Int)) : Prop :=
  ∀ p ∈ pairs, p.1 ≠ -1 → out.getD p.1.toNat 0 ≠ -2 → out.getD p.1.toNat 0 = p.2

theorem npNorm_ofNonneg (len : Nat) (g : Int) (h0 : 0 ≤ g) (h1 : g < len) : npNorm len g = .ok g.toNat := by
  simp [npNorm, h0, h1]

theorem envLoop_iff (pairs : List (Int × Int)) (out : List Int)
    (hr : ∀ p ∈ pairs, p.1 ≠ -1 → 0 ≤ p.1 ∧ p.1 < out.length) (he : ∀ p ∈ pairs, p.2 ≠ -2) :
    envLoop pairs out = .ok () ↔ SlotsAgree out pairs ∧ NoMix pairs := by
  induction pairs generalizing out with
  | nil => simp [envLoop, SlotsAgree, NoMix]
  | cons p rest ih =>
    obtain ⟨g, e⟩ := p
    have hr' : ∀ out' : List Int, out'.length = out.length → ∀ q ∈ rest, q.1 ≠ -1 → 0 ≤ q.1 ∧ q.1 < out'.length := by
      intro out' hl q hq hk; rw [hl]; exact hr q (by simp [hq]) hk
    have he' : ∀ q ∈ rest, q.2 ≠ -2 := fun q hq => he q (by simp [hq])
    have hne : e ≠ -2 := he (g, e) (by simp)
    simp only [envLoop]
    by_cases hg : g = -1
    · -- dropped cell
      have hskip : envSkip g = true := by simp [envSkip, hg]
      rw [if_pos hskip, ih out (hr' out rfl) he']
      simp only [SlotsAgree, NoMix, List.mem_cons, List.pairwise_cons, forall_eq_or_imp]
      constructor
      · rintro ⟨h1, h2⟩
        exact ⟨⟨fun h => absurd hg h, h1⟩, fun q _ _ h => absurd hg h, h2⟩
      · rintro ⟨⟨_, h1⟩, _, h2⟩
        exact ⟨h1, h2⟩
    · have hskip : envSkip g = false := by simp [envSkip, hg]
      obtain ⟨h0, hlt⟩ := hr (g, e) (by simp) hg
      rw [hskip, npNorm_ofNonneg _ g h0 hlt]
      simp only [Bool.false_eq_true, if_false]
      have hk : g.toNat < out.length := by omega
      -- slots of other groups are untouched by `set`
      have hset : ∀ q : Int × Int, q.1 ≠ -1 → 0 ≤ q.1 → q.1 ≠ g → (out.set g.toNat e).getD q.1.toNat 0 = out.getD q.1.toNat 0 := by
        intro q _ hq0 hqg
        have : g.toNat ≠ q.1.toNat := by omega
        simp [List.getD_eq_getElem?_getD, List.getElem?_set, this]
      have hsetg : (out.set g.toNat e).getD g.toNat 0 = e := by
        simp [List.getD_eq_getElem?_getD, List.getElem?_set, hk]
      by_cases hcur : out.getD g.toNat 0 = -2
      · have hun : envUnset (out.getD g.toNat 0) e = true := by rw [hcur]; rfl
        rw [if_pos hun, ih (out.set g.toNat e) (hr' _ (by simp)) he']
        simp only [SlotsAgree, NoMix, List.mem_cons, List.pairwise_cons, forall_eq_or_imp]
        constructor
        · rintro ⟨h1, h2⟩
          refine ⟨⟨fun _ h => absurd hcur h, ?_⟩, ?_, h2⟩
          · intro q hq hqk hq2
            have hq0 := (hr q (by simp [hq]) hqk).1
            by_cases hqg : q.1 = g
            · rw [hqg] at hq2; exact absurd hcur hq2
            · have := h1 q hq hqk
              rw [hset q hqk hq0 hqg] at this
              exact this hq2
          · intro q hq hgq _
            have hqk : q.1 ≠ -1 := by rw [← hgq]; exact hg
            have := h1 q hq hqk
            rw [← hgq, hsetg] at this
            exact this hne
        · rintro ⟨⟨_, h1⟩, h3, h2⟩
          refine ⟨?_, h2⟩
          intro q hq hqk hq2
          have hq0 := (hr q (by simp [hq]) hqk).1
          by_cases hqg : q.1 = g
          · rw [hqg, hsetg]
            exact h3 q hq hqg.symm hg
          · rw [hset q hqk hq0 hqg] at hq2 ⊢
            exact h1 q hq hqk hq2
      · have hun : envUnset (out.getD g.toNat 0) e = false := by
          simp only [envUnset, beq_eq_false_iff_ne, ne_eq]; exact hcur
        rw [hun]
        simp only [Bool.false_eq_true, if_false]
        by_cases hsame : out.getD g.toNat 0 = e
        · have hs : envSame (out.getD g.toNat 0) e = true := by simp only [envSame, beq_iff_eq]; exact hsame
          rw [if_pos hs, ih out (hr' out rfl) he']
          simp only [SlotsAgree, NoMix, List.mem_cons, List.pairwise_cons, forall_eq_or_imp]
          constructor
          · rintro ⟨h1, h2⟩
            refine ⟨⟨fun _ _ => hsame, h1⟩, ?_, h2⟩
            intro q hq hgq _
            have hqk : q.1 ≠ -1 := by rw [← hgq]; exact hg
            have := h1 q hq hqk
            rw [← hgq] at this
            rw [← hsame]
            exact this hcur
          · rintro ⟨⟨_, h1⟩, _, h2⟩
            exact ⟨h1, h2⟩
        · have hs : envSame (out.getD g.toNat 0) e = false := by
            simp only [envSame, beq_eq_false_iff_ne, ne_eq]; exact hsame
          rw [hs]
          simp only [Bool.false_eq_true, if_false, SlotsAgree, NoMix, List.mem_cons, List.pairwise_cons, forall_eq_or_imp]
          constructor
          · intro h; cases h
          · rintro ⟨⟨h1, _⟩, _⟩
            exact absurd (h1 hg hcur) hsame

theorem foldl_max_mem (l : List Int) (a : Int) : l.foldl max a = a ∨ l.foldl max a ∈ l := by
  induction l generalizing a with
  | nil => simp
  | cons b r ih =>
    simp only [List.foldl_cons, List.mem_cons]
    rcases ih (max a b) with h | h
    · rcases max_choice a b with h2 | h2
      · left; rw [h, h2]
      · right; left; rw [h, h2]
    · right; right; exact h

theorem foldl_min_mem (l : List Int) (a : Int) : l.foldl min a = a ∨ l.foldl min a ∈ l := by
  induction l generalizing a with
  | nil => simp
  | cons b r ih =>
    simp only [List.foldl_cons, List.mem_cons]
    rcases ih (min a b) with h | h
    · rcases min_choice a b with h2 | h2
      · left; rw [h, h2]
      · right; left; rw [h, h2]
    · right; right; exact h

theorem listMax_mem {l : List Int} {m : Int} (h : listMax l = some m) : m ∈ l := by
  cases l with
  | nil => simp [listMax] at h
  | cons a r =>
    simp only [listMax, Option.some.injEq] at h
    subst h
    rcases foldl_max_mem r a with h | h
    · rw [h]; simp
    · simp [h]

theorem listMin_mem {l : List Int} {m : Int} (h : listMin l = some m) : m ∈ l := by
  cases l with
  | nil => simp [listMin] at h
  | cons a r =>
    simp only [listMin, Option.some.injEq] at h
    subst h
    rcases foldl_min_mem r a with h | h
    · rw [h]; simp
    · simp [h]

theorem listMax_isSome {l : List Int} (h : l ≠ []) : ∃ m, listMax l = some m := by
  cases l with
  | nil => exact absurd rfl h
  | cons a r => exact ⟨_, rfl⟩

theorem listMin_isSome {l : List Int} (h : l ≠ []) : ∃ m, listMin l = some m := by
  cases l with
  | nil => exact absurd rfl h
  | cons a r => exact ⟨_, rfl⟩

/-- the documented rules for an index map -/
structure ValidMap (im : List (Option Int)) (envs : List Int) : Prop where
  length : im.length = envs.length
  ints : ∀ x ∈ im, x.isSome = true
  ge : ∀ x ∈ im.filterMap id, -1 ≤ x
  nonempty : ∃ x ∈ im.filterMap id, 0 ≤ x
  present : ∀ k : Nat, (∃ x ∈ im.filterMap id, (k : Int) < x) → (k : Int) ∈ im.filterMap id
  nomix : NoMix ((im.filterMap id).zip envs)

theorem valid_iff_aux (im : List (Option Int)) (envs : List Int) (henv : ∀ e ∈ envs, e ≠ -2) :
    checkIndexMap im envs = .ok () ↔ ValidMap im envs := by
  rw [checkIndexMap_ok_iff]
  have hloop : ∀ mx mn : Int, (∀ x ∈ im.filterMap id, x ≤ mx) → (∀ x ∈ im.filterMap id, mn ≤ x) → -1 ≤ mn → mn ≤ 0 →
      (envLoop ((im.filterMap id).zip envs) (List.replicate (mx + 1 - mn).toNat envSentinel) = .ok () ↔
        NoMix ((im.filterMap id).zip envs)) := by
    intro mx mn hmax hmin hmn hmn0
    rw [envLoop_iff]
    · constructor
      · exact fun h => h.2
      · intro h
        refine ⟨?_, h⟩
        intro p hp hk hne
        exfalso
        apply hne
        have hx := hmax p.1 (List.of_mem_zip hp).1
        have hy := hmin p.1 (List.of_mem_zip hp).1
        have h1 : ((mx + 1 - mn).toNat : Int) = mx + 1 - mn := Int.toNat_of_nonneg (by omega)
        have h2 : (p.1.toNat : Int) = p.1 := Int.toNat_of_nonneg (by omega)
        have hlt : p.1.toNat < (mx + 1 - mn).toNat := by
          have : (p.1.toNat : Int) < ((mx + 1 - mn).toNat : Int) := by rw [h1, h2]; omega
          exact_mod_cast this
        simp [List.getD_eq_getElem?_getD, List.getElem?_replicate, hlt, envSentinel]
    · intro p hp hk
      have hx := hmax p.1 (List.of_mem_zip hp).1
      have hy := hmin p.1 (List.of_mem_zip hp).1
      simp only [List.length_replicate]
      have h1 : ((mx + 1 - mn).toNat : Int) = mx + 1 - mn := Int.toNat_of_nonneg (by omega)
      rw [h1]
      omega
    · intro p hp
      exact henv p.2 (List.of_mem_zip hp).2
  constructor
  · rintro ⟨hlen, hty, mx, mn, hmx, hmn, hmin, hmax, hpres, hl⟩
    have hM := listMax_ge hmx
    have hm := listMin_le hmn
    have hmn0 : mn ≤ 0 := by
      by_cases h0 : 0 < mx
      · exact hm 0 (hpres 0 (by exact_mod_cast h0))
      · have : mx = 0 := by omega
        rw [← this]; exact hm mx (listMax_mem hmx)
    refine ⟨hlen, hty, fun x hx => le_trans hmin (hm x hx), ⟨mx, listMax_mem hmx, hmax⟩, ?_, (hloop mx mn hM hm hmin hmn0).1 hl⟩
    rintro k ⟨x, hx, hkx⟩
    exact hpres k (lt_of_lt_of_le hkx (hM x hx))
  · rintro ⟨hlen, hty, hge, ⟨x0, hx0, hx0nn⟩, hpres, hnm⟩
    have hne : im.filterMap id ≠ [] := fun h => by rw [h] at hx0; simp at hx0
    obtain ⟨mx, hmx⟩ := listMax_isSome hne
    obtain ⟨mn, hmn⟩ := listMin_isSome hne
    have hM := listMax_ge hmx
    have hm := listMin_le hmn
    have hmn1 : -1 ≤ mn := hge mn (listMin_mem hmn)
    have hmx0 : 0 ≤ mx := le_trans hx0nn (hM x0 hx0)
    have hmn0 : mn ≤ 0 := by
      by_cases h0 : 0 < mx
      · exact hm 0 (hpres 0 ⟨mx, listMax_mem hmx, by exact_mod_cast h0⟩)
      · have : mx = 0 := by omega
        rw [← this]; exact hm mx (listMax_mem hmx)
    refine ⟨hlen, hty, mx, mn, hmx, hmn, hmn1, hmx0, ?_, (hloop mx mn hM hm hmn1 hmn0).2 hnm⟩
    intro k hk
    exact hpres k ⟨mx, listMax_mem hmx, hk⟩

def setStep (acc : List Int) (p : Int × Int) : List Int := if cgKeep p.1 then acc.set p.1.toNat p.2 else acc

theorem scatterSet_eq (n : Nat) (pairs : List (Int × Int)) :
    scatterSet n pairs = pairs.foldl setStep (List.replicate n 0) := rfl

theorem setStep_length (acc : List Int) (p : Int × Int) : (setStep acc p).length = acc.length := by
  unfold setStep; split <;> simp

theorem foldl_set_keeps (rest : List (Int × Int)) (acc : List Int) (k : Nat) (e : Int) (ha : acc[k]? = some e)
    (hall : ∀ q ∈ rest, cgKeep q.1 = true → q.1.toNat = k → q.2 = e) :
    (rest.foldl setStep acc)[k]? = some e := by
  induction rest generalizing acc with
  | nil => exact ha
  | cons q r ih =>
    simp only [List.foldl_cons]
    apply ih
    · unfold setStep
      by_cases hk : cgKeep q.1 = true
      · rw [if_pos hk]
        by_cases hq : q.1.toNat = k
        · have hlt : k < acc.length := by
            by_contra hc
            rw [List.getElem?_eq_none (by omega)] at ha; cases ha
          rw [hq, List.getElem?_set_self hlt, hall q (by simp) hk hq]
        · rw [List.getElem?_set_ne hq]; exact ha
      · rw [if_neg hk]; exact ha
    · intro q' hq'; exact hall q' (by simp [hq'])

theorem foldl_set_member (pairs : List (Int × Int)) (acc : List Int)
    (hr : ∀ p ∈ pairs, p.1 ≠ -1 → 0 ≤ p.1 ∧ p.1 < acc.length) (hnm : NoMix pairs) :
    ∀ p ∈ pairs, p.1 ≠ -1 → (pairs.foldl setStep acc)[p.1.toNat]? = some p.2 := by
  induction pairs generalizing acc with
  | nil => intro p hp; simp at hp
  | cons q r ih =>
    intro p hp hpk
    simp only [NoMix, List.pairwise_cons] at hnm
    simp only [List.foldl_cons]
    rcases List.mem_cons.1 hp with rfl | hp'
    · obtain ⟨h0, hlt⟩ := hr p (by simp) hpk
      have hk : cgKeep p.1 = true := by simp [cgKeep, hpk]
      apply foldl_set_keeps
      · unfold setStep
        rw [if_pos hk, List.getElem?_set_self (by omega)]
      · intro q' hq' hk' hq
        have hq0 : q'.1 ≠ -1 := by simpa [cgKeep] using hk'
        have := (hr q' (by simp [hq']) hq0).1
        have heq : p.1 = q'.1 := by omega
        exact (hnm.1 q' hq' heq hpk).symm
    · apply ih (setStep acc q) _ hnm.2 p hp' hpk
      intro p' hp'' hk'
      rw [setStep_length]
      exact hr p' (by simp [hp'']) hk'

theorem cg_env_aux {g : GridShape} {h : Rat} {uv ug : Sys} {envs : List Int} {im : List (Option Int)} {sp : CgSpace}
    (henv : ∀ e ∈ envs, e ≠ -2) (hok : coarsegrainGrid g h uv ug envs im = .ok sp) :
    ∀ p ∈ (im.filterMap id).zip envs, p.1 ≠ -1 → sp.envs[p.1.toNat]? = some p.2 := by
  obtain ⟨_, hchk, _, hen⟩ := coarsegrainGrid_ok hok
  have hv := (valid_iff_aux im envs henv).1 hchk
  have hin := check_inRange hchk
  rw [hen, scatterSet_eq]
  apply foldl_set_member _ _ _ hv.nomix
  intro p hp hk
  simp only [List.length_replicate]
  rcases hin p.1 (List.of_mem_zip hp).1 with h1 | h1
  · exact absurd h1 hk
  · exact h1


/-! ## un-coarse-graining -/

/-- one step of the `cg_nodes` loop -/
def memStep (acc : List (List Nat)) (p : Int × Nat) : Res (List (List Nat)) :=
  if cgKeep p.1 then
    match npNorm acc.length p.1 with
    | .error e => .error e
    | .ok k => .ok (acc.modify k (· ++ [p.2]))
  else .ok acc

theorem cgMembers_eq (ncg : Nat) (ims : List Int) :
    cgMembers ncg ims = (ims.zipIdx).foldlM memStep (List.replicate ncg []) := rfl

/-- members of group `g` among the (entry, cell) pairs -/
def membersOf (g : Nat) (l : List (Int × Nat)) : List Nat := (l.filter fun p => p.1 == (g : Int)).map (·.2)

theorem foldlM_memStep (l : List (Int × Nat)) (acc : List (List Nat))
    (hr : ∀ p ∈ l, p.1 = -1 ∨ (0 ≤ p.1 ∧ p.1 < acc.length)) :
    ∃ res, l.foldlM memStep acc = .ok res ∧ res.length = acc.length ∧
      ∀ g, g < acc.length → res[g]? = some (acc.getD g [] ++ membersOf g l) := by
  induction l generalizing acc with
  | nil =>
    refine ⟨acc, rfl, rfl, ?_⟩
    intro g hg
    simp [membersOf, List.getD_eq_getElem?_getD, List.getElem?_eq_getElem hg]
  | cons p r ih =>
    rcases hr p (by simp) with hm | ⟨h0, hlt⟩
    · have hk : cgKeep p.1 = false := by rw [hm]; decide
      obtain ⟨res, h1, h2, h3⟩ := ih acc (fun q hq => hr q (by simp [hq]))
      refine ⟨res, ?_, h2, ?_⟩
      · simp only [List.foldlM_cons, memStep, hk, Bool.false_eq_true, if_false]
        exact h1
      · intro g hg
        rw [h3 g hg]
        have : ¬ (p.1 == (g : Int)) = true := by simp [hm]
        simp [membersOf, List.filter_cons, this]
    · have hk : cgKeep p.1 = true := by simp [cgKeep]; omega
      have hlen : (acc.modify p.1.toNat (· ++ [p.2])).length = acc.length := by simp
      obtain ⟨res, h1, h2, h3⟩ := ih (acc.modify p.1.toNat (· ++ [p.2]))
        (fun q hq => by rw [hlen]; exact hr q (by simp [hq]))
      refine ⟨res, ?_, by rw [h2, hlen], ?_⟩
      · simp only [List.foldlM_cons, memStep, hk, if_true, npNorm_ofNonneg _ _ h0 hlt]
        exact h1
      · intro g hg
        rw [h3 g (by rw [hlen]; exact hg)]
        congr 1
        by_cases hpg : p.1 = (g : Int)
        · have hgg : p.1.toNat = g := by omega
          have hb : (p.1 == (g : Int)) = true := by simp [hpg]
          simp [membersOf, List.filter_cons, hb, List.getD_eq_getElem?_getD, List.getElem?_modify, hgg,
            List.getElem?_eq_getElem hg]
        · have hgg : p.1.toNat ≠ g := by omega
          have hb : ¬ (p.1 == (g : Int)) = true := by simp [hpg]
          simp [membersOf, List.filter_cons, hb, List.getD_eq_getElem?_getD, List.getElem?_modify, hgg]

def asgStep (d : List Rat) (p : Nat × Rat) : List Rat := d.set p.1 p.2

theorem foldl_asg_length (asg : List (Nat × Rat)) (d : List Rat) : (asg.foldl asgStep d).length = d.length := by
  induction asg generalizing d with
  | nil => rfl
  | cons p r ih => simp [List.foldl_cons, ih, asgStep]

/-- a slot keeps its value when every later assignment to it writes that value -/
theorem foldl_asg_keeps (asg : List (Nat × Rat)) (d : List Rat) (t : Nat) (v : Rat) (hd : d[t]? = some v)
    (hall : ∀ q ∈ asg, q.1 = t → q.2 = v) : (asg.foldl asgStep d)[t]? = some v := by
  induction asg generalizing d with
  | nil => exact hd
  | cons q r ih =>
    simp only [List.foldl_cons]
    apply ih
    · unfold asgStep
      by_cases hq : q.1 = t
      · have hlt : t < d.length := by
          by_contra hc
          rw [List.getElem?_eq_none (by omega)] at hd; cases hd
        rw [hq, List.getElem?_set_self hlt, hall q (by simp) hq]
      · rw [List.getElem?_set_ne hq]; exact hd
    · intro q' hq'; exact hall q' (by simp [hq'])

/-- a slot some assignment writes, all assignments to it agreeing, ends with that value -/
theorem foldl_asg_member (asg : List (Nat × Rat)) (d : List Rat) (t : Nat) (v : Rat) (ht : t < d.length)
    (hmem : (t, v) ∈ asg) (hall : ∀ q ∈ asg, q.1 = t → q.2 = v) : (asg.foldl asgStep d)[t]? = some v := by
  induction asg generalizing d with
  | nil => simp at hmem
  | cons q r ih =>
    simp only [List.foldl_cons]
    rcases List.mem_cons.1 hmem with rfl | hm
    · apply foldl_asg_keeps
      · simp [asgStep, ht]
      · intro q' hq'; exact hall q' (by simp [hq'])
    · apply ih _ (by simp [asgStep, ht]) hm
      intro q' hq'; exact hall q' (by simp [hq'])

/-- a slot no assignment writes keeps its initial value -/
theorem foldl_asg_untouched (asg : List (Nat × Rat)) (d : List Rat) (t : Nat) (hno : ∀ q ∈ asg, q.1 ≠ t) :
    (asg.foldl asgStep d)[t]? = d[t]? := by
  induction asg generalizing d with
  | nil => rfl
  | cons q r ih =>
    simp only [List.foldl_cons]
    rw [ih _ (fun q' hq' => hno q' (by simp [hq']))]
    simp [asgStep, List.getElem?_set_ne (hno q (by simp))]

theorem mem_membersOf (g : Nat) (ims : List Int) (j : Nat) :
    j ∈ membersOf g ims.zipIdx ↔ ∃ h : j < ims.length, ims[j] = (g : Int) := by
  simp only [membersOf, List.mem_map, List.mem_filter, beq_iff_eq]
  constructor
  · rintro ⟨p, ⟨hp, hpg⟩, rfl⟩
    obtain ⟨_, h2, h3⟩ := List.mem_zipIdx (x := p.1) (i := p.2) (k := 0) hp
    refine ⟨by omega, ?_⟩
    simp only [Nat.sub_zero] at h3
    rw [← h3]; exact hpg
  · rintro ⟨h, hg⟩
    refine ⟨(ims[j], j), ⟨?_, hg⟩, rfl⟩
    rw [List.mem_iff_getElem?]
    exact ⟨j, by simp [List.getElem?_zipIdx, h]⟩

/-- the flat index of (sample, species, cell) determines the three -/
theorem idx3_inj {ns nf k s j k' s' j' : Nat} (hs : s < ns) (hj : j < nf) (hs' : s' < ns) (hj' : j' < nf)
    (h : k * (ns * nf) + s * nf + j = k' * (ns * nf) + s' * nf + j') : k = k' ∧ s = s' ∧ j = j' := by
  have h1 : s * nf + j < ns * nf := mul_add_lt hs hj
  have h2 : s' * nf + j' < ns * nf := mul_add_lt hs' hj'
  obtain ⟨hk, hr⟩ := mul_add_inj (a := k) (c := k') h1 h2 (by rw [← Nat.add_assoc, ← Nat.add_assoc]; exact h)
  obtain ⟨hs2, hj2⟩ := mul_add_inj hj hj' hr
  exact ⟨hk, hs2, hj2⟩

theorem uncgDst_nat (ns nf k s j : Nat) :
    (uncgDst (uncgStateSize ns nf) nf k s j).toNat = k * (ns * nf) + s * nf + j := by
  simp only [uncgDst, uncgStateSize]
  have : ((k : Int) * ((ns : Int) * (nf : Int)) + (s : Int) * (nf : Int) + (j : Int)) = ((k * (ns * nf) + s * nf + j : Nat) : Int) := by
    push_cast; ring
  rw [this, Int.toNat_natCast]

/-- membership in the assignment list of the four nested loops -/
theorem mem_uncgAssignments (N ns nf : Nat) (members : List (List Nat)) (inState : List (List (List Rat))) (t : Nat) (v : Rat) :
    (t, v) ∈ uncgAssignments N ns nf members inState ↔
      ∃ k, k < N ∧ ∃ s, s < ns ∧ ∃ node, ∃ hn : node < members.length, ∃ j ∈ members[node],
        t = k * (ns * nf) + s * nf + j ∧
        v = (((inState.getD k []).getD s []).getD node 0) / ((members[node]).length : Rat) := by
  simp only [uncgAssignments, List.mem_flatMap, List.mem_map, List.mem_range, Prod.mk.injEq, uncgDst_nat, Prod.exists]
  constructor
  · rintro ⟨k, hk, s, hs, mem, node, hmn, j, hj, rfl, rfl⟩
    obtain ⟨_, h2, h3⟩ := List.mem_zipIdx (k := 0) hmn
    simp only [Nat.sub_zero] at h3
    have hn : node < members.length := by omega
    refine ⟨k, hk, s, hs, node, hn, j, by rw [← h3]; exact hj, rfl, by rw [h3]⟩
  · rintro ⟨k, hk, s, hs, node, hn, j, hj, rfl, rfl⟩
    refine ⟨k, hk, s, hs, members[node], node, ?_, j, hj, rfl, rfl⟩
    rw [List.mem_iff_getElem?]
    exact ⟨node, by simp [List.getElem?_zipIdx, hn]⟩

/-- number of cells mapped to group `g` -/
def groupCount (g : Nat) (ims : List Int) : Nat := (membersOf g ims.zipIdx).length

theorem uncg_spec (N ns ncg nf : Nat) (ims : List Int) (cg : List Rat)
    (hlen : ims.length = nf) (hr : InRange ncg ims) (hcg : cg.length = N * ns * ncg) :
    ∃ data, uncoarsegrain N ns ncg nf ims cg = .ok data ∧ data.length = N * (ns * nf) ∧
      ∀ k s j, k < N → s < ns → ∀ hj : j < ims.length,
        data[k * (ns * nf) + s * nf + j]? =
          some (if ims[j] = -1 then 0
                else cg.getD (k * (ns * ncg) + s * ncg + ims[j].toNat) 0 / (groupCount ims[j].toNat ims : Rat)) := by
  -- members
  have htake : ims.take nf = ims := by rw [← hlen]; exact List.take_length
  obtain ⟨members, hmem, hmlen, hmget⟩ := foldlM_memStep ims.zipIdx (List.replicate ncg [])
    (by
      intro p hp
      simpa using hr p.1 (List.fst_mem_of_mem_zipIdx hp))
  simp only [List.length_replicate] at hmlen hmget
  have hmem' : cgMembers ncg (ims.take nf) = .ok members := by rw [htake, cgMembers_eq]; exact hmem
  have hmg : ∀ g (hg : g < ncg), members[g]'(by omega) = membersOf g ims.zipIdx := by
    intro g hg
    have := hmget g hg
    rw [List.getElem?_eq_getElem (by omega)] at this
    simpa [List.getD_eq_getElem?_getD, hg] using this
  -- reshape
  obtain ⟨a, hra, _, ha⟩ := reshape3_index cg N ns ncg hcg
  have hin : ∀ k s g, k < N → s < ns → g < ncg →
      ((a.getD k []).getD s []).getD g 0 = cg.getD (k * (ns * ncg) + s * ncg + g) 0 := by
    intro k s g hk hs hg
    obtain ⟨blk, h1, _, hb⟩ := ha k hk
    obtain ⟨row, h3, _, hc⟩ := hb s hs
    simp [List.getD_eq_getElem?_getD, h1, h3, (hc g hg).1]
  -- the result
  let zeros := List.replicate ((uncgStateSize ns nf).toNat * N) (0 : Rat)
  have hzl : zeros.length = N * (ns * nf) := by
    simp only [zeros, List.length_replicate, uncgStateSize]
    have : ((ns : Int) * (nf : Int)).toNat = ns * nf := by
      rw [← Int.natCast_mul, Int.toNat_natCast]
    rw [this, Nat.mul_comm]
  let asg := uncgAssignments N ns nf members a
  -- every assignment names a cell of a group
  have hasg : ∀ t v, (t, v) ∈ asg → ∃ k, k < N ∧ ∃ s, s < ns ∧ ∃ g, ∃ hg : g < ncg, ∃ j, ∃ hj : j < ims.length,
      ims[j] = (g : Int) ∧ t = k * (ns * nf) + s * nf + j ∧
      v = cg.getD (k * (ns * ncg) + s * ncg + g) 0 / (groupCount g ims : Rat) := by
    intro t v htv
    obtain ⟨k, hk, s, hs, node, hn, j, hj, rfl, rfl⟩ := (mem_uncgAssignments N ns nf members a t v).1 htv
    have hg : node < ncg := by omega
    rw [hmg node hg] at hj
    obtain ⟨hjl, hjg⟩ := (mem_membersOf node ims j).1 hj
    refine ⟨k, hk, s, hs, node, hg, j, hjl, hjg, rfl, ?_⟩
    rw [hin k s node hk hs hg, hmg node hg]
    rfl
  have hrange : asg.any (fun p => decide (p.1 ≥ zeros.length)) = false := by
    rw [List.any_eq_false]
    intro p hp
    obtain ⟨k, hk, s, hs, g, hg, j, hj, _, ht, _⟩ := hasg p.1 p.2 hp
    have h1 : s * nf + j < ns * nf := mul_add_lt hs (by omega)
    have h2 : k * (ns * nf) + (s * nf + j) < N * (ns * nf) := mul_add_lt hk h1
    simp only [ge_iff_le, decide_eq_true_eq, not_le, hzl, ht]
    omega
  have hres : uncoarsegrain N ns ncg nf ims cg = .ok (asg.foldl asgStep zeros) := by
    unfold uncoarsegrain
    simp only [hmem', hra]
    rw [if_neg (by omega)]
    simp only [zeros, asg] at hrange
    simp only [hrange, Bool.false_eq_true, if_false]
    rfl
  refine ⟨asg.foldl asgStep zeros, hres, by rw [foldl_asg_length, hzl], ?_⟩
  intro k s j hk hs hj
  have hjn : j < nf := by omega
  have htl : k * (ns * nf) + s * nf + j < zeros.length := by
    have h1 : s * nf + j < ns * nf := mul_add_lt hs hjn
    have h2 : k * (ns * nf) + (s * nf + j) < N * (ns * nf) := mul_add_lt hk h1
    rw [hzl]; omega
  by_cases hd : ims[j] = -1
  · rw [if_pos hd, foldl_asg_untouched]
    · rw [List.getElem?_eq_getElem htl]
      simp [zeros]
    · intro q hq hqt
      obtain ⟨k', hk', s', hs', g, hg, j', hj', hjg, ht, _⟩ := hasg q.1 q.2 hq
      rw [ht] at hqt
      obtain ⟨_, _, hjj⟩ := idx3_inj hs' (by omega) hs hjn hqt
      subst hjj
      rw [hd] at hjg
      omega
  · rw [if_neg hd]
    rcases hr ims[j] (List.getElem_mem hj) with h1 | ⟨h0, hlt⟩
    · exact absurd h1 hd
    · obtain ⟨g, hgeq⟩ := Int.eq_ofNat_of_zero_le h0
      have hg : g < ncg := by rw [hgeq] at hlt; exact_mod_cast hlt
      have hgn : ims[j].toNat = g := by rw [hgeq]; simp
      rw [hgn]
      apply foldl_asg_member _ _ _ _ htl
      · apply (mem_uncgAssignments N ns nf members a _ _).2
        refine ⟨k, hk, s, hs, g, by omega, j, ?_, rfl, ?_⟩
        · rw [hmg g hg]; exact (mem_membersOf g ims j).2 ⟨hj, hgeq⟩
        · rw [hin k s g hk hs hg, hmg g hg]; rfl
      · intro q hq hqt
        obtain ⟨k', hk', s', hs', g', hg', j', hj', hjg', ht, hv⟩ := hasg q.1 q.2 hq
        rw [ht] at hqt
        obtain ⟨hkk, hss, hjj⟩ := idx3_inj hs' (by omega) hs hjn hqt
        subst hkk hss hjj
        have : g' = g := by
          have : (g' : Int) = (g : Int) := by rw [← hjg', hgeq]
          exact_mod_cast this
        subst this
        exact hv

theorem uncg_group_total_aux (N ns ncg nf : Nat) (ims : List Int) (cg data : List Rat)
    (hlen : ims.length = nf) (hr : InRange ncg ims) (hcg : cg.length = N * ns * ncg)
    (hok : uncoarsegrain N ns ncg nf ims cg = .ok data) (k s g : Nat) (hk : k < N) (hs : s < ns)
    (hcount : groupCount g ims ≠ 0) :
    ((membersOf g ims.zipIdx).map fun j => data.getD (k * (ns * nf) + s * nf + j) 0).sum =
      cg.getD (k * (ns * ncg) + s * ncg + g) 0 := by
  obtain ⟨data', hd, _, hspec⟩ := uncg_spec N ns ncg nf ims cg hlen hr hcg
  rw [hd] at hok; cases hok
  have hterm : ∀ j ∈ membersOf g ims.zipIdx, data.getD (k * (ns * nf) + s * nf + j) 0 =
      cg.getD (k * (ns * ncg) + s * ncg + g) 0 / (groupCount g ims : Rat) := by
    intro j hj
    obtain ⟨hjl, hjg⟩ := (mem_membersOf g ims j).1 hj
    rw [List.getD_eq_getElem?_getD, hspec k s j hk hs hjl, hjg]
    have : ¬ ((g : Int) = -1) := by omega
    simp [this]
  rw [List.map_congr_left hterm]
  simp only [List.map_const', List.sum_replicate, nsmul_eq_mul]
  have hc : (groupCount g ims : Rat) ≠ 0 := by exact_mod_cast hcount
  unfold groupCount at hc ⊢
  field_simp


/-! ## coarse edges: which pairs, surfaces, distances -/

/-- total surface recorded for the pair `c` -/
def surfaceOf (acc : List CgEdge) (c : Int × Int) : Rat :=
  (acc.map fun o => if edgeKey o = c then o.surface else 0).sum

/-- the fine edge `e` joins two different retained groups whose ordered pair is `c` -/
def Contributes (im : List Int) (e : CgEdge) (c : Int × Int) : Prop :=
  im.getD e.i.toNat 0 ≠ im.getD e.j.toNat 0 ∧ im.getD e.i.toNat 0 ≠ -1 ∧ im.getD e.j.toNat 0 ≠ -1 ∧
  (min (im.getD e.i.toNat 0) (im.getD e.j.toNat 0), max (im.getD e.i.toNat 0) (im.getD e.j.toNat 0)) = c

instance (im : List Int) (e : CgEdge) (c : Int × Int) : Decidable (Contributes im e c) := by
  unfold Contributes; infer_instance

/-- `addEdge` as a function of the two group indices -/
def addEdgeG (gi gj : Int) (acc : List CgEdge) (e : CgEdge) : List CgEdge :=
  if gi == gj then acc
  else if gi == -1 || gj == -1 then acc
  else if acc.any (fun o => o.i == min gi gj && o.j == max gi gj) then
    acc.modify (acc.findIdx (fun o => o.i == min gi gj && o.j == max gi gj)) (fun o => { o with surface := o.surface + e.surface })
  else acc ++ [⟨min gi gj, max gi gj, e.surface, 0⟩]

theorem addEdge_eq_G (im : List Int) (acc : List CgEdge) (e : CgEdge) :
    addEdge im acc e = addEdgeG (im.getD e.i.toNat 0) (im.getD e.j.toNat 0) acc e := rfl

def ContributesG (gi gj : Int) (c : Int × Int) : Prop := gi ≠ gj ∧ gi ≠ -1 ∧ gj ≠ -1 ∧ (min gi gj, max gi gj) = c

instance (gi gj : Int) (c : Int × Int) : Decidable (ContributesG gi gj c) := by unfold ContributesG; infer_instance

theorem surfaceOf_append (a b : List CgEdge) (c : Int × Int) : surfaceOf (a ++ b) c = surfaceOf a c + surfaceOf b c := by
  simp [surfaceOf]

theorem surfaceOf_modify (acc : List CgEdge) (k : Nat) (hk : k < acc.length) (v : Rat) (c : Int × Int) :
    surfaceOf (acc.modify k fun o => { o with surface := o.surface + v }) c =
      surfaceOf acc c + (if edgeKey acc[k] = c then v else 0) := by
  induction acc generalizing k with
  | nil => simp at hk
  | cons a r ih =>
    cases k with
    | zero =>
      simp only [List.modify_cons, surfaceOf, List.map_cons, List.sum_cons, List.getElem_cons_zero, if_true]
      have : edgeKey { a with surface := a.surface + v } = edgeKey a := rfl
      rw [this]
      split <;> ring
    | succ k =>
      simp only [List.length_cons, Nat.add_lt_add_iff_right] at hk
      have := ih k hk
      simp only [surfaceOf] at this ⊢
      simp only [List.modify_cons, Nat.succ_ne_zero, if_false, List.map_cons, List.sum_cons, List.getElem_cons_succ]
      simp only [Nat.add_sub_cancel] at *
      rw [this]; ring

theorem addEdgeG_surface (gi gj : Int) (acc : List CgEdge) (e : CgEdge) (c : Int × Int) :
    surfaceOf (addEdgeG gi gj acc e) c = surfaceOf acc c + (if ContributesG gi gj c then e.surface else 0) := by
  unfold addEdgeG ContributesG
  split
  · rename_i hij
    have : gi = gj := by simpa using hij
    simp [this]
  · rename_i hij
    have hne : gi ≠ gj := by simpa using hij
    split
    · rename_i hd
      have : gi = -1 ∨ gj = -1 := by simpa using hd
      rcases this with h | h <;> simp [h]
    · rename_i hd
      have hd' : gi ≠ -1 ∧ gj ≠ -1 := by simpa using hd
      split
      · rename_i hany
        have hlt := List.findIdx_lt_length_of_exists (p := fun o : CgEdge => o.i == min (gi) (gj) && o.j == max (gi) (gj)) (xs := acc) (by
          obtain ⟨o, ho, hp⟩ := List.any_eq_true.1 hany
          exact ⟨o, ho, hp⟩)
        rw [surfaceOf_modify _ _ hlt]
        have hkey := List.findIdx_getElem (w := hlt)
        simp only [Bool.and_eq_true, beq_iff_eq] at hkey
        have hk2 : edgeKey acc[List.findIdx (fun o : CgEdge => o.i == min (gi) (gj) && o.j == max (gi) (gj)) acc] =
            (min (gi) (gj), max (gi) (gj)) := by
          simp [edgeKey, hkey.1, hkey.2]
        rw [hk2]
        simp [hne, hd'.1, hd'.2]
      · rw [surfaceOf_append]
        by_cases hc : (min gi gj, max gi gj) = c <;> simp [surfaceOf, edgeKey, hne, hd'.1, hd'.2, hc]

theorem addEdge_surface (im : List Int) (acc : List CgEdge) (e : CgEdge) (c : Int × Int) :
    surfaceOf (addEdge im acc e) c = surfaceOf acc c + (if Contributes im e c then e.surface else 0) := by
  rw [addEdge_eq_G, addEdgeG_surface]
  rfl

theorem foldl_addEdge_surface (im : List Int) (es acc : List CgEdge) (c : Int × Int) :
    surfaceOf (es.foldl (addEdge im) acc) c =
      surfaceOf acc c + (es.map fun e => if Contributes im e c then e.surface else 0).sum := by
  induction es generalizing acc with
  | nil => simp
  | cons e r ih =>
    simp only [List.foldl_cons, List.map_cons, List.sum_cons]
    rw [ih, addEdge_surface]; ring

theorem addEdgeG_keys (gi gj : Int) (acc : List CgEdge) (e : CgEdge) (c : Int × Int) :
    c ∈ (addEdgeG gi gj acc e).map edgeKey ↔ c ∈ acc.map edgeKey ∨ ContributesG gi gj c := by
  unfold addEdgeG ContributesG
  split
  · rename_i hij
    have : gi = gj := by simpa using hij
    simp [this]
  · rename_i hij
    have hne : gi ≠ gj := by simpa using hij
    split
    · rename_i hd
      have : gi = -1 ∨ gj = -1 := by simpa using hd
      rcases this with h | h <;> simp [h]
    · rename_i hd
      have hd' : gi ≠ -1 ∧ gj ≠ -1 := by simpa using hd
      split
      · rename_i hany
        have hmk := map_key_modify acc (List.findIdx (fun o : CgEdge => o.i == min gi gj && o.j == max gi gj) acc)
          (fun o => { o with surface := o.surface + e.surface }) (fun o => rfl)
        rw [hmk]
        constructor
        · exact Or.inl
        · rintro (h | ⟨_, _, _, h⟩)
          · exact h
          · obtain ⟨o, ho, hp⟩ := List.any_eq_true.1 hany
            simp only [Bool.and_eq_true, beq_iff_eq] at hp
            rw [← h]
            exact List.mem_map.2 ⟨o, ho, by simp [edgeKey, hp.1, hp.2]⟩
      · simp only [List.map_append, List.map_cons, List.map_nil, List.mem_append, List.mem_singleton, edgeKey]
        constructor
        · rintro (h | h)
          · exact Or.inl h
          · exact Or.inr ⟨hne, hd'.1, hd'.2, h.symm⟩
        · rintro (h | ⟨_, _, _, h⟩)
          · exact Or.inl h
          · exact Or.inr h.symm

theorem addEdge_keys (im : List Int) (acc : List CgEdge) (e : CgEdge) (c : Int × Int) :
    c ∈ (addEdge im acc e).map edgeKey ↔ c ∈ acc.map edgeKey ∨ Contributes im e c := by
  rw [addEdge_eq_G, addEdgeG_keys]
  rfl

theorem foldl_addEdge_keys (im : List Int) (es acc : List CgEdge) (c : Int × Int) :
    c ∈ (es.foldl (addEdge im) acc).map edgeKey ↔ c ∈ acc.map edgeKey ∨ ∃ e ∈ es, Contributes im e c := by
  induction es generalizing acc with
  | nil => simp
  | cons e r ih =>
    simp only [List.foldl_cons, ih, addEdge_keys, List.mem_cons, exists_eq_or_imp]
    tauto

/-- the geometry part of an accepted `coarsegrainGrid` call -/
theorem coarsegrainGrid_geometry {g : GridShape} {h : Rat} {uv ug : Sys} {envs : List Int} {im : List (Option Int)} {sp : CgSpace}
    (hok : coarsegrainGrid g h uv ug envs im = .ok sp) :
    sp.edges = ((cgGridToGraph g h envs).edges.foldl (addEdge (im.filterMap id)) []).map (fun e =>
      { e with dist := sq (sp.cx.getD e.i.toNat 0 - sp.cx.getD e.j.toNat 0) + sq (sp.cy.getD e.i.toNat 0 - sp.cy.getD e.j.toNat 0)
                        + sq (sp.cz.getD e.i.toNat 0 - sp.cz.getD e.j.toNat 0) }) ∧
    sp.counts = scatterAdd (nGroups im) ((im.filterMap id).map fun gI => (gI, (1 : Rat))) ∧
    sp.cx = List.zipWith (· / ·) (scatterAdd (nGroups im) ((im.filterMap id).zip ((gridCoords g).map fun c => (c.1 : Rat) * h))) sp.counts ∧
    sp.cy = List.zipWith (· / ·) (scatterAdd (nGroups im) ((im.filterMap id).zip ((gridCoords g).map fun c => (c.2.1 : Rat) * h))) sp.counts ∧
    sp.cz = List.zipWith (· / ·) (scatterAdd (nGroups im) ((im.filterMap id).zip ((gridCoords g).map fun c => (c.2.2 : Rat) * h))) sp.counts := by
  unfold coarsegrainGrid at hok
  split at hok
  · cases hok
  · simp only [] at hok
    split at hok
    · cases hok
    · cases hok
      exact ⟨rfl, rfl, rfl, rfl, rfl⟩

theorem surfaceOf_map_dist (acc : List CgEdge) (f : CgEdge → Rat) (c : Int × Int) :
    surfaceOf (acc.map fun e => { e with dist := f e }) c = surfaceOf acc c := by
  simp only [surfaceOf, List.map_map]
  rfl

theorem surfaceOf_of_mem (acc : List CgEdge) (hnd : (acc.map edgeKey).Nodup) (o : CgEdge) (ho : o ∈ acc) :
    surfaceOf acc (edgeKey o) = o.surface := by
  induction acc with
  | nil => simp at ho
  | cons a r ih =>
    simp only [List.map_cons, List.nodup_cons] at hnd
    simp only [surfaceOf, List.map_cons, List.sum_cons]
    rcases List.mem_cons.1 ho with rfl | ho'
    · have : (r.map fun x => if edgeKey x = edgeKey o then x.surface else 0) = r.map fun _ => (0 : Rat) := by
        apply List.map_congr_left
        intro x hx
        rw [if_neg]
        intro hk
        exact hnd.1 (hk ▸ List.mem_map_of_mem hx)
      rw [this]; simp
    · have hne : edgeKey a ≠ edgeKey o := fun hk => hnd.1 (hk ▸ List.mem_map_of_mem ho')
      rw [if_neg hne]
      have := ih hnd.2 ho'
      simp only [surfaceOf] at this
      rw [this]; ring

/-- every fine edge of the grid's graph has surface `h²` and length `h` -/
theorem gridToGraph_edge_geometry (g : GridShape) (h : Rat) (envs : List Int) :
    ∀ e ∈ (cgGridToGraph g h envs).edges, e.surface = h * h ∧ e.dist = h := by
  intro e he
  simp only [cgGridToGraph, List.mem_append, List.mem_flatMap, faceEdges, periodicEdges] at he
  rcases he with ⟨c, _, hc⟩ | he
  · obtain ⟨x, y, z⟩ := c
    simp only [List.mem_append] at hc
    rcases hc with (hc | hc) | hc <;>
    · split at hc
      · simp only [List.mem_singleton] at hc; subst hc; exact ⟨rfl, rfl⟩
      · simp at hc
  · rcases he with (he | he) | he <;>
    · split at he
      · simp only [List.mem_flatMap, List.mem_map] at he
        obtain ⟨_, _, _, _, rfl⟩ := he
        exact ⟨rfl, rfl⟩
      · simp at he

theorem sum_ite_const {α} (l : List α) (P : α → Prop) [DecidablePred P] (v : Rat) :
    (l.map fun a => if P a then v else 0).sum = (l.countP (fun a => decide (P a)) : Rat) * v := by
  induction l with
  | nil => simp
  | cons a r ih =>
    simp only [List.map_cons, List.sum_cons, ih, List.countP_cons]
    by_cases h : P a
    · simp [h]; ring
    · simp [h]

theorem cg_edge_iff_aux {g : GridShape} {h : Rat} {uv ug : Sys} {envs : List Int} {im : List (Option Int)} {sp : CgSpace}
    (hok : coarsegrainGrid g h uv ug envs im = .ok sp) (c : Int × Int) :
    c ∈ sp.edges.map edgeKey ↔ ∃ e ∈ (cgGridToGraph g h envs).edges, Contributes (im.filterMap id) e c := by
  rw [coarsegrainGrid_edges hok, foldl_addEdge_keys]
  simp

theorem cg_surface_aux {g : GridShape} {h : Rat} {uv ug : Sys} {envs : List Int} {im : List (Option Int)} {sp : CgSpace}
    (hok : coarsegrainGrid g h uv ug envs im = .ok sp) (o : CgEdge) (ho : o ∈ sp.edges) :
    o.surface = ((cgGridToGraph g h envs).edges.countP (fun e => decide (Contributes (im.filterMap id) e (edgeKey o))) : Rat) * (h * h) := by
  have hnd := (cg_edges_ok hok).2
  rw [← surfaceOf_of_mem sp.edges hnd o ho]
  rw [(coarsegrainGrid_geometry hok).1, surfaceOf_map_dist, foldl_addEdge_surface]
  simp only [surfaceOf, List.map_nil, List.sum_nil, zero_add]
  rw [← sum_ite_const]
  congr 1
  apply List.map_congr_left
  intro e he
  rw [(gridToGraph_edge_geometry g h envs e he).1]

theorem cg_distance_aux {g : GridShape} {h : Rat} {uv ug : Sys} {envs : List Int} {im : List (Option Int)} {sp : CgSpace}
    (hok : coarsegrainGrid g h uv ug envs im = .ok sp) (o : CgEdge) (ho : o ∈ sp.edges) :
    o.dist = sq (sp.cx.getD o.i.toNat 0 - sp.cx.getD o.j.toNat 0) + sq (sp.cy.getD o.i.toNat 0 - sp.cy.getD o.j.toNat 0)
      + sq (sp.cz.getD o.i.toNat 0 - sp.cz.getD o.j.toNat 0) := by
  rw [(coarsegrainGrid_geometry hok).1] at ho
  obtain ⟨e, _, rfl⟩ := List.mem_map.1 ho
  rfl

theorem cg_centroid_aux {g : GridShape} {h : Rat} {uv ug : Sys} {envs : List Int} {im : List (Option Int)} {sp : CgSpace}
    (hok : coarsegrainGrid g h uv ug envs im = .ok sp) (k : Nat) (hk : k < nGroups im) :
    sp.cx[k]? = some (slotSum k ((im.filterMap id).zip ((gridCoords g).map fun c => (c.1 : Rat) * h)) /
                      slotSum k ((im.filterMap id).map fun gI => (gI, (1 : Rat)))) ∧
    sp.cy[k]? = some (slotSum k ((im.filterMap id).zip ((gridCoords g).map fun c => (c.2.1 : Rat) * h)) /
                      slotSum k ((im.filterMap id).map fun gI => (gI, (1 : Rat)))) ∧
    sp.cz[k]? = some (slotSum k ((im.filterMap id).zip ((gridCoords g).map fun c => (c.2.2 : Rat) * h)) /
                      slotSum k ((im.filterMap id).map fun gI => (gI, (1 : Rat)))) := by
  obtain ⟨_, hc, hx, hy, hz⟩ := coarsegrainGrid_geometry hok
  rw [hx, hy, hz, hc]
  simp [List.getElem?_zipWith, scatterAdd_get _ _ _ hk]

theorem mem_gridCoords (g : GridShape) (x y z : Nat) : (x, y, z) ∈ gridCoords g ↔ x < g.w ∧ y < g.h ∧ z < g.d := by
  simp only [gridCoords, List.mem_flatMap, List.mem_map, List.mem_range, Prod.mk.injEq]
  constructor
  · rintro ⟨z', hz, y', hy, x', hx, rfl, rfl, rfl⟩
    exact ⟨hx, hy, hz⟩
  · rintro ⟨hx, hy, hz⟩
    exact ⟨z, hz, y, hy, x, hx, rfl, rfl, rfl⟩

/-- `get_cell_index((x, y, z))` inside the grid -/
theorem gci_inside (g : GridShape) (x y z : Nat) (hx : x < g.w) (hy : y < g.h) (hz : z < g.d) :
    gci g x y z = ((x + y * g.w + z * g.w * g.h : Nat) : Int) := by
  have hb : withinBoundsArr (g.w : Int) g.h g.d x y z = true := by
    simp [withinBoundsArr, hx, hy, hz]
  simp only [gci, pyCellIndexOfCoords, hb, if_true, cellIndexArr]
  push_cast
  ring

/-- the fine edges of a reflecting grid are exactly the pairs of cells sharing a face, each listed once
(from the cell with the smaller coordinate), with surface `h²` and length `h` -/
theorem mem_fine_edges (g : GridShape) (h : Rat) (envs : List Int) (hrefl : (g.px || g.py || g.pz) = false) (e : CgEdge) :
    e ∈ (cgGridToGraph g h envs).edges ↔ ∃ x y z, x < g.w ∧ y < g.h ∧ z < g.d ∧
      ((x + 1 < g.w ∧ e = ⟨gci g x y z, gci g (x + 1) y z, h * h, h⟩) ∨
       (y + 1 < g.h ∧ e = ⟨gci g x y z, gci g x (y + 1) z, h * h, h⟩) ∨
       (z + 1 < g.d ∧ e = ⟨gci g x y z, gci g x y (z + 1), h * h, h⟩)) := by
  simp only [Bool.or_eq_false_iff] at hrefl
  obtain ⟨⟨h1, h2⟩, h3⟩ := hrefl
  simp only [cgGridToGraph, periodicEdges, h1, h2, h3, Bool.false_eq_true, if_false, List.append_nil, List.mem_flatMap]
  constructor
  · rintro ⟨⟨x, y, z⟩, hc, he⟩
    obtain ⟨hx, hy, hz⟩ := (mem_gridCoords g x y z).1 hc
    refine ⟨x, y, z, hx, hy, hz, ?_⟩
    simp only [faceEdges, List.mem_append] at he
    rcases he with (he | he) | he
    · split at he
      · rename_i hlt
        simp only [List.mem_singleton] at he
        exact Or.inl ⟨by omega, by rw [he]⟩
      · simp at he
    · split at he
      · rename_i hlt
        simp only [List.mem_singleton] at he
        exact Or.inr (Or.inl ⟨by omega, by rw [he]⟩)
      · simp at he
    · split at he
      · rename_i hlt
        simp only [List.mem_singleton] at he
        exact Or.inr (Or.inr ⟨by omega, by rw [he]⟩)
      · simp at he
  · rintro ⟨x, y, z, hx, hy, hz, hcase⟩
    refine ⟨(x, y, z), (mem_gridCoords g x y z).2 ⟨hx, hy, hz⟩, ?_⟩
    simp only [faceEdges, List.mem_append]
    rcases hcase with ⟨hlt, rfl⟩ | ⟨hlt, rfl⟩ | ⟨hlt, rfl⟩
    · left; left
      rw [if_pos (by omega)]
      simp
    · left; right
      rw [if_pos (by omega)]
      simp
    · right
      rw [if_pos (by omega)]
      simp


/-! ## the identity map -/

/-- nested `for a in range(m): for b in range(L)` = one loop over `range(m·L)` with `a = k / L`, `b = k % L` -/
theorem range_flatMap_map {α} (m L : Nat) (f : Nat → Nat → α) :
    (List.range m).flatMap (fun a => (List.range L).map fun b => f a b) =
      (List.range (m * L)).map fun k => f (k / L) (k % L) := by
  induction m with
  | zero => simp
  | succ m ih =>
    rw [List.range_succ, List.flatMap_append, ih, Nat.succ_mul, List.range_add, List.map_append]
    congr 1
    simp only [List.flatMap_cons, List.flatMap_nil, List.append_nil, List.map_map]
    apply List.map_congr_left
    intro b hb
    have hb' := List.mem_range.1 hb
    have hL : 0 < L := by omega
    simp only [Function.comp]
    have h1 : (m * L + b) / L = m := by
      rw [Nat.add_comm, Nat.add_mul_div_right _ _ hL, Nat.div_eq_of_lt hb']; simp
    have h2 : (m * L + b) % L = b := by
      rw [Nat.add_comm, Nat.add_mul_mod_self_right, Nat.mod_eq_of_lt hb']
    rw [h1, h2]

/-- coordinates of the cell with linear index `K` -/
def decode (g : GridShape) (K : Nat) : Nat × Nat × Nat := ((K % (g.h * g.w)) % g.w, (K % (g.h * g.w)) / g.w, K / (g.h * g.w))

theorem gridCoords_eq (g : GridShape) : gridCoords g = (List.range (g.d * (g.h * g.w))).map (decode g) := by
  unfold gridCoords
  have inner : ∀ z : Nat, ((List.range g.h).flatMap fun y => (List.range g.w).map fun x => (x, y, z)) =
      (List.range (g.h * g.w)).map fun k => (k % g.w, k / g.w, z) := by
    intro z
    exact range_flatMap_map g.h g.w (fun y x => (x, y, z))
  simp only [inner]
  rw [range_flatMap_map g.d (g.h * g.w) (fun z k => (k % g.w, k / g.w, z))]
  rfl

theorem decode_lt (g : GridShape) (K : Nat) (hK : K < g.d * (g.h * g.w)) :
    (decode g K).1 < g.w ∧ (decode g K).2.1 < g.h ∧ (decode g K).2.2 < g.d := by
  have hw : 0 < g.w := by
    rcases Nat.eq_zero_or_pos g.w with h | h
    · rw [h] at hK; simp at hK
    · exact h
  have hh : 0 < g.h := by
    rcases Nat.eq_zero_or_pos g.h with h | h
    · rw [h] at hK; simp at hK
    · exact h
  have hhw : 0 < g.h * g.w := Nat.mul_pos hh hw
  refine ⟨Nat.mod_lt _ hw, ?_, ?_⟩
  · simp only [decode]
    rw [Nat.div_lt_iff_lt_mul hw]
    exact Nat.mod_lt _ hhw
  · simp only [decode]
    rw [Nat.div_lt_iff_lt_mul hhw]
    exact hK

theorem index_decode (g : GridShape) (K : Nat) :
    (decode g K).1 + (decode g K).2.1 * g.w + (decode g K).2.2 * g.w * g.h = K := by
  simp only [decode]
  have h1 := Nat.mod_add_div (K % (g.h * g.w)) g.w
  have h2 := Nat.mod_add_div K (g.h * g.w)
  calc K % (g.h * g.w) % g.w + K % (g.h * g.w) / g.w * g.w + K / (g.h * g.w) * g.w * g.h
      = (K % (g.h * g.w) % g.w + g.w * (K % (g.h * g.w) / g.w)) + (g.h * g.w) * (K / (g.h * g.w)) := by ring
    _ = K := by rw [h1, h2]

theorem decode_index (g : GridShape) (x y z : Nat) (hx : x < g.w) (hy : y < g.h) :
    decode g (x + y * g.w + z * g.w * g.h) = (x, y, z) := by
  have hxy : x + y * g.w < g.h * g.w := by
    have := mul_add_lt hy hx
    rw [Nat.add_comm]; exact this
  have hK : x + y * g.w + z * g.w * g.h = (x + y * g.w) + (g.h * g.w) * z := by ring
  simp only [decode]
  rw [hK, Nat.add_mul_mod_self_left, Nat.mod_eq_of_lt hxy, Nat.add_mul_div_left _ _ (by omega), Nat.div_eq_of_lt hxy]
  have h1 : (x + y * g.w) % g.w = x := by rw [Nat.add_mul_mod_self_right, Nat.mod_eq_of_lt hx]
  have h2 : (x + y * g.w) / g.w = y := by
    rw [Nat.add_mul_div_right _ _ (by omega), Nat.div_eq_of_lt hx]; simp
  rw [h1, h2]; simp

theorem size_eq (g : GridShape) : g.size = g.d * (g.h * g.w) := by
  simp only [GridShape.size]; ring

/-- the edges appended for the cell with linear index `K` -/
def cellEdges (g : GridShape) (sfc dst : Rat) (K : Nat) : List CgEdge :=
  (if (decode g K).1 + 1 < g.w then [⟨(K : Int), ((K + 1 : Nat) : Int), sfc, dst⟩] else []) ++
  (if (decode g K).2.1 + 1 < g.h then [⟨(K : Int), ((K + g.w : Nat) : Int), sfc, dst⟩] else []) ++
  (if (decode g K).2.2 + 1 < g.d then [⟨(K : Int), ((K + g.w * g.h : Nat) : Int), sfc, dst⟩] else [])

theorem faceEdges_decode (g : GridShape) (sfc dst : Rat) (K : Nat) (hK : K < g.d * (g.h * g.w)) :
    faceEdges g sfc dst (decode g K) = cellEdges g sfc dst K := by
  obtain ⟨hx, hy, hz⟩ := decode_lt g K hK
  have hidx := index_decode g K
  generalize hdec : decode g K = c at *
  obtain ⟨x, y, z⟩ := c
  simp only at hx hy hz hidx
  have h0 : gci g x y z = (K : Int) := by rw [gci_inside g x y z hx hy hz, hidx]
  unfold faceEdges cellEdges
  simp only [hdec]
  congr 1
  · congr 1
    · by_cases h1 : x + 1 < g.w
      · have h1' : (x : Int) < (g.w : Int) - 1 := by omega
        have hj : gci g (x + 1 : Nat) y z = ((K + 1 : Nat) : Int) := by
          rw [gci_inside g (x + 1) y z h1 hy hz]; congr 1; omega
        simp only [h1, h1', if_true, h0]
        rw [show ((x : Int) + 1) = ((x + 1 : Nat) : Int) by push_cast; rfl, hj]
      · have h1' : ¬ ((x : Int) < (g.w : Int) - 1) := by omega
        simp [h1, h1']
    · by_cases h1 : y + 1 < g.h
      · have h1' : (y : Int) < (g.h : Int) - 1 := by omega
        have hj : gci g x (y + 1 : Nat) z = ((K + g.w : Nat) : Int) := by
          rw [gci_inside g x (y + 1) z hx h1 hz]; congr 1
          rw [← hidx]; ring
        simp only [h1, h1', if_true, h0]
        rw [show ((y : Int) + 1) = ((y + 1 : Nat) : Int) by push_cast; rfl, hj]
      · have h1' : ¬ ((y : Int) < (g.h : Int) - 1) := by omega
        simp [h1, h1']
  · by_cases h1 : z + 1 < g.d
    · have h1' : (z : Int) < (g.d : Int) - 1 := by omega
      have hj : gci g x y (z + 1 : Nat) = ((K + g.w * g.h : Nat) : Int) := by
        rw [gci_inside g x y (z + 1) hx hy h1]; congr 1
        rw [← hidx]; ring
      simp only [h1, h1', if_true, h0]
      rw [show ((z : Int) + 1) = ((z + 1 : Nat) : Int) by push_cast; rfl, hj]
    · have h1' : ¬ ((z : Int) < (g.d : Int) - 1) := by omega
      simp [h1, h1']

/-- the fine edge list of a reflecting grid, cell by cell in index order -/
theorem fine_edges_by_index (g : GridShape) (h : Rat) (envs : List Int) (hrefl : (g.px || g.py || g.pz) = false) :
    (cgGridToGraph g h envs).edges = (List.range (g.d * (g.h * g.w))).flatMap (cellEdges g (h * h) h) := by
  simp only [Bool.or_eq_false_iff] at hrefl
  obtain ⟨⟨h1, h2⟩, h3⟩ := hrefl
  simp only [cgGridToGraph, periodicEdges, h1, h2, h3, Bool.false_eq_true, if_false, List.append_nil]
  rw [gridCoords_eq, List.flatMap_map]
  apply List.flatMap_congr
  intro K hK
  exact faceEdges_decode g (h * h) h K (List.mem_range.1 hK)

theorem index_lt (g : GridShape) (x y z : Nat) (hx : x < g.w) (hy : y < g.h) (hz : z < g.d) :
    x + y * g.w + z * g.w * g.h < g.d * (g.h * g.w) := by
  have h1 : y * g.w + x < g.h * g.w := mul_add_lt hy hx
  have h2 : z * (g.h * g.w) + (y * g.w + x) < g.d * (g.h * g.w) := mul_add_lt hz h1
  have : z * g.w * g.h = z * (g.h * g.w) := by ring
  omega

/-- the neighbours of cell `K` named by its edges: index, and coordinates one step along one axis -/
theorem cellEdges_spec (g : GridShape) (sfc dst : Rat) (K : Nat) (hK : K < g.d * (g.h * g.w)) (e : CgEdge)
    (he : e ∈ cellEdges g sfc dst K) :
    e.i = (K : Int) ∧ e.surface = sfc ∧ e.dist = dst ∧ ∃ J : Nat, e.j = (J : Int) ∧ K < J ∧ J < g.d * (g.h * g.w) ∧
      (decode g J = ((decode g K).1 + 1, (decode g K).2.1, (decode g K).2.2) ∨
       decode g J = ((decode g K).1, (decode g K).2.1 + 1, (decode g K).2.2) ∨
       decode g J = ((decode g K).1, (decode g K).2.1, (decode g K).2.2 + 1)) := by
  obtain ⟨hx, hy, hz⟩ := decode_lt g K hK
  have hidx := index_decode g K
  have hw : 0 < g.w := by omega
  have hh : 0 < g.h := by omega
  simp only [cellEdges, List.mem_append] at he
  rcases he with (he | he) | he
  · split at he
    · rename_i h1
      simp only [List.mem_singleton] at he
      subst he
      refine ⟨rfl, rfl, rfl, K + 1, rfl, by omega, ?_, Or.inl ?_⟩
      · have := index_lt g ((decode g K).1 + 1) (decode g K).2.1 (decode g K).2.2 h1 hy hz
        omega
      · have := decode_index g ((decode g K).1 + 1) (decode g K).2.1 (decode g K).2.2 h1 hy
        rw [← this]; congr 1; omega
    · simp at he
  · split at he
    · rename_i h1
      simp only [List.mem_singleton] at he
      subst he
      have hKw : K + g.w = (decode g K).1 + ((decode g K).2.1 + 1) * g.w + (decode g K).2.2 * g.w * g.h := by
        rw [Nat.add_mul]; omega
      refine ⟨rfl, rfl, rfl, K + g.w, rfl, by omega, ?_, Or.inr (Or.inl ?_)⟩
      · rw [hKw]; exact index_lt g _ _ _ hx h1 hz
      · rw [hKw]; exact decode_index g _ _ _ hx h1
    · simp at he
  · split at he
    · rename_i h1
      simp only [List.mem_singleton] at he
      subst he
      have hKw : K + g.w * g.h = (decode g K).1 + (decode g K).2.1 * g.w + ((decode g K).2.2 + 1) * g.w * g.h := by
        rw [Nat.add_mul, Nat.add_mul, Nat.one_mul]; omega
      have hpos : 0 < g.w * g.h := Nat.mul_pos hw hh
      refine ⟨rfl, rfl, rfl, K + g.w * g.h, rfl, by omega, ?_, Or.inr (Or.inr ?_)⟩
      · rw [hKw]; exact index_lt g _ _ _ hx hy h1
      · rw [hKw]; exact decode_index g _ _ _ hx hy
    · simp at he

theorem cellEdges_keys_nodup (g : GridShape) (sfc dst : Rat) (K : Nat) (hK : K < g.d * (g.h * g.w)) :
    ((cellEdges g sfc dst K).map edgeKey).Nodup := by
  obtain ⟨hx, hy, hz⟩ := decode_lt g K hK
  have hw : 0 < g.w := by omega
  have hh : 0 < g.h := by omega
  have hm1 : g.w ≤ g.w * g.h := Nat.le_mul_of_pos_right _ hh
  have hm2 : 2 ≤ g.h → g.w * 2 ≤ g.w * g.h := fun h => Nat.mul_le_mul_left _ h
  unfold cellEdges
  by_cases h1 : (decode g K).1 + 1 < g.w <;> by_cases h2 : (decode g K).2.1 + 1 < g.h <;>
    by_cases h3 : (decode g K).2.2 + 1 < g.d <;>
    simp only [h1, h2, h3, if_true, if_false, List.nil_append, List.append_nil, List.cons_append, List.map_cons, List.map_nil,
      edgeKey, List.nodup_cons, List.mem_cons, List.mem_singleton, List.not_mem_nil, Prod.mk.injEq, true_and, not_or,
      List.nodup_nil, and_true, not_false_eq_true, or_false]
  all_goals (have := hm2; omega)

theorem fine_keys_nodup (g : GridShape) (sfc dst : Rat) :
    (((List.range (g.d * (g.h * g.w))).flatMap (cellEdges g sfc dst)).map edgeKey).Nodup := by
  rw [List.map_flatMap, List.nodup_flatMap]
  constructor
  · intro K hK
    exact cellEdges_keys_nodup g sfc dst K (List.mem_range.1 hK)
  · -- edges of different cells start at different cells
    have hp : List.Pairwise (fun a b => a < b) (List.range (g.d * (g.h * g.w))) := List.pairwise_lt_range
    have hmem : ∀ K, K ∈ List.range (g.d * (g.h * g.w)) → True := fun _ _ => trivial
    refine List.Pairwise.imp_of_mem ?_ hp
    intro a b ha hb hab
    simp only [Function.onFun]
    intro c hca hcb
    obtain ⟨ea, hea, rfl⟩ := List.mem_map.1 hca
    obtain ⟨eb, heb, hk⟩ := List.mem_map.1 hcb
    have h1 := (cellEdges_spec g sfc dst a (List.mem_range.1 ha) ea hea).1
    have h2 := (cellEdges_spec g sfc dst b (List.mem_range.1 hb) eb heb).1
    simp only [edgeKey, Prod.mk.injEq] at hk
    omega

/-- with the identity map nothing is merged: the loop copies the fine edges (distance still unset) -/
theorem foldl_addEdge_identity (n : Nat) (es acc : List CgEdge)
    (hval : ∀ e ∈ es, ∃ I J : Nat, e.i = (I : Int) ∧ e.j = (J : Int) ∧ I < J ∧ J < n)
    (hnd : ((acc ++ es.map fun e => (⟨e.i, e.j, e.surface, 0⟩ : CgEdge)).map edgeKey).Nodup) :
    es.foldl (addEdge ((List.range n).map fun (i : Nat) => (i : Int))) acc =
      acc ++ es.map fun e => (⟨e.i, e.j, e.surface, 0⟩ : CgEdge) := by
  induction es generalizing acc with
  | nil => simp
  | cons e r ih =>
    obtain ⟨I, J, hi, hj, hIJ, hJn⟩ := hval e (by simp)
    have hgi : ((List.range n).map fun (i : Nat) => (i : Int)).getD e.i.toNat 0 = (I : Int) := by
      rw [hi]; simp [List.getD_eq_getElem?_getD, List.getElem?_map, List.getElem?_range, (by omega : I < n)]
    have hgj : ((List.range n).map fun (i : Nat) => (i : Int)).getD e.j.toNat 0 = (J : Int) := by
      rw [hj]; simp [List.getD_eq_getElem?_getD, List.getElem?_map, List.getElem?_range, hJn]
    have hstep : addEdge ((List.range n).map fun (i : Nat) => (i : Int)) acc e = acc ++ [⟨e.i, e.j, e.surface, 0⟩] := by
      rw [addEdge_eq_G, hgi, hgj]
      unfold addEdgeG
      have h1 : ((I : Int) == (J : Int)) = false := by simp only [beq_eq_false_iff_ne, ne_eq]; omega
      have h2 : ((I : Int) == -1 || (J : Int) == -1) = false := by
        simp only [Bool.or_eq_false_iff, beq_eq_false_iff_ne, ne_eq]; omega
      have hmin : min (I : Int) (J : Int) = I := by omega
      have hmax : max (I : Int) (J : Int) = J := by omega
      rw [h1, h2, hmin, hmax]
      simp only [Bool.false_eq_true, if_false]
      have hno : (acc.any fun o => o.i == (I : Int) && o.j == (J : Int)) = false := by
        rw [List.any_eq_false]
        intro o ho hmatch
        simp only [Bool.and_eq_true, beq_iff_eq] at hmatch
        simp only [List.map_append, List.map_cons] at hnd
        have hdis := (List.nodup_append.1 hnd).2.2
        exact hdis (edgeKey o) (List.mem_map_of_mem ho) (edgeKey o) (by
          simp only [edgeKey, List.mem_cons, Prod.mk.injEq]
          left; rw [hmatch.1, hmatch.2, hi, hj]; exact ⟨rfl, rfl⟩) rfl
      rw [hno]
      simp [hi, hj]
    simp only [List.foldl_cons, hstep]
    have hrec := ih (acc ++ [(⟨e.i, e.j, e.surface, 0⟩ : CgEdge)]) (fun e' he' => hval e' (by simp [he']))
      (by simpa using hnd)
    rw [hrec]
    simp

/-- the identity index map of `n` cells -/
def idMap (n : Nat) : List (Option Int) := (List.range n).map fun (i : Nat) => some (i : Int)

theorem idMap_ints (n : Nat) : (idMap n).filterMap id = (List.range n).map fun (i : Nat) => (i : Int) := by
  simp [idMap, List.filterMap_map]

theorem list_eq_map_range (l : List Int) : l = (List.range l.length).map fun i => l.getD i 0 := by
  apply List.ext_getElem?
  intro i
  by_cases hi : i < l.length
  · simp [List.getElem?_map, List.getElem?_range, hi, List.getD_eq_getElem?_getD]
  · simp [List.getElem?_map, List.getElem?_range, hi, List.getElem?_eq_none (Nat.le_of_not_lt hi)]

theorem idMap_valid (n : Nat) (hn : 0 < n) (envs : List Int) (hlen : envs.length = n) : ValidMap (idMap n) envs := by
  refine ⟨by simp [idMap, hlen], by simp [idMap], ?_, ?_, ?_, ?_⟩
  · rw [idMap_ints]; intro x hx
    obtain ⟨i, _, rfl⟩ := List.mem_map.1 hx
    omega
  · rw [idMap_ints]
    exact ⟨0, List.mem_map.2 ⟨0, List.mem_range.2 hn, rfl⟩, le_refl 0⟩
  · rw [idMap_ints]
    rintro k ⟨x, hx, hkx⟩
    obtain ⟨i, hi, rfl⟩ := List.mem_map.1 hx
    have := List.mem_range.1 hi
    exact List.mem_map.2 ⟨k, List.mem_range.2 (by omega), rfl⟩
  · rw [idMap_ints]
    have he := list_eq_map_range envs
    rw [hlen] at he
    rw [he, List.zip_map', NoMix, List.pairwise_map]
    refine List.Pairwise.imp ?_ (List.pairwise_lt_range (n := n))
    intro a b hab heq
    simp only at heq
    omega

theorem nGroups_idMap (n : Nat) (hn : 0 < n) : nGroups (idMap n) = n := by
  unfold nGroups
  rw [idMap_ints]
  have hne : ((List.range n).map fun (i : Nat) => (i : Int)) ≠ [] := by
    intro h
    have := congrArg List.length h
    simp at this; omega
  obtain ⟨mx, hmx⟩ := listMax_isSome hne
  have hmem := listMax_mem hmx
  obtain ⟨i, hi, rfl⟩ := List.mem_map.1 hmem
  have hlast := listMax_ge hmx ((n - 1 : Nat) : Int) (List.mem_map.2 ⟨n - 1, List.mem_range.2 (by omega), rfl⟩)
  have := List.mem_range.1 hi
  rw [hmx]
  simp only [Option.getD_some]
  omega

/-- identity pairs: slot `k` receives exactly the `k`-th value -/
theorem slotSum_identity (n k : Nat) (hk : k < n) (f : Nat → Rat) :
    slotSum k ((List.range n).map fun (i : Nat) => ((i : Int), f i)) = f k := by
  rw [slotSum_map]
  have : (fun (x : Nat) => if (cgKeep ((x : Int), f x).1 && ((x : Int), f x).1.toNat == k) = true then ((x : Int), f x).2 else 0) =
      fun x => if x = k then f x else 0 := by
    funext x
    have hkeep : cgKeep (x : Int) = true := by simp only [cgKeep, bne_iff_ne, ne_eq]; omega
    simp [hkeep]
  rw [this, sum_range_ite_eq n k hk]

theorem zip_identity (n : Nat) (vals : List Rat) (hl : vals.length = n) :
    ((List.range n).map fun (i : Nat) => (i : Int)).zip vals = (List.range n).map fun (i : Nat) => ((i : Int), vals.getD i 0) := by
  have hv : vals = (List.range n).map fun i => vals.getD i 0 := by
    apply List.ext_getElem?
    intro i
    by_cases hi : i < n
    · simp [List.getElem?_map, List.getElem?_range, hi, List.getD_eq_getElem?_getD, hl]
    · simp [List.getElem?_map, List.getElem?_range, hi, List.getElem?_eq_none (by omega : vals.length ≤ i)]
  conv_lhs => rw [hv]
  rw [List.zip_map']

theorem scatterSet_length (n : Nat) (pairs : List (Int × Int)) : (scatterSet n pairs).length = n := by
  rw [scatterSet_eq]
  have : ∀ (l : List (Int × Int)) (acc : List Int), (l.foldl setStep acc).length = acc.length := by
    intro l
    induction l with
    | nil => intro acc; rfl
    | cons p r ih => intro acc; simp [List.foldl_cons, ih, setStep_length]
  rw [this]; simp

theorem centroid_identity {g : GridShape} {h : Rat} {uv ug : Sys} {envs : List Int} {sp : CgSpace}
    (hpos : 0 < g.size) (hok : coarsegrainGrid g h uv ug envs (idMap g.size) = .ok sp) (k : Nat) (hk : k < g.size) :
    sp.cx.getD k 0 = ((decode g k).1 : Rat) * h ∧ sp.cy.getD k 0 = ((decode g k).2.1 : Rat) * h ∧
    sp.cz.getD k 0 = ((decode g k).2.2 : Rat) * h := by
  have hng := nGroups_idMap g.size hpos
  obtain ⟨hx, hy, hz⟩ := cg_centroid_aux hok k (by rw [hng]; exact hk)
  have hn := size_eq g
  have hcnt : slotSum k (((idMap g.size).filterMap id).map fun gI => (gI, (1 : Rat))) = 1 := by
    rw [idMap_ints, List.map_map]
    exact slotSum_identity g.size k hk (fun _ => 1)
  have hco : ∀ f : Nat × Nat × Nat → Rat,
      slotSum k (((idMap g.size).filterMap id).zip ((gridCoords g).map f)) = f (decode g k) := by
    intro f
    rw [idMap_ints, zip_identity g.size _ (by rw [gridCoords_eq, ← hn]; simp), slotSum_identity g.size k hk]
    rw [gridCoords_eq, ← hn]
    simp [List.getD_eq_getElem?_getD, List.getElem?_map, List.getElem?_range, hk]
  rw [hcnt] at hx hy hz
  rw [hco (fun c => (c.1 : Rat) * h)] at hx
  rw [hco (fun c => (c.2.1 : Rat) * h)] at hy
  rw [hco (fun c => (c.2.2 : Rat) * h)] at hz
  simp only [List.getD_eq_getElem?_getD, hx, hy, hz]
  simp

theorem identity_map_aux (g : GridShape) (h : Rat) (uv ug : Sys) (envs : List Int)
    (hrefl : (g.px || g.py || g.pz) = false) (hpos : 0 < g.size) (hlen : envs.length = g.size) (henv : ∀ e ∈ envs, e ≠ -2) :
    ∃ sp, coarsegrainGrid g h uv ug envs (idMap g.size) = .ok sp ∧
      sp.vols = (cgGridToGraph g h envs).vols.map (· * convFactor uv ug Dim.volume) ∧
      sp.envs = (cgGridToGraph g h envs).envs ∧
      sp.edges.map (fun e => (e.i, e.j, e.surface, e.dist)) =
        (cgGridToGraph g h envs).edges.map (fun e => (e.i, e.j, e.surface, e.dist * e.dist)) := by
  have hn := size_eq g
  have hchk : checkIndexMap (idMap g.size) envs = .ok () :=
    (valid_iff_aux _ envs henv).2 (idMap_valid g.size hpos envs hlen)
  have hex : ∃ sp, coarsegrainGrid g h uv ug envs (idMap g.size) = .ok sp := by
    unfold coarsegrainGrid
    rw [if_neg (by simp [hrefl])]
    simp only [cgGridToGraph] at hchk ⊢
    simp only [hchk]
    exact ⟨_, rfl⟩
  obtain ⟨sp, hok⟩ := hex
  have hng := nGroups_idMap g.size hpos
  obtain ⟨_, _, hv, hen⟩ := coarsegrainGrid_ok hok
  obtain ⟨hedges, hcnt, hcx, hcy, hcz⟩ := coarsegrainGrid_geometry hok
  refine ⟨sp, hok, ?_, ?_, ?_⟩
  · -- volumes
    rw [hv]
    change scatterAdd (nGroups (idMap g.size)) _ = _
    rw [hng, idMap_ints]
    simp only [cgGridToGraph]
    apply List.ext_getElem?
    intro k
    by_cases hk : k < g.size
    · rw [scatterAdd_get _ _ _ hk, zip_identity g.size _ (by simp), slotSum_identity g.size k hk]
      simp [List.getD_eq_getElem?_getD, hk]
    · have h1 : (scatterAdd g.size (((List.range g.size).map fun (i : Nat) => (i : Int)).zip
          ((List.replicate g.size (h * h * h)).map (· * convFactor uv ug Dim.volume)))).length = g.size := scatterAdd_length _ _
      rw [List.getElem?_eq_none (by omega), List.getElem?_eq_none (by simp; omega)]
  · -- environments
    simp only [cgGridToGraph]
    apply List.ext_getElem?
    intro k
    have hl : sp.envs.length = g.size := by
      rw [hen]
      change (scatterSet (nGroups (idMap g.size)) _).length = _
      rw [scatterSet_length, hng]
    by_cases hk : k < g.size
    · have hmem : ((k : Int), envs.getD k 0) ∈ ((idMap g.size).filterMap id).zip envs := by
        rw [idMap_ints]
        apply List.mem_of_getElem? (i := k)
        rw [List.getElem?_zip_eq_some]
        constructor
        · simp [List.getElem?_map, List.getElem?_range, hk]
        · simp only [List.getD_eq_getElem?_getD]
          rw [List.getElem?_eq_getElem (by omega)]
          simp
      have := cg_env_aux henv hok _ hmem (by simp only; omega)
      simp only [Int.toNat_natCast] at this
      rw [this, List.getD_eq_getElem?_getD, List.getElem?_eq_getElem (by omega)]
      simp
    · rw [List.getElem?_eq_none (by omega), List.getElem?_eq_none (by omega)]
  · -- edges
    have hfine := fine_edges_by_index g h envs hrefl
    have hval : ∀ e ∈ (cgGridToGraph g h envs).edges, ∃ K J : Nat, e.i = (K : Int) ∧ e.j = (J : Int) ∧ K < J ∧ J < g.size ∧
        e.surface = h * h ∧ e.dist = h ∧
        (decode g J = ((decode g K).1 + 1, (decode g K).2.1, (decode g K).2.2) ∨
         decode g J = ((decode g K).1, (decode g K).2.1 + 1, (decode g K).2.2) ∨
         decode g J = ((decode g K).1, (decode g K).2.1, (decode g K).2.2 + 1)) := by
      intro e he
      rw [hfine] at he
      obtain ⟨K, hK, heK⟩ := List.mem_flatMap.1 he
      obtain ⟨h1, h2, h3, J, h4, h5, h6, h7⟩ := cellEdges_spec g (h * h) h K (List.mem_range.1 hK) e heK
      exact ⟨K, J, h1, h4, h5, by rw [hn]; exact h6, h2, h3, h7⟩
    have hfold : (cgGridToGraph g h envs).edges.foldl (addEdge ((idMap g.size).filterMap id)) [] =
        (cgGridToGraph g h envs).edges.map fun e => (⟨e.i, e.j, e.surface, 0⟩ : CgEdge) := by
      rw [idMap_ints]
      have := foldl_addEdge_identity g.size (cgGridToGraph g h envs).edges []
        (fun e he => by
          obtain ⟨K, J, h1, h2, h3, h4, _⟩ := hval e he
          exact ⟨K, J, h1, h2, h3, h4⟩)
        (by
          simp only [List.nil_append, List.map_map]
          have : (edgeKey ∘ fun e => (⟨e.i, e.j, e.surface, 0⟩ : CgEdge)) = edgeKey := by funext e; rfl
          rw [this, hfine]
          exact fine_keys_nodup g (h * h) h)
      simpa using this
    rw [hedges, hfold]
    simp only [List.map_map]
    apply List.map_congr_left
    intro e he
    obtain ⟨K, J, h1, h2, h3, h4, h5, h6, h7⟩ := hval e he
    have hcK := centroid_identity hpos hok K (by omega)
    have hcJ := centroid_identity hpos hok J h4
    simp only [Function.comp, h1, h2, Int.toNat_natCast, hcK.1, hcK.2.1, hcK.2.2, hcJ.1, hcJ.2.1, hcJ.2.2, h6, Prod.mk.injEq, true_and]
    rcases h7 with h7 | h7 | h7 <;>
    · rw [h7]
      simp only [sq]
      push_cast
      ring

theorem identity_state_aux {g : GridShape} {h : Rat} {uv ug : Sys} {envs : List Int} {ns : Nat} {state : List Rat} {chem : List Int}
    {c : CgSystem} (hpos : 0 < g.size) (hok : coarsegrainSystem g h uv ug envs ns state chem (idMap g.size) = .ok c)
    (s k : Nat) (hs : s < ns) (hk : k < g.size) :
    c.state[s * g.size + k]? = some (state.getD (s * g.size + k) 0) := by
  have hng := nGroups_idMap g.size hpos
  have := cg_group_amount_aux hok s k hs (by rw [hng]; exact hk)
  rw [hng] at this
  rw [this, idMap_ints]
  congr 1
  have hz : ((List.range g.size).map fun (i : Nat) => (i : Int)).zipIdx = (List.range g.size).map fun (i : Nat) => ((i : Int), i) := by
    apply List.ext_getElem?
    intro i
    by_cases hi : i < g.size
    · simp [List.getElem?_zipIdx, List.getElem?_range, hi]
    · simp [List.getElem?_zipIdx, List.getElem?_range, hi]
  rw [hz, List.map_map]
  have hsum : ∀ i ∈ List.range g.size,
      ((fun (p : Int × Nat) => if p.1 = (k : Int) then state.getD (s * g.size + p.2) 0 else 0) ∘ fun (i : Nat) => ((i : Int), i)) i =
        if i = k then state.getD (s * g.size + i) 0 else 0 := by
    intro i _
    simp only [Function.comp]
    by_cases hik : i = k
    · simp [hik]
    · have : ¬ ((i : Int) = (k : Int)) := by omega
      simp [hik, this]
  rw [List.map_congr_left hsum, sum_range_ite_eq g.size k hk]

end Strengths
