/-
Helper lemmas for C16 (coarse-graining).
-/
import Mathlib.Algebra.Order.Field.Rat
import Mathlib.Tactic.Linarith
import Mathlib.Tactic.Ring
import Mathlib.Tactic.FieldSimp
import Strengths.Model.Coarsegrain
import Strengths.Proofs.Units
import Strengths.Proofs.Trajectory

namespace Strengths
open Gen

end Strengths
