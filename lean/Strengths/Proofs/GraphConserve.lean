/-
The diffusion sums of the deterministic engine vanish on every graph space (C02): the two half-edges that
`SetNeighbors` pushes for one edge carry opposite fluxes (`Build_mesh_kd`: symmetric interface diffusivity,
`kd_out` of one side = `kd_in` of the other).  Proved by induction over the edge list.
-/
import Strengths.Proofs.EulerConserve

namespace Strengths
open Finset

theorem interfaceD_symm (hi hj Di Dj : Rat) : interfaceD hi hj Di Dj = interfaceD hj hi Dj Di := by
  unfold interfaceD
  by_cases h1 : Di = 0 <;> by_cases h2 : Dj = 0 <;> simp [h1, h2, add_comm]

/-- flux through one half-edge of node `i` (entry `(j, surface, distance)` of its neighbour lists) -/
def slotFlux (net : Net) (env : Nat → Nat) (vol edge : Nat → Rat) (x : State) (s i : Nat) (p : Nat × Rat × Rat) : Rat :=
  x i s * (interfaceD (edge i) (edge p.1) (net.dcoef s (env i)) (net.dcoef s (env p.1)) * p.2.1 / (vol i * p.2.2)) -
  x p.1 s * (interfaceD (edge i) (edge p.1) (net.dcoef s (env i)) (net.dcoef s (env p.1)) * p.2.1 / (vol p.1 * p.2.2))

theorem slotFlux_antisymm (net : Net) (env : Nat → Nat) (vol edge : Nat → Rat) (x : State) (s i j : Nat) (sfc dst : Rat) :
    slotFlux net env vol edge x s i (j, sfc, dst) + slotFlux net env vol edge x s j (i, sfc, dst) = 0 := by
  simp only [slotFlux]
  rw [interfaceD_symm (edge j) (edge i)]
  ring

/-- a sum over the positions of a list = the sum of the list -/
theorem sum_range_getElem? {α : Type} (l : List α) (f : α → Rat) :
    ∑ n ∈ range l.length, (match l[n]? with | some a => f a | none => 0) = (l.map f).sum := by
  induction l with
  | nil => simp
  | cons a rest ih =>
    rw [List.length_cons, Finset.sum_range_succ', List.map_cons, List.sum_cons]
    simp only [List.getElem?_cons_succ, List.getElem?_cons_zero]
    rw [ih]; ring

/-- the slot sum of one node, in list form -/
theorem graph_slot_sum (nN : Nat) (edges : List GEdge) (net : Net) (env : Nat → Nat) (vol edge : Nat → Rat)
    (chem : Nat → Nat → Bool) (vol' : Nat → Rat) (x : State) (s i : Nat) :
    let e : EngIn := { net := net, topo := graphTopo nN edges net env vol edge, env := env, chem := chem, vol := vol' }
    ∑ n ∈ range (e.topo.nSlots i), (if (e.topo.nbr i n).isSome then diffusionRateDifference e x i s n else 0) =
      ((graphSlots edges i).map (slotFlux net env vol edge x s i)).sum := by
  intro e
  rw [← sum_range_getElem?]
  show ∑ n ∈ range (graphSlots edges i).length, _ = _
  apply Finset.sum_congr rfl
  intro n hn
  have hlt : n < (graphSlots edges i).length := Finset.mem_range.1 hn
  simp only [e, diffusionRateDifference, graphTopo]
  have hg : (graphSlots edges i)[n]? = some (graphSlots edges i)[n] := List.getElem?_eq_getElem hlt
  simp only [hg, Option.map_some, Option.isSome_some, if_true, slotFlux]

/-- induction over the edge list: every edge contributes a flux and its opposite -/
theorem graph_flux_sum_zero (nN : Nat) (net : Net) (env : Nat → Nat) (vol edge : Nat → Rat) (x : State) (s : Nat) :
    ∀ (edges : List GEdge), (∀ ed ∈ edges, ed.i < nN ∧ ed.j < nN) →
      ∑ i ∈ range nN, ((graphSlots edges i).map (slotFlux net env vol edge x s i)).sum = 0 := by
  intro edges
  induction edges with
  | nil => intro _; simp [graphSlots]
  | cons ed rest ih =>
    intro hv
    have hed := hv ed (by simp)
    have hrest := ih (fun e' he' => hv e' (by simp [he']))
    have hsplit : ∀ i, ((graphSlots (ed :: rest) i).map (slotFlux net env vol edge x s i)).sum =
        (if ed.i = i then slotFlux net env vol edge x s i (ed.j, ed.sfc, ed.dst) else 0) +
        (if ed.j = i then slotFlux net env vol edge x s i (ed.i, ed.sfc, ed.dst) else 0) +
        ((graphSlots rest i).map (slotFlux net env vol edge x s i)).sum := by
      intro i
      simp only [graphSlots, List.flatMap_cons, List.map_append, List.sum_append]
      by_cases h1 : ed.i = i <;> by_cases h2 : ed.j = i <;> simp [h1, h2]
    rw [Finset.sum_congr rfl (fun i _ => hsplit i), Finset.sum_add_distrib, Finset.sum_add_distrib, hrest, add_zero]
    rw [Finset.sum_ite_eq (range nN) ed.i, Finset.sum_ite_eq (range nN) ed.j]
    simp only [Finset.mem_range, hed.1, hed.2, if_true]
    exact slotFlux_antisymm net env vol edge x s ed.i ed.j ed.sfc ed.dst

/-- the graph space is diffusion balanced: every edge list over the nodes, every volume / surface / distance -/
theorem graph_diffusionBalanced (nN : Nat) (edges : List GEdge) (hv : ∀ ed ∈ edges, ed.i < nN ∧ ed.j < nN)
    (net : Net) (env : Nat → Nat) (vol edge : Nat → Rat) (chem : Nat → Nat → Bool) (vol' : Nat → Rat) (x : State) :
    DiffusionBalanced { net := net, topo := graphTopo nN edges net env vol edge, env := env, chem := chem, vol := vol' } x := by
  intro s
  have h := graph_flux_sum_zero nN net env vol edge x s edges hv
  refine Eq.trans (Finset.sum_congr rfl (fun i _ => ?_)) h
  exact graph_slot_sum nN edges net env vol edge chem vol' x s i

/-- every neighbour of a graph node is a node -/
theorem graph_topo_ok (nN : Nat) (edges : List GEdge) (hv : ∀ ed ∈ edges, ed.i < nN ∧ ed.j < nN)
    (net : Net) (env : Nat → Nat) (vol edge : Nat → Rat) (chem : Nat → Nat → Bool) (vol' : Nat → Rat) :
    TopoOK { net := net, topo := graphTopo nN edges net env vol edge, env := env, chem := chem, vol := vol' } := by
  intro i n j hi hn hj
  simp only [graphTopo] at hj hn
  have hlt : n < (graphSlots edges i).length := hn
  rw [List.getElem?_eq_getElem hlt] at hj
  simp only [Option.map_some, Option.some.injEq] at hj
  have hmem : (graphSlots edges i)[n] ∈ graphSlots edges i := List.getElem_mem hlt
  generalize (graphSlots edges i)[n] = p at hj hmem
  simp only [graphSlots, List.mem_flatMap, List.mem_append] at hmem
  obtain ⟨ed, hed, h⟩ := hmem
  rcases h with h | h
  · split at h
    · simp only [List.mem_singleton] at h; subst h; simp only at hj; rw [← hj]; exact (hv ed hed).2
    · simp at h
  · split at h
    · simp only [List.mem_singleton] at h; subst h; simp only at hj; rw [← hj]; exact (hv ed hed).1
    · simp at h

end Strengths
