/-
Tau-leap `Apply_nevt` in closed form (C07 / C02 / C03): the sequential in-place update, cell by cell, reaction
by reaction, slot by slot, equals the order-independent sum of count × (chemostat-masked) effect.
-/
import Strengths.Proofs.Conserve

namespace Strengths
open Finset

/-- a fold whose every step changes the value of a functional `F` by a step-dependent amount -/
theorem functional_foldl {α : Type} (F : State → Rat) (step : State → α → State) (δ : α → Rat) :
    ∀ (l : List α) (x : State), (∀ y a, a ∈ l → F (step y a) = F y + δ a) →
      F (l.foldl step x) = F x + (l.map δ).sum := by
  intro l
  induction l with
  | nil => intro x _; simp
  | cons a rest ih =>
    intro x h
    rw [List.foldl_cons, ih (step x a) (fun y b hb => h y b (by simp [hb])), h x a (by simp)]
    simp [add_assoc]

theorem functional_foldl_range (F : State → Rat) (step : State → Nat → State) (δ : Nat → Rat) (k : Nat) (x : State)
    (h : ∀ y a, a < k → F (step y a) = F y + δ a) :
    F ((List.range k).foldl step x) = F x + ∑ a ∈ range k, δ a := by
  rw [functional_foldl F step δ (List.range k) x (fun y a ha => h y a (List.mem_range.1 ha)), list_range_map_sum]

/-- moving `m` from `(i, s)` to `(j, s)`, each side unless chemostated: pointwise value -/
theorem move_get (e : EngIn) (x : State) (i j s : Nat) (m : Rat) (i' s' : Nat) :
    (let x' := if e.chem i s then x else x.update i s (x i s - m)
     if e.chem j s then x' else x'.update j s (x' j s + m)) i' s' =
      x i' s' - (if i' = i ∧ s' = s ∧ e.chem i s = false then m else 0)
              + (if i' = j ∧ s' = s ∧ e.chem j s = false then m else 0) := by
  cases hci : e.chem i s <;> cases hcj : e.chem j s <;>
    simp only [State.update_get, if_true, if_false, Bool.false_eq_true] <;>
    by_cases h1 : i' = i <;> by_cases h2 : s' = s <;> by_cases h3 : i' = j <;> simp [h1, h2, h3] <;>
    (try subst h1) <;> (try subst h2) <;> (try subst h3) <;> simp_all

/-- the reaction part of cell `i` (first double fold of `applyNevtCell`) -/
def reactPart (e : EngIn) (c : Counts) (x : State) (i : Nat) : State :=
  (List.range e.net.nReact).foldl (fun x r =>
    (List.range e.net.nSpecies).foldl (fun x j =>
      if e.chem i j then x else x.update i j (x i j + (e.net.sto j r : Rat) * (c.nr i r : Rat))) x) x

/-- the diffusion part of cell `i` (second double fold) -/
def diffPart (e : EngIn) (c : Counts) (x : State) (i : Nat) : State :=
  (List.range e.net.nSpecies).foldl (fun x s =>
    (List.range (e.topo.nSlots i)).foldl (fun x n =>
      if c.nd i s n == 0 then x
      else
        let x' := if e.chem i s then x else x.update i s (x i s - (c.nd i s n : Rat))
        match e.topo.nbr i n with
        | none => x'
        | some j => if e.chem j s then x' else x'.update j s (x' j s + (c.nd i s n : Rat))) x) x

theorem applyNevtCell_eq (e : EngIn) (c : Counts) (x : State) (i : Nat) :
    applyNevtCell e c x i = diffPart e c (reactPart e c x i) i := rfl

/-- increment of entry `(i', s')` caused by reaction `r` firing `nr i r` times in cell `i`, species `j` -/
def reactDelta (e : EngIn) (c : Counts) (i' s' i r j : Nat) : Rat :=
  if i' = i ∧ s' = j ∧ e.chem i j = false then (e.net.sto j r : Rat) * (c.nr i r : Rat) else 0

/-- increment of entry `(i', s')` caused by the `nd i s n` molecules of species `s` leaving cell `i` through slot `n` -/
def diffDelta (e : EngIn) (c : Counts) (i' s' i s n : Nat) : Rat :=
  - (if i' = i ∧ s' = s ∧ e.chem i s = false then (c.nd i s n : Rat) else 0)
  + (if e.topo.nbr i n = some i' ∧ s' = s ∧ e.chem i' s = false then (c.nd i s n : Rat) else 0)

theorem reactPart_get (e : EngIn) (c : Counts) (x : State) (i i' s' : Nat) :
    (reactPart e c x i) i' s' = x i' s' +
      ∑ r ∈ range e.net.nReact, ∑ j ∈ range e.net.nSpecies, reactDelta e c i' s' i r j := by
  unfold reactPart
  refine functional_foldl_range (fun y => y i' s') _ _ _ x (fun y r _ => ?_)
  refine functional_foldl_range (fun y => y i' s') _ _ _ y (fun z j _ => ?_)
  simp only [reactDelta]
  cases hc : e.chem i j
  · simp only [Bool.false_eq_true, if_false, State.update_get]
    by_cases h : i' = i ∧ s' = j
    · obtain ⟨rfl, rfl⟩ := h; simp
    · simp [h]
  · simp

theorem diffPart_get (e : EngIn) (c : Counts) (x : State) (i i' s' : Nat) :
    (diffPart e c x i) i' s' = x i' s' +
      ∑ s ∈ range e.net.nSpecies, ∑ n ∈ range (e.topo.nSlots i), diffDelta e c i' s' i s n := by
  unfold diffPart
  refine functional_foldl_range (fun y => y i' s') _ _ _ x (fun y s _ => ?_)
  refine functional_foldl_range (fun y => y i' s') _ _ _ y (fun z n _ => ?_)
  simp only [diffDelta]
  by_cases h0 : (c.nd i s n == 0) = true
  · have hz : c.nd i s n = 0 := by simpa using h0
    simp [h0, hz]
  · have h0' : (c.nd i s n == 0) = false := by simpa using h0
    simp only [h0', Bool.false_eq_true, if_false]
    cases hn : e.topo.nbr i n with
    | none =>
      simp only [reduceCtorEq, false_and, if_false, add_zero]
      cases hci : e.chem i s
      · simp only [Bool.false_eq_true, if_false, State.update_get]
        by_cases h : i' = i ∧ s' = s
        · obtain ⟨rfl, rfl⟩ := h; simp; ring
        · simp [h]
      · simp
    | some j =>
      have := move_get e z i j s (c.nd i s n : Rat) i' s'
      simp only at this
      rw [this]
      have hiff : (some j = some i' ∧ s' = s ∧ e.chem i' s = false) ↔ (i' = j ∧ s' = s ∧ e.chem j s = false) := by
        constructor
        · rintro ⟨h1, h2, h3⟩; cases h1; exact ⟨rfl, h2, h3⟩
        · rintro ⟨h1, h2, h3⟩; subst h1; exact ⟨rfl, h2, h3⟩
      simp only [hiff]; ring

/-- one cell's contribution to entry `(i', s')` -/
def cellDelta (e : EngIn) (c : Counts) (i' s' i : Nat) : Rat :=
  ∑ r ∈ range e.net.nReact, ∑ j ∈ range e.net.nSpecies, reactDelta e c i' s' i r j +
  ∑ s ∈ range e.net.nSpecies, ∑ n ∈ range (e.topo.nSlots i), diffDelta e c i' s' i s n

/-- `Apply_nevt` pointwise: the value of every entry is its old value plus the sum, over all cells, reactions,
species and slots, of the increments — whatever the order in which the engine applies them -/
theorem tauLeapApply_get (e : EngIn) (c : Counts) (x : State) (i' s' : Nat) :
    (tauLeapApply e c x) i' s' = x i' s' + ∑ i ∈ range e.topo.nCells, cellDelta e c i' s' i := by
  unfold tauLeapApply
  refine functional_foldl_range (fun y => y i' s') _ _ _ x (fun y i _ => ?_)
  simp only [applyNevtCell_eq, diffPart_get, reactPart_get, cellDelta]; ring

/-- a sum of indicator terms `[a0 = a ∧ P a]·g a` over a range containing `a0` has the single term `a0` -/
theorem sum_range_ite_eq_and (k a0 : Nat) (h : a0 < k) (P : Nat → Prop) [DecidablePred P] (g : Nat → Rat) :
    ∑ a ∈ range k, (if a0 = a ∧ P a then g a else 0) = if P a0 then g a0 else 0 := by
  rw [Finset.sum_eq_single_of_mem a0 (mem_range.2 h)]
  · simp
  · intro b _ hb
    have : ¬ (a0 = b ∧ P b) := fun hc => hb hc.1.symm
    rw [if_neg this]

/-- net number of events that change entry `(i', s')`: reactions of the cell, minus molecules leaving through its
slots, plus molecules arriving through every slot `(j, m)` of the space that leads to `i'` -/
def netChange (e : EngIn) (c : Counts) (i' s' : Nat) : Rat :=
  ∑ r ∈ range e.net.nReact, (e.net.sto s' r : Rat) * (c.nr i' r : Rat)
  - ∑ n ∈ range (e.topo.nSlots i'), (c.nd i' s' n : Rat)
  + ∑ j ∈ range e.topo.nCells, ∑ m ∈ range (e.topo.nSlots j),
      (if e.topo.nbr j m = some i' then (c.nd j s' m : Rat) else 0)

theorem sum_cellDelta (e : EngIn) (c : Counts) {i' s' : Nat} (hi : i' < e.topo.nCells) (hs : s' < e.net.nSpecies) :
    ∑ i ∈ range e.topo.nCells, cellDelta e c i' s' i =
      if e.chem i' s' = true then 0 else netChange e c i' s' := by
  unfold cellDelta
  rw [Finset.sum_add_distrib]
  -- reactions
  have hR : ∑ i ∈ range e.topo.nCells, ∑ r ∈ range e.net.nReact, ∑ j ∈ range e.net.nSpecies, reactDelta e c i' s' i r j =
      if e.chem i' s' = false then ∑ r ∈ range e.net.nReact, (e.net.sto s' r : Rat) * (c.nr i' r : Rat) else 0 := by
    have h1 : ∀ i ∈ range e.topo.nCells, ∑ r ∈ range e.net.nReact, ∑ j ∈ range e.net.nSpecies, reactDelta e c i' s' i r j =
        if i' = i ∧ True then
          (if e.chem i s' = false then ∑ r ∈ range e.net.nReact, (e.net.sto s' r : Rat) * (c.nr i r : Rat) else 0) else 0 := by
      intro i _
      by_cases hii : i' = i
      · subst hii
        simp only [and_true, if_true]
        have : ∀ r ∈ range e.net.nReact, ∑ j ∈ range e.net.nSpecies, reactDelta e c i' s' i' r j =
            if e.chem i' s' = false then (e.net.sto s' r : Rat) * (c.nr i' r : Rat) else 0 := by
          intro r _
          unfold reactDelta
          have := sum_range_ite_eq_and e.net.nSpecies s' hs (fun j => e.chem i' j = false)
            (fun j => (e.net.sto j r : Rat) * (c.nr i' r : Rat))
          simpa using this
        rw [Finset.sum_congr rfl this]
        by_cases hc : e.chem i' s' = false
        · simp [hc]
        · simp [hc]
      · simp only [hii, false_and, if_false]
        apply Finset.sum_eq_zero; intro r _; apply Finset.sum_eq_zero; intro j _
        simp [reactDelta, hii]
    rw [Finset.sum_congr rfl h1, sum_range_ite_eq_and e.topo.nCells i' hi (fun _ => True)]
    simp
  -- diffusion
  have hD : ∑ i ∈ range e.topo.nCells, ∑ s ∈ range e.net.nSpecies, ∑ n ∈ range (e.topo.nSlots i), diffDelta e c i' s' i s n =
      (if e.chem i' s' = false then - ∑ n ∈ range (e.topo.nSlots i'), (c.nd i' s' n : Rat) else 0) +
      (if e.chem i' s' = false then ∑ j ∈ range e.topo.nCells, ∑ m ∈ range (e.topo.nSlots j),
          (if e.topo.nbr j m = some i' then (c.nd j s' m : Rat) else 0) else 0) := by
    unfold diffDelta
    simp only [Finset.sum_add_distrib]
    congr 1
    · -- leaving
      have h1 : ∀ i ∈ range e.topo.nCells, ∑ s ∈ range e.net.nSpecies, ∑ n ∈ range (e.topo.nSlots i),
          (-(if i' = i ∧ s' = s ∧ e.chem i s = false then (c.nd i s n : Rat) else 0)) =
          if i' = i ∧ True then
            (if e.chem i s' = false then - ∑ n ∈ range (e.topo.nSlots i), (c.nd i s' n : Rat) else 0) else 0 := by
        intro i _
        by_cases hii : i' = i
        · subst hii
          simp only [true_and, and_true, if_true]
          have : ∀ s ∈ range e.net.nSpecies, ∑ n ∈ range (e.topo.nSlots i'),
              (-(if s' = s ∧ e.chem i' s = false then (c.nd i' s n : Rat) else 0)) =
              if s' = s ∧ e.chem i' s = false then - ∑ n ∈ range (e.topo.nSlots i'), (c.nd i' s n : Rat) else 0 := by
            intro s _
            by_cases hc : s' = s ∧ e.chem i' s = false
            · simp [hc]
            · simp [hc]
          rw [Finset.sum_congr rfl this]
          exact sum_range_ite_eq_and e.net.nSpecies s' hs (fun s => e.chem i' s = false)
            (fun s => - ∑ n ∈ range (e.topo.nSlots i'), (c.nd i' s n : Rat))
        · simp only [hii, false_and, if_false]
          simp
      rw [Finset.sum_congr rfl h1, sum_range_ite_eq_and e.topo.nCells i' hi (fun _ => True)]
      simp
    · -- arriving
      have h1 : ∀ i ∈ range e.topo.nCells, ∑ s ∈ range e.net.nSpecies, ∑ n ∈ range (e.topo.nSlots i),
          (if e.topo.nbr i n = some i' ∧ s' = s ∧ e.chem i' s = false then (c.nd i s n : Rat) else 0) =
          if e.chem i' s' = false then ∑ n ∈ range (e.topo.nSlots i),
            (if e.topo.nbr i n = some i' then (c.nd i s' n : Rat) else 0) else 0 := by
        intro i _
        have : ∀ s ∈ range e.net.nSpecies, ∑ n ∈ range (e.topo.nSlots i),
            (if e.topo.nbr i n = some i' ∧ s' = s ∧ e.chem i' s = false then (c.nd i s n : Rat) else 0) =
            if s' = s ∧ e.chem i' s = false then ∑ n ∈ range (e.topo.nSlots i),
              (if e.topo.nbr i n = some i' then (c.nd i s n : Rat) else 0) else 0 := by
          intro s _
          by_cases hc : s' = s ∧ e.chem i' s = false
          · simp [hc]
          · rw [if_neg hc]
            apply Finset.sum_eq_zero; intro n _
            have : ¬ (e.topo.nbr i n = some i' ∧ s' = s ∧ e.chem i' s = false) := fun h => hc h.2
            rw [if_neg this]
        rw [Finset.sum_congr rfl this]
        exact sum_range_ite_eq_and e.net.nSpecies s' hs (fun s => e.chem i' s = false)
          (fun s => ∑ n ∈ range (e.topo.nSlots i), (if e.topo.nbr i n = some i' then (c.nd i s n : Rat) else 0))
      rw [Finset.sum_congr rfl h1]
      by_cases hc : e.chem i' s' = false
      · simp [hc]
      · simp [hc]
  rw [hR, hD]
  unfold netChange
  cases e.chem i' s' <;> simp <;> ring

/-- **tau-leap closed form**: for every count vector, the state after `Apply_nevt` is, entry by entry,
`x + [not chemostated]·(Σ_r sto·nr − Σ_n nd_out + Σ_{(j,m) → i} nd_in)` -/
theorem tauLeapApply_closed_form (e : EngIn) (c : Counts) (x : State) {i' s' : Nat}
    (hi : i' < e.topo.nCells) (hs : s' < e.net.nSpecies) :
    (tauLeapApply e c x) i' s' = x i' s' + (if e.chem i' s' = true then 0 else netChange e c i' s') := by
  rw [tauLeapApply_get, sum_cellDelta e c hi hs]

/-- entries outside the species range are never written -/
theorem tauLeapApply_outside_species (e : EngIn) (c : Counts) (x : State) (i' : Nat) {s' : Nat}
    (hs : e.net.nSpecies ≤ s') : (tauLeapApply e c x) i' s' = x i' s' := by
  rw [tauLeapApply_get]
  have : ∀ i ∈ range e.topo.nCells, cellDelta e c i' s' i = 0 := by
    intro i _
    unfold cellDelta
    have h1 : ∑ r ∈ range e.net.nReact, ∑ j ∈ range e.net.nSpecies, reactDelta e c i' s' i r j = 0 := by
      apply Finset.sum_eq_zero; intro r _; apply Finset.sum_eq_zero; intro j hj
      have : s' ≠ j := fun h => by rw [h] at hs; exact absurd (mem_range.1 hj) (not_lt.2 hs)
      simp [reactDelta, this]
    have h2 : ∑ s ∈ range e.net.nSpecies, ∑ n ∈ range (e.topo.nSlots i), diffDelta e c i' s' i s n = 0 := by
      apply Finset.sum_eq_zero; intro s hsm; apply Finset.sum_eq_zero; intro n _
      have : s' ≠ s := fun h => by rw [h] at hs; exact absurd (mem_range.1 hsm) (not_lt.2 hs)
      simp [diffDelta, this]
    rw [h1, h2, add_zero]
  rw [Finset.sum_eq_zero this, add_zero]

/-- C03-style corollary: a chemostated entry is not changed by `Apply_nevt`, whatever the counts -/
theorem tauLeapApply_chem_fixed (e : EngIn) (c : Counts) (x : State) {i' s' : Nat}
    (hi : i' < e.topo.nCells) (hs : s' < e.net.nSpecies) (hc : e.chem i' s' = true) :
    (tauLeapApply e c x) i' s' = x i' s' := by
  rw [tauLeapApply_closed_form e c x hi hs, if_pos hc, add_zero]

/-- every molecule that leaves a cell arrives in a cell: summed over the space, arrivals = departures
(needs: slots without neighbour carry count 0, neighbours are cells of the space) -/
theorem arrivals_eq_departures (e : EngIn) (c : Counts) (htopo : TopoOK e) (hw : WallZero e c) (s' : Nat) :
    ∑ i' ∈ range e.topo.nCells, ∑ j ∈ range e.topo.nCells, ∑ m ∈ range (e.topo.nSlots j),
        (if e.topo.nbr j m = some i' then (c.nd j s' m : Rat) else 0) =
    ∑ j ∈ range e.topo.nCells, ∑ m ∈ range (e.topo.nSlots j), (c.nd j s' m : Rat) := by
  rw [Finset.sum_comm]
  apply Finset.sum_congr rfl
  intro j hj
  rw [Finset.sum_comm]
  apply Finset.sum_congr rfl
  intro m hm
  cases hn : e.topo.nbr j m with
  | none => simp [hw j s' m hn]
  | some k =>
    have hk : k < e.topo.nCells := htopo j m k (mem_range.1 hj) (mem_range.1 hm) hn
    rw [Finset.sum_eq_single_of_mem k (mem_range.2 hk)]
    · simp
    · intro b _ hb
      have : ¬ (some k = some b) := fun h => hb (Option.some.inj h).symm
      rw [if_neg this]

/-- `tauleap_conserves` as a corollary of the closed form -/
theorem tauleap_conserves_of_closed_form {e : EngIn} {c : Nat → Rat} (hc : Cons e.net c) (hf : Free e c)
    (htopo : TopoOK e) (k : Counts) (hw : WallZero e k) (x : State) :
    total e c (tauLeapApply e k x) = total e c x := by
  unfold total
  have h1 : ∀ i' ∈ range e.topo.nCells, ∀ s' ∈ range e.net.nSpecies,
      c s' * (tauLeapApply e k x) i' s' = c s' * x i' s' + c s' * netChange e k i' s' := by
    intro i' hi s' hs
    rw [tauLeapApply_closed_form e k x (mem_range.1 hi) (mem_range.1 hs)]
    by_cases hch : e.chem i' s' = true
    · rw [hf i' s' (mem_range.1 hi) (mem_range.1 hs) hch]; simp
    · rw [if_neg hch]; ring
  rw [Finset.sum_congr rfl (fun i' hi => Finset.sum_congr rfl (h1 i' hi))]
  simp only [Finset.sum_add_distrib]
  have hzero : ∑ i' ∈ range e.topo.nCells, ∑ s' ∈ range e.net.nSpecies, c s' * netChange e k i' s' = 0 := by
    unfold netChange
    simp only [mul_add, mul_sub, Finset.sum_add_distrib, Finset.sum_sub_distrib]
    have hreac : ∑ i' ∈ range e.topo.nCells, ∑ s' ∈ range e.net.nSpecies,
        c s' * ∑ r ∈ range e.net.nReact, (e.net.sto s' r : Rat) * (k.nr i' r : Rat) = 0 := by
      apply Finset.sum_eq_zero
      intro i' _
      simp only [Finset.mul_sum]
      rw [Finset.sum_comm]
      apply Finset.sum_eq_zero
      intro r hr
      calc ∑ s' ∈ range e.net.nSpecies, c s' * ((e.net.sto s' r : Rat) * (k.nr i' r : Rat))
          = (∑ s' ∈ range e.net.nSpecies, c s' * (e.net.sto s' r : Rat)) * (k.nr i' r : Rat) := by
            rw [Finset.sum_mul]; apply Finset.sum_congr rfl; intro s _; ring
        _ = 0 := by rw [hc r (mem_range.1 hr), zero_mul]
    have hdiff : ∑ i' ∈ range e.topo.nCells, ∑ s' ∈ range e.net.nSpecies,
          c s' * ∑ j ∈ range e.topo.nCells, ∑ m ∈ range (e.topo.nSlots j),
            (if e.topo.nbr j m = some i' then (k.nd j s' m : Rat) else 0) =
        ∑ i' ∈ range e.topo.nCells, ∑ s' ∈ range e.net.nSpecies,
          c s' * ∑ n ∈ range (e.topo.nSlots i'), (k.nd i' s' n : Rat) := by
      rw [Finset.sum_comm, Finset.sum_comm (s := range e.topo.nCells) (t := range e.net.nSpecies)]
      apply Finset.sum_congr rfl
      intro s' _
      rw [← Finset.mul_sum, ← Finset.mul_sum, arrivals_eq_departures e k htopo hw s']
    rw [hreac, hdiff]; ring
  rw [hzero, add_zero]

end Strengths
