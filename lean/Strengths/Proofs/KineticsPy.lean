/-
Value lemmas for the Python kinetics model (C01 `kinetics_eq_rate`): whenever a function of `Model/Kinetics.lean`
returns normally, the SI value it returns is the corresponding term of the rate law.
-/
import Mathlib.Algebra.BigOperators.Group.List.Basic
import Strengths.Proofs.Kinetics

namespace Strengths
open Spec Gen

/-- the state function (cell → species → SI amount) denoted by the species-major array handed to the kinetics functions -/
def stOf (n : Nat) (x : PyState) : St := fun i s => x.vals.getD (stIdx n s i) 0

/-- SI value of a reaction's rate constant in the environment with index `e` -/
def kfSI (sys : PySys) (r : PyReaction) (e : Nat) : Rat :=
  (getValueInEnv r.kf (sys.envs.getD e "") ⟨0, kfDim (natSum r.sub)⟩).si
def krSI (sys : PySys) (r : PyReaction) (e : Nat) : Rat :=
  (getValueInEnv r.kr (sys.envs.getD e "") ⟨0, krDim (natSum r.prod)⟩).si

/-- the physical system a Python system denotes (SI), with the given interfaces -/
def physOfPy (sys : PySys) (faces : Nat → List Face) : Phys where
  nSpecies := sys.nSpecies
  nCells := sys.space.size
  nReacs := sys.reactions.length
  reac := fun r =>
    { sub := fun s => (sys.reactions.getD r default).sub.getD s 0
      prod := fun s => (sys.reactions.getD r default).prod.getD s 0
      kf := fun e => kfSI sys (sys.reactions.getD r default) e
      kr := fun e => krSI sys (sys.reactions.getD r default) e }
  env := sys.space.envOf
  vol := fun i => (sys.space.volOf i).si
  edge := sys.space.edgeOf
  dcoef := fun s e => (getValueInEnv (sys.dcoef.getD s default) (sys.envs.getD e "") ⟨0, Dim.diffusion⟩).si
  faces := faces

theorem rate_fold_si (l : List Nat) (q0 : Q) (conc : Nat → Q) (sto : List Nat) :
    (l.foldl (fun acc s => acc.mul ((conc s).npow (sto.getD s 0))) q0).si
      = q0.si * prodL (l.map fun s => (conc s).si ^ sto.getD s 0) := by
  induction l generalizing q0 with
  | nil => simp [prodL]
  | cons a as ih =>
    simp only [List.foldl_cons, List.map_cons]
    rw [ih]
    simp only [Q.mul, Q.npow, prodL, List.foldr_cons]
    ring

/-- `compute_reaction_rates`: the two returned values are the mass-action terms -/
theorem pyReactionRates_si (sys : PySys) (r : PyReaction) (i : Nat) (x : PyState) (rf rr : Q) (faces : Nat → List Face)
    (h : pyReactionRates sys r i x = .ok (rf, rr)) :
    rf.si = massAction (physOfPy sys faces) (stOf sys.space.size x) i (kfSI sys r (sys.space.envOf i)) (fun s => r.sub.getD s 0) ∧
    rr.si = massAction (physOfPy sys faces) (stOf sys.space.size x) i (krSI sys r (sys.space.envOf i)) (fun s => r.prod.getD s 0) := by
  unfold pyReactionRates at h
  simp only at h
  split at h
  · cases h
  · simp only [Except.ok.injEq, Prod.mk.injEq] at h
    obtain ⟨h1, h2⟩ := h
    subst h1 h2
    unfold pyRateLoop
    rw [rate_fold_si, rate_fold_si]
    simp only [massAction, conc, physOfPy, stOf, kfSI, krSI, PySys.envLabel, Q.mul, Q.div, Q.inv, PyState.at]
    constructor <;> (congr 1; congr 1; apply List.map_congr_left; intro s _; congr 1; ring)

/-- the reaction term added to `d` -/
theorem pyReactionTerm_si (sys : PySys) (r : PyReaction) (s i : Nat) (x : PyState) (t : Q) (faces : Nat → List Face)
    (h : pyReactionTerm sys r s i x = .ok t) :
    t.si = (((r.prod.getD s 0 : Nat) : Rat) - ((r.sub.getD s 0 : Nat) : Rat)) *
        massAction (physOfPy sys faces) (stOf sys.space.size x) i (kfSI sys r (sys.space.envOf i)) (fun s => r.sub.getD s 0) +
      (((r.sub.getD s 0 : Nat) : Rat) - ((r.prod.getD s 0 : Nat) : Rat)) *
        massAction (physOfPy sys faces) (stOf sys.space.size x) i (krSI sys r (sys.space.envOf i)) (fun s => r.prod.getD s 0) := by
  unfold pyReactionTerm at h
  cases hr : pyReactionRates sys r i x with
  | error e => rw [hr] at h; cases h
  | ok p =>
    obtain ⟨rf, rr⟩ := p
    rw [hr] at h
    simp only at h
    obtain ⟨e1, e2⟩ := pyReactionRates_si sys r i x rf rr faces hr
    unfold Q.sub at h
    by_cases hd : rf.dim = rr.dim
    · rw [if_pos hd] at h
      simp only [Except.ok.injEq] at h
      subst h
      simp only [Q.scale, e1, e2]
      ring
    · rw [if_neg hd] at h
      cases h

/-- a loop `d += term(a)` that ends normally has added the SI values of all its terms -/
theorem foldRes_acc_si {α : Type} (term : α → Res Q) (l : List α) (d0 q : Q)
    (h : foldRes (fun d a => match term a with | .error e => .error e | .ok t => accAdd d t) d0 l = .ok q) :
    ∃ ts : List Q, l.map term = ts.map Except.ok ∧ q.si = d0.si + sumL (ts.map (·.si)) := by
  induction l generalizing d0 with
  | nil =>
    simp only [foldRes, Except.ok.injEq] at h
    subst h
    exact ⟨[], rfl, by simp [sumL]⟩
  | cons a as ih =>
    simp only [foldRes] at h
    cases ht : term a with
    | error e => rw [ht] at h; simp at h
    | ok t =>
      rw [ht] at h
      simp only [accAdd, Q.add] at h
      by_cases hd : d0.dim = t.dim
      · rw [if_pos hd] at h
        simp only at h
        obtain ⟨ts, hts, hq⟩ := ih _ h
        refine ⟨t :: ts, by simp [ht, hts], ?_⟩
        rw [hq]
        simp only [List.map_cons, sumL, List.foldr_cons]
        ring
      · rw [if_neg hd] at h
        simp at h

theorem map_ok_si {α : Type} (term : α → Res Q) (G : α → Rat) (l : List α) (ts : List Q)
    (h : l.map term = ts.map Except.ok) (hG : ∀ a ∈ l, ∀ t, term a = .ok t → t.si = G a) :
    ts.map (·.si) = l.map G := by
  induction l generalizing ts with
  | nil =>
    cases ts with
    | nil => rfl
    | cons t ts => simp at h
  | cons a as ih =>
    cases ts with
    | nil => simp at h
    | cons t ts =>
      simp only [List.map_cons, List.cons.injEq] at h ⊢
      exact ⟨hG a (List.mem_cons_self) t h.1, ih ts h.2 (fun b hb => hG b (List.mem_cons_of_mem _ hb))⟩

theorem map_eq_range_getD {α β : Type} (G : α → β) (l : List α) (d : α) :
    l.map G = (List.range l.length).map fun r => G (l.getD r d) := by
  apply List.ext_getElem?
  intro k
  simp only [List.getElem?_map, List.getElem?_range]
  by_cases hk : k < l.length
  · simp [hk, List.getD_eq_getElem?_getD, List.getElem?_eq_getElem hk]
  · simp [hk, List.getElem?_eq_none (Nat.le_of_not_lt hk)]

/-- the loop over the reactions, when it ends normally, has accumulated the reaction part of the rate law -/
theorem pyReactionPart_si (sys : PySys) (s i : Nat) (x : PyState) (d : Q) (faces : Nat → List Face)
    (h : pyReactionPart sys s i x = .ok d) :
    d.si = reactionPart (physOfPy sys faces) (stOf sys.space.size x) s i := by
  unfold pyReactionPart at h
  obtain ⟨ts, hts, hq⟩ := foldRes_acc_si (fun r => pyReactionTerm sys r s i x) sys.reactions _ d h
  rw [hq, zero_add]
  rw [map_ok_si _ _ sys.reactions ts hts (fun r _ t ht => pyReactionTerm_si sys r s i x t faces ht)]
  rw [map_eq_range_getD _ sys.reactions default]
  rfl

theorem cbrt_ok_si (a : Q) (r : Rat) (h : Q) (hc : a.cbrt r = .ok h) : h.si = r := by
  unfold Q.cbrt at hc
  split at hc
  · cases hc; rfl
  · cases hc

theorem Q.mul_si (a b : Q) : (a.mul b).si = a.si * b.si := rfl
theorem Q.div_si (a b : Q) : (a.div b).si = a.si * (1 / b.si) := rfl

/-- the interface diffusivity computed by the graph branch of `compute_diffusion_rates` -/
theorem dij_si (hi hj Di Dj : Q) :
    (if (Di.si != 0 && Dj.si != 0) = true then (hi.add! hj).div ((hi.div Di).add! (hj.div Dj)) else ⟨0, Dim.diffusion⟩ : Q).si
      = dbar hi.si hj.si Di.si Dj.si := by
  unfold dbar
  by_cases h1 : Di.si = 0
  · simp [h1]
  · by_cases h2 : Dj.si = 0
    · simp [h2]
    · have b1 : (Di.si != 0) = true := by simpa using h1
      have b2 : (Dj.si != 0) = true := by simpa using h2
      simp only [b1, b2, Bool.and_self, if_true, h1, h2, or_self, if_false, Q.div, Q.add!, Q.mul, Q.inv]
      ring

theorem pyDiffusionTerm_ok (out inn t : Q) (h : pyDiffusionTerm (.ok (out, inn)) = .ok t) : t.si = inn.si - out.si := by
  simp only [pyDiffusionTerm, Q.sub] at h
  by_cases hd : inn.dim = out.dim
  · rw [if_pos hd] at h
    cases h
    rfl
  · rw [if_neg hd] at h
    cases h

/-- the term of the rate law contributed by one interface -/
def specFaceTerm (P : Phys) (x : St) (s i : Nat) (f : Face) : Rat :=
  dbar (P.edge i) (P.edge f.nbr) (P.dcoef s (P.env i)) (P.dcoef s (P.env f.nbr)) * f.sfc / f.dst *
    (conc P x f.nbr s - conc P x i s)

def faceOfEdge (j : Nat) (e : PyEdge) : Face := ⟨j, e.sfc.si, e.dst.si⟩

/-- `d_rates[1] - d_rates[0]` of `compute_diffusion_rates` on a graph is the interface term of the edge `get_edge` found -/
theorem pyDiffusionTermGraph_si (sys : PySys) (nodes : List PyNode) (edges : List PyEdge) (hsp : sys.space = .graph nodes edges)
    (s i j : Nat) (x : PyState) (t : Q) (faces : Nat → List Face)
    (h : pyDiffusionTerm (pyDiffusionRatesGraph sys nodes edges s i j x) = .ok t) :
    ∃ e, pyGetEdge edges i j = some e ∧
      t.si = specFaceTerm (physOfPy sys faces) (stOf sys.space.size x) s i (faceOfEdge j e) := by
  unfold pyDiffusionRatesGraph at h
  cases he : pyGetEdge edges i j with
  | none => rw [he] at h; simp [pyDiffusionTerm] at h
  | some e =>
    refine ⟨e, rfl, ?_⟩
    rw [he] at h
    simp only at h
    cases hci : (nodes.getD i default).vol.cbrt (nodes.getD i default).edge with
    | error er => rw [hci] at h; simp [pyDiffusionTerm] at h
    | ok hi =>
      cases hcj : (nodes.getD j default).vol.cbrt (nodes.getD j default).edge with
      | error er => rw [hci, hcj] at h; simp [pyDiffusionTerm] at h
      | ok hj =>
        rw [hci, hcj] at h
        simp only at h
        have ei := cbrt_ok_si _ _ _ hci
        have ej := cbrt_ok_si _ _ _ hcj
        by_cases hz : (nodes.getD i default).vol.si * e.dst.si = 0 ∨ (nodes.getD j default).vol.si * e.dst.si = 0
        · rw [if_pos hz] at h; simp [pyDiffusionTerm] at h
        · rw [if_neg hz] at h
          have hval := pyDiffusionTerm_ok _ _ _ h
          · rw [hval]
            have hvi : (sys.space.volOf i).si = (nodes.getD i default).vol.si := by rw [hsp]; rfl
            have hvj : (sys.space.volOf j).si = (nodes.getD j default).vol.si := by rw [hsp]; rfl
            have hei : sys.space.edgeOf i = (nodes.getD i default).edge := by rw [hsp]; rfl
            have hej : sys.space.edgeOf j = (nodes.getD j default).edge := by rw [hsp]; rfl
            simp only [specFaceTerm, faceOfEdge, conc, physOfPy, stOf, hvi, hvj, hei, hej]
            rw [Q.mul_si, Q.mul_si, Q.div_si, Q.div_si, Q.mul_si, Q.mul_si, Q.mul_si, dij_si, ei, ej]
            simp only [pyDpair, PySys.envLabel, PyState.at]
            ring

theorem Q.rdiv_si (c : Rat) (a : Q) : (Q.rdiv c a).si = (1 / a.si) * c := rfl
theorem Q.npow_si (a : Q) (n : Nat) : (a.npow n).si = a.si ^ n := rfl
theorem Q.add!_si (a b : Q) : (a.add! b).si = a.si + b.si := rfl

theorem kgrid_si (h Di Dj : Q) (d0 : Dim) :
    (if (Di.si != 0 && Dj.si != 0) = true then Q.rdiv 2 ((h.npow 2).mul ((Q.rdiv 1 Di).add! (Q.rdiv 1 Dj))) else ⟨0, d0⟩ : Q).si
      = if Di.si = 0 ∨ Dj.si = 0 then 0 else (1 / (h.si ^ 2 * ((1 / Di.si) * 1 + (1 / Dj.si) * 1))) * 2 := by
  by_cases h1 : Di.si = 0
  · simp [h1]
  · by_cases h2 : Dj.si = 0
    · simp [h2]
    · have b1 : (Di.si != 0) = true := by simpa using h1
      have b2 : (Dj.si != 0) = true := by simpa using h2
      simp only [b1, b2, Bool.and_self, if_true, h1, h2, or_self, if_false, Q.rdiv_si, Q.mul_si, Q.npow_si, Q.add!_si]

/-- `d_rates[1] - d_rates[0]` of `compute_diffusion_rates` on a grid is the interface term of a face `h²` at distance `h` -/
theorem pyDiffusionTermGrid_si (sys : PySys) (g : GridShape) (vol : Q) (edge : Rat) (env : List Nat)
    (hsp : sys.space = .grid g vol edge env) (hV : vol.si = edge ^ 3)
    (s i j : Nat) (x : PyState) (t : Q) (faces : Nat → List Face)
    (h : pyDiffusionTerm (pyDiffusionRatesGrid sys g vol edge s i j x) = .ok t) :
    t.si = specFaceTerm (physOfPy sys faces) (stOf sys.space.size x) s i ⟨j, edge * edge, edge⟩ := by
  unfold pyDiffusionRatesGrid at h
  by_cases hn : (!(kinAreNeighbors g i j)) = true
  · rw [if_pos hn] at h; simp [pyDiffusionTerm] at h
  · rw [if_neg hn] at h
    simp only at h
    cases hc : vol.cbrt edge with
    | error er => rw [hc] at h; simp [pyDiffusionTerm] at h
    | ok hq =>
      rw [hc] at h
      simp only at h
      have eh := cbrt_ok_si _ _ _ hc
      by_cases hz : (((pyDpair sys s i j).1.si != 0 && (pyDpair sys s i j).2.si != 0) = true) ∧ hq.si = 0
      · rw [if_pos (by simpa using hz)] at h; simp [pyDiffusionTerm] at h
      · rw [if_neg (by simpa using hz)] at h
        have hval := pyDiffusionTerm_ok _ _ _ h
        rw [hval]
        have hvi : ∀ k, (sys.space.volOf k).si = edge ^ 3 := fun k => by rw [hsp]; exact hV
        have hei : ∀ k, sys.space.edgeOf k = edge := fun k => by rw [hsp]; rfl
        simp only [specFaceTerm, conc, physOfPy, stOf, hvi, hei]
        rw [Q.mul_si, Q.mul_si, kgrid_si, eh]
        simp only [pyDpair, PySys.envLabel, PyState.at] at hz ⊢
        unfold dbar
        obtain ⟨Di, hDi⟩ : ∃ Di, (getValueInEnv (sys.dcoef.getD s default) (sys.envs.getD (sys.space.envOf i) "") ⟨0, Dim.diffusion⟩).si = Di := ⟨_, rfl⟩
        obtain ⟨Dj, hDj⟩ : ∃ Dj, (getValueInEnv (sys.dcoef.getD s default) (sys.envs.getD (sys.space.envOf j) "") ⟨0, Dim.diffusion⟩).si = Dj := ⟨_, rfl⟩
        simp only [hDi, hDj] at hz ⊢
        by_cases h1 : Di = 0
        · simp [h1]
        · by_cases h2 : Dj = 0
          · simp [h2]
          · have hne : edge ≠ 0 := by
              intro he0
              apply hz
              rw [eh]
              refine ⟨?_, he0⟩
              simp [h1, h2]
            simp only [h1, h2, or_self, if_false]
            field_simp
            ring

theorem sumL_filter_zero (T : Nat → Rat) (l : List Nat) (i : Nat) (h0 : T i = 0) :
    sumL ((l.filter (· != i)).map T) = sumL (l.map T) := by
  induction l with
  | nil => rfl
  | cons a as ih =>
    by_cases ha : a = i
    · subst ha
      simp only [List.filter_cons, bne_self_eq_false, Bool.false_eq_true, if_false, List.map_cons, sumL, List.foldr_cons, h0, zero_add] at ih ⊢
      exact ih
    · have : (a != i) = true := by simpa using ha
      simp only [List.filter_cons, this, if_true, List.map_cons, sumL, List.foldr_cons] at ih ⊢
      rw [ih]

theorem sumL_perm' {l1 l2 : List Rat} (h : l1.Perm l2) : sumL l1 = sumL l2 := by
  have e : ∀ l : List Rat, sumL l = l.sum := fun l => by
    induction l with
    | nil => rfl
    | cons a as ih => simp only [sumL, List.foldr_cons, List.sum_cons] at *; rw [ih]
  rw [e, e]
  exact h.sum_eq

theorem sumL_filterMap {α β : Type} (f : α → Option β) (F : β → Rat) (l : List α) :
    sumL ((l.filterMap f).map F) = sumL (l.map fun a => (f a).elim 0 F) := by
  induction l with
  | nil => rfl
  | cons a as ih =>
    simp only [List.filterMap_cons, List.map_cons]
    cases h : f a with
    | none => simp only [sumL, List.foldr_cons, Option.elim, zero_add] at ih ⊢; exact ih
    | some b => simp only [List.map_cons, sumL, List.foldr_cons, Option.elim] at ih ⊢; rw [ih]

/-- `compute_dspeciesdt(apply_chemostats=False)` returns what the two loops accumulated -/
theorem pyDspeciesdt_parts (sys : PySys) (s i : Nat) (x : PyState) (q : Q) (h : pyDspeciesdt sys s i x false = .ok q) :
    ∃ d1, pyReactionPart sys s i x = .ok d1 ∧ pyDiffusionPart sys s i x d1 = .ok q := by
  unfold pyDspeciesdt at h
  split at h
  · cases h
  · cases h1 : pyReactionPart sys s i x with
    | error e => rw [h1] at h; cases h
    | ok d1 =>
      rw [h1] at h
      simp only at h
      cases h2 : pyDiffusionPart sys s i x d1 with
      | error e => rw [h2] at h; cases h
      | ok d2 =>
        rw [h2] at h
        simp only [Bool.false_and, Bool.false_eq_true, if_false, Except.ok.injEq] at h
        subst h
        exact ⟨d1, rfl, h2⟩

/-- the SI edges of a Python graph, as the Spec reads them -/
def edgesSI (edges : List PyEdge) : List (Nat × Nat × Rat × Rat) := edges.map fun e => (e.i, e.j, e.sfc.si, e.dst.si)

/-- the interfaces the Python graph loop visits: one per enumerated neighbour, through the edge `get_edge` finds -/
def pyFaces (n : Nat) (edges : List PyEdge) (i : Nat) : List Face :=
  (pyGraphNeighbors n edges i).filterMap fun j => (pyGetEdge edges i j).map (faceOfEdge j)

/-- **kinetics on a graph**: when `compute_dspeciesdt` returns, its SI value is the rate law evaluated with the interfaces
the Python loop visits; for a graph without parallel edges and self-loops these are the Spec's interfaces up to order
(hypothesis `hperm`, discharged by `simple_graph_faces` for simple graphs) -/
theorem kinetics_value_graph (sys : PySys) (nodes : List PyNode) (edges : List PyEdge) (hsp : sys.space = .graph nodes edges)
    (s i : Nat) (x : PyState) (q : Q) (h : pyDspeciesdt sys s i x false = .ok q)
    (hperm : (pyFaces nodes.length edges i).Perm (graphFaces (edgesSI edges) i)) :
    q.si = rate (physOfPy sys (fun k => graphFaces (edgesSI edges) k)) (stOf sys.space.size x) s i := by
  obtain ⟨d1, h1, h2⟩ := pyDspeciesdt_parts sys s i x q h
  have hr := pyReactionPart_si sys s i x d1 (fun k => graphFaces (edgesSI edges) k) h1
  unfold pyDiffusionPart at h2
  rw [hsp] at h2
  simp only at h2
  obtain ⟨ts, hts, hq⟩ := foldRes_acc_si (fun j => pyDiffusionTerm (pyDiffusionRatesGraph sys nodes edges s i j x))
    (pyGraphNeighbors nodes.length edges i) d1 q h2
  let P := physOfPy sys (fun k => graphFaces (edgesSI edges) k)
  let G : Nat → Rat := fun j => ((pyGetEdge edges i j).map (faceOfEdge j)).elim 0 (specFaceTerm P (stOf sys.space.size x) s i)
  have hmap : ts.map (·.si) = (pyGraphNeighbors nodes.length edges i).map G := by
    apply map_ok_si _ _ _ ts hts
    intro j _ t ht
    obtain ⟨e, he, hv⟩ := pyDiffusionTermGraph_si sys nodes edges hsp s i j x t (fun k => graphFaces (edgesSI edges) k) ht
    simp only [G, he, Option.map_some, Option.elim]
    exact hv
  rw [hq, hr, hmap]
  unfold rate
  congr 1
  have hG : sumL ((pyGraphNeighbors nodes.length edges i).map G)
      = sumL ((pyFaces nodes.length edges i).map (specFaceTerm P (stOf sys.space.size x) s i)) :=
    (sumL_filterMap (fun j => (pyGetEdge edges i j).map (faceOfEdge j)) (specFaceTerm P (stOf sys.space.size x) s i) _).symm
  rw [hG]
  exact sumL_perm' (hperm.map _)

/-- **kinetics on a grid**: when `compute_dspeciesdt` returns, its SI value is the rate law with the grid's six-neighbourhood
(`hsrc`, `hnb`: the Python coordinate round trip and neighbour enumeration, discharged for every valid grid by
`pyGridSrc_eq` and `pyGridNeighbors_eq`) -/
theorem kinetics_value_grid (sys : PySys) (g : GridShape) (vol : Q) (edge : Rat) (env : List Nat)
    (hsp : sys.space = .grid g vol edge env) (hV : vol.si = edge ^ 3)
    (s i : Nat) (x : PyState) (q : Q) (h : pyDspeciesdt sys s i x false = .ok q)
    (hsrc : pyGridSrc g i = i)
    (hnb : pyGridNeighbors g i = (gridNbrs g.w g.h g.d g.px g.py g.pz i).filter (· != i)) :
    q.si = rate (physOfPy sys (fun k => gridFaces g.w g.h g.d g.px g.py g.pz edge k)) (stOf sys.space.size x) s i := by
  obtain ⟨d1, h1, h2⟩ := pyDspeciesdt_parts sys s i x q h
  have hr := pyReactionPart_si sys s i x d1 (fun k => gridFaces g.w g.h g.d g.px g.py g.pz edge k) h1
  unfold pyDiffusionPart at h2
  rw [hsp] at h2
  simp only [hsrc] at h2
  obtain ⟨ts, hts, hq⟩ := foldRes_acc_si (fun j => pyDiffusionTerm (pyDiffusionRatesGrid sys g vol edge s i j x))
    (pyGridNeighbors g i) d1 q h2
  let P := physOfPy sys (fun k => gridFaces g.w g.h g.d g.px g.py g.pz edge k)
  let T : Nat → Rat := fun j => specFaceTerm P (stOf sys.space.size x) s i ⟨j, edge * edge, edge⟩
  have hmap : ts.map (·.si) = (pyGridNeighbors g i).map T := by
    apply map_ok_si _ _ _ ts hts
    intro j _ t ht
    exact pyDiffusionTermGrid_si sys g vol edge env hsp hV s i j x t _ ht
  have hT0 : T i = 0 := by simp [T, specFaceTerm]
  rw [hq, hr, hmap, hnb, sumL_filter_zero T _ i hT0]
  unfold rate
  congr 1
  show _ = sumL (((gridFaces g.w g.h g.d g.px g.py g.pz edge i)).map _)
  unfold gridFaces
  rw [List.map_map]
  rfl

end Strengths
