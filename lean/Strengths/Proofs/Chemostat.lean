/-
Helper lemmas for C03: the in-place updates of the stochastic engines never touch a flagged entry.
-/
import Strengths.Model.Kinetics

namespace Strengths

theorem foldl_inv {α β : Type} (P : β → Prop) (f : β → α → β) (l : List α) (b : β) (hb : P b)
    (hf : ∀ b a, P b → P (f b a)) : P (l.foldl f b) := by
  induction l generalizing b with
  | nil => exact hb
  | cons a as ih => exact ih _ (hf b a hb)

theorem State.update_get_chem (x : State) (i' s' : Nat) (v : Rat) (i s : Nat) :
    (x.update i' s' v).get i s = if i = i' ∧ s = s' then v else x.get i s := rfl

/-- updating an entry whose flag differs from the flag of (i, s) leaves (i, s) alone -/
theorem State.update_other (chem : Nat → Nat → Bool) (x : State) (i s i' s' : Nat) (v : Rat)
    (h : chem i s = true) (h' : chem i' s' = false) : (x.update i' s' v).get i s = x.get i s := by
  rw [State.update_get_chem]
  split
  · rename_i hh
    obtain ⟨rfl, rfl⟩ := hh
    rw [h] at h'
    cases h'
  · rfl

/-- a guarded update `if chem i' s' then x else x.update i' s' v` preserves the value at a flagged entry -/
theorem guarded_update_keeps (e : EngIn) (x : State) (i s i' s' : Nat) (v w : Rat) (h : e.chem i s = true)
    (hx : x.get i s = w) : (if e.chem i' s' then x else x.update i' s' v).get i s = w := by
  by_cases hc : e.chem i' s' = true
  · simp [hc, hx]
  · have hc' : e.chem i' s' = false := by simpa using hc
    simp only [hc', Bool.false_eq_true, if_false]
    rw [State.update_other e.chem x i s i' s' v h hc']
    exact hx

theorem applyNevtCell_keeps (e : EngIn) (c : Counts) (x : State) (i0 i s : Nat) (w : Rat) (h : e.chem i s = true)
    (hx : x.get i s = w) : (applyNevtCell e c x i0).get i s = w := by
  unfold applyNevtCell
  apply foldl_inv (fun y : State => y.get i s = w)
  · apply foldl_inv (fun y : State => y.get i s = w)
    · exact hx
    · intro y r hy
      apply foldl_inv (fun y : State => y.get i s = w)
      · exact hy
      · intro z j hz
        exact guarded_update_keeps e z i s i0 j _ w h hz
  · intro y s0 hy
    apply foldl_inv (fun y : State => y.get i s = w)
    · exact hy
    · intro z n hz
      by_cases hnd : (c.nd i0 s0 n == 0) = true
      · simp [hnd, hz]
      · simp only [hnd]
        have h1 : (if e.chem i0 s0 then z else z.update i0 s0 (z.get i0 s0 - (c.nd i0 s0 n : Rat))).get i s = w :=
          guarded_update_keeps e z i s i0 s0 _ w h hz
        cases hn : e.topo.nbr i0 n with
        | none => simpa [hn] using h1
        | some j =>
          simp only [hn]
          exact guarded_update_keeps e _ i s j s0 _ w h h1

theorem tauLeapApply_keeps (e : EngIn) (c : Counts) (x : State) (i s : Nat) (h : e.chem i s = true) :
    (tauLeapApply e c x).get i s = x.get i s := by
  unfold tauLeapApply
  apply foldl_inv (fun y : State => y.get i s = x.get i s)
  · rfl
  · intro y i0 hy
    exact applyNevtCell_keeps e c y i0 i s _ h hy

theorem applyEvent_keeps (e : EngIn) (x : State) (ev : Event) (i s : Nat) (h : e.chem i s = true) :
    (applyEvent e x ev).get i s = x.get i s := by
  cases ev with
  | reaction i0 r =>
    simp only [applyEvent]
    by_cases hi : i = i0
    · subst hi
      simp [h]
    · simp [hi]
  | diffusion i0 s0 n =>
    simp only [applyEvent]
    have h1 : (if e.chem i0 s0 then x else x.update i0 s0 (x.get i0 s0 - 1)).get i s = x.get i s :=
      guarded_update_keeps e x i s i0 s0 _ _ h rfl
    cases hn : e.topo.nbr i0 n with
    | none => simpa [hn] using h1
    | some j =>
      simp only [hn]
      exact guarded_update_keeps e _ i s j s0 _ _ h h1

end Strengths
