/-
Checked-access engine (C11): the sampler (guarded read of `t_samples`), `Iterate` of the six algorithms, the export
functions, grid set-up and the lifecycle — assembled into `runChecked_ok`: for valid arguments no access fails, no
library precondition is violated and no freed object is used, for all draws and all call histories.
-/
import Strengths.Proofs.CheckedGrid
import Strengths.Proofs.CheckedGraph
import Strengths.Model.CheckedSim

namespace Strengths

/-! ### `MkVec` and the transposition -/

theorem mkVec_ok {α : Type} [Inhabited α] (buf : Vec α) (len : Nat) (h : len ≤ buf.size) :
    Ok (mkVec buf len) (fun v => v.size = len ∧ ∀ i, i < len → v.get i = buf.get i) := by
  unfold mkVec
  refine Ok.mono (Ok.forUpTo (fun k (v : Vec α) => v.size = len ∧ ∀ i, i < k → v.get i = buf.get i) ⟨rfl, fun i hi => by omega⟩
    (fun k hk v hv => ?_)) (fun v hv => hv)
  refine Ok.bind (Vec.rd_nat buf k (by omega)) (fun a ha => ?_)
  refine Ok.mono (Vec.wr_nat v k a (by rw [hv.1]; exact hk)) (fun v' hv' => ⟨hv'.1.trans hv.1, fun i hi => ?_⟩)
  by_cases hik : i = k
  · subst hik; rw [hv'.2.1, ha]
  · rw [hv'.2.2 i hik]; exact hv.2 i (by omega)

theorem speciesFirstToMeshFirst_ok {α : Type} [Inhabited α] (v : Vec α) (ns n : Nat) (hv : v.size = n * ns) :
    Ok (speciesFirstToMeshFirst v ns n) (fun mf => mf.size = n * ns) := by
  unfold speciesFirstToMeshFirst
  refine Ok.forUpTo (fun _ (mf : Vec α) => mf.size = n * ns) hv (fun s hs mf hmf => ?_)
  refine Ok.forUpTo (fun _ (mf : Vec α) => mf.size = n * ns) hmf (fun i hi mf hmf => ?_)
  rw [transposeSrc_nat, transposeDst_nat]
  refine Ok.bind (Vec.rd_nat v _ (by rw [hv, Nat.mul_comm n ns]; exact flat2_lt ns n s i hs hi)) (fun a _ => ?_)
  exact Ok.mono (Vec.wr_nat mf _ a (by rw [hmf]; exact flat2_lt n ns i s hi hs)) (fun mf' h => h.1.trans hmf)

/-! ### sampler -/

/-- sizes the sampler keeps: `t_samples` has `n_samples` entries; one recorded time per recorded state; every recorded
state is a copy of `mesh_x` -/
structure SmpOK (S : CSampler) (sz : Nat) : Prop where
  ts : S.tSamples.size = S.nSamples
  recs : S.sampledX.size = S.sampledT.size
  recSize : ∀ k, k < S.sampledX.size → (S.sampledX.get k).size = sz

theorem sample_smpOK {S : CSampler} {sz : Nat} (h : SmpOK S sz) (x : Vec Rat) (hx : x.size = sz) : SmpOK (S.sample x) sz := by
  unfold CSampler.sample
  by_cases hd : S.done = true
  · rw [if_pos hd]; exact h
  · rw [if_neg hd]
    refine ⟨h.ts, ?_, ?_⟩
    · show S.sampledX.size + 1 = S.sampledT.size + 1
      rw [h.recs]
    · intro k hk
      show (if k = S.sampledX.size then x else S.sampledX.get k).size = sz
      by_cases hks : k = S.sampledX.size
      · rw [if_pos hks]; exact hx
      · rw [if_neg hks]
        exact h.recSize k (by
          have : k < S.sampledX.size + 1 := hk
          omega)

/-- the loop condition with the conjunct order of the sources never reads `t_samples` out of range -/
theorem evalConds_ok {S : CSampler} {sz : Nat} (h : SmpOK S sz) :
    Ok (S.evalConds ["sample_pos<n_samples", "t>=t_samples[sample_pos]"]) (fun _ => True) := by
  show Ok (S.evalCond "sample_pos<n_samples" >>= fun b =>
    if b then (S.evalCond "t>=t_samples[sample_pos]" >>= fun b2 => if b2 then (.ok true : CRes Bool) else .ok false) else .ok false) _
  have h1 : Ok (S.evalCond "sample_pos<n_samples") (fun b => b = decide (S.samplePos < S.nSamples)) := by
    unfold CSampler.evalCond; rw [if_pos rfl]; exact Ok.pure rfl
  refine Ok.bind h1 (fun b hb => ?_)
  refine Ok.ite (fun hbt => ?_) (fun _ => Ok.pure trivial)
  have hp : S.samplePos < S.nSamples := by rw [hb] at hbt; exact of_decide_eq_true hbt
  have h2 : Ok (S.evalCond "t>=t_samples[sample_pos]") (fun _ => True) := by
    unfold CSampler.evalCond
    rw [if_neg (by decide), if_pos rfl]
    exact Ok.bind (Vec.rd_nat S.tSamples S.samplePos (by rw [h.ts]; exact hp)) (fun τ _ => Ok.pure trivial)
  refine Ok.bind h2 (fun b2 _ => ?_)
  exact Ok.ite (fun _ => Ok.pure trivial) (fun _ => Ok.pure trivial)

theorem sampleOnTSample_ok {S : CSampler} {sz : Nat} (h : SmpOK S sz) (x : Vec Rat) (hx : x.size = sz) :
    Ok (S.sampleOnTSample ["sample_pos<n_samples", "t>=t_samples[sample_pos]"] x) (fun S' => SmpOK S' sz) := by
  unfold CSampler.sampleOnTSample
  refine Ok.bind (Ok.forUpTo (fun _ (p : CSampler × Bool) => SmpOK p.1 sz) h (fun _ _ p hp => ?_)) (fun p hp => Ok.pure hp)
  refine Ok.ite (fun _ => Ok.pure hp) (fun _ => ?_)
  refine Ok.bind (evalConds_ok hp) (fun b _ => ?_)
  refine Ok.ite (fun _ => Ok.pure ?_) (fun _ => Ok.pure hp)
  have := sample_smpOK hp x hx
  exact ⟨this.ts, this.recs, this.recSize⟩

theorem samplingStep_ok {S : CSampler} {sz : Nat} (h : SmpOK S sz) (x : Vec Rat) (hx : x.size = sz) :
    Ok (CSampler.samplingStep ["sample_pos<n_samples", "t>=t_samples[sample_pos]"] S x) (fun S' => SmpOK S' sz) := by
  unfold CSampler.samplingStep
  split
  · exact sampleOnTSample_ok h x hx
  · exact Ok.pure (sample_smpOK h x hx)
  · refine Ok.pure ?_
    unfold CSampler.sampleOnInterval
    simp only []
    split
    · have := sample_smpOK h x hx
      exact ⟨this.ts, this.recs, this.recSize⟩
    · exact h
  · exact Ok.pure h

theorem checkTMax_smpOK {S : CSampler} {sz : Nat} (h : SmpOK S sz) : SmpOK S.checkTMax sz := by
  unfold CSampler.checkTMax; split
  · exact ⟨h.ts, h.recs, h.recSize⟩
  · exact h

/-! ### the algorithm object -/

inductive ScratchOK (T : Tabs) (L : Layout) (slots : Nat → Nat) : Scratch → Prop where
  | euler (d : Vec Rat) (h : d.size = T.n * T.ns) : ScratchOK T L slots (.euler d)
  | tau (st : TauSt) (h1 : st.mnr.size = T.n * T.nr) (h2 : SlotOK T L slots st.mnd) : ScratchOK T L slots (.tau st)
  | gil (g : GilSt) (h : GilOK T L slots g) : ScratchOK T L slots (.gil g)

structure SimOK (S : CSim) : Prop where
  tabs : TabsOK S.T
  layout : ∃ slots nb, LayoutOK S.T S.L slots nb ∧ ScratchOK S.T S.L slots S.scratch
  x : S.x.size = S.T.n * S.T.ns
  smp : SmpOK S.smp (S.T.n * S.T.ns)
  conds : S.conds = ["sample_pos<n_samples", "t>=t_samples[sample_pos]"]

theorem finishStep_ok (S : CSim) (h : SimOK S) (x : Vec Rat) (hx : x.size = S.T.n * S.T.ns) (dt : Rat) (sc : Scratch)
    (hsc : ∃ slots nb, LayoutOK S.T S.L slots nb ∧ ScratchOK S.T S.L slots sc) (u : Nat) :
    Ok (S.finishStep x dt sc u) (fun r => SimOK r.1 ∧ r.1.T = S.T) := by
  unfold CSim.finishStep
  have hs : SmpOK { S.smp with done := false, t := S.smp.t + dt } (S.T.n * S.T.ns) := ⟨h.smp.ts, h.smp.recs, h.smp.recSize⟩
  have hstep := samplingStep_ok hs x hx
  rw [← h.conds] at hstep
  refine Ok.bind hstep (fun smp hsmp => ?_)
  exact Ok.pure ⟨⟨h.tabs, hsc, hx, checkTMax_smpOK hsmp, h.conds⟩, rfl⟩

/-- `Iterate()` of the six algorithms: no access fails, no Poisson precondition is violated, the object stays valid -/
theorem iterate_ok (o : Oracles) (S : CSim) (h : SimOK S) : Ok (S.iterate o) (fun r => SimOK r.1 ∧ r.1.T = S.T) := by
  unfold CSim.iterate
  refine Ok.ite (fun _ => Ok.pure ⟨⟨h.tabs, h.layout, h.x, ⟨h.smp.ts, h.smp.recs, h.smp.recSize⟩, h.conds⟩, rfl⟩) (fun _ => ?_)
  obtain ⟨slots, nb, hL, hsc⟩ := h.layout
  generalize hscr : S.scratch = scr at hsc
  cases hsc with
  | euler d hd =>
    simp only []
    refine Ok.bind (computeDxdt_ok h.tabs hL S.x d h.x hd) (fun d' hd' => ?_)
    refine Ok.bind (applyDxdt_ok S.dt S.x d' h.x hd') (fun x' hx' => ?_)
    exact finishStep_ok S h x' hx' S.dt _ ⟨slots, nb, hL, .euler d' hd'⟩ _
  | tau st h1 h2 =>
    simp only []
    refine Ok.bind (computeNevt_ok h.tabs hL o S.dt S.x h.x st h1 h2) (fun st' hst' => ?_)
    refine Ok.bind (applyNevt_ok h.tabs hL st' hst'.1 hst'.2.1 hst'.2.2 S.x h.x) (fun x' hx' => ?_)
    exact finishStep_ok S h x' hx' S.dt _ ⟨slots, nb, hL, .tau st' hst'.1 hst'.2.1⟩ _
  | gil g hg =>
    simp only []
    refine Ok.bind (computePropensities_ok h.tabs hL S.x h.x g hg) (fun g' hg' => ?_)
    refine Ok.ite (fun _ => Ok.pure ⟨⟨h.tabs, ⟨slots, nb, hL, .gil g' hg'.1⟩, h.x, ⟨h.smp.ts, h.smp.recs, h.smp.recSize⟩, h.conds⟩, rfl⟩) (fun _ => ?_)
    refine Ok.bind (drawAndApplyEvent_ok h.tabs hL g' hg'.1 hg'.2 _ S.x h.x) (fun x' hx' => ?_)
    exact finishStep_ok S h x' hx' _ _ ⟨slots, nb, hL, .gil g' hg'.1⟩ _

theorem iterateN_ok (o : Oracles) (n : Nat) (S : CSim) (h : SimOK S) : Ok (S.iterateN o n) (fun r => SimOK r.1 ∧ r.1.T = S.T) := by
  induction n generalizing S with
  | zero => exact Ok.pure ⟨h, rfl⟩
  | succ n ih =>
    unfold CSim.iterateN
    refine Ok.bind (iterate_ok o S h) (fun r hr => ?_)
    exact Ok.ite (fun _ => Ok.mono (ih r.1 hr.1) (fun r' hr' => ⟨hr'.1, hr'.2.trans hr.2⟩)) (fun _ => Ok.pure hr)

theorem run_ok (o : Oracles) (k : Nat) (S : CSim) (h : SimOK S) : Ok (S.run o k) (fun r => SimOK r.1 ∧ r.1.T = S.T) := by
  induction k generalizing S with
  | zero => exact iterate_ok o S h
  | succ k ih =>
    unfold CSim.run
    refine Ok.bind (iterate_ok o S h) (fun r hr => ?_)
    exact Ok.ite (fun _ => Ok.mono (ih r.1 hr.1) (fun r' hr' => ⟨hr'.1, hr'.2.trans hr.2⟩)) (fun _ => Ok.pure hr)

/-! ### exports -/

theorem exportTrajectory_ok (S : CSim) (h : SimOK S) :
    Ok (exportTrajectory S (S.smp.sampledT.size * (S.T.n * S.T.ns))) (fun _ => True) := by
  unfold exportTrajectory
  refine Ok.mono (Ok.forUpTo (fun _ (out : Vec Rat) => out.size = S.smp.sampledT.size * (S.T.n * S.T.ns)) rfl (fun k hk out hout => ?_)) (fun _ _ => trivial)
  refine Ok.forUpTo (fun _ (out : Vec Rat) => out.size = S.smp.sampledT.size * (S.T.n * S.T.ns)) hout (fun s hs out hout => ?_)
  refine Ok.forUpTo (fun _ (out : Vec Rat) => out.size = S.smp.sampledT.size * (S.T.n * S.T.ns)) hout (fun i hi out hout => ?_)
  have hkx : k < S.smp.sampledX.size := by rw [h.smp.recs]; exact hk
  refine Ok.bind (Vec.rd_nat S.smp.sampledX k hkx) (fun rec hrec => ?_)
  rw [exportSrc_nat, exportDst_nat]
  have hrs : rec.size = S.T.n * S.T.ns := by rw [hrec]; exact h.smp.recSize k hkx
  refine Ok.bind (Vec.rd_nat rec _ (by rw [hrs]; exact flat2_lt S.T.n S.T.ns i s hi hs)) (fun v _ => ?_)
  have hidx : k * S.T.n * S.T.ns + s * S.T.n + i < out.size := by
    rw [hout, show k * S.T.n * S.T.ns = k * S.T.ns * S.T.n by ring,
      show S.smp.sampledT.size * (S.T.n * S.T.ns) = S.smp.sampledT.size * S.T.ns * S.T.n by ring]
    exact flat3_lt S.smp.sampledT.size S.T.ns S.T.n k s i hk hs hi
  exact Ok.mono (Vec.wr_nat out _ v hidx) (fun out' h' => h'.1.trans hout)

theorem exportTimesC_ok (S : CSim) : Ok (exportTimesC S S.smp.sampledT.size) (fun _ => True) := by
  unfold exportTimesC
  refine Ok.mono (Ok.forUpTo (fun _ (out : Vec Rat) => out.size = S.smp.sampledT.size) rfl (fun i hi out hout => ?_)) (fun _ _ => trivial)
  refine Ok.bind (Vec.rd_nat S.smp.sampledT i hi) (fun v _ => ?_)
  exact Ok.mono (Vec.wr_nat out i v (by rw [hout]; exact hi)) (fun out' h' => h'.1.trans hout)

theorem exportState_ok (S : CSim) (h : SimOK S) : Ok (exportState S (S.T.n * S.T.ns)) (fun _ => True) := by
  unfold exportState
  refine Ok.mono (Ok.forUpTo (fun _ (out : Vec Rat) => out.size = S.T.n * S.T.ns) rfl (fun s hs out hout => ?_)) (fun _ _ => trivial)
  refine Ok.forUpTo (fun _ (out : Vec Rat) => out.size = S.T.n * S.T.ns) hout (fun i hi out hout => ?_)
  rw [stateExportSrc_nat, stateExportDst_nat]
  refine Ok.bind (Vec.rd_nat S.x _ (by rw [h.x]; exact flat2_lt S.T.n S.T.ns i s hi hs)) (fun v _ => ?_)
  exact Ok.mono (Vec.wr_nat out _ v (by rw [hout, Nat.mul_comm S.T.n S.T.ns]; exact flat2_lt S.T.ns S.T.n s i hs hi)) (fun out' h' => h'.1.trans hout)

theorem getOutputC_ok (S : CSim) (h : SimOK S) : Ok (getOutputC S (S.T.n * S.T.ns)) (fun _ => True) := by
  unfold getOutputC
  refine Ok.bind (exportTrajectory_ok S h) (fun d _ => ?_)
  exact Ok.bind (exportTimesC_ok S) (fun t _ => Ok.pure trivial)

/-! ### grid set-up -/

/-- what `LibRDEngine._setup_grid` guarantees about the buffers it marshals (lengths) and `RDSystem` about their
contents (environment indices) -/
structure ValidGridArgs (a : EngArgs) (g : GridShape) : Prop where
  valid : g.valid = true
  state : g.size * a.ns ≤ a.state.size
  chstt : g.size * a.ns ≤ a.chstt.size
  env : g.size ≤ a.env.size
  envRange : ∀ i, i < g.size → 0 ≤ a.env.get i ∧ a.env.get i < (a.nenv : Int)
  k : a.nenv * a.nr ≤ a.k.size
  sub : a.ns * a.nr ≤ a.sub.size
  sto : a.ns * a.nr ≤ a.sto.size
  D : a.ns * a.nenv ≤ a.D.size
  sampleT : a.sampleN ≤ a.sampleT.size
  process : ∀ v, (a.process v).size = v.size

theorem conds_grid : Gen.tSampleLoopCondsGrid = ["sample_pos<n_samples", "t>=t_samples[sample_pos]"] := by decide
theorem conds_graph : Gen.tSampleLoopCondsGraph = ["sample_pos<n_samples", "t>=t_samples[sample_pos]"] := by decide

theorem setupGridC_ok (a : EngArgs) (g : GridShape) (vol h : Rat) (hv : ValidGridArgs a g) :
    Ok (setupGridC a g vol h) (fun S => SimOK S ∧ S.T.n * S.T.ns = g.size * a.ns) := by
  unfold setupGridC
  have hn : g.w * g.h * g.d = g.size := rfl
  simp only [hn]
  refine Ok.bind (mkVec_ok a.state _ hv.state) (fun st0 hst0 => ?_)
  refine Ok.bind (speciesFirstToMeshFirst_ok (a.process st0) a.ns g.size (by rw [hv.process]; exact hst0.1)) (fun x0 hx0 => ?_)
  refine Ok.bind (mkVec_ok a.chstt _ hv.chstt) (fun ch0 hch0 => ?_)
  refine Ok.bind (speciesFirstToMeshFirst_ok ch0 a.ns g.size hch0.1) (fun ch hch => ?_)
  refine Ok.bind (mkVec_ok a.env _ hv.env) (fun env henv => ?_)
  refine Ok.bind (mkVec_ok a.k _ hv.k) (fun k hk => ?_)
  refine Ok.bind (mkVec_ok a.sub _ hv.sub) (fun sub hsub => ?_)
  refine Ok.bind (mkVec_ok a.sto _ hv.sto) (fun sto hsto => ?_)
  refine Ok.bind (mkVec_ok a.D _ hv.D) (fun D hD => ?_)
  refine Ok.bind (mkVec_ok a.sampleT _ hv.sampleT) (fun ts hts => ?_)
  refine Ok.bind (buildMeshNeighbors_ok g) (fun nbrs hnbrs => ?_)
  have henvOK : EnvOK env g.size a.nenv := ⟨henv.1, fun i hi => by rw [henv.2 i hi]; exact hv.envRange i hi⟩
  refine Ok.bind (buildMeshKr_ok g.size a.ns a.nr a.nenv env sub k _ henvOK hsub.1 hk.1 (fun _ _ => Ok.pure trivial)) (fun kr hkr => ?_)
  refine Ok.bind (buildMeshKdGrid_ok g hv.valid a.ns a.nenv nbrs hnbrs env henvOK D hD.1 h) (fun kd hkd => ?_)
  -- the object before the t = 0 sampling step
  let T : Tabs := { n := g.size, ns := a.ns, nr := a.nr, nenv := a.nenv, chstt := ch, sub := sub, sto := sto, kr := kr }
  let G : GridTabs := { nbrs := nbrs, opp := oppVec, kd := kd }
  have hT : TabsOK T := ⟨hch, hsub.1, hsto.1, hkr⟩
  have hG : GridOK g T G := ⟨hv.valid, rfl, hnbrs, rfl, hkd⟩
  have hL := gridLayout_ok hG
  have hscr : ScratchOK T (gridLayout a.ns G) (fun _ => 6)
      (scratchInit a.option g.size a.ns a.nr (.flat (Vec.replicate (6 * a.ns * g.size) 0)) (.flat (Vec.replicate (6 * a.ns * g.size) 0))) := by
    unfold scratchInit
    split
    · exact .euler _ (Nat.mul_comm a.ns g.size)
    · exact .tau _ (Nat.mul_comm a.nr g.size) (gridSlotOK hG _ rfl)
    · exact .gil _ ⟨Nat.mul_comm a.nr g.size, rfl, rfl, gridSlotOK hG _ rfl⟩
  have hsmp0 : SmpOK (freshSampler a ts) (g.size * a.ns) := ⟨hts.1, rfl, fun k hk => by
    have : k < 0 := hk
    omega⟩
  have hstep := samplingStep_ok hsmp0 x0 hx0
  rw [← conds_grid] at hstep
  refine Ok.bind hstep (fun smp hsmp => ?_)
  exact Ok.pure ⟨⟨hT, ⟨fun _ => 6, nbG g, hL, hscr⟩, hx0, hsmp, conds_grid⟩, rfl⟩

/-! ### graph set-up -/

/-- what `LibRDEngine._setup_graph` guarantees about the buffers (lengths), `RDSystem` about environment indices, and —
part of ValidScript, not checked by the package — that edge endpoints are node indices -/
structure ValidGraphArgs (a : EngArgs) (ga : GraphArgs) : Prop where
  edgeI : ga.nEdges ≤ ga.edgeI.size
  edgeJ : ga.nEdges ≤ ga.edgeJ.size
  edgeIRange : ∀ k, k < ga.nEdges → 0 ≤ ga.edgeI.get k ∧ ga.edgeI.get k < (ga.n : Int)
  edgeJRange : ∀ k, k < ga.nEdges → 0 ≤ ga.edgeJ.get k ∧ ga.edgeJ.get k < (ga.n : Int)
  sfc : ga.nEdges ≤ ga.edgeSfc.size
  dst : ga.nEdges ≤ ga.edgeDst.size
  vol : ga.n ≤ ga.vol.size
  state : ga.n * a.ns ≤ a.state.size
  chstt : ga.n * a.ns ≤ a.chstt.size
  env : ga.n ≤ a.env.size
  envRange : ∀ i, i < ga.n → 0 ≤ a.env.get i ∧ a.env.get i < (a.nenv : Int)
  k : a.nenv * a.nr ≤ a.k.size
  sub : a.ns * a.nr ≤ a.sub.size
  sto : a.ns * a.nr ≤ a.sto.size
  D : a.ns * a.nenv ≤ a.D.size
  sampleT : a.sampleN ≤ a.sampleT.size
  process : ∀ v, (a.process v).size = v.size

theorem setupGraphC_ok (a : EngArgs) (ga : GraphArgs) (hv : ValidGraphArgs a ga) :
    Ok (setupGraphC a ga) (fun S => SimOK S ∧ S.T.n * S.T.ns = ga.n * a.ns) := by
  unfold setupGraphC
  simp only []
  refine Ok.bind (mkVec_ok ga.edgeI _ hv.edgeI) (fun ei hei => ?_)
  refine Ok.bind (mkVec_ok ga.edgeJ _ hv.edgeJ) (fun ej hej => ?_)
  refine Ok.bind (mkVec_ok ga.edgeSfc _ hv.sfc) (fun sfc hsfc => ?_)
  refine Ok.bind (mkVec_ok ga.edgeDst _ hv.dst) (fun dst hdst => ?_)
  refine Ok.bind (mkVec_ok a.state _ hv.state) (fun st0 hst0 => ?_)
  refine Ok.bind (speciesFirstToMeshFirst_ok (a.process st0) a.ns ga.n (by rw [hv.process]; exact hst0.1)) (fun x0 hx0 => ?_)
  refine Ok.bind (mkVec_ok a.chstt _ hv.chstt) (fun ch0 hch0 => ?_)
  refine Ok.bind (speciesFirstToMeshFirst_ok ch0 a.ns ga.n hch0.1) (fun ch hch => ?_)
  refine Ok.bind (mkVec_ok a.env _ hv.env) (fun env henv => ?_)
  refine Ok.bind (mkVec_ok ga.vol _ hv.vol) (fun vol hvol => ?_)
  refine Ok.bind (mkVec_ok a.k _ hv.k) (fun k hk => ?_)
  refine Ok.bind (mkVec_ok a.sub _ hv.sub) (fun sub hsub => ?_)
  refine Ok.bind (mkVec_ok a.sto _ hv.sto) (fun sto hsto => ?_)
  refine Ok.bind (mkVec_ok a.D _ hv.D) (fun D hD => ?_)
  refine Ok.bind (mkVec_ok a.sampleT _ hv.sampleT) (fun ts hts => ?_)
  have heiOK : EndsOK ga.n ga.nEdges ei := ⟨hei.1, fun k hk => by rw [hei.2 k hk]; exact hv.edgeIRange k hk⟩
  have hejOK : EndsOK ga.n ga.nEdges ej := ⟨hej.1, fun k hk => by rw [hej.2 k hk]; exact hv.edgeJRange k hk⟩
  refine Ok.bind (setNeighbors_ok ga.n ga.nEdges ei ej sfc dst heiOK hejOK hsfc.1 hdst.1) (fun nb hnb => ?_)
  have henvOK : EnvOK env ga.n a.nenv := ⟨henv.1, fun i hi => by rw [henv.2 i hi]; exact hv.envRange i hi⟩
  refine Ok.bind (buildMeshKr_ok ga.n a.ns a.nr a.nenv env sub k _ henvOK hsub.1 hk.1
    (fun i hi => Ok.mono (Vec.rd_nat vol i (by rw [hvol.1]; exact hi)) (fun _ _ => trivial))) (fun kr hkr => ?_)
  refine Ok.bind (buildMeshKdGraph_ok ga.n a.ns a.nenv nb hnb env henvOK vol hvol.1 D hD.1 ga.cbrt) (fun kd hkd => ?_)
  refine Ok.bind (nestedInit_ok ga.n a.ns nb hnb (0 : Int)) (fun mnd hmnd => ?_)
  refine Ok.bind (nestedInit_ok ga.n a.ns nb hnb (0 : Rat)) (fun mad hmad => ?_)
  let T : Tabs := { n := ga.n, ns := a.ns, nr := a.nr, nenv := a.nenv, chstt := ch, sub := sub, sto := sto, kr := kr }
  let G : GraphTabs := GraphTabs.ofParts nb kd
  have hT : TabsOK T := ⟨hch, hsub.1, hsto.1, hkr⟩
  have hG : GraphOK T G := ⟨hnb, hkd⟩
  have hL := graphLayout_ok hG
  have hscr : ScratchOK T (graphLayout G) (fun i => (G.nidx.get i).size)
      (scratchInit a.option ga.n a.ns a.nr (.nested mnd) (.nested mad)) := by
    unfold scratchInit
    split
    · exact .euler _ (Nat.mul_comm a.ns ga.n)
    · exact .tau _ (Nat.mul_comm a.nr ga.n) (graphSlotOK hG mnd hmnd.1 hmnd.2)
    · exact .gil _ ⟨Nat.mul_comm a.nr ga.n, rfl, rfl, graphSlotOK hG mad hmad.1 hmad.2⟩
  have hsmp0 : SmpOK (freshSampler a ts) (ga.n * a.ns) := ⟨hts.1, rfl, fun k hk => by
    have : k < 0 := hk
    omega⟩
  have hstep := samplingStep_ok hsmp0 x0 hx0
  rw [← conds_graph] at hstep
  refine Ok.bind hstep (fun smp hsmp => ?_)
  exact Ok.pure ⟨⟨hT, ⟨_, nbGraph G, hL, hscr⟩, hx0, hsmp, conds_graph⟩, rfl⟩

/-! ### lifecycle of one engine object: the assembled theorem -/

/-- a world is fine when, unless `global_algo_freed`, the current pointer is a live valid object and the wrapper's
`state_size()` is that object's -/
def WOK (w : CWorld) : Prop :=
  w.freed = false → ∃ S, w.cur = .live S ∧ SimOK S ∧ w.stateSize = S.T.n * S.T.ns

/-- ValidScript, per call: only `setup` carries data -/
def ValidCall : CCall → Prop
  | .setupGrid a g _ _ sz => ValidGridArgs a g ∧ sz = g.size * a.ns
  | .setupGraph a ga sz => ValidGraphArgs a ga ∧ sz = ga.n * a.ns
  | _ => True

theorem boot_wok : WOK CWorld.boot := by intro h; cases h

theorem call_ok (o : Oracles) (w : CWorld) (c : CCall) (hw : WOK w) (hc : ValidCall c) : Ok (w.call o c) WOK := by
  have live_case : ∀ (f : CSim → CRes CSim), (∀ S, SimOK S → w.stateSize = S.T.n * S.T.ns →
        Ok (f S) (fun S' => SimOK S' ∧ S'.T.n * S'.T.ns = S.T.n * S.T.ns)) →
      Ok (if w.freed then (.ok w : CRes CWorld) else match w.cur with
        | .live S => f S >>= fun S' => .ok { w with cur := .live S' }
        | _ => .error .badPtr) WOK := by
    intro f hf
    by_cases hfr : w.freed = true
    · rw [if_pos hfr]; exact Ok.pure hw
    · rw [if_neg hfr]
      simp only [Bool.not_eq_true] at hfr
      obtain ⟨S, hS, hok, hsz⟩ := hw hfr
      rw [hS]
      refine Ok.bind (hf S hok hsz) (fun S' hS' => Ok.pure ?_)
      intro _
      exact ⟨S', rfl, hS'.1, hsz.trans hS'.2.symm⟩
  cases c with
  | setupGrid a g vol h sz =>
    obtain ⟨hva, hsz⟩ := hc
    show Ok (setupGridC a g vol h >>= fun S => .ok { cur := .live S, freed := false, stateSize := sz }) WOK
    refine Ok.bind (setupGridC_ok a g vol h hva) (fun S hS => Ok.pure ?_)
    intro _
    exact ⟨S, rfl, hS.1, by rw [hsz, hS.2]⟩
  | setupGraph a ga sz =>
    obtain ⟨hva, hsz⟩ := hc
    show Ok (setupGraphC a ga >>= fun S => .ok { cur := .live S, freed := false, stateSize := sz }) WOK
    refine Ok.bind (setupGraphC_ok a ga hva) (fun S hS => Ok.pure ?_)
    intro _
    exact ⟨S, rfl, hS.1, by rw [hsz, hS.2]⟩
  | finalize =>
    show Ok (if w.freed then (.ok w : CRes CWorld) else match w.cur with
      | .live _ => .ok { w with cur := .dangling, freed := true }
      | .null => .ok { w with freed := true }
      | .dangling => .error .badPtr) WOK
    by_cases hfr : w.freed = true
    · rw [if_pos hfr]; exact Ok.pure hw
    · rw [if_neg hfr]
      simp only [Bool.not_eq_true] at hfr
      obtain ⟨S, hS, _, _⟩ := hw hfr
      rw [hS]
      exact Ok.pure (fun h => by cases h)
  | iterate =>
    exact live_case (fun S => S.iterate o >>= fun r => .ok r.1) (fun S hS _ =>
      Ok.bind (iterate_ok o S hS) (fun r hr => Ok.pure ⟨hr.1, by rw [hr.2]⟩))
  | iterateN n =>
    refine live_case (fun S => if n ≤ 0 then .ok S else S.iterateN o n.toNat >>= fun r => .ok r.1) (fun S hS _ => ?_)
    refine Ok.ite (fun _ => Ok.pure ⟨hS, rfl⟩) (fun _ => ?_)
    exact Ok.bind (iterateN_ok o n.toNat S hS) (fun r hr => Ok.pure ⟨hr.1, by rw [hr.2]⟩)
  | run k =>
    exact live_case (fun S => S.run o k >>= fun r => .ok r.1) (fun S hS _ =>
      Ok.bind (run_ok o k S hS) (fun r hr => Ok.pure ⟨hr.1, by rw [hr.2]⟩))
  | sample =>
    exact live_case (fun S => .ok { S with smp := S.smp.sample S.x }) (fun S hS _ =>
      Ok.pure ⟨⟨hS.tabs, hS.layout, hS.x, sample_smpOK hS.smp S.x hS.x, hS.conds⟩, rfl⟩)
  | getOutput =>
    refine live_case (fun S => getOutputC S w.stateSize >>= fun _ => .ok S) (fun S hS hsz => ?_)
    rw [hsz]
    exact Ok.bind (getOutputC_ok S hS) (fun _ _ => Ok.pure ⟨hS, rfl⟩)
  | getState =>
    refine live_case (fun S => exportState S w.stateSize >>= fun _ => .ok S) (fun S hS hsz => ?_)
    rw [hsz]
    exact Ok.bind (exportState_ok S hS) (fun _ _ => Ok.pure ⟨hS, rfl⟩)
  | getProgress =>
    exact live_case (fun S => .ok S) (fun S hS _ => Ok.pure ⟨hS, rfl⟩)

/-- ASSEMBLY (grid and graph, all six algorithms): for every history of calls on one engine object whose set-ups carry valid
arguments, for all draws, no vector access is out of range, no `std::poisson_distribution` precondition is violated,
and no null / freed object is used or deleted twice -/
theorem runChecked_ok (o : Oracles) (h : List CCall) (w : CWorld) (hw : WOK w) (hv : ∀ c ∈ h, ValidCall c) :
    Ok (runChecked o h w) WOK := by
  induction h generalizing w with
  | nil => exact Ok.pure hw
  | cons c rest ih =>
    unfold runChecked
    refine Ok.bind (call_ok o w c hw (hv c (by simp))) (fun w' hw' => ?_)
    exact ih w' hw' (fun c' hc' => hv c' (by simp [hc']))

end Strengths
