/-
Tau-leap: which Poisson means `Compute_nevt` requests, and how the drawn counts are expanded (C07).
-/
import Strengths.Proofs.StepLegal

namespace Strengths

/-- the channels for which `Compute_nevt` calls `Poisson(…)`, in call order: per cell its reactions, then per
species the slots that have a neighbour (a wall slot gets the count 0 without a call) -/
def tauChannels (e : EngIn) : List Event :=
  (List.range e.topo.nCells).flatMap fun i =>
    ((List.range e.net.nReact).map fun r => Event.reaction i r) ++
    ((List.range e.net.nSpecies).flatMap fun s =>
      (List.range (e.topo.nSlots i)).filterMap fun n =>
        if (e.topo.nbr i n).isSome then some (Event.diffusion i s n) else none)

/-- `tauleap_means`: the λ handed to the Poisson primitive for channel `c` is `propensity(c) · dt`, in the
order of `tauChannels` -/
theorem tauLeapMeans_eq (e : EngIn) (dt : Rat) (x : State) :
    tauLeapMeans e dt x = (tauChannels e).map (fun c => propOf e x c * dt) := by
  unfold tauLeapMeans tauChannels
  rw [List.map_flatMap]
  congr 1; funext i
  rw [List.map_append, List.map_map, List.map_flatMap]
  congr 1
  congr 1; funext s
  rw [List.map_filterMap]
  congr 1; funext n
  by_cases h : (e.topo.nbr i n).isSome
  · simp [h, propOf, diffPropSlot]
  · simp [h]

/-- every channel of `tauChannels` is a channel of the Gillespie engine (same propensity function) -/
theorem tauChannels_sub (e : EngIn) : ∀ c ∈ tauChannels e, c ∈ channels e (List.range e.topo.nCells) := by
  intro c hc
  simp only [tauChannels, List.mem_flatMap, List.mem_append, List.mem_map, List.mem_range, List.mem_filterMap] at hc
  obtain ⟨i, hi, h⟩ := hc
  simp only [channels, List.mem_flatMap, cellChannels, List.mem_append, List.mem_map, List.mem_range, speciesSlots]
  refine ⟨i, hi, ?_⟩
  rcases h with ⟨r, hr, rfl⟩ | ⟨s, hs, n, hn, h⟩
  · exact Or.inl ⟨r, hr, rfl⟩
  · split at h
    · cases h; exact Or.inr ⟨(s, n), ⟨s, hs, n, hn, rfl⟩, rfl⟩
    · cases h

/-- `Poisson(lambda)`: one count per requested mean; a mean `≤ 0` gets the count 0 and consumes no draw;
the positive means consume the draws in order -/
theorem poissonCounts_spec : ∀ (ms : List Rat) (ds cs : List Int), poissonCounts ms ds = some cs →
    cs.length = ms.length ∧
    (List.zip ms cs).filterMap (fun p => if p.1 ≤ 0 then none else some p.2) = ds ∧
    ∀ p ∈ List.zip ms cs, p.1 ≤ 0 → p.2 = 0 := by
  intro ms
  induction ms with
  | nil =>
    intro ds cs h
    cases ds with
    | nil => simp only [poissonCounts] at h; cases h; simp
    | cons d ds => simp [poissonCounts] at h
  | cons m ms ih =>
    intro ds cs h
    simp only [poissonCounts] at h
    split at h
    · rename_i hm
      cases hr : poissonCounts ms ds with
      | none => simp [hr] at h
      | some cs' =>
        simp only [hr, Option.map_some, Option.some.injEq] at h
        subst h
        obtain ⟨h1, h2, h3⟩ := ih ds cs' hr
        refine ⟨by simp [h1], by simp [hm, h2], ?_⟩
        intro p hp hp0
        simp only [List.zip_cons_cons, List.mem_cons] at hp
        rcases hp with rfl | hp
        · rfl
        · exact h3 p hp hp0
    · rename_i hm
      cases ds with
      | nil => simp at h
      | cons d ds' =>
        simp only at h
        cases hr : poissonCounts ms ds' with
        | none => simp [hr] at h
        | some cs' =>
          simp only [hr, Option.map_some, Option.some.injEq] at h
          subst h
          obtain ⟨h1, h2, h3⟩ := ih ds' cs' hr
          refine ⟨by simp [h1], by simp [hm, h2], ?_⟩
          intro p hp hp0
          simp only [List.zip_cons_cons, List.mem_cons] at hp
          rcases hp with rfl | hp
          · exact absurd hp0 hm
          · exact h3 p hp hp0

end Strengths

namespace Strengths

/-- a channel that can actually move something: every reaction; a diffusion slot only if it has a neighbour -/
def hasTarget (e : EngIn) : Event → Bool
  | .reaction _ _ => true
  | .diffusion i _ n => (e.topo.nbr i n).isSome

/-- the tau-leap channel list IS the Gillespie channel list (same order) without the wall slots -/
theorem tauChannels_eq_filter (e : EngIn) :
    tauChannels e = (channels e (List.range e.topo.nCells)).filter (hasTarget e) := by
  unfold tauChannels channels cellChannels speciesSlots
  rw [List.filter_flatMap]
  congr 1; funext i
  rw [List.filter_append, List.filter_map, List.filter_map, List.filter_flatMap]
  congr 1
  · have : (List.range e.net.nReact).filter (hasTarget e ∘ Event.reaction i) = List.range e.net.nReact := by
      apply List.filter_eq_self.2; intro r _; rfl
    rw [this]
  · rw [List.map_flatMap]
    congr 1; funext s
    rw [List.filter_map, List.map_map]
    induction List.range (e.topo.nSlots i) with
    | nil => rfl
    | cons n rest ih =>
      by_cases h : (e.topo.nbr i n).isSome = true
      · simp only [List.filterMap_cons, h, if_true, List.filter_cons, Function.comp, hasTarget, List.map_cons]
        rw [ih]
      · have h' : (e.topo.nbr i n).isSome = false := by simpa using h
        simp only [List.filterMap_cons, h', Bool.false_eq_true, if_false, List.filter_cons, Function.comp, hasTarget]
        rw [ih]

/-- the wall slots that the tau-leap list leaves out have propensity 0 -/
theorem propOf_zero_of_not_hasTarget (e : EngIn) (x : State) (c : Event) (h : hasTarget e c = false) :
    propOf e x c = 0 := by
  cases c with
  | reaction i r => simp [hasTarget] at h
  | diffusion i s n =>
    simp only [hasTarget] at h
    simp [propOf, diffPropSlot, h]

theorem sum_map_filter_of_zero {α : Type} (p : α → Bool) (f : α → Rat) (l : List α)
    (h : ∀ a ∈ l, p a = false → f a = 0) : ((l.filter p).map f).sum = (l.map f).sum := by
  induction l with
  | nil => rfl
  | cons a rest ih =>
    have ih' := ih (fun b hb => h b (by simp [hb]))
    cases hp : p a
    · simp [List.filter_cons, hp, ih', h a (by simp) hp]
    · simp [List.filter_cons, hp, ih']

/-- so both engines see the same total propensity: `a0` = sum over the tau-leap channels -/
theorem a0_eq_sum_tauChannels (e : EngIn) (x : State) :
    a0 e x = ((tauChannels e).map (propOf e x)).sum := by
  rw [a0_eq, tauChannels_eq_filter, sum_map_filter_of_zero]
  intro c _ hc
  exact propOf_zero_of_not_hasTarget e x c hc

end Strengths
