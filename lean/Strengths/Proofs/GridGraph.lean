/-
Helper lemmas for `grid_to_graph`: the loop nests as lists of coordinates (membership, no repetition), the edge list
at coordinate level, counting in a concatenation of blocks.
-/
import Mathlib.Data.List.Nodup
import Strengths.Proofs.Grid

namespace Strengths
open Gen

/-! ### counting in a `flatMap` whose blocks are identified by a key -/

theorem count_flatMap_zero {α β} [BEq β] [LawfulBEq β] (L : List α) (f : α → List β) (b : β) (h : ∀ a ∈ L, b ∉ f a) :
    (L.flatMap f).count b = 0 := by
  rw [List.count_eq_zero]
  intro hb
  obtain ⟨a, ha, hba⟩ := List.mem_flatMap.1 hb
  exact h a ha hba

/-- if only the block of `a0` can contain `b`, the count of `b` in the whole list is its count in that block -/
theorem count_flatMap_key {α β} [BEq β] [LawfulBEq β] : ∀ (L : List α), L.Nodup → ∀ (f : α → List β) (b : β) (a0 : α),
    a0 ∈ L → (∀ a ∈ L, a ≠ a0 → b ∉ f a) → (L.flatMap f).count b = (f a0).count b
  | [], _, _, _, _, h, _ => by simp at h
  | a :: rest, hnd, f, b, a0, hmem, hkey => by
    rw [List.flatMap_cons, List.count_append]
    obtain ⟨hnot, hnd'⟩ := List.nodup_cons.1 hnd
    by_cases e : a = a0
    · subst e
      rw [count_flatMap_zero rest f b (fun c hc => hkey c (by simp [hc]) (fun e => hnot (e ▸ hc)))]
      simp
    · have hin : a0 ∈ rest := by
        rcases List.mem_cons.1 hmem with h | h
        · exact absurd h.symm e
        · exact h
      rw [List.count_eq_zero.2 (hkey a (by simp) e), count_flatMap_key rest hnd' f b a0 hin
        (fun c hc hne => hkey c (by simp [hc]) hne)]
      simp

theorem nodup_range_flatMap {β} (n : Nat) (f : Nat → List β) (h1 : ∀ a, (f a).Nodup)
    (h2 : ∀ a b, a ≠ b → ∀ x ∈ f a, x ∉ f b) : ((List.range n).flatMap f).Nodup := by
  rw [List.nodup_flatMap]
  refine ⟨fun a _ => h1 a, List.nodup_range.pairwise_of_forall_ne fun a _ b _ hab => ?_⟩
  intro x hx hx'
  exact h2 a b hab x hx hx'

/-! ### the loop nests -/

theorem mem_loopZYX (g : GridShape) (c : Int × Int × Int) :
    c ∈ loopZYX g ↔ (0 ≤ c.1 ∧ c.1 < g.w) ∧ (0 ≤ c.2.1 ∧ c.2.1 < g.h) ∧ (0 ≤ c.2.2 ∧ c.2.2 < g.d) := by
  obtain ⟨x, y, z⟩ := c
  simp only [loopZYX, List.mem_flatMap, List.mem_map, List.mem_range, Prod.mk.injEq]
  constructor
  · rintro ⟨z', hz, y', hy, x', hx, rfl, rfl, rfl⟩; omega
  · rintro ⟨⟨hx0, hx1⟩, ⟨hy0, hy1⟩, ⟨hz0, hz1⟩⟩
    exact ⟨z.toNat, by omega, y.toNat, by omega, x.toNat, by omega, by omega, by omega, by omega⟩

theorem nodup_loopZYX (g : GridShape) : (loopZYX g).Nodup := by
  unfold loopZYX
  refine nodup_range_flatMap _ _ (fun z => nodup_range_flatMap _ _ (fun y => ?_) ?_) ?_
  · exact List.nodup_range.map (fun a b e => by simpa using e)
  · intro a b hab c hc hc'
    simp only [List.mem_map, List.mem_range] at hc hc'
    obtain ⟨_, _, rfl⟩ := hc
    obtain ⟨_, _, e⟩ := hc'
    simp only [Prod.mk.injEq] at e; omega
  · intro a b hab c hc hc'
    simp only [List.mem_flatMap, List.mem_map, List.mem_range] at hc hc'
    obtain ⟨_, _, _, _, rfl⟩ := hc
    obtain ⟨_, _, _, _, e⟩ := hc'
    simp only [Prod.mk.injEq] at e; omega

theorem mem_loopZY (g : GridShape) (c : Int × Int × Int) :
    c ∈ loopZY g ↔ c.1 = 0 ∧ (0 ≤ c.2.1 ∧ c.2.1 < g.h) ∧ (0 ≤ c.2.2 ∧ c.2.2 < g.d) := by
  obtain ⟨x, y, z⟩ := c
  simp only [loopZY, List.mem_flatMap, List.mem_map, List.mem_range, Prod.mk.injEq]
  constructor
  · rintro ⟨z', hz, y', hy, rfl, rfl, rfl⟩; omega
  · rintro ⟨hx, ⟨hy0, hy1⟩, ⟨hz0, hz1⟩⟩
    exact ⟨z.toNat, by omega, y.toNat, by omega, by omega, by omega, by omega⟩

theorem mem_loopZX (g : GridShape) (c : Int × Int × Int) :
    c ∈ loopZX g ↔ (0 ≤ c.1 ∧ c.1 < g.w) ∧ c.2.1 = 0 ∧ (0 ≤ c.2.2 ∧ c.2.2 < g.d) := by
  obtain ⟨x, y, z⟩ := c
  simp only [loopZX, List.mem_flatMap, List.mem_map, List.mem_range, Prod.mk.injEq]
  constructor
  · rintro ⟨z', hz, x', hx, rfl, rfl, rfl⟩; omega
  · rintro ⟨⟨hx0, hx1⟩, hy, ⟨hz0, hz1⟩⟩
    exact ⟨z.toNat, by omega, x.toNat, by omega, by omega, by omega, by omega⟩

theorem mem_loopYX (g : GridShape) (c : Int × Int × Int) :
    c ∈ loopYX g ↔ (0 ≤ c.1 ∧ c.1 < g.w) ∧ (0 ≤ c.2.1 ∧ c.2.1 < g.h) ∧ c.2.2 = 0 := by
  obtain ⟨x, y, z⟩ := c
  simp only [loopYX, List.mem_flatMap, List.mem_map, List.mem_range, Prod.mk.injEq]
  constructor
  · rintro ⟨y', hy, x', hx, rfl, rfl, rfl⟩; omega
  · rintro ⟨⟨hx0, hx1⟩, ⟨hy0, hy1⟩, hz⟩
    exact ⟨y.toNat, by omega, x.toNat, by omega, by omega, by omega, by omega⟩

private theorem nodup_loop2 (n m : Nat) (F : Nat → Nat → Int × Int × Int)
    (hF : ∀ a b a' b', F a b = F a' b' → a = a' ∧ b = b') :
    ((List.range n).flatMap fun a => (List.range m).map fun b => F a b).Nodup := by
  refine nodup_range_flatMap _ _ (fun a => ?_) ?_
  · exact List.nodup_range.map (fun b b' e => (hF a b a b' e).2)
  · intro a a' hab c hc hc'
    simp only [List.mem_map, List.mem_range] at hc hc'
    obtain ⟨b, _, rfl⟩ := hc
    obtain ⟨b', _, e⟩ := hc'
    exact hab (hF a' b' a b e).1.symm

theorem nodup_loopZY (g : GridShape) : (loopZY g).Nodup :=
  nodup_loop2 _ _ (fun z y => ((0 : Int), (y : Int), (z : Int))) (fun a b a' b' e => by simp only [Prod.mk.injEq] at e; omega)
theorem nodup_loopZX (g : GridShape) : (loopZX g).Nodup :=
  nodup_loop2 _ _ (fun z x => ((x : Int), (0 : Int), (z : Int))) (fun a b a' b' e => by simp only [Prod.mk.injEq] at e; omega)
theorem nodup_loopYX (g : GridShape) : (loopYX g).Nodup :=
  nodup_loop2 _ _ (fun y x => ((x : Int), (y : Int), (0 : Int))) (fun a b a' b' e => by simp only [Prod.mk.injEq] at e; omega)

abbrev Coord := Int × Int × Int

/-- the directed edges of `grid_to_graph` at coordinate level, in the order the code appends them -/
def innerCoordEdges (g : GridShape) : List (Coord × Coord) :=
  (loopZYX g).flatMap fun c => ((g2gInnerRules g.w g.h g.d c.1 c.2.1 c.2.2).filter (·.1)).map fun r => (r.2.1, r.2.2)
def perCoordEdges0 (g : GridShape) : List (Coord × Coord) :=
  if g.px then (loopZY g).map fun c => (g2gPerI0 g.w g.h g.d c.1 c.2.1 c.2.2, g2gPerJ0 g.w g.h g.d c.1 c.2.1 c.2.2) else []
def perCoordEdges1 (g : GridShape) : List (Coord × Coord) :=
  if g.py then (loopZX g).map fun c => (g2gPerI1 g.w g.h g.d c.1 c.2.1 c.2.2, g2gPerJ1 g.w g.h g.d c.1 c.2.1 c.2.2) else []
def perCoordEdges2 (g : GridShape) : List (Coord × Coord) :=
  if g.pz then (loopYX g).map fun c => (g2gPerI2 g.w g.h g.d c.1 c.2.1 c.2.2, g2gPerJ2 g.w g.h g.d c.1 c.2.1 c.2.2) else []
def coordEdges (g : GridShape) : List (Coord × Coord) :=
  innerCoordEdges g ++ perCoordEdges0 g ++ perCoordEdges1 g ++ perCoordEdges2 g

theorem g2gInnerRules_eq (w h d x y z : Int) :
    g2gInnerRules w h d x y z = [(decide (x < w - 1), (x, y, z), (x + 1, y, z)), (decide (y < h - 1), (x, y, z), (x, y + 1, z)),
      (decide (z < d - 1), (x, y, z), (x, y, z + 1))] := rfl

def inG (g : GridShape) (c : Coord) : Prop := (0 ≤ c.1 ∧ c.1 < g.w) ∧ (0 ≤ c.2.1 ∧ c.2.1 < g.h) ∧ (0 ≤ c.2.2 ∧ c.2.2 < g.d)

/-- both ends of every coordinate edge lie in the grid -/
theorem coordEdges_inGrid (g : GridShape) (hv : g.valid = true) : ∀ p ∈ coordEdges g, inG g p.1 ∧ inG g p.2 := by
  obtain ⟨hw, hh, hd⟩ := GridShape.valid_pos hv
  intro p hp
  simp only [coordEdges, List.mem_append] at hp
  rcases hp with ((hp | hp) | hp) | hp
  · simp only [innerCoordEdges, List.mem_flatMap, List.mem_map, List.mem_filter, g2gInnerRules_eq] at hp
    obtain ⟨c, hc, r, ⟨hr, hcond⟩, rfl⟩ := hp
    have hin := (mem_loopZYX g c).1 hc
    simp only [List.mem_cons, List.not_mem_nil, or_false] at hr
    rcases hr with rfl | rfl | rfl <;> simp only [decide_eq_true_eq] at hcond <;> simp only [inG] <;> omega
  · unfold perCoordEdges0 at hp
    split at hp
    · simp only [List.mem_map] at hp
      obtain ⟨c, hc, rfl⟩ := hp
      have hin := (mem_loopZY g c).1 hc
      simp only [g2gPerI0, g2gPerJ0, inG]; omega
    · simp at hp
  · unfold perCoordEdges1 at hp
    split at hp
    · simp only [List.mem_map] at hp
      obtain ⟨c, hc, rfl⟩ := hp
      have hin := (mem_loopZX g c).1 hc
      simp only [g2gPerI1, g2gPerJ1, inG]; omega
    · simp at hp
  · unfold perCoordEdges2 at hp
    split at hp
    · simp only [List.mem_map] at hp
      obtain ⟨c, hc, rfl⟩ := hp
      have hin := (mem_loopYX g c).1 hc
      simp only [g2gPerI2, g2gPerJ2, inG]; omega
    · simp at hp

/-- the code's edge list is the coordinate edge list with both ends sent through `get_cell_index` -/
theorem gridEdgeEnds_eq (g : GridShape) : gridEdgeEnds g = (coordEdges g).map fun p => edgeEnds g p.1 p.2 := by
  simp only [gridEdgeEnds, coordEdges, innerCoordEdges, perCoordEdges0, perCoordEdges1, perCoordEdges2, List.map_append,
    List.map_flatMap, List.map_map, Function.comp_def]
  cases g.px <;> cases g.py <;> cases g.pz <;> simp [Function.comp_def]

/-- the linear index of in-grid coordinates, through the generated formula -/
def idxC (g : GridShape) (c : Coord) : Int := cellIndexArr g.w g.h c.1 c.2.1 c.2.2

theorem edgeEnds_ok (g : GridShape) {c1 c2 : Coord} (h1 : inG g c1) (h2 : inG g c2) :
    edgeEnds g c1 c2 = .ok (idxC g c1, idxC g c2) := by
  have b : ∀ c : Coord, inG g c → pyCellIndex g (.arr c.1 c.2.1 c.2.2) = .ok (idxC g c) := by
    intro c hc
    have : withinBoundsArr g.w g.h g.d c.1 c.2.1 c.2.2 = true := by
      obtain ⟨⟨a0, a1⟩, ⟨b0, b1⟩, ⟨c0, c1'⟩⟩ := hc
      simp [withinBoundsArr, a0, a1, b0, b1, c0, c1']
    simp only [pyCellIndex, pyWithinBounds, this, Bool.or_true, if_true, idxC]
  simp only [edgeEnds, b c1 h1, b c2 h2]

/-- `grid_to_graph` never raises on a valid grid; its edges are the coordinate edges, in order -/
theorem gridToGraph_ok (g : GridShape) (hv : g.valid = true) (a : Rat) (envs : List Int) :
    gridToGraph g a envs = .ok (Graph.mk (envs.map (fun e => GNode.mk (a * a * a) e))
      ((coordEdges g).map (fun p => PyGEdge.mk (idxC g p.1) (idxC g p.2) (a * a) a))) := by
  have h : seqRes (gridEdgeEnds g) = .ok ((coordEdges g).map fun p => (idxC g p.1, idxC g p.2)) := by
    rw [gridEdgeEnds_eq]
    exact seqRes_map_ok _ _ _ (fun p hp => edgeEnds_ok g (coordEdges_inGrid g hv p hp).1 (coordEdges_inGrid g hv p hp).2)
  simp only [gridToGraph, h, List.map_map, Function.comp_def]

private theorem ind_eq {P Q : Prop} [Decidable P] [Decidable Q] (h : P ↔ Q) : (if P then 1 else 0 : Nat) = if Q then 1 else 0 := by
  by_cases hp : P
  · rw [if_pos hp, if_pos (h.1 hp)]
  · rw [if_neg hp, if_neg (fun q => hp (h.2 q))]

/-- the interior edges leaving a cell: one per positive direction that stays in the grid -/
theorem count_innerCoordEdges (g : GridShape) {c1 : Coord} (h1 : inG g c1) (c2 : Coord) :
    (innerCoordEdges g).count (c1, c2) =
      (if c1.1 < g.w - 1 ∧ (c1.1 + 1, c1.2.1, c1.2.2) = c2 then 1 else 0) +
      (if c1.2.1 < g.h - 1 ∧ (c1.1, c1.2.1 + 1, c1.2.2) = c2 then 1 else 0) +
      (if c1.2.2 < g.d - 1 ∧ (c1.1, c1.2.1, c1.2.2 + 1) = c2 then 1 else 0) := by
  unfold innerCoordEdges
  rw [count_flatMap_key (loopZYX g) (nodup_loopZYX g) _ (c1, c2) c1 ((mem_loopZYX g c1).2 h1)]
  · obtain ⟨x, y, z⟩ := c1
    simp only [g2gInnerRules_eq]
    by_cases hx : x < (g.w : Int) - 1 <;> by_cases hy : y < (g.h : Int) - 1 <;> by_cases hz : z < (g.d : Int) - 1 <;>
      simp [List.filter_cons, List.count_cons, hx, hy, hz] <;> split_ifs <;> omega
  · intro c _ hne hmem
    simp only [List.mem_map, List.mem_filter, g2gInnerRules_eq, List.mem_cons, List.not_mem_nil, or_false] at hmem
    obtain ⟨r, ⟨hr, _⟩, he⟩ := hmem
    apply hne
    rcases hr with rfl | rfl | rfl <;> simp only [Prod.mk.injEq] at he <;> exact he.1

/-- the wrap-around edges of a periodic x axis: one per (y, z), from the last to the first cell of the row -/
theorem count_perCoordEdges0 (g : GridShape) {c1 : Coord} (h1 : inG g c1) (c2 : Coord) :
    (perCoordEdges0 g).count (c1, c2) = if g.px = true ∧ c1.1 = g.w - 1 ∧ (0, c1.2.1, c1.2.2) = c2 then 1 else 0 := by
  unfold perCoordEdges0
  cases hp : g.px
  · simp
  · simp only [if_true, true_and]
    have hnd : ((loopZY g).map fun c => (g2gPerI0 g.w g.h g.d c.1 c.2.1 c.2.2, g2gPerJ0 g.w g.h g.d c.1 c.2.1 c.2.2)).Nodup := by
      refine List.Nodup.map_on ?_ (nodup_loopZY g)
      intro a ha b hb e
      have ma := (mem_loopZY g a).1 ha
      have mb := (mem_loopZY g b).1 hb
      simp only [g2gPerI0, g2gPerJ0, Prod.mk.injEq] at e
      exact Prod.ext (by omega) (Prod.ext e.1.2.1 e.1.2.2)
    rw [hnd.count]
    apply ind_eq
    obtain ⟨x, y, z⟩ := c1
    obtain ⟨x2, y2, z2⟩ := c2
    simp only [List.mem_map, g2gPerI0, g2gPerJ0, Prod.mk.injEq]
    constructor
    · rintro ⟨c, hc, ⟨rfl, rfl, rfl⟩, rfl, rfl, rfl⟩; simp
    · rintro ⟨rfl, rfl, rfl, rfl⟩
      exact ⟨(0, y, z), (mem_loopZY g _).2 ⟨rfl, h1.2.1, h1.2.2⟩, by simp⟩

theorem count_perCoordEdges1 (g : GridShape) {c1 : Coord} (h1 : inG g c1) (c2 : Coord) :
    (perCoordEdges1 g).count (c1, c2) = if g.py = true ∧ c1.2.1 = g.h - 1 ∧ (c1.1, 0, c1.2.2) = c2 then 1 else 0 := by
  unfold perCoordEdges1
  cases hp : g.py
  · simp
  · simp only [if_true, true_and]
    have hnd : ((loopZX g).map fun c => (g2gPerI1 g.w g.h g.d c.1 c.2.1 c.2.2, g2gPerJ1 g.w g.h g.d c.1 c.2.1 c.2.2)).Nodup := by
      refine List.Nodup.map_on ?_ (nodup_loopZX g)
      intro a ha b hb e
      have ma := (mem_loopZX g a).1 ha
      have mb := (mem_loopZX g b).1 hb
      simp only [g2gPerI1, g2gPerJ1, Prod.mk.injEq] at e
      exact Prod.ext e.1.1 (Prod.ext (by omega) e.1.2.2)
    rw [hnd.count]
    apply ind_eq
    obtain ⟨x, y, z⟩ := c1
    obtain ⟨x2, y2, z2⟩ := c2
    simp only [List.mem_map, g2gPerI1, g2gPerJ1, Prod.mk.injEq]
    constructor
    · rintro ⟨c, hc, ⟨rfl, rfl, rfl⟩, rfl, rfl, rfl⟩; simp
    · rintro ⟨rfl, rfl, rfl, rfl⟩
      exact ⟨(x, 0, z), (mem_loopZX g _).2 ⟨h1.1, rfl, h1.2.2⟩, by simp⟩

theorem count_perCoordEdges2 (g : GridShape) {c1 : Coord} (h1 : inG g c1) (c2 : Coord) :
    (perCoordEdges2 g).count (c1, c2) = if g.pz = true ∧ c1.2.2 = g.d - 1 ∧ (c1.1, c1.2.1, 0) = c2 then 1 else 0 := by
  unfold perCoordEdges2
  cases hp : g.pz
  · simp
  · simp only [if_true, true_and]
    have hnd : ((loopYX g).map fun c => (g2gPerI2 g.w g.h g.d c.1 c.2.1 c.2.2, g2gPerJ2 g.w g.h g.d c.1 c.2.1 c.2.2)).Nodup := by
      refine List.Nodup.map_on ?_ (nodup_loopYX g)
      intro a ha b hb e
      have ma := (mem_loopYX g a).1 ha
      have mb := (mem_loopYX g b).1 hb
      simp only [g2gPerI2, g2gPerJ2, Prod.mk.injEq] at e
      exact Prod.ext e.1.1 (Prod.ext e.1.2.1 (by omega))
    rw [hnd.count]
    apply ind_eq
    obtain ⟨x, y, z⟩ := c1
    obtain ⟨x2, y2, z2⟩ := c2
    simp only [List.mem_map, g2gPerI2, g2gPerJ2, Prod.mk.injEq]
    constructor
    · rintro ⟨c, hc, ⟨rfl, rfl, rfl⟩, rfl, rfl, rfl⟩; simp
    · rintro ⟨rfl, rfl, rfl, rfl⟩
      exact ⟨(x, y, 0), (mem_loopYX g _).2 ⟨h1.1, h1.2.1, rfl⟩, by simp⟩

private theorem ind_or {A B R : Prop} [Decidable A] [Decidable B] [Decidable R] (hex : ¬ (A ∧ B)) (h : A ∨ B ↔ R) :
    (if A then 1 else 0 : Nat) + (if B then 1 else 0) = if R then 1 else 0 := by
  by_cases ha : A <;> by_cases hb : B <;> by_cases hr : R <;> simp_all

/-- **directed multiplicity** — how often the ordered pair (c1, c2) occurs among the coordinate edges: once for each of the
three positive faces (+x, +y, +z) of `c1` behind which `c2` lies -/
theorem count_coordEdges (g : GridShape) {c1 : Coord} (h1 : inG g c1) (c2 : Coord) :
    (coordEdges g).count (c1, c2) =
      (if reach g 0 c1 c2 then 1 else 0) + (if reach g 2 c1 c2 then 1 else 0) + (if reach g 4 c1 c2 then 1 else 0) := by
  simp only [coordEdges, List.count_append, count_innerCoordEdges g h1, count_perCoordEdges0 g h1, count_perCoordEdges1 g h1,
    count_perCoordEdges2 g h1]
  obtain ⟨x, y, z⟩ := c1
  obtain ⟨x2, y2, z2⟩ := c2
  obtain ⟨⟨hx0, hx1⟩, ⟨hy0, hy1⟩, ⟨hz0, hz1⟩⟩ := h1
  have e0 := ind_or (A := x < (g.w : Int) - 1 ∧ (x + 1, y, z) = (x2, y2, z2)) (B := g.px = true ∧ x = (g.w : Int) - 1 ∧ ((0 : Int), y, z) = (x2, y2, z2))
    (R := reach g 0 (x, y, z) (x2, y2, z2)) (by simp only [Prod.mk.injEq]; omega)
    (by simp only [reach, Prod.mk.injEq]; cases g.px <;> simp <;> omega)
  have e2 := ind_or (A := y < (g.h : Int) - 1 ∧ (x, y + 1, z) = (x2, y2, z2)) (B := g.py = true ∧ y = (g.h : Int) - 1 ∧ (x, (0 : Int), z) = (x2, y2, z2))
    (R := reach g 2 (x, y, z) (x2, y2, z2)) (by simp only [Prod.mk.injEq]; omega)
    (by simp only [reach, Prod.mk.injEq]; cases g.py <;> simp <;> omega)
  have e4 := ind_or (A := z < (g.d : Int) - 1 ∧ (x, y, z + 1) = (x2, y2, z2)) (B := g.pz = true ∧ z = (g.d : Int) - 1 ∧ (x, y, (0 : Int)) = (x2, y2, z2))
    (R := reach g 4 (x, y, z) (x2, y2, z2)) (by simp only [Prod.mk.injEq]; omega)
    (by simp only [reach, Prod.mk.injEq]; cases g.pz <;> simp <;> omega)
  simp only at e0 e2 e4 ⊢
  omega

end Strengths
