/-
Checked-access engine (C11): the graph tables built by `Init` (`SetNeighbors`, `Build_mesh_kd`, the nested scratch
vectors of `AlgorithmSpecificInit`) make the graph layout valid, for every graph whose edge endpoints are node indices
(isolated nodes, self-loops and parallel edges included).
-/
import Strengths.Proofs.CheckedGrid
import Strengths.Model.CheckedSim

namespace Strengths

theorem pushAt_ok {α : Type} (v : Vec (Vec α)) (o : Nat) (ho : o < v.size) (a : α) :
    Ok (pushAt v (o : Int) a) (fun v' => v'.size = v.size ∧ v'.get o = (v.get o).push a ∧ ∀ j, j ≠ o → v'.get j = v.get j) := by
  unfold pushAt
  refine Ok.bind (Vec.rd_nat v o ho) (fun row hrow => ?_)
  rw [hrow]
  exact Vec.wr_nat v o _ ho

/-- `mesh_neighbor_n / _index / _sfc / _dst` as `SetNeighbors` leaves them -/
structure NbOK (n : Nat) (st : NbSt) : Prop where
  nn : st.nn.size = n
  nidx : st.nidx.size = n
  nsfc : st.nsfc.size = n
  ndst : st.ndst.size = n
  cnt : ∀ i, i < n → st.nn.get i = ((st.nidx.get i).size : Int)
  sfcSz : ∀ i, i < n → (st.nsfc.get i).size = (st.nidx.get i).size
  dstSz : ∀ i, i < n → (st.ndst.get i).size = (st.nidx.get i).size
  ent : ∀ i k, i < n → k < (st.nidx.get i).size → 0 ≤ (st.nidx.get i).get k ∧ (st.nidx.get i).get k < (n : Int)

/-- edge endpoints are node indices -/
def EndsOK (n nE : Nat) (e : Vec Int) : Prop := e.size = nE ∧ ∀ k, k < nE → 0 ≤ e.get k ∧ e.get k < (n : Int)

theorem push_size {α : Type} (v : Vec α) (a : α) : (v.push a).size = v.size + 1 := rfl
theorem push_get {α : Type} (v : Vec α) (a : α) (k : Nat) : (v.push a).get k = if k = v.size then a else v.get k := rfl

theorem setNeighbors_ok (n nE : Nat) (ei ej : Vec Int) (sfc dst : Vec Rat) (hei : EndsOK n nE ei) (hej : EndsOK n nE ej)
    (hsfc : sfc.size = nE) (hdst : dst.size = nE) :
    Ok (setNeighbors n nE ei ej sfc dst) (NbOK n) := by
  unfold setNeighbors
  have h0 : NbOK n { nn := Vec.replicate n 0, nidx := Vec.replicate n default, nsfc := Vec.replicate n default, ndst := Vec.replicate n default } :=
    ⟨rfl, rfl, rfl, rfl, fun _ _ => rfl, fun _ _ => rfl, fun _ _ => rfl, fun i k _ hk => by
      have : k < 0 := hk
      omega⟩
  refine Ok.forUpTo (fun _ st => NbOK n st) h0 (fun e he st hst => ?_)
  refine Ok.bind (Vec.rd_nat ei e (by rw [hei.1]; exact he)) (fun a ha => ?_)
  refine Ok.bind (Vec.rd_nat ej e (by rw [hej.1]; exact he)) (fun b hb => ?_)
  refine Ok.bind (Vec.rd_nat sfc e (by rw [hsfc]; exact he)) (fun sf _ => ?_)
  refine Ok.bind (Vec.rd_nat dst e (by rw [hdst]; exact he)) (fun ds _ => ?_)
  have har := hei.2 e he
  have hbr := hej.2 e he
  rw [← ha] at har
  rw [← hb] at hbr
  obtain ⟨a', rfl⟩ := Int.eq_ofNat_of_zero_le har.1
  obtain ⟨b', rfl⟩ := Int.eq_ofNat_of_zero_le hbr.1
  have ha' : a' < n := by exact_mod_cast har.2
  have hb' : b' < n := by exact_mod_cast hbr.2
  refine Ok.bind (Vec.rd_nat st.nn a' (by rw [hst.nn]; exact ha')) (fun ca hca => ?_)
  refine Ok.bind (Vec.wr_nat st.nn a' (ca + 1) (by rw [hst.nn]; exact ha')) (fun nn1 hnn1 => ?_)
  refine Ok.bind (Vec.rd_nat nn1 b' (by rw [hnn1.1, hst.nn]; exact hb')) (fun cb hcb => ?_)
  refine Ok.bind (Vec.wr_nat nn1 b' (cb + 1) (by rw [hnn1.1, hst.nn]; exact hb')) (fun nn2 hnn2 => ?_)
  refine Ok.bind (pushAt_ok st.nidx a' (by rw [hst.nidx]; exact ha') (b' : Int)) (fun x1 hx1 => ?_)
  refine Ok.bind (pushAt_ok x1 b' (by rw [hx1.1, hst.nidx]; exact hb') (a' : Int)) (fun x2 hx2 => ?_)
  refine Ok.bind (pushAt_ok st.nsfc a' (by rw [hst.nsfc]; exact ha') sf) (fun s1 hs1 => ?_)
  refine Ok.bind (pushAt_ok s1 b' (by rw [hs1.1, hst.nsfc]; exact hb') sf) (fun s2 hs2 => ?_)
  refine Ok.bind (pushAt_ok st.ndst a' (by rw [hst.ndst]; exact ha') ds) (fun d1 hd1 => ?_)
  refine Ok.bind (pushAt_ok d1 b' (by rw [hd1.1, hst.ndst]; exact hb') ds) (fun d2 hd2 => ?_)
  refine Ok.pure ⟨by rw [hnn2.1, hnn1.1]; exact hst.nn, by rw [hx2.1, hx1.1]; exact hst.nidx,
    by rw [hs2.1, hs1.1]; exact hst.nsfc, by rw [hd2.1, hd1.1]; exact hst.ndst, ?_, ?_, ?_, ?_⟩
  -- rows after the two pushes, for any of the three nested vectors
  all_goals
    have rowsz : ∀ {α : Type} (v v1 v2 : Vec (Vec α)) (p q : α),
        (v1.get a' = (v.get a').push p ∧ ∀ j, j ≠ a' → v1.get j = v.get j) →
        (v2.get b' = (v1.get b').push q ∧ ∀ j, j ≠ b' → v2.get j = v1.get j) →
        ∀ i, (v2.get i).size = (v.get i).size + (if i = a' then 1 else 0) + (if i = b' then 1 else 0) := by
      intro α v v1 v2 p q h1 h2 i
      by_cases hib : i = b'
      · subst hib
        rw [h2.1, push_size]
        by_cases hia : i = a'
        · subst hia; rw [h1.1, push_size]; simp
        · rw [h1.2 i hia]; simp [hia]
      · rw [h2.2 i hib]
        by_cases hia : i = a'
        · subst hia; rw [h1.1, push_size]; simp [hib]
        · rw [h1.2 i hia]; simp [hia, hib]
  · intro i hi
    have hsz := rowsz st.nidx x1 x2 (b' : Int) (a' : Int) ⟨hx1.2.1, hx1.2.2⟩ ⟨hx2.2.1, hx2.2.2⟩ i
    rw [hsz]
    have hcnt := hst.cnt i hi
    by_cases hib : i = b'
    · subst hib
      rw [hnn2.2.1, hcb]
      by_cases hia : i = a'
      · subst hia; rw [hnn1.2.1, hca, hst.cnt i hi]; simp
      · rw [hnn1.2.2 i hia, hcnt]; simp [hia]
    · rw [hnn2.2.2 i hib]
      by_cases hia : i = a'
      · subst hia; rw [hnn1.2.1, hca, hcnt]; simp [hib]
      · rw [hnn1.2.2 i hia, hcnt]; simp [hia, hib]
  · intro i hi
    rw [rowsz st.nsfc s1 s2 sf sf ⟨hs1.2.1, hs1.2.2⟩ ⟨hs2.2.1, hs2.2.2⟩ i,
      rowsz st.nidx x1 x2 (b' : Int) (a' : Int) ⟨hx1.2.1, hx1.2.2⟩ ⟨hx2.2.1, hx2.2.2⟩ i, hst.sfcSz i hi]
  · intro i hi
    rw [rowsz st.ndst d1 d2 ds ds ⟨hd1.2.1, hd1.2.2⟩ ⟨hd2.2.1, hd2.2.2⟩ i,
      rowsz st.nidx x1 x2 (b' : Int) (a' : Int) ⟨hx1.2.1, hx1.2.2⟩ ⟨hx2.2.1, hx2.2.2⟩ i, hst.dstSz i hi]
  · intro i k hi hk
    -- an entry of a row is an old entry or one of the two pushed endpoints
    have hold := hst.ent i
    have hx1row : ∀ k, k < (x1.get i).size → 0 ≤ (x1.get i).get k ∧ (x1.get i).get k < (n : Int) := by
      intro k hk
      by_cases hia : i = a'
      · subst hia
        rw [hx1.2.1] at hk ⊢
        rw [push_get]
        by_cases hks : k = (st.nidx.get i).size
        · rw [if_pos hks]; exact ⟨Int.natCast_nonneg _, by exact_mod_cast hb'⟩
        · rw [if_neg hks]; exact hold k hi (by rw [push_size] at hk; omega)
      · rw [hx1.2.2 i hia] at hk ⊢; exact hold k hi hk
    by_cases hib : i = b'
    · subst hib
      rw [hx2.2.1] at hk ⊢
      rw [push_get]
      by_cases hks : k = (x1.get i).size
      · rw [if_pos hks]; exact ⟨Int.natCast_nonneg _, by exact_mod_cast ha'⟩
      · rw [if_neg hks]; exact hx1row k (by rw [push_size] at hk; omega)
    · rw [hx2.2.2 i hib] at hk ⊢; exact hx1row k hk

/-! ### `Build_mesh_kd` (graph) -/

/-- `mesh_kd_out`, `mesh_kd_in`: one row per node, of `n_species * mesh_neighbor_n[i]` entries -/
def KdOK (n ns : Nat) (nb : NbSt) (kd : Vec (Vec Rat) × Vec (Vec Rat)) (upto : Nat) : Prop :=
  kd.1.size = n ∧ kd.2.size = n ∧
  ∀ i, i < upto → (kd.1.get i).size = ns * (nb.nidx.get i).size ∧ (kd.2.get i).size = ns * (nb.nidx.get i).size

theorem dIndex_site (D : Vec Rat) (ns nenv : Nat) (hD : D.size = ns * nenv) {s : Nat} (hs : s < ns) (e : Int)
    (he : 0 ≤ e ∧ e < (nenv : Int)) : 0 ≤ Gen.dIndex nenv s e ∧ Gen.dIndex nenv s e < (D.size : Int) := by
  obtain ⟨e', rfl⟩ := Int.eq_ofNat_of_zero_le he.1
  have he' : e' < nenv := by exact_mod_cast he.2
  rw [dIndex_nat, hD]
  exact ⟨Int.natCast_nonneg _, by exact_mod_cast flat2_lt ns nenv s e' hs he'⟩

theorem buildMeshKdGraph_ok (n ns nenv : Nat) (nb : NbSt) (hnb : NbOK n nb) (env : Vec Int) (henv : EnvOK env n nenv)
    (vol : Vec Rat) (hvol : vol.size = n) (D : Vec Rat) (hD : D.size = ns * nenv) (edge : Rat → Rat) :
    Ok (buildMeshKdGraph n ns nenv nb env vol D edge) (fun kd => KdOK n ns nb kd n) := by
  unfold buildMeshKdGraph
  refine Ok.forUpTo (fun i kd => KdOK n ns nb kd i) ⟨rfl, rfl, fun i hi => by omega⟩ (fun i hi p hp => ?_)
  refine Ok.bind (Vec.rd_nat nb.nn i (by rw [hnb.nn]; exact hi)) (fun m hm => ?_)
  have hmM : m = ((nb.nidx.get i).size : Int) := hm.trans (hnb.cnt i hi)
  subst hmM
  simp only [Int.toNat_natCast]
  refine Ok.bind (Vec.wr_nat p.1 i _ (by rw [hp.1]; exact hi)) (fun o1 ho1 => ?_)
  refine Ok.bind (Vec.wr_nat p.2 i _ (by rw [hp.2.1]; exact hi)) (fun i1 hi1 => ?_)
  have hstart : KdOK n ns nb (o1, i1) (i + 1) := by
    refine ⟨ho1.1.trans hp.1, hi1.1.trans hp.2.1, fun i' hi' => ?_⟩
    by_cases he : i' = i
    · subst he; rw [ho1.2.1, hi1.2.1]; exact ⟨rfl, rfl⟩
    · show (o1.get i').size = _ ∧ (i1.get i').size = _
      rw [ho1.2.2 i' he, hi1.2.2 i' he]; exact hp.2.2 i' (by omega)
  refine Ok.forUpTo (fun _ kd => KdOK n ns nb kd (i + 1)) hstart (fun s hs p hp => ?_)
  refine Ok.forUpTo (fun _ kd => KdOK n ns nb kd (i + 1)) hp (fun k hk p hp => ?_)
  refine Ok.bind (Vec.rd_nat nb.nidx i (by rw [hnb.nidx]; exact hi)) (fun row hrow => ?_)
  subst hrow
  refine Ok.bind (Vec.rd_nat (nb.nidx.get i) k hk) (fun j hj => ?_)
  have hjr := hnb.ent i k hi hk
  rw [← hj] at hjr
  obtain ⟨j', rfl⟩ := Int.eq_ofNat_of_zero_le hjr.1
  have hj' : j' < n := by exact_mod_cast hjr.2
  refine Ok.bind (Vec.rd_nat vol i (by rw [hvol]; exact hi)) (fun vi _ => ?_)
  refine Ok.bind (Vec.rd_nat vol j' (by rw [hvol]; exact hj')) (fun vj _ => ?_)
  refine Ok.bind (env_site henv hi) (fun e1 he1 => ?_)
  refine Ok.bind (env_site henv hj') (fun e2 he2 => ?_)
  refine Ok.bind (Vec.rd_Ok _ _ (dIndex_site D ns nenv hD hs e1 he1)) (fun Di _ => ?_)
  refine Ok.bind (Vec.rd_Ok _ _ (dIndex_site D ns nenv hD hs e2 he2)) (fun Dj _ => ?_)
  refine Ok.bind (Vec.rd_nat nb.nsfc i (by rw [hnb.nsfc]; exact hi)) (fun srow hsrow => ?_)
  refine Ok.bind (Vec.rd_nat srow k (by rw [hsrow, hnb.sfcSz i hi]; exact hk)) (fun sf _ => ?_)
  refine Ok.bind (Vec.rd_nat nb.ndst i (by rw [hnb.ndst]; exact hi)) (fun drow hdrow => ?_)
  refine Ok.bind (Vec.rd_nat drow k (by rw [hdrow, hnb.dstSz i hi]; exact hk)) (fun ds _ => ?_)
  try simp only []
  rw [slotInnerGraph_nat]
  have hidx : s * (nb.nidx.get i).size + k < ns * (nb.nidx.get i).size := flat2_lt ns _ s k hs hk
  have hrow1 := (hp.2.2 i (by omega)).1
  have hrow2 := (hp.2.2 i (by omega)).2
  refine Ok.bind (Vec.rd_nat p.1 i (by rw [hp.1]; exact hi)) (fun orow horow => ?_)
  refine Ok.bind (Vec.wr_nat orow _ _ (by rw [horow, hrow1]; exact hidx)) (fun orow' horow' => ?_)
  refine Ok.bind (Vec.wr_nat p.1 i orow' (by rw [hp.1]; exact hi)) (fun o2 ho2 => ?_)
  refine Ok.bind (Vec.rd_nat p.2 i (by rw [hp.2.1]; exact hi)) (fun irow hirow => ?_)
  refine Ok.bind (Vec.wr_nat irow _ _ (by rw [hirow, hrow2]; exact hidx)) (fun irow' hirow' => ?_)
  refine Ok.bind (Vec.wr_nat p.2 i irow' (by rw [hp.2.1]; exact hi)) (fun i2 hi2 => ?_)
  refine Ok.pure ⟨ho2.1.trans hp.1, hi2.1.trans hp.2.1, fun i' hi' => ?_⟩
  by_cases he : i' = i
  · subst he
    show (o2.get i').size = _ ∧ (i2.get i').size = _
    rw [ho2.2.1, hi2.2.1, horow'.1, hirow'.1, horow, hirow]
    exact ⟨hrow1, hrow2⟩
  · show (o2.get i').size = _ ∧ (i2.get i').size = _
    rw [ho2.2.2 i' he, hi2.2.2 i' he]; exact hp.2.2 i' hi'

/-! ### the nested scratch vectors -/

theorem nestedInit_ok {α : Type} [Inhabited (Vec α)] (n ns : Nat) (nb : NbSt) (hnb : NbOK n nb) (zero : α) :
    Ok (nestedInit n ns nb.nn zero) (fun (v : Vec (Vec α)) => v.size = n ∧ ∀ i, i < n → (v.get i).size = (nb.nidx.get i).size * ns) := by
  unfold nestedInit
  refine Ok.mono (Ok.forUpTo (fun k (v : Vec (Vec α)) => v.size = n ∧ ∀ i, i < k → (v.get i).size = (nb.nidx.get i).size * ns)
    ⟨rfl, fun i hi => by omega⟩ (fun i hi v hv => ?_)) (fun v hv => hv)
  refine Ok.bind (Vec.rd_nat nb.nn i (by rw [hnb.nn]; exact hi)) (fun m hm => ?_)
  have hmM : m = ((nb.nidx.get i).size : Int) := hm.trans (hnb.cnt i hi)
  subst hmM
  simp only [Int.toNat_natCast]
  refine Ok.mono (Vec.wr_nat v i _ (by rw [hv.1]; exact hi)) (fun v' hv' => ⟨hv'.1.trans hv.1, fun i' hi' => ?_⟩)
  by_cases he : i' = i
  · subst he; rw [hv'.2.1]; rfl
  · rw [hv'.2.2 i' he]; exact hv.2 i' (by omega)

/-! ### the graph layout is valid -/

structure GraphOK (T : Tabs) (G : GraphTabs) : Prop where
  nb : NbOK T.n { nn := G.nn, nidx := G.nidx, nsfc := G.nsfc, ndst := G.ndst }
  kd : KdOK T.n T.ns { nn := G.nn, nidx := G.nidx, nsfc := G.nsfc, ndst := G.ndst } (G.kdOut, G.kdIn) T.n

/-- what `mesh_neighbor_index[i][k]` holds -/
def nbGraph (G : GraphTabs) (i k : Nat) : Option Nat := some ((G.nidx.get i).get k).toNat

theorem graphLayout_ok {T : Tabs} {G : GraphTabs} (h : GraphOK T G) :
    LayoutOK T (graphLayout G) (fun i => (G.nidx.get i).size) (nbGraph G) := by
  have hnn : ∀ i, i < T.n → G.nn.rd (i : Int) = .ok (((G.nidx.get i).size : Nat) : Int) := by
    intro i hi
    obtain ⟨m, hm, hme⟩ := Vec.rd_nat G.nn i (by rw [h.nb.nn]; exact hi)
    rw [hm, hme]; exact congrArg _ (h.nb.cnt i hi)
  have hrow : ∀ i, i < T.n → G.nidx.rd (i : Int) = .ok (G.nidx.get i) := by
    intro i hi
    obtain ⟨r, hr, hre⟩ := Vec.rd_nat G.nidx i (by rw [h.nb.nidx]; exact hi)
    rw [hr, hre]
  have hent : ∀ i k, i < T.n → k < (G.nidx.get i).size →
      (G.nidx.get i).rd (k : Int) = .ok ((G.nidx.get i).get k) ∧ 0 ≤ (G.nidx.get i).get k ∧ (G.nidx.get i).get k < (T.n : Int) := by
    intro i k hi hk
    obtain ⟨j, hj, hje⟩ := Vec.rd_nat (G.nidx.get i) k hk
    exact ⟨by rw [hj, hje], h.nb.ent i k hi hk⟩
  have hinner : ∀ i s k, i < T.n → s < T.ns → k < (G.nidx.get i).size →
      Gen.slotInnerGraph (((G.nidx.get i).size : Nat) : Int) s k = ((s * (G.nidx.get i).size + k : Nat) : Int) ∧
      s * (G.nidx.get i).size + k < T.ns * (G.nidx.get i).size := by
    intro i s k _ hs hk
    exact ⟨slotInnerGraph_nat _ s k, flat2_lt T.ns _ s k hs hk⟩
  constructor
  · intro i hi
    show (G.nn.rd (i : Int) >>= fun m => .ok m.toNat) = _
    rw [hnn i hi, ok_bind, Int.toNat_natCast]
  · intro i k hi hk
    show (G.nidx.rd (i : Int) >>= fun row => row.rd (k : Int) >>= fun j => .ok (some j.toNat)) = _
    rw [hrow i hi, ok_bind, (hent i k hi hk).1, ok_bind]; rfl
  · intro i k j hi hk hj
    unfold nbGraph at hj
    injection hj with hj
    obtain ⟨_, h0, h1⟩ := hent i k hi hk
    have : (((G.nidx.get i).get k).toNat : Int) = (G.nidx.get i).get k := Int.toNat_of_nonneg h0
    rw [hj] at this
    rw [← this] at h1
    exact_mod_cast h1
  · intro i s k hi hs hk
    show Ok (G.nn.rd (i : Int) >>= fun m => G.kdOut.rd (i : Int) >>= fun row => row.rd (Gen.slotInnerGraph m s k)) _
    rw [hnn i hi, ok_bind]
    refine Ok.bind (Vec.rd_nat G.kdOut i (by rw [h.kd.1]; exact hi)) (fun row hr => ?_)
    obtain ⟨e1, e2⟩ := hinner i s k hi hs hk
    rw [e1]
    exact Ok.mono (Vec.rd_nat row _ (by rw [hr, (h.kd.2.2 i hi).1]; exact e2)) (fun _ _ => trivial)
  · intro i s k j hi hs hk hj
    show Ok (G.nidx.rd (i : Int) >>= fun row => row.rd (k : Int) >>= fun j => G.nn.rd (i : Int) >>= fun m =>
      G.kdIn.rd (i : Int) >>= fun r2 => r2.rd (Gen.slotInnerGraph m s k) >>= fun c => .ok (j, c)) _
    rw [hrow i hi, ok_bind, (hent i k hi hk).1, ok_bind, hnn i hi, ok_bind]
    refine Ok.bind (Vec.rd_nat G.kdIn i (by rw [h.kd.2.1]; exact hi)) (fun row hr => ?_)
    obtain ⟨e1, e2⟩ := hinner i s k hi hs hk
    rw [e1]
    refine Ok.bind (Vec.rd_nat row _ (by rw [hr, (h.kd.2.2 i hi).2]; exact e2)) (fun c _ => Ok.pure ?_)
    unfold nbGraph at hj
    injection hj with hj
    show (G.nidx.get i).get k = (j : Int)
    rw [← hj]; exact (Int.toNat_of_nonneg (hent i k hi hk).2.1).symm
  · intro i s k hi _ _
    show Ok (G.nn.rd (i : Int) >>= fun m => (.ok (SlotAddr.nested i (Gen.slotInnerGraph m s k)) : CRes SlotAddr)) _
    rw [hnn i hi, ok_bind]; exact Ok.pure trivial
  · intro i s k i' s' k' a hi hs hk hi' hs' hk' e1 e2
    have f1 : (graphLayout G).slot i s k = .ok (SlotAddr.nested i (Gen.slotInnerGraph (((G.nidx.get i).size : Nat) : Int) s k)) := by
      show (G.nn.rd (i : Int) >>= fun m => (.ok (SlotAddr.nested i (Gen.slotInnerGraph m s k)) : CRes SlotAddr)) = _
      rw [hnn i hi, ok_bind]
    have f2 : (graphLayout G).slot i' s' k' = .ok (SlotAddr.nested i' (Gen.slotInnerGraph (((G.nidx.get i').size : Nat) : Int) s' k')) := by
      show (G.nn.rd (i' : Int) >>= fun m => (.ok (SlotAddr.nested i' (Gen.slotInnerGraph m s' k')) : CRes SlotAddr)) = _
      rw [hnn i' hi', ok_bind]
    rw [f1] at e1; rw [f2] at e2
    have := e1.trans e2.symm
    injection this with this
    injection this with h1 h2
    have hii : i = i' := by exact_mod_cast h1
    subst hii
    rw [(hinner i s k hi hs hk).1, (hinner i s' k' hi hs' hk').1] at h2
    have h2' : s * (G.nidx.get i).size + k = s' * (G.nidx.get i).size + k' := by exact_mod_cast h2
    obtain ⟨e3, e4⟩ := flat2_inj hk hk' h2'
    exact ⟨rfl, e3, e4⟩

/-- a nested scratch vector with rows of `mesh_neighbor_n[i] * n_species` entries -/
theorem graphSlotOK {α : Type} {T : Tabs} {G : GraphTabs} (h : GraphOK T G) (v : Vec (Vec α)) (hv : v.size = T.n)
    (hrows : ∀ i, i < T.n → (v.get i).size = (G.nidx.get i).size * T.ns) :
    SlotOK T (graphLayout G) (fun i => (G.nidx.get i).size) (SlotVec.nested v) := by
  intro i s k hi hs hk a ha
  have hnn : G.nn.rd (i : Int) = .ok (((G.nidx.get i).size : Nat) : Int) := by
    obtain ⟨m, hm, hme⟩ := Vec.rd_nat G.nn i (by rw [h.nb.nn]; exact hi)
    rw [hm, hme]; exact congrArg _ (h.nb.cnt i hi)
  have f1 : (graphLayout G).slot i s k = .ok (SlotAddr.nested i (Gen.slotInnerGraph (((G.nidx.get i).size : Nat) : Int) s k)) := by
    show (G.nn.rd (i : Int) >>= fun m => (.ok (SlotAddr.nested i (Gen.slotInnerGraph m s k)) : CRes SlotAddr)) = _
    rw [hnn, ok_bind]
  rw [f1] at ha
  injection ha with ha
  subst ha
  show Ok (v.rd (i : Int) >>= fun row => row.rd (Gen.slotInnerGraph _ s k)) _
  refine Ok.bind (Vec.rd_nat v i (by rw [hv]; exact hi)) (fun row hr => ?_)
  rw [slotInnerGraph_nat]
  have : s * (G.nidx.get i).size + k < row.size := by
    rw [hr, hrows i hi, Nat.mul_comm (G.nidx.get i).size T.ns]; exact flat2_lt T.ns _ s k hs hk
  exact Ok.mono (Vec.rd_nat row _ this) (fun _ _ => trivial)

end Strengths
