/-
Helper lemmas for C20 (dictionary keys, enumerations, index injectivity, position tests).
-/
import Strengths.Model.Validation
import Strengths.Proofs.Network

namespace Strengths
open Gen

theorem isError_iff {α} (r : Res α) : r.isError = true ↔ ∃ e, r = .error e := by
  cases r <;> simp [Res.isError]

theorem ite_err_isError {α} (c : Prop) [Decidable c] (e : Err) (r : Res α) :
    Res.isError (if c then (.error e : Res α) else r) = true ↔ c ∨ r.isError = true := by
  by_cases h : c <;> simp [h, Res.isError]

/-! ### keys -/

theorem unknownKey_iff (syn : List (List String)) (keys : List String) :
    unknownKey syn keys = true ↔ ∃ k ∈ keys, ∀ s ∈ syn, k ∉ s := by
  simp [unknownKey]

theorem doublyAliased_iff (syn : List (List String)) (keys : List String) :
    doublyAliased syn keys = true ↔ ∃ s ∈ syn, 2 ≤ (keys.filter fun k => s.contains k).length := by
  simp [doublyAliased, Nat.lt_iff_add_one_le]

theorem two_le_filter_of_two {α} [DecidableEq α] (p : α → Bool) (l : List α) (a b : α)
    (ha : a ∈ l) (hb : b ∈ l) (hab : a ≠ b) (hpa : p a = true) (hpb : p b = true) :
    2 ≤ (l.filter p).length := by
  induction l with
  | nil => cases ha
  | cons x r ih =>
    simp only [List.filter]
    rcases List.mem_cons.mp ha with rfl | ha'
    · rcases List.mem_cons.mp hb with h | hb'
      · exact absurd h.symm hab
      · have : b ∈ r.filter p := List.mem_filter.mpr ⟨hb', hpb⟩
        simp only [hpa, List.length_cons]
        have := List.length_pos_of_mem this
        omega
    · rcases List.mem_cons.mp hb with rfl | hb'
      · have : a ∈ r.filter p := List.mem_filter.mpr ⟨ha', hpa⟩
        simp only [hpb, List.length_cons]
        have := List.length_pos_of_mem this
        omega
      · have := ih ha' hb'
        cases p x <;> simp <;> omega

/-! ### boundary conditions -/

theorem setBoundaryLoop_error_iff (bc st : List (String × String)) :
    (setBoundaryLoop bc st).1.isError = true ↔ ∃ p ∈ bc, p.1 ∉ pyAxes ∨ p.2 ∉ pyBoundary := by
  induction bc generalizing st with
  | nil => simp [setBoundaryLoop, Res.isError]
  | cons p r ih =>
    obtain ⟨axis, c⟩ := p
    simp only [setBoundaryLoop]
    by_cases h1 : pyAxes.contains axis = true
    · by_cases h2 : pyBoundary.contains c = true
      · have m1 : axis ∈ pyAxes := List.contains_iff_mem.mp h1
        have m2 : c ∈ pyBoundary := List.contains_iff_mem.mp h2
        simp only [h1, h2, Bool.not_true, Bool.false_eq_true, ↓reduceIte, ih, List.mem_cons, exists_eq_or_imp,
          m1, m2, not_true_eq_false, or_self, false_or]
      · have m2 : c ∉ pyBoundary := fun hm => h2 (List.contains_iff_mem.mpr hm)
        simp [h1, h2, Res.isError, m2]
    · have m1 : axis ∉ pyAxes := fun hm => h1 (List.contains_iff_mem.mpr hm)
      simp [h1, Res.isError, m1]

/-! ### state index arithmetic -/

theorem stateIndex_injective {n s c s' c' : Int} (hc : 0 ≤ c ∧ c < n) (hc' : 0 ≤ c' ∧ c' < n)
    (h : stateIndex n s c = stateIndex n s' c') : s = s' ∧ c = c' := by
  simp only [stateIndex] at h
  have hn : 0 < n := by omega
  have hs : s = s' := by
    by_contra hne
    rcases Int.lt_or_gt_of_ne hne with hlt | hgt
    · have : s + 1 ≤ s' := hlt
      have h2 : (s + 1) * n ≤ s' * n := Int.mul_le_mul_of_nonneg_right this (Int.le_of_lt hn)
      have h3 : (s + 1) * n = s * n + n := by rw [Int.add_mul, Int.one_mul]
      omega
    · have : s' + 1 ≤ s := hgt
      have h2 : (s' + 1) * n ≤ s * n := Int.mul_le_mul_of_nonneg_right this (Int.le_of_lt hn)
      have h3 : (s' + 1) * n = s' * n + n := by rw [Int.add_mul, Int.one_mul]
      omega
  subst hs
  exact ⟨rfl, by omega⟩

theorem stateIndex_range {n ns s c : Int} (hs : 0 ≤ s ∧ s < ns) (hc : 0 ≤ c ∧ c < n) :
    0 ≤ stateIndex n s c ∧ stateIndex n s c < stateSize n ns := by
  simp only [stateIndex, stateSize]
  have h1 : 0 ≤ s * n := Int.mul_nonneg hs.1 (by omega)
  have h2 : (s + 1) * n ≤ ns * n := Int.mul_le_mul_of_nonneg_right (by omega) (by omega)
  have h3 : (s + 1) * n = s * n + n := by rw [Int.add_mul, Int.one_mul]
  have h4 : n * ns = ns * n := Int.mul_comm _ _
  omega

/-- the linear index of in-bounds coordinates is injective and in range -/
theorem cellIndexArr_injective {w h x y z x' y' z' : Int}
    (hx : 0 ≤ x ∧ x < w) (hy : 0 ≤ y ∧ y < h) (hx' : 0 ≤ x' ∧ x' < w) (hy' : 0 ≤ y' ∧ y' < h)
    (e : cellIndexArr w h x y z = cellIndexArr w h x' y' z') : x = x' ∧ y = y' ∧ z = z' := by
  simp only [cellIndexArr] at e
  -- write both as (z*h + y)*w + x
  have r1 : x + y * w + z * w * h = (z * h + y) * w + x := by
    rw [Int.add_mul, Int.mul_right_comm z h w]; omega
  have r2 : x' + y' * w + z' * w * h = (z' * h + y') * w + x' := by
    rw [Int.add_mul, Int.mul_right_comm z' h w]; omega
  rw [r1, r2] at e
  have e' : stateIndex w (z * h + y) x = stateIndex w (z' * h + y') x' := by simpa [stateIndex] using e
  obtain ⟨e1, e2⟩ := stateIndex_injective hx hx' e'
  have e1' : stateIndex h z y = stateIndex h z' y' := by simpa [stateIndex] using e1
  obtain ⟨e3, e4⟩ := stateIndex_injective hy hy' e1'
  exact ⟨e2, e4, e3⟩

end Strengths
