/-
Helper lemmas for C20 (dictionary keys, index injectivity, position tests).
-/
import Strengths.Model.Validation
import Strengths.Proofs.Network

namespace Strengths
open Gen

end Strengths
