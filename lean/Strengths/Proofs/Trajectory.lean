/-
Helper lemmas for C17: numpy-style reshape / indexing on the model, the accessor characterisations,
the generic `for i in range(n-1)` loop, and the three sample-index lookups against their specs.
-/
import Mathlib.Algebra.Order.Field.Rat
import Mathlib.Tactic.Linarith
import Mathlib.Tactic.Ring
import Mathlib.Tactic.FieldSimp
import Strengths.Model.Trajectory
import Strengths.Proofs.Units

namespace Strengths
open Gen

/-! ## accessors -/

theorem npNorm_nat (len k : Nat) (h : k < len) : npNorm len (k : Int) = .ok k := by
  simp [npNorm, h]

theorem npGet_nat {α} [Inhabited α] (l : List α) (k : Nat) (h : k < l.length) : npGet l (k : Int) = .ok l[k] := by
  simp [npGet, npNorm_nat _ _ h, List.getD_eq_getElem?_getD, h]

theorem chunks_length {α} (c m : Nat) (l : List α) : (chunks c m l).length = m := by simp [chunks]

theorem chunks_getElem {α} (c m : Nat) (l : List α) (i : Nat) (h : i < (chunks c m l).length) :
    (chunks c m l)[i] = (l.drop (i * c)).take c := by
  simp [chunks]

theorem block_getElem? {α} (l : List α) (off c j : Nat) (h : j < c) :
    ((l.drop off).take c)[j]? = l[off + j]? := by
  simp [h]

theorem mul_add_lt {s S c C : Nat} (hs : s < S) (hc : c < C) : s * C + c < S * C := by
  have : (s + 1) * C ≤ S * C := Nat.mul_le_mul_right C hs
  rw [Nat.add_mul, Nat.one_mul] at this
  omega

/-- numpy C-order reshape, stated on the model: element `[k, s, c]` of `reshape((N, S, C))` is the flat
element `k·S·C + s·C + c` -/
theorem reshape3_index (l : List Rat) (N S C : Nat) (hl : l.length = N * S * C) :
    ∃ a, reshape3 l N S C = .ok a ∧ a.length = N ∧
      ∀ k, k < N → ∃ blk, a[k]? = some blk ∧ blk.length = S ∧
        ∀ s, s < S → ∃ row, blk[s]? = some row ∧ row.length = C ∧
          ∀ c, c < C → row[c]? = l[k * (S * C) + s * C + c]? ∧ k * (S * C) + s * C + c < l.length := by
  refine ⟨(chunks (S * C) N l).map (chunks C S), by simp [reshape3, hl], by simp [chunks_length], ?_⟩
  intro k hk
  refine ⟨chunks C S ((l.drop (k * (S * C))).take (S * C)), by simp [chunks, hk], by simp [chunks_length], ?_⟩
  intro s hs
  refine ⟨((l.drop (k * (S * C))).take (S * C)).drop (s * C) |>.take C, by simp [chunks, hs], ?_, ?_⟩
  · simp [List.length_take, List.length_drop]
    rw [hl]
    have h1 : (s + 1) * C ≤ S * C := Nat.mul_le_mul_right C hs
    have h2 : (k + 1) * (S * C) ≤ N * (S * C) := Nat.mul_le_mul_right _ hk
    rw [Nat.add_mul, Nat.one_mul] at h1 h2
    rw [Nat.mul_assoc]
    omega
  · intro c hc
    have hsc : s * C + c < S * C := mul_add_lt hs hc
    have hidx : k * (S * C) + s * C + c < l.length := by
      have h2 : k * (S * C) + (s * C + c) < N * (S * C) := mul_add_lt hk hsc
      rw [hl, Nat.mul_assoc]; omega
    refine ⟨?_, hidx⟩
    rw [block_getElem? _ _ _ _ hc, block_getElem? _ _ _ _ hsc]
    congr 1
    omega

theorem mapM_ok {α β} (f : α → Res β) (g : α → β) (l : List α) (h : ∀ x ∈ l, f x = .ok (g x)) :
    l.mapM f = .ok (l.map g) := by
  induction l with
  | nil => rfl
  | cons a r ih =>
    have h1 := h a (by simp)
    have h2 := ih (fun x hx => h x (by simp [hx]))
    simp [List.mapM_cons, h1, h2, bind, Except.bind, pure, Except.pure]

theorem npGet_of_getElem? {α} [Inhabited α] (l : List α) (k : Nat) (v : α) (h : l[k]? = some v) :
    npGet l (k : Int) = .ok v := by
  have hk : k < l.length := by
    by_contra hc
    rw [List.getElem?_eq_none (by omega)] at h
    cases h
  rw [npGet_nat l k hk]
  rw [List.getElem?_eq_getElem hk] at h
  cases h; rfl

/-- the data array has the size the shape announces -/
def Traj.wf (tr : Traj) : Prop := tr.data.length = tr.nsamples * tr.ns * tr.nc

instance (tr : Traj) : Decidable tr.wf := by unfold Traj.wf; infer_instance

theorem map_pair_snd {α β} {r : Res α} {d u : β} {v : α} (h : (r.map fun v => (v, d)) = .ok (v, u)) : u = d := by
  cases r with
  | error e => cases h
  | ok a => simp [Except.map] at h; exact h.2.symm

theorem trajPointIndex_nat (ns nc k s c : Nat) :
    trajPointIndex ns nc k s c = ((k * (ns * nc) + s * nc + c : Nat) : Int) := by
  simp only [trajPointIndex]
  push_cast
  ring

theorem point_eq (tr : Traj) (hw : tr.wf) (k s c : Nat) (hk : k < tr.nsamples) (hs : s < tr.ns) (hc : c < tr.nc) :
    ∃ h : k * (tr.ns * tr.nc) + s * tr.nc + c < tr.data.length,
      tr.point s k c = .ok tr.data[k * (tr.ns * tr.nc) + s * tr.nc + c] := by
  obtain ⟨a, _, _, ha⟩ := reshape3_index tr.data tr.nsamples tr.ns tr.nc hw
  obtain ⟨_, _, _, hb⟩ := ha k hk
  obtain ⟨_, _, _, hc'⟩ := hb s hs
  have hidx := (hc' c hc).2
  refine ⟨hidx, ?_⟩
  rw [Traj.point, trajPointIndex_nat, npGet_nat _ _ hidx]

theorem state_eq (tr : Traj) (hw : tr.wf) (k s : Nat) (hk : k < tr.nsamples) (hs : s < tr.ns) :
    ∃ row, tr.state s k = .ok row ∧ row.length = tr.nc ∧
      ∀ c, c < tr.nc → row[c]? = tr.data[k * (tr.ns * tr.nc) + s * tr.nc + c]? := by
  obtain ⟨a, hra, _, ha⟩ := reshape3_index tr.data tr.nsamples tr.ns tr.nc hw
  obtain ⟨blk, h1, _, hb⟩ := ha k hk
  obtain ⟨row, h3, h4, hc'⟩ := hb s hs
  refine ⟨row, ?_, h4, fun c hc => (hc' c hc).1⟩
  simp [Traj.state, hra, npGet_of_getElem? _ _ _ h1, npGet_of_getElem? _ _ _ h3]

theorem cellTrajectory_eq (tr : Traj) (hw : tr.wf) (s c : Nat) (hs : s < tr.ns) (hc : c < tr.nc) :
    ∃ col, tr.cellTrajectory s c = .ok col ∧ col.length = tr.nsamples ∧
      ∀ k, k < tr.nsamples → col[k]? = tr.data[k * (tr.ns * tr.nc) + s * tr.nc + c]? := by
  obtain ⟨a, hra, hlen, ha⟩ := reshape3_index tr.data tr.nsamples tr.ns tr.nc hw
  let g : List (List Rat) → Rat := fun blk => (blk.getD s []).getD c 0
  have hf : ∀ blk ∈ a, (match npGet blk (s : Int) with
      | .error e => (.error e : Res Rat)
      | .ok row => npGet row (c : Int)) = .ok (g blk) := by
    intro blk hblk
    obtain ⟨k, hk, hkb⟩ := List.mem_iff_getElem.1 hblk
    obtain ⟨blk', h1, _, hb⟩ := ha k (by omega)
    rw [List.getElem?_eq_getElem hk, hkb] at h1
    cases h1
    obtain ⟨row, h3, h4, hc'⟩ := hb s hs
    have h5 : c < row.length := by omega
    simp [npGet_of_getElem? _ _ _ h3, npGet_nat _ _ h5, g, List.getD_eq_getElem?_getD, h3, h5]
  refine ⟨a.map g, ?_, by simp [hlen], ?_⟩
  · simp only [Traj.cellTrajectory, hra]
    exact mapM_ok _ g a hf
  · intro k hk
    obtain ⟨blk, h1, _, hb⟩ := ha k hk
    obtain ⟨row, h3, h4, hc'⟩ := hb s hs
    have h5 : c < row.length := by omega
    have := (hc' c hc).1
    simp [List.getElem?_map, h1, g, List.getD_eq_getElem?_getD, h3, ← this, h5]

theorem merged_eq (tr : Traj) (hw : tr.wf) (s : Nat) (hs : s < tr.ns) :
    ∃ m, tr.merged s = .ok m ∧ m.length = tr.nsamples ∧
      ∀ k, k < tr.nsamples → ∃ row, tr.state s k = .ok row ∧ m[k]? = some (sumRat row) := by
  obtain ⟨a, hra, hlen, ha⟩ := reshape3_index tr.data tr.nsamples tr.ns tr.nc hw
  let g : List (List Rat) → Rat := fun blk => sumRat (blk.getD s [])
  have hf : ∀ blk ∈ a, (match npGet blk (s : Int) with
      | .error e => (.error e : Res Rat)
      | .ok row => .ok (sumRat row)) = .ok (g blk) := by
    intro blk hblk
    obtain ⟨k, hk, hkb⟩ := List.mem_iff_getElem.1 hblk
    obtain ⟨blk', h1, _, hb⟩ := ha k (by omega)
    rw [List.getElem?_eq_getElem hk, hkb] at h1
    cases h1
    obtain ⟨row, h3, h4, hc'⟩ := hb s hs
    simp [npGet_of_getElem? _ _ _ h3, g, List.getD_eq_getElem?_getD, h3]
  refine ⟨a.map g, ?_, by simp [hlen], ?_⟩
  · simp only [Traj.merged, hra]
    exact mapM_ok _ g a hf
  · intro k hk
    obtain ⟨blk, h1, _, hb⟩ := ha k hk
    obtain ⟨row, h3, h4, hc'⟩ := hb s hs
    refine ⟨row, ?_, ?_⟩
    · simp [Traj.state, hra, npGet_of_getElem? _ _ _ h1, npGet_of_getElem? _ _ _ h3]
    · simp [List.getElem?_map, h1, g, List.getD_eq_getElem?_getD, h3]

theorem wholeState_eq (tr : Traj) (hw : tr.wf) (k : Nat) (hk : k < tr.nsamples) :
    tr.wholeState k = .ok ((tr.data.drop (k * (tr.ns * tr.nc))).take (tr.ns * tr.nc)) := by
  have hl : tr.data.length = tr.nsamples * (tr.ns * tr.nc) := by rw [hw, Nat.mul_assoc]
  have : (chunks (tr.ns * tr.nc) tr.nsamples tr.data)[k]? = some ((tr.data.drop (k * (tr.ns * tr.nc))).take (tr.ns * tr.nc)) := by
    simp [chunks, hk]
  simp [Traj.wholeState, reshape2, hl, npGet_of_getElem? _ _ _ this]

/-! ## argument resolution, time units -/

theorem coords_in_range {w h d x y z : Int} (hx0 : 0 ≤ x) (hxw : x < w) (hy0 : 0 ≤ y) (hyh : y < h) (hz0 : 0 ≤ z) (hzd : z < d) :
    0 ≤ x + y * w + z * w * h ∧ x + y * w + z * w * h < w * h * d := by
  have hw : 0 < w := by omega
  have hh : 0 < h := by omega
  have h1 : y * w ≤ (h - 1) * w := Int.mul_le_mul_of_nonneg_right (by omega) (by omega)
  have h2 : z * (w * h) ≤ (d - 1) * (w * h) := Int.mul_le_mul_of_nonneg_right (by omega) (Int.le_of_lt (Int.mul_pos hw hh))
  have h3 : 0 ≤ y * w := Int.mul_nonneg hy0 (by omega)
  have h4 : 0 ≤ z * (w * h) := Int.mul_nonneg hz0 (Int.le_of_lt (Int.mul_pos hw hh))
  constructor
  · nlinarith
  · nlinarith

theorem cell_coords_eq_idx (g : GridShape) (x y z : Int)
    (hb : withinBoundsArr g.w g.h g.d x y z = true) :
    cellIndexOf (.grid g) (.coords x y z) = .ok (x + y * g.w + z * g.w * g.h).toNat ∧
    cellIndexOf (.grid g) (.idx (x + y * g.w + z * g.w * g.h)) = .ok (x + y * g.w + z * g.w * g.h).toNat ∧
    (x + y * g.w + z * g.w * g.h).toNat < g.size := by
  have hb' := hb
  simp only [withinBoundsArr, Bool.and_eq_true, decide_eq_true_eq] at hb'
  obtain ⟨⟨⟨⟨⟨hx0, hxw⟩, hy0⟩, hyh⟩, hz0⟩, hzd⟩ := hb'
  have hr := coords_in_range hx0 hxw hy0 hyh hz0 hzd
  refine ⟨?_, ?_, ?_⟩
  · simp [cellIndexOf, pyCellIndexOfCoords, hb, cellIndexArr, Except.map]
  · simp [cellIndexOf, pyCellIndexOfNum, withinBoundsNum, gridSize, cellIndexNum, Except.map, hr.1, hr.2]
  · have : ((x + y * g.w + z * g.w * g.h).toNat : Int) < (g.size : Int) := by
      rw [Int.toNat_of_nonneg hr.1]
      simp only [GridShape.size]; push_cast; exact hr.2
    exact_mod_cast this

theorem speciesIndex_idx (labels : List String) (i : Nat) (h : i < labels.length) :
    trajSpeciesIndex labels (.idx i) = some i := by
  simp [trajSpeciesIndex, h]

theorem speciesIndex_idx_none (labels : List String) (i : Int) (h : i < 0 ∨ (labels.length : Int) ≤ i) :
    trajSpeciesIndex labels (.idx i) = none := by
  simp only [trajSpeciesIndex]
  rw [if_neg]
  omega

theorem speciesIndex_label (labels : List String) (s : String) :
    (∀ k, trajSpeciesIndex labels (.label s) = some k →
        ∃ h : k < labels.length, labels[k] = s ∧ ∀ j, ∀ hj : j < k, labels[j] ≠ s) ∧
    (trajSpeciesIndex labels (.label s) = none ↔ s ∉ labels) ∧
    trajSpeciesIndex labels (.obj s) = trajSpeciesIndex labels (.label s) := by
  refine ⟨?_, ?_, rfl⟩
  · intro k hk
    simp only [trajSpeciesIndex] at hk
    split at hk
    · rename_i hlt
      cases hk
      refine ⟨hlt, ?_, ?_⟩
      · have := List.findIdx_getElem (w := hlt)
        simpa using this
      · intro j hj
        have := List.not_of_lt_findIdx hj
        simpa using this
    · cases hk
  · simp only [trajSpeciesIndex]
    constructor
    · intro h
      split at h
      · cases h
      · rename_i hge
        intro hmem
        apply hge
        apply List.findIdx_lt_length_of_exists
        exact ⟨s, hmem, by simp⟩
    · intro h
      rw [if_neg]
      intro hlt
      apply h
      have := List.findIdx_getElem (w := hlt)
      have h2 : labels[List.findIdx (fun x => x == s) labels] = s := by simpa using this
      rw [← h2]
      exact List.getElem_mem _

/-- the converted query, times the SI value of the trajectory's time unit, is the SI value of the query -/
theorem queryTime_si {tu : Units} {x : UVal} {t : Rat} (hv : tu.sys.valid = true)
    (h : queryTime tu (.uval x) = .ok t) :
    x.u.dim = tu.dim ∧ t * siFactor tu.sys tu.dim = x.si := by
  simp only [queryTime, UVal.convert, targetSys] at h
  split at h
  · cases h
  · rename_i dst hd
    split at hd
    · cases hd
    · rename_i hdim
      cases hd
      simp only [Except.map] at h
      cases h
      have hdim' : x.u.dim = tu.dim := by
        by_contra hc
        exact hdim (by simpa using fun h => hc h.symm)
      refine ⟨hdim', ?_⟩
      rw [convFactor_eq_div, UVal.si, hdim']
      have := siFactor_ne hv tu.dim
      field_simp

/-- comparisons made by the lookup (in the trajectory's time unit) are comparisons of SI values -/
theorem query_order_is_SI_order {tu : Units} (hv : tu.sys.valid = true) (t a : Rat) :
    (t ≤ a ↔ t * siFactor tu.sys tu.dim ≤ a * siFactor tu.sys tu.dim) ∧
    (t < a ↔ t * siFactor tu.sys tu.dim < a * siFactor tu.sys tu.dim) := by
  have hp := siFactor_pos hv tu.dim
  exact ⟨(mul_le_mul_iff_of_pos_right hp).symm, (mul_lt_mul_iff_of_pos_right hp).symm⟩

theorem queryTime_unit_independent {tu : Units} {x y : UVal} {a b : Rat} (hv : tu.sys.valid = true)
    (hx : queryTime tu (.uval x) = .ok a) (hy : queryTime tu (.uval y) = .ok b) (hsi : x.si = y.si) : a = b := by
  have h1 := (queryTime_si hv hx).2
  have h2 := (queryTime_si hv hy).2
  have hp := siFactor_ne hv tu.dim
  have : a * siFactor tu.sys tu.dim = b * siFactor tu.sys tu.dim := by rw [h1, h2, hsi]
  exact mul_right_cancel₀ hp this

/-! ## sample-index lookups -/

theorem lookupLoop_spec (cond : Rat → Rat → Bool) (ret : Nat → Rat → Rat → Option (Bool × Nat)) :
    ∀ (l : List Rat) (i : Nat),
      (∃ k, ∃ h : k + 1 < l.length, cond l[k] l[k+1] = true ∧
          (∀ j, ∀ hj : j < k, cond (l[j]'(by omega)) (l[j+1]'(by omega)) = false) ∧
          lookupLoop cond ret i l = ret (i + k) l[k] l[k+1]) ∨
      ((∀ k, ∀ h : k + 1 < l.length, cond l[k] l[k+1] = false) ∧ lookupLoop cond ret i l = none) := by
  intro l
  induction l with
  | nil => intro i; right; simp [lookupLoop]
  | cons a r ih =>
    intro i
    cases r with
    | nil => right; simp [lookupLoop]
    | cons b r =>
      by_cases hc : cond a b = true
      · left
        refine ⟨0, by simp, by simpa using hc, by intro j hj; omega, by simp [lookupLoop, hc]⟩
      · have hc' : cond a b = false := by simpa using hc
        rcases ih (i + 1) with ⟨k, h, h1, h2, h3⟩ | ⟨h1, h2⟩
        · left
          refine ⟨k + 1, by simpa using h, by simpa using h1, ?_, ?_⟩
          · intro j hj
            cases j with
            | zero => simpa using hc'
            | succ j => simpa using h2 j (by omega)
          · simp only [lookupLoop, hc']
            rw [h3]
            simp [Nat.add_assoc, Nat.add_comm 1 k]
        · right
          refine ⟨?_, by simp [lookupLoop, hc', h2]⟩
          intro k h
          cases k with
          | zero => simpa using hc'
          | succ k =>
            have := h1 k (by simpa using h)
            simpa [List.getElem_cons_succ] using this

theorem headD_eq (l : List Rat) (h : 0 < l.length) : l.headD 0 = l[0] := by
  cases l with
  | nil => simp at h
  | cons a r => simp

theorem getLastD_eq (l : List Rat) (h : 0 < l.length) : l.getLastD 0 = l[l.length - 1] := by
  cases l with
  | nil => simp at h
  | cons a r => simp [List.getLastD_eq_getLast?, List.getLast?_eq_getElem?]

theorem lookupWith_eq (pre cond ret) (ts : List Rat) (t : Rat) (h : 0 < ts.length) :
    lookupWith pre cond ret ts t =
      match pre ts.length t ts[0] ts[ts.length - 1] with
      | some r => r
      | none => lookupLoop (cond t) (fun i => ret i t) 0 ts := by
  unfold lookupWith
  rw [headD_eq ts h, getLastD_eq ts h]
  rfl

/-- no bracketing pair and `l[0] ≤ t` ⇒ every sample is `≤ t` -/
theorem all_le_of_no_bracket (l : List Rat) (t : Rat) (h0 : ∀ h : 0 < l.length, l[0] ≤ t)
    (hno : ∀ k, ∀ h : k + 1 < l.length, ¬ (l[k] ≤ t ∧ t < l[k+1])) :
    ∀ k, ∀ h : k < l.length, l[k] ≤ t := by
  intro k
  induction k with
  | zero => intro h; exact h0 h
  | succ k ih =>
    intro h
    have := hno k h
    have hk := ih (by omega)
    by_contra hc
    exact this ⟨hk, lt_of_not_ge hc⟩

theorem all_lt_of_no_bracket (l : List Rat) (t : Rat) (h0 : ∀ h : 0 < l.length, l[0] < t)
    (hno : ∀ k, ∀ h : k + 1 < l.length, ¬ (l[k] < t ∧ t ≤ l[k+1])) :
    ∀ k, ∀ h : k < l.length, l[k] < t := by
  intro k
  induction k with
  | zero => intro h; exact h0 h
  | succ k ih =>
    intro h
    have := hno k h
    have hk := ih (by omega)
    by_contra hc
    exact this ⟨hk, le_of_not_gt hc⟩

theorem sorted_le {ts : List Rat} (hs : ts.Pairwise (· ≤ ·)) {i j : Nat} (hi : i < ts.length) (hj : j < ts.length)
    (h : i ≤ j) : ts[i] ≤ ts[j] := by
  rcases Nat.eq_or_lt_of_le h with rfl | hlt
  · exact le_refl _
  · exact List.pairwise_iff_getElem.1 hs i j hi hj hlt

theorem sorted_lt {ts : List Rat} (hs : ts.Pairwise (· < ·)) {i j : Nat} (hi : i < ts.length) (hj : j < ts.length)
    (h : i < j) : ts[i] < ts[j] := List.pairwise_iff_getElem.1 hs i j hi hj h

theorem abs_sub_of_le {a t : Rat} (h : a ≤ t) : |t - a| = t - a := abs_of_nonneg (by linarith)
theorem abs_sub_of_ge {a t : Rat} (h : t ≤ a) : |t - a| = a - t := by
  rw [abs_of_nonpos (by linarith)]; linarith


/-! ### `_first_sample_with_same_time` -/

theorem firstSame_zero (ts : List Rat) : firstSame ts 0 = 0 := by simp [firstSame]

theorem firstSame_succ (ts : List Rat) (i : Nat) (h : i + 1 < ts.length) :
    firstSame ts (i + 1) = if ts[i] = ts[i+1] then firstSame ts i else i + 1 := by
  have h1 : ts.getD i 0 = ts[i] := by simp [List.getD_eq_getElem?_getD, List.getElem?_eq_getElem (by omega : i < ts.length)]
  have h2 : ts.getD (i + 1) 0 = ts[i+1] := by simp [List.getD_eq_getElem?_getD, List.getElem?_eq_getElem h]
  have hpos : decide (((i + 1 : Nat) : Int) > 0) = true := by
    simp only [gt_iff_lt, decide_eq_true_eq]; omega
  simp only [firstSame, firstSameCond, h1, h2, hpos, Bool.true_and, beq_iff_eq]

/-- the walk stops at the first index of the run of equal times ending at `k` -/
theorem firstSame_spec (ts : List Rat) (k : Nat) (hk : k < ts.length) :
    ∀ r, firstSame ts k = r → ∃ hr : r ≤ k, ts[r]'(by omega) = ts[k] ∧
      (∀ j, ∀ hj : j < ts.length, r ≤ j → j ≤ k → ts[j] = ts[k]) ∧
      (∀ hpos : 0 < r, ts[r - 1]'(by omega) ≠ ts[k]) := by
  induction k with
  | zero =>
    intro r hr
    rw [firstSame_zero] at hr
    subst hr
    refine ⟨le_refl 0, rfl, ?_, fun h => absurd h (lt_irrefl 0)⟩
    intro j hj _ hj0
    have : j = 0 := by omega
    subst this; rfl
  | succ i ih =>
    intro r hr
    rw [firstSame_succ ts i hk] at hr
    by_cases heq : ts[i] = ts[i+1]
    · rw [if_pos heq] at hr
      obtain ⟨hle, h1, h2, h3⟩ := ih (by omega) r hr
      refine ⟨by omega, by rw [h1, heq], ?_, ?_⟩
      · intro j hj hrj hji
        rcases Nat.eq_or_lt_of_le hji with rfl | hlt
        · rfl
        · rw [h2 j hj hrj (by omega), heq]
      · intro hpos
        rw [← heq]; exact h3 hpos
    · rw [if_neg heq] at hr
      subst hr
      refine ⟨le_refl _, rfl, ?_, ?_⟩
      · intro j hj h1' h2'
        have : j = i + 1 := by omega
        subst this; rfl
      · intro _
        simpa using heq

/-- in a non-decreasing list everything before the walk's result is strictly earlier -/
theorem firstSame_lt {ts : List Rat} (hs : ts.Pairwise (· ≤ ·)) (k : Nat) (hk : k < ts.length) :
    ∀ j, ∀ hj : j < ts.length, j < firstSame ts k → ts[j] < ts[k] := by
  intro j hj hlt
  obtain ⟨hr, _, _, h3⟩ := firstSame_spec ts k hk _ rfl
  have hpos : 0 < firstSame ts k := by omega
  have hne := h3 hpos
  have hle : ts[firstSame ts k - 1]'(by omega) ≤ ts[k] := sorted_le hs (by omega) hk (by omega)
  have hj' : ts[j] ≤ ts[firstSame ts k - 1]'(by omega) := sorted_le hs hj (by omega) (by omega)
  exact lt_of_le_of_lt hj' (lt_of_le_of_ne hle hne)

theorem finish_false (ts : List Rat) (k : Nat) : finish ts (false, k) = k := rfl
theorem finish_true (ts : List Rat) (k : Nat) : finish ts (true, k) = firstSame ts k := rfl


theorem infeq_spec (ts : List Rat) (t : Rat) (hs : ts.Pairwise (· ≤ ·)) :
    (sampleInfeq ts t = none ↔ ∀ i, ∀ h : i < ts.length, t < ts[i]) ∧
    (∀ r, sampleInfeq ts t = some r → ∃ h : r < ts.length, ts[r] ≤ t ∧
        ∀ j, ∀ hj : j < ts.length, r < j → t < ts[j]) := by
  by_cases hn : ts.length = 0
  · have : ts = [] := List.length_eq_zero_iff.1 hn
    subst this
    simp [sampleInfeq, lookupWith, infeqPre]
  have hpos : 0 < ts.length := Nat.pos_of_ne_zero hn
  have hw := lookupWith_eq infeqPre infeqCond infeqRet ts t hpos
  by_cases h1 : t < ts[0]
  · have hres : sampleInfeq ts t = none := by
      rw [sampleInfeq, hw]; simp [infeqPre, hn, h1]
    refine ⟨⟨fun _ i h => ?_, fun _ => hres⟩, by simp [hres]⟩
    exact lt_of_lt_of_le h1 (sorted_le hs hpos h (Nat.zero_le i))
  by_cases h2 : t ≥ ts[ts.length - 1]
  · have hres : sampleInfeq ts t = some (ts.length - 1) := by
      rw [sampleInfeq, hw]; simp [infeqPre, hn, h1, h2, finish]
    refine ⟨⟨fun h => by simp [hres] at h, fun h => absurd (h 0 hpos) h1⟩, ?_⟩
    intro r hr
    rw [hres] at hr
    cases hr
    exact ⟨by omega, h2, fun j hj hlt => by omega⟩
  · have hloop : sampleInfeq ts t = (lookupLoop (infeqCond t) (fun i => infeqRet i t) 0 ts).map (finish ts) := by
      rw [sampleInfeq, hw]; simp [infeqPre, hn, h1, h2]
    rcases lookupLoop_spec (infeqCond t) (fun i => infeqRet i t) ts 0 with ⟨k, hk, hc, _, hr⟩ | ⟨hno, _⟩
    · have hres : sampleInfeq ts t = some k := by rw [hloop, hr]; simp [infeqRet, finish]
      simp only [infeqCond, Bool.and_eq_true, decide_eq_true_eq] at hc
      refine ⟨⟨fun h => by simp [hres] at h, fun h => absurd (h 0 hpos) h1⟩, ?_⟩
      intro r hr'
      rw [hres] at hr'
      cases hr'
      refine ⟨by omega, hc.1, fun j hj hlt => ?_⟩
      exact lt_of_lt_of_le hc.2 (sorted_le hs hk hj (by omega))
    · exfalso
      have := all_le_of_no_bracket ts t (fun _ => le_of_not_gt h1)
        (fun k h hc => by
          have := hno k h
          simp [infeqCond] at this
          exact absurd hc.2 (not_lt.2 (this hc.1)))
        (ts.length - 1) (by omega)
      exact h2 this

/-- `supeq`, every non-decreasing list: the first sample not before `t`, `None` exactly when there is none -/
theorem supeq_spec (ts : List Rat) (t : Rat) (hs : ts.Pairwise (· ≤ ·)) :
    (sampleSupeq ts t = none ↔ ∀ i, ∀ h : i < ts.length, ts[i] < t) ∧
    (∀ r, sampleSupeq ts t = some r → ∃ h : r < ts.length, t ≤ ts[r] ∧
        ∀ j, ∀ hj : j < ts.length, j < r → ts[j] < t) := by
  by_cases hn : ts.length = 0
  · have : ts = [] := List.length_eq_zero_iff.1 hn
    subst this
    simp [sampleSupeq, lookupWith, supeqPre]
  have hpos : 0 < ts.length := Nat.pos_of_ne_zero hn
  have hw := lookupWith_eq supeqPre supeqCond supeqRet ts t hpos
  by_cases h1 : t ≤ ts[0]
  · have hres : sampleSupeq ts t = some 0 := by
      rw [sampleSupeq, hw]; simp [supeqPre, hn, h1, finish]
    refine ⟨⟨fun h => by simp [hres] at h, fun h => absurd (h 0 hpos) (not_lt.2 h1)⟩, ?_⟩
    intro r hr
    rw [hres] at hr
    cases hr
    exact ⟨hpos, h1, fun j hj hlt => by omega⟩
  by_cases h3 : t > ts[ts.length - 1]
  · have hres : sampleSupeq ts t = none := by
      rw [sampleSupeq, hw]; simp [supeqPre, hn, h1, h3]
    refine ⟨⟨fun _ i h => lt_of_le_of_lt (sorted_le hs h (by omega) (by omega)) h3, fun _ => hres⟩, by simp [hres]⟩
  · have hloop : sampleSupeq ts t = (lookupLoop (supeqCond t) (fun i => supeqRet i t) 0 ts).map (finish ts) := by
      rw [sampleSupeq, hw]; simp [supeqPre, hn, h1, h3]
    have hlast : t ≤ ts[ts.length - 1] := not_lt.1 h3
    rcases lookupLoop_spec (supeqCond t) (fun i => supeqRet i t) ts 0 with ⟨k, hk, hc, _, hr⟩ | ⟨hno, _⟩
    · have hres : sampleSupeq ts t = some (k + 1) := by rw [hloop, hr]; simp [supeqRet, finish]
      simp only [supeqCond, Bool.and_eq_true, decide_eq_true_eq] at hc
      refine ⟨⟨fun h => by simp [hres] at h, fun h => absurd (h (k+1) hk) (not_lt.2 hc.2)⟩, ?_⟩
      intro r hr'
      rw [hres] at hr'
      cases hr'
      refine ⟨hk, hc.2, fun j hj hlt => ?_⟩
      exact lt_of_le_of_lt (sorted_le hs hj (by omega) (by omega)) hc.1
    · exfalso
      have := all_lt_of_no_bracket ts t (fun _ => not_le.1 h1)
        (fun k h hc => by
          have := hno k h
          simp [supeqCond] at this
          exact absurd hc.2 (not_le.2 (this hc.1)))
        (ts.length - 1) (by omega)
      exact absurd this (not_lt.2 hlast)

/-- `closest`, every non-decreasing list: a sample at minimal distance, and the earliest index among the equidistant
ones; `None` exactly when there is no sample -/
theorem closest_spec (ts : List Rat) (t : Rat) (hs : ts.Pairwise (· ≤ ·)) :
    (sampleClosest ts t = none ↔ ts = []) ∧
    (∀ r, sampleClosest ts t = some r → ∃ h : r < ts.length,
        (∀ j, ∀ hj : j < ts.length, |t - ts[r]| ≤ |t - ts[j]|) ∧
        (∀ j, ∀ hj : j < ts.length, |t - ts[j]| = |t - ts[r]| → r ≤ j)) := by
  by_cases hn : ts.length = 0
  · have : ts = [] := List.length_eq_zero_iff.1 hn
    subst this
    simp [sampleClosest, lookupWith, closestPre]
  have hne : ts ≠ [] := fun h => hn (by simp [h])
  have hpos : 0 < ts.length := Nat.pos_of_ne_zero hn
  have hw := lookupWith_eq closestPre closestCond closestRet ts t hpos
  -- walking back from an index `k` of minimal distance whose ties are not earlier in time
  have hwalk : ∀ k, ∀ hk : k < ts.length, (∀ j, ∀ hj : j < ts.length, |t - ts[k]| ≤ |t - ts[j]|) →
      (∀ j, ∀ hj : j < ts.length, |t - ts[j]| = |t - ts[k]| → ts[k] ≤ ts[j]) →
      ∃ h : firstSame ts k < ts.length,
        (∀ j, ∀ hj : j < ts.length, |t - ts[firstSame ts k]| ≤ |t - ts[j]|) ∧
        (∀ j, ∀ hj : j < ts.length, |t - ts[j]| = |t - ts[firstSame ts k]| → firstSame ts k ≤ j) := by
    intro k hk hmin htie
    obtain ⟨hr, heq, _, _⟩ := firstSame_spec ts k hk _ rfl
    refine ⟨by omega, fun j hj => by rw [heq]; exact hmin j hj, fun j hj he => ?_⟩
    rw [heq] at he
    by_contra hc
    have := firstSame_lt hs k hk j hj (not_le.1 hc)
    exact absurd (htie j hj he) (not_le.2 this)
  by_cases h1 : t ≤ ts[0]
  · have hres : sampleClosest ts t = some 0 := by
      rw [sampleClosest, hw]; simp [closestPre, hn, h1, finish]
    refine ⟨⟨fun h => by simp [hres] at h, fun h => absurd h hne⟩, ?_⟩
    intro r hr
    rw [hres] at hr
    cases hr
    refine ⟨hpos, fun j hj => ?_, fun j hj _ => Nat.zero_le j⟩
    have := sorted_le hs hpos hj (Nat.zero_le j)
    rw [abs_sub_of_ge h1, abs_sub_of_ge (le_trans h1 this)]
    linarith
  by_cases h2 : t ≥ ts[ts.length - 1]
  · have hres : sampleClosest ts t = some (firstSame ts (ts.length - 1)) := by
      rw [sampleClosest, hw]; simp [closestPre, hn, h1, h2, finish]
    refine ⟨⟨fun h => by simp [hres] at h, fun h => absurd h hne⟩, ?_⟩
    intro r hr
    rw [hres] at hr
    cases hr
    have hlastlt : ts.length - 1 < ts.length := by omega
    apply hwalk (ts.length - 1) hlastlt
    · intro j hj
      have := sorted_le hs hj hlastlt (by omega)
      rw [abs_sub_of_le h2, abs_sub_of_le (le_trans this h2)]
      linarith
    · intro j hj he
      have := sorted_le hs hj hlastlt (by omega)
      rw [abs_sub_of_le h2, abs_sub_of_le (le_trans this h2)] at he
      linarith
  · have hloop : sampleClosest ts t = (lookupLoop (closestCond t) (fun i => closestRet i t) 0 ts).map (finish ts) := by
      rw [sampleClosest, hw]; simp [closestPre, hn, h1, h2]
    rcases lookupLoop_spec (closestCond t) (fun i => closestRet i t) ts 0 with ⟨k, hk, hc, _, hr⟩ | ⟨hno, _⟩
    · simp only [closestCond, Bool.and_eq_true, decide_eq_true_eq] at hc
      have hklt : k < ts.length := by omega
      have hleft : ∀ j, ∀ hj : j < ts.length, j ≤ k → |t - ts[j]| = t - ts[j] ∧ ts[j] ≤ ts[k] := fun j hj hjk =>
        ⟨abs_sub_of_le (le_trans (sorted_le hs hj hklt hjk) hc.1), sorted_le hs hj hklt hjk⟩
      have hright : ∀ j, ∀ hj : j < ts.length, k + 1 ≤ j → |t - ts[j]| = ts[j] - t ∧ ts[k+1] ≤ ts[j] := fun j hj hjk =>
        ⟨abs_sub_of_ge (le_trans (le_of_lt hc.2) (sorted_le hs hk hj hjk)), sorted_le hs hk hj hjk⟩
      by_cases hd : t - ts[k] ≤ ts[k+1] - t
      · have hres : sampleClosest ts t = some (firstSame ts k) := by rw [hloop, hr]; simp [closestRet, hd, finish]
        refine ⟨⟨fun h => by simp [hres] at h, fun h => absurd h hne⟩, ?_⟩
        intro r hr'
        rw [hres] at hr'
        cases hr'
        apply hwalk k hklt
        · intro j hj
          rw [(hleft k hklt (le_refl k)).1]
          rcases Nat.lt_or_ge k j with hjk | hjk
          · have := hright j hj hjk; rw [this.1]; linarith [this.2]
          · have := hleft j hj hjk; rw [this.1]; linarith [this.2]
        · intro j hj he
          rw [(hleft k hklt (le_refl k)).1] at he
          rcases Nat.lt_or_ge k j with hjk | hjk
          · have := hright j hj hjk; linarith [this.2, hc.2]
          · have := hleft j hj hjk; rw [this.1] at he; linarith
      · have hres : sampleClosest ts t = some (k + 1) := by rw [hloop, hr]; simp [closestRet, hd, finish]
        have hd' : ts[k+1] - t < t - ts[k] := not_le.1 hd
        refine ⟨⟨fun h => by simp [hres] at h, fun h => absurd h hne⟩, ?_⟩
        intro r hr'
        rw [hres] at hr'
        cases hr'
        refine ⟨hk, fun j hj => ?_, fun j hj he => ?_⟩
        · rw [(hright (k+1) hk (le_refl _)).1]
          rcases Nat.lt_or_ge k j with hjk | hjk
          · have := hright j hj hjk; rw [this.1]; linarith [this.2]
          · have := hleft j hj hjk; rw [this.1]; linarith [this.2]
        · rw [(hright (k+1) hk (le_refl _)).1] at he
          rcases Nat.lt_or_ge k j with hjk | hjk
          · exact hjk
          · have := hleft j hj hjk; rw [this.1] at he; linarith [this.2]
    · exfalso
      have := all_le_of_no_bracket ts t (fun _ => le_of_lt (not_le.1 h1))
        (fun k h hc => by
          have := hno k h
          simp [closestCond] at this
          exact absurd hc.2 (not_lt.2 (this hc.1)))
        (ts.length - 1) (by omega)
      exact h2 this


end Strengths
