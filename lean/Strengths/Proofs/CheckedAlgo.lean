/-
Checked-access engine (C11): read-after-write laws, validity of tables / layouts / scratch vectors, and the
per-function theorems of the generic algorithms: under these validity predicates no access fails and the
predicates are kept.
-/
import Strengths.Proofs.Checked

namespace Strengths

@[simp] theorem ok_bind {α β : Type} (a : α) (f : α → CRes β) : ((Except.ok a : CRes α) >>= f) = f a := rfl
@[simp] theorem error_bind {α β : Type} (e : CErr) (f : α → CRes β) : ((Except.error e : CRes α) >>= f) = .error e := rfl

/-! ### read-after-write -/

namespace Vec
variable {α : Type}

theorem wr_size {v v' : Vec α} {i : Int} {a : α} (h : v.wr i a = .ok v') : v'.size = v.size := by
  unfold wr at h; split at h
  · cases h; rfl
  · cases h

theorem rd_wr {v v' : Vec α} {i : Int} {a : α} (h : v.wr i a = .ok v') (j : Int) :
    v'.rd j = if j = i then .ok a else v.rd j := by
  unfold wr at h
  split at h
  next hi =>
    cases h
    unfold rd
    by_cases hji : j = i
    · subst hji; simp [hi]
    · simp only [hji, if_false]
      by_cases hj : 0 ≤ j ∧ j < (v.size : Int)
      · simp only [hj, and_self, if_true]
        have : j.toNat ≠ i.toNat := by omega
        simp [this]
      · simp [hj]
  next => cases h

end Vec

namespace SlotVec
variable {α : Type}

theorem rd_wr {sv sv' : SlotVec α} {a : SlotAddr} {x : α} (h : sv.wr a x = .ok sv') (b : SlotAddr) :
    sv'.rd b = if b = a then .ok x else sv.rd b := by
  cases sv with
  | flat v =>
    cases a with
    | flat i =>
      simp only [wr] at h
      cases hw : v.wr i x with
      | error e => rw [hw] at h; cases h
      | ok v' =>
        rw [hw] at h; simp only [Except.map] at h; cases h
        cases b with
        | flat j =>
          simp only [rd, Vec.rd_wr hw j]
          by_cases hji : j = i
          · subst hji; simp
          · have : SlotAddr.flat j ≠ SlotAddr.flat i := fun hh => hji (by cases hh; rfl)
            simp [hji, this]
        | nested o j => simp [rd]
    | nested o i => simp [wr] at h
  | nested v =>
    cases a with
    | flat i => simp [wr] at h
    | nested o i =>
      simp only [wr] at h
      cases hr : v.rd o with
      | error e => rw [hr] at h; cases h
      | ok row =>
        rw [hr, ok_bind] at h
        cases hw : row.wr i x with
        | error e => rw [hw] at h; cases h
        | ok row' =>
          rw [hw, ok_bind] at h
          cases hw2 : v.wr o row' with
          | error e => rw [hw2] at h; cases h
          | ok v' =>
            rw [hw2] at h; simp only [Except.map] at h; cases h
            cases b with
            | flat j => simp [rd]
            | nested o' j =>
              simp only [rd, Vec.rd_wr hw2 o']
              by_cases ho : o' = o
              · subst ho
                simp only [if_true, ok_bind, Vec.rd_wr hw j, hr]
                by_cases hji : j = i
                · subst hji; simp
                · have : SlotAddr.nested o' j ≠ SlotAddr.nested o' i := fun hh => hji (by cases hh; rfl)
                  simp [hji, this]
              · have : SlotAddr.nested o' j ≠ SlotAddr.nested o i := fun hh => ho (by cases hh; rfl)
                simp [ho, this]

/-- a slot that can be read can be written -/
theorem wr_Ok {sv : SlotVec α} {a : SlotAddr} (x : α) (h : Ok (sv.rd a) (fun _ => True)) :
    Ok (sv.wr a x) (fun sv' => ∀ b, sv'.rd b = if b = a then .ok x else sv.rd b) := by
  have key : ∃ sv', sv.wr a x = .ok sv' := by
    obtain ⟨y, hy, _⟩ := h
    cases sv with
    | flat v =>
      cases a with
      | flat i =>
        simp only [rd] at hy
        unfold Vec.rd at hy
        split at hy
        next hi => exact ⟨_, by simp only [wr, Vec.wr, hi, and_self, if_true, Except.map]; rfl⟩
        next => cases hy
      | nested o i => simp [rd] at hy
    | nested v =>
      cases a with
      | flat i => simp [rd] at hy
      | nested o i =>
        simp only [rd] at hy
        cases hr : v.rd o with
        | error e => rw [hr] at hy; cases hy
        | ok row =>
          rw [hr, ok_bind] at hy
          have ho : 0 ≤ o ∧ o < (v.size : Int) := by
            unfold Vec.rd at hr; split at hr
            next h => exact h
            next => cases hr
          have hi : 0 ≤ i ∧ i < (row.size : Int) := by
            unfold Vec.rd at hy; split at hy
            next h => exact h
            next => cases hy
          exact ⟨_, by simp only [wr, hr, ok_bind, Vec.wr, hi, ho, and_self, if_true, Except.map]; rfl⟩
  obtain ⟨sv', hw⟩ := key
  exact ⟨sv', hw, fun b => rd_wr hw b⟩

end SlotVec

/-! ### validity -/

/-- sizes of the common tables, as `Init` establishes them -/
structure TabsOK (T : Tabs) : Prop where
  chstt : T.chstt.size = T.n * T.ns
  sub : T.sub.size = T.ns * T.nr
  sto : T.sto.size = T.ns * T.nr
  kr : T.kr.size = T.n * T.nr

/-- a layout whose table reads succeed for every cell / species / slot in range; `slots` and `nb` are what they return -/
structure LayoutOK (T : Tabs) (L : Layout) (slots : Nat → Nat) (nb : Nat → Nat → Option Nat) : Prop where
  nSlots : ∀ i, i < T.n → L.nSlots i = .ok (slots i)
  nbr : ∀ i k, i < T.n → k < slots i → L.nbr i k = .ok (nb i k)
  nbr_lt : ∀ i k j, i < T.n → k < slots i → nb i k = some j → j < T.n
  kout : ∀ i s k, i < T.n → s < T.ns → k < slots i → Ok (L.kout i s k) (fun _ => True)
  kin : ∀ i s k j, i < T.n → s < T.ns → k < slots i → nb i k = some j → Ok (L.kin i s k) (fun p => p.1 = (j : Int))
  slot : ∀ i s k, i < T.n → s < T.ns → k < slots i → Ok (L.slot i s k) (fun _ => True)
  slot_inj : ∀ i s k i' s' k' a, i < T.n → s < T.ns → k < slots i → i' < T.n → s' < T.ns → k' < slots i' →
    L.slot i s k = .ok a → L.slot i' s' k' = .ok a → i = i' ∧ s = s' ∧ k = k'

/-- every slot in range of a scratch vector can be read -/
def SlotOK {α : Type} (T : Tabs) (L : Layout) (slots : Nat → Nat) (sv : SlotVec α) : Prop :=
  ∀ i s k, i < T.n → s < T.ns → k < slots i → ∀ a, L.slot i s k = .ok a → Ok (sv.rd a) (fun _ => True)

/-! ### per-site lemmas (one per registered subscript form) -/

section sites
variable {T : Tabs}

theorem site_x (x : Vec Rat) (hx : x.size = T.n * T.ns) {i s : Nat} (hi : i < T.n) (hs : s < T.ns) :
    0 ≤ T.xIdx i s ∧ T.xIdx i s < (x.size : Int) := by
  unfold Tabs.xIdx; rw [xIndex_nat, hx]
  exact ⟨Int.natCast_nonneg _, by exact_mod_cast flat2_lt T.n T.ns i s hi hs⟩

theorem site_d (d : Vec Rat) (hd : d.size = T.n * T.ns) {i s : Nat} (hi : i < T.n) (hs : s < T.ns) :
    0 ≤ T.dIdx i s ∧ T.dIdx i s < (d.size : Int) := by
  unfold Tabs.dIdx; rw [dxdtIndex_nat, hd]
  exact ⟨Int.natCast_nonneg _, by exact_mod_cast flat2_lt T.n T.ns i s hi hs⟩

theorem site_chstt (hT : TabsOK T) {i s : Nat} (hi : i < T.n) (hs : s < T.ns) :
    0 ≤ T.cIdx i s ∧ T.cIdx i s < (T.chstt.size : Int) := by
  unfold Tabs.cIdx; rw [chsttIndex_nat, hT.chstt]
  exact ⟨Int.natCast_nonneg _, by exact_mod_cast flat2_lt T.n T.ns i s hi hs⟩

theorem site_sub (hT : TabsOK T) {s r : Nat} (hs : s < T.ns) (hr : r < T.nr) :
    0 ≤ Gen.subIndex T.nr s r ∧ Gen.subIndex T.nr s r < (T.sub.size : Int) := by
  rw [subIndex_nat, hT.sub]
  exact ⟨Int.natCast_nonneg _, by exact_mod_cast flat2_lt T.ns T.nr s r hs hr⟩

theorem site_sto (hT : TabsOK T) {s r : Nat} (hs : s < T.ns) (hr : r < T.nr) :
    0 ≤ Gen.stoIndex T.nr s r ∧ Gen.stoIndex T.nr s r < (T.sto.size : Int) := by
  rw [stoIndex_nat, hT.sto]
  exact ⟨Int.natCast_nonneg _, by exact_mod_cast flat2_lt T.ns T.nr s r hs hr⟩

theorem site_kr (hT : TabsOK T) {i r : Nat} (hi : i < T.n) (hr : r < T.nr) :
    0 ≤ Gen.krIndex T.nr i r ∧ Gen.krIndex T.nr i r < (T.kr.size : Int) := by
  rw [krIndex_nat, hT.kr]
  exact ⟨Int.natCast_nonneg _, by exact_mod_cast flat2_lt T.n T.nr i r hi hr⟩

theorem site_nr (v : Vec Int) (hv : v.size = T.n * T.nr) {i r : Nat} (hi : i < T.n) (hr : r < T.nr) :
    0 ≤ Gen.nrIndex T.nr i r ∧ Gen.nrIndex T.nr i r < (v.size : Int) := by
  rw [nrIndex_nat, hv]
  exact ⟨Int.natCast_nonneg _, by exact_mod_cast flat2_lt T.n T.nr i r hi hr⟩

theorem site_ar (v : Vec Rat) (hv : v.size = T.n * T.nr) {i r : Nat} (hi : i < T.n) (hr : r < T.nr) :
    0 ≤ Gen.arIndex T.nr i r ∧ Gen.arIndex T.nr i r < (v.size : Int) := by
  rw [arIndex_nat, hv]
  exact ⟨Int.natCast_nonneg _, by exact_mod_cast flat2_lt T.n T.nr i r hi hr⟩

theorem site_cell {α : Type} (v : Vec α) (hv : v.size = T.n) {i : Nat} (hi : i < T.n) :
    0 ≤ (i : Int) ∧ (i : Int) < (v.size : Int) := by
  rw [hv]; exact ⟨Int.natCast_nonneg _, by exact_mod_cast hi⟩

/-- `mesh_x[j*n_species+s]` / `mesh_chstt[j*n_species+s]` with `j` a neighbour index -/
theorem site_x_nbr (x : Vec Rat) (hx : x.size = T.n * T.ns) {j s : Nat} (hj : j < T.n) (hs : s < T.ns) :
    0 ≤ Gen.xIndex T.ns (j : Int) s ∧ Gen.xIndex T.ns (j : Int) s < (x.size : Int) := by
  rw [xIndex_nat, hx]
  exact ⟨Int.natCast_nonneg _, by exact_mod_cast flat2_lt T.n T.ns j s hj hs⟩

theorem site_chstt_nbr (hT : TabsOK T) {j s : Nat} (hj : j < T.n) (hs : s < T.ns) :
    0 ≤ Gen.chsttIndex T.ns (j : Int) s ∧ Gen.chsttIndex T.ns (j : Int) s < (T.chstt.size : Int) := by
  rw [chsttIndex_nat, hT.chstt]
  exact ⟨Int.natCast_nonneg _, by exact_mod_cast flat2_lt T.n T.ns j s hj hs⟩

end sites

/-! ### per-function theorems: rates and propensities -/

section funcs
variable {T : Tabs} {L : Layout} {slots : Nat → Nat} {nb : Nat → Nat → Option Nat}

theorem reactionRate_ok (hT : TabsOK T) (x : Vec Rat) (hx : x.size = T.n * T.ns) {i r : Nat} (hi : i < T.n) (hr : r < T.nr) :
    Ok (T.reactionRate x i r) (fun _ => True) := by
  unfold Tabs.reactionRate
  refine Ok.bind (Vec.rd_Ok _ _ (site_kr hT hi hr)) (fun k0 _ => ?_)
  refine Ok.mono (Ok.forUpTo (fun _ _ => True) trivial (fun s hs acc _ => ?_)) (fun _ _ => trivial)
  refine Ok.bind (Vec.rd_Ok _ _ (site_x x hx hi hs)) (fun xv _ => ?_)
  exact Ok.bind (Vec.rd_Ok _ _ (site_sub hT hs hr)) (fun q _ => Ok.pure trivial)

theorem reactionProp_ok (hT : TabsOK T) (x : Vec Rat) (hx : x.size = T.n * T.ns) {i r : Nat} (hi : i < T.n) (hr : r < T.nr) :
    Ok (T.reactionProp x i r) (fun _ => True) := by
  unfold Tabs.reactionProp
  refine Ok.bind (Vec.rd_Ok _ _ (site_kr hT hi hr)) (fun k0 _ => ?_)
  refine Ok.bind (Ok.forUpTo (fun _ _ => True) trivial (fun s hs st _ => ?_)) (fun st _ => Ok.pure trivial)
  refine Ok.ite (fun _ => Ok.pure trivial) (fun _ => ?_)
  refine Ok.bind (Vec.rd_Ok _ _ (site_x x hx hi hs)) (fun xv _ => ?_)
  refine Ok.bind (Vec.rd_Ok _ _ (site_sub hT hs hr)) (fun q _ => ?_)
  exact Ok.ite (fun _ => Ok.pure trivial) (fun _ => Ok.pure trivial)

theorem diffusionPropC_ok (hL : LayoutOK T L slots nb) (x : Vec Rat) (hx : x.size = T.n * T.ns)
    {i s k : Nat} (hi : i < T.n) (hs : s < T.ns) (hk : k < slots i) :
    Ok (diffusionPropC T L x i s k) (fun _ => True) := by
  unfold diffusionPropC
  refine Ok.bind (Vec.rd_Ok _ _ (site_x x hx hi hs)) (fun xv _ => ?_)
  exact Ok.bind (hL.kout i s k hi hs hk) (fun kv _ => Ok.pure trivial)

theorem diffusionRateDifferenceC_ok (hL : LayoutOK T L slots nb) (x : Vec Rat) (hx : x.size = T.n * T.ns)
    {i s k j : Nat} (hi : i < T.n) (hs : s < T.ns) (hk : k < slots i) (hj : nb i k = some j) :
    Ok (diffusionRateDifferenceC T L x i s k) (fun _ => True) := by
  unfold diffusionRateDifferenceC
  refine Ok.bind (diffusionPropC_ok hL x hx hi hs hk) (fun a _ => ?_)
  refine Ok.bind (hL.kin i s k j hi hs hk hj) (fun jk hjk => ?_)
  rw [hjk]
  exact Ok.bind (Vec.rd_Ok _ _ (site_x_nbr x hx (hL.nbr_lt i k j hi hk hj) hs)) (fun xj _ => Ok.pure trivial)

/-! ### Euler -/

/-- `Compute_dxdt` never accesses out of range and keeps the size of `mesh_dxdt` -/
theorem computeDxdt_ok (hT : TabsOK T) (hL : LayoutOK T L slots nb) (x dxdt : Vec Rat)
    (hx : x.size = T.n * T.ns) (hd : dxdt.size = T.n * T.ns) :
    Ok (computeDxdt T L x dxdt) (fun d => d.size = T.n * T.ns) := by
  unfold computeDxdt
  refine Ok.forUpTo (fun _ (d : Vec Rat) => d.size = T.n * T.ns) hd (fun i hi d hd => ?_)
  -- the local vector rr
  refine Ok.bind (Ok.forUpTo (fun _ (rr : Vec Rat) => rr.size = T.nr) rfl (fun r hr rr hrr => ?_)) (fun rr hrr => ?_)
  · refine Ok.bind (reactionRate_ok hT x hx hi hr) (fun v _ => ?_)
    exact Ok.mono (Vec.wr_nat rr r v (by rw [hrr]; exact hr)) (fun rr' h => h.1.trans hrr)
  rw [hL.nSlots i hi, ok_bind]
  refine Ok.forUpTo (fun _ (d : Vec Rat) => d.size = T.n * T.ns) hd (fun s hs d hd => ?_)
  refine Ok.bind (Vec.wr_Ok _ _ _ (site_d d hd hi hs)) (fun d0 hd0 => ?_)
  have hd0s : d0.size = T.n * T.ns := hd0.1.trans hd
  refine Ok.bind (Vec.rd_Ok _ _ (site_chstt hT hi hs)) (fun c _ => ?_)
  refine Ok.ite (fun _ => Ok.pure hd0s) (fun _ => ?_)
  refine Ok.bind (Ok.forUpTo (fun _ (d : Vec Rat) => d.size = T.n * T.ns) hd0s (fun r hr d hd => ?_)) (fun d1 hd1 => ?_)
  · refine Ok.bind (Vec.rd_Ok _ _ (site_d d hd hi hs)) (fun cur _ => ?_)
    refine Ok.bind (Vec.rd_Ok _ _ (site_sto hT hs hr)) (fun st _ => ?_)
    refine Ok.bind (Vec.rd_nat rr r (by rw [hrr]; exact hr)) (fun v _ => ?_)
    exact Ok.mono (Vec.wr_Ok _ _ _ (site_d d hd hi hs)) (fun d' h => h.1.trans hd)
  refine Ok.forUpTo (fun _ (d : Vec Rat) => d.size = T.n * T.ns) hd1 (fun k hk d hd => ?_)
  rw [hL.nbr i k hi hk, ok_bind]
  cases hnb : nb i k with
  | none => simp only [Option.isSome_none, Bool.false_eq_true, if_false]; exact Ok.pure hd
  | some j =>
    simp only [Option.isSome_some, if_true]
    refine Ok.bind (diffusionRateDifferenceC_ok hL x hx hi hs hk hnb) (fun v _ => ?_)
    refine Ok.bind (Vec.rd_Ok _ _ (site_d d hd hi hs)) (fun cur _ => ?_)
    exact Ok.mono (Vec.wr_Ok _ _ _ (site_d d hd hi hs)) (fun d' h => h.1.trans hd)

/-- `Apply_dxdt` -/
theorem applyDxdt_ok (dt : Rat) (x dxdt : Vec Rat) (hx : x.size = T.n * T.ns) (hd : dxdt.size = T.n * T.ns) :
    Ok (applyDxdt T dt dxdt x) (fun x' => x'.size = T.n * T.ns) := by
  unfold applyDxdt
  refine Ok.forUpTo (fun _ (x : Vec Rat) => x.size = T.n * T.ns) hx (fun i hi x hx => ?_)
  refine Ok.forUpTo (fun _ (x : Vec Rat) => x.size = T.n * T.ns) hx (fun j hj x hx => ?_)
  refine Ok.bind (Vec.rd_Ok _ _ (site_x x hx hi hj)) (fun xv _ => ?_)
  refine Ok.bind (Vec.rd_Ok _ _ (site_d dxdt hd hi hj)) (fun d _ => ?_)
  exact Ok.mono (Vec.wr_Ok _ _ _ (site_x x hx hi hj)) (fun x' h => h.1.trans hx)

end funcs

end Strengths
