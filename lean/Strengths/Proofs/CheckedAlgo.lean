/-
Checked-access engine (C11): read-after-write laws, validity of tables / layouts / scratch vectors, and the
per-function theorems of the generic algorithms: under these validity predicates no access fails and the
predicates are kept.
-/
import Strengths.Proofs.Checked

namespace Strengths

@[simp] theorem ok_bind {α β : Type} (a : α) (f : α → CRes β) : ((Except.ok a : CRes α) >>= f) = f a := rfl
@[simp] theorem error_bind {α β : Type} (e : CErr) (f : α → CRes β) : ((Except.error e : CRes α) >>= f) = .error e := rfl

/-! ### read-after-write -/

namespace Vec
variable {α : Type}

theorem wr_size {v v' : Vec α} {i : Int} {a : α} (h : v.wr i a = .ok v') : v'.size = v.size := by
  unfold wr at h; split at h
  · cases h; rfl
  · cases h

theorem rd_wr {v v' : Vec α} {i : Int} {a : α} (h : v.wr i a = .ok v') (j : Int) :
    v'.rd j = if j = i then .ok a else v.rd j := by
  unfold wr at h
  split at h
  next hi =>
    cases h
    unfold rd
    by_cases hji : j = i
    · subst hji; simp [hi]
    · simp only [hji, if_false]
      by_cases hj : 0 ≤ j ∧ j < (v.size : Int)
      · simp only [hj, and_self, if_true]
        have : j.toNat ≠ i.toNat := by omega
        simp [this]
      · simp [hj]
  next => cases h

end Vec

namespace SlotVec
variable {α : Type}

theorem rd_wr {sv sv' : SlotVec α} {a : SlotAddr} {x : α} (h : sv.wr a x = .ok sv') (b : SlotAddr) :
    sv'.rd b = if b = a then .ok x else sv.rd b := by
  cases sv with
  | flat v =>
    cases a with
    | flat i =>
      simp only [wr] at h
      cases hw : v.wr i x with
      | error e => rw [hw] at h; cases h
      | ok v' =>
        rw [hw] at h; simp only [Except.map] at h; cases h
        cases b with
        | flat j =>
          simp only [rd, Vec.rd_wr hw j]
          by_cases hji : j = i
          · subst hji; simp
          · have : SlotAddr.flat j ≠ SlotAddr.flat i := fun hh => hji (by cases hh; rfl)
            simp [hji, this]
        | nested o j => simp [rd]
    | nested o i => simp [wr] at h
  | nested v =>
    cases a with
    | flat i => simp [wr] at h
    | nested o i =>
      simp only [wr] at h
      cases hr : v.rd o with
      | error e => rw [hr] at h; cases h
      | ok row =>
        rw [hr, ok_bind] at h
        cases hw : row.wr i x with
        | error e => rw [hw] at h; cases h
        | ok row' =>
          rw [hw, ok_bind] at h
          cases hw2 : v.wr o row' with
          | error e => rw [hw2] at h; cases h
          | ok v' =>
            rw [hw2] at h; simp only [Except.map] at h; cases h
            cases b with
            | flat j => simp [rd]
            | nested o' j =>
              simp only [rd, Vec.rd_wr hw2 o']
              by_cases ho : o' = o
              · subst ho
                simp only [if_true, ok_bind, Vec.rd_wr hw j, hr]
                by_cases hji : j = i
                · subst hji; simp
                · have : SlotAddr.nested o' j ≠ SlotAddr.nested o' i := fun hh => hji (by cases hh; rfl)
                  simp [hji, this]
              · have : SlotAddr.nested o' j ≠ SlotAddr.nested o i := fun hh => ho (by cases hh; rfl)
                simp [ho, this]

/-- a slot that can be read can be written -/
theorem wr_Ok {sv : SlotVec α} {a : SlotAddr} (x : α) (h : Ok (sv.rd a) (fun _ => True)) :
    Ok (sv.wr a x) (fun sv' => ∀ b, sv'.rd b = if b = a then .ok x else sv.rd b) := by
  have key : ∃ sv', sv.wr a x = .ok sv' := by
    obtain ⟨y, hy, _⟩ := h
    cases sv with
    | flat v =>
      cases a with
      | flat i =>
        simp only [rd] at hy
        unfold Vec.rd at hy
        split at hy
        next hi => exact ⟨_, by simp only [wr, Vec.wr, hi, and_self, if_true, Except.map]; rfl⟩
        next => cases hy
      | nested o i => simp [rd] at hy
    | nested v =>
      cases a with
      | flat i => simp [rd] at hy
      | nested o i =>
        simp only [rd] at hy
        cases hr : v.rd o with
        | error e => rw [hr] at hy; cases hy
        | ok row =>
          rw [hr, ok_bind] at hy
          have ho : 0 ≤ o ∧ o < (v.size : Int) := by
            unfold Vec.rd at hr; split at hr
            next h => exact h
            next => cases hr
          have hi : 0 ≤ i ∧ i < (row.size : Int) := by
            unfold Vec.rd at hy; split at hy
            next h => exact h
            next => cases hy
          exact ⟨_, by simp only [wr, hr, ok_bind, Vec.wr, hi, ho, and_self, if_true, Except.map]; rfl⟩
  obtain ⟨sv', hw⟩ := key
  exact ⟨sv', hw, fun b => rd_wr hw b⟩

end SlotVec

/-! ### validity -/

/-- sizes of the common tables, as `Init` establishes them -/
structure TabsOK (T : Tabs) : Prop where
  chstt : T.chstt.size = T.n * T.ns
  sub : T.sub.size = T.ns * T.nr
  sto : T.sto.size = T.ns * T.nr
  kr : T.kr.size = T.n * T.nr

/-- a layout whose table reads succeed for every cell / species / slot in range; `slots` and `nb` are what they return -/
structure LayoutOK (T : Tabs) (L : Layout) (slots : Nat → Nat) (nb : Nat → Nat → Option Nat) : Prop where
  nSlots : ∀ i, i < T.n → L.nSlots i = .ok (slots i)
  nbr : ∀ i k, i < T.n → k < slots i → L.nbr i k = .ok (nb i k)
  nbr_lt : ∀ i k j, i < T.n → k < slots i → nb i k = some j → j < T.n
  kout : ∀ i s k, i < T.n → s < T.ns → k < slots i → Ok (L.kout i s k) (fun _ => True)
  kin : ∀ i s k j, i < T.n → s < T.ns → k < slots i → nb i k = some j → Ok (L.kin i s k) (fun p => p.1 = (j : Int))
  slot : ∀ i s k, i < T.n → s < T.ns → k < slots i → Ok (L.slot i s k) (fun _ => True)
  slot_inj : ∀ i s k i' s' k' a, i < T.n → s < T.ns → k < slots i → i' < T.n → s' < T.ns → k' < slots i' →
    L.slot i s k = .ok a → L.slot i' s' k' = .ok a → i = i' ∧ s = s' ∧ k = k'

/-- every slot in range of a scratch vector can be read -/
def SlotOK {α : Type} (T : Tabs) (L : Layout) (slots : Nat → Nat) (sv : SlotVec α) : Prop :=
  ∀ i s k, i < T.n → s < T.ns → k < slots i → ∀ a, L.slot i s k = .ok a → Ok (sv.rd a) (fun _ => True)

/-! ### per-site lemmas (one per registered subscript form) -/

section sites
variable {T : Tabs}

theorem site_x (x : Vec Rat) (hx : x.size = T.n * T.ns) {i s : Nat} (hi : i < T.n) (hs : s < T.ns) :
    0 ≤ T.xIdx i s ∧ T.xIdx i s < (x.size : Int) := by
  unfold Tabs.xIdx; rw [xIndex_nat, hx]
  exact ⟨Int.natCast_nonneg _, by exact_mod_cast flat2_lt T.n T.ns i s hi hs⟩

theorem site_d (d : Vec Rat) (hd : d.size = T.n * T.ns) {i s : Nat} (hi : i < T.n) (hs : s < T.ns) :
    0 ≤ T.dIdx i s ∧ T.dIdx i s < (d.size : Int) := by
  unfold Tabs.dIdx; rw [dxdtIndex_nat, hd]
  exact ⟨Int.natCast_nonneg _, by exact_mod_cast flat2_lt T.n T.ns i s hi hs⟩

theorem site_chstt (hT : TabsOK T) {i s : Nat} (hi : i < T.n) (hs : s < T.ns) :
    0 ≤ T.cIdx i s ∧ T.cIdx i s < (T.chstt.size : Int) := by
  unfold Tabs.cIdx; rw [chsttIndex_nat, hT.chstt]
  exact ⟨Int.natCast_nonneg _, by exact_mod_cast flat2_lt T.n T.ns i s hi hs⟩

theorem site_sub (hT : TabsOK T) {s r : Nat} (hs : s < T.ns) (hr : r < T.nr) :
    0 ≤ Gen.subIndex T.nr s r ∧ Gen.subIndex T.nr s r < (T.sub.size : Int) := by
  rw [subIndex_nat, hT.sub]
  exact ⟨Int.natCast_nonneg _, by exact_mod_cast flat2_lt T.ns T.nr s r hs hr⟩

theorem site_sto (hT : TabsOK T) {s r : Nat} (hs : s < T.ns) (hr : r < T.nr) :
    0 ≤ Gen.stoIndex T.nr s r ∧ Gen.stoIndex T.nr s r < (T.sto.size : Int) := by
  rw [stoIndex_nat, hT.sto]
  exact ⟨Int.natCast_nonneg _, by exact_mod_cast flat2_lt T.ns T.nr s r hs hr⟩

theorem site_kr (hT : TabsOK T) {i r : Nat} (hi : i < T.n) (hr : r < T.nr) :
    0 ≤ Gen.krIndex T.nr i r ∧ Gen.krIndex T.nr i r < (T.kr.size : Int) := by
  rw [krIndex_nat, hT.kr]
  exact ⟨Int.natCast_nonneg _, by exact_mod_cast flat2_lt T.n T.nr i r hi hr⟩

theorem site_nr (v : Vec Int) (hv : v.size = T.n * T.nr) {i r : Nat} (hi : i < T.n) (hr : r < T.nr) :
    0 ≤ Gen.nrIndex T.nr i r ∧ Gen.nrIndex T.nr i r < (v.size : Int) := by
  rw [nrIndex_nat, hv]
  exact ⟨Int.natCast_nonneg _, by exact_mod_cast flat2_lt T.n T.nr i r hi hr⟩

theorem site_ar (v : Vec Rat) (hv : v.size = T.n * T.nr) {i r : Nat} (hi : i < T.n) (hr : r < T.nr) :
    0 ≤ Gen.arIndex T.nr i r ∧ Gen.arIndex T.nr i r < (v.size : Int) := by
  rw [arIndex_nat, hv]
  exact ⟨Int.natCast_nonneg _, by exact_mod_cast flat2_lt T.n T.nr i r hi hr⟩

theorem site_cell {α : Type} (v : Vec α) (hv : v.size = T.n) {i : Nat} (hi : i < T.n) :
    0 ≤ (i : Int) ∧ (i : Int) < (v.size : Int) := by
  rw [hv]; exact ⟨Int.natCast_nonneg _, by exact_mod_cast hi⟩

/-- `mesh_x[j*n_species+s]` / `mesh_chstt[j*n_species+s]` with `j` a neighbour index -/
theorem site_x_nbr (x : Vec Rat) (hx : x.size = T.n * T.ns) {j s : Nat} (hj : j < T.n) (hs : s < T.ns) :
    0 ≤ Gen.xIndex T.ns (j : Int) s ∧ Gen.xIndex T.ns (j : Int) s < (x.size : Int) := by
  rw [xIndex_nat, hx]
  exact ⟨Int.natCast_nonneg _, by exact_mod_cast flat2_lt T.n T.ns j s hj hs⟩

theorem site_chstt_nbr (hT : TabsOK T) {j s : Nat} (hj : j < T.n) (hs : s < T.ns) :
    0 ≤ Gen.chsttIndex T.ns (j : Int) s ∧ Gen.chsttIndex T.ns (j : Int) s < (T.chstt.size : Int) := by
  rw [chsttIndex_nat, hT.chstt]
  exact ⟨Int.natCast_nonneg _, by exact_mod_cast flat2_lt T.n T.ns j s hj hs⟩

end sites

/-! ### per-function theorems: rates and propensities -/

section funcs
variable {T : Tabs} {L : Layout} {slots : Nat → Nat} {nb : Nat → Nat → Option Nat}

theorem reactionRate_ok (hT : TabsOK T) (x : Vec Rat) (hx : x.size = T.n * T.ns) {i r : Nat} (hi : i < T.n) (hr : r < T.nr) :
    Ok (T.reactionRate x i r) (fun _ => True) := by
  unfold Tabs.reactionRate
  refine Ok.bind (Vec.rd_Ok _ _ (site_kr hT hi hr)) (fun k0 _ => ?_)
  refine Ok.mono (Ok.forUpTo (fun _ _ => True) trivial (fun s hs acc _ => ?_)) (fun _ _ => trivial)
  refine Ok.bind (Vec.rd_Ok _ _ (site_x x hx hi hs)) (fun xv _ => ?_)
  exact Ok.bind (Vec.rd_Ok _ _ (site_sub hT hs hr)) (fun q _ => Ok.pure trivial)

theorem reactionProp_ok (hT : TabsOK T) (x : Vec Rat) (hx : x.size = T.n * T.ns) {i r : Nat} (hi : i < T.n) (hr : r < T.nr) :
    Ok (T.reactionProp x i r) (fun _ => True) := by
  unfold Tabs.reactionProp
  refine Ok.bind (Vec.rd_Ok _ _ (site_kr hT hi hr)) (fun k0 _ => ?_)
  refine Ok.bind (Ok.forUpTo (fun _ _ => True) trivial (fun s hs st _ => ?_)) (fun st _ => Ok.pure trivial)
  refine Ok.ite (fun _ => Ok.pure trivial) (fun _ => ?_)
  refine Ok.bind (Vec.rd_Ok _ _ (site_x x hx hi hs)) (fun xv _ => ?_)
  refine Ok.bind (Vec.rd_Ok _ _ (site_sub hT hs hr)) (fun q _ => ?_)
  exact Ok.ite (fun _ => Ok.pure trivial) (fun _ => Ok.pure trivial)

theorem diffusionPropC_ok (hL : LayoutOK T L slots nb) (x : Vec Rat) (hx : x.size = T.n * T.ns)
    {i s k : Nat} (hi : i < T.n) (hs : s < T.ns) (hk : k < slots i) :
    Ok (diffusionPropC T L x i s k) (fun _ => True) := by
  unfold diffusionPropC
  refine Ok.bind (Vec.rd_Ok _ _ (site_x x hx hi hs)) (fun xv _ => ?_)
  exact Ok.bind (hL.kout i s k hi hs hk) (fun kv _ => Ok.pure trivial)

theorem diffusionRateDifferenceC_ok (hL : LayoutOK T L slots nb) (x : Vec Rat) (hx : x.size = T.n * T.ns)
    {i s k j : Nat} (hi : i < T.n) (hs : s < T.ns) (hk : k < slots i) (hj : nb i k = some j) :
    Ok (diffusionRateDifferenceC T L x i s k) (fun _ => True) := by
  unfold diffusionRateDifferenceC
  refine Ok.bind (diffusionPropC_ok hL x hx hi hs hk) (fun a _ => ?_)
  refine Ok.bind (hL.kin i s k j hi hs hk hj) (fun jk hjk => ?_)
  rw [hjk]
  exact Ok.bind (Vec.rd_Ok _ _ (site_x_nbr x hx (hL.nbr_lt i k j hi hk hj) hs)) (fun xj _ => Ok.pure trivial)

/-! ### Euler -/

/-- `Compute_dxdt` never accesses out of range and keeps the size of `mesh_dxdt` -/
theorem computeDxdt_ok (hT : TabsOK T) (hL : LayoutOK T L slots nb) (x dxdt : Vec Rat)
    (hx : x.size = T.n * T.ns) (hd : dxdt.size = T.n * T.ns) :
    Ok (computeDxdt T L x dxdt) (fun d => d.size = T.n * T.ns) := by
  unfold computeDxdt
  refine Ok.forUpTo (fun _ (d : Vec Rat) => d.size = T.n * T.ns) hd (fun i hi d hd => ?_)
  -- the local vector rr
  refine Ok.bind (Ok.forUpTo (fun _ (rr : Vec Rat) => rr.size = T.nr) rfl (fun r hr rr hrr => ?_)) (fun rr hrr => ?_)
  · refine Ok.bind (reactionRate_ok hT x hx hi hr) (fun v _ => ?_)
    exact Ok.mono (Vec.wr_nat rr r v (by rw [hrr]; exact hr)) (fun rr' h => h.1.trans hrr)
  rw [hL.nSlots i hi, ok_bind]
  refine Ok.forUpTo (fun _ (d : Vec Rat) => d.size = T.n * T.ns) hd (fun s hs d hd => ?_)
  refine Ok.bind (Vec.wr_Ok _ _ _ (site_d d hd hi hs)) (fun d0 hd0 => ?_)
  have hd0s : d0.size = T.n * T.ns := hd0.1.trans hd
  refine Ok.bind (Vec.rd_Ok _ _ (site_chstt hT hi hs)) (fun c _ => ?_)
  refine Ok.ite (fun _ => Ok.pure hd0s) (fun _ => ?_)
  refine Ok.bind (Ok.forUpTo (fun _ (d : Vec Rat) => d.size = T.n * T.ns) hd0s (fun r hr d hd => ?_)) (fun d1 hd1 => ?_)
  · refine Ok.bind (Vec.rd_Ok _ _ (site_d d hd hi hs)) (fun cur _ => ?_)
    refine Ok.bind (Vec.rd_Ok _ _ (site_sto hT hs hr)) (fun st _ => ?_)
    refine Ok.bind (Vec.rd_nat rr r (by rw [hrr]; exact hr)) (fun v _ => ?_)
    exact Ok.mono (Vec.wr_Ok _ _ _ (site_d d hd hi hs)) (fun d' h => h.1.trans hd)
  refine Ok.forUpTo (fun _ (d : Vec Rat) => d.size = T.n * T.ns) hd1 (fun k hk d hd => ?_)
  rw [hL.nbr i k hi hk, ok_bind]
  cases hnb : nb i k with
  | none => simp only [Option.isSome_none, Bool.false_eq_true, if_false]; exact Ok.pure hd
  | some j =>
    simp only [Option.isSome_some, if_true]
    refine Ok.bind (diffusionRateDifferenceC_ok hL x hx hi hs hk hnb) (fun v _ => ?_)
    refine Ok.bind (Vec.rd_Ok _ _ (site_d d hd hi hs)) (fun cur _ => ?_)
    exact Ok.mono (Vec.wr_Ok _ _ _ (site_d d hd hi hs)) (fun d' h => h.1.trans hd)

/-- `Apply_dxdt` -/
theorem applyDxdt_ok (dt : Rat) (x dxdt : Vec Rat) (hx : x.size = T.n * T.ns) (hd : dxdt.size = T.n * T.ns) :
    Ok (applyDxdt T dt dxdt x) (fun x' => x'.size = T.n * T.ns) := by
  unfold applyDxdt
  refine Ok.forUpTo (fun _ (x : Vec Rat) => x.size = T.n * T.ns) hx (fun i hi x hx => ?_)
  refine Ok.forUpTo (fun _ (x : Vec Rat) => x.size = T.n * T.ns) hx (fun j hj x hx => ?_)
  refine Ok.bind (Vec.rd_Ok _ _ (site_x x hx hi hj)) (fun xv _ => ?_)
  refine Ok.bind (Vec.rd_Ok _ _ (site_d dxdt hd hi hj)) (fun d _ => ?_)
  exact Ok.mono (Vec.wr_Ok _ _ _ (site_x x hx hi hj)) (fun x' h => h.1.trans hx)

/-! ### tau-leap -/

theorem poissonChecked_ok (o : Oracles) (cnt : Nat) (lam : Rat) : Ok (poissonChecked o cnt lam) (fun _ => True) := by
  unfold poissonChecked
  by_cases h : lam ≤ 0
  · rw [if_pos h]; exact Ok.pure trivial
  · rw [if_neg h, if_pos (not_le.mp h)]; exact Ok.pure trivial

/-- slots without a neighbour hold 0 (`mesh_nd`, `mesh_ad`) -/
def SlotWallZero {α : Type} [Zero α] (T : Tabs) (L : Layout) (slots : Nat → Nat) (nb : Nat → Nat → Option Nat) (sv : SlotVec α)
    (upto : Nat → Nat → Nat → Prop) : Prop :=
  ∀ i s k, i < T.n → s < T.ns → k < slots i → upto i s k → nb i k = none → ∀ a, L.slot i s k = .ok a → sv.rd a = .ok 0

/-- lexicographic "already processed" for the loops cell / species / slot -/
def Before (i s k i' s' k' : Nat) : Prop := i' < i ∨ (i' = i ∧ (s' < s ∨ (s' = s ∧ k' < k)))

theorem before_slot_succ {i s k i' s' k' : Nat} (h : Before i s (k + 1) i' s' k') : Before i s k i' s' k' ∨ (i' = i ∧ s' = s ∧ k' = k) := by
  unfold Before at *
  rcases h with h | ⟨h1, h | ⟨h2, h3⟩⟩
  · exact Or.inl (Or.inl h)
  · exact Or.inl (Or.inr ⟨h1, Or.inl h⟩)
  · by_cases hk : k' = k
    · exact Or.inr ⟨h1, h2, hk⟩
    · exact Or.inl (Or.inr ⟨h1, Or.inr ⟨h2, by omega⟩⟩)

/-- writing slot (i, s, k) keeps readability of every slot and the zeros of the other wall slots -/
theorem slot_write {α : Type} [Zero α] (hL : LayoutOK T L slots nb) (sv : SlotVec α) (hsv : SlotOK T L slots sv)
    {i s k : Nat} (hi : i < T.n) (hs : s < T.ns) (hk : k < slots i) (a : SlotAddr) (ha : L.slot i s k = .ok a) (v : α)
    (upto : Nat → Nat → Nat → Prop) (hz : SlotWallZero T L slots nb sv upto) (hv : nb i k = none → v = 0) :
    Ok (sv.wr a v) (fun sv' => SlotOK T L slots sv' ∧
      SlotWallZero T L slots nb sv' (fun i' s' k' => upto i' s' k' ∨ (i' = i ∧ s' = s ∧ k' = k))) := by
  refine Ok.mono (SlotVec.wr_Ok v (hsv i s k hi hs hk a ha)) (fun sv' hrw => ⟨?_, ?_⟩)
  · intro i' s' k' hi' hs' hk' b hb
    rw [hrw b]
    by_cases hba : b = a
    · rw [if_pos hba]; exact Ok.pure trivial
    · rw [if_neg hba]; exact hsv i' s' k' hi' hs' hk' b hb
  · intro i' s' k' hi' hs' hk' hup hwall b hb
    rw [hrw b]
    by_cases hba : b = a
    · rw [if_pos hba]
      subst hba
      obtain ⟨e1, e2, e3⟩ := hL.slot_inj i' s' k' i s k b hi' hs' hk' hi hs hk hb ha
      subst e1 e2 e3
      rw [hv hwall]
    · rw [if_neg hba]
      rcases hup with hup | ⟨e1, e2, e3⟩
      · exact hz i' s' k' hi' hs' hk' hup hwall b hb
      · subst e1 e2 e3
        exact absurd (hb.symm.trans ha |> Except.ok.inj) hba

/-- `Compute_nevt`: no access fails, no Poisson precondition is violated; afterwards `mesh_nr` has its size, every
slot of `mesh_nd` is readable and the slots without a neighbour hold 0 -/
theorem computeNevt_ok (hT : TabsOK T) (hL : LayoutOK T L slots nb) (o : Oracles) (dt : Rat) (x : Vec Rat)
    (hx : x.size = T.n * T.ns) (st : TauSt) (hnr : st.mnr.size = T.n * T.nr) (hnd : SlotOK T L slots st.mnd) :
    Ok (computeNevt T L o dt x st) (fun st' => st'.mnr.size = T.n * T.nr ∧ SlotOK T L slots st'.mnd ∧
      SlotWallZero T L slots nb st'.mnd (fun _ _ _ => True)) := by
  unfold computeNevt
  let Inv := fun (i s k : Nat) (st : TauSt) => st.mnr.size = T.n * T.nr ∧ SlotOK T L slots st.mnd ∧
    SlotWallZero T L slots nb st.mnd (fun i' s' k' => Before i s k i' s' k')
  have hstart : Inv 0 0 0 st := ⟨hnr, hnd, fun i' s' k' _ _ _ hb => by
    unfold Before at hb; omega⟩
  refine Ok.mono (Ok.forUpTo (fun i st => Inv i 0 0 st) hstart (fun i hi st hinv => ?_)) (fun st' h => ⟨h.1, h.2.1, ?_⟩)
  swap
  · intro i' s' k' hi' hs' hk' _ hw a ha
    exact h.2.2 i' s' k' hi' hs' hk' (Or.inl hi') hw a ha
  -- reactions of cell i
  refine Ok.bind (Ok.forUpTo (fun _ st => Inv i 0 0 st) hinv (fun r hr st hinv => ?_)) (fun st hinv => ?_)
  · refine Ok.bind (reactionProp_ok hT x hx hi hr) (fun a _ => ?_)
    refine Ok.bind (poissonChecked_ok o st.cnt (a * dt)) (fun p _ => ?_)
    refine Ok.bind (Vec.wr_Ok _ _ _ (site_nr st.mnr hinv.1 hi hr)) (fun v hv => ?_)
    exact Ok.pure ⟨hv.1.trans hinv.1, hinv.2.1, hinv.2.2⟩
  rw [hL.nSlots i hi, ok_bind]
  -- species loop
  refine Ok.mono (Ok.forUpTo (fun s st => Inv i s 0 st) hinv (fun s hs st hinv => ?_)) (fun st' h => ⟨h.1, h.2.1, ?_⟩)
  swap
  · intro i' s' k' hi' hs' hk' hb hw a ha
    refine h.2.2 i' s' k' hi' hs' hk' ?_ hw a ha
    unfold Before at hb ⊢
    rcases hb with hb | ⟨hb, hb2 | ⟨_, hb3⟩⟩
    · omega
    · omega
    · omega
  -- slot loop
  refine Ok.mono (Ok.forUpTo (fun k st => Inv i s k st) hinv (fun k hk st hinv => ?_)) (fun st' h => ⟨h.1, h.2.1, ?_⟩)
  swap
  · intro i' s' k' hi' hs' hk' hb hw a ha
    refine h.2.2 i' s' k' hi' hs' hk' ?_ hw a ha
    unfold Before at hb ⊢
    rcases hb with hb | ⟨hb, hb2 | ⟨hb2, hb3⟩⟩
    · exact Or.inl hb
    · subst hb; exact Or.inr ⟨rfl, by omega⟩
    · omega
  rw [hL.nbr i k hi hk, ok_bind]
  obtain ⟨a, ha, _⟩ := hL.slot i s k hi hs hk
  rw [ha, ok_bind]
  have hfin : ∀ v : Int, (nb i k = none → v = 0) → ∀ cnt : Nat,
      Ok (st.mnd.wr a v >>= fun w => (.ok { st with mnd := w, cnt := cnt } : CRes TauSt)) (fun st' => Inv i s (k + 1) st') := by
    intro v hv cnt
    refine Ok.bind (slot_write hL st.mnd hinv.2.1 hi hs hk a ha v _ hinv.2.2 hv) (fun w hw => ?_)
    refine Ok.pure ⟨hinv.1, hw.1, ?_⟩
    intro i' s' k' hi' hs' hk' hb hwall b hb'
    exact hw.2 i' s' k' hi' hs' hk' (before_slot_succ hb) hwall b hb'
  cases hnb : nb i k with
  | none =>
    simp only [Option.isSome_none, Bool.false_eq_true, if_false]
    have := hfin 0 (fun _ => rfl) st.cnt
    simpa using this
  | some j =>
    simp only [Option.isSome_some, if_true]
    refine Ok.bind (diffusionPropC_ok hL x hx hi hs hk) (fun pr _ => ?_)
    refine Ok.bind (poissonChecked_ok o st.cnt (pr * dt)) (fun p _ => ?_)
    exact hfin p.1 (fun h => by rw [hnb] at h; cases h) p.2

/-- `Apply_nevt`: with the scratch vectors as `Compute_nevt` leaves them no access fails (a non-zero count belongs to a slot
with a neighbour, so `mesh_chstt[j*n_species+s]` / `mesh_x[j*n_species+s]` are never indexed with j = −1) -/
theorem applyNevt_ok (hT : TabsOK T) (hL : LayoutOK T L slots nb) (st : TauSt) (hnr : st.mnr.size = T.n * T.nr)
    (hnd : SlotOK T L slots st.mnd) (hz : SlotWallZero T L slots nb st.mnd (fun _ _ _ => True))
    (x : Vec Rat) (hx : x.size = T.n * T.ns) :
    Ok (applyNevt T L st x) (fun x' => x'.size = T.n * T.ns) := by
  unfold applyNevt
  refine Ok.forUpTo (fun _ (x : Vec Rat) => x.size = T.n * T.ns) hx (fun i hi x hx => ?_)
  refine Ok.bind (Ok.forUpTo (fun _ (x : Vec Rat) => x.size = T.n * T.ns) hx (fun r hr x hx => ?_)) (fun x hx => ?_)
  · refine Ok.forUpTo (fun _ (x : Vec Rat) => x.size = T.n * T.ns) hx (fun j hj x hx => ?_)
    refine Ok.bind (Vec.rd_Ok _ _ (site_chstt hT hi hj)) (fun c _ => ?_)
    refine Ok.ite (fun _ => Ok.pure hx) (fun _ => ?_)
    refine Ok.bind (Vec.rd_Ok _ _ (site_x x hx hi hj)) (fun xv _ => ?_)
    refine Ok.bind (Vec.rd_Ok _ _ (site_sto hT hj hr)) (fun sv _ => ?_)
    refine Ok.bind (Vec.rd_Ok _ _ (site_nr st.mnr hnr hi hr)) (fun nv _ => ?_)
    exact Ok.mono (Vec.wr_Ok _ _ _ (site_x x hx hi hj)) (fun x' h => h.1.trans hx)
  rw [hL.nSlots i hi, ok_bind]
  refine Ok.forUpTo (fun _ (x : Vec Rat) => x.size = T.n * T.ns) hx (fun s hs x hx => ?_)
  refine Ok.forUpTo (fun _ (x : Vec Rat) => x.size = T.n * T.ns) hx (fun k hk x hx => ?_)
  obtain ⟨a, ha, _⟩ := hL.slot i s k hi hs hk
  rw [ha, ok_bind]
  obtain ⟨nd, hndv, _⟩ := hnd i s k hi hs hk a ha
  rw [hndv, ok_bind]
  refine Ok.ite (fun _ => Ok.pure hx) (fun hne => ?_)
  refine Ok.bind (Vec.rd_Ok _ _ (site_chstt hT hi hs)) (fun c _ => ?_)
  have hx1 : Ok (if c ≠ 0 then (.ok x : CRes (Vec Rat)) else x.rd (T.xIdx i s) >>= fun xv => x.wr (T.xIdx i s) (xv - (nd : Rat)))
      (fun x1 => x1.size = T.n * T.ns) := by
    refine Ok.ite (fun _ => Ok.pure hx) (fun _ => ?_)
    refine Ok.bind (Vec.rd_Ok _ _ (site_x x hx hi hs)) (fun xv _ => ?_)
    exact Ok.mono (Vec.wr_Ok _ _ _ (site_x x hx hi hs)) (fun x' h => h.1.trans hx)
  refine Ok.bind hx1 (fun x1 hx1 => ?_)
  rw [hL.nbr i k hi hk, ok_bind]
  cases hnb : nb i k with
  | none =>
    have := hz i s k hi hs hk trivial hnb a ha
    rw [hndv] at this
    exact absurd (Except.ok.inj this) hne
  | some j =>
    dsimp only
    have hj := hL.nbr_lt i k j hi hk hnb
    refine Ok.bind (Vec.rd_Ok _ _ (site_chstt_nbr hT hj hs)) (fun cj _ => ?_)
    refine Ok.ite (fun _ => Ok.pure hx1) (fun _ => ?_)
    refine Ok.bind (Vec.rd_Ok _ _ (site_x_nbr x1 hx1 hj hs)) (fun xj _ => ?_)
    exact Ok.mono (Vec.wr_Ok _ _ _ (site_x_nbr x1 hx1 hj hs)) (fun x' h => h.1.trans hx1)

/-! ### Gillespie -/

/-- sizes of the Gillespie scratch vectors -/
structure GilOK (T : Tabs) (L : Layout) (slots : Nat → Nat) (g : GilSt) : Prop where
  ar : g.ar.size = T.n * T.nr
  a0r : g.a0r.size = T.n
  a0d : g.a0d.size = T.n
  ad : SlotOK T L slots g.ad

/-- `ComputePropensities`: afterwards the slots of `mesh_ad` without a neighbour hold 0 -/
theorem computePropensities_ok (hT : TabsOK T) (hL : LayoutOK T L slots nb) (x : Vec Rat) (hx : x.size = T.n * T.ns)
    (g : GilSt) (hg : GilOK T L slots g) :
    Ok (computePropensities T L x g) (fun g' => GilOK T L slots g' ∧ SlotWallZero T L slots nb g'.ad (fun _ _ _ => True)) := by
  unfold computePropensities
  let Inv := fun (i s k : Nat) (g : GilSt) => GilOK T L slots g ∧ SlotWallZero T L slots nb g.ad (fun i' s' k' => Before i s k i' s' k')
  have hstart : Inv 0 0 0 { g with a0 := 0 } := ⟨⟨hg.ar, hg.a0r, hg.a0d, hg.ad⟩, fun i' s' k' _ _ _ hb => by
    unfold Before at hb; omega⟩
  refine Ok.mono (Ok.forUpTo (fun i g => Inv i 0 0 g) hstart (fun i hi g hinv => ?_)) (fun g' h => ⟨h.1, ?_⟩)
  swap
  · intro i' s' k' hi' hs' hk' _ hw a ha
    exact h.2 i' s' k' hi' hs' hk' (Or.inl hi') hw a ha
  refine Ok.bind (Vec.wr_Ok _ _ _ (site_cell g.a0d hinv.1.a0d hi)) (fun v1 hv1 => ?_)
  refine Ok.bind (Vec.wr_Ok _ _ _ (site_cell g.a0r hinv.1.a0r hi)) (fun v2 hv2 => ?_)
  have hinv1 : Inv i 0 0 { g with a0d := v1, a0r := v2 } :=
    ⟨⟨hinv.1.ar, hv2.1.trans hinv.1.a0r, hv1.1.trans hinv.1.a0d, hinv.1.ad⟩, hinv.2⟩
  refine Ok.bind (Ok.forUpTo (fun _ g => Inv i 0 0 g) hinv1 (fun r hr g hinv => ?_)) (fun g hinv => ?_)
  · refine Ok.bind (reactionProp_ok hT x hx hi hr) (fun a _ => ?_)
    refine Ok.bind (Vec.wr_Ok _ _ _ (site_ar g.ar hinv.1.ar hi hr)) (fun ar har => ?_)
    have hars : ar.size = T.n * T.nr := har.1.trans hinv.1.ar
    refine Ok.bind (Vec.rd_Ok _ _ (site_ar ar hars hi hr)) (fun a' _ => ?_)
    refine Ok.bind (Vec.rd_Ok _ _ (site_cell g.a0r hinv.1.a0r hi)) (fun c _ => ?_)
    refine Ok.bind (Vec.wr_Ok _ _ _ (site_cell g.a0r hinv.1.a0r hi)) (fun a0r ha0r => ?_)
    exact Ok.pure ⟨⟨hars, ha0r.1.trans hinv.1.a0r, hinv.1.a0d, hinv.1.ad⟩, hinv.2⟩
  rw [hL.nSlots i hi, ok_bind]
  refine Ok.mono (Ok.forUpTo (fun s g => Inv i s 0 g) hinv (fun s hs g hinv => ?_)) (fun g' h => ⟨h.1, ?_⟩)
  swap
  · intro i' s' k' hi' hs' hk' hb hw a ha
    refine h.2 i' s' k' hi' hs' hk' ?_ hw a ha
    unfold Before at hb ⊢
    rcases hb with hb | ⟨hb, hb2 | ⟨_, hb3⟩⟩
    · omega
    · omega
    · omega
  refine Ok.mono (Ok.forUpTo (fun k g => Inv i s k g) hinv (fun k hk g hinv => ?_)) (fun g' h => ⟨h.1, ?_⟩)
  swap
  · intro i' s' k' hi' hs' hk' hb hw a ha
    refine h.2 i' s' k' hi' hs' hk' ?_ hw a ha
    unfold Before at hb ⊢
    rcases hb with hb | ⟨hb, hb2 | ⟨hb2, hb3⟩⟩
    · exact Or.inl hb
    · subst hb; exact Or.inr ⟨rfl, by omega⟩
    · omega
  rw [hL.nbr i k hi hk, ok_bind]
  obtain ⟨a, ha, _⟩ := hL.slot i s k hi hs hk
  rw [ha, ok_bind]
  have hpr : Ok (if (nb i k).isSome then diffusionPropC T L x i s k else (.ok 0 : CRes Rat)) (fun pr => nb i k = none → pr = 0) := by
    cases hnb : nb i k with
    | none => simp only [Option.isSome_none, Bool.false_eq_true, if_false]; exact Ok.pure (fun _ => rfl)
    | some j =>
      simp only [Option.isSome_some, if_true]
      exact Ok.mono (diffusionPropC_ok hL x hx hi hs hk) (fun _ _ h => by cases h)
  refine Ok.bind hpr (fun pr hprz => ?_)
  refine Ok.bind (slot_write hL g.ad hinv.1.ad hi hs hk a ha pr _ hinv.2 hprz) (fun ad had => ?_)
  obtain ⟨pr', hpr', _⟩ := had.1 i s k hi hs hk a ha
  rw [hpr', ok_bind]
  refine Ok.bind (Vec.rd_Ok _ _ (site_cell g.a0d hinv.1.a0d hi)) (fun c _ => ?_)
  refine Ok.bind (Vec.wr_Ok _ _ _ (site_cell g.a0d hinv.1.a0d hi)) (fun a0d ha0d => ?_)
  refine Ok.pure ⟨⟨hinv.1.ar, hinv.1.a0r, ha0d.1.trans hinv.1.a0d, had.1⟩, ?_⟩
  intro i' s' k' hi' hs' hk' hb hwall b hb'
  exact had.2 i' s' k' hi' hs' hk' (before_slot_succ hb) hwall b hb'

/-- `ApplyReaction` -/
theorem applyReactionC_ok (hT : TabsOK T) (x : Vec Rat) (hx : x.size = T.n * T.ns) {i r : Nat} (hi : i < T.n) (hr : r < T.nr) :
    Ok (applyReactionC T x i r) (fun x' => x'.size = T.n * T.ns) := by
  unfold applyReactionC
  refine Ok.forUpTo (fun _ (x : Vec Rat) => x.size = T.n * T.ns) hx (fun s hs x hx => ?_)
  refine Ok.bind (Vec.rd_Ok _ _ (site_chstt hT hi hs)) (fun c _ => ?_)
  refine Ok.ite (fun _ => Ok.pure hx) (fun _ => ?_)
  refine Ok.bind (Vec.rd_Ok _ _ (site_x x hx hi hs)) (fun xv _ => ?_)
  refine Ok.bind (Vec.rd_Ok _ _ (site_sto hT hs hr)) (fun sv _ => ?_)
  exact Ok.mono (Vec.wr_Ok _ _ _ (site_x x hx hi hs)) (fun x' h => h.1.trans hx)

/-- `ApplyDiffusion` through a slot that has a neighbour -/
theorem applyDiffusionC_ok (hT : TabsOK T) (hL : LayoutOK T L slots nb) (x : Vec Rat) (hx : x.size = T.n * T.ns)
    {i s k j : Nat} (hi : i < T.n) (hs : s < T.ns) (hk : k < slots i) (hnb : nb i k = some j) :
    Ok (applyDiffusionC T L x i s k) (fun x' => x'.size = T.n * T.ns) := by
  unfold applyDiffusionC
  rw [hL.nbr i k hi hk, ok_bind, hnb]
  dsimp only
  have hj := hL.nbr_lt i k j hi hk hnb
  refine Ok.bind (Vec.rd_Ok _ _ (site_chstt hT hi hs)) (fun c _ => ?_)
  have hx1 : Ok (if c ≠ 0 then (.ok x : CRes (Vec Rat)) else x.rd (T.xIdx i s) >>= fun xv => x.wr (T.xIdx i s) (xv - 1))
      (fun x1 => x1.size = T.n * T.ns) := by
    refine Ok.ite (fun _ => Ok.pure hx) (fun _ => ?_)
    refine Ok.bind (Vec.rd_Ok _ _ (site_x x hx hi hs)) (fun xv _ => ?_)
    exact Ok.mono (Vec.wr_Ok _ _ _ (site_x x hx hi hs)) (fun x' h => h.1.trans hx)
  refine Ok.bind hx1 (fun x1 hx1 => ?_)
  refine Ok.bind (Vec.rd_Ok _ _ (site_chstt_nbr hT hj hs)) (fun cj _ => ?_)
  refine Ok.ite (fun _ => Ok.pure hx1) (fun _ => ?_)
  refine Ok.bind (Vec.rd_Ok _ _ (site_x_nbr x1 hx1 hj hs)) (fun xj _ => ?_)
  exact Ok.mono (Vec.wr_Ok _ _ _ (site_x_nbr x1 hx1 hj hs)) (fun x' h => h.1.trans hx1)

/-- `DrawAndApplyEvent`: the reaction scan and the diffusion scan stay inside `mesh_a0r`, `mesh_ar`, `mesh_a0d`, `mesh_ad`;
a diffusion event is only applied through a slot whose propensity is positive, hence (zeros on the walls) one that has a
neighbour -/
theorem drawAndApplyEvent_ok (hT : TabsOK T) (hL : LayoutOK T L slots nb) (g : GilSt) (hg : GilOK T L slots g)
    (hz : SlotWallZero T L slots nb g.ad (fun _ _ _ => True)) (r : Rat) (x : Vec Rat) (hx : x.size = T.n * T.ns) :
    Ok (drawAndApplyEvent T L g r x) (fun x' => x'.size = T.n * T.ns) := by
  unfold drawAndApplyEvent
  refine Ok.bind (Ok.forUpTo (fun _ (st : ScanSt) => st.x.size = T.n * T.ns) hx (fun i hi st hst => ?_)) (fun st hst => Ok.pure hst)
  refine Ok.ite (fun _ => Ok.pure hst) (fun _ => ?_)
  refine Ok.bind (Vec.rd_Ok _ _ (site_cell g.a0r hg.a0r hi)) (fun ar0 _ => ?_)
  refine Ok.ite (fun _ => ?_) (fun hnr => ?_)
  · -- reaction scan
    refine Ok.bind (Ok.forUpTo (fun _ (s2 : ScanSt) => s2.x.size = T.n * T.ns) hst (fun j hj s2 hs2 => ?_)) (fun s2 hs2 => Ok.pure hs2)
    refine Ok.ite (fun _ => Ok.pure hs2) (fun _ => ?_)
    refine Ok.bind (Vec.rd_Ok _ _ (site_ar g.ar hg.ar hi hj)) (fun a _ => ?_)
    refine Ok.ite (fun _ => ?_) (fun _ => Ok.pure hs2)
    exact Ok.bind (applyReactionC_ok hT s2.x hs2 hi hj) (fun x' hx' => Ok.pure hx')
  refine Ok.bind (Vec.rd_Ok _ _ (site_cell g.a0d hg.a0d hi)) (fun ad0 _ => ?_)
  refine Ok.ite (fun _ => ?_) (fun _ => Ok.pure hst)
  rw [hL.nSlots i hi, ok_bind]
  -- diffusion scan: while nothing is selected the cumulative sum has not passed the target
  let Inv := fun (s2 : ScanSt) => s2.x.size = T.n * T.ns ∧ (s2.done = false → s2.cum ≤ r - (st.cum + ar0))
  have hstart : Inv { cum := 0, done := false, x := st.x } := ⟨hst, fun _ => by
    have := not_lt.mp hnr
    show (0 : Rat) ≤ r - (st.cum + ar0)
    linarith⟩
  refine Ok.bind (Ok.forUpTo (fun _ s2 => Inv s2) hstart (fun s hs s2 hs2 => ?_)) (fun s2 hs2 => Ok.pure hs2.1)
  refine Ok.forUpTo (fun _ s2 => Inv s2) hs2 (fun k hk s2 hs2 => ?_)
  by_cases hdone : s2.done = true
  · rw [if_pos hdone]; exact Ok.pure hs2
  rw [if_neg hdone]
  simp only [Bool.not_eq_true] at hdone
  obtain ⟨a, ha, _⟩ := hL.slot i s k hi hs hk
  rw [ha, ok_bind]
  obtain ⟨pr, hprv, _⟩ := hg.ad i s k hi hs hk a ha
  rw [hprv, ok_bind]
  refine Ok.ite (fun hsel => ?_) (fun hnsel => ?_)
  · cases hnb : nb i k with
    | none =>
      have h0 := hz i s k hi hs hk trivial hnb a ha
      rw [hprv] at h0
      have hpr0 : pr = 0 := Except.ok.inj h0
      have := hs2.2 hdone
      rw [hpr0] at hsel
      exfalso; linarith
    | some j =>
      refine Ok.bind (applyDiffusionC_ok hT hL s2.x hs2.1 hi hs hk hnb) (fun x' hx' => ?_)
      exact Ok.pure ⟨hx', fun h => by cases h⟩
  · refine Ok.pure ⟨hs2.1, fun _ => ?_⟩
    have := not_lt.mp hnsel
    exact this

end funcs

end Strengths
