/- `Printable` (hypothesis of the C12 quantity theorems) discharged from C18's print→parse law. -/
import Strengths.Props.C18
import Strengths.Proofs.Dict

namespace Strengths.Dict
open Strengths Strengths.Gen

theorem showPart_congr (s s' : List Char) (e : Int) (h : e = 0 ∨ s = s') : showPart s e = showPart s' e := by
  rcases h with h | h
  · subst h; rfl
  · subst h; rfl

/-- every units object over a valid units system is printable: the printed text is read back with the same
dimension, the same SI scale and the same text (C18 `show_parse_units`) -/
theorem printable_of_valid (u : Units) (hv : u.sys.valid = true) : Printable u := by
  obtain ⟨u', hp, hd, he, _⟩ := Strengths.C18.show_parse_units u hv
  simp only [Units.eqv, Bool.and_eq_true, Bool.or_eq_true, beq_iff_eq] at he
  obtain ⟨⟨⟨_, h1⟩, h2⟩, h3⟩ := he
  rw [hd] at h1 h2 h3
  refine ⟨u', ?_, hd, ?_, ?_⟩
  · simp only [parseUnits, showUnits, String.toList_ofList, hp]
  · simp only [siFactor, Sys.sSpace, Sys.sTime, Sys.sQty, hd]
    have e1 : scaleIn spaceScale u'.sys.space ^ u.dim.space = scaleIn spaceScale u.sys.space ^ u.dim.space := by
      rcases h1 with h | h
      · rw [h]; simp
      · rw [h]
    have e2 : scaleIn timeScale u'.sys.time ^ u.dim.time = scaleIn timeScale u.sys.time ^ u.dim.time := by
      rcases h2 with h | h
      · rw [h]; simp
      · rw [h]
    have e3 : scaleIn qtyScale u'.sys.qty ^ u.dim.qty = scaleIn qtyScale u.sys.qty ^ u.dim.qty := by
      rcases h3 with h | h
      · rw [h]; simp
      · rw [h]
    rw [e1, e2, e3]
  · simp only [showUnits, showUnitsChars, hd]
    rw [showPart_congr u'.sys.space.toList u.sys.space.toList u.dim.space (h1.imp id (congrArg _)),
      showPart_congr u'.sys.time.toList u.sys.time.toList u.dim.time (h2.imp id (congrArg _)),
      showPart_congr u'.sys.qty.toList u.sys.qty.toList u.dim.qty (h3.imp id (congrArg _))]

end Strengths.Dict
