/-
Lemmas about the initial-state processing model (`Model/InitState.lean`) for C14.
-/
import Mathlib.Data.Rat.Floor
import Strengths.Proofs.Scan
import Strengths.Model.InitState

namespace Strengths
open Gen Finset

/-- column total of species `s` over the `n` cells -/
def colSum (x : State) (n s : Nat) : Rat := ∑ i ∈ range n, x i s

theorem speciesTotal_eq (x : State) (n s : Nat) : speciesTotal x n s = colSum x n s := by
  simp [speciesTotal, colSum, foldl_range_add]

theorem switch_pos : 0 < poissonNormalSwitch := by decide +kernel

/-! ### step 2 -/

theorem redistEntry_spec {v : Rat} {ds ds' : List Draw} {r : Rat} (h : redistEntry v ds = some (r, ds')) :
    IsNNInt r ∧ (v ≤ 0 → r = 0) := by
  unfold redistEntry at h
  split at h
  · split at h
    · rename_i hpos
      split at h
      · cases h; exact ⟨isNNInt_natCast _, fun hv => absurd hpos (not_lt.2 hv)⟩
      · cases h
    · cases h; exact ⟨isNNInt_zero, fun _ => rfl⟩
  · rename_i hge
    split at h
    · cases h
      refine ⟨isNNInt_max_zero_intCast _, fun hv => ?_⟩
      exact absurd (lt_of_le_of_lt hv switch_pos) hge
    · cases h

/-- invariant lemma for the loop of step 2 -/
theorem redistDraw_inv (x : State) (P : Nat → Nat → Rat → Prop)
    (hP : ∀ i s ds r ds', redistEntry (x i s) ds = some (r, ds') → P i s r) :
    ∀ (l : List (Nat × Nat)) (ds : List Draw) (acc out : State) (ds' : List Draw),
      (∀ i s, P i s (acc i s)) → redistDraw x l ds acc = some (out, ds') → ∀ i s, P i s (out i s) := by
  intro l
  induction l with
  | nil => intro ds acc out ds' hacc h; simp only [redistDraw] at h; cases h; exact hacc
  | cons p rest ih =>
    intro ds acc out ds' hacc h
    obtain ⟨i0, s0⟩ := p
    simp only [redistDraw] at h
    split at h
    · cases h
    · rename_i v ds1 he
      refine ih ds1 _ out ds' ?_ h
      intro i s
      rw [State.update_get]
      split
      · rename_i hc; obtain ⟨rfl, rfl⟩ := hc; exact hP _ _ _ _ _ he
      · exact hacc i s

/-! ### the inner scan of the correction loop -/

theorem hitCell_eq_scan (x : State) (s : Nat) (t : Rat) (l : List Nat) (cum : Rat) :
    hitCell x s t l cum = (scanIdx (l.map fun i => x i s) t cum).bind (fun k => l[k]?) := by
  induction l generalizing cum with
  | nil => rfl
  | cons i rest ih =>
    simp only [hitCell, List.map_cons, scanIdx]
    split
    · simp
    · rw [ih]
      cases scanIdx (List.map (fun i => x i s) rest) t (cum + x i s) <;> simp

/-- the cell hit by `target < cumul` is one of the scanned cells and holds a positive real-valued amount -/
theorem hitCell_pos {x : State} {s : Nat} {t : Rat} {l : List Nat} {cum : Rat} {i : Nat} (hcum : cum ≤ t)
    (h : hitCell x s t l cum = some i) : i ∈ l ∧ 0 < x i s := by
  induction l generalizing cum with
  | nil => simp [hitCell] at h
  | cons j rest ih =>
    simp only [hitCell] at h
    split at h
    · cases h; rename_i hlt; exact ⟨by simp, by linarith⟩
    · rename_i hnot
      obtain ⟨h1, h2⟩ := ih (not_lt.1 hnot) h
      exact ⟨by simp [h1], h2⟩

/-! ### step 5, one species -/

/-- what the `for(;;)` of one species guarantees when it ends -/
theorem correctSpecies_spec (x : State) (n s : Nat) (T : Rat) (rm : Bool) (hT : 0 ≤ T) :
    ∀ (ds : List Draw) (k : Nat) (sto out : State) (ds' : List Draw),
      correctSpecies x n s T rm ds k sto = some (out, ds') →
      (∀ u, Draw.unif u ∈ ds → 0 ≤ u) →
      (∀ i, IsNNInt (sto i s)) → (∀ i, x i s = 0 → sto i s = 0) →
      (∀ i s', s' ≠ s → out i s' = sto i s') ∧ (∀ i, IsNNInt (out i s)) ∧ (∀ i, x i s = 0 → out i s = 0) ∧
      colSum out n s = colSum sto n s + (if rm then -(k : Rat) else (k : Rat)) := by
  intro ds
  induction ds with
  | nil =>
    intro k sto out ds' h _ hint hsup
    cases k with
    | zero => simp only [correctSpecies] at h; cases h; exact ⟨fun _ _ _ => rfl, hint, hsup, by simp⟩
    | succ k => simp [correctSpecies] at h
  | cons d ds ih =>
    intro k sto out ds' h hu hint hsup
    have hu' : ∀ u, Draw.unif u ∈ ds → 0 ≤ u := fun u hm => hu u (by simp [hm])
    cases k with
    | zero => simp only [correctSpecies] at h; cases h; exact ⟨fun _ _ _ => rfl, hint, hsup, by simp⟩
    | succ k =>
      cases d with
      | pois m => simp [correctSpecies] at h
      | norm v => simp [correctSpecies] at h
      | unif u =>
        have hu0 : 0 ≤ u := hu u (by simp)
        simp only [correctSpecies] at h
        split at h
        · exact ih (k + 1) sto out ds' h hu' hint hsup
        · rename_i i hhit
          obtain ⟨hmem, hxpos⟩ := hitCell_pos (by positivity) hhit
          have hi : i < n := List.mem_range.1 hmem
          split at h
          · rename_i hrm
            split at h
            · rename_i hpos
              -- remove one molecule from cell i
              have := ih k (sto.update i s (sto i s - 1)) out ds' h hu'
                (fun j => by
                  rw [State.update_get]; split
                  · exact (hint i).sub_one hpos
                  · exact hint j)
                (fun j hj => by
                  rw [State.update_get]; split
                  · rename_i hc; rw [hc.1] at hj; exact absurd hj (ne_of_gt hxpos)
                  · exact hsup j hj)
              obtain ⟨h1, h2, h3, h4⟩ := this
              refine ⟨fun j s' hs' => ?_, h2, h3, ?_⟩
              · rw [h1 j s' hs', State.update_other_species _ _ _ _ _ _ hs']
              · rw [h4]
                have hc : colSum (sto.update i s (sto i s - 1)) n s = colSum sto n s + ((sto i s - 1) - sto i s) := by
                  unfold colSum
                  rw [sum_range_update_point (fun j => sto j s) (fun j => (sto.update i s (sto i s - 1)) j s) n i hi
                    (fun j hj => State.update_other_cell _ _ _ _ _ _ hj)]
                  simp
                rw [hc]; simp only [hrm, if_true]; push_cast; ring
            · exact ih (k + 1) sto out ds' h hu' hint hsup
          · rename_i hrm
            have := ih k (sto.update i s (sto i s + 1)) out ds' h hu'
              (fun j => by
                rw [State.update_get]; split
                · exact (hint i).add_one
                · exact hint j)
              (fun j hj => by
                rw [State.update_get]; split
                · rename_i hc; rw [hc.1] at hj; exact absurd hj (ne_of_gt hxpos)
                · exact hsup j hj)
            obtain ⟨h1, h2, h3, h4⟩ := this
            refine ⟨fun j s' hs' => ?_, h2, h3, ?_⟩
            · rw [h1 j s' hs', State.update_other_species _ _ _ _ _ _ hs']
            · rw [h4]
              have hc : colSum (sto.update i s (sto i s + 1)) n s = colSum sto n s + ((sto i s + 1) - sto i s) := by
                unfold colSum
                rw [sum_range_update_point (fun j => sto j s) (fun j => (sto.update i s (sto i s + 1)) j s) n i hi
                  (fun j hj => State.update_other_cell _ _ _ _ _ _ hj)]
                simp
              rw [hc]; simp only [hrm]; push_cast; simp; ring

/-- the loop only consumes draws: what is left is part of what was given -/
theorem correctSpecies_rest (x : State) (n s : Nat) (T : Rat) (rm : Bool) :
    ∀ (ds : List Draw) (k : Nat) (sto out : State) (ds' : List Draw),
      correctSpecies x n s T rm ds k sto = some (out, ds') → ∀ d ∈ ds', d ∈ ds := by
  intro ds
  induction ds with
  | nil =>
    intro k sto out ds' h
    cases k with
    | zero => simp only [correctSpecies] at h; cases h; simp
    | succ k => simp [correctSpecies] at h
  | cons d ds ih =>
    intro k sto out ds' h
    cases k with
    | zero => simp only [correctSpecies] at h; cases h; simp
    | succ k =>
      cases d with
      | pois m => simp [correctSpecies] at h
      | norm v => simp [correctSpecies] at h
      | unif u =>
        simp only [correctSpecies] at h
        have key : ∀ k' sto', correctSpecies x n s T rm ds k' sto' = some (out, ds') →
            ∀ d ∈ ds', d ∈ Draw.unif u :: ds := fun k' sto' h' d hd => by
          simp [ih k' sto' out ds' h' d hd]
        split at h
        · exact key _ _ h
        · split at h
          · split at h
            · exact key _ _ h
            · exact key _ _ h
          · exact key _ _ h

theorem redistEntry_rest {v : Rat} {ds ds' : List Draw} {r : Rat} (h : redistEntry v ds = some (r, ds')) :
    ∀ d ∈ ds', d ∈ ds := by
  unfold redistEntry at h
  split at h
  · split at h
    · split at h
      · cases h; intro d hd; simp [hd]
      · cases h
    · cases h; exact fun d hd => hd
  · split at h
    · cases h; intro d hd; simp [hd]
    · cases h

theorem redistDraw_rest (x : State) :
    ∀ (l : List (Nat × Nat)) (ds : List Draw) (acc out : State) (ds' : List Draw),
      redistDraw x l ds acc = some (out, ds') → ∀ d ∈ ds', d ∈ ds := by
  intro l
  induction l with
  | nil => intro ds acc out ds' h; simp only [redistDraw] at h; cases h; exact fun d hd => hd
  | cons p rest ih =>
    intro ds acc out ds' h
    obtain ⟨i0, s0⟩ := p
    simp only [redistDraw] at h
    split at h
    · cases h
    · rename_i v ds1 he
      exact fun d hd => redistEntry_rest he d (ih ds1 _ out ds' h d hd)

/-! ### step 5, all species -/

theorem rat_floor_eq (q : Rat) : q.floor = ⌊q⌋ := rfl

theorem redistDelta_eq {x sto : State} {n s : Nat} (hint : ∀ i, IsNNInt (sto i s)) :
    ((redistDelta x sto n s : Int) : Rat) = colSum sto n s - (⌊colSum x n s⌋ : Rat) := by
  obtain ⟨a, ha⟩ := isNNInt_sum (n := n) (f := fun i => sto i s) (fun i _ => hint i)
  unfold redistDelta
  rw [speciesTotal_eq, speciesTotal_eq, rat_floor_eq, rat_floor_eq]
  unfold colSum at *
  rw [ha]
  have : ((a : Rat) - ((⌊∑ i ∈ range n, x.get i s⌋ : Int) : Rat)) = (((a : Int) - ⌊∑ i ∈ range n, x.get i s⌋ : Int) : Rat) := by
    push_cast; ring
  rw [this, Int.floor_intCast]

/-- the state invariant of "redist": non-negative integers, nothing where the real-valued amount is zero -/
def RedistInv (x sto : State) : Prop :=
  (∀ i s, IsNNInt (sto i s)) ∧ (∀ i s, x i s = 0 → sto i s = 0)

theorem redistCorrect_spec (x : State) (n : Nat) (hx : ∀ i s, 0 ≤ x i s) :
    ∀ (l : List Nat) (ds : List Draw) (sto out : State) (ds' : List Draw), l.Nodup →
      redistCorrect x n l ds sto = some (out, ds') →
      (∀ u, Draw.unif u ∈ ds → 0 ≤ u) → RedistInv x sto →
      RedistInv x out ∧ (∀ s ∈ l, colSum out n s = (⌊colSum x n s⌋ : Rat)) ∧
        (∀ s, s ∉ l → ∀ i, out i s = sto i s) := by
  intro l
  induction l with
  | nil =>
    intro ds sto out ds' _ h _ hinv
    simp only [redistCorrect] at h; cases h
    exact ⟨hinv, by simp, fun _ _ _ => rfl⟩
  | cons s rest ih =>
    intro ds sto out ds' hnd h hu hinv
    have hnd' : rest.Nodup := (List.nodup_cons.1 hnd).2
    have hs : s ∉ rest := (List.nodup_cons.1 hnd).1
    have hdelta := redistDelta_eq (x := x) (n := n) (s := s) (fun i => hinv.1 i s)
    simp only [redistCorrect] at h
    split at h
    · rename_i hz
      have hz' : redistDelta x sto n s = 0 := by simpa using hz
      rw [hz'] at hdelta
      obtain ⟨h1, h2, h3⟩ := ih ds sto out ds' hnd' h hu hinv
      refine ⟨h1, ?_, fun s' hs' i => h3 s' (fun hm => hs' (by simp [hm])) i⟩
      intro s' hs'
      rcases List.mem_cons.1 hs' with rfl | hm
      · have : colSum out n s' = colSum sto n s' := by
          unfold colSum; exact Finset.sum_congr rfl (fun i _ => h3 s' hs i)
        rw [this]; push_cast at hdelta; linarith
      · exact h2 s' hm
    · rename_i hnz
      have hnz' : redistDelta x sto n s ≠ 0 := by simpa using hnz
      split at h
      · cases h
      · rename_i sto1 ds1 hc
        have hT : 0 ≤ speciesTotal x n s := by
          rw [speciesTotal_eq]; exact Finset.sum_nonneg (fun i _ => hx i s)
        obtain ⟨c1, c2, c3, c4⟩ := correctSpecies_spec x n s _ _ hT ds _ sto sto1 ds1 hc hu
          (fun i => hinv.1 i s) (fun i => hinv.2 i s)
        have hrest := correctSpecies_rest x n s _ _ ds _ sto sto1 ds1 hc
        have hinv1 : RedistInv x sto1 := by
          constructor
          · intro i s'
            by_cases he : s' = s
            · subst he; exact c2 i
            · rw [c1 i s' he]; exact hinv.1 i s'
          · intro i s' hx0
            by_cases he : s' = s
            · subst he; exact c3 i hx0
            · rw [c1 i s' he]; exact hinv.2 i s' hx0
        obtain ⟨h1, h2, h3⟩ := ih ds1 sto1 out ds' hnd' h (fun u hm => hu u (hrest _ hm)) hinv1
        refine ⟨h1, ?_, ?_⟩
        · intro s' hs'
          rcases List.mem_cons.1 hs' with rfl | hm
          · have e1 : colSum out n s' = colSum sto1 n s' := by
              unfold colSum; exact Finset.sum_congr rfl (fun i _ => h3 s' hs i)
            rw [e1, c4]
            set δ := redistDelta x sto n s' with hδ
            by_cases hpos : δ > 0
            · have : ((δ.natAbs : Nat) : Rat) = (δ : Rat) := by
                have h0 : ((δ.natAbs : Int)) = δ := Int.natAbs_of_nonneg (le_of_lt hpos)
                rw [← Int.cast_natCast, h0]
              simp only [hpos, decide_true, if_true, this]; linarith
            · have hneg : δ < 0 := lt_of_le_of_ne (not_lt.1 hpos) hnz'
              have : ((δ.natAbs : Nat) : Rat) = -(δ : Rat) := by
                have h0 : ((δ.natAbs : Int)) = -δ := by omega
                rw [← Int.cast_natCast, h0]; push_cast; ring
              simp only [hpos, decide_false, this]; simp; linarith
          · exact h2 s' hm
        · intro s' hs' i
          have hne : s' ≠ s := fun he => hs' (by simp [he])
          rw [h3 s' (fun hm => hs' (by simp [hm])) i, c1 i s' hne]

/-- `GenerateStochasticDistribution`, as a whole -/
theorem redist_spec (x : State) (n ns : Nat) (hx : ∀ i s, 0 ≤ x i s) {ds ds' : List Draw} {out : State}
    (h : redist x n ns ds = some (out, ds')) (hu : ∀ u, Draw.unif u ∈ ds → 0 ≤ u) :
    RedistInv x out ∧ ∀ s, s < ns → colSum out n s = (⌊colSum x n s⌋ : Rat) := by
  unfold redist at h
  split at h
  · cases h
  · rename_i sto ds1 h2
    have hinv : RedistInv x sto := by
      have := redistDraw_inv x (fun i s r => IsNNInt r ∧ (x i s = 0 → r = 0))
        (fun i s ds r ds' he => ⟨(redistEntry_spec he).1, fun h0 => (redistEntry_spec he).2 (le_of_eq h0)⟩)
        (cellMajor n ns) ds State.zero sto ds1 (fun i s => ⟨isNNInt_zero, fun _ => rfl⟩) h2
      exact ⟨fun i s => (this i s).1, fun i s => (this i s).2⟩
    have hrest := redistDraw_rest x _ ds State.zero sto ds1 h2
    obtain ⟨h1, h3, _⟩ := redistCorrect_spec x n hx (List.range ns) ds1 sto out ds' List.nodup_range h
      (fun u hm => hu u (hrest _ hm)) hinv
    exact ⟨h1, fun s hs => h3 s (List.mem_range.2 hs)⟩

/-! ### progress of the correction loop (towards termination with probability 1) -/

theorem colList_sum (x : State) (n s : Nat) : ((List.range n).map fun i => x i s).sum = colSum x n s := by
  rw [list_range_map_sum]; rfl

/-- From every state of the correction loop of a species with a positive real-valued total there is an
interval of uniform draws `[lo, hi) ⊆ [0, 1)` of positive length on which the pass succeeds (one molecule
is added / removed and `remaining` decreases).  When removing, this needs a cell that holds a molecule and
has a positive real-valued amount — guaranteed by the invariant `RedistInv` while the column total exceeds
its target. -/
theorem correctSpecies_progress (x : State) (n s : Nat) (rm : Bool) (hx : ∀ i, 0 ≤ x i s)
    (hT : 0 < colSum x n s) (sto : State)
    (hrm : rm = true → ∃ i, i < n ∧ 0 < sto i s ∧ 0 < x i s) :
    ∃ lo hi : Rat, 0 ≤ lo ∧ lo < hi ∧ hi ≤ 1 ∧ ∀ u, lo ≤ u → u < hi → ∀ (ds : List Draw) (k : Nat),
      ∃ sto', correctSpecies x n s (colSum x n s) rm (Draw.unif u :: ds) (k + 1) sto =
        correctSpecies x n s (colSum x n s) rm ds k sto' := by
  set T := colSum x n s with hTdef
  set ws := (List.range n).map fun i => x i s with hws
  have hwnn : ∀ w ∈ ws, 0 ≤ w := by
    intro w hw; simp only [hws, List.mem_map] at hw; obtain ⟨i, _, rfl⟩ := hw; exact hx i
  have hsum : ws.sum = T := colList_sum x n s
  have hlen : ws.length = n := by simp [hws]
  cases rm with
  | false =>
    refine ⟨0, 1, le_refl _, by norm_num, le_refl _, ?_⟩
    intro u hu0 hu1 ds k
    have htgt : u * T < 0 + ws.sum := by rw [hsum]; nlinarith
    have hsome := scanIdx_isSome (ws := ws) (r := u * T) (cum := 0) (by positivity) htgt
    obtain ⟨j, hj⟩ := Option.isSome_iff_exists.1 hsome
    have hjlt : j < n := by rw [← hlen]; exact (scanIdx_some hj).1
    have hhit : hitCell x s (u * T) (List.range n) 0 = some j := by
      rw [hitCell_eq_scan, hj]; simp [hjlt]
    refine ⟨sto.update j s (sto j s + 1), ?_⟩
    simp only [correctSpecies, hhit]; simp
  | true =>
    obtain ⟨i0, hi0, hsto, hxpos⟩ := hrm rfl
    have hi0' : i0 < ws.length := by rw [hlen]; exact hi0
    have hget : ws[i0] = x i0 s := by simp [hws]
    have hp0 := prefixSum_nonneg hwnn i0
    have hp1 : prefixSum ws (i0 + 1) = prefixSum ws i0 + x i0 s := by
      rw [prefixSum_succ_of_lt ws i0 hi0', hget]
    have hp2 : prefixSum ws (i0 + 1) ≤ T := by rw [← hsum]; exact prefixSum_le_sum hwnn _
    refine ⟨prefixSum ws i0 / T, prefixSum ws (i0 + 1) / T, div_nonneg hp0 (le_of_lt hT), ?_, ?_, ?_⟩
    · apply div_lt_div_of_pos_right _ hT; rw [hp1]; linarith
    · rw [div_le_one hT]; exact hp2
    · intro u hlo hhi ds k
      have h1 : 0 + prefixSum ws i0 ≤ u * T := by
        have := (div_le_iff₀ hT).1 hlo; linarith
      have h2 : u * T < 0 + prefixSum ws (i0 + 1) := by
        have := (lt_div_iff₀ hT).1 hhi; linarith
      have hscan := scanIdx_of_interval hwnn hi0' h1 h2
      have hhit : hitCell x s (u * T) (List.range n) 0 = some i0 := by
        rw [hitCell_eq_scan, hscan]; simp [hi0]
      refine ⟨sto.update i0 s (sto i0 s - 1), ?_⟩
      simp only [correctSpecies, hhit]; simp [hsto]

/-! ### Poisson mode -/

theorem poissonEntry_spec {v : Rat} {ds ds' : List Draw} {r : Rat} (h : poissonEntry v ds = some (r, ds')) :
    (0 < v → ∃ k : Nat, ds = Draw.pois k :: ds' ∧ r = (k : Rat)) ∧ (v ≤ 0 → r = 0 ∧ ds' = ds) := by
  unfold poissonEntry at h
  split at h
  · rename_i hpos
    split at h
    · cases h; exact ⟨fun _ => ⟨_, rfl, rfl⟩, fun hv => absurd hpos (not_lt.2 hv)⟩
    · cases h
  · rename_i hnp
    cases h; exact ⟨fun hp => absurd hp hnp, fun _ => ⟨rfl, rfl⟩⟩

/-- entries outside the visited positions keep the accumulator's value -/
theorem poissonMode_outside (x : State) :
    ∀ (l : List (Nat × Nat)) (ds : List Draw) (acc out : State) (ds' : List Draw),
      poissonMode x l ds acc = some (out, ds') → ∀ i s, (i, s) ∉ l → out i s = acc i s := by
  intro l
  induction l with
  | nil => intro ds acc out ds' h i s _; simp only [poissonMode] at h; cases h; rfl
  | cons p rest ih =>
    intro ds acc out ds' h i s hni
    obtain ⟨i0, s0⟩ := p
    simp only [poissonMode] at h
    split at h
    · cases h
    · rename_i v ds1 he
      have hne : ¬ (i = i0 ∧ s = s0) := fun hc => hni (by simp [hc.1, hc.2])
      rw [ih ds1 _ out ds' h i s (fun hm => hni (by simp [hm])), State.update_get, if_neg hne]

/-- positions with a positive amount, in visiting order -/
def positivePositions (x : State) (l : List (Nat × Nat)) : List (Nat × Nat) := l.filter fun p => decide (x p.1 p.2 > 0)

/-- Poisson mode, layout: the positive entries, in the order the loop visits them, receive the Poisson
draws in the order they are drawn (so the k-th draw, whose mean is the k-th positive amount, is stored at
that very entry); all other visited entries are 0; only Poisson draws are consumed. -/
theorem poissonMode_layout (x : State) :
    ∀ (l : List (Nat × Nat)) (ds : List Draw) (acc out : State) (ds' : List Draw), l.Nodup →
      poissonMode x l ds acc = some (out, ds') →
      ∃ ks : List Nat, ds = ks.map Draw.pois ++ ds' ∧
        (positivePositions x l).map (fun p => out p.1 p.2) = ks.map (fun k => (k : Rat)) ∧
        ∀ p ∈ l, x p.1 p.2 ≤ 0 → out p.1 p.2 = 0 := by
  intro l
  induction l with
  | nil =>
    intro ds acc out ds' _ h; simp only [poissonMode] at h; cases h
    exact ⟨[], by simp, by simp [positivePositions], by simp⟩
  | cons p rest ih =>
    intro ds acc out ds' hnd h
    obtain ⟨i0, s0⟩ := p
    have hnd' : rest.Nodup := (List.nodup_cons.1 hnd).2
    have hni : (i0, s0) ∉ rest := (List.nodup_cons.1 hnd).1
    simp only [poissonMode] at h
    split at h
    · cases h
    · rename_i v ds1 he
      obtain ⟨ks, hks, hpos, hzero⟩ := ih ds1 _ out ds' hnd' h
      have hout : out i0 s0 = v := by
        rw [poissonMode_outside x rest ds1 _ out ds' h i0 s0 hni]; simp
      obtain ⟨hp, hz⟩ := poissonEntry_spec he
      by_cases hv : 0 < x i0 s0
      · obtain ⟨k, hk1, hk2⟩ := hp hv
        refine ⟨k :: ks, by simp [hk1, hks], ?_, ?_⟩
        · simp only [positivePositions, List.filter_cons, gt_iff_lt, hv, decide_true, if_true, List.map_cons]
          rw [hout, hk2]; congr 1
        · intro q hq hxq
          rcases List.mem_cons.1 hq with rfl | hm
          · exact absurd hv (not_lt.2 hxq)
          · exact hzero q hm hxq
      · obtain ⟨hr, hd⟩ := hz (not_lt.1 hv)
        refine ⟨ks, by rw [← hd, hks], ?_, ?_⟩
        · simp only [positivePositions, List.filter_cons, gt_iff_lt, hv, decide_false]
          simpa [positivePositions] using hpos
        · intro q hq hxq
          rcases List.mem_cons.1 hq with rfl | hm
          · rw [hout, hr]
          · exact hzero q hm hxq

theorem speciesMajor_nodup (n ns : Nat) : (speciesMajor n ns).Nodup := by
  unfold speciesMajor
  rw [List.nodup_flatMap]
  constructor
  · intro s _
    exact List.Nodup.map (fun a b h => by simpa using h) List.nodup_range
  · refine List.Pairwise.imp ?_ (List.nodup_range (n := ns))
    intro a b hab
    simp only [Function.onFun, List.disjoint_left, List.mem_map, List.mem_range]
    rintro p ⟨i, _, rfl⟩ ⟨j, _, hj⟩
    exact hab (by simpa using (Prod.ext_iff.1 hj).2.symm)

theorem mem_speciesMajor {n ns i s : Nat} : (i, s) ∈ speciesMajor n ns ↔ i < n ∧ s < ns := by
  simp [speciesMajor, and_comm]

theorem mem_cellMajor {n ns i s : Nat} : (i, s) ∈ cellMajor n ns ↔ i < n ∧ s < ns := by
  simp [cellMajor]

end Strengths
