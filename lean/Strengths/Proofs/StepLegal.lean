/-
Legality of a Gillespie step and preservation of "non-negative integer state" (C07).
-/
import Strengths.Proofs.Gillespie

namespace Strengths

/-- validity of the marshalled engine input (what `LibRDEngine` produces from a valid `RDSystem`):
non-negative rate constants, positive volumes, non-negative diffusion constants, and `sto = products − sub`
with non-negative product coefficients -/
structure EngValid (e : EngIn) : Prop where
  k_nonneg : ∀ env r, 0 ≤ e.net.k env r
  vol_pos : ∀ i, 0 < e.vol i
  kout_nonneg : ∀ i s n, 0 ≤ e.topo.kout i s n
  sto_ge : ∀ s r, -(e.net.sub s r : Int) ≤ e.net.sto s r
  /-- the tables have `nSpecies` rows (reads beyond are artefacts of the totalised accessors) -/
  sto_out : ∀ s r, e.net.nSpecies ≤ s → e.net.sto s r = 0
  nbr_lt : ∀ i n j, e.topo.nbr i n = some j → j < e.topo.nCells

/-- every species amount of every cell is a non-negative integer -/
def NonNegInt (x : State) : Prop := ∀ i s, IsNNInt (x i s)

/-- an event that is possible in state `x` (the property's own wording) -/
def Legal (e : EngIn) (x : State) : Event → Prop
  | .reaction i r =>
    i < e.topo.nCells ∧ r < e.net.nReact ∧ 0 < e.net.k (e.env i) r ∧ Enough e x i r
  | .diffusion i s n =>
    i < e.topo.nCells ∧ s < e.net.nSpecies ∧ n < e.topo.nSlots i ∧
      ∃ j, e.topo.nbr i n = some j ∧ 0 < x i s ∧ 0 < e.topo.kout i s n

theorem propsNonneg_of_valid {e : EngIn} {x : State} (hv : EngValid e) (hx : ∀ i s, 0 ≤ x i s) : PropsNonneg e x := by
  intro c
  cases c with
  | reaction i r => exact reactionProp_nonneg (hv.k_nonneg _ _) (hv.vol_pos _)
  | diffusion i s n =>
    simp only [propOf, diffPropSlot, diffusionProp]
    split
    · exact mul_nonneg (hx i s) (hv.kout_nonneg i s n)
    · exact le_refl _

theorem mem_channels {e : EngIn} {cells : List Nat} {c : Event} (h : c ∈ channels e cells) :
    match c with
    | .reaction i r => i ∈ cells ∧ r < e.net.nReact
    | .diffusion i s n => i ∈ cells ∧ s < e.net.nSpecies ∧ n < e.topo.nSlots i := by
  simp only [channels, List.mem_flatMap, cellChannels, List.mem_append, List.mem_map, List.mem_range, speciesSlots] at h
  obtain ⟨i, hi, h⟩ := h
  rcases h with ⟨r, hr, rfl⟩ | ⟨p, ⟨s, hs, n, hn, rfl⟩, rfl⟩
  · exact ⟨hi, hr⟩
  · exact ⟨hi, hs, hn⟩

/-- a channel with positive propensity is a legal event (and conversely has positive propensity only then) -/
theorem legal_of_prop_pos {e : EngIn} {x : State} (hv : EngValid e) {c : Event}
    (hc : c ∈ channels e (List.range e.topo.nCells)) (hp : 0 < propOf e x c) : Legal e x c := by
  have hm := mem_channels hc
  cases c with
  | reaction i r =>
    obtain ⟨hi, hr⟩ := hm
    have := (reactionProp_pos_iff (x := x) (hv.k_nonneg (e.env i) r) (hv.vol_pos i)).1 hp
    exact ⟨List.mem_range.1 hi, hr, this.1, this.2⟩
  | diffusion i s n =>
    obtain ⟨hi, hs, hn⟩ := hm
    simp only [propOf, diffPropSlot, diffusionProp] at hp
    split at hp
    · rename_i hsome
      obtain ⟨j, hj⟩ := Option.isSome_iff_exists.1 hsome
      have hk := hv.kout_nonneg i s n
      refine ⟨List.mem_range.1 hi, hs, hn, j, hj, ?_, ?_⟩
      · by_contra hx
        have : x i s * e.topo.kout i s n ≤ 0 := mul_nonpos_of_nonpos_of_nonneg (not_lt.1 hx) hk
        linarith
      · rcases lt_or_eq_of_le hk with h | h
        · exact h
        · rw [← h] at hp; simp at hp
    · exact absurd hp (lt_irrefl _)

theorem NonNegInt.nonneg {x : State} (h : NonNegInt x) : ∀ i s, 0 ≤ x i s := fun i s => (h i s).nonneg

/-- effect of a reaction event: the net stoichiometry is added in that one cell, except on chemostated entries -/
theorem applyEvent_reaction (e : EngIn) (x : State) (i r i' s : Nat) :
    (applyEvent e x (.reaction i r)) i' s =
      x i' s + (if i' = i ∧ e.chem i s = false then (e.net.sto s r : Rat) else 0) := by
  simp only [applyEvent]
  by_cases h1 : i' = i
  · subst h1
    cases e.chem i' s <;> simp
  · simp [h1]

/-- effect of a diffusion event: one molecule leaves cell `i` and enters the neighbour `j` (each side unless
chemostated) -/
theorem applyEvent_diffusion (e : EngIn) (x : State) {i s n j : Nat} (hj : e.topo.nbr i n = some j) (i' s' : Nat) :
    (applyEvent e x (.diffusion i s n)) i' s' =
      x i' s' - (if i' = i ∧ s' = s ∧ e.chem i s = false then 1 else 0)
              + (if i' = j ∧ s' = s ∧ e.chem j s = false then 1 else 0) := by
  simp only [applyEvent, hj]
  cases hci : e.chem i s <;> cases hcj : e.chem j s <;>
    simp only [State.update_get, if_true, if_false, Bool.false_eq_true] <;>
    by_cases h1 : i' = i <;> by_cases h2 : s' = s <;> by_cases h3 : i' = j <;> simp [h1, h2, h3] <;>
    (try subst h1) <;> (try subst h2) <;> (try subst h3) <;> simp_all

/-- a legal event keeps the state a non-negative integer state -/
theorem nonNegInt_applyEvent {e : EngIn} {x : State} (hv : EngValid e) (hx : NonNegInt x) {c : Event}
    (hl : Legal e x c) : NonNegInt (applyEvent e x c) := by
  intro i' s'
  cases c with
  | reaction i r =>
    obtain ⟨_, _, _, hE⟩ := hl
    rw [applyEvent_reaction]
    split
    · rename_i hc
      obtain ⟨rfl, _⟩ := hc
      by_cases hs' : s' < e.net.nSpecies
      · obtain ⟨N, hN⟩ := hx i' s'
        have hsub : (e.net.sub s' r : Rat) ≤ (N : Rat) := hN ▸ hE s' hs'
        have hsub' : e.net.sub s' r ≤ N := by exact_mod_cast hsub
        have hge := hv.sto_ge s' r
        refine ⟨((N : Int) + e.net.sto s' r).toNat, ?_⟩
        rw [hN]
        have h0 : 0 ≤ (N : Int) + e.net.sto s' r := by omega
        have : (((N : Int) + e.net.sto s' r).toNat : Int) = (N : Int) + e.net.sto s' r := Int.toNat_of_nonneg h0
        rw [← Int.cast_natCast (R := Rat) (((N : Int) + e.net.sto s' r).toNat), this]; push_cast; ring
      · rw [hv.sto_out s' r (not_lt.1 hs')]; simpa using hx i' s'
    · simpa using hx i' s'
  | diffusion i s n =>
    obtain ⟨_, hs, _, j, hj, hpos, _⟩ := hl
    rw [applyEvent_diffusion e x hj]
    have hbase := hx i' s'
    by_cases h1 : i' = i ∧ s' = s ∧ e.chem i s = false
    · obtain ⟨rfl, rfl, _⟩ := h1
      have hm : IsNNInt (x i' s' - 1) := hbase.sub_one hpos
      by_cases h2 : i' = j ∧ s' = s' ∧ e.chem j s' = false
      · rw [if_pos ⟨rfl, rfl, ‹_›⟩, if_pos h2]; exact hm.add_one
      · rw [if_pos ⟨rfl, rfl, ‹_›⟩, if_neg h2]; simpa using hm
    · rw [if_neg h1]
      by_cases h2 : i' = j ∧ s' = s ∧ e.chem j s = false
      · rw [if_pos h2]; simpa using hbase.add_one
      · rw [if_neg h2]; simpa using hbase

/-- `gillespie_step_legal`: from a non-negative integer state with `a0 > 0`, and a uniform draw
`u1 ∈ [0,1)`, one `Iterate` applies exactly one event; that event is a channel of the engine with positive
propensity, hence legal; the waiting time is `L/a0`. -/
theorem gillespieStep_legal {e : EngIn} {x : State} (hv : EngValid e) (hx : ∀ i s, 0 ≤ x i s)
    {u1 L : Rat} (hu0 : 0 ≤ u1) (hu1 : u1 < 1) (ha : 0 < a0 e x) :
    ∃ c, gillespieStep e x u1 L = some ⟨applyEvent e x c, L / a0 e x, some c⟩ ∧
      c ∈ channels e (List.range e.topo.nCells) ∧ 0 < propOf e x c ∧ Legal e x c := by
  have hnn := propsNonneg_of_valid hv hx
  have hr0 : 0 ≤ u1 * a0 e x := mul_nonneg hu0 (le_of_lt ha)
  have hr1 : u1 * a0 e x < a0 e x := by nlinarith
  obtain ⟨k, hk, hsel, _, _, hpos⟩ := selectEvent_spec e x hnn hr0 hr1
  set c := (channels e (List.range e.topo.nCells))[k] with hc
  have hmem : c ∈ channels e (List.range e.topo.nCells) := List.getElem_mem hk
  refine ⟨c, ?_, hmem, hpos, legal_of_prop_pos hv hmem hpos⟩
  have hne : (a0 e x == 0) = false := by simpa using ne_of_gt ha
  simp only [gillespieStep, hne, hsel]
  rfl

/-- the simulation stops (without drawing) exactly when no event is possible -/
theorem gillespieStep_none_iff (e : EngIn) (x : State) (u1 L : Rat) :
    gillespieStep e x u1 L = none ↔ a0 e x = 0 := by
  simp only [gillespieStep]
  by_cases h : a0 e x = 0
  · simp [h]
  · have : (a0 e x == 0) = false := by simpa using h
    simp [this, h]

end Strengths
