/-
Helper lemmas for C01 / C04: folds as sums and products, the mass-action algebra, table look-ups.
-/
import Mathlib.Algebra.Field.Rat
import Mathlib.Algebra.GroupWithZero.Basic
import Mathlib.Algebra.Order.Field.Basic
import Mathlib.Algebra.Order.Field.Rat
import Mathlib.Tactic.FieldSimp
import Mathlib.Tactic.NormNum
import Mathlib.Tactic.Ring
import Strengths.Model.Kinetics
import Strengths.Spec.Rate

namespace Strengths
open Spec

/-! ### folds -/

theorem foldl_add_sumL {α : Type} (f : α → Rat) (l : List α) (c : Rat) :
    l.foldl (fun acc a => acc + f a) c = c + sumL (l.map f) := by
  induction l generalizing c with
  | nil => simp [sumL]
  | cons a as ih =>
    simp only [List.foldl_cons, List.map_cons]
    rw [ih]
    simp only [sumL, List.foldr_cons]
    ring

theorem foldl_sub_sumL {α : Type} (f : α → Rat) (l : List α) (c : Rat) :
    l.foldl (fun acc a => acc - f a) c = c - sumL (l.map f) := by
  induction l generalizing c with
  | nil => simp [sumL]
  | cons a as ih =>
    simp only [List.foldl_cons, List.map_cons]
    rw [ih]
    simp only [sumL, List.foldr_cons]
    ring

theorem foldl_mul_prodL {α : Type} (f : α → Rat) (l : List α) (c : Rat) :
    l.foldl (fun acc a => acc * f a) c = c * prodL (l.map f) := by
  induction l generalizing c with
  | nil => simp [prodL]
  | cons a as ih =>
    simp only [List.foldl_cons, List.map_cons]
    rw [ih]
    simp only [prodL, List.foldr_cons]
    ring

theorem sumL_append (a b : List Rat) : sumL (a ++ b) = sumL a + sumL b := by
  induction a with
  | nil => simp [sumL]
  | cons x xs ih =>
    simp only [sumL, List.cons_append, List.foldr_cons] at *
    rw [ih]; ring

theorem sumL_map_neg {α : Type} (f : α → Rat) (l : List α) : sumL (l.map fun a => -f a) = -sumL (l.map f) := by
  induction l with
  | nil => simp [sumL]
  | cons a as ih =>
    simp only [sumL, List.map_cons, List.foldr_cons] at *
    rw [ih]; ring

theorem sumL_congr {α : Type} (f g : α → Rat) (l : List α) (h : ∀ a ∈ l, f a = g a) :
    sumL (l.map f) = sumL (l.map g) := by
  congr 1
  exact List.map_congr_left h

/-- a sum over `2R` split reactions is the sum over the `R` reactions of forward + reverse terms -/
theorem sumL_range_double (f : Nat → Rat) (R : Nat) :
    sumL ((List.range (2 * R)).map f) = sumL ((List.range R).map fun r => f (2 * r) + f (2 * r + 1)) := by
  induction R with
  | zero => simp [sumL]
  | succ R ih =>
    have h2 : 2 * (R + 1) = 2 * R + 1 + 1 := by ring
    rw [h2, List.range_succ, List.range_succ, List.map_append, List.map_append, sumL_append, sumL_append, ih,
      List.range_succ, List.map_append, sumL_append]
    simp [sumL]
    ring

/-- folding over the indices of a list with optional look-ups is folding over the list -/
theorem foldl_range_getElem? {α β : Type} (l : List α) (g : β → Option α → β) (h : β → α → β) (c : β)
    (hs : ∀ b a, g b (some a) = h b a) :
    (List.range l.length).foldl (fun acc n => g acc l[n]?) c = l.foldl h c := by
  have hmap : (List.range l.length).map (fun n => l[n]?) = l.map some := by
    apply List.ext_getElem?
    intro k
    simp only [List.getElem?_map, List.getElem?_range]
    by_cases hk : k < l.length
    · simp [hk]
    · simp [hk, List.getElem?_eq_none (Nat.le_of_not_lt hk)]
  have h1 : (List.range l.length).foldl (fun acc n => g acc l[n]?) c
      = ((List.range l.length).map (fun n => l[n]?)).foldl g c := by
    rw [List.foldl_map]
  rw [h1, hmap, List.foldl_map]
  congr 1
  funext b a
  exact hs b a

/-! ### mass action -/

theorem prodL_div_pow (n : Nat) (x : Nat → Rat) (ν : Nat → Nat) (V : Rat) (hV : V ≠ 0) :
    prodL ((List.range n).map fun s => (x s / V) ^ ν s)
      = prodL ((List.range n).map fun s => x s ^ ν s) / V ^ ((List.range n).map ν).sum := by
  induction n with
  | zero => simp [prodL]
  | succ n ih =>
    rw [List.range_succ, List.map_append, List.map_append, List.map_append]
    have happ : ∀ a b : List Rat, prodL (a ++ b) = prodL a * prodL b := by
      intro a b
      induction a with
      | nil => simp [prodL]
      | cons y ys ihy =>
        simp only [prodL, List.cons_append, List.foldr_cons] at *
        rw [ihy]; ring
    rw [happ, happ, ih, List.sum_append]
    simp only [List.map_cons, List.map_nil, prodL, List.foldr_cons, List.foldr_nil, mul_one, List.sum_cons, List.sum_nil,
      add_zero]
    rw [pow_add, div_pow]
    field_simp

/-- engine form `k·V^(1−q)·Π x^ν` = statement form `k·V·Π (x/V)^ν`, `q = Σ ν` -/
theorem massAction_forms (n : Nat) (x : Nat → Rat) (ν : Nat → Nat) (k V : Rat) (hV : V ≠ 0) :
    (List.range n).foldl (fun acc s => acc * x s ^ ν s) (k * V ^ ((1 : Int) - (((List.range n).map ν).sum : Nat)))
      = k * V * prodL ((List.range n).map fun s => (x s / V) ^ ν s) := by
  rw [foldl_mul_prodL, prodL_div_pow n x ν V hV, zpow_sub₀ hV, zpow_one, zpow_natCast]
  field_simp

/-! ### the engine input that a physical system is marshalled to (tables as functions) -/

/-- reaction `r` of the system becomes the two irreversible reactions `2r` (forward) and `2r+1` (reverse) -/
def netOfPhys (P : Phys) (nEnv : Nat) : Net where
  nSpecies := P.nSpecies
  nReact := 2 * P.nReacs
  nEnv := nEnv
  k := fun e r => if r % 2 = 0 then (P.reac (r / 2)).kf e else (P.reac (r / 2)).kr e
  sub := fun s r => if r % 2 = 0 then (P.reac (r / 2)).sub s else (P.reac (r / 2)).prod s
  sto := fun s r =>
    if r % 2 = 0 then ((P.reac (r / 2)).prod s : Int) - ((P.reac (r / 2)).sub s : Int)
    else ((P.reac (r / 2)).sub s : Int) - ((P.reac (r / 2)).prod s : Int)
  dcoef := P.dcoef

def engOfPhysGraph (P : Phys) (nEnv : Nat) (edges : List GEdge) (chem : Nat → Nat → Bool) : EngIn where
  net := netOfPhys P nEnv
  topo := graphTopo P.nCells edges (netOfPhys P nEnv) P.env P.vol P.edge
  env := P.env
  chem := chem
  vol := P.vol

def engOfPhysGrid (P : Phys) (nEnv : Nat) (g : GridShape) (h : Rat) (chem : Nat → Nat → Bool) : EngIn where
  net := netOfPhys P nEnv
  topo := gridTopo g (netOfPhys P nEnv) P.env h
  env := P.env
  chem := chem
  vol := P.vol

/-- the reaction sum of `Compute_dxdt` is the reaction part of the rate law -/
theorem reaction_sum_eq (P : Phys) (nEnv : Nat) (topo : Topo) (chem : Nat → Nat → Bool) (x : State) (i s : Nat)
    (hV : P.vol i ≠ 0) :
    let e : EngIn := { net := netOfPhys P nEnv, topo := topo, env := P.env, chem := chem, vol := P.vol }
    (List.range e.net.nReact).foldl (fun acc r => acc + (e.net.sto s r : Rat) * reactionRate e x i r) 0
      = reactionPart P x.get s i := by
  intro e
  rw [foldl_add_sumL, zero_add]
  show sumL ((List.range (2 * P.nReacs)).map _) = _
  rw [sumL_range_double]
  unfold reactionPart
  apply sumL_congr
  intro r _
  have hev : (2 * r) % 2 = 0 := by omega
  have hod : (2 * r + 1) % 2 = 1 := by omega
  have hd0 : (2 * r) / 2 = r := by omega
  have hd1 : (2 * r + 1) / 2 = r := by omega
  have hrate : ∀ (k : Rat) (ν : Nat → Nat),
      (List.range P.nSpecies).foldl (fun acc s' => acc * x.get i s' ^ ν s')
          (k * P.vol i ^ ((1 : Int) - (((List.range P.nSpecies).map ν).sum : Nat)))
        = massAction P x.get i k ν := by
    intro k ν
    rw [massAction_forms P.nSpecies (fun s' => x.get i s') ν k (P.vol i) hV]
    rfl
  have hf : reactionRate e x i (2 * r) = massAction P x.get i ((P.reac r).kf (P.env i)) (P.reac r).sub := by
    rw [← hrate]
    simp only [reactionRate, meshKr, Net.order, e, netOfPhys, hev, hd0, if_true]
  have hr : reactionRate e x i (2 * r + 1) = massAction P x.get i ((P.reac r).kr (P.env i)) (P.reac r).prod := by
    rw [← hrate]
    simp only [reactionRate, meshKr, Net.order, e, netOfPhys, hod, hd1]
    rfl
  rw [hf, hr]
  simp only [e, netOfPhys, hev, hod, hd0, hd1, if_true]
  norm_num

theorem interfaceD_eq_dbar (hi hj Di Dj : Rat) : interfaceD hi hj Di Dj = dbar hi hj Di Dj := by
  unfold interfaceD dbar
  by_cases h1 : Di = 0
  · simp [h1]
  · by_cases h2 : Dj = 0
    · simp [h2]
    · simp [h1, h2]

/-- spec face of a half-edge slot -/
def faceOfSlot (t : Nat × Rat × Rat) : Face := ⟨t.1, t.2.1, t.2.2⟩

/-- the diffusion loop of `Compute_dxdt` on a graph is the diffusion part of the rate law -/
theorem diffusion_graph_eq (P : Phys) (nEnv : Nat) (edges : List GEdge) (chem : Nat → Nat → Bool) (x : State)
    (i s : Nat) (c : Rat) (hfaces : P.faces i = (graphSlots edges i).map faceOfSlot) :
    let e := engOfPhysGraph P nEnv edges chem
    (List.range (e.topo.nSlots i)).foldl
        (fun acc n => if (e.topo.nbr i n).isSome then acc - diffusionRateDifference e x i s n else acc) c
      = c + diffusionPart P x.get s i := by
  intro e
  let term : Nat × Rat × Rat → Rat := fun t =>
    x.get i s * (interfaceD (P.edge i) (P.edge t.1) (P.dcoef s (P.env i)) (P.dcoef s (P.env t.1)) * t.2.1 / (P.vol i * t.2.2))
      - x.get t.1 s * (interfaceD (P.edge i) (P.edge t.1) (P.dcoef s (P.env i)) (P.dcoef s (P.env t.1)) * t.2.1 / (P.vol t.1 * t.2.2))
  let G : Rat → Option (Nat × Rat × Rat) → Rat := fun acc o =>
    match o with
    | none => acc
    | some t => acc - term t
  have hbody : ∀ acc n, (if (e.topo.nbr i n).isSome then acc - diffusionRateDifference e x i s n else acc)
      = G acc (graphSlots edges i)[n]? := by
    intro acc n
    simp only [e, engOfPhysGraph, graphTopo, diffusionRateDifference, G, term]
    cases hget : (graphSlots edges i)[n]? with
    | none => simp
    | some t =>
      obtain ⟨j, sfc, dst⟩ := t
      simp [netOfPhys]
  have hlen : e.topo.nSlots i = (graphSlots edges i).length := rfl
  rw [hlen]
  have hfun : (fun acc n => if (e.topo.nbr i n).isSome then acc - diffusionRateDifference e x i s n else acc)
      = fun acc n => G acc (graphSlots edges i)[n]? := by
    funext acc n
    exact hbody acc n
  rw [hfun, foldl_range_getElem? (graphSlots edges i) G (fun acc t => acc - term t) c (fun _ _ => rfl),
    foldl_sub_sumL]
  unfold diffusionPart
  rw [hfaces, List.map_map, sub_eq_add_neg, ← sumL_map_neg]
  congr 1
  apply sumL_congr
  intro t _
  simp only [term, Function.comp, faceOfSlot, conc, interfaceD_eq_dbar]
  ring

theorem foldl_filterMap' {α β γ : Type} (f : α → Option β) (h : γ → β → γ) (l : List α) (c : γ) :
    (l.filterMap f).foldl h c = l.foldl (fun acc a => (f a).elim acc (h acc)) c := by
  induction l generalizing c with
  | nil => rfl
  | cons a as ih =>
    simp only [List.filterMap_cons, List.foldl_cons]
    cases hf : f a with
    | none => simp only [ih, Option.elim]
    | some b => simp only [List.foldl_cons, ih, Option.elim]

/-- what the engine's neighbour table must satisfy at cell `i` (proved for every grid by the geometry lemmas of C15;
decidable for a concrete grid): the six slots list the six-neighbourhood of the Spec in the same order, and the way
back from a neighbour is the opposed direction -/
def EngGridOKAt (g : GridShape) (i : Nat) : Prop :=
  (List.range 6).filterMap (engNbr? g i) = gridNbrs g.w g.h g.d g.px g.py g.pz i ∧
  ∀ n j, n < 6 → engNbr? g i n = some j → engNbr? g j (oppOf n) = some i


section Grid
attribute [local irreducible] engNbr?

theorem drd_some (e : EngIn) (x : State) (i s n j : Nat) (h : e.topo.nbr i n = some j) :
    diffusionRateDifference e x i s n = x.get i s * e.topo.kout i s n - x.get j s * e.topo.kin i s n := by
  unfold diffusionRateDifference
  rw [h]
theorem gridKd_some (g : GridShape) (net : Net) (env : Nat → Nat) (h : Rat) (i s n j : Nat) (hj : engNbr? g i n = some j) :
    gridKd g net env h i s n =
      (if net.dcoef s (env i) != 0 && net.dcoef s (env j) != 0 then (2 * h) / (h / net.dcoef s (env i) + h / net.dcoef s (env j)) else 0) / (h * h) := by
  unfold gridKd
  rw [hj]
theorem gridTopo_nbr (g : GridShape) (net : Net) (env : Nat → Nat) (h : Rat) (i n : Nat) :
    (gridTopo g net env h).nbr i n = engNbr? g i n := rfl
theorem gridTopo_kout (g : GridShape) (net : Net) (env : Nat → Nat) (h : Rat) (i s n : Nat) :
    (gridTopo g net env h).kout i s n = gridKd g net env h i s n := rfl
theorem gridTopo_kin_some (g : GridShape) (net : Net) (env : Nat → Nat) (h : Rat) (i s n j : Nat) (hj : engNbr? g i n = some j) :
    (gridTopo g net env h).kin i s n = gridKd g net env h j s (oppOf n) := by
  show (match engNbr? g i n with | none => 0 | some j => gridKd g net env h j s (oppOf n)) = _
  rw [hj]


/-- the diffusion loop of `Compute_dxdt` on a grid is the diffusion part of the rate law -/
theorem diffusion_grid_eq (P : Phys) (nEnv : Nat) (g : GridShape) (h : Rat) (chem : Nat → Nat → Bool) (x : State)
    (i s : Nat) (c : Rat) (hh : h ≠ 0) (hvol : ∀ j, P.vol j = h ^ 3) (hedge : ∀ j, P.edge j = h)
    (hfaces : P.faces i = gridFaces g.w g.h g.d g.px g.py g.pz h i) (hok : EngGridOKAt g i) :
    let e := engOfPhysGrid P nEnv g h chem
    (List.range (e.topo.nSlots i)).foldl
        (fun acc n => if (e.topo.nbr i n).isSome then acc - diffusionRateDifference e x i s n else acc) c
      = c + diffusionPart P x.get s i := by
  intro e
  obtain ⟨hnb, hinv⟩ := hok
  let Dm : Nat → Nat → Rat := fun a b =>
    (if P.dcoef s (P.env a) != 0 && P.dcoef s (P.env b) != 0 then (2 * h) / (h / P.dcoef s (P.env a) + h / P.dcoef s (P.env b)) else 0) / (h * h)
  let term : Nat → Rat := fun j => x.get i s * Dm i j - x.get j s * Dm j i
  have hbody : ∀ acc n, n ∈ List.range 6 →
      (if (e.topo.nbr i n).isSome then acc - diffusionRateDifference e x i s n else acc)
        = (engNbr? g i n).elim acc (fun j => acc - term j) := by
    intro acc n hn
    have hn6 : n < 6 := List.mem_range.mp hn
    have hnn : e.topo.nbr i n = engNbr? g i n := rfl
    cases hget : engNbr? g i n with
    | none =>
      rw [hnn, hget]
      rfl
    | some j =>
      have hback := hinv n j hn6 hget
      rw [drd_some _ x i s n j (hnn.trans hget), hnn, hget]
      show acc - (x.get i s * (gridTopo g (netOfPhys P nEnv) P.env h).kout i s n
        - x.get j s * (gridTopo g (netOfPhys P nEnv) P.env h).kin i s n) = _
      rw [gridTopo_kout, gridTopo_kin_some g _ _ h i s n j hget, gridKd_some g _ _ h i s n j hget,
        gridKd_some g _ _ h j s (oppOf n) i hback]
      rfl
  have hlen : e.topo.nSlots i = 6 := rfl
  rw [hlen]
  have hfold : (List.range 6).foldl
        (fun acc n => if (e.topo.nbr i n).isSome then acc - diffusionRateDifference e x i s n else acc) c
      = (List.range 6).foldl (fun acc n => (engNbr? g i n).elim acc (fun j => acc - term j)) c := by
    apply List.foldl_ext
    intro acc n hn
    exact hbody acc n hn
  rw [hfold, ← foldl_filterMap' (engNbr? g i) (fun acc j => acc - term j), hnb, foldl_sub_sumL]
  unfold diffusionPart
  rw [hfaces]
  unfold gridFaces
  rw [List.map_map, sub_eq_add_neg, ← sumL_map_neg]
  congr 1
  apply sumL_congr
  intro j _
  simp only [term, Dm, Function.comp, conc, hvol, hedge, dbar]
  by_cases h1 : P.dcoef s (P.env i) = 0
  · simp [h1]
  · by_cases h2 : P.dcoef s (P.env j) = 0
    · simp [h2]
    · have b1 : (P.dcoef s (P.env i) != 0) = true := by simpa using h1
      have b2 : (P.dcoef s (P.env j) != 0) = true := by simpa using h2
      simp only [h1, h2, b1, b2, Bool.and_self, if_true, or_self, if_false]
      have hden : h / P.dcoef s (P.env j) + h / P.dcoef s (P.env i) = h / P.dcoef s (P.env i) + h / P.dcoef s (P.env j) := by ring
      rw [hden]
      field_simp
      ring

end Grid

end Strengths
