/-
Refinement, step theorems on the algorithm object: one `Iterate()` of the checked engine from a valid object that
refines a core input `e` produces the state the core model produces, and the object still refines `e`.
-/
import Strengths.Proofs.RefineGraph

namespace Strengths

/-- what `finishStep` (the tail of `Iterate`: `t += dt; SamplingStep(); CheckTMax()`) leaves of the object -/
theorem finishStep_fields (S : CSim) (h : SimOK S) (x : Vec Rat) (hx : x.size = S.T.n * S.T.ns) (dt : Rat) (sc : Scratch)
    (hsc : ∃ slots nb, LayoutOK S.T S.L slots nb ∧ ScratchOK S.T S.L slots sc) (u : Nat) :
    Ok (S.finishStep x dt sc u) (fun r => SimOK r.1 ∧ r.1.x = x ∧ r.1.T = S.T ∧ r.1.L = S.L ∧ r.1.dt = dt ∧
      r.1.scratch = sc ∧ r.1.ucnt = u) := by
  unfold CSim.finishStep
  have hs : SmpOK { S.smp with done := false, t := S.smp.t + dt } (S.T.n * S.T.ns) := ⟨h.smp.ts, h.smp.recs, h.smp.recSize⟩
  have hstep := samplingStep_ok hs x hx
  rw [← h.conds] at hstep
  refine Ok.bind hstep (fun smp hsmp => ?_)
  exact Ok.pure ⟨⟨h.tabs, hsc, hx, checkTMax_smpOK hsmp, h.conds⟩, rfl, rfl, rfl, rfl, rfl, rfl⟩

/-- EULER (both layouts): `Iterate()` of `Euler3D` / `EulerGraph` on the checked object is `eulerStep` of the core model -/
theorem euler_iterate_refines (o : Oracles) (S : CSim) (h : SimOK S) (e : EngIn) (hR : Refines e S.T S.L)
    (d : Vec Rat) (hsc : S.scratch = .euler d) (hnc : S.smp.complete = false) :
    Ok (S.iterate o) (fun r => SimOK r.1 ∧ Refines e r.1.T r.1.L ∧ r.1.dt = S.dt ∧
      ∀ i s, i < S.T.n → s < S.T.ns →
        (absState r.1.T.ns r.1.x) i s = (eulerStep e S.dt (absState S.T.ns S.x)) i s) := by
  unfold CSim.iterate
  rw [if_neg (by simp [hnc]), hsc]
  simp only []
  obtain ⟨slots, nb, hL, hscr⟩ := h.layout
  have hd : d.size = S.T.n * S.T.ns := by
    rw [hsc] at hscr
    cases hscr with
    | euler _ hd => exact hd
  refine Ok.bind (computeDxdt_val hR S.x d h.x hd) (fun d' hd' => ?_)
  refine Ok.bind (applyDxdt_val S.dt S.x d' h.x hd'.1) (fun x' hx' => ?_)
  refine Ok.mono (finishStep_fields S h x' hx'.1 S.dt (.euler d') ⟨slots, nb, hL, .euler d' hd'.1⟩ S.ucnt) (fun r hr => ?_)
  obtain ⟨hok, hx, hT, hLe, hdt, _, _⟩ := hr
  refine ⟨hok, by rw [hT, hLe]; exact hR, hdt, fun i s hi hs => ?_⟩
  rw [hT, hx]
  show x'.get (i * S.T.ns + s) = S.x.get (i * S.T.ns + s) + eulerDxdt e (absState S.T.ns S.x) i s * S.dt
  rw [hx'.2 i s hi hs, hd'.2 i s hi hs]

end Strengths
