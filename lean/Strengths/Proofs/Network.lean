/-
Helper lemmas about the reaction / network model (dictionaries of sides, Python string primitives).
-/
import Strengths.Model.Network
import Strengths.Proofs.Units
import Strengths.Proofs.UnitsText

namespace Strengths
open Gen

/-! ### sides as dictionaries -/

/-- the abstract terms of one side: (coefficient, label) in written order -/
abbrev Terms := List (Int × Label)

/-- Spec-side meaning of a term list: repeats summed, first-occurrence order -/
def sumRepeats (ts : Terms) : Side := ts.foldl (fun d t => d.add t.2 t.1) []

/-- sum of the coefficients written for label `l` -/
def coefSum (ts : Terms) (l : Label) : Int := ((ts.filter fun t => t.2 == l).map (·.1)).sum

theorem foldl_add_eq (l : List Int) (a : Int) : l.foldl (· + ·) a = a + l.sum := by
  induction l generalizing a with
  | nil => simp
  | cons x r ih => simp [List.foldl, ih, Int.add_assoc]

theorem Side.order_eq_sum (d : Side) : d.order = (d.map (·.2)).sum := by
  simp [Side.order, foldl_add_eq]

theorem lookup_bump (l : Label) (c : Int) (d : Side) (l' : Label) :
    (Side.bump l c d).lookup l' = if l' = l then (d.lookup l').map (· + c) else d.lookup l' := by
  induction d with
  | nil => simp [Side.bump]
  | cons p r ih =>
    obtain ⟨k, v⟩ := p
    simp only [Side.bump]
    by_cases hk : k = l
    · subst hk
      by_cases hl : l' = k
      · subst hl; simp [List.lookup]
      · have : (l' == k) = false := by simpa using hl
        simp [List.lookup, this, hl]
    · have hk' : (k == l) = false := by simpa using hk
      simp only [hk', Bool.false_eq_true, ↓reduceIte]
      by_cases hl : l' = k
      · subst hl
        simp [List.lookup, hk]
      · have : (l' == k) = false := by simpa using hl
        simp only [List.lookup, this, ih]

theorem lookup_append_single (d : Side) (l : Label) (c : Int) (l' : Label) (h : d.lookup l = none) :
    (d ++ [(l, c)]).lookup l' = if l' = l then some c else d.lookup l' := by
  induction d with
  | nil =>
    by_cases hl : l' = l
    · simp [List.lookup, hl]
    · have : (l' == l) = false := by simpa using hl
      simp [List.lookup, hl, this]
  | cons p r ih =>
    obtain ⟨k, v⟩ := p
    by_cases hk : l = k
    · subst hk; simp [List.lookup] at h
    · have hk' : (l == k) = false := by simpa using hk
      simp only [List.lookup, hk'] at h
      by_cases hl : l' = k
      · subst hl
        have : ¬ l' = l := fun e => hk e.symm
        simp [List.lookup, this]
      · have : (l' == k) = false := by simpa using hl
        simp only [List.cons_append, List.lookup, this, ih h]

/-- coefficient after `d[label] = coef` / `d[label] += coef` -/
theorem coef_add (d : Side) (l : Label) (c : Int) (l' : Label) :
    (d.add l c).coef l' = d.coef l' + (if l' = l then c else 0) := by
  unfold Side.add Side.coef
  cases h : d.lookup l with
  | none =>
    simp only [lookup_append_single d l c l' h]
    by_cases hl : l' = l
    · subst hl; simp [h]
    · simp [hl]
  | some v =>
    simp only [lookup_bump]
    by_cases hl : l' = l
    · subst hl; simp [h]
    · simp [hl]

theorem order_bump (l : Label) (c : Int) (d : Side) (v : Int) (h : d.lookup l = some v) :
    ((Side.bump l c d).map (·.2)).sum = (d.map (·.2)).sum + c := by
  induction d with
  | nil => simp [List.lookup] at h
  | cons p r ih =>
    obtain ⟨k, w⟩ := p
    simp only [Side.bump]
    by_cases hk : k = l
    · subst hk; simp; omega
    · have hk' : (k == l) = false := by simpa using hk
      have hl : (l == k) = false := by simpa using fun e : l = k => hk e.symm
      simp only [List.lookup, hl] at h
      simp [hk', ih h]; omega

/-- order after adding one term -/
theorem order_add (d : Side) (l : Label) (c : Int) : (d.add l c).order = d.order + c := by
  rw [Side.order_eq_sum, Side.order_eq_sum]
  unfold Side.add
  cases h : d.lookup l with
  | none => simp
  | some v => simpa using order_bump l c d v h

theorem coef_foldl_add (ts : Terms) (d : Side) (l : Label) :
    (ts.foldl (fun d t => d.add t.2 t.1) d).coef l = d.coef l + coefSum ts l := by
  induction ts generalizing d with
  | nil => simp [coefSum]
  | cons t r ih =>
    simp only [List.foldl, ih, coef_add, coefSum, List.filter]
    by_cases h : l = t.2
    · have : (t.2 == l) = true := by simpa using h.symm
      simp [h, this]; omega
    · have : (t.2 == l) = false := by simpa using fun e : t.2 = l => h e.symm
      simp [h, this]

theorem order_foldl_add (ts : Terms) (d : Side) :
    (ts.foldl (fun d t => d.add t.2 t.1) d).order = d.order + (ts.map (·.1)).sum := by
  induction ts generalizing d with
  | nil => simp
  | cons t r ih => simp only [List.foldl, ih, order_add, List.map_cons, List.sum_cons]; omega

/-- per-species coefficient of the summed dictionary = sum of the coefficients written for that species -/
theorem coef_sumRepeats (ts : Terms) (l : Label) : (sumRepeats ts).coef l = coefSum ts l := by
  unfold sumRepeats
  rw [coef_foldl_add]
  simp [Side.coef]

/-- order = sum of all written coefficients -/
theorem order_sumRepeats (ts : Terms) : (sumRepeats ts).order = (ts.map (·.1)).sum := by
  unfold sumRepeats
  rw [order_foldl_add]
  simp [Side.order]

/-! ### network validity -/

theorem dupIn_iff (l seen : List (Option Label)) :
    dupIn l seen = true ↔ ¬ l.Nodup ∨ ∃ x ∈ l, x ∈ seen := by
  induction l generalizing seen with
  | nil => simp [dupIn]
  | cons a r ih =>
    simp only [dupIn]
    by_cases h : seen.contains a = true
    · have hm : a ∈ seen := List.contains_iff_mem.mp h
      simp only [h, ↓reduceIte, true_iff]
      exact Or.inr ⟨a, List.mem_cons_self, hm⟩
    · have hm : a ∉ seen := fun hh => h (List.contains_iff_mem.mpr hh)
      simp only [h, Bool.false_eq_true, ↓reduceIte, ih, List.nodup_cons, List.mem_cons]
      constructor
      · rintro (hnd | ⟨x, hx, hxs⟩)
        · exact Or.inl (fun hh => hnd hh.2)
        · rcases hxs with rfl | hxs
          · exact Or.inl (fun hh => hh.1 hx)
          · exact Or.inr ⟨x, Or.inr hx, hxs⟩
      · rintro (hnd | ⟨x, hx, hxs⟩)
        · by_cases har : a ∈ r
          · exact Or.inr ⟨a, har, Or.inl rfl⟩
          · exact Or.inl (fun hh => hnd ⟨har, hh⟩)
        · rcases hx with rfl | hx
          · exact absurd hxs hm
          · exact Or.inr ⟨x, hx, Or.inr hxs⟩

theorem dupIn_nil_iff (l : List (Option Label)) : dupIn l [] = true ↔ ¬ l.Nodup := by
  simp [dupIn_iff]

end Strengths

namespace Strengths
open Gen

/-! ### Python `split` on the equation text -/

theorem splitChar_ne_nil (sep : Char) (s : List Char) : splitChar sep s ≠ [] := by
  induction s with
  | nil => simp [splitChar]
  | cons c cs ih =>
    simp only [splitChar]
    split
    · simp
    · split <;> simp

/-- no separator inside: one piece -/
theorem splitChar_of_not_mem (sep : Char) (s : List Char) (h : sep ∉ s) : splitChar sep s = [s] := by
  induction s with
  | nil => rfl
  | cons c cs ih =>
    have hc : (c == sep) = false := by
      simp only [beq_eq_false_iff_ne, ne_eq]; intro e; exact h (e ▸ List.mem_cons_self)
    simp only [splitChar, hc, Bool.false_eq_true, ↓reduceIte, ih (fun hm => h (List.mem_cons_of_mem _ hm))]

/-- first separator: `a ++ sep :: b` splits into `a` and the pieces of `b` -/
theorem splitChar_append (sep : Char) (a b : List Char) (h : sep ∉ a) :
    splitChar sep (a ++ sep :: b) = a :: splitChar sep b := by
  induction a with
  | nil => simp [splitChar]
  | cons c cs ih =>
    have hc : (c == sep) = false := by
      simp only [beq_eq_false_iff_ne, ne_eq]; intro e; exact h (e ▸ List.mem_cons_self)
    simp only [List.cons_append, splitChar, hc, Bool.false_eq_true, ↓reduceIte,
      ih (fun hm => h (List.mem_cons_of_mem _ hm))]

/-- `sep.join(tokens)` for a non-empty token list -/
def joinChar (sep : Char) : List Char → List (List Char) → List Char
  | t, [] => t
  | t, u :: r => t ++ sep :: joinChar sep u r

/-- tokens joined by the separator split back into the tokens -/
theorem splitChar_join (sep : Char) (t : List Char) (ts : List (List Char)) (h : ∀ x ∈ t :: ts, sep ∉ x) :
    splitChar sep (joinChar sep t ts) = t :: ts := by
  induction ts generalizing t with
  | nil => simpa [joinChar] using splitChar_of_not_mem sep t (h t List.mem_cons_self)
  | cons u r ih =>
    simp only [joinChar]
    rw [splitChar_append sep t _ (h t List.mem_cons_self), ih u (fun x hx => h x (List.mem_cons_of_mem _ hx))]

/-- does the text contain the two-character sequence `a b`? -/
def hasPair (a b : Char) : List Char → Bool
  | c :: d :: cs => (c == a && d == b) || hasPair a b (d :: cs)
  | _ => false

theorem splitTwo_of_noPair (a b : Char) (s : List Char) (h : hasPair a b s = false) : splitTwo a b s = [s] := by
  induction s with
  | nil => rfl
  | cons c cs ih =>
    cases cs with
    | nil => rfl
    | cons d r =>
      simp only [hasPair, Bool.or_eq_false_iff] at h
      simp only [splitTwo, h.1, Bool.false_eq_true, ↓reduceIte, ih h.2]

/-- the first occurrence of the separator is where the pair-free prefix ends -/
theorem splitTwo_append (a b : Char) (hab : a ≠ b) (l r : List Char) (h : hasPair a b l = false) :
    splitTwo a b (l ++ a :: b :: r) = l :: splitTwo a b r := by
  induction l with
  | nil => simp [splitTwo]
  | cons c cs ih =>
    cases cs with
    | nil =>
      have hba : (a == b) = false := by simpa using hab
      have : (c == a && a == b) = false := by simp [hba]
      have h0 := ih (by simp [hasPair])
      simp only [List.nil_append] at h0
      show splitTwo a b (c :: a :: (b :: r)) = [c] :: splitTwo a b r
      rw [splitTwo]
      simp only [this, Bool.false_eq_true, ↓reduceIte]
      rw [h0]
    | cons d r' =>
      simp only [hasPair, Bool.or_eq_false_iff] at h
      have h0 := ih h.2
      simp only [List.cons_append] at h0 ⊢
      rw [splitTwo]
      simp only [h.1, Bool.false_eq_true, ↓reduceIte]
      rw [h0]

end Strengths

namespace Strengths
open Gen

/-! ### words, blanks, tokens -/

def AllBlank (s : List Char) : Prop := ∀ c ∈ s, isBlank c = true
/-- a non-empty run of non-blank characters -/
def IsWord (w : List Char) : Prop := w ≠ [] ∧ ∀ c ∈ w, isBlank c = false

theorem pyWordsAux_blanks (a rest : List Char) (ha : AllBlank a) : pyWordsAux (a ++ rest) [] = pyWordsAux rest [] := by
  induction a with
  | nil => rfl
  | cons c cs ih =>
    have hc := ha c List.mem_cons_self
    simp only [List.cons_append, pyWordsAux, hc, ↓reduceIte, List.isEmpty_nil]
    exact ih (fun x hx => ha x (List.mem_cons_of_mem _ hx))

theorem pyWordsAux_nonblanks (w rest cur : List Char) (hw : ∀ c ∈ w, isBlank c = false) :
    pyWordsAux (w ++ rest) cur = pyWordsAux rest (w.reverse ++ cur) := by
  induction w generalizing cur with
  | nil => rfl
  | cons c cs ih =>
    have hc := hw c List.mem_cons_self
    simp only [List.cons_append, pyWordsAux, hc, Bool.false_eq_true, ↓reduceIte]
    rw [ih _ (fun x hx => hw x (List.mem_cons_of_mem _ hx))]
    simp

theorem pyWordsAux_allBlank_tail (b cur : List Char) (hb : AllBlank b) (hc : cur ≠ []) :
    pyWordsAux b cur = [cur.reverse] := by
  cases b with
  | nil => simp [pyWordsAux, hc]
  | cons c cs =>
    have h1 := hb c List.mem_cons_self
    have h2 : cur.isEmpty = false := by cases cur <;> simp_all
    simp only [pyWordsAux, h1, ↓reduceIte, h2, Bool.false_eq_true]
    have := pyWordsAux_blanks cs [] (fun x hx => hb x (List.mem_cons_of_mem _ hx))
    simp only [List.append_nil] at this
    rw [this]; simp [pyWordsAux]

/-- `(blanks ++ word ++ blanks).split() = [word]` -/
theorem pyWords_one (a w b : List Char) (ha : AllBlank a) (hw : IsWord w) (hb : AllBlank b) :
    pyWords (a ++ w ++ b) = [w] := by
  unfold pyWords
  rw [List.append_assoc, pyWordsAux_blanks a _ ha, pyWordsAux_nonblanks w b [] hw.2]
  rw [pyWordsAux_allBlank_tail b _ hb (by simpa using hw.1)]
  simp

/-- `(blanks ++ word₁ ++ blanks⁺ ++ word₂ ++ blanks).split() = [word₁, word₂]` -/
theorem pyWords_two (a w1 m w2 b : List Char) (ha : AllBlank a) (h1 : IsWord w1) (hm : AllBlank m) (hmne : m ≠ [])
    (h2 : IsWord w2) (hb : AllBlank b) : pyWords (a ++ w1 ++ m ++ w2 ++ b) = [w1, w2] := by
  unfold pyWords
  have e : a ++ w1 ++ m ++ w2 ++ b = a ++ (w1 ++ (m ++ (w2 ++ b))) := by simp
  rw [e, pyWordsAux_blanks a _ ha, pyWordsAux_nonblanks w1 _ [] h1.2]
  cases m with
  | nil => exact absurd rfl hmne
  | cons c cs =>
    have hc := hm c List.mem_cons_self
    have hne : (w1.reverse ++ []).isEmpty = false := by
      have := h1.1; cases w1 <;> simp_all
    simp only [List.cons_append, pyWordsAux, hc, ↓reduceIte, hne, Bool.false_eq_true]
    rw [pyWordsAux_blanks cs _ (fun x hx => hm x (List.mem_cons_of_mem _ hx)), pyWordsAux_nonblanks w2 b [] h2.2]
    rw [pyWordsAux_allBlank_tail b _ hb (by simpa using h2.1)]
    simp

theorem dropWhile_all (p : Char → Bool) (l : List Char) (h : ∀ x ∈ l, p x = true) : l.dropWhile p = [] := by
  induction l with
  | nil => rfl
  | cons c cs ih => simp [List.dropWhile, h c List.mem_cons_self, ih (fun x hx => h x (List.mem_cons_of_mem _ hx))]

theorem dropWhile_blank_word_like (s : List Char) (h : ∀ c, s.head? = some c → isBlank c = false) :
    s.dropWhile isBlank = s := by
  cases s with
  | nil => rfl
  | cons c cs => simp [List.dropWhile, h c rfl]

/-- `(blanks ++ body ++ blanks).strip() = body` when `body` starts and ends with a non-blank character -/
theorem stripBlank_core (a body b : List Char) (ha : AllBlank a) (hb : AllBlank b)
    (hh : ∀ c, body.head? = some c → isBlank c = false) (hl : ∀ c, body.getLast? = some c → isBlank c = false) :
    stripBlank (a ++ body ++ b) = body := by
  unfold stripBlank stripBy
  have e1 : (a ++ body ++ b).dropWhile isBlank = (body ++ b).dropWhile isBlank := by
    rw [List.append_assoc]
    exact List.dropWhile_append_of_pos (fun x hx => ha x hx)
  rw [e1]
  cases body with
  | nil =>
    simp only [List.nil_append]
    have : b.dropWhile isBlank = [] := dropWhile_all _ b (fun x hx => hb x hx)
    simp [this]
  | cons c cs =>
    have hc := hh c rfl
    have e2 : ((c :: cs) ++ b).dropWhile isBlank = (c :: cs) ++ b := by simp [List.dropWhile, hc]
    rw [e2, List.reverse_append]
    have e3 : (b.reverse ++ (c :: cs).reverse).dropWhile isBlank = ((c :: cs).reverse).dropWhile isBlank :=
      List.dropWhile_append_of_pos (fun x hx => hb x (List.mem_reverse.mp hx))
    rw [e3, dropWhile_blank_word_like _ (by
      intro x hx
      apply hl x
      rw [List.head?_reverse] at hx
      exact hx)]
    simp

theorem IsWord.head_last (w : List Char) (hw : IsWord w) :
    (∀ c, w.head? = some c → isBlank c = false) ∧ (∀ c, w.getLast? = some c → isBlank c = false) := by
  constructor
  · intro c hc; exact hw.2 c (List.mem_of_mem_head? hc)
  · intro c hc; exact hw.2 c (List.mem_of_getLast? hc)

theorem stripBlank_word (w : List Char) (hw : IsWord w) : stripBlank w = w := by
  have := stripBlank_core [] w [] (fun _ h => by cases h) (fun _ h => by cases h) hw.head_last.1 hw.head_last.2
  simpa using this

/-- a term written without coefficient: `blanks label blanks` -/
theorem parseToken_label (a w b : List Char) (ha : AllBlank a) (hw : IsWord w) (hb : AllBlank b) :
    parseToken (a ++ w ++ b) = .ok (1, w) := by
  unfold parseToken
  rw [stripBlank_core a w b ha hb hw.head_last.1 hw.head_last.2]
  have := pyWords_one [] w [] (fun _ h => by cases h) hw (fun _ h => by cases h)
  simp only [List.nil_append, List.append_nil] at this
  rw [this]
  simp [stripBlank_word w hw]

/-- a term written with a coefficient text `n`: `blanks n blanks⁺ label blanks` -/
theorem parseToken_coef (a n m w b : List Char) (c : Int) (ha : AllBlank a) (hn : IsWord n) (hm : AllBlank m) (hmne : m ≠ [])
    (hw : IsWord w) (hb : AllBlank b) (hc : pyInt n = some c) :
    parseToken (a ++ n ++ m ++ w ++ b) = .ok (c, w) := by
  unfold parseToken
  have e : a ++ n ++ m ++ w ++ b = a ++ (n ++ m ++ w) ++ b := by simp
  rw [e, stripBlank_core a (n ++ m ++ w) b ha hb]
  · have := pyWords_two [] n m w [] (fun _ h => by cases h) hn hm hmne hw (fun _ h => by cases h)
    simp only [List.nil_append, List.append_nil] at this
    rw [this]
    simp [stripBlank_word n hn, stripBlank_word w hw, hc]
  · intro x hx
    apply hn.2 x
    have hne := hn.1
    cases n with
    | nil => exact absurd rfl hne
    | cons y ys => simp at hx; simp [hx]
  · intro x hx
    apply hw.2 x
    have hne := hw.1
    have : (n ++ m ++ w).getLast? = w.getLast? := by
      rw [List.getLast?_append_of_ne_nil _ hne]
    rw [this] at hx
    exact List.mem_of_getLast? hx

end Strengths

namespace Strengths
open Gen

/-! ### sides and equations -/

theorem parseTokens_ok (toks : List (List Char)) (terms : Terms)
    (h : List.Forall₂ (fun tok t => parseToken tok = .ok t) toks terms) (d : Side) :
    parseTokens toks d = .ok (terms.foldl (fun d t => d.add t.2 t.1) d) := by
  induction h generalizing d with
  | nil => rfl
  | cons hx _ ih => simp only [parseTokens, hx, List.foldl]; exact ih _

theorem parseToken_ok_nonempty (tok : List Char) (t : Int × Label) (h : parseToken tok = .ok t) :
    (stripBlank tok).isEmpty = false := by
  cases hs : stripBlank tok with
  | nil => simp [parseToken, hs, pyWords, pyWordsAux] at h
  | cons c cs => rfl

/-- a non-empty side: tokens joined by `+` -/
theorem parseSide_terms (t : List Char) (ts : List (List Char)) (terms : Terms)
    (hplus : ∀ x ∈ t :: ts, '+' ∉ x) (h : List.Forall₂ (fun tok tm => parseToken tok = .ok tm) (t :: ts) terms) :
    parseSide (joinChar '+' t ts) = .ok (sumRepeats terms) := by
  unfold parseSide
  simp only [splitChar_join '+' t ts hplus]
  have hne : (stripBlank t).isEmpty = false := by
    cases h with
    | cons hx _ => exact parseToken_ok_nonempty t _ hx
  simp only [List.headD_cons, hne, Bool.and_false, Bool.false_eq_true, ↓reduceIte]
  exact parseTokens_ok _ _ h []

/-- an empty side: blanks only -/
theorem parseSide_empty (a : List Char) (ha : AllBlank a) : parseSide a = .ok [] := by
  unfold parseSide
  have hp : '+' ∉ a := fun hm => by have := ha _ hm; revert this; decide
  have hs : stripBlank a = [] := by
    have := stripBlank_core a [] [] ha (fun _ h => by cases h) (fun _ h => by cases h) (fun _ h => by cases h)
    simpa using this
  simp [splitChar_of_not_mem '+' a hp, hs]

/-- the whole equation: the two sides around the first (and only) arrow -/
theorem parseEquation_sides (l r : List Char) (hl : hasPair '-' '>' l = false) (hr : hasPair '-' '>' r = false) :
    parseEquation (l ++ '-' :: '>' :: r) =
      match parseSide l with
      | .error e => .error e
      | .ok sub => match parseSide r with
        | .error e => .error e
        | .ok prod => .ok (sub, prod) := by
  unfold parseEquation
  rw [splitTwo_append '-' '>' (by decide) l r hl, splitTwo_of_noPair '-' '>' r hr]
  rfl

end Strengths

namespace Strengths
open Gen

/-! ### where a two-character separator can occur in a concatenation -/

theorem hasPair_cons_of_ne (a b c : Char) (r : List Char) (h : c ≠ a) : hasPair a b (c :: r) = hasPair a b r := by
  cases r with
  | nil => rfl
  | cons d r' =>
    have : (c == a) = false := by simpa using h
    simp [hasPair, this]

/-- a pair occurs in `s ++ t` inside `s`, inside `t`, or astride the seam -/
theorem hasPair_append (a b : Char) (s t : List Char) :
    hasPair a b (s ++ t) = (hasPair a b s || hasPair a b t || (s.getLast? == some a && t.head? == some b)) := by
  induction s with
  | nil => simp [hasPair]
  | cons c s' ih =>
    cases s' with
    | nil =>
      cases t with
      | nil => simp [hasPair]
      | cons d t' =>
        simp only [List.cons_append, List.nil_append, hasPair, List.getLast?_singleton, List.head?_cons, Bool.false_or]
        by_cases h1 : c = a <;> by_cases h2 : d = b <;> simp [h1, h2, Bool.or_comm]
    | cons d s'' =>
      have ih' := ih
      simp only [List.cons_append] at ih' ⊢
      rw [hasPair, ih']
      simp only [hasPair, List.getLast?_cons_cons, Bool.or_assoc]

/-- no `a` in the left part: nothing can start there -/
theorem hasPair_append_left_free (a b : Char) (s t : List Char) (h : a ∉ s) : hasPair a b (s ++ t) = hasPair a b t := by
  induction s with
  | nil => rfl
  | cons c s' ih =>
    have hc : c ≠ a := fun e => h (e ▸ List.mem_cons_self)
    rw [List.cons_append, hasPair_cons_of_ne a b c _ hc]
    exact ih (fun hm => h (List.mem_cons_of_mem _ hm))

theorem hasPair_false_of_no_first (a b : Char) (s : List Char) (h : a ∉ s) : hasPair a b s = false := by
  have := hasPair_append_left_free a b s [] h
  simpa [hasPair] using this

theorem hasPair_false_of_no_second (a b : Char) (s : List Char) (h : b ∉ s) : hasPair a b s = false := by
  induction s with
  | nil => rfl
  | cons c s' ih =>
    cases s' with
    | nil => rfl
    | cons d r =>
      have hd : (d == b) = false := by
        simp only [beq_eq_false_iff_ne, ne_eq]; intro e; exact h (e ▸ List.mem_cons_of_mem _ List.mem_cons_self)
      simp only [hasPair, hd, Bool.and_false, Bool.false_or]
      exact ih (fun hm => h (List.mem_cons_of_mem _ hm))

/-! ### rendered equations (Spec side of `parse_render`) -/

/-- a label an equation text can carry: a word (non-empty, no blank for `str.split()`), no `+`, no `->` inside -/
def LabelWord (w : Label) : Prop := IsWord w ∧ '+' ∉ w ∧ hasPair '-' '>' w = false

/-- one written term: leading blanks, optionally the decimal text of a coefficient followed by at least one blank,
the label, trailing blanks -/
structure RTerm where
  a : List Char
  coef : Option (Int × List Char)
  w : Label
  b : List Char

def RTerm.coefText (t : RTerm) : List Char :=
  match t.coef with
  | none => []
  | some (c, m) => pyStrInt c ++ m

def RTerm.text (t : RTerm) : List Char := t.a ++ t.coefText ++ t.w ++ t.b

/-- the abstract term: coefficient (1 when not written) and label -/
def RTerm.term (t : RTerm) : Int × Label :=
  (match t.coef with | none => 1 | some (c, _) => c, t.w)

structure RTerm.WF (t : RTerm) : Prop where
  a : AllBlank t.a
  b : AllBlank t.b
  w : LabelWord t.w
  m : ∀ c m, t.coef = some (c, m) → AllBlank m ∧ m ≠ []

/-- one written side: blanks only, or terms joined by `+` -/
inductive RSide where
  | empty (blanks : List Char)
  | terms (t : RTerm) (ts : List RTerm)

def RSide.text : RSide → List Char
  | .empty a => a
  | .terms t ts => joinChar '+' t.text (ts.map RTerm.text)

def RSide.termList : RSide → Terms
  | .empty _ => []
  | .terms t ts => t.term :: ts.map RTerm.term

def RSide.WF : RSide → Prop
  | .empty a => AllBlank a
  | .terms t ts => t.WF ∧ ∀ u ∈ ts, u.WF

theorem blank_props (c : Char) (h : isBlank c = true) : c ≠ '-' ∧ c ≠ '>' ∧ c ≠ '+' := by
  refine ⟨?_, ?_, ?_⟩ <;> (rintro rfl; revert h; decide)

theorem allBlank_free (s : List Char) (h : AllBlank s) : '-' ∉ s ∧ '>' ∉ s ∧ '+' ∉ s :=
  ⟨fun hm => (blank_props _ (h _ hm)).1 rfl, fun hm => (blank_props _ (h _ hm)).2.1 rfl, fun hm => (blank_props _ (h _ hm)).2.2 rfl⟩

theorem expChars_free : ∀ c ∈ expChars, c ≠ '>' ∧ c ≠ '+' := by decide +kernel

theorem strInt_free (c : Int) : '>' ∉ pyStrInt c ∧ '+' ∉ pyStrInt c :=
  ⟨fun hm => (expChars_free _ (showIntChars_mem c _ hm)).1 rfl, fun hm => (expChars_free _ (showIntChars_mem c _ hm)).2 rfl⟩

theorem strInt_word (c : Int) : IsWord (pyStrInt c) :=
  ⟨showIntChars_ne_nil c, fun x hx => (expChars_props x (showIntChars_mem c x hx)).1⟩

/-- a rendered term reads as its abstract term, contains no `+` and no `->` -/
theorem RTerm.render (t : RTerm) (h : t.WF) :
    parseToken t.text = .ok t.term ∧ '+' ∉ t.text ∧ hasPair '-' '>' t.text = false := by
  obtain ⟨a, coef, w, b⟩ := t
  obtain ⟨ha, hb, ⟨hw, hwp, hwa⟩, hm⟩ := h
  simp only at ha hb hw hwp hwa hm
  have fa := allBlank_free a ha
  have fb := allBlank_free b hb
  cases coef with
  | none =>
    simp only [RTerm.text, RTerm.coefText, RTerm.term, List.append_nil]
    refine ⟨parseToken_label a w b ha hw hb, ?_, ?_⟩
    · simp only [List.mem_append, not_or]; exact ⟨⟨fa.2.2, hwp⟩, fb.2.2⟩
    · rw [List.append_assoc, hasPair_append_left_free _ _ _ _ fa.1, hasPair_append, hwa,
        hasPair_false_of_no_first _ _ b fb.1]
      have : (b.head? == some '>') = false := by
        cases b with
        | nil => rfl
        | cons x xs => simp only [List.head?_cons]; have := (blank_props x (hb x List.mem_cons_self)).2.1; simpa using this
      simp [this]
  | some cm =>
    obtain ⟨c, m⟩ := cm
    obtain ⟨hmb, hmne⟩ := hm c m rfl
    have fm := allBlank_free m hmb
    simp only [RTerm.text, RTerm.coefText, RTerm.term]
    refine ⟨?_, ?_, ?_⟩
    · have := parseToken_coef a (pyStrInt c) m w b c ha (strInt_word c) hmb hmne hw hb (pyInt_showInt c)
      simpa [List.append_assoc] using this
    · simp only [List.mem_append, not_or]
      exact ⟨⟨⟨fa.2.2, (strInt_free c).2, fm.2.2⟩, hwp⟩, fb.2.2⟩
    · have e : a ++ (pyStrInt c ++ m) ++ w ++ b = a ++ (pyStrInt c ++ (m ++ (w ++ b))) := by simp
      rw [e, hasPair_append_left_free _ _ _ _ fa.1, hasPair_append,
        hasPair_false_of_no_second _ _ _ (strInt_free c).1, hasPair_append_left_free _ _ _ _ fm.1,
        hasPair_append, hwa, hasPair_false_of_no_first _ _ b fb.1]
      have h1 : (b.head? == some '>') = false := by
        cases b with
        | nil => rfl
        | cons x xs => simp only [List.head?_cons]; have := (blank_props x (hb x List.mem_cons_self)).2.1; simpa using this
      have h2 : ((m ++ (w ++ b)).head? == some '>') = false := by
        cases m with
        | nil => exact absurd rfl hmne
        | cons x xs =>
          simp only [List.cons_append, List.head?_cons]
          have := (blank_props x (hmb x List.mem_cons_self)).2.1; simpa using this
      simp only [h1, h2, Bool.and_false, Bool.or_false, Bool.false_or, Bool.or_self]

theorem hasPair_joinChar_plus (t : List Char) (ts : List (List Char))
    (h : ∀ x ∈ t :: ts, hasPair '-' '>' x = false) : hasPair '-' '>' (joinChar '+' t ts) = false := by
  induction ts generalizing t with
  | nil => simpa [joinChar] using h t List.mem_cons_self
  | cons u r ih =>
    simp only [joinChar]
    rw [hasPair_append, h t List.mem_cons_self, hasPair_cons_of_ne _ _ '+' _ (by decide),
      ih u (fun x hx => h x (List.mem_cons_of_mem _ hx))]
    simp

/-- a rendered side reads as its terms with repeats summed, and contains no `->` -/
theorem RSide.render (s : RSide) (h : s.WF) :
    parseSide s.text = .ok (sumRepeats s.termList) ∧ hasPair '-' '>' s.text = false := by
  cases s with
  | empty a =>
    exact ⟨by simpa [RSide.text, RSide.termList, sumRepeats] using parseSide_empty a h,
      hasPair_false_of_no_first _ _ a (allBlank_free a h).1⟩
  | terms t ts =>
    obtain ⟨ht, hts⟩ := h
    simp only [RSide.text, RSide.termList]
    have hall : ∀ u ∈ t :: ts, parseToken u.text = .ok u.term ∧ '+' ∉ u.text ∧ hasPair '-' '>' u.text = false := by
      intro u hu
      rcases List.mem_cons.mp hu with rfl | hu
      · exact RTerm.render _ ht
      · exact RTerm.render u (hts u hu)
    refine ⟨?_, ?_⟩
    · apply parseSide_terms
      · intro x hx
        have : x ∈ (t :: ts).map RTerm.text := by simpa using hx
        obtain ⟨u, hu, rfl⟩ := List.mem_map.mp this
        exact (hall u hu).2.1
      · have : List.Forall₂ (fun tok tm => parseToken tok = .ok tm) ((t :: ts).map RTerm.text) ((t :: ts).map RTerm.term) := by
          rw [List.forall₂_map_left_iff, List.forall₂_map_right_iff]
          exact List.forall₂_same.mpr (fun u hu => (hall u hu).1)
        simpa using this
    · apply hasPair_joinChar_plus
      intro x hx
      have : x ∈ (t :: ts).map RTerm.text := by simpa using hx
      obtain ⟨u, hu, rfl⟩ := List.mem_map.mp this
      exact (hall u hu).2.2

/-- `parse_render`: the equation `lhs -> rhs`, written with any blanks, reads as the two sides with repeats summed -/
theorem parseEquation_render (l r : RSide) (hl : l.WF) (hr : r.WF) :
    parseEquation (l.text ++ '-' :: '>' :: r.text) = .ok (sumRepeats l.termList, sumRepeats r.termList) := by
  rw [parseEquation_sides _ _ (RSide.render l hl).2 (RSide.render r hr).2, (RSide.render l hl).1, (RSide.render r hr).1]

end Strengths

namespace Strengths
open Gen

/-! ### printing a reaction and reading the text back -/

/-- the entries `to_string` prints: those with a non-zero coefficient -/
def Side.printed (d : Side) : Side := d.filter fun p => p.2 != 0

/-- how `encode_side` writes one entry: `"+ "` before every entry but the first (the `+` is the separator, the
blank belongs to the term), the coefficient and a blank unless it is 1, the label, a blank -/
def printedTerm (lead : Bool) (p : Label × Int) : RTerm :=
  ⟨if lead then [' '] else [], if p.2 != 1 then some (p.2, [' ']) else none, p.1, [' ']⟩

/-- a printed side as a written side; `lead` = a blank precedes it (the right-hand side after `"-> "`) -/
def printedSide (lead : Bool) (d : Side) : RSide :=
  match d.printed with
  | [] => .empty (if lead then [' '] else [])
  | e :: es => .terms (printedTerm lead e) (es.map (printedTerm true))

theorem joinChar_eq (sep : Char) (t : List Char) (ts : List (List Char)) :
    joinChar sep t ts = t ++ ts.flatMap (fun u => sep :: u) := by
  induction ts generalizing t with
  | nil => simp [joinChar]
  | cons u r ih => simp [joinChar, ih]

theorem printedTerm_text (lead : Bool) (p : Label × Int) :
    (printedTerm lead p).text =
      (if lead then [' '] else []) ++ (if p.2 != 1 then pyStrInt p.2 ++ [' '] else []) ++ p.1 ++ [' '] := by
  unfold printedTerm RTerm.text RTerm.coefText
  by_cases h : (p.2 != 1) = true <;> simp [h]

theorem encodeSideAux_false (d : Side) :
    encodeSideAux d false = d.printed.flatMap (fun e => '+' :: (printedTerm true e).text) := by
  induction d with
  | nil => rfl
  | cons p r ih =>
    obtain ⟨l, c⟩ := p
    by_cases hc : (c != 0) = true
    · simp only [encodeSideAux, hc, ↓reduceIte, Side.printed, List.filter, List.flatMap_cons]
      have := ih; simp only [Side.printed] at this
      rw [this, printedTerm_text]
      by_cases h1 : (c != 1) = true <;> simp [h1]
    · simp only [Bool.not_eq_true] at hc
      simp only [encodeSideAux, hc, Bool.false_eq_true, ↓reduceIte, Side.printed, List.filter]
      exact ih

theorem encodeSideAux_true (d : Side) :
    encodeSideAux d true = match d.printed with
      | [] => []
      | e :: es => (printedTerm false e).text ++ es.flatMap (fun e => '+' :: (printedTerm true e).text) := by
  induction d with
  | nil => rfl
  | cons p r ih =>
    obtain ⟨l, c⟩ := p
    by_cases hc : (c != 0) = true
    · simp only [encodeSideAux, hc, ↓reduceIte, Side.printed, List.filter]
      have := encodeSideAux_false r; simp only [Side.printed] at this
      rw [this, printedTerm_text]
      by_cases h1 : (c != 1) = true <;> simp [h1]
    · simp only [Bool.not_eq_true] at hc
      simp only [encodeSideAux, hc, Bool.false_eq_true, ↓reduceIte, Side.printed, List.filter]
      exact ih

theorem printedSide_text_nolead (d : Side) : (printedSide false d).text = encodeSide d := by
  unfold encodeSide printedSide
  rw [encodeSideAux_true]
  cases h : d.printed with
  | nil => simp [RSide.text]
  | cons e es => simp [RSide.text, joinChar_eq, List.flatMap_map]

theorem printedSide_text_lead (d : Side) : (printedSide true d).text = ' ' :: encodeSide d := by
  unfold encodeSide printedSide
  rw [encodeSideAux_true]
  cases h : d.printed with
  | nil => simp [RSide.text]
  | cons e es =>
    simp only [RSide.text, joinChar_eq, List.flatMap_map, printedTerm_text]
    simp

/-- what a dictionary of a side must satisfy to be printable: distinct keys that are label words -/
structure Side.WF (d : Side) : Prop where
  nodup : (d.map (·.1)).Nodup
  labels : ∀ p ∈ d, LabelWord p.1

theorem printedTerm_wf (lead : Bool) (p : Label × Int) (h : LabelWord p.1) : (printedTerm lead p).WF := by
  have hb : AllBlank [' '] := fun c hc => by simp at hc; subst hc; decide
  refine ⟨?_, hb, h, ?_⟩
  · cases lead
    · intro c hc; simp [printedTerm] at hc
    · simpa [printedTerm] using hb
  · intro c m hcm
    simp only [printedTerm] at hcm
    by_cases h1 : (p.2 != 1) = true
    · simp only [h1, ↓reduceIte, Option.some.injEq, Prod.mk.injEq] at hcm
      obtain ⟨_, rfl⟩ := hcm
      exact ⟨hb, by simp⟩
    · simp [h1] at hcm

theorem printedSide_wf (lead : Bool) (d : Side) (h : d.WF) : (printedSide lead d).WF := by
  unfold printedSide
  have hsub : ∀ p ∈ d.printed, LabelWord p.1 := fun p hp => h.labels p (List.mem_of_mem_filter hp)
  cases hd : d.printed with
  | nil =>
    cases lead
    · intro c hc; simp at hc
    · intro c hc; simp at hc; subst hc; decide
  | cons e es =>
    rw [hd] at hsub
    refine ⟨printedTerm_wf lead e (hsub e List.mem_cons_self), ?_⟩
    intro u hu
    obtain ⟨p, hp, rfl⟩ := List.mem_map.mp hu
    exact printedTerm_wf true p (hsub p (List.mem_cons_of_mem _ hp))

theorem printedTerm_term (lead : Bool) (p : Label × Int) : (printedTerm lead p).term = (p.2, p.1) := by
  unfold printedTerm RTerm.term
  by_cases h1 : (p.2 != 1) = true
  · simp [h1]
  · have : p.2 = 1 := by simpa using h1
    simp [this]

theorem printedSide_terms (lead : Bool) (d : Side) : (printedSide lead d).termList = d.printed.map fun p => (p.2, p.1) := by
  unfold printedSide
  cases hd : d.printed with
  | nil => rfl
  | cons e es => simp [RSide.termList, printedTerm_term]

theorem coefSum_eq_zero_of_not_mem (ts : Terms) (l : Label) (h : l ∉ ts.map (·.2)) : coefSum ts l = 0 := by
  induction ts with
  | nil => rfl
  | cons t r ih =>
    have h1 : ¬ t.2 = l := fun e => h (by simp [e])
    have h2 : l ∉ r.map (·.2) := fun hm => h (by simp at hm ⊢; exact Or.inr hm)
    have hb : (t.2 == l) = false := by simpa using h1
    simp only [coefSum, List.filter, hb] at ih ⊢
    exact ih h2

/-- the printed entries carry every coefficient of the dictionary (the dropped ones are 0) -/
theorem coefSum_printed (d : Side) (hn : (d.map (·.1)).Nodup) (l : Label) :
    coefSum (d.printed.map fun p => (p.2, p.1)) l = d.coef l := by
  induction d with
  | nil => rfl
  | cons p r ih =>
    obtain ⟨k, v⟩ := p
    simp only [List.map_cons, List.nodup_cons] at hn
    have ih' := ih hn.2
    by_cases hkl : k = l
    · subst hkl
      have hnot : k ∉ ((Side.printed r).map fun p => (p.2, p.1)).map (·.2) := by
        intro hm
        apply hn.1
        simp only [List.map_map, List.mem_map, Function.comp] at hm ⊢
        obtain ⟨q, hq, hqe⟩ := hm
        exact ⟨q, List.mem_of_mem_filter hq, hqe⟩
      have hz := coefSum_eq_zero_of_not_mem _ k hnot
      by_cases hv : (v != 0) = true
      · simp only [Side.printed, List.filter, hv, List.map_cons, coefSum, beq_self_eq_true, List.sum_cons, Side.coef,
          List.lookup, Option.getD_some]
        simp only [Side.printed, coefSum] at hz
        rw [hz]; simp
      · have hv0 : v = 0 := by simpa using hv
        simp only [Bool.not_eq_true] at hv
        simp only [Side.printed, List.filter, hv, Side.coef, List.lookup, beq_self_eq_true, Option.getD_some]
        simp only [Side.printed] at hz
        rw [hz, hv0]
    · have hb : (l == k) = false := by simpa using fun e : l = k => hkl e.symm
      have hb' : (k == l) = false := by simpa using hkl
      by_cases hv : (v != 0) = true
      · simp only [Side.printed, List.filter, hv, List.map_cons, coefSum, hb', Side.coef, List.lookup, hb]
        simpa [Side.printed, coefSum, Side.coef] using ih'
      · simp only [Bool.not_eq_true] at hv
        simp only [Side.printed, List.filter, hv, Side.coef, List.lookup, hb]
        simpa [Side.printed, Side.coef] using ih'

/-- `print_parse`: the text `to_string` prints reads back as a reaction with the same coefficient for every label -/
theorem parseEquation_toString (sub prod : Side) (hs : sub.WF) (hp : prod.WF) :
    ∃ sub' prod', parseEquation (eqToString sub prod) = .ok (sub', prod') ∧
      (∀ l, sub'.coef l = sub.coef l) ∧ (∀ l, prod'.coef l = prod.coef l) := by
  have e : eqToString sub prod = (printedSide false sub).text ++ '-' :: '>' :: (printedSide true prod).text := by
    rw [printedSide_text_nolead, printedSide_text_lead]; simp [eqToString]
  refine ⟨sumRepeats (printedSide false sub).termList, sumRepeats (printedSide true prod).termList, ?_, ?_, ?_⟩
  · rw [e]; exact parseEquation_render _ _ (printedSide_wf false sub hs) (printedSide_wf true prod hp)
  · intro l; rw [coef_sumRepeats, printedSide_terms, coefSum_printed sub hs.nodup]
  · intro l; rw [coef_sumRepeats, printedSide_terms, coefSum_printed prod hp.nodup]

end Strengths

namespace Strengths
open Gen

/-! ### parsed sides are printable -/

theorem keys_bump (l : Label) (c : Int) (d : Side) : (Side.bump l c d).map (·.1) = d.map (·.1) := by
  induction d with
  | nil => rfl
  | cons p r ih =>
    obtain ⟨k, v⟩ := p
    by_cases hk : (k == l) = true <;> simp [Side.bump, hk, ih]

theorem lookup_none_iff (d : Side) (l : Label) : d.lookup l = none ↔ l ∉ d.map (·.1) := by
  induction d with
  | nil => simp
  | cons p r ih =>
    obtain ⟨k, v⟩ := p
    by_cases hk : l = k
    · subst hk; simp [List.lookup]
    · have : (l == k) = false := by simpa using hk
      simp [List.lookup, this, ih, hk]

theorem add_wf (d : Side) (l : Label) (c : Int) (hd : d.WF) (hl : LabelWord l) : (d.add l c).WF := by
  unfold Side.add
  cases h : d.lookup l with
  | none =>
    have hn := (lookup_none_iff d l).1 h
    refine ⟨?_, ?_⟩
    · simp only [List.map_append, List.map_cons, List.map_nil]
      rw [List.nodup_append]
      refine ⟨hd.nodup, by simp, ?_⟩
      intro a ha b hb
      simp only [List.mem_singleton] at hb
      subst hb
      exact fun e => hn (e ▸ ha)
    · intro p hp
      rcases List.mem_append.mp hp with hp | hp
      · exact hd.labels p hp
      · simp only [List.mem_singleton] at hp; subst hp; exact hl
  | some v =>
    refine ⟨by rw [keys_bump]; exact hd.nodup, ?_⟩
    intro p hp
    have : p.1 ∈ (Side.bump l c d).map (·.1) := List.mem_map.mpr ⟨p, hp, rfl⟩
    rw [keys_bump] at this
    obtain ⟨q, hq, hqe⟩ := List.mem_map.mp this
    rw [← hqe]; exact hd.labels q hq

/-- what the equation parser produces from label words is a printable dictionary -/
theorem sumRepeats_wf (ts : Terms) (h : ∀ t ∈ ts, LabelWord t.2) : (sumRepeats ts).WF := by
  unfold sumRepeats
  have : ∀ (d : Side), d.WF → (ts.foldl (fun d t => d.add t.2 t.1) d).WF := by
    induction ts with
    | nil => intro d hd; exact hd
    | cons t r ih =>
      intro d hd
      exact ih (fun u hu => h u (List.mem_cons_of_mem _ hu)) _ (add_wf d t.2 t.1 hd (h t List.mem_cons_self))
  exact this [] ⟨by simp, by simp⟩

/-! ### `str.strip()` is idempotent; pieces of a split contain no separator -/

theorem head_dropWhile_not {α} (p : α → Bool) (l : List α) (c : α) (h : (l.dropWhile p).head? = some c) : p c = false := by
  induction l with
  | nil => simp at h
  | cons a r ih =>
    by_cases ha : p a = true
    · simp only [List.dropWhile, ha] at h; exact ih h
    · simp only [Bool.not_eq_true] at ha
      simp only [List.dropWhile, ha, List.head?_cons, Option.some.injEq] at h
      exact h ▸ ha

theorem dropWhile_eq_self_of_head {α} (p : α → Bool) (l : List α) (h : ∀ c, l.head? = some c → p c = false) :
    l.dropWhile p = l := by
  cases l with
  | nil => rfl
  | cons a r => simp [List.dropWhile, h a rfl]

theorem getLast?_of_suffix {α} (v w : List α) (h : v <:+ w) (hne : v ≠ []) : v.getLast? = w.getLast? := by
  obtain ⟨pre, rfl⟩ := h
  rw [List.getLast?_append_of_ne_nil _ hne]

theorem mem_stripBy (p : Char → Bool) (s : List Char) (x : Char) (h : x ∈ stripBy p s) : x ∈ s := by
  unfold stripBy at h
  have h1 := List.mem_reverse.mp h
  have h2 := (List.dropWhile_suffix p).subset h1
  have h3 := List.mem_reverse.mp h2
  exact (List.dropWhile_suffix p).subset h3

theorem stripBy_idem (p : Char → Bool) (s : List Char) : stripBy p (stripBy p s) = stripBy p s := by
  unfold stripBy
  generalize hu : s.dropWhile p = u
  generalize hv : u.reverse.dropWhile p = v
  by_cases hne : v = []
  · subst hne; simp
  · have hvhead : ∀ c, v.head? = some c → p c = false := fun c hc => head_dropWhile_not p u.reverse c (hv ▸ hc)
    have hsuf : v <:+ u.reverse := hv ▸ List.dropWhile_suffix p
    have hlast : v.getLast? = u.head? := by
      rw [getLast?_of_suffix v _ hsuf hne, List.getLast?_reverse]
    have hthead : ∀ c, v.reverse.head? = some c → p c = false := by
      intro c hc
      rw [List.head?_reverse, hlast] at hc
      exact head_dropWhile_not p s c (hu ▸ hc)
    rw [dropWhile_eq_self_of_head p v.reverse hthead, List.reverse_reverse, dropWhile_eq_self_of_head p v hvhead]

theorem splitChar_pieces_free (sep : Char) (s : List Char) : ∀ x ∈ splitChar sep s, sep ∉ x := by
  induction s with
  | nil => intro x hx; simp [splitChar] at hx; subst hx; simp
  | cons c cs ih =>
    intro x hx
    simp only [splitChar] at hx
    by_cases hc : (c == sep) = true
    · simp only [hc, ↓reduceIte, List.mem_cons] at hx
      rcases hx with rfl | hx
      · simp
      · exact ih x hx
    · simp only [hc, Bool.false_eq_true, ↓reduceIte] at hx
      cases hsp : splitChar sep cs with
      | nil => exact absurd hsp (splitChar_ne_nil sep cs)
      | cons q qs =>
        rw [hsp] at hx ih
        simp only [List.mem_cons] at hx
        rcases hx with rfl | hx
        · intro hm
          rcases List.mem_cons.mp hm with e | hm
          · exact hc (by simp [e])
          · exact ih q List.mem_cons_self hm
        · exact ih x (List.mem_cons_of_mem _ hx)

/-- the keys `process_unitvar_input` produces are canonical: splitting them again on `,` and stripping gives them back -/
theorem splitKeys_canonical (k : String) : ∀ ki ∈ splitKeys k, splitKeys ki = [ki] := by
  intro ki hki
  unfold splitKeys at hki
  obtain ⟨piece, hp, rfl⟩ := List.mem_map.mp hki
  have hfree := splitChar_pieces_free ',' k.toList piece hp
  have hfree' : ',' ∉ stripBlank piece := fun hm => hfree (mem_stripBy _ _ _ hm)
  unfold splitKeys
  rw [String.toList_ofList, splitChar_of_not_mem ',' _ hfree']
  simp only [List.map_cons, List.map_nil]
  rw [show stripBlank (stripBlank piece) = stripBlank piece from stripBy_idem _ _]

end Strengths

namespace Strengths
open Gen

/-! ### processed constants, and processing them again (`split()`) -/

/-- a per-environment dictionary as `process_unitvar_input` leaves it: distinct canonical keys, every value of the
demanded dimension -/
structure KDictWF (d : List (String × UVal)) (dim : Dim) : Prop where
  nodup : (d.map (·.1)).Nodup
  dims : ∀ p ∈ d, p.2.u.dim = dim
  keys : ∀ p ∈ d, splitKeys p.1 = [p.1]

def KVal.WF (k : KVal) (dim : Dim) : Prop :=
  match k with
  | .scalar x => x.u.dim = dim
  | .dict d => KDictWF d dim

theorem processScalar_dim (sys : Sys) (d : Dim) (s : Scalar) (x : UVal) (hx : processScalar sys d s = .ok x) : x.u.dim = d := by
  cases s with
  | num v => simp [processScalar] at hx; subst hx; rfl
  | text v us =>
    simp only [processScalar] at hx
    cases hp : parseUnits us with
    | error e => simp [hp] at hx
    | ok u' =>
      simp only [hp] at hx
      by_cases hd : u'.dim = d
      · simp [hd] at hx; subst hx; exact hd
      · simp [hd] at hx
  | badText => simp [processScalar] at hx
  | uval y =>
    simp only [processScalar] at hx
    by_cases hd : y.u.dim = d
    · simp [hd] at hx; subst hx; exact hd
    · simp [hd] at hx

theorem kDictSet_keys {α} (d : List (String × α)) (k : String) (v : α) :
    (kDictSet d k v).map (·.1) = if k ∈ d.map (·.1) then d.map (·.1) else d.map (·.1) ++ [k] := by
  unfold kDictSet
  by_cases h : d.any (·.1 == k) = true
  · have hm : k ∈ d.map (·.1) := by
      simp only [List.any_eq_true, beq_iff_eq] at h
      obtain ⟨p, hp, hpe⟩ := h
      exact List.mem_map.mpr ⟨p, hp, hpe⟩
    simp only [h, ↓reduceIte, hm, List.map_map]
    apply List.map_congr_left
    intro p hp
    by_cases hpk : (p.1 == k) = true
    · simp only [Function.comp, hpk, ↓reduceIte]; exact (beq_iff_eq.mp hpk).symm
    · simp [Function.comp, hpk]
  · have hm : k ∉ d.map (·.1) := by
      intro hm
      obtain ⟨p, hp, hpe⟩ := List.mem_map.mp hm
      apply h
      simp only [List.any_eq_true, beq_iff_eq]
      exact ⟨p, hp, hpe⟩
    simp [h, hm]

theorem kDictSet_mem {α} (d : List (String × α)) (k : String) (v : α) (p : String × α) (hp : p ∈ kDictSet d k v) :
    p ∈ d ∨ p = (k, v) := by
  unfold kDictSet at hp
  by_cases h : d.any (·.1 == k) = true
  · simp only [h, ↓reduceIte, List.mem_map] at hp
    obtain ⟨q, hq, hqe⟩ := hp
    by_cases hqk : (q.1 == k) = true
    · simp only [hqk, ↓reduceIte] at hqe; exact Or.inr hqe.symm
    · simp only [hqk, Bool.false_eq_true, ↓reduceIte] at hqe; exact Or.inl (hqe ▸ hq)
  · simp only [h, Bool.false_eq_true, ↓reduceIte, List.mem_append, List.mem_singleton] at hp
    exact hp

theorem kDictSet_wf (d : List (String × UVal)) (dim : Dim) (k : String) (x : UVal) (hd : KDictWF d dim)
    (hx : x.u.dim = dim) (hk : splitKeys k = [k]) : KDictWF (kDictSet d k x) dim := by
  refine ⟨?_, ?_, ?_⟩
  · rw [kDictSet_keys]
    by_cases hm : k ∈ d.map (·.1)
    · simp only [hm, ↓reduceIte]; exact hd.nodup
    · simp only [hm, ↓reduceIte]
      rw [List.nodup_append]
      refine ⟨hd.nodup, by simp, ?_⟩
      intro a ha b hb
      simp only [List.mem_singleton] at hb
      subst hb
      exact fun e => hm (e ▸ ha)
  · intro p hp
    rcases kDictSet_mem d k x p hp with h | h
    · exact hd.dims p h
    · subst h; exact hx
  · intro p hp
    rcases kDictSet_mem d k x p hp with h | h
    · exact hd.keys p h
    · subst h; exact hk

theorem foldl_kDictSet_wf (keys : List String) (d : List (String × UVal)) (dim : Dim) (x : UVal) (hd : KDictWF d dim)
    (hx : x.u.dim = dim) (hk : ∀ k ∈ keys, splitKeys k = [k]) :
    KDictWF (keys.foldl (fun o ki => kDictSet o ki x) d) dim := by
  induction keys generalizing d with
  | nil => exact hd
  | cons k r ih =>
    exact ih _ (kDictSet_wf d dim k x hd hx (hk k List.mem_cons_self)) (fun k' hk' => hk k' (List.mem_cons_of_mem _ hk'))

theorem processDict_wf (sys : Sys) (dim : Dim) (l : List (String × Scalar)) (out o : List (String × UVal))
    (hout : KDictWF out dim) (h : processDict sys dim l out = .ok o) : KDictWF o dim := by
  induction l generalizing out with
  | nil => simp only [processDict, Except.ok.injEq] at h; exact h ▸ hout
  | cons p r ih =>
    obtain ⟨k, s⟩ := p
    simp only [processDict] at h
    cases hs : processScalar sys dim s with
    | error e => simp [hs] at h
    | ok x =>
      simp only [hs] at h
      exact ih _ (foldl_kDictSet_wf _ out dim x hout (processScalar_dim sys dim s x hs) (splitKeys_canonical k)) h

/-- every constant the setters store is well-formed: of the order's dimension, dictionaries with canonical keys -/
theorem processKInput_wf (sys : Sys) (dim : Dim) (kin : KIn) (kv : KVal) (h : processKInput sys dim kin = .ok kv) :
    kv.WF dim := by
  cases kin with
  | scalar s =>
    simp only [processKInput] at h
    cases hs : processScalar sys dim s with
    | error e => simp [hs] at h
    | ok x => simp only [hs, Except.ok.injEq] at h; subst h; exact processScalar_dim sys dim s x hs
  | dict d =>
    simp only [processKInput] at h
    cases hs : processDict sys dim d [] with
    | error e => simp [hs] at h
    | ok o =>
      simp only [hs, Except.ok.injEq] at h; subst h
      exact processDict_wf sys dim d [] o ⟨by simp, by simp, by simp⟩ hs
  | array => simp [processKInput] at h

/-- handing a stored dictionary to the setter again stores the same dictionary -/
theorem processDict_again (sys : Sys) (dim : Dim) (d out : List (String × UVal)) (hd : KDictWF d dim)
    (hdis : ∀ k ∈ d.map (·.1), k ∉ out.map (·.1)) :
    processDict sys dim (d.map fun (k, x) => (k, Scalar.uval x)) out = .ok (out ++ d) := by
  induction d generalizing out with
  | nil => simp [processDict]
  | cons p r ih =>
    obtain ⟨k, x⟩ := p
    have hx : x.u.dim = dim := hd.dims (k, x) List.mem_cons_self
    have hk : splitKeys k = [k] := hd.keys (k, x) List.mem_cons_self
    have hnd := hd.nodup
    simp only [List.map_cons, List.nodup_cons] at hnd
    have hkout : k ∉ out.map (·.1) := hdis k (by simp)
    have hset : kDictSet out k x = out ++ [(k, x)] := by
      unfold kDictSet
      have : out.any (·.1 == k) = false := by
        rw [List.any_eq_false]
        intro q hq hqk
        exact hkout (List.mem_map.mpr ⟨q, hq, beq_iff_eq.mp hqk⟩)
      simp [this]
    simp only [List.map_cons, processDict, processScalar, hx, bne_self_eq_false, Bool.false_eq_true, ↓reduceIte, hk,
      List.foldl_cons, List.foldl_nil, hset]
    rw [ih (out ++ [(k, x)]) ⟨hnd.2, fun p hp => hd.dims p (List.mem_cons_of_mem _ hp),
      fun p hp => hd.keys p (List.mem_cons_of_mem _ hp)⟩]
    · simp
    · intro k' hk' hin
      simp only [List.map_append, List.map_cons, List.map_nil, List.mem_append, List.mem_singleton] at hin
      rcases hin with hin | hin
      · exact hdis k' (by simp [hk']) hin
      · exact hnd.1 (hin ▸ hk')

theorem processKInput_again (sys : Sys) (dim : Dim) (kv : KVal) (h : kv.WF dim) :
    processKInput sys dim kv.toIn = .ok kv := by
  cases kv with
  | scalar x =>
    have hx : x.u.dim = dim := h
    simp [KVal.toIn, processKInput, processScalar, hx]
  | dict d =>
    have := processDict_again sys dim d [] h (by simp)
    simp only [KVal.toIn, processKInput]
    rw [this]; simp

end Strengths
