/-
Helper lemmas about the reaction / network model (dictionaries of sides, Python string primitives).
-/
import Strengths.Model.Network
import Strengths.Proofs.Units
import Strengths.Proofs.UnitsText

namespace Strengths
open Gen

/-! ### sides as dictionaries -/

/-- the abstract terms of one side: (coefficient, label) in written order -/
abbrev Terms := List (Int × Label)

/-- Spec-side meaning of a term list: repeats summed, first-occurrence order -/
def sumRepeats (ts : Terms) : Side := ts.foldl (fun d t => d.add t.2 t.1) []

/-- sum of the coefficients written for label `l` -/
def coefSum (ts : Terms) (l : Label) : Int := ((ts.filter fun t => t.2 == l).map (·.1)).sum

theorem foldl_add_eq (l : List Int) (a : Int) : l.foldl (· + ·) a = a + l.sum := by
  induction l generalizing a with
  | nil => simp
  | cons x r ih => simp [List.foldl, ih, Int.add_assoc]

theorem Side.order_eq_sum (d : Side) : d.order = (d.map (·.2)).sum := by
  simp [Side.order, foldl_add_eq]

theorem lookup_bump (l : Label) (c : Int) (d : Side) (l' : Label) :
    (Side.bump l c d).lookup l' = if l' = l then (d.lookup l').map (· + c) else d.lookup l' := by
  induction d with
  | nil => simp [Side.bump]
  | cons p r ih =>
    obtain ⟨k, v⟩ := p
    simp only [Side.bump]
    by_cases hk : k = l
    · subst hk
      by_cases hl : l' = k
      · subst hl; simp [List.lookup]
      · have : (l' == k) = false := by simpa using hl
        simp [List.lookup, this, hl]
    · have hk' : (k == l) = false := by simpa using hk
      simp only [hk', Bool.false_eq_true, ↓reduceIte]
      by_cases hl : l' = k
      · subst hl
        simp [List.lookup, hk]
      · have : (l' == k) = false := by simpa using hl
        simp only [List.lookup, this, ih]

theorem lookup_append_single (d : Side) (l : Label) (c : Int) (l' : Label) (h : d.lookup l = none) :
    (d ++ [(l, c)]).lookup l' = if l' = l then some c else d.lookup l' := by
  induction d with
  | nil =>
    by_cases hl : l' = l
    · simp [List.lookup, hl]
    · have : (l' == l) = false := by simpa using hl
      simp [List.lookup, hl, this]
  | cons p r ih =>
    obtain ⟨k, v⟩ := p
    by_cases hk : l = k
    · subst hk; simp [List.lookup] at h
    · have hk' : (l == k) = false := by simpa using hk
      simp only [List.lookup, hk'] at h
      by_cases hl : l' = k
      · subst hl
        have : ¬ l' = l := fun e => hk e.symm
        simp [List.lookup, this]
      · have : (l' == k) = false := by simpa using hl
        simp only [List.cons_append, List.lookup, this, ih h]

/-- coefficient after `d[label] = coef` / `d[label] += coef` -/
theorem coef_add (d : Side) (l : Label) (c : Int) (l' : Label) :
    (d.add l c).coef l' = d.coef l' + (if l' = l then c else 0) := by
  unfold Side.add Side.coef
  cases h : d.lookup l with
  | none =>
    simp only [lookup_append_single d l c l' h]
    by_cases hl : l' = l
    · subst hl; simp [h]
    · simp [hl]
  | some v =>
    simp only [lookup_bump]
    by_cases hl : l' = l
    · subst hl; simp [h]
    · simp [hl]

theorem order_bump (l : Label) (c : Int) (d : Side) (v : Int) (h : d.lookup l = some v) :
    ((Side.bump l c d).map (·.2)).sum = (d.map (·.2)).sum + c := by
  induction d with
  | nil => simp [List.lookup] at h
  | cons p r ih =>
    obtain ⟨k, w⟩ := p
    simp only [Side.bump]
    by_cases hk : k = l
    · subst hk; simp; omega
    · have hk' : (k == l) = false := by simpa using hk
      have hl : (l == k) = false := by simpa using fun e : l = k => hk e.symm
      simp only [List.lookup, hl] at h
      simp [hk', ih h]; omega

/-- order after adding one term -/
theorem order_add (d : Side) (l : Label) (c : Int) : (d.add l c).order = d.order + c := by
  rw [Side.order_eq_sum, Side.order_eq_sum]
  unfold Side.add
  cases h : d.lookup l with
  | none => simp
  | some v => simpa using order_bump l c d v h

theorem coef_foldl_add (ts : Terms) (d : Side) (l : Label) :
    (ts.foldl (fun d t => d.add t.2 t.1) d).coef l = d.coef l + coefSum ts l := by
  induction ts generalizing d with
  | nil => simp [coefSum]
  | cons t r ih =>
    simp only [List.foldl, ih, coef_add, coefSum, List.filter]
    by_cases h : l = t.2
    · have : (t.2 == l) = true := by simpa using h.symm
      simp [h, this]; omega
    · have : (t.2 == l) = false := by simpa using fun e : t.2 = l => h e.symm
      simp [h, this]

theorem order_foldl_add (ts : Terms) (d : Side) :
    (ts.foldl (fun d t => d.add t.2 t.1) d).order = d.order + (ts.map (·.1)).sum := by
  induction ts generalizing d with
  | nil => simp
  | cons t r ih => simp only [List.foldl, ih, order_add, List.map_cons, List.sum_cons]; omega

/-- per-species coefficient of the summed dictionary = sum of the coefficients written for that species -/
theorem coef_sumRepeats (ts : Terms) (l : Label) : (sumRepeats ts).coef l = coefSum ts l := by
  unfold sumRepeats
  rw [coef_foldl_add]
  simp [Side.coef]

/-- order = sum of all written coefficients -/
theorem order_sumRepeats (ts : Terms) : (sumRepeats ts).order = (ts.map (·.1)).sum := by
  unfold sumRepeats
  rw [order_foldl_add]
  simp [Side.order]

/-! ### network validity -/

theorem dupIn_iff (l seen : List (Option Label)) :
    dupIn l seen = true ↔ ¬ l.Nodup ∨ ∃ x ∈ l, x ∈ seen := by
  induction l generalizing seen with
  | nil => simp [dupIn]
  | cons a r ih =>
    simp only [dupIn]
    by_cases h : seen.contains a = true
    · have hm : a ∈ seen := List.contains_iff_mem.mp h
      simp only [h, ↓reduceIte, true_iff]
      exact Or.inr ⟨a, List.mem_cons_self, hm⟩
    · have hm : a ∉ seen := fun hh => h (List.contains_iff_mem.mpr hh)
      simp only [h, Bool.false_eq_true, ↓reduceIte, ih, List.nodup_cons, List.mem_cons]
      constructor
      · rintro (hnd | ⟨x, hx, hxs⟩)
        · exact Or.inl (fun hh => hnd hh.2)
        · rcases hxs with rfl | hxs
          · exact Or.inl (fun hh => hh.1 hx)
          · exact Or.inr ⟨x, Or.inr hx, hxs⟩
      · rintro (hnd | ⟨x, hx, hxs⟩)
        · by_cases har : a ∈ r
          · exact Or.inr ⟨a, har, Or.inl rfl⟩
          · exact Or.inl (fun hh => hnd ⟨har, hh⟩)
        · rcases hx with rfl | hx
          · exact absurd hxs hm
          · exact Or.inr ⟨x, hx, Or.inr hxs⟩

theorem dupIn_nil_iff (l : List (Option Label)) : dupIn l [] = true ↔ ¬ l.Nodup := by
  simp [dupIn_iff]

end Strengths

namespace Strengths
open Gen

/-! ### Python `split` on the equation text -/

theorem splitChar_ne_nil (sep : Char) (s : List Char) : splitChar sep s ≠ [] := by
  induction s with
  | nil => simp [splitChar]
  | cons c cs ih =>
    simp only [splitChar]
    split
    · simp
    · split <;> simp

/-- no separator inside: one piece -/
theorem splitChar_of_not_mem (sep : Char) (s : List Char) (h : sep ∉ s) : splitChar sep s = [s] := by
  induction s with
  | nil => rfl
  | cons c cs ih =>
    have hc : (c == sep) = false := by
      simp only [beq_eq_false_iff_ne, ne_eq]; intro e; exact h (e ▸ List.mem_cons_self)
    simp only [splitChar, hc, Bool.false_eq_true, ↓reduceIte, ih (fun hm => h (List.mem_cons_of_mem _ hm))]

/-- first separator: `a ++ sep :: b` splits into `a` and the pieces of `b` -/
theorem splitChar_append (sep : Char) (a b : List Char) (h : sep ∉ a) :
    splitChar sep (a ++ sep :: b) = a :: splitChar sep b := by
  induction a with
  | nil => simp [splitChar]
  | cons c cs ih =>
    have hc : (c == sep) = false := by
      simp only [beq_eq_false_iff_ne, ne_eq]; intro e; exact h (e ▸ List.mem_cons_self)
    simp only [List.cons_append, splitChar, hc, Bool.false_eq_true, ↓reduceIte,
      ih (fun hm => h (List.mem_cons_of_mem _ hm))]

/-- `sep.join(tokens)` for a non-empty token list -/
def joinChar (sep : Char) : List Char → List (List Char) → List Char
  | t, [] => t
  | t, u :: r => t ++ sep :: joinChar sep u r

/-- tokens joined by the separator split back into the tokens -/
theorem splitChar_join (sep : Char) (t : List Char) (ts : List (List Char)) (h : ∀ x ∈ t :: ts, sep ∉ x) :
    splitChar sep (joinChar sep t ts) = t :: ts := by
  induction ts generalizing t with
  | nil => simpa [joinChar] using splitChar_of_not_mem sep t (h t List.mem_cons_self)
  | cons u r ih =>
    simp only [joinChar]
    rw [splitChar_append sep t _ (h t List.mem_cons_self), ih u (fun x hx => h x (List.mem_cons_of_mem _ hx))]

/-- does the text contain the two-character sequence `a b`? -/
def hasPair (a b : Char) : List Char → Bool
  | c :: d :: cs => (c == a && d == b) || hasPair a b (d :: cs)
  | _ => false

theorem splitTwo_of_noPair (a b : Char) (s : List Char) (h : hasPair a b s = false) : splitTwo a b s = [s] := by
  induction s with
  | nil => rfl
  | cons c cs ih =>
    cases cs with
    | nil => rfl
    | cons d r =>
      simp only [hasPair, Bool.or_eq_false_iff] at h
      simp only [splitTwo, h.1, Bool.false_eq_true, ↓reduceIte, ih h.2]

/-- the first occurrence of the separator is where the pair-free prefix ends -/
theorem splitTwo_append (a b : Char) (hab : a ≠ b) (l r : List Char) (h : hasPair a b l = false) :
    splitTwo a b (l ++ a :: b :: r) = l :: splitTwo a b r := by
  induction l with
  | nil => simp [splitTwo]
  | cons c cs ih =>
    cases cs with
    | nil =>
      have hba : (a == b) = false := by simpa using hab
      have : (c == a && a == b) = false := by simp [hba]
      have h0 := ih (by simp [hasPair])
      simp only [List.nil_append] at h0
      show splitTwo a b (c :: a :: (b :: r)) = [c] :: splitTwo a b r
      rw [splitTwo]
      simp only [this, Bool.false_eq_true, ↓reduceIte]
      rw [h0]
    | cons d r' =>
      simp only [hasPair, Bool.or_eq_false_iff] at h
      have h0 := ih h.2
      simp only [List.cons_append] at h0 ⊢
      rw [splitTwo]
      simp only [h.1, Bool.false_eq_true, ↓reduceIte]
      rw [h0]

end Strengths

namespace Strengths
open Gen

/-! ### words, blanks, tokens -/

def AllBlank (s : List Char) : Prop := ∀ c ∈ s, isBlank c = true
/-- a non-empty run of non-blank characters -/
def IsWord (w : List Char) : Prop := w ≠ [] ∧ ∀ c ∈ w, isBlank c = false

theorem pyWordsAux_blanks (a rest : List Char) (ha : AllBlank a) : pyWordsAux (a ++ rest) [] = pyWordsAux rest [] := by
  induction a with
  | nil => rfl
  | cons c cs ih =>
    have hc := ha c List.mem_cons_self
    simp only [List.cons_append, pyWordsAux, hc, ↓reduceIte, List.isEmpty_nil]
    exact ih (fun x hx => ha x (List.mem_cons_of_mem _ hx))

theorem pyWordsAux_nonblanks (w rest cur : List Char) (hw : ∀ c ∈ w, isBlank c = false) :
    pyWordsAux (w ++ rest) cur = pyWordsAux rest (w.reverse ++ cur) := by
  induction w generalizing cur with
  | nil => rfl
  | cons c cs ih =>
    have hc := hw c List.mem_cons_self
    simp only [List.cons_append, pyWordsAux, hc, Bool.false_eq_true, ↓reduceIte]
    rw [ih _ (fun x hx => hw x (List.mem_cons_of_mem _ hx))]
    simp

theorem pyWordsAux_allBlank_tail (b cur : List Char) (hb : AllBlank b) (hc : cur ≠ []) :
    pyWordsAux b cur = [cur.reverse] := by
  cases b with
  | nil => simp [pyWordsAux, hc]
  | cons c cs =>
    have h1 := hb c List.mem_cons_self
    have h2 : cur.isEmpty = false := by cases cur <;> simp_all
    simp only [pyWordsAux, h1, ↓reduceIte, h2, Bool.false_eq_true]
    have := pyWordsAux_blanks cs [] (fun x hx => hb x (List.mem_cons_of_mem _ hx))
    simp only [List.append_nil] at this
    rw [this]; simp [pyWordsAux]

/-- `(blanks ++ word ++ blanks).split() = [word]` -/
theorem pyWords_one (a w b : List Char) (ha : AllBlank a) (hw : IsWord w) (hb : AllBlank b) :
    pyWords (a ++ w ++ b) = [w] := by
  unfold pyWords
  rw [List.append_assoc, pyWordsAux_blanks a _ ha, pyWordsAux_nonblanks w b [] hw.2]
  rw [pyWordsAux_allBlank_tail b _ hb (by simpa using hw.1)]
  simp

/-- `(blanks ++ word₁ ++ blanks⁺ ++ word₂ ++ blanks).split() = [word₁, word₂]` -/
theorem pyWords_two (a w1 m w2 b : List Char) (ha : AllBlank a) (h1 : IsWord w1) (hm : AllBlank m) (hmne : m ≠ [])
    (h2 : IsWord w2) (hb : AllBlank b) : pyWords (a ++ w1 ++ m ++ w2 ++ b) = [w1, w2] := by
  unfold pyWords
  have e : a ++ w1 ++ m ++ w2 ++ b = a ++ (w1 ++ (m ++ (w2 ++ b))) := by simp
  rw [e, pyWordsAux_blanks a _ ha, pyWordsAux_nonblanks w1 _ [] h1.2]
  cases m with
  | nil => exact absurd rfl hmne
  | cons c cs =>
    have hc := hm c List.mem_cons_self
    have hne : (w1.reverse ++ []).isEmpty = false := by
      have := h1.1; cases w1 <;> simp_all
    simp only [List.cons_append, pyWordsAux, hc, ↓reduceIte, hne, Bool.false_eq_true]
    rw [pyWordsAux_blanks cs _ (fun x hx => hm x (List.mem_cons_of_mem _ hx)), pyWordsAux_nonblanks w2 b [] h2.2]
    rw [pyWordsAux_allBlank_tail b _ hb (by simpa using h2.1)]
    simp

theorem dropWhile_all (p : Char → Bool) (l : List Char) (h : ∀ x ∈ l, p x = true) : l.dropWhile p = [] := by
  induction l with
  | nil => rfl
  | cons c cs ih => simp [List.dropWhile, h c List.mem_cons_self, ih (fun x hx => h x (List.mem_cons_of_mem _ hx))]

theorem dropWhile_blank_word_like (s : List Char) (h : ∀ c, s.head? = some c → isBlank c = false) :
    s.dropWhile isBlank = s := by
  cases s with
  | nil => rfl
  | cons c cs => simp [List.dropWhile, h c rfl]

/-- `(blanks ++ body ++ blanks).strip() = body` when `body` starts and ends with a non-blank character -/
theorem stripBlank_core (a body b : List Char) (ha : AllBlank a) (hb : AllBlank b)
    (hh : ∀ c, body.head? = some c → isBlank c = false) (hl : ∀ c, body.getLast? = some c → isBlank c = false) :
    stripBlank (a ++ body ++ b) = body := by
  unfold stripBlank stripBy
  have e1 : (a ++ body ++ b).dropWhile isBlank = (body ++ b).dropWhile isBlank := by
    rw [List.append_assoc]
    exact List.dropWhile_append_of_pos (fun x hx => ha x hx)
  rw [e1]
  cases body with
  | nil =>
    simp only [List.nil_append]
    have : b.dropWhile isBlank = [] := dropWhile_all _ b (fun x hx => hb x hx)
    simp [this]
  | cons c cs =>
    have hc := hh c rfl
    have e2 : ((c :: cs) ++ b).dropWhile isBlank = (c :: cs) ++ b := by simp [List.dropWhile, hc]
    rw [e2, List.reverse_append]
    have e3 : (b.reverse ++ (c :: cs).reverse).dropWhile isBlank = ((c :: cs).reverse).dropWhile isBlank :=
      List.dropWhile_append_of_pos (fun x hx => hb x (List.mem_reverse.mp hx))
    rw [e3, dropWhile_blank_word_like _ (by
      intro x hx
      apply hl x
      rw [List.head?_reverse] at hx
      exact hx)]
    simp

theorem IsWord.head_last (w : List Char) (hw : IsWord w) :
    (∀ c, w.head? = some c → isBlank c = false) ∧ (∀ c, w.getLast? = some c → isBlank c = false) := by
  constructor
  · intro c hc; exact hw.2 c (List.mem_of_mem_head? hc)
  · intro c hc; exact hw.2 c (List.mem_of_getLast? hc)

theorem stripBlank_word (w : List Char) (hw : IsWord w) : stripBlank w = w := by
  have := stripBlank_core [] w [] (fun _ h => by cases h) (fun _ h => by cases h) hw.head_last.1 hw.head_last.2
  simpa using this

/-- a term written without coefficient: `blanks label blanks` -/
theorem parseToken_label (a w b : List Char) (ha : AllBlank a) (hw : IsWord w) (hb : AllBlank b) :
    parseToken (a ++ w ++ b) = .ok (1, w) := by
  unfold parseToken
  rw [stripBlank_core a w b ha hb hw.head_last.1 hw.head_last.2]
  have := pyWords_one [] w [] (fun _ h => by cases h) hw (fun _ h => by cases h)
  simp only [List.nil_append, List.append_nil] at this
  rw [this]
  simp [stripBlank_word w hw]

/-- a term written with a coefficient text `n`: `blanks n blanks⁺ label blanks` -/
theorem parseToken_coef (a n m w b : List Char) (c : Int) (ha : AllBlank a) (hn : IsWord n) (hm : AllBlank m) (hmne : m ≠ [])
    (hw : IsWord w) (hb : AllBlank b) (hc : pyInt n = some c) :
    parseToken (a ++ n ++ m ++ w ++ b) = .ok (c, w) := by
  unfold parseToken
  have e : a ++ n ++ m ++ w ++ b = a ++ (n ++ m ++ w) ++ b := by simp
  rw [e, stripBlank_core a (n ++ m ++ w) b ha hb]
  · have := pyWords_two [] n m w [] (fun _ h => by cases h) hn hm hmne hw (fun _ h => by cases h)
    simp only [List.nil_append, List.append_nil] at this
    rw [this]
    simp [stripBlank_word n hn, stripBlank_word w hw, hc]
  · intro x hx
    apply hn.2 x
    have hne := hn.1
    cases n with
    | nil => exact absurd rfl hne
    | cons y ys => simp at hx; simp [hx]
  · intro x hx
    apply hw.2 x
    have hne := hw.1
    have : (n ++ m ++ w).getLast? = w.getLast? := by
      rw [List.getLast?_append_of_ne_nil _ hne]
    rw [this] at hx
    exact List.mem_of_getLast? hx

end Strengths

namespace Strengths
open Gen

/-! ### sides and equations -/

theorem parseTokens_ok (toks : List (List Char)) (terms : Terms)
    (h : List.Forall₂ (fun tok t => parseToken tok = .ok t) toks terms) (d : Side) :
    parseTokens toks d = .ok (terms.foldl (fun d t => d.add t.2 t.1) d) := by
  induction h generalizing d with
  | nil => rfl
  | cons hx _ ih => simp only [parseTokens, hx, List.foldl]; exact ih _

theorem parseToken_ok_nonempty (tok : List Char) (t : Int × Label) (h : parseToken tok = .ok t) :
    (stripBlank tok).isEmpty = false := by
  cases hs : stripBlank tok with
  | nil => simp [parseToken, hs, pyWords, pyWordsAux] at h
  | cons c cs => rfl

/-- a non-empty side: tokens joined by `+` -/
theorem parseSide_terms (t : List Char) (ts : List (List Char)) (terms : Terms)
    (hplus : ∀ x ∈ t :: ts, '+' ∉ x) (h : List.Forall₂ (fun tok tm => parseToken tok = .ok tm) (t :: ts) terms) :
    parseSide (joinChar '+' t ts) = .ok (sumRepeats terms) := by
  unfold parseSide
  simp only [splitChar_join '+' t ts hplus]
  have hne : (stripBlank t).isEmpty = false := by
    cases h with
    | cons hx _ => exact parseToken_ok_nonempty t _ hx
  simp only [List.headD_cons, hne, Bool.and_false, Bool.false_eq_true, ↓reduceIte]
  exact parseTokens_ok _ _ h []

/-- an empty side: blanks only -/
theorem parseSide_empty (a : List Char) (ha : AllBlank a) : parseSide a = .ok [] := by
  unfold parseSide
  have hp : '+' ∉ a := fun hm => by have := ha _ hm; revert this; decide
  have hs : stripBlank a = [] := by
    have := stripBlank_core a [] [] ha (fun _ h => by cases h) (fun _ h => by cases h) (fun _ h => by cases h)
    simpa using this
  simp [splitChar_of_not_mem '+' a hp, hs]

/-- the whole equation: the two sides around the first (and only) arrow -/
theorem parseEquation_sides (l r : List Char) (hl : hasPair '-' '>' l = false) (hr : hasPair '-' '>' r = false) :
    parseEquation (l ++ '-' :: '>' :: r) =
      match parseSide l with
      | .error e => .error e
      | .ok sub => match parseSide r with
        | .error e => .error e
        | .ok prod => .ok (sub, prod) := by
  unfold parseEquation
  rw [splitTwo_append '-' '>' (by decide) l r hl, splitTwo_of_noPair '-' '>' r hr]
  rfl

end Strengths
