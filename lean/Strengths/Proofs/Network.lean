/-
Helper lemmas about the reaction / network model (Python string primitives, dictionaries of sides).
-/
import Strengths.Model.Network
import Strengths.Proofs.Units

namespace Strengths

end Strengths
