/-
The fixed-step clock and the completion step (C09 / C10), completion is absorbing (C08 / C10), and the
shape and order of the exported buffer (C09).
-/
import Strengths.Proofs.SamplerCover

namespace Strengths
namespace SimSt
variable {σ ω : Type} (A : Algo σ ω) (cfg : SamplerCfg)

/-! ### completion is absorbing -/

theorem iter_of_complete (s : SimSt σ ω) (h : s.complete = true) (n : Nat) :
    (iter A cfg n s).complete = true ∧ (iter A cfg n s).t = s.t ∧ (iter A cfg n s).x = s.x ∧
    (iter A cfg n s).recs = s.recs ∧ (iter A cfg n s).samplePos = s.samplePos ∧ (iter A cfg n s).lastTsi = s.lastTsi := by
  induction n with
  | zero => exact ⟨h, rfl, rfl, rfl, rfl, rfl⟩
  | succ n ih =>
    rw [iter_succ]
    obtain ⟨hc, ht, hx, hr, hp, hl⟩ := ih
    unfold next
    rw [iterate_of_complete A cfg _ hc]
    exact ⟨hc, ht, hx, hr, hp, hl⟩

/-- equal up to the per-iteration flag -/
def Same (s s' : SimSt σ ω) : Prop :=
  s.x = s'.x ∧ s.t = s'.t ∧ s.samplePos = s'.samplePos ∧ s.lastTsi = s'.lastTsi ∧ s.complete = s'.complete ∧ s.recs = s'.recs

theorem Same.refl (s : SimSt σ ω) : Same s s := ⟨rfl, rfl, rfl, rfl, rfl, rfl⟩

theorem iterate_congr (s s' : SimSt σ ω) (h : Same s s') : iterate A cfg s = iterate A cfg s' := by
  obtain ⟨h1, h2, h3, h4, h5, h6⟩ := h
  have : ({ s with done := false } : SimSt σ ω) = { s' with done := false } := by
    cases s; cases s'; simp_all
  rw [← iterate_done_irrelevant A cfg s false, ← iterate_done_irrelevant A cfg s' false, this]

theorem next_same_of_complete (s : SimSt σ ω) (h : s.complete = true) : Same (next A cfg s) s := by
  unfold next; rw [iterate_of_complete A cfg s h]; exact ⟨rfl, rfl, rfl, rfl, rfl, rfl⟩

/-! ### fixed-step clock -/

/-- every step advances the clock by `dt` (Euler, tau-leap) -/
def FixedStep (A : Algo σ ω) (dt : Rat) : Prop := ∀ x, ∃ x', A.step x = some (x', dt)

/-- the first `n` with `n·dt > t_max` -/
def stepCount (tMax dt : Rat) : Nat := (tMax / dt).floor.toNat + 1

theorem beyond_iff (tMax dt : Rat) (hdt : 0 < dt) (htm : 0 ≤ tMax) (n : Nat) :
    tMax < (n : Rat) * dt ↔ stepCount tMax dt ≤ n := by
  have h0 : 0 ≤ (tMax / dt).floor := by
    rw [le_floor_iff' tMax dt hdt]; simpa using htm
  have h1 := floor_lt_iff tMax dt hdt (n : Int)
  simp only [Int.cast_natCast] at h1
  rw [← h1]
  unfold stepCount
  omega

theorem fixed_clock {dt : Rat} (hfs : FixedStep A dt) (hdt : 0 < dt) (htm : 0 ≤ cfg.tMax) (x0 : σ) (n : Nat)
    (hn : n ≤ stepCount cfg.tMax dt) :
    (iter A cfg n (init A cfg x0)).t = (n : Rat) * dt ∧
    ((iter A cfg n (init A cfg x0)).complete = true ↔ n = stepCount cfg.tMax dt) := by
  induction n with
  | zero =>
    refine ⟨by simp [iter, init_t], ?_⟩
    simp only [iter, init_complete]
    unfold stepCount
    constructor
    · intro h; cases h
    · intro h; omega
  | succ n ih =>
    obtain ⟨ht, hc⟩ := ih (by omega)
    rw [iter_succ]
    generalize iter A cfg n (init A cfg x0) = s at ht hc ⊢
    have hnc : s.complete = false := by
      cases hcc : s.complete with
      | false => rfl
      | true => have := hc.mp hcc; omega
    obtain ⟨x', hs⟩ := hfs s.x
    have hnext : next A cfg s = checkTMax cfg (samplingStep A cfg (advanced s x' dt)) := by
      unfold next; rw [iterate_of_step A cfg s hnc hs]
    have ht' : (next A cfg s).t = ((n + 1 : Nat) : Rat) * dt := by
      rw [hnext, checkTMax_t, samplingStep_t]
      simp only [advanced, ht]; push_cast; ring
    refine ⟨ht', ?_⟩
    rw [hnext, checkTMax_complete, samplingStep_complete, samplingStep_t]
    simp only [advanced, hnc, Bool.false_or, decide_eq_true_eq]
    rw [ht]
    have hb := beyond_iff cfg.tMax dt hdt htm (n + 1)
    have he : (n : Rat) * dt + dt = ((n + 1 : Nat) : Rat) * dt := by push_cast; ring
    rw [he]
    constructor
    · rintro ⟨_, h⟩; have := hb.mp h; omega
    · intro h; exact ⟨htm, hb.mpr (by omega)⟩

/-- a fixed-step run performs exactly the steps `n·dt` up to the first one beyond `t_max`, then stays -/
theorem fixed_run {dt : Rat} (hfs : FixedStep A dt) (hdt : 0 < dt) (htm : 0 ≤ cfg.tMax) (x0 : σ) (n : Nat) :
    (iter A cfg n (init A cfg x0)).t = (min n (stepCount cfg.tMax dt) : Nat) * dt ∧
    ((iter A cfg n (init A cfg x0)).complete = true ↔ stepCount cfg.tMax dt ≤ n) := by
  by_cases hn : n ≤ stepCount cfg.tMax dt
  · obtain ⟨ht, hc⟩ := fixed_clock A cfg hfs hdt htm x0 n hn
    rw [Nat.min_eq_left hn]
    exact ⟨ht, hc.trans ⟨fun h => by omega, fun h => by omega⟩⟩
  · have hN : stepCount cfg.tMax dt ≤ n := by omega
    obtain ⟨k, hk⟩ := Nat.exists_eq_add_of_le hN
    obtain ⟨ht, hc⟩ := fixed_clock A cfg hfs hdt htm x0 (stepCount cfg.tMax dt) (le_refl _)
    have hcc := hc.mpr rfl
    obtain ⟨h1, h2, _⟩ := iter_of_complete A cfg _ hcc k
    rw [hk, iter_add, Nat.min_eq_right (by omega)]
    exact ⟨by rw [h2, ht], ⟨fun _ => by omega, fun _ => h1⟩⟩

/-- what `iterate()` returns during a fixed-step run: `true` until the completing step -/
theorem fixed_iterate_returns {dt : Rat} (hfs : FixedStep A dt) (hdt : 0 < dt) (htm : 0 ≤ cfg.tMax) (x0 : σ) (n : Nat) :
    (iterate A cfg (iter A cfg n (init A cfg x0))).2 = true ↔ n + 1 < stepCount cfg.tMax dt := by
  rw [iterate_snd]
  have h := (fixed_run A cfg hfs hdt htm x0 (n + 1)).2
  rw [iter_succ] at h
  unfold next at h
  cases hc : (iterate A cfg (iter A cfg n (init A cfg x0))).1.complete with
  | false =>
    simp only [Bool.not_false, true_iff]
    rw [hc] at h
    by_contra hh
    have := h.mpr (by omega)
    cases this
  | true =>
    simp only [Bool.not_true, Bool.false_eq_true, false_iff]
    rw [hc] at h
    have := h.mp rfl
    omega

/-- records after a real step: the new (time, state) iff the sampling step fires -/
theorem next_recs_of_step (s : SimSt σ ω) (hc : s.complete = false) {x' : σ} {dt : Rat} (hs : A.step s.x = some (x', dt)) :
    (next A cfg s).recs = if fires cfg (advanced s x' dt) then s.recs ++ [(s.t + dt, A.obs x')] else s.recs := by
  unfold next
  rw [iterate_of_step A cfg s hc hs, checkTMax_recs, samplingStep_recs]
  by_cases hf : fires cfg (advanced s x' dt) = true
  · rw [if_pos hf, if_pos hf, sample_recs]; simp [advanced]
  · rw [if_neg hf, if_neg hf]; rfl

/-- states reachable by `Init`, `Iterate()` and explicit `Sample()` calls in any order -/
inductive Reach (x0 : σ) : SimSt σ ω → Prop where
  | init : Reach x0 (init A cfg x0)
  | next (s : SimSt σ ω) : Reach x0 s → Reach x0 (next A cfg s)
  | sample (s : SimSt σ ω) : Reach x0 s → Reach x0 (s.sample A)

theorem reach_monoInv (hA : NonnegDt A) (x0 : σ) (s : SimSt σ ω) (h : Reach A cfg x0 s) : MonoInv s := by
  induction h with
  | init => exact (init_strictInv A cfg x0).mono
  | next s _ ih => exact next_monoInv A cfg hA s ih
  | sample s _ ih => exact sample_monoInv A s ih

theorem reach_zeroInv (hA : PosDt A) (x0 : σ) (s : SimSt σ ω) (h : Reach A cfg x0 s) : ZeroInv A x0 s := by
  induction h with
  | init => exact init_zeroInv A cfg x0
  | next s _ ih => exact next_zeroInv A cfg hA x0 s ih
  | sample s _ ih => exact sample_zeroInv A x0 s ih

end SimSt

/-! ### the exported buffer -/

theorem getElem?_flatMap_const {α β : Type} (l : List α) (f : α → List β) (m : Nat)
    (h : ∀ a ∈ l, (f a).length = m) (k j : Nat) (hj : j < m) :
    (l.flatMap f)[k * m + j]? = (l[k]?).bind fun a => (f a)[j]? := by
  induction l generalizing k with
  | nil => simp
  | cons a l ih =>
    have ha : (f a).length = m := h a (by simp)
    have hl : ∀ b ∈ l, (f b).length = m := fun b hb => h b (by simp [hb])
    rw [List.flatMap_cons]
    cases k with
    | zero =>
      simp only [Nat.zero_mul, Nat.zero_add, List.getElem?_cons_zero, Option.bind_some]
      rw [List.getElem?_append_left (by omega)]
    | succ k =>
      rw [List.getElem?_append_right (by rw [ha, Nat.succ_mul]; omega)]
      have : (k + 1) * m + j - (f a).length = k * m + j := by rw [ha, Nat.succ_mul]; omega
      rw [this, ih hl k]
      simp

theorem length_flatMap_const {α β : Type} (l : List α) (f : α → List β) (m : Nat)
    (h : ∀ a ∈ l, (f a).length = m) : (l.flatMap f).length = l.length * m := by
  induction l with
  | nil => simp
  | cons a l ih =>
    rw [List.flatMap_cons, List.length_append, h a (by simp), ih (fun b hb => h b (by simp [hb]))]
    simp [Nat.succ_mul]; omega

theorem length_speciesBlock {α : Type} (ns n : Nat) (get : Nat → Nat → α) :
    ((List.range ns).flatMap fun s => (List.range n).map fun i => get i s).length = ns * n := by
  rw [length_flatMap_const _ _ n (by intro a _; simp)]
  simp

theorem length_exportData {α : Type} (ns n : Nat) (recs : List (Nat → Nat → α)) :
    (exportData ns n recs).length = recs.length * (ns * n) := by
  unfold exportData
  exact length_flatMap_const _ _ (ns * n) (fun g _ => length_speciesBlock ns n g)

theorem getElem?_exportData {α : Type} (ns n : Nat) (recs : List (Nat → Nat → α)) (k s c : Nat)
    (hk : k < recs.length) (hs : s < ns) (hc : c < n) :
    (exportData ns n recs)[k * (ns * n) + (s * n + c)]? = some (recs[k] c s) := by
  unfold exportData
  have hlt : s * n + c < ns * n := by
    calc s * n + c < s * n + n := by omega
      _ = (s + 1) * n := by rw [Nat.succ_mul]
      _ ≤ ns * n := Nat.mul_le_mul_right n hs
  rw [getElem?_flatMap_const _ _ (ns * n) (fun g _ => length_speciesBlock ns n g) k _ hlt]
  rw [List.getElem?_eq_getElem hk]
  simp only [Option.bind_some]
  rw [getElem?_flatMap_const _ _ n (by intro a _; simp) s c hc]
  rw [List.getElem?_range hs]
  simp [List.getElem?_range hc]

end Strengths
