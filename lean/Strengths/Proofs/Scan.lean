/-
The cumulative scan used by every "pick an item with probability proportional to its weight" loop of the
engine (`DrawAndApplyEvent`, the correction loop of `GenerateStochasticDistribution`):

    cum = c0; for k: cum += w[k]; if (r < cum) { pick k; break; }

`scanIdx ws r c0` is that loop.  For non-negative weights and `c0 ≤ r` it returns `k` exactly when
`c0 + Σ_{j<k} w_j ≤ r < c0 + Σ_{j≤k} w_j`: the set of `r` selecting `k` is an interval of length `w_k`
(so under a uniform `r` on `[c0, c0 + Σ w)` item `k` is chosen with probability `w_k / Σ w`), items of weight
zero are never chosen, and some item is chosen whenever `r < c0 + Σ w`.
-/
import Strengths.Proofs.Sums

namespace Strengths

/-- the scan loop over a list of weights -/
def scanIdx : List Rat → Rat → Rat → Option Nat
  | [], _, _ => none
  | w :: ws, r, cum => if r < cum + w then some 0 else (scanIdx ws r (cum + w)).map (· + 1)

/-- sum of the first `k` weights -/
def prefixSum (ws : List Rat) (k : Nat) : Rat := (ws.take k).sum

@[simp] theorem prefixSum_zero (ws : List Rat) : prefixSum ws 0 = 0 := by simp [prefixSum]
@[simp] theorem prefixSum_cons_succ (w : Rat) (ws : List Rat) (k : Nat) :
    prefixSum (w :: ws) (k + 1) = w + prefixSum ws k := by simp [prefixSum]
theorem prefixSum_length (ws : List Rat) : prefixSum ws ws.length = ws.sum := by simp [prefixSum]

theorem prefixSum_succ_of_lt (ws : List Rat) (k : Nat) (h : k < ws.length) :
    prefixSum ws (k + 1) = prefixSum ws k + ws[k] := by
  induction ws generalizing k with
  | nil => simp at h
  | cons w ws ih =>
    cases k with
    | zero => simp [prefixSum]
    | succ k =>
      have h' : k < ws.length := by simpa using h
      simp only [prefixSum_cons_succ, ih k h', List.getElem_cons_succ]; ring

theorem list_sum_nonneg {ws : List Rat} (h : ∀ w ∈ ws, 0 ≤ w) : 0 ≤ ws.sum := by
  induction ws with
  | nil => simp
  | cons w ws ih =>
    simp only [List.sum_cons]
    have := h w (by simp)
    have := ih (fun v hv => h v (by simp [hv]))
    linarith

theorem prefixSum_nonneg {ws : List Rat} (h : ∀ w ∈ ws, 0 ≤ w) (k : Nat) : 0 ≤ prefixSum ws k :=
  list_sum_nonneg (fun w hw => h w (List.mem_of_mem_take hw))

theorem prefixSum_le_sum {ws : List Rat} (h : ∀ w ∈ ws, 0 ≤ w) (k : Nat) : prefixSum ws k ≤ ws.sum := by
  have h1 : (ws.take k).sum + (ws.drop k).sum = ws.sum := List.sum_take_add_sum_drop ws k
  have h2 : 0 ≤ (ws.drop k).sum := list_sum_nonneg (fun w hw => h w (List.mem_of_mem_drop hw))
  unfold prefixSum; linarith

/-- soundness: what a successful scan guarantees (no sign condition needed for the upper bound) -/
theorem scanIdx_some {ws : List Rat} {r cum : Rat} {k : Nat} (h : scanIdx ws r cum = some k) :
    k < ws.length ∧ r < cum + prefixSum ws (k + 1) ∧ (∀ j, j < k → cum + prefixSum ws (j + 1) ≤ r) := by
  induction ws generalizing cum k with
  | nil => simp [scanIdx] at h
  | cons w ws ih =>
    simp only [scanIdx] at h
    split at h
    · cases h
      refine ⟨by simp, by simpa [prefixSum] using ‹r < cum + w›, fun j hj => absurd hj (Nat.not_lt_zero j)⟩
    · rename_i hnot
      cases hs : scanIdx ws r (cum + w) with
      | none => simp [hs] at h
      | some k' =>
        simp only [hs, Option.map_some, Option.some.injEq] at h
        subst h
        obtain ⟨h1, h2, h3⟩ := ih hs
        refine ⟨by simpa using h1, ?_, ?_⟩
        · simp only [prefixSum_cons_succ]; linarith
        · intro j hj
          cases j with
          | zero => simp [prefixSum]; linarith [not_lt.1 hnot]
          | succ j =>
            have := h3 j (by omega)
            simp only [prefixSum_cons_succ]; linarith

/-- the chosen item lies in the half-open interval of its cumulated weights; in particular its weight is positive -/
theorem scanIdx_interval {ws : List Rat} {r cum : Rat} {k : Nat} (hcum : cum ≤ r)
    (h : scanIdx ws r cum = some k) :
    cum + prefixSum ws k ≤ r ∧ r < cum + prefixSum ws (k + 1) := by
  obtain ⟨_, h2, h3⟩ := scanIdx_some h
  refine ⟨?_, h2⟩
  cases k with
  | zero => simpa using hcum
  | succ k => exact h3 k (Nat.lt_succ_self k)

theorem scanIdx_weight_pos {ws : List Rat} {r cum : Rat} {k : Nat} (hcum : cum ≤ r)
    (h : scanIdx ws r cum = some k) : ∃ hk : k < ws.length, 0 < ws[k] := by
  obtain ⟨hk, _, _⟩ := scanIdx_some h
  obtain ⟨h1, h2⟩ := scanIdx_interval hcum h
  rw [prefixSum_succ_of_lt ws k hk] at h2
  exact ⟨hk, by linarith⟩

/-- completeness: with non-negative weights, every `r` in the interval of item `k` selects `k` -/
theorem scanIdx_of_interval {ws : List Rat} (hw : ∀ w ∈ ws, 0 ≤ w) {r cum : Rat} {k : Nat} (hk : k < ws.length)
    (h1 : cum + prefixSum ws k ≤ r) (h2 : r < cum + prefixSum ws (k + 1)) : scanIdx ws r cum = some k := by
  induction ws generalizing cum k with
  | nil => simp at hk
  | cons w ws ih =>
    have hw0 : 0 ≤ w := hw w (by simp)
    have hws : ∀ v ∈ ws, 0 ≤ v := fun v hv => hw v (by simp [hv])
    cases k with
    | zero =>
      simp only [scanIdx]
      have : r < cum + w := by simpa [prefixSum] using h2
      simp [this]
    | succ k =>
      simp only [prefixSum_cons_succ] at h1 h2
      have hp := prefixSum_nonneg hws k
      have hnot : ¬ r < cum + w := by linarith
      simp only [scanIdx, hnot, if_false]
      rw [ih hws (by simpa using hk) (by linarith) (by linarith)]
      rfl

/-- the scan picks `k` exactly on the interval `[c0 + Σ_{j<k} w_j, c0 + Σ_{j≤k} w_j)` -/
theorem scanIdx_eq_some_iff {ws : List Rat} (hw : ∀ w ∈ ws, 0 ≤ w) {r cum : Rat} (hcum : cum ≤ r) (k : Nat) :
    scanIdx ws r cum = some k ↔
      k < ws.length ∧ cum + prefixSum ws k ≤ r ∧ r < cum + prefixSum ws (k + 1) := by
  constructor
  · intro h
    exact ⟨(scanIdx_some h).1, (scanIdx_interval hcum h).1, (scanIdx_interval hcum h).2⟩
  · rintro ⟨hk, h1, h2⟩
    exact scanIdx_of_interval hw hk h1 h2

/-- totality: from the start of the accumulation up to the total weight the scan always picks an item -/
theorem scanIdx_isSome {ws : List Rat} {r cum : Rat} (hcum : cum ≤ r) (h : r < cum + ws.sum) :
    (scanIdx ws r cum).isSome := by
  induction ws generalizing cum with
  | nil => simp at h; linarith
  | cons w ws ih =>
    simp only [scanIdx]
    split
    · rfl
    · rename_i hnot
      have : (scanIdx ws r (cum + w)).isSome :=
        ih (not_lt.1 hnot) (by simp only [List.sum_cons] at h; linarith)
      simpa using this

/-- at or above the total weight (non-negative weights) nothing is picked -/
theorem scanIdx_none_of_ge {ws : List Rat} (hw : ∀ w ∈ ws, 0 ≤ w) {r cum : Rat} (h : cum + ws.sum ≤ r) :
    scanIdx ws r cum = none := by
  induction ws generalizing cum with
  | nil => rfl
  | cons w ws ih =>
    have hw0 : 0 ≤ w := hw w (by simp)
    have hws : ∀ v ∈ ws, 0 ≤ v := fun v hv => hw v (by simp [hv])
    have hs := list_sum_nonneg hws
    simp only [List.sum_cons] at h
    have hnot : ¬ r < cum + w := by linarith
    simp only [scanIdx, hnot, if_false]
    rw [ih hws (by linarith)]; rfl

/-- shifting `r` and the start of the accumulation together changes nothing (the engine's inner scans
run on `r2 = r − a0_cumul` from 0) -/
theorem scanIdx_shift (ws : List Rat) (r cum c : Rat) : scanIdx ws (r - c) cum = scanIdx ws r (cum + c) := by
  induction ws generalizing cum with
  | nil => rfl
  | cons w ws ih =>
    simp only [scanIdx]
    have : (r - c < cum + w) ↔ (r < cum + c + w) := by constructor <;> intro h <;> linarith
    simp only [this]
    rw [ih (cum + w)]
    have : cum + w + c = cum + c + w := by ring
    rw [this]

/-- scanning a concatenation: the first block is scanned alone when `r` lies below its total -/
theorem scanIdx_append_left (ws vs : List Rat) {r cum : Rat} (hcum : cum ≤ r) (h : r < cum + ws.sum) :
    scanIdx (ws ++ vs) r cum = scanIdx ws r cum := by
  induction ws generalizing cum with
  | nil => simp at h; linarith
  | cons w ws ih =>
    simp only [List.cons_append, scanIdx]
    split
    · rfl
    · rename_i hnot
      rw [ih (not_lt.1 hnot) (by simp only [List.sum_cons] at h; linarith)]

/-- … and skipped as a whole (non-negative weights) when `r` lies at or above its total -/
theorem scanIdx_append_right {ws : List Rat} (hw : ∀ w ∈ ws, 0 ≤ w) (vs : List Rat) {r cum : Rat}
    (h : cum + ws.sum ≤ r) :
    scanIdx (ws ++ vs) r cum = (scanIdx vs r (cum + ws.sum)).map (· + ws.length) := by
  induction ws generalizing cum with
  | nil => simp
  | cons w ws ih =>
    have hw0 : 0 ≤ w := hw w (by simp)
    have hws : ∀ v ∈ ws, 0 ≤ v := fun v hv => hw v (by simp [hv])
    have hs := list_sum_nonneg hws
    simp only [List.sum_cons] at h
    have hnot : ¬ r < cum + w := by linarith
    simp only [List.cons_append, scanIdx, hnot, if_false]
    rw [ih hws (by linarith)]
    simp only [List.sum_cons, List.length_cons, Option.map_map]
    have e1 : cum + w + ws.sum = cum + (w + ws.sum) := by ring
    rw [e1]
    congr 1

end Strengths
