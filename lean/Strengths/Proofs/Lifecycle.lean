/-
Lemmas about the engine lifecycle model (`Model/Lifecycle.lean`): drive calls return `!complete`,
completion is absorbing for every drive call, the allocation state machine never double-frees, and what a
call reads of the world (so that `setup` starts from a clean slate).
-/
import Strengths.Proofs.SamplerClock
import Strengths.Model.Lifecycle

namespace Strengths
namespace SimSt
variable {σ ω : Type} (A : Algo σ ω) (cfg : SamplerCfg)

/-! ### `iterate_n` and `run` are repeated `Iterate()` -/

/-- `iterate_n(n)`, n ≥ 1, reports `unfinished = false` only for a completed simulation -/
theorem iterateN_false_complete (n : Nat) (s : SimSt σ ω) (h : (iterateN A cfg n s).2 = false) :
    (iterateN A cfg n s).1.complete = true := by
  induction n generalizing s with
  | zero => simp [iterateN] at h
  | succ n ih =>
    unfold iterateN at h ⊢
    by_cases hr : (iterate A cfg s).2 = true
    · simp only [hr, if_true] at h ⊢; exact ih _ h
    · simp only [hr] at h ⊢
      simp only [Bool.not_eq_true] at hr
      have := iterate_snd A cfg s
      rw [hr] at this
      simpa using this.symm

theorem run_false_complete (k : Nat) (s : SimSt σ ω) (h : (run A cfg k s).2 = false) :
    (run A cfg k s).1.complete = true := by
  induction k generalizing s with
  | zero =>
    unfold run at h ⊢
    have := iterate_snd A cfg s
    rw [h] at this
    simpa using this.symm
  | succ k ih =>
    unfold run at h ⊢
    by_cases hr : (iterate A cfg s).2 = true
    · simp only [hr, if_true] at h ⊢; exact ih _ h
    · simp only [hr] at h ⊢
      simp only [Bool.not_eq_true] at hr
      have := iterate_snd A cfg s
      rw [hr] at this
      simpa using this.symm

/-- the state after `iterate_n(n)` is the state after some number `m ≤ n` of `Iterate()` calls, and after
exactly `n` of them up to the per-iteration flag -/
theorem iterateN_state (n : Nat) (s : SimSt σ ω) : Same (iterateN A cfg n s).1 (iter A cfg n s) := by
  induction n generalizing s with
  | zero => exact Same.refl _
  | succ n ih =>
    unfold iterateN iter
    by_cases hr : (iterate A cfg s).2 = true
    · simp only [hr, if_true]; exact ih _
    · simp only [hr]
      simp only [Bool.not_eq_true] at hr
      have hc : (next A cfg s).complete = true := by
        have := iterate_snd A cfg s
        rw [hr] at this
        unfold next; simpa using this.symm
      obtain ⟨h1, h2, h3, h4, h5, h6⟩ := iter_of_complete A cfg (next A cfg s) hc n
      exact ⟨h3.symm, h2.symm, h5.symm, h6.symm, by rw [h1]; exact hc, h4.symm⟩

/-- `run` with the clock expiring after `k` further iterations is `iterate_n(k+1)` -/
theorem run_eq_iterateN (k : Nat) (s : SimSt σ ω) :
    Same (run A cfg k s).1 (iterateN A cfg (k + 1) s).1 ∧ (run A cfg k s).2 = (iterateN A cfg (k + 1) s).2 := by
  induction k generalizing s with
  | zero =>
    unfold run iterateN
    by_cases hr : (iterate A cfg s).2 = true
    · rw [if_pos hr]; simp only [iterateN]; exact ⟨Same.refl _, hr⟩
    · rw [if_neg hr]; exact ⟨Same.refl _, rfl⟩
  | succ k ih =>
    unfold run iterateN
    by_cases hr : (iterate A cfg s).2 = true
    · rw [if_pos hr, if_pos hr]; exact ih _
    · rw [if_neg hr, if_neg hr]; exact ⟨Same.refl _, rfl⟩

/-- completion is absorbing for every drive call: nothing but the per-iteration flag changes, `false` is returned -/
theorem drive_of_complete (s : SimSt σ ω) (h : s.complete = true) :
    (iterate A cfg s = ({ s with done := false }, false)) ∧
    (∀ n, iterateN A cfg (n + 1) s = ({ s with done := false }, false)) ∧
    (∀ k, run A cfg k s = ({ s with done := false }, false)) := by
  have hi := iterate_of_complete A cfg s h
  refine ⟨hi, ?_, ?_⟩
  · intro n; unfold iterateN; rw [hi]; simp
  · intro k; cases k <;> (unfold run; rw [hi]) <;> simp

end SimSt

namespace World
variable {σ ω : Type}

/-! ### allocation state machine -/

/-- not freed ⇒ the current pointer is live (no dangling current object while `global_algo_freed` is false) -/
def WF (w : World σ ω) : Prop := w.native.freed = false → ∃ m, cur w.native = .live m

theorem cur_setCur (n : Native σ ω) (p : Ptr (NSim σ ω)) : cur (setCur n p) = p := by
  unfold cur setCur
  by_cases h : n.spaceType = 0 <;> simp [h]

theorem setCur_spaceType (n : Native σ ω) (p : Ptr (NSim σ ω)) : (setCur n p).spaceType = n.spaceType := by
  unfold setCur; split <;> rfl

theorem setCur_freed (n : Native σ ω) (p : Ptr (NSim σ ω)) : (setCur n p).freed = n.freed := by
  unfold setCur; split <;> rfl

theorem cur_congr (n n' : Native σ ω) (h1 : n.spaceType = n'.spaceType) (h2 : n.grid = n'.grid) (h3 : n.graph = n'.graph) :
    cur n = cur n' := by
  unfold cur; rw [h1, h2, h3]

theorem boot_wf : WF (World.boot : World σ ω) := by
  intro h; simp [World.boot, Native.boot] at h

theorem nativeInit_cur (n : Native σ ω) (sc : Setup σ ω) :
    cur (nativeInit n sc) = .live { cfg := sc.cfg, algo := sc.algo, sim := SimSt.init sc.algo sc.cfg sc.x0, size := sc.stateSize,
                                    stepReturns := sc.stepReturns } ∧
    (nativeInit n sc).freed = false ∧ (nativeInit n sc).spaceType = sc.spaceType := by
  unfold nativeInit
  refine ⟨?_, rfl, ?_⟩
  · show cur { (setCur _ _) with freed := false } = _
    have := cur_setCur ({ n with spaceType := sc.spaceType } : Native σ ω)
      (.live { cfg := sc.cfg, algo := sc.algo, sim := SimSt.init sc.algo sc.cfg sc.x0, size := sc.stateSize,
               stepReturns := sc.stepReturns })
    unfold cur at this ⊢
    simpa using this
  · show (setCur _ _).spaceType = _
    rw [setCur_spaceType]

theorem setObj_native (w : World σ ω) (o : Obj) (x : Wrapper σ ω) : (w.setObj o x).native = w.native := by
  cases o <;> rfl

theorem setObj_crashed (w : World σ ω) (o : Obj) (x : Wrapper σ ω) : (w.setObj o x).crashed = w.crashed := by
  cases o <;> rfl

theorem obj_setObj (w : World σ ω) (o : Obj) (x : Wrapper σ ω) : (w.setObj o x).obj o = x := by
  cases o <;> rfl

theorem putSim_cur (w : World σ ω) (m : NSim σ ω) (s : SimSt σ ω) : cur (w.putSim m s).native = .live { m with sim := s } := by
  unfold putSim; exact cur_setCur _ _

theorem putSim_freed (w : World σ ω) (m : NSim σ ω) (s : SimSt σ ω) : (w.putSim m s).native.freed = w.native.freed := by
  unfold putSim; exact setCur_freed _ _

/-- `finalize` on a well-formed world never faults, leaves the world freed and well-formed; on a freed
world it does nothing (any number of times) -/
theorem finalize_safe (w : World σ ω) (o : Obj) (hw : WF w) (hc : w.crashed = false) :
    (w.call o .finalize).2 = .unit ∧ (w.call o .finalize).1.crashed = false ∧
    (w.call o .finalize).1.native.freed = true ∧ WF (w.call o .finalize).1 := by
  by_cases hf : w.native.freed = true
  · have : w.call o .finalize = (w, .unit) := by unfold call; simp [hc, hf]
    rw [this]; exact ⟨rfl, hc, hf, hw⟩
  · simp only [Bool.not_eq_true] at hf
    obtain ⟨m, hm⟩ := hw hf
    have : w.call o .finalize =
        ({ w with native := { (setCur w.native .dangling) with freed := true } }, .unit) := by
      unfold call; simp [hc, hf, hm]
    rw [this]
    refine ⟨rfl, hc, rfl, ?_⟩
    intro h; simp at h

theorem finalize_of_freed (w : World σ ω) (o : Obj) (hf : w.native.freed = true) (hc : w.crashed = false) :
    w.call o .finalize = (w, .unit) := by
  unfold call; simp [hc, hf]


theorem onSim_freed (w : World σ ω) (d : World σ ω × Obs ω) (f : NSim σ ω → World σ ω × Obs ω)
    (hf : w.native.freed = true) : w.onSim d f = d := by
  unfold onSim; simp [hf]

theorem onSim_live (w : World σ ω) (d : World σ ω × Obs ω) (f : NSim σ ω → World σ ω × Obs ω) (m : NSim σ ω)
    (hf : w.native.freed = false) (h : cur w.native = .live m) : w.onSim d f = f m := by
  unfold onSim; simp [hf, h]

/-! ### what a call on object A reads of the world: `setup` starts from a clean slate -/

/-- the part of the world a call on A can observe: crash flag, A's wrapper, and the *current* native object -/
def RelA (w1 w2 : World σ ω) : Prop :=
  w1.crashed = w2.crashed ∧ w1.a = w2.a ∧ w1.native.spaceType = w2.native.spaceType ∧
  cur w1.native = cur w2.native ∧ w1.native.freed = w2.native.freed

theorem relA_setObj (w1 w2 : World σ ω) (x : Wrapper σ ω) (h : RelA w1 w2) : RelA (w1.setObj .A x) (w2.setObj .A x) := by
  obtain ⟨h1, _, h3, h4, h5⟩ := h
  exact ⟨h1, rfl, h3, h4, h5⟩

theorem relA_putSim (w1 w2 : World σ ω) (m : NSim σ ω) (s : SimSt σ ω) (h : RelA w1 w2) : RelA (w1.putSim m s) (w2.putSim m s) := by
  obtain ⟨h1, h2, h3, _, h5⟩ := h
  refine ⟨h1, h2, ?_, ?_, ?_⟩
  · unfold putSim; simp only [setCur_spaceType]; exact h3
  · rw [putSim_cur, putSim_cur]
  · rw [putSim_freed, putSim_freed]; exact h5

theorem relA_crash (w1 w2 : World σ ω) (h : RelA w1 w2) : RelA w1.crash.1 w2.crash.1 := by
  obtain ⟨_, h2, h3, h4, h5⟩ := h
  exact ⟨rfl, h2, h3, h4, h5⟩

theorem relA_drive (w1 w2 : World σ ω) (m : NSim σ ω) (r : SimSt σ ω × Bool) (h : RelA w1 w2) :
    (w1.drive .A m r).2 = (w2.drive .A m r).2 ∧ RelA (w1.drive .A m r).1 (w2.drive .A m r).1 := by
  unfold drive
  refine ⟨rfl, ?_⟩
  have hp := relA_putSim w1 w2 m r.1 h
  have ha : (w1.obj .A) = (w2.obj .A) := h.2.1
  rw [ha]
  have e1 : ((w1.putSim m r.1).obj .A) = w1.a := rfl
  exact relA_setObj _ _ _ hp

/-! ### computation rules of `call` -/

theorem call_crashed (w : World σ ω) (o : Obj) (c : Call σ ω) (h : w.crashed = true) : w.call o c = (w, .fault) := by
  unfold call; simp [h]

theorem call_setup_raises (w : World σ ω) (o : Obj) (sc : Setup σ ω) (hc : w.crashed = false) (hr : sc.raises = true) :
    w.call o (.setup sc) = (w.setObj o { unfinished := true, script := some sc }, .raised) := by
  unfold call; simp [hc, hr]

theorem call_setup_ok (w : World σ ω) (o : Obj) (sc : Setup σ ω) (hc : w.crashed = false) (hr : sc.raises = false)
    (hi : sc.initReturns = true) :
    w.call o (.setup sc) =
      ({ (w.setObj o { unfinished := true, script := some sc }) with
          native := nativeInit (w.setObj o { unfinished := true, script := some sc }).native sc }, .unit) := by
  unfold call; simp [hc, hr, hi]

theorem call_setup_hangs (w : World σ ω) (o : Obj) (sc : Setup σ ω) (hc : w.crashed = false) (hr : sc.raises = false)
    (hi : sc.initReturns = false) :
    w.call o (.setup sc) = (w.setObj o { unfinished := true, script := some sc }).hangs := by
  unfold call; simp [hc, hr, hi]

theorem call_iterate (w : World σ ω) (o : Obj) (hc : w.crashed = false) :
    w.call o .iterate = w.onSim (w.driveDead o) fun m => w.driveIf o m (SimSt.iterate m.algo m.cfg m.sim) := by
  unfold call; simp [hc]

theorem call_iterateN_nonpos (w : World σ ω) (o : Obj) (n : Int) (hc : w.crashed = false) (hn : n ≤ 0) :
    w.call o (.iterateN n) = (w, .bool (w.obj o).unfinished) := by
  unfold call; simp [hc, hn]

theorem call_iterateN_pos (w : World σ ω) (o : Obj) (n : Int) (hc : w.crashed = false) (hn : ¬ n ≤ 0) :
    w.call o (.iterateN n) = w.onSim (w.driveDead o) fun m => w.driveIf o m (SimSt.iterateN m.algo m.cfg n.toNat m.sim) := by
  unfold call; simp [hc, hn]

theorem call_run (w : World σ ω) (o : Obj) (k : Nat) (hc : w.crashed = false) :
    w.call o (.run k) = w.onSim (w.driveDead o) fun m => w.driveIf o m (SimSt.run m.algo m.cfg k m.sim) := by
  unfold call; simp [hc]

theorem call_sample (w : World σ ω) (o : Obj) (hc : w.crashed = false) :
    w.call o .sample = w.onSim (w, .unit) fun m => (w.putSim m (m.sim.sample m.algo), .unit) := by
  unfold call; simp [hc]

theorem call_getProgress (w : World σ ω) (o : Obj) (hc : w.crashed = false) :
    w.call o .getProgress = w.onSim (w, .num 0) fun m => (w, .num (SimSt.progress m.cfg m.sim)) := by
  unfold call; simp [hc]

theorem call_isComplete (w : World σ ω) (o : Obj) (hc : w.crashed = false) :
    w.call o .isComplete = (w, .bool (!(w.obj o).unfinished)) := by
  unfold call; simp [hc]

theorem call_getOutput (w : World σ ω) (o : Obj) (hc : w.crashed = false) :
    w.call o .getOutput = w.onSim (w.outputDead o) fun m => w.outputOf o m := by
  unfold call; simp [hc]

theorem call_finalize_live (w : World σ ω) (o : Obj) (m : NSim σ ω) (hc : w.crashed = false) (hf : w.native.freed = false)
    (hm : cur w.native = .live m) :
    w.call o .finalize = ({ w with native := { (setCur w.native .dangling) with freed := true } }, .unit) := by
  unfold call; simp [hc, hf, hm]

theorem call_finalize_null (w : World σ ω) (o : Obj) (hc : w.crashed = false) (hf : w.native.freed = false)
    (hm : cur w.native = .null) :
    w.call o .finalize = ({ w with native := { w.native with freed := true } }, .unit) := by
  unfold call; simp [hc, hf, hm]

theorem call_finalize_dangling (w : World σ ω) (o : Obj) (hc : w.crashed = false) (hf : w.native.freed = false)
    (hm : cur w.native = .dangling) : w.call o .finalize = w.crash := by
  unfold call; simp [hc, hf, hm]

theorem onSim_null (w : World σ ω) (d : World σ ω × Obs ω) (f : NSim σ ω → World σ ω × Obs ω)
    (hf : w.native.freed = false) (h : cur w.native = .null) : w.onSim d f = w.crash := by
  unfold onSim; simp [hf, h]

theorem onSim_dangling (w : World σ ω) (d : World σ ω × Obs ω) (f : NSim σ ω → World σ ω × Obs ω)
    (hf : w.native.freed = false) (h : cur w.native = .dangling) : w.onSim d f = w.crash := by
  unfold onSim; simp [hf, h]

/-- `onSim` respects `RelA` when both continuations do -/
theorem onSim_rel (w1 w2 : World σ ω) (d1 d2 : World σ ω × Obs ω) (f1 f2 : NSim σ ω → World σ ω × Obs ω) (h : RelA w1 w2)
    (hd : d1.2 = d2.2 ∧ RelA d1.1 d2.1)
    (hf : ∀ m, (f1 m).2 = (f2 m).2 ∧ RelA (f1 m).1 (f2 m).1) :
    (w1.onSim d1 f1).2 = (w2.onSim d2 f2).2 ∧ RelA (w1.onSim d1 f1).1 (w2.onSim d2 f2).1 := by
  have hcur := h.2.2.2.1
  have hfr := h.2.2.2.2
  by_cases hf1 : w1.native.freed = true
  · rw [onSim_freed w1 d1 f1 hf1, onSim_freed w2 d2 f2 (hfr ▸ hf1)]; exact hd
  · simp only [Bool.not_eq_true] at hf1
    have hf2 : w2.native.freed = false := hfr ▸ hf1
    cases hp : cur w1.native with
    | live m => rw [onSim_live w1 d1 f1 m hf1 hp, onSim_live w2 d2 f2 m hf2 (hcur ▸ hp)]; exact hf m
    | null => rw [onSim_null w1 d1 f1 hf1 hp, onSim_null w2 d2 f2 hf2 (hcur ▸ hp)]; exact ⟨rfl, relA_crash _ _ h⟩
    | dangling => rw [onSim_dangling w1 d1 f1 hf1 hp, onSim_dangling w2 d2 f2 hf2 (hcur ▸ hp)]; exact ⟨rfl, relA_crash _ _ h⟩

theorem driveDead_rel (w1 w2 : World σ ω) (h : RelA w1 w2) :
    (w1.driveDead .A).2 = (w2.driveDead .A).2 ∧ RelA (w1.driveDead .A).1 (w2.driveDead .A).1 := by
  unfold driveDead
  have ha : (w1.obj .A) = (w2.obj .A) := h.2.1
  rw [ha]
  exact ⟨rfl, relA_setObj _ _ _ h⟩

theorem outputDead_rel (w1 w2 : World σ ω) (h : RelA w1 w2) :
    (w1.outputDead .A).2 = (w2.outputDead .A).2 ∧ RelA (w1.outputDead .A).1 (w2.outputDead .A).1 := by
  unfold outputDead
  have ha : (w1.obj .A) = (w2.obj .A) := h.2.1
  rw [ha]
  cases (w2.obj .A).script with
  | none => exact ⟨rfl, h⟩
  | some sc => exact ⟨rfl, h⟩

theorem outputOf_rel (w1 w2 : World σ ω) (m : NSim σ ω) (h : RelA w1 w2) :
    (outputOf w1 .A m).2 = (outputOf w2 .A m).2 ∧ RelA (outputOf w1 .A m).1 (outputOf w2 .A m).1 := by
  have hoA : w1.obj .A = w2.obj .A := h.2.1
  unfold outputOf
  rw [hoA]
  cases (w2.obj .A).script with
  | none => exact ⟨rfl, h⟩
  | some sc =>
    dsimp only
    by_cases h1 : m.sim.recs.length = 0 ∨ m.size = sc.stateSize
    · rw [if_pos h1, if_pos h1]; exact ⟨rfl, h⟩
    · rw [if_neg h1, if_neg h1]
      by_cases h2 : sc.stateSize < m.size
      · rw [if_pos h2, if_pos h2]; exact ⟨rfl, relA_crash _ _ h⟩
      · rw [if_neg h2, if_neg h2]; exact ⟨rfl, h⟩

theorem relA_hangs (w1 w2 : World σ ω) (h : RelA w1 w2) : RelA w1.hangs.1 w2.hangs.1 := by
  obtain ⟨_, h2, h3, h4, h5⟩ := h
  exact ⟨rfl, h2, h3, h4, h5⟩

theorem relA_driveIf (w1 w2 : World σ ω) (m : NSim σ ω) (r : SimSt σ ω × Bool) (h : RelA w1 w2) :
    (w1.driveIf .A m r).2 = (w2.driveIf .A m r).2 ∧ RelA (w1.driveIf .A m r).1 (w2.driveIf .A m r).1 := by
  unfold driveIf
  by_cases hs : m.stepReturns = true
  · rw [if_pos hs, if_pos hs]; exact relA_drive w1 w2 m r h
  · rw [if_neg hs, if_neg hs]; exact ⟨rfl, relA_hangs _ _ h⟩

/-- a call on A gives the same answer in, and keeps, `RelA`-related worlds -/
theorem call_rel (w1 w2 : World σ ω) (c : Call σ ω) (h : RelA w1 w2) :
    (w1.call .A c).2 = (w2.call .A c).2 ∧ RelA (w1.call .A c).1 (w2.call .A c).1 := by
  have hh := h
  obtain ⟨hc, ha, hs, hcur, hf⟩ := h
  by_cases hcr : w1.crashed = true
  · have hcr2 : w2.crashed = true := hc ▸ hcr
    rw [call_crashed w1 _ _ hcr, call_crashed w2 _ _ hcr2]; exact ⟨rfl, hh⟩
  · simp only [Bool.not_eq_true] at hcr
    have hcr2 : w2.crashed = false := hc ▸ hcr
    have hoA : w1.obj .A = w2.obj .A := ha
    cases c with
    | setup sc =>
      by_cases hr : sc.raises = true
      · rw [call_setup_raises w1 _ _ hcr hr, call_setup_raises w2 _ _ hcr2 hr]
        exact ⟨rfl, relA_setObj _ _ _ hh⟩
      · simp only [Bool.not_eq_true] at hr
        by_cases hi : sc.initReturns = true
        swap
        · simp only [Bool.not_eq_true] at hi
          rw [call_setup_hangs w1 _ _ hcr hr hi, call_setup_hangs w2 _ _ hcr2 hr hi]
          exact ⟨rfl, relA_hangs _ _ (relA_setObj _ _ _ hh)⟩
        rw [call_setup_ok w1 _ _ hcr hr hi, call_setup_ok w2 _ _ hcr2 hr hi]
        refine ⟨rfl, hc, rfl, ?_, ?_, ?_⟩
        · show (nativeInit _ sc).spaceType = (nativeInit _ sc).spaceType
          rw [(nativeInit_cur _ sc).2.2, (nativeInit_cur _ sc).2.2]
        · show cur (nativeInit _ sc) = cur (nativeInit _ sc)
          rw [(nativeInit_cur _ sc).1, (nativeInit_cur _ sc).1]
        · show (nativeInit _ sc).freed = (nativeInit _ sc).freed
          rw [(nativeInit_cur _ sc).2.1, (nativeInit_cur _ sc).2.1]
    | iterate =>
      rw [call_iterate w1 _ hcr, call_iterate w2 _ hcr2]
      exact onSim_rel w1 w2 _ _ _ _ hh (driveDead_rel w1 w2 hh) (fun m => relA_driveIf w1 w2 m _ hh)
    | iterateN n =>
      by_cases hn : n ≤ 0
      · rw [call_iterateN_nonpos w1 _ _ hcr hn, call_iterateN_nonpos w2 _ _ hcr2 hn, hoA]
        exact ⟨rfl, hh⟩
      · rw [call_iterateN_pos w1 _ _ hcr hn, call_iterateN_pos w2 _ _ hcr2 hn]
        exact onSim_rel w1 w2 _ _ _ _ hh (driveDead_rel w1 w2 hh) (fun m => relA_driveIf w1 w2 m _ hh)
    | run k =>
      rw [call_run w1 _ _ hcr, call_run w2 _ _ hcr2]
      exact onSim_rel w1 w2 _ _ _ _ hh (driveDead_rel w1 w2 hh) (fun m => relA_driveIf w1 w2 m _ hh)
    | sample =>
      rw [call_sample w1 _ hcr, call_sample w2 _ hcr2]
      exact onSim_rel w1 w2 _ _ _ _ hh ⟨rfl, hh⟩ (fun m => ⟨rfl, relA_putSim _ _ _ _ hh⟩)
    | getProgress =>
      rw [call_getProgress w1 _ hcr, call_getProgress w2 _ hcr2]
      exact onSim_rel w1 w2 _ _ _ _ hh ⟨rfl, hh⟩ (fun m => ⟨rfl, hh⟩)
    | isComplete =>
      rw [call_isComplete w1 _ hcr, call_isComplete w2 _ hcr2, hoA]
      exact ⟨rfl, hh⟩
    | getOutput =>
      rw [call_getOutput w1 _ hcr, call_getOutput w2 _ hcr2]
      exact onSim_rel w1 w2 _ _ _ _ hh (outputDead_rel w1 w2 hh) (fun m => outputOf_rel w1 w2 m hh)
    | finalize =>
      by_cases hfr : w1.native.freed = true
      · rw [finalize_of_freed w1 _ hfr hcr, finalize_of_freed w2 _ (hf ▸ hfr) hcr2]; exact ⟨rfl, hh⟩
      · simp only [Bool.not_eq_true] at hfr
        have hfr2 : w2.native.freed = false := hf ▸ hfr
        cases hp : cur w1.native with
        | live m =>
          rw [call_finalize_live w1 _ m hcr hfr hp, call_finalize_live w2 _ m hcr2 hfr2 (hcur ▸ hp)]
          refine ⟨rfl, hc, ha, ?_, ?_, rfl⟩
          · show (setCur _ _).spaceType = (setCur _ _).spaceType
            rw [setCur_spaceType, setCur_spaceType]; exact hs
          · have e1 := cur_setCur w1.native (.dangling : Ptr (NSim σ ω))
            have e2 := cur_setCur w2.native (.dangling : Ptr (NSim σ ω))
            show cur { (setCur w1.native .dangling) with freed := true } = cur { (setCur w2.native .dangling) with freed := true }
            have e3 : cur ({ (setCur w1.native .dangling) with freed := true } : Native σ ω) = cur (setCur w1.native .dangling) := rfl
            have e4 : cur ({ (setCur w2.native .dangling) with freed := true } : Native σ ω) = cur (setCur w2.native .dangling) := rfl
            rw [e3, e4, e1, e2]
        | null =>
          rw [call_finalize_null w1 _ hcr hfr hp, call_finalize_null w2 _ hcr2 hfr2 (hcur ▸ hp)]
          exact ⟨rfl, hc, ha, hs, hcur, rfl⟩
        | dangling =>
          rw [call_finalize_dangling w1 _ hcr hfr hp, call_finalize_dangling w2 _ hcr2 hfr2 (hcur ▸ hp)]
          exact ⟨rfl, relA_crash _ _ hh⟩

/-- histories on object A give the same observables in `RelA`-related worlds -/
theorem runHist_rel (h : List (Call σ ω)) (w1 w2 : World σ ω) (hr : RelA w1 w2) :
    (w1.runHist (h.map fun c => (Obj.A, c))).2 = (w2.runHist (h.map fun c => (Obj.A, c))).2 := by
  induction h generalizing w1 w2 with
  | nil => rfl
  | cons c rest ih =>
    simp only [List.map_cons, runHist]
    obtain ⟨h1, h2⟩ := call_rel w1 w2 c hr
    rw [h1, ih _ _ h2]

/-- after a (non-raising) `setup` on A, any two non-crashed worlds are related -/
theorem setup_rel (w1 w2 : World σ ω) (sc : Setup σ ω) (h1 : w1.crashed = false) (h2 : w2.crashed = false)
    (hr : sc.raises = false) (hi : sc.initReturns = true) : RelA (w1.call .A (.setup sc)).1 (w2.call .A (.setup sc)).1 := by
  rw [call_setup_ok w1 _ _ h1 hr hi, call_setup_ok w2 _ _ h2 hr hi]
  refine ⟨?_, rfl, ?_, ?_, ?_⟩
  · show (w1.setObj .A { unfinished := true, script := some sc }).crashed = (w2.setObj .A { unfinished := true, script := some sc }).crashed
    rw [setObj_crashed, setObj_crashed, h1, h2]
  · show (nativeInit _ sc).spaceType = (nativeInit _ sc).spaceType
    rw [(nativeInit_cur _ sc).2.2, (nativeInit_cur _ sc).2.2]
  · show cur (nativeInit _ sc) = cur (nativeInit _ sc)
    rw [(nativeInit_cur _ sc).1, (nativeInit_cur _ sc).1]
  · show (nativeInit _ sc).freed = (nativeInit _ sc).freed
    rw [(nativeInit_cur _ sc).2.1, (nativeInit_cur _ sc).2.1]


/-! ### no call faults on one engine object; the reported status refers to the current simulation -/

/-- histories of one engine object with valid scripts (marshalling does not raise) that satisfy the two external
assumptions (`initReturns`: the redistribution loop terminates; `stepReturns`: the Poisson calls return): every call is
allowed at any point (the entry points test `global_algo_freed`).  `some live'` = allowed, new liveness. -/
def stepLive (live : Bool) : Call σ ω → Option Bool
  | .setup sc => if sc.raises || !sc.initReturns || !sc.stepReturns then none else some true
  | .finalize => some false
  | _ => some live

def Respecting : Bool → List (Call σ ω) → Prop
  | _, [] => True
  | live, c :: rest => ∃ live', stepLive live c = some live' ∧ Respecting live' rest

/-- invariant of single-object histories -/
def Good (live : Bool) (w : World σ ω) : Prop :=
  w.crashed = false ∧
  (live = true → w.native.freed = false ∧ ∃ m sc, cur w.native = .live m ∧ w.a.script = some sc ∧ m.size = sc.stateSize ∧
    m.stepReturns = true) ∧
  (live = false → w.native.freed = true) ∧
  (w.a.unfinished = false → w.native.freed = false → ∀ m, cur w.native = .live m → m.sim.complete = true)

/-- the call came back with a value: neither a fault nor a hang -/
def _root_.Strengths.Obs.returned (o : Obs ω) : Prop := o ≠ .fault ∧ o ≠ .hang

theorem putSim_crashed (w : World σ ω) (m : NSim σ ω) (s : SimSt σ ω) : (w.putSim m s).crashed = w.crashed := rfl

theorem drive_good (w : World σ ω) (m : NSim σ ω) (sc : Setup σ ω) (r : SimSt σ ω × Bool)
    (hg : Good true w) (hm : cur w.native = .live m) (hsc : w.a.script = some sc) (hsz : m.size = sc.stateSize)
    (hsr : m.stepReturns = true)
    (hr : r.2 = false → r.1.complete = true) :
    (w.driveIf .A m r).2.returned ∧ Good true (w.driveIf .A m r).1 := by
  obtain ⟨hc, hl, _, _⟩ := hg
  obtain ⟨hf, _⟩ := hl rfl
  unfold driveIf
  rw [if_pos hsr]
  unfold drive
  refine ⟨⟨by simp, by simp⟩, ?_, ?_, ?_, ?_⟩
  · rw [setObj_crashed, putSim_crashed]; exact hc
  · intro _
    refine ⟨by rw [setObj_native, putSim_freed]; exact hf, { m with sim := r.1 }, sc, ?_, ?_, hsz, hsr⟩
    · rw [setObj_native, putSim_cur]
    · show ((w.putSim m r.1).obj .A).script = some sc
      exact hsc
  · intro h; cases h
  · intro hu _ m' hm'
    rw [setObj_native, putSim_cur] at hm'
    have hu' : r.2 = false := hu
    have := hr hu'
    cases hm'
    exact this

/-- a world whose library holds no simulation: `Good false` is kept by changing A's wrapper only -/
theorem good_dead_setObj (w : World σ ω) (x : Wrapper σ ω) (hg : Good false w) : Good false (w.setObj .A x) := by
  obtain ⟨hc, _, hnl, _⟩ := hg
  refine ⟨?_, ?_, ?_, ?_⟩
  · rw [setObj_crashed]; exact hc
  · intro h; cases h
  · intro _; rw [setObj_native]; exact hnl rfl
  · intro _ hf
    rw [setObj_native, hnl rfl] at hf
    cases hf

theorem good_step (live live' : Bool) (w : World σ ω) (c : Call σ ω) (hg : Good live w) (hs : stepLive live c = some live') :
    (w.call .A c).2.returned ∧ Good live' (w.call .A c).1 := by
  have hgg := hg
  obtain ⟨hc, hl, hnl, hst⟩ := hg
  cases c with
  | setup sc =>
    unfold stepLive at hs
    by_cases hall : (sc.raises || !sc.initReturns || !sc.stepReturns) = true
    · dsimp only at hs; rw [if_pos hall] at hs; cases hs
    · dsimp only at hs
      rw [if_neg hall] at hs
      simp only [Option.some.injEq] at hs
      subst hs
      have hr : sc.raises = false := by cases h : sc.raises <;> simp_all
      have hi : sc.initReturns = true := by cases h : sc.initReturns <;> simp_all
      have hsr : sc.stepReturns = true := by cases h : sc.stepReturns <;> simp_all
      rw [call_setup_ok w _ _ hc hr hi]
      refine ⟨⟨by simp, by simp⟩, ?_, ?_, ?_, ?_⟩
      · show (w.setObj .A { unfinished := true, script := some sc }).crashed = false
        rw [setObj_crashed]; exact hc
      · intro _
        exact ⟨(nativeInit_cur _ sc).2.1, _, sc, (nativeInit_cur _ sc).1, rfl, rfl, hsr⟩
      · intro h; cases h
      · intro h; cases h
  | iterate =>
    simp only [stepLive, Option.some.injEq] at hs; subst hs
    rw [call_iterate w _ hc]
    cases live with
    | false =>
      rw [onSim_freed w _ _ (hnl rfl)]
      exact ⟨⟨by simp [driveDead], by simp [driveDead]⟩, good_dead_setObj w _ hgg⟩
    | true =>
      obtain ⟨hf, m, sc, hm, hsc, hsz, hsr⟩ := hl rfl
      rw [onSim_live w _ _ m hf hm]
      exact drive_good w m sc _ hgg hm hsc hsz hsr (fun h => by
        have := SimSt.iterate_snd m.algo m.cfg m.sim; rw [h] at this; simpa using this.symm)
  | iterateN n =>
    simp only [stepLive, Option.some.injEq] at hs; subst hs
    by_cases hn : n ≤ 0
    · rw [call_iterateN_nonpos w _ _ hc hn]
      exact ⟨⟨by simp, by simp⟩, hgg⟩
    · rw [call_iterateN_pos w _ _ hc hn]
      cases live with
      | false =>
        rw [onSim_freed w _ _ (hnl rfl)]
        exact ⟨⟨by simp [driveDead], by simp [driveDead]⟩, good_dead_setObj w _ hgg⟩
      | true =>
        obtain ⟨hf, m, sc, hm, hsc, hsz, hsr⟩ := hl rfl
        rw [onSim_live w _ _ m hf hm]
        exact drive_good w m sc _ hgg hm hsc hsz hsr (SimSt.iterateN_false_complete m.algo m.cfg _ m.sim)
  | run k =>
    simp only [stepLive, Option.some.injEq] at hs; subst hs
    rw [call_run w _ _ hc]
    cases live with
    | false =>
      rw [onSim_freed w _ _ (hnl rfl)]
      exact ⟨⟨by simp [driveDead], by simp [driveDead]⟩, good_dead_setObj w _ hgg⟩
    | true =>
      obtain ⟨hf, m, sc, hm, hsc, hsz, hsr⟩ := hl rfl
      rw [onSim_live w _ _ m hf hm]
      exact drive_good w m sc _ hgg hm hsc hsz hsr (SimSt.run_false_complete m.algo m.cfg _ m.sim)
  | sample =>
    simp only [stepLive, Option.some.injEq] at hs; subst hs
    rw [call_sample w _ hc]
    cases live with
    | false => rw [onSim_freed w _ _ (hnl rfl)]; exact ⟨⟨by simp, by simp⟩, hgg⟩
    | true =>
      obtain ⟨hf, m, sc, hm, hsc, hsz, hsr⟩ := hl rfl
      rw [onSim_live w _ _ m hf hm]
      refine ⟨⟨by simp, by simp⟩, hc, ?_, ?_, ?_⟩
      · intro _
        exact ⟨by rw [putSim_freed]; exact hf, { m with sim := m.sim.sample m.algo }, sc, putSim_cur _ _ _, hsc, hsz, hsr⟩
      · intro h; cases h
      · intro hu _ m' hm'
        rw [putSim_cur] at hm'
        cases hm'
        simp only [SimSt.sample_complete]
        exact hst hu hf m hm
  | getProgress =>
    simp only [stepLive, Option.some.injEq] at hs; subst hs
    rw [call_getProgress w _ hc]
    cases live with
    | false => rw [onSim_freed w _ _ (hnl rfl)]; exact ⟨⟨by simp, by simp⟩, hgg⟩
    | true =>
      obtain ⟨hf, m, sc, hm, hsc, hsz, hsr⟩ := hl rfl
      rw [onSim_live w _ _ m hf hm]
      exact ⟨⟨by simp, by simp⟩, hgg⟩
  | isComplete =>
    simp only [stepLive, Option.some.injEq] at hs; subst hs
    rw [call_isComplete w _ hc]
    exact ⟨⟨by simp, by simp⟩, hgg⟩
  | getOutput =>
    simp only [stepLive, Option.some.injEq] at hs; subst hs
    rw [call_getOutput w _ hc]
    cases live with
    | false =>
      rw [onSim_freed w _ _ (hnl rfl)]
      unfold outputDead
      cases (w.obj .A).script with
      | none => exact ⟨⟨by simp, by simp⟩, hgg⟩
      | some sc => exact ⟨⟨by simp, by simp⟩, hgg⟩
    | true =>
      obtain ⟨hf, m, sc, hm, hsc, hsz, hsr⟩ := hl rfl
      rw [onSim_live w _ _ m hf hm]
      unfold outputOf
      have : (w.obj .A).script = some sc := hsc
      rw [this]
      simp only [hsz, or_true, if_true]
      exact ⟨⟨by simp, by simp⟩, hgg⟩
  | finalize =>
    unfold stepLive at hs
    simp only [Option.some.injEq] at hs; subst hs
    cases live with
    | false =>
      rw [finalize_of_freed w _ (hnl rfl) hc]
      exact ⟨⟨by simp, by simp⟩, hgg⟩
    | true =>
      obtain ⟨hf, m, sc, hm, hsc, hsz, hsr⟩ := hl rfl
      rw [call_finalize_live w _ m hc hf hm]
      refine ⟨⟨by simp, by simp⟩, hc, ?_, ?_, ?_⟩
      · intro h; cases h
      · intro _; rfl
      · intro _ hfr; cases hfr

/-- every call of a history on one engine object with valid scripts (under the two external assumptions) returns -/
theorem respecting_returns (h : List (Call σ ω)) (live : Bool) (w : World σ ω) (hg : Good live w) (hr : Respecting live h) :
    ∀ ob ∈ (w.runHist (h.map fun c => (Obj.A, c))).2, ob.returned := by
  induction h generalizing live w with
  | nil => intro ob hob; simp [runHist] at hob
  | cons c rest ih =>
    obtain ⟨live', hs, hrest⟩ := hr
    obtain ⟨h1, h2⟩ := good_step live live' w c hg hs
    intro ob hob
    simp only [List.map_cons, runHist, List.mem_cons] at hob
    rcases hob with hob | hob
    · rw [hob]; exact h1
    · exact ih live' _ h2 hrest ob hob

theorem respecting_no_fault (h : List (Call σ ω)) (live : Bool) (w : World σ ω) (hg : Good live w) (hr : Respecting live h) :
    ∀ ob ∈ (w.runHist (h.map fun c => (Obj.A, c))).2, ob ≠ Obs.fault :=
  fun ob hob => (respecting_returns h live w hg hr ob hob).1

theorem boot_good : Good false (World.boot : World σ ω) := by
  refine ⟨rfl, ?_, fun _ => rfl, ?_⟩
  · intro h; cases h
  · intro h; simp [World.boot, Wrapper.fresh] at h

/-- fetching the output does not change anything -/
theorem getOutput_pure (w : World σ ω) (o : Obj) (h : (w.call o .getOutput).2 ≠ .fault) : (w.call o .getOutput).1 = w := by
  by_cases hc : w.crashed = true
  · rw [call_crashed w _ _ hc]
  · simp only [Bool.not_eq_true] at hc
    rw [call_getOutput w _ hc] at h ⊢
    by_cases hf : w.native.freed = true
    · rw [onSim_freed w _ _ hf]
      unfold outputDead
      cases (w.obj o).script with
      | none => rfl
      | some sc => rfl
    · simp only [Bool.not_eq_true] at hf
      cases hp : cur w.native with
      | live m =>
        rw [onSim_live w _ _ m hf hp] at h ⊢
        unfold outputOf at h ⊢
        cases hs : (w.obj o).script with
        | none => rfl
        | some sc =>
          rw [hs] at h
          dsimp only at h ⊢
          by_cases h1 : m.sim.recs.length = 0 ∨ m.size = sc.stateSize
          · rw [if_pos h1]
          · rw [if_neg h1] at h ⊢
            by_cases h2 : sc.stateSize < m.size
            · rw [if_pos h2] at h; exact absurd rfl h
            · rw [if_neg h2]
      | null => rw [onSim_null w _ _ hf hp] at h; exact absurd rfl h
      | dangling => rw [onSim_dangling w _ _ hf hp] at h; exact absurd rfl h

end World
end Strengths
