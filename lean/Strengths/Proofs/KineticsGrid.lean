/-
The Python neighbour enumeration of `_compute_dspeciesdt_grid` against the Spec: coordinates, round trip, six slots
(C01 `kinetics_eq_rate` on grids).
-/
import Strengths.Proofs.KineticsPy
import Strengths.Proofs.GridRate
namespace Strengths
open Gen Spec

theorem bc_eq (p : Bool) : (bcString p == pyWrapMode.getD 0 "") = p ∧ (bcString p == pyWrapMode.getD 1 "") = p ∧
    (bcString p == pyWrapMode.getD 2 "") = p := by cases p <;> decide

/-- Python coordinates of an in-range index are the casts of the Spec's coordinates -/
theorem pyCoords_cast {g : GridShape} (hv : g.valid = true) (i : Nat) :
    cellCoordX g.w g.h i = ((i % g.w : Nat) : Int) ∧ cellCoordY g.w g.h i = (((i / g.w) % g.h : Nat) : Int) ∧
    cellCoordZ g.w g.h i = ((i / (g.w * g.h) : Nat) : Int) := by
  obtain ⟨hw, hh, _⟩ := GridShape.valid_pos hv
  have hi : (0 : Int) ≤ i := Int.natCast_nonneg i
  have hwh : (0 : Int) < (g.w : Int) * g.h := Int.mul_pos hw hh
  have hc := cellCoords_cast g i
  simp only [cellCoords, Prod.mk.injEq] at hc
  obtain ⟨c1, c2, c3⟩ := hc
  refine ⟨?_, ?_, ?_⟩
  · simp only [cellCoordX]; rw [Int.fmod_eq_emod_of_nonneg _ (by omega)]; exact c1
  · simp only [cellCoordY]
    rw [Int.fmod_eq_emod_of_nonneg _ (by omega), Int.tdiv_eq_ediv_of_nonneg (Int.emod_nonneg _ (by omega))]; exact c2
  · simp only [cellCoordZ]; rw [Int.tdiv_eq_ediv_of_nonneg hi]; exact c3

theorem nat_decomp (w h i : Nat) (hw : 0 < w) : i = i % w + w * ((i / w) % h + h * (i / (w * h))) := by
  have h1 : i = i % w + w * (i / w) := (Nat.mod_add_div i w).symm
  have h2 : i / w = (i / w) % h + h * (i / w / h) := (Nat.mod_add_div (i / w) h).symm
  rw [Nat.div_div_eq_div_mul] at h2
  rw [← h2]
  exact h1

theorem pyGridSrc_eq {g : GridShape} (hv : g.valid = true) (i : Nat) : pyGridSrc g i = i := by
  obtain ⟨c1, c2, c3⟩ := pyCoords_cast hv i
  obtain ⟨hw, _, _⟩ := GridShape.valid_pos hv
  unfold pyGridSrc
  rw [c1, c2, c3]
  simp only [cellIndexArr]
  have : ((i % g.w : Nat) : Int) + (((i / g.w) % g.h : Nat) : Int) * g.w + ((i / (g.w * g.h) : Nat) : Int) * g.w * g.h
      = ((i % g.w + g.w * ((i / g.w) % g.h + g.h * (i / (g.w * g.h))) : Nat) : Int) := by push_cast; ring
  rw [this, Int.toNat_natCast]
  exact (nat_decomp g.w g.h i (by exact_mod_cast hw)).symm

/-- drop the value `c` from an optional coordinate -/
def optNe (c : Nat) : Option Nat → Option Nat
  | some v => if v = c then none else some v
  | none => none

/-- one coordinate of a candidate of `_compute_dspeciesdt_grid` after its wrap line -/
def pyAxis (per : Bool) (len c : Nat) (δ : Int) : Int :=
  if (per && decide ((len : Int) > 1)) = true then Int.fmod ((len : Int) + ((c : Int) + δ)) len else (c : Int) + δ

theorem pyAxis_zero (per : Bool) (len c : Nat) (hc : c < len) : pyAxis per len c 0 = c := by
  unfold pyAxis
  have h0 : (0 : Int) ≤ c := Int.natCast_nonneg c
  have h1 : (c : Int) < len := by exact_mod_cast hc
  split
  · rw [Int.add_zero, Int.fmod_eq_emod_of_nonneg _ (by omega), wrap_same h0 h1]
  · omega

theorem pyAxis_plus (per : Bool) (len c : Nat) (hc : c < len) :
    (if 0 ≤ pyAxis per len c 1 ∧ pyAxis per len c 1 < len then some (pyAxis per len c 1) else none)
      = (optNe c (Spec.axisStep len per c true)).map fun v => (v : Int) := by
  unfold pyAxis Spec.axisStep
  have h0 : (0 : Int) ≤ c := Int.natCast_nonneg c
  have h1 : (c : Int) < len := by exact_mod_cast hc
  cases per
  · simp only [Bool.false_and, Bool.false_eq_true, if_false, if_true]
    by_cases h : c + 1 < len
    · have : (0 : Int) ≤ (c : Int) + 1 ∧ (c : Int) + 1 < len := ⟨by omega, by exact_mod_cast h⟩
      simp [h, this, optNe]
    · have : ¬ ((0 : Int) ≤ (c : Int) + 1 ∧ (c : Int) + 1 < len) := fun hh => h (by exact_mod_cast hh.2)
      simp [h, this, optNe]
  · by_cases hl : (len : Int) > 1
    · simp only [Bool.true_and, hl, decide_true, if_true]
      rw [Int.fmod_eq_emod_of_nonneg _ (by omega), wrap_succ h0 h1]
      by_cases h : c + 1 < len
      · have hne : ¬ ((c : Int) + 1 = len) := by omega
        have : (0 : Int) ≤ (c : Int) + 1 ∧ (c : Int) + 1 < len := ⟨by omega, by exact_mod_cast h⟩
        simp [h, hne, this, optNe]
      · have he : (c : Int) + 1 = len := by omega
        have hc0 : ¬ (0 = c) := by omega
        have hpos : (0 : Int) < len := by omega
        simp [h, he, hc0, optNe, hpos]
        omega
    · have hl1 : len = 1 := by omega
      subst hl1
      have hc0 : c = 0 := by omega
      subst hc0
      simp [optNe]

theorem pyAxis_minus (per : Bool) (len c : Nat) (hc : c < len) :
    (if 0 ≤ pyAxis per len c (-1) ∧ pyAxis per len c (-1) < len then some (pyAxis per len c (-1)) else none)
      = (optNe c (Spec.axisStep len per c false)).map fun v => (v : Int) := by
  unfold pyAxis Spec.axisStep
  have h0 : (0 : Int) ≤ c := Int.natCast_nonneg c
  have h1 : (c : Int) < len := by exact_mod_cast hc
  cases per
  · simp only [Bool.false_and, Bool.false_eq_true, if_false]
    by_cases h : 0 < c
    · have : (0 : Int) ≤ (c : Int) + -1 ∧ (c : Int) + -1 < len := ⟨by omega, by omega⟩
      have e : ((c - 1 : Nat) : Int) = (c : Int) + -1 := by omega
      have hne : ¬ (c - 1 = c) := by omega
      simp [h, this, e, hne, optNe]
    · have : ¬ ((0 : Int) ≤ (c : Int) + -1 ∧ (c : Int) + -1 < len) := by omega
      have hc0 : c = 0 := by omega
      subst hc0
      simp [optNe]
  · by_cases hl : (len : Int) > 1
    · simp only [Bool.true_and, hl, decide_true, if_true]
      rw [Int.fmod_eq_emod_of_nonneg _ (by omega), show (c : Int) + -1 = (c : Int) - 1 by ring, wrap_pred h0 h1]
      by_cases h : 0 < c
      · have hne : ¬ ((c : Int) = 0) := by omega
        have e : ((c - 1 : Nat) : Int) = (c : Int) - 1 := by omega
        have hne2 : ¬ (c - 1 = c) := by omega
        have : (0 : Int) ≤ (c : Int) - 1 ∧ (c : Int) - 1 < len := ⟨by omega, by omega⟩
        have hc0 : ¬ (c = 0) := by omega
        simp [h, hc0, e, hne2, this, optNe]
      · have hc0 : c = 0 := by omega
        subst hc0
        have e : ((len - 1 : Nat) : Int) = (len : Int) - 1 := by omega
        have hne2 : ¬ (len - 1 = 0) := by omega
        have hb : (0 : Int) ≤ (len : Int) - 1 := by omega
        simp [e, hne2, optNe, hb]
        omega
    · have hl1 : len = 1 := by omega
      subst hl1
      have hc0 : c = 0 := by omega
      subst hc0
      simp [optNe]

theorem idx_cast (w h x y z : Nat) :
    ((x : Int) + (y : Int) * w + (z : Int) * w * h).toNat = x + w * (y + h * z) := by
  have : ((x : Int) + (y : Int) * w + (z : Int) * w * h) = ((x + w * (y + h * z) : Nat) : Int) := by push_cast; ring
  rw [this, Int.toNat_natCast]

theorem py_slot_x (w h d y z : Nat) (hy : y < h) (hz : z < d) (c0 : Int) (o : Option Nat)
    (ho : (if 0 ≤ c0 ∧ c0 < (w : Int) then some c0 else none) = o.map fun v => (v : Int)) :
    (if withinBoundsArr w h d c0 y z = true then some (cellIndexArr w h c0 y z).toNat else none)
      = o.map fun v => v + w * (y + h * z) := by
  have hy' : (0 : Int) ≤ y ∧ (y : Int) < h := ⟨Int.natCast_nonneg _, by exact_mod_cast hy⟩
  have hz' : (0 : Int) ≤ z ∧ (z : Int) < d := ⟨Int.natCast_nonneg _, by exact_mod_cast hz⟩
  by_cases hb : 0 ≤ c0 ∧ c0 < (w : Int)
  · rw [if_pos hb] at ho
    cases o with
    | none => cases ho
    | some v =>
      have ho' : c0 = ((v : Nat) : Int) := Option.some.inj ho
      subst ho' 
      simp [withinBoundsArr, cellIndexArr, hb.2, hy'.2, hz'.2, idx_cast]
  · rw [if_neg hb] at ho
    cases o with
    | some v => cases ho
    | none =>
      have : withinBoundsArr w h d c0 y z = false := by
        simp only [withinBoundsArr, Bool.and_eq_false_iff, decide_eq_false_iff_not]
        by_cases h0 : 0 ≤ c0
        · have : ¬ c0 < w := fun hh => hb ⟨h0, hh⟩
          simp [this]
        · simp [h0]
      simp [this]

theorem py_slot_y (w h d x z : Nat) (hx : x < w) (hz : z < d) (c1 : Int) (o : Option Nat)
    (ho : (if 0 ≤ c1 ∧ c1 < (h : Int) then some c1 else none) = o.map fun v => (v : Int)) :
    (if withinBoundsArr w h d x c1 z = true then some (cellIndexArr w h x c1 z).toNat else none)
      = o.map fun v => x + w * (v + h * z) := by
  have hx' : (0 : Int) ≤ x ∧ (x : Int) < w := ⟨Int.natCast_nonneg _, by exact_mod_cast hx⟩
  have hz' : (0 : Int) ≤ z ∧ (z : Int) < d := ⟨Int.natCast_nonneg _, by exact_mod_cast hz⟩
  by_cases hb : 0 ≤ c1 ∧ c1 < (h : Int)
  · rw [if_pos hb] at ho
    cases o with
    | none => cases ho
    | some v =>
      have ho' : c1 = ((v : Nat) : Int) := Option.some.inj ho
      subst ho'
      simp [withinBoundsArr, cellIndexArr, hb.2, hx'.2, hz'.2, idx_cast]
  · rw [if_neg hb] at ho
    cases o with
    | some v => cases ho
    | none =>
      have : withinBoundsArr w h d x c1 z = false := by
        simp only [withinBoundsArr, Bool.and_eq_false_iff, decide_eq_false_iff_not]
        by_cases h0 : 0 ≤ c1
        · have : ¬ c1 < h := fun hh => hb ⟨h0, hh⟩
          simp [this]
        · simp [h0]
      simp [this]

theorem py_slot_z (w h d x y : Nat) (hx : x < w) (hy : y < h) (c2 : Int) (o : Option Nat)
    (ho : (if 0 ≤ c2 ∧ c2 < (d : Int) then some c2 else none) = o.map fun v => (v : Int)) :
    (if withinBoundsArr w h d x y c2 = true then some (cellIndexArr w h x y c2).toNat else none)
      = o.map fun v => x + w * (y + h * v) := by
  have hx' : (0 : Int) ≤ x ∧ (x : Int) < w := ⟨Int.natCast_nonneg _, by exact_mod_cast hx⟩
  have hy' : (0 : Int) ≤ y ∧ (y : Int) < h := ⟨Int.natCast_nonneg _, by exact_mod_cast hy⟩
  by_cases hb : 0 ≤ c2 ∧ c2 < (d : Int)
  · rw [if_pos hb] at ho
    cases o with
    | none => cases ho
    | some v =>
      have ho' : c2 = ((v : Nat) : Int) := Option.some.inj ho
      subst ho'
      simp [withinBoundsArr, cellIndexArr, hb.2, hx'.2, hy'.2, idx_cast]
  · rw [if_neg hb] at ho
    cases o with
    | some v => cases ho
    | none =>
      have : withinBoundsArr w h d x y c2 = false := by
        simp only [withinBoundsArr, Bool.and_eq_false_iff, decide_eq_false_iff_not]
        by_cases h0 : 0 ≤ c2
        · have : ¬ c2 < d := fun hh => hb ⟨h0, hh⟩
          simp [this]
        · simp [h0]
      simp [this]

theorem optNe_map (c : Nat) (f : Nat → Nat) (hf : ∀ v, f v = f c ↔ v = c) (o : Option Nat) :
    (optNe c o).map f = optNe (f c) (o.map f) := by
  cases o with
  | none => rfl
  | some v =>
    by_cases h : v = c
    · simp [optNe, h]
    · have : ¬ f v = f c := fun hh => h ((hf v).1 hh)
      simp [optNe, h, this]

theorem filter_filterMap_id (l : List (Option Nat)) (i : Nat) :
    (l.filterMap id).filter (· != i) = (l.map (optNe i)).filterMap id := by
  induction l with
  | nil => rfl
  | cons o os ih =>
    cases o with
    | none =>
      simp only [List.filterMap_cons, List.map_cons, optNe, id_eq]
      exact ih
    | some v =>
      by_cases h : v = i
      · have hb : (v != i) = false := by simp [h]
        subst h
        simp only [List.filterMap_cons, List.map_cons, optNe, id_eq, List.filter_cons, if_true, bne_self_eq_false, Bool.false_eq_true, if_false]
        exact ih
      · have hb : (v != i) = true := by simp [h]
        simp only [List.filterMap_cons, List.map_cons, optNe, id_eq, List.filter_cons, hb, h, if_true, if_false]
        congr 1


/-- **the Python neighbour enumeration of `_compute_dspeciesdt_grid` lists the Spec's six-neighbourhood in the same order,
minus the cell itself** (a periodic axis of length 1 is not wrapped by the `> 1` guards), for every valid grid and cell -/
theorem pyGridNeighbors_eq {g : GridShape} (hv : g.valid = true) {i : Nat} (hi : i < g.size) :
    pyGridNeighbors g i = (gridNbrs g.w g.h g.d g.px g.py g.pz i).filter (· != i) := by
  obtain ⟨hw, hh, hd⟩ := GridShape.valid_pos hv
  have hwN : 0 < g.w := by exact_mod_cast hw
  have hhN : 0 < g.h := by exact_mod_cast hh
  have hxN : i % g.w < g.w := Nat.mod_lt _ hwN
  have hyN : (i / g.w) % g.h < g.h := Nat.mod_lt _ hhN
  have hzN : i / (g.w * g.h) < g.d := by
    rw [Nat.div_lt_iff_lt_mul (Nat.mul_pos hwN hhN)]
    have : g.size = g.w * g.h * g.d := rfl
    rw [Nat.mul_comm]; omega
  obtain ⟨c1, c2, c3⟩ := pyCoords_cast hv i
  obtain ⟨b0, b1, b2⟩ := bc_eq g.px
  obtain ⟨b0', b1', b2'⟩ := bc_eq g.py
  obtain ⟨b0'', b1'', b2''⟩ := bc_eq g.pz
  set x := i % g.w with hx
  set y := (i / g.w) % g.h with hy
  set z := i / (g.w * g.h) with hz
  have hidx : i = x + g.w * (y + g.h * z) := nat_decomp g.w g.h i hwN
  -- the three coordinates of a candidate are `pyAxis` of the offsets
  have ax : ∀ δ : Int, (if (bcString g.px == pyWrapMode.getD 0 "" && pyWrapGuard0 g.w) = true then pyWrap0 g.w ((x : Int) + δ) else (x : Int) + δ)
      = pyAxis g.px g.w x δ := fun δ => by rw [b0]; rfl
  have ay : ∀ δ : Int, (if (bcString g.py == pyWrapMode.getD 1 "" && pyWrapGuard1 g.h) = true then pyWrap1 g.h ((y : Int) + δ) else (y : Int) + δ)
      = pyAxis g.py g.h y δ := fun δ => by rw [b1']; rfl
  have az : ∀ δ : Int, (if (bcString g.pz == pyWrapMode.getD 2 "" && pyWrapGuard2 g.d) = true then pyWrap2 g.d ((z : Int) + δ) else (z : Int) + δ)
      = pyAxis g.pz g.d z δ := fun δ => by rw [b2'']; rfl
  have zx := pyAxis_zero g.px g.w x hxN
  have zy := pyAxis_zero g.py g.h y hyN
  have zz := pyAxis_zero g.pz g.d z hzN
  have fx : ∀ v, (v + g.w * (y + g.h * z) = x + g.w * (y + g.h * z)) ↔ v = x := fun v => by omega
  have fy : ∀ v, (x + g.w * (v + g.h * z) = x + g.w * (y + g.h * z)) ↔ v = y := fun v => by
    constructor
    · intro h
      have : g.w * (v + g.h * z) = g.w * (y + g.h * z) := by omega
      have := Nat.eq_of_mul_eq_mul_left hwN this
      omega
    · rintro rfl; rfl
  have fz : ∀ v, (x + g.w * (y + g.h * v) = x + g.w * (y + g.h * z)) ↔ v = z := fun v => by
    constructor
    · intro h
      have : g.w * (y + g.h * v) = g.w * (y + g.h * z) := by omega
      have := Nat.eq_of_mul_eq_mul_left hwN this
      have : g.h * v = g.h * z := by omega
      exact Nat.eq_of_mul_eq_mul_left hhN this
    · rintro rfl; rfl
  unfold pyGridNeighbors
  simp only [c1, c2, c3]
  have hoff : pyNbrOffsets = [(1, 0, 0), (-1, 0, 0), (0, 1, 0), (0, -1, 0), (0, 0, 1), (0, 0, -1)] := rfl
  rw [hoff]
  simp only [List.filterMap_cons, List.filterMap_nil, ax, ay, az, zx, zy, zz]
  rw [py_slot_x g.w g.h g.d y z hyN hzN _ _ (pyAxis_plus g.px g.w x hxN),
    py_slot_x g.w g.h g.d y z hyN hzN _ _ (pyAxis_minus g.px g.w x hxN),
    py_slot_y g.w g.h g.d x z hxN hzN _ _ (pyAxis_plus g.py g.h y hyN),
    py_slot_y g.w g.h g.d x z hxN hzN _ _ (pyAxis_minus g.py g.h y hyN),
    py_slot_z g.w g.h g.d x y hxN hyN _ _ (pyAxis_plus g.pz g.d z hzN),
    py_slot_z g.w g.h g.d x y hxN hyN _ _ (pyAxis_minus g.pz g.d z hzN)]
  rw [optNe_map x (fun v => v + g.w * (y + g.h * z)) fx, optNe_map x (fun v => v + g.w * (y + g.h * z)) fx,
    optNe_map y (fun v => x + g.w * (v + g.h * z)) fy, optNe_map y (fun v => x + g.w * (v + g.h * z)) fy,
    optNe_map z (fun v => x + g.w * (y + g.h * v)) fz, optNe_map z (fun v => x + g.w * (y + g.h * v)) fz]
  simp only [← hidx]
  unfold gridNbrs
  simp only [← hx, ← hy, ← hz]
  rw [filter_filterMap_id]
  simp only [List.map_cons, List.map_nil, List.filterMap_cons, List.filterMap_nil, id_eq]

end Strengths
