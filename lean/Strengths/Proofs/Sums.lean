/-
Sums as the engine loops accumulate them (`(List.range n).foldl (· + f ·) a`) in `Finset.sum` form, and the
effect of a point update of a `State` on such sums.  Shared by C02 / C07 / C14.
-/
import Mathlib.Algebra.BigOperators.Group.Finset.Basic
import Mathlib.Algebra.BigOperators.Ring.Finset
import Mathlib.Algebra.BigOperators.Intervals
import Mathlib.Algebra.Order.BigOperators.Group.Finset
import Mathlib.Algebra.Order.Field.Rat
import Mathlib.Tactic.Ring
import Mathlib.Tactic.Linarith
import Strengths.Model.Engine

namespace Strengths
open Finset

theorem foldl_add_eq_sum {α : Type} (f : α → Rat) (l : List α) (a : Rat) :
    l.foldl (fun acc i => acc + f i) a = a + (l.map f).sum := by
  induction l generalizing a with
  | nil => simp
  | cons x xs ih => simp [List.foldl_cons, ih, add_assoc]

theorem list_range_map_sum (f : Nat → Rat) (n : Nat) :
    ((List.range n).map f).sum = ∑ i ∈ range n, f i := by
  induction n with
  | zero => simp
  | succ n ih => simp [List.range_succ, Finset.sum_range_succ, ih]

theorem foldl_range_add (f : Nat → Rat) (n : Nat) (a : Rat) :
    (List.range n).foldl (fun acc i => acc + f i) a = a + ∑ i ∈ range n, f i := by
  rw [foldl_add_eq_sum, list_range_map_sum]

theorem State.update_get (x : State) (i s : Nat) (v : Rat) (i' s' : Nat) :
    (x.update i s v) i' s' = if i' = i ∧ s' = s then v else x i' s' := rfl

@[simp] theorem State.update_same (x : State) (i s : Nat) (v : Rat) : (x.update i s v) i s = v := by
  simp [State.update_get]

theorem State.update_other_species (x : State) (i s : Nat) (v : Rat) (i' s' : Nat) (h : s' ≠ s) :
    (x.update i s v) i' s' = x i' s' := by
  simp [State.update_get, h]

theorem State.update_other_cell (x : State) (i s : Nat) (v : Rat) (i' s' : Nat) (h : i' ≠ i) :
    (x.update i s v) i' s' = x i' s' := by
  simp [State.update_get, h]

/-- a sum over cells of a function that is changed at one point `i < n` -/
theorem sum_range_update_point (f g : Nat → Rat) (n i : Nat) (hi : i < n)
    (h : ∀ j, j ≠ i → g j = f j) :
    ∑ j ∈ range n, g j = ∑ j ∈ range n, f j + (g i - f i) := by
  have hmem : i ∈ range n := mem_range.2 hi
  rw [← Finset.add_sum_erase _ g hmem, ← Finset.add_sum_erase _ f hmem]
  have : ∑ j ∈ (range n).erase i, g j = ∑ j ∈ (range n).erase i, f j :=
    Finset.sum_congr rfl (fun j hj => h j (Finset.ne_of_mem_erase hj))
  rw [this]; ring

end Strengths
