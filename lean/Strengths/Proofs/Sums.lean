/-
Sums as the engine loops accumulate them (`(List.range n).foldl (· + f ·) a`) in `Finset.sum` form, and the
effect of a point update of a `State` on such sums.  Shared by C02 / C07 / C14.
-/
import Mathlib.Algebra.BigOperators.Group.Finset.Basic
import Mathlib.Algebra.BigOperators.Ring.Finset
import Mathlib.Algebra.BigOperators.Intervals
import Mathlib.Algebra.Order.BigOperators.Group.Finset
import Mathlib.Algebra.Order.Field.Rat
import Mathlib.Tactic.Ring
import Mathlib.Tactic.Linarith
import Mathlib.Tactic.Positivity
import Mathlib.Tactic.NormNum
import Strengths.Model.Engine

namespace Strengths
open Finset

theorem foldl_add_eq_sum {α : Type} (f : α → Rat) (l : List α) (a : Rat) :
    l.foldl (fun acc i => acc + f i) a = a + (l.map f).sum := by
  induction l generalizing a with
  | nil => simp
  | cons x xs ih => simp [List.foldl_cons, ih, add_assoc]

theorem list_range_map_sum (f : Nat → Rat) (n : Nat) :
    ((List.range n).map f).sum = ∑ i ∈ range n, f i := by
  induction n with
  | zero => simp
  | succ n ih => simp [List.range_succ, Finset.sum_range_succ, ih]

theorem foldl_range_add (f : Nat → Rat) (n : Nat) (a : Rat) :
    (List.range n).foldl (fun acc i => acc + f i) a = a + ∑ i ∈ range n, f i := by
  rw [foldl_add_eq_sum, list_range_map_sum]

theorem State.update_get (x : State) (i s : Nat) (v : Rat) (i' s' : Nat) :
    (x.update i s v) i' s' = if i' = i ∧ s' = s then v else x i' s' := rfl

@[simp] theorem State.update_same (x : State) (i s : Nat) (v : Rat) : (x.update i s v) i s = v := by
  simp [State.update_get]

theorem State.update_other_species (x : State) (i s : Nat) (v : Rat) (i' s' : Nat) (h : s' ≠ s) :
    (x.update i s v) i' s' = x i' s' := by
  simp [State.update_get, h]

theorem State.update_other_cell (x : State) (i s : Nat) (v : Rat) (i' s' : Nat) (h : i' ≠ i) :
    (x.update i s v) i' s' = x i' s' := by
  simp [State.update_get, h]

/-- a sum over cells of a function that is changed at one point `i < n` -/
theorem sum_range_update_point (f g : Nat → Rat) (n i : Nat) (hi : i < n)
    (h : ∀ j, j ≠ i → g j = f j) :
    ∑ j ∈ range n, g j = ∑ j ∈ range n, f j + (g i - f i) := by
  have hmem : i ∈ range n := mem_range.2 hi
  rw [← Finset.add_sum_erase _ g hmem, ← Finset.add_sum_erase _ f hmem]
  have : ∑ j ∈ (range n).erase i, g j = ∑ j ∈ (range n).erase i, f j :=
    Finset.sum_congr rfl (fun j hj => h j (Finset.ne_of_mem_erase hj))
  rw [this]; ring

/-- a non-negative integer amount -/
def IsNNInt (q : Rat) : Prop := ∃ k : Nat, q = (k : Rat)

theorem IsNNInt.nonneg {q : Rat} (h : IsNNInt q) : 0 ≤ q := by
  obtain ⟨k, rfl⟩ := h; exact Nat.cast_nonneg k

theorem isNNInt_zero : IsNNInt 0 := ⟨0, by simp⟩
theorem isNNInt_natCast (k : Nat) : IsNNInt (k : Rat) := ⟨k, rfl⟩

theorem IsNNInt.add_one {q : Rat} (h : IsNNInt q) : IsNNInt (q + 1) := by
  obtain ⟨k, rfl⟩ := h; exact ⟨k + 1, by push_cast; ring⟩

theorem IsNNInt.sub_one {q : Rat} (h : IsNNInt q) (hpos : 0 < q) : IsNNInt (q - 1) := by
  obtain ⟨k, rfl⟩ := h
  cases k with
  | zero => simp at hpos
  | succ k => exact ⟨k, by push_cast; ring⟩

theorem IsNNInt.add {p q : Rat} (hp : IsNNInt p) (hq : IsNNInt q) : IsNNInt (p + q) := by
  obtain ⟨a, rfl⟩ := hp; obtain ⟨b, rfl⟩ := hq; exact ⟨a + b, by push_cast; ring⟩

theorem isNNInt_max_zero_intCast (z : Int) : IsNNInt (max 0 (z : Rat)) := by
  rcases le_total 0 z with h | h
  · refine ⟨z.toNat, ?_⟩
    have hz : (0 : Rat) ≤ (z : Rat) := by exact_mod_cast h
    rw [max_eq_right hz]
    have : ((z.toNat : Int) : Rat) = (z : Rat) := by rw [Int.toNat_of_nonneg h]
    exact_mod_cast this.symm
  · have hz : (z : Rat) ≤ 0 := by exact_mod_cast h
    rw [max_eq_left hz]; exact isNNInt_zero

theorem isNNInt_sum {n : Nat} {f : Nat → Rat} (h : ∀ i, i < n → IsNNInt (f i)) : IsNNInt (∑ i ∈ range n, f i) := by
  induction n with
  | zero => simpa using isNNInt_zero
  | succ n ih =>
    rw [Finset.sum_range_succ]
    exact (ih (fun i hi => h i (by omega))).add (h n (by omega))


end Strengths
