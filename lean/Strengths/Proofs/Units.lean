/-
Helper lemmas about the units model (positivity of scales, algebra of conversion factors).
Imports single Mathlib modules for `zpow` algebra over the field ℚ (core `Rat`).
-/
import Mathlib.Algebra.Field.Rat
import Mathlib.Algebra.GroupWithZero.Basic
import Mathlib.Algebra.Order.Field.Basic
import Mathlib.Algebra.Order.Field.Rat
import Mathlib.Tactic.FieldSimp
import Mathlib.Tactic.NormNum
import Strengths.Model.Units

namespace Strengths
open Gen

theorem spaceScale_pos : ∀ s ∈ spaceSyms, 0 < scaleIn spaceScale s := by decide +kernel
theorem timeScale_pos : ∀ s ∈ timeSyms, 0 < scaleIn timeScale s := by decide +kernel
theorem qtyScale_pos : ∀ s ∈ qtySyms, 0 < scaleIn qtyScale s := by decide +kernel

theorem Sys.valid_iff (u : Sys) :
    u.valid = true ↔ u.space ∈ spaceSyms ∧ u.time ∈ timeSyms ∧ u.qty ∈ qtySyms := by
  simp [Sys.valid, and_assoc]

theorem Sys.sSpace_pos {u : Sys} (h : u.valid = true) : 0 < u.sSpace :=
  spaceScale_pos _ ((Sys.valid_iff u).1 h).1
theorem Sys.sTime_pos {u : Sys} (h : u.valid = true) : 0 < u.sTime :=
  timeScale_pos _ ((Sys.valid_iff u).1 h).2.1
theorem Sys.sQty_pos {u : Sys} (h : u.valid = true) : 0 < u.sQty :=
  qtyScale_pos _ ((Sys.valid_iff u).1 h).2.2

theorem Sys.sSpace_ne {u : Sys} (h : u.valid = true) : u.sSpace ≠ 0 := ne_of_gt (Sys.sSpace_pos h)
theorem Sys.sTime_ne {u : Sys} (h : u.valid = true) : u.sTime ≠ 0 := ne_of_gt (Sys.sTime_pos h)
theorem Sys.sQty_ne {u : Sys} (h : u.valid = true) : u.sQty ≠ 0 := ne_of_gt (Sys.sQty_pos h)

theorem siFactor_pos {u : Sys} (h : u.valid = true) (d : Dim) : 0 < siFactor u d := by
  unfold siFactor
  have a := zpow_pos (Sys.sSpace_pos h) d.space
  have b := zpow_pos (Sys.sTime_pos h) d.time
  have c := zpow_pos (Sys.sQty_pos h) d.qty
  exact mul_pos (mul_pos a b) c

theorem siFactor_ne {u : Sys} (h : u.valid = true) (d : Dim) : siFactor u d ≠ 0 :=
  ne_of_gt (siFactor_pos h d)

/-- the conversion factor is the ratio of the SI values of the two units -/
theorem convFactor_eq_div (U V : Sys) (d : Dim) :
    convFactor U V d = siFactor U d / siFactor V d := by
  unfold convFactor siFactor
  rw [div_zpow, div_zpow, div_zpow]
  by_cases h1 : V.sSpace ^ d.space = 0
  · simp [h1]
  by_cases h2 : V.sTime ^ d.time = 0
  · simp [h2]
  by_cases h3 : V.sQty ^ d.qty = 0
  · simp [h3]
  field_simp

theorem convFactor_pos {U V : Sys} (hU : U.valid = true) (hV : V.valid = true) (d : Dim) :
    0 < convFactor U V d := by
  rw [convFactor_eq_div]
  exact div_pos (siFactor_pos hU d) (siFactor_pos hV d)

theorem convFactor_self {U : Sys} (hU : U.valid = true) (d : Dim) : convFactor U U d = 1 := by
  rw [convFactor_eq_div, div_self (siFactor_ne hU d)]

theorem convFactor_comp (U : Sys) {V : Sys} (hV : V.valid = true) (W : Sys) (d : Dim) :
    convFactor U V d * convFactor V W d = convFactor U W d := by
  simp only [convFactor_eq_div]
  have := siFactor_ne hV d
  field_simp

theorem convFactor_inv {U V : Sys} (hU : U.valid = true) (hV : V.valid = true) (d : Dim) :
    convFactor U V d * convFactor V U d = 1 := by
  rw [convFactor_comp U hV U d, convFactor_self hU]

theorem mkSys_valid {a b c : String} {s : Sys} (h : mkSys a b c = .ok s) : s.valid = true := by
  unfold mkSys at h
  split at h
  · cases h; assumption
  · cases h

end Strengths
