/-
Helper lemmas about grid geometry: index ↔ coordinates, wrap-around arithmetic, the engine's
neighbour table (`nbr_involutive` is used by the conservation proofs of other properties).
-/
import Mathlib.Tactic.Ring
import Mathlib.Tactic.Linarith
import Mathlib.Tactic.Tauto
import Mathlib.Tactic.SplitIfs
import Strengths.Model.GridGraph

namespace Strengths
open Gen

/-! ### index ↔ coordinates over `Int` -/

/-- coordinates of the linear index `x + y*w + z*(w*h)` -/
theorem decode_encode {w h x y z : Int} (hw : 0 < w) (hx : 0 ≤ x) (hx' : x < w) (hy : 0 ≤ y) (hy' : y < h) :
    (x + y * w + z * (w * h)) % w = x ∧
    (x + y * w + z * (w * h)) % (w * h) / w = y ∧
    (x + y * w + z * (w * h)) / (w * h) = z := by
  have hh : 0 < h := by omega
  have hwh : 0 < w * h := Int.mul_pos hw hh
  have hr0 : 0 ≤ x + y * w := by nlinarith
  have hr1 : x + y * w < w * h := by nlinarith
  have h3 := (Int.ediv_emod_unique (a := x + y * w + z * (w * h)) (r := x + y * w) (q := z) hwh).2
    ⟨by ring, hr0, hr1⟩
  have h1 : (x + y * w + z * (w * h)) % w = x := by
    have : x + y * w + z * (w * h) = x + (y + z * h) * w := by ring
    rw [this, Int.add_mul_emod_self_right, Int.emod_eq_of_lt hx hx']
  have h2 := (Int.ediv_emod_unique (a := x + y * w) (r := x) (q := y) hw).2 ⟨by ring, hx, hx'⟩
  refine ⟨h1, ?_, h3.1⟩
  rw [h3.2]; exact h2.1

/-- every index in range is the index of its coordinates, which are in range -/
theorem encode_decode {w h d i : Int} (hw : 0 < w) (hh : 0 < h) (hi : 0 ≤ i) (hi' : i < w * h * d) :
    (0 ≤ i % w ∧ i % w < w) ∧ (0 ≤ i % (w * h) / w ∧ i % (w * h) / w < h) ∧
    (0 ≤ i / (w * h) ∧ i / (w * h) < d) ∧
    i % w + i % (w * h) / w * w + i / (w * h) * (w * h) = i := by
  have hwh : 0 < w * h := Int.mul_pos hw hh
  have hwne : w ≠ 0 := by omega
  have hwhne : w * h ≠ 0 := by omega
  have r0 := Int.emod_nonneg i hwhne
  have r1 := Int.emod_lt_of_pos i hwh
  have e1 := Int.emod_add_ediv_mul i (w * h)
  have e2 := Int.emod_add_ediv_mul (i % (w * h)) w
  have e3 : i % (w * h) % w = i % w := Int.emod_emod_of_dvd i (Dvd.intro h rfl)
  rw [e3] at e2
  refine ⟨⟨Int.emod_nonneg i hwne, Int.emod_lt_of_pos i hw⟩, ⟨Int.ediv_nonneg r0 (by omega), ?_⟩,
    ⟨Int.ediv_nonneg hi (by omega), ?_⟩, by linarith⟩
  · exact Int.ediv_lt_of_lt_mul hw (by rw [Int.mul_comm h w]; exact r1)
  · exact Int.ediv_lt_of_lt_mul hwh (by rw [Int.mul_comm d (w * h)]; exact hi')

/-- the linear index of in-range coordinates is in range -/
theorem encode_range {w h d x y z : Int} (hx : 0 ≤ x) (hx' : x < w) (hy : 0 ≤ y) (hy' : y < h)
    (hz : 0 ≤ z) (hz' : z < d) : 0 ≤ x + y * w + z * (w * h) ∧ x + y * w + z * (w * h) < w * h * d := by
  have hw : 0 < w := by omega
  have hh : 0 < h := by omega
  have hwh : 0 < w * h := Int.mul_pos hw hh
  have hr0 : 0 ≤ x + y * w := by nlinarith
  have hr1 : x + y * w + 1 ≤ w * h := by nlinarith
  have hz1 : z + 1 ≤ d := by omega
  constructor
  · nlinarith
  · nlinarith

/-- the linear index is injective on in-range coordinates -/
theorem encode_inj {w h x y z x' y' z' : Int} (hw : 0 < w)
    (hx : 0 ≤ x) (hx' : x < w) (hy : 0 ≤ y) (hy' : y < h)
    (kx : 0 ≤ x') (kx' : x' < w) (ky : 0 ≤ y') (ky' : y' < h)
    (e : x + y * w + z * (w * h) = x' + y' * w + z' * (w * h)) : x = x' ∧ y = y' ∧ z = z' := by
  obtain ⟨a1, a2, a3⟩ := decode_encode (z := z) hw hx hx' hy hy'
  obtain ⟨b1, b2, b3⟩ := decode_encode (z := z') hw kx kx' ky ky'
  rw [e] at a1 a2 a3
  exact ⟨a1.symm.trans b1, a2.symm.trans b2, a3.symm.trans b3⟩

/-! ### wrap-around arithmetic (`(n + c) % n`) -/

theorem wrap_same {n c : Int} (h0 : 0 ≤ c) (h1 : c < n) : (n + c) % n = c := by
  rw [Int.add_emod_left, Int.emod_eq_of_lt h0 h1]

theorem wrap_succ {n c : Int} (h0 : 0 ≤ c) (h1 : c < n) :
    (n + (c + 1)) % n = if c + 1 = n then 0 else c + 1 := by
  rw [Int.add_emod_left]
  split
  · next h => rw [h, Int.emod_self]
  · next h => exact Int.emod_eq_of_lt (by omega) (by omega)

theorem wrap_pred {n c : Int} (h0 : 0 ≤ c) (h1 : c < n) :
    (n + (c - 1)) % n = if c = 0 then n - 1 else c - 1 := by
  split
  · next h => subst h; exact Int.emod_eq_of_lt (by omega) (by omega)
  · next h => rw [Int.add_emod_left]; exact Int.emod_eq_of_lt (by omega) (by omega)

end Strengths

namespace Strengths
open Gen

/-! ### the engine's neighbour table -/

/-- one axis of `GetNeighborIndex`, as a specification: shift by `δ`, wrap around when the axis is
periodic, no neighbour outside a reflecting axis -/
def axisStep (per : Bool) (n c δ : Int) : Option Int :=
  if per then some ((n + (c + δ)) % n)
  else if 0 ≤ c + δ ∧ c + δ < n then some (c + δ) else none

theorem axisStep_zero {per : Bool} {n c : Int} (h0 : 0 ≤ c) (h1 : c < n) : axisStep per n c 0 = some c := by
  unfold axisStep
  cases per
  · simp [h0, h1]
  · simp [wrap_same h0 h1]

/-- a step lands inside the axis, and the opposite step leads back -/
theorem axisStep_inv {per : Bool} {n c δ c' : Int} (h0 : 0 ≤ c) (h1 : c < n) (hδ : δ = 1 ∨ δ = -1 ∨ δ = 0)
    (h : axisStep per n c δ = some c') : (0 ≤ c' ∧ c' < n) ∧ axisStep per n c' (-δ) = some c := by
  unfold axisStep at h ⊢
  cases per
  · simp only [Bool.false_eq_true, if_false] at h ⊢
    split at h
    · next hr =>
      cases h
      refine ⟨hr, ?_⟩
      rw [if_pos (by omega)]
      congr 1; omega
    · cases h
  · simp only [if_true] at h ⊢
    cases h
    rcases hδ with rfl | rfl | rfl
    · rw [wrap_succ h0 h1]
      split
      · next e =>
        refine ⟨by omega, ?_⟩
        have := wrap_pred (n := n) (c := 0) (by omega) (by omega)
        simp only [if_true] at this
        rw [show (n + (0 + -1)) = n + (0 - 1) by ring, this]
        congr 1; omega
      · next e =>
        refine ⟨by omega, ?_⟩
        have := wrap_pred (n := n) (c := c + 1) (by omega) (by omega)
        rw [if_neg (by omega)] at this
        rw [show (n + (c + 1 + -1)) = n + (c + 1 - 1) by ring, this]
        congr 1; omega
    · rw [show c + -1 = c - 1 by ring, wrap_pred h0 h1]
      split
      · next e =>
        subst e
        refine ⟨by omega, ?_⟩
        have := wrap_succ (n := n) (c := n - 1) (by omega) (by omega)
        rw [if_pos (by omega)] at this
        rw [show (n + (n - 1 + - -1)) = n + (n - 1 + 1) by ring, this]
      · next e =>
        refine ⟨by omega, ?_⟩
        have := wrap_succ (n := n) (c := c - 1) (by omega) (by omega)
        rw [if_neg (by omega)] at this
        rw [show (n + (c - 1 + - -1)) = n + (c - 1 + 1) by ring, this]
        congr 1; omega
    · simp only [Int.add_zero, Int.neg_zero, wrap_same h0 h1]
      exact ⟨⟨h0, h1⟩, trivial⟩

/-- (axis, delta) of a direction, read from the generated switch table -/
def dirAxisDelta (dir : Nat) : Nat × Int :=
  match dirDelta.find? (fun t => t.1 == dir) with
  | some (_, a, dl) => (a, dl)
  | none => (3, 0)

/-- the generated tables: opposite directions move along the same axis by the opposite amount -/
theorem oppDir_spec : ∀ n < 6, oppOf n < 6 ∧ (dirAxisDelta (oppOf n)).1 = (dirAxisDelta n).1 ∧
    (dirAxisDelta (oppOf n)).2 = -(dirAxisDelta n).2 ∧ oppOf (oppOf n) = n := by decide +kernel

theorem dirAxisDelta_spec : ∀ n < 6, (dirAxisDelta n).1 < 3 ∧ ((dirAxisDelta n).2 = 1 ∨ (dirAxisDelta n).2 = -1) := by
  decide +kernel

/-- per-axis deltas of a direction -/
def dirDeltaOn (dir : Nat) (axis : Nat) : Int := if (dirAxisDelta dir).1 = axis then (dirAxisDelta dir).2 else 0

theorem bcCode_flag (p : Bool) :
    (bcCode p == wrapFlag.getD 0 0) = p ∧ (bcCode p == wrapFlag.getD 1 0) = p ∧ (bcCode p == wrapFlag.getD 2 0) = p := by
  cases p <;> decide +kernel

theorem shiftDir_eq (dir : Nat) (hd : dir < 6) (x y z : Int) :
    shiftDir dir x y z = (x + dirDeltaOn dir 0, y + dirDeltaOn dir 1, z + dirDeltaOn dir 2) := by
  have h6 : dir = 0 ∨ dir = 1 ∨ dir = 2 ∨ dir = 3 ∨ dir = 4 ∨ dir = 5 := by omega
  rcases h6 with rfl | rfl | rfl | rfl | rfl | rfl <;>
    simp [shiftDir, dirDeltaOn, dirAxisDelta, dirDelta]

theorem wrapAxis_eq (n c : Int) : wrapAxis0 n c = Int.tmod (n + c) n ∧ wrapAxis1 n c = Int.tmod (n + c) n ∧
    wrapAxis2 n c = Int.tmod (n + c) n := ⟨rfl, rfl, rfl⟩

theorem dirDeltaOn_cases (dir : Nat) (hd : dir < 6) (a : Nat) :
    dirDeltaOn dir a = 1 ∨ dirDeltaOn dir a = -1 ∨ dirDeltaOn dir a = 0 := by
  unfold dirDeltaOn
  split
  · rcases (dirAxisDelta_spec dir hd).2 with h | h <;> simp [h]
  · simp

/-- one axis of the generated code = `axisStep` (for a coordinate inside the axis and a unit step) -/
theorem axis_code_eq {per : Bool} {n c δ : Int} (h0 : 0 ≤ c) (h1 : c < n) (hδ : δ = 1 ∨ δ = -1 ∨ δ = 0) :
    let c'' := if per then Int.tmod (n + (c + δ)) n else c + δ
    (decide (c'' ≥ 0) && decide (c'' < n)) = (axisStep per n c δ).isSome ∧
    ∀ v, axisStep per n c δ = some v → c'' = v := by
  have hnn : 0 ≤ n + (c + δ) := by omega
  cases per
  · simp only [Bool.false_eq_true, if_false, axisStep]
    by_cases hr : 0 ≤ c + δ ∧ c + δ < n
    · simp [hr]
    · rw [if_neg hr]
      simp only [Option.isSome_none, reduceCtorEq, false_implies, implies_true, and_true]
      rcases Classical.not_and_iff_not_or_not.mp hr with h | h
      · simp [h]
      · have : ¬ c + δ < n := h
        simp [this]
  · simp only [if_true, axisStep, Int.tmod_eq_emod_of_nonneg hnn, Option.isSome_some, Option.some.injEq]
    have hn : n ≠ 0 := by omega
    have a := Int.emod_nonneg (n + (c + δ)) hn
    have b := Int.emod_lt_of_pos (n + (c + δ)) (show 0 < n by omega)
    rw [Int.add_emod_left] at a b
    simp [a, b]

theorem engNeighborOfCoords_eq (g : GridShape) {x y z : Int} (dir : Nat) (hd : dir < 6)
    (hx : 0 ≤ x ∧ x < g.w) (hy : 0 ≤ y ∧ y < g.h) (hz : 0 ≤ z ∧ z < g.d) :
    engNeighborOfCoords g x y z dir =
      match axisStep g.px g.w x (dirDeltaOn dir 0), axisStep g.py g.h y (dirDeltaOn dir 1),
            axisStep g.pz g.d z (dirDeltaOn dir 2) with
      | some a, some b, some c => a + b * g.w + c * (g.w * g.h)
      | _, _, _ => -1 := by
  unfold engNeighborOfCoords
  rw [shiftDir_eq dir hd]
  simp only [(bcCode_flag _).1, (bcCode_flag _).2.1, (bcCode_flag _).2.2, (wrapAxis_eq _ _).1, (wrapAxis_eq _ _).2.1,
    (wrapAxis_eq _ _).2.2]
  obtain ⟨ax1, ax2⟩ := axis_code_eq (per := g.px) hx.1 hx.2 (dirDeltaOn_cases dir hd 0)
  obtain ⟨ay1, ay2⟩ := axis_code_eq (per := g.py) hy.1 hy.2 (dirDeltaOn_cases dir hd 1)
  obtain ⟨az1, az2⟩ := axis_code_eq (per := g.pz) hz.1 hz.2 (dirDeltaOn_cases dir hd 2)
  simp only [nbrInRange, nbrIndex, nbrNone]
  generalize (if g.px = true then (↑g.w + (x + dirDeltaOn dir 0)).tmod ↑g.w else x + dirDeltaOn dir 0) = X at *
  generalize (if g.py = true then (↑g.h + (y + dirDeltaOn dir 1)).tmod ↑g.h else y + dirDeltaOn dir 1) = Y at *
  generalize (if g.pz = true then (↑g.d + (z + dirDeltaOn dir 2)).tmod ↑g.d else z + dirDeltaOn dir 2) = Z at *
  simp only [Bool.and_assoc] at *
  cases hxs : axisStep g.px (↑g.w) x (dirDeltaOn dir 0) with
  | none => rw [hxs] at ax1; simp only [Option.isSome_none] at ax1; simp only [← Bool.and_assoc, ax1]; simp
  | some a =>
    cases hys : axisStep g.py (↑g.h) y (dirDeltaOn dir 1) with
    | none =>
      rw [hys] at ay1; simp only [Option.isSome_none] at ay1
      have : (decide (X ≥ 0) && (decide (X < ↑g.w) && (decide (Y ≥ 0) && (decide (Y < ↑g.h) && (decide (Z ≥ 0) && decide (Z < ↑g.d)))))) = false := by
        rw [← Bool.and_assoc (decide (Y ≥ 0)), ay1]; simp
      simp [this]
    | some b =>
      cases hzs : axisStep g.pz (↑g.d) z (dirDeltaOn dir 2) with
      | none =>
        rw [hzs] at az1; simp only [Option.isSome_none] at az1
        have : (decide (X ≥ 0) && (decide (X < ↑g.w) && (decide (Y ≥ 0) && (decide (Y < ↑g.h) && (decide (Z ≥ 0) && decide (Z < ↑g.d)))))) = false := by
          rw [az1]; simp
        simp [this]
      | some c =>
        rw [hxs] at ax1 ax2; rw [hys] at ay1 ay2; rw [hzs] at az1 az2
        have e1 := ax2 a rfl; have e2 := ay2 b rfl; have e3 := az2 c rfl
        subst e1 e2 e3
        simp only [Option.isSome_some] at ax1 ay1 az1
        have : (decide (X ≥ 0) && (decide (X < ↑g.w) && (decide (Y ≥ 0) && (decide (Y < ↑g.h) && (decide (Z ≥ 0) && decide (Z < ↑g.d)))))) = true := by
          rw [az1, Bool.and_true, ay1, Bool.and_true, ax1]
        simp only [this, if_true]
        ring

theorem GridShape.valid_pos {g : GridShape} (hv : g.valid = true) : (0:Int) < g.w ∧ (0:Int) < g.h ∧ (0:Int) < g.d := by
  simp [GridShape.valid] at hv
  omega

/-- the coordinates `BuildMeshNeighbors` computes for mesh `i` -/
theorem mesh_coords {g : GridShape} (hv : g.valid = true) (i : Nat) :
    meshX g.w g.h i = (i : Int) % g.w ∧ meshY g.w g.h i = (i : Int) % (g.w * g.h) / g.w ∧
    meshZ g.w g.h i = (i : Int) / (g.w * g.h) := by
  obtain ⟨hw, hh, _⟩ := GridShape.valid_pos hv
  have hi : (0 : Int) ≤ i := Int.natCast_nonneg i
  have hwh : (g.w : Int) * g.h ≠ 0 := by have := Int.mul_pos hw hh; omega
  refine ⟨?_, ?_, ?_⟩
  · simp only [meshX]; exact Int.tmod_eq_emod_of_nonneg hi
  · simp only [meshY]
    rw [Int.tmod_eq_emod_of_nonneg hi, Int.tdiv_eq_ediv_of_nonneg (Int.emod_nonneg _ hwh)]
  · simp only [meshZ]; exact Int.tdiv_eq_ediv_of_nonneg hi

theorem dirDeltaOn_opp {n : Nat} (hn : n < 6) (a : Nat) : dirDeltaOn (oppOf n) a = - dirDeltaOn n a := by
  obtain ⟨_, h1, h2, _⟩ := oppDir_spec n hn
  unfold dirDeltaOn
  rw [h1, h2]
  split <;> simp

theorem size_cast (g : GridShape) : ((g.size : Nat) : Int) = (g.w : Int) * g.h * g.d := by
  simp [GridShape.size]

/-- the engine's neighbour table is an involution through `opposed_direction` -/
theorem nbr_involutive {g : GridShape} (hv : g.valid = true) {i j n : Nat} (hi : i < g.size) (hn : n < 6)
    (h : engNbr? g i n = some j) : engNbr? g j (oppOf n) = some i ∧ j < g.size := by
  obtain ⟨hw, hh, hd⟩ := GridShape.valid_pos hv
  have hi0 : (0 : Int) ≤ i := Int.natCast_nonneg i
  have hi1 : (i : Int) < (g.w : Int) * g.h * g.d := by rw [← size_cast]; exact_mod_cast hi
  obtain ⟨hx, hy, hz, hsum⟩ := encode_decode hw hh hi0 hi1
  obtain ⟨mx, my, mz⟩ := mesh_coords hv i
  unfold engNbr? at h
  simp only [engNeighbor, mx, my, mz] at h
  rw [engNeighborOfCoords_eq g n hn hx hy hz] at h
  cases hxs : axisStep g.px (↑g.w) ((i : Int) % g.w) (dirDeltaOn n 0) with
  | none => rw [hxs] at h; simp [nbrNone] at h
  | some a =>
    cases hys : axisStep g.py (↑g.h) ((i : Int) % (g.w * g.h) / g.w) (dirDeltaOn n 1) with
    | none => rw [hxs, hys] at h; simp [nbrNone] at h
    | some b =>
      cases hzs : axisStep g.pz (↑g.d) ((i : Int) / (g.w * g.h)) (dirDeltaOn n 2) with
      | none => rw [hxs, hys, hzs] at h; simp [nbrNone] at h
      | some c =>
        rw [hxs, hys, hzs] at h
        simp only at h
        obtain ⟨ra, ia⟩ := axisStep_inv hx.1 hx.2 (dirDeltaOn_cases n hn 0) hxs
        obtain ⟨rb, ib⟩ := axisStep_inv hy.1 hy.2 (dirDeltaOn_cases n hn 1) hys
        obtain ⟨rc, ic⟩ := axisStep_inv hz.1 hz.2 (dirDeltaOn_cases n hn 2) hzs
        obtain ⟨j0, j1⟩ := encode_range ra.1 ra.2 rb.1 rb.2 rc.1 rc.2
        split at h
        · cases h
        · next hcond =>
          injection h with hj
          have hjc : ((j : Nat) : Int) = a + b * g.w + c * (g.w * g.h) := by
            rw [← hj]; exact Int.toNat_of_nonneg j0
          have hjlt : j < g.size := by
            have : ((j : Nat) : Int) < ((g.size : Nat) : Int) := by rw [size_cast, hjc]; exact j1
            exact_mod_cast this
          refine ⟨?_, hjlt⟩
          obtain ⟨d1, d2, d3⟩ := decode_encode (z := c) hw ra.1 ra.2 rb.1 rb.2
          obtain ⟨nx, ny, nz⟩ := mesh_coords hv j
          rw [hjc] at nx ny nz
          unfold engNbr?
          simp only [engNeighbor, hjc, nx, ny, nz, d1, d2, d3]
          rw [engNeighborOfCoords_eq g (oppOf n) (oppDir_spec n hn).1 ra rb rc]
          rw [dirDeltaOn_opp hn 0, dirDeltaOn_opp hn 1, dirDeltaOn_opp hn 2, ia, ib, ic]
          simp only [hsum]
          have : ¬ (((i : Int) == nbrNone || (i : Int) < 0) = true) := by
            simp [nbrNone]
          rw [if_neg this]
          simp

end Strengths

namespace Strengths
open Gen

/-- what a neighbour slot of the engine's table contains: per axis one `axisStep` of the cell's coordinates -/
theorem engNbr_some {g : GridShape} (hv : g.valid = true) {i j n : Nat} (hi : i < g.size) (hn : n < 6)
    (h : engNbr? g i n = some j) :
    ∃ a b c, axisStep g.px g.w ((i : Int) % g.w) (dirDeltaOn n 0) = some a ∧
      axisStep g.py g.h ((i : Int) % (g.w * g.h) / g.w) (dirDeltaOn n 1) = some b ∧
      axisStep g.pz g.d ((i : Int) / (g.w * g.h)) (dirDeltaOn n 2) = some c ∧
      (0 ≤ a ∧ a < g.w) ∧ (0 ≤ b ∧ b < g.h) ∧ (0 ≤ c ∧ c < g.d) ∧
      (j : Int) = a + b * g.w + c * (g.w * g.h) := by
  obtain ⟨hw, hh, hd⟩ := GridShape.valid_pos hv
  have hi0 : (0 : Int) ≤ i := Int.natCast_nonneg i
  have hi1 : (i : Int) < (g.w : Int) * g.h * g.d := by rw [← size_cast]; exact_mod_cast hi
  obtain ⟨hx, hy, hz, hsum⟩ := encode_decode hw hh hi0 hi1
  obtain ⟨mx, my, mz⟩ := mesh_coords hv i
  unfold engNbr? at h
  simp only [engNeighbor, mx, my, mz] at h
  rw [engNeighborOfCoords_eq g n hn hx hy hz] at h
  cases hxs : axisStep g.px (↑g.w) ((i : Int) % g.w) (dirDeltaOn n 0) with
  | none => rw [hxs] at h; simp [nbrNone] at h
  | some a =>
    cases hys : axisStep g.py (↑g.h) ((i : Int) % (g.w * g.h) / g.w) (dirDeltaOn n 1) with
    | none => rw [hxs, hys] at h; simp [nbrNone] at h
    | some b =>
      cases hzs : axisStep g.pz (↑g.d) ((i : Int) / (g.w * g.h)) (dirDeltaOn n 2) with
      | none => rw [hxs, hys, hzs] at h; simp [nbrNone] at h
      | some c =>
        rw [hxs, hys, hzs] at h
        simp only at h
        obtain ⟨ra, _⟩ := axisStep_inv hx.1 hx.2 (dirDeltaOn_cases n hn 0) hxs
        obtain ⟨rb, _⟩ := axisStep_inv hy.1 hy.2 (dirDeltaOn_cases n hn 1) hys
        obtain ⟨rc, _⟩ := axisStep_inv hz.1 hz.2 (dirDeltaOn_cases n hn 2) hzs
        obtain ⟨j0, _⟩ := encode_range ra.1 ra.2 rb.1 rb.2 rc.1 rc.2
        split at h
        · cases h
        · injection h with hj
          exact ⟨a, b, c, rfl, rfl, rfl, ra, rb, rc, by rw [← hj]; exact Int.toNat_of_nonneg j0⟩

/-- a direction moves along exactly one axis -/
theorem dirDeltaOn_single : ∀ n < 6,
    (dirDeltaOn n 0 ≠ 0 ∧ dirDeltaOn n 1 = 0 ∧ dirDeltaOn n 2 = 0) ∨
    (dirDeltaOn n 0 = 0 ∧ dirDeltaOn n 1 ≠ 0 ∧ dirDeltaOn n 2 = 0) ∨
    (dirDeltaOn n 0 = 0 ∧ dirDeltaOn n 1 = 0 ∧ dirDeltaOn n 2 ≠ 0) := by decide +kernel

/-- every (axis, ±1) is a direction of the switch -/
theorem dir_exists : ∀ a < 3, ∀ s : Bool, ∃ n < 6, dirAxisDelta n = (a, if s then 1 else -1) := by decide +kernel

/-! ### what one `axisStep` reaches -/

theorem axisStep_plus_iff {per : Bool} {n a b : Int} (ha : 0 ≤ a ∧ a < n) :
    axisStep per n a 1 = some b ↔ ((b = a + 1 ∧ b < n) ∨ (per = true ∧ a = n - 1 ∧ b = 0)) := by
  unfold axisStep
  cases per
  · simp only [Bool.false_eq_true, if_false, false_and, or_false]
    split
    · simp only [Option.some.injEq]; omega
    · simp only [reduceCtorEq, false_iff]; omega
  · simp only [if_true, true_and, Option.some.injEq, wrap_succ ha.1 ha.2]
    split <;> omega

theorem axisStep_minus_iff {per : Bool} {n a b : Int} (ha : 0 ≤ a ∧ a < n) :
    axisStep per n a (-1) = some b ↔ ((a = b + 1 ∧ 0 ≤ b) ∨ (per = true ∧ a = 0 ∧ b = n - 1)) := by
  unfold axisStep
  cases per
  · simp only [Bool.false_eq_true, if_false, false_and, or_false]
    split
    · simp only [Option.some.injEq]; omega
    · simp only [reduceCtorEq, false_iff]; omega
  · simp only [if_true, true_and, Option.some.injEq, show a + -1 = a - 1 by ring, wrap_pred ha.1 ha.2]
    split <;> omega

theorem axisStep_zero_iff {per : Bool} {n a b : Int} (ha : 0 ≤ a ∧ a < n) :
    axisStep per n a 0 = some b ↔ a = b := by
  rw [axisStep_zero ha.1 ha.2]; simp

/-- coordinates of a cell index -/
def cellCoords (g : GridShape) (i : Int) : Int × Int × Int := (i % g.w, i % (g.w * g.h) / g.w, i / (g.w * g.h))

theorem cellCoords_range {g : GridShape} (hv : g.valid = true) {i : Nat} (hi : i < g.size) :
    (0 ≤ (cellCoords g i).1 ∧ (cellCoords g i).1 < g.w) ∧ (0 ≤ (cellCoords g i).2.1 ∧ (cellCoords g i).2.1 < g.h) ∧
    (0 ≤ (cellCoords g i).2.2 ∧ (cellCoords g i).2.2 < g.d) ∧
    (cellCoords g i).1 + (cellCoords g i).2.1 * g.w + (cellCoords g i).2.2 * (g.w * g.h) = i := by
  obtain ⟨hw, hh, hd⟩ := GridShape.valid_pos hv
  have hi0 : (0 : Int) ≤ i := Int.natCast_nonneg i
  have hi1 : (i : Int) < (g.w : Int) * g.h * g.d := by rw [← size_cast]; exact_mod_cast hi
  exact encode_decode hw hh hi0 hi1

/-- a slot of the engine's table holds `j` iff every axis steps from `i`'s coordinate to `j`'s -/
theorem engNbr_iff_steps {g : GridShape} (hv : g.valid = true) {i j n : Nat} (hi : i < g.size) (hj : j < g.size) (hn : n < 6) :
    engNbr? g i n = some j ↔
      axisStep g.px g.w (cellCoords g i).1 (dirDeltaOn n 0) = some (cellCoords g j).1 ∧
      axisStep g.py g.h (cellCoords g i).2.1 (dirDeltaOn n 1) = some (cellCoords g j).2.1 ∧
      axisStep g.pz g.d (cellCoords g i).2.2 (dirDeltaOn n 2) = some (cellCoords g j).2.2 := by
  obtain ⟨hw, hh, hd⟩ := GridShape.valid_pos hv
  obtain ⟨hx, hy, hz, hsum⟩ := cellCoords_range hv hi
  obtain ⟨jx, jy, jz, jsum⟩ := cellCoords_range hv hj
  constructor
  · intro h
    obtain ⟨a, b, c, sa, sb, sc, ra, rb, rc, hjc⟩ := engNbr_some hv hi hn h
    obtain ⟨d1, d2, d3⟩ := decode_encode (z := c) hw ra.1 ra.2 rb.1 rb.2
    simp only [cellCoords] at *
    rw [hjc, d1, d2, d3]
    exact ⟨sa, sb, sc⟩
  · rintro ⟨sa, sb, sc⟩
    obtain ⟨mx, my, mz⟩ := mesh_coords hv i
    unfold engNbr?
    simp only [cellCoords] at *
    simp only [engNeighbor, mx, my, mz]
    rw [engNeighborOfCoords_eq g n hn hx hy hz, sa, sb, sc]
    simp only [jsum]
    have : ¬ (((j : Int) == nbrNone || (j : Int) < 0) = true) := by simp [nbrNone]
    rw [if_neg this]
    simp

/-- cell `c2` is what lies behind face `n` of cell `c1` (faces: 0 = +x, 1 = −x, 2 = +y, 3 = −y, 4 = +z, 5 = −z):
one step along the axis, or around a periodic axis; the other two coordinates equal -/
def reach (g : GridShape) (n : Nat) (c1 c2 : Int × Int × Int) : Prop :=
  match n with
  | 0 => ((c2.1 = c1.1 + 1 ∧ c2.1 < g.w) ∨ (g.px = true ∧ c1.1 = g.w - 1 ∧ c2.1 = 0)) ∧ c1.2.1 = c2.2.1 ∧ c1.2.2 = c2.2.2
  | 1 => ((c1.1 = c2.1 + 1 ∧ 0 ≤ c2.1) ∨ (g.px = true ∧ c1.1 = 0 ∧ c2.1 = g.w - 1)) ∧ c1.2.1 = c2.2.1 ∧ c1.2.2 = c2.2.2
  | 2 => c1.1 = c2.1 ∧ ((c2.2.1 = c1.2.1 + 1 ∧ c2.2.1 < g.h) ∨ (g.py = true ∧ c1.2.1 = g.h - 1 ∧ c2.2.1 = 0)) ∧ c1.2.2 = c2.2.2
  | 3 => c1.1 = c2.1 ∧ ((c1.2.1 = c2.2.1 + 1 ∧ 0 ≤ c2.2.1) ∨ (g.py = true ∧ c1.2.1 = 0 ∧ c2.2.1 = g.h - 1)) ∧ c1.2.2 = c2.2.2
  | 4 => c1.1 = c2.1 ∧ c1.2.1 = c2.2.1 ∧ ((c2.2.2 = c1.2.2 + 1 ∧ c2.2.2 < g.d) ∨ (g.pz = true ∧ c1.2.2 = g.d - 1 ∧ c2.2.2 = 0))
  | 5 => c1.1 = c2.1 ∧ c1.2.1 = c2.2.1 ∧ ((c1.2.2 = c2.2.2 + 1 ∧ 0 ≤ c2.2.2) ∨ (g.pz = true ∧ c1.2.2 = 0 ∧ c2.2.2 = g.d - 1))
  | _ => False

instance (g : GridShape) (n : Nat) (c1 c2 : Int × Int × Int) : Decidable (reach g n c1 c2) := by
  unfold reach; split <;> infer_instance

theorem dirDeltaOn_table :
    dirDeltaOn 0 0 = 1 ∧ dirDeltaOn 0 1 = 0 ∧ dirDeltaOn 0 2 = 0 ∧ dirDeltaOn 1 0 = -1 ∧ dirDeltaOn 1 1 = 0 ∧ dirDeltaOn 1 2 = 0 ∧
    dirDeltaOn 2 0 = 0 ∧ dirDeltaOn 2 1 = 1 ∧ dirDeltaOn 2 2 = 0 ∧ dirDeltaOn 3 0 = 0 ∧ dirDeltaOn 3 1 = -1 ∧ dirDeltaOn 3 2 = 0 ∧
    dirDeltaOn 4 0 = 0 ∧ dirDeltaOn 4 1 = 0 ∧ dirDeltaOn 4 2 = 1 ∧ dirDeltaOn 5 0 = 0 ∧ dirDeltaOn 5 1 = 0 ∧ dirDeltaOn 5 2 = -1 := by
  decide +kernel

/-- slot `n` of cell `i` in the engine's table holds `j` iff `j` lies behind face `n` of `i` -/
theorem engNbr_iff_reach {g : GridShape} (hv : g.valid = true) {i j n : Nat} (hi : i < g.size) (hj : j < g.size) (hn : n < 6) :
    engNbr? g i n = some j ↔ reach g n (cellCoords g i) (cellCoords g j) := by
  rw [engNbr_iff_steps hv hi hj hn]
  obtain ⟨hx, hy, hz, _⟩ := cellCoords_range hv hi
  obtain ⟨t00, t01, t02, t10, t11, t12, t20, t21, t22, t30, t31, t32, t40, t41, t42, t50, t51, t52⟩ := dirDeltaOn_table
  have h6 : n = 0 ∨ n = 1 ∨ n = 2 ∨ n = 3 ∨ n = 4 ∨ n = 5 := by omega
  rcases h6 with rfl | rfl | rfl | rfl | rfl | rfl
  · rw [t00, t01, t02, axisStep_plus_iff hx, axisStep_zero_iff hy, axisStep_zero_iff hz]; rfl
  · rw [t10, t11, t12, axisStep_minus_iff hx, axisStep_zero_iff hy, axisStep_zero_iff hz]; rfl
  · rw [t20, t21, t22, axisStep_zero_iff hx, axisStep_plus_iff hy, axisStep_zero_iff hz]; rfl
  · rw [t30, t31, t32, axisStep_zero_iff hx, axisStep_minus_iff hy, axisStep_zero_iff hz]; rfl
  · rw [t40, t41, t42, axisStep_zero_iff hx, axisStep_zero_iff hy, axisStep_plus_iff hz]; rfl
  · rw [t50, t51, t52, axisStep_zero_iff hx, axisStep_zero_iff hy, axisStep_minus_iff hz]; rfl

theorem exists_lt_six (P : Nat → Prop) : (∃ n < 6, P n) ↔ P 0 ∨ P 1 ∨ P 2 ∨ P 3 ∨ P 4 ∨ P 5 := by
  constructor
  · rintro ⟨n, hn, h⟩
    have h6 : n = 0 ∨ n = 1 ∨ n = 2 ∨ n = 3 ∨ n = 4 ∨ n = 5 := by omega
    rcases h6 with rfl | rfl | rfl | rfl | rfl | rfl <;> simp [h]
  · rintro (h | h | h | h | h | h)
    exacts [⟨0, by omega, h⟩, ⟨1, by omega, h⟩, ⟨2, by omega, h⟩, ⟨3, by omega, h⟩, ⟨4, by omega, h⟩, ⟨5, by omega, h⟩]

theorem seqRes_map_ok {α β} (f : α → Res β) (gf : α → β) : ∀ (l : List α), (∀ a ∈ l, f a = .ok (gf a)) →
    seqRes (l.map f) = .ok (l.map gf)
  | [], _ => rfl
  | a :: rest, h => by
    simp only [List.map_cons, seqRes, h a (by simp), seqRes_map_ok f gf rest (fun b hb => h b (by simp [hb]))]

end Strengths
