/-
The event selection of the Gillespie engine (`ComputePropensities` + `DrawAndApplyEvent`) as a flat
cumulative scan over the list of all channels, and the legality of the selected event (C07).
-/
import Strengths.Proofs.Scan
import Strengths.Proofs.Propensity

namespace Strengths

/-- pick the item of `cs` whose weight interval contains `r` -/
def pick {α : Type} (cs : List α) (ws : List Rat) (r cum : Rat) : Option α :=
  (scanIdx ws r cum).bind (fun k => cs[k]?)

theorem pick_append_left {α : Type} (cs cs' : List α) (ws ws' : List Rat) {r cum : Rat}
    (hlen : cs.length = ws.length) (hcum : cum ≤ r) (h : r < cum + ws.sum) :
    pick (cs ++ cs') (ws ++ ws') r cum = pick cs ws r cum := by
  unfold pick
  rw [scanIdx_append_left ws ws' hcum h]
  cases hs : scanIdx ws r cum with
  | none => rfl
  | some k =>
    have hk : k < cs.length := by rw [hlen]; exact (scanIdx_some hs).1
    simp [List.getElem?_append_left hk]

theorem pick_append_right {α : Type} (cs cs' : List α) {ws : List Rat} (ws' : List Rat) {r cum : Rat}
    (hlen : cs.length = ws.length) (hw : ∀ w ∈ ws, 0 ≤ w) (h : cum + ws.sum ≤ r) :
    pick (cs ++ cs') (ws ++ ws') r cum = pick cs' ws' r (cum + ws.sum) := by
  unfold pick
  rw [scanIdx_append_right hw ws' h]
  cases scanIdx ws' r (cum + ws.sum) with
  | none => rfl
  | some k =>
    simp only [Option.map_some, Option.bind_some]
    rw [List.getElem?_append_right (by omega)]
    congr 1; omega

/-- channels of one cell in the order the engine scans them: its reactions, then (species, slot) pairs -/
def cellChannels (e : EngIn) (i : Nat) : List Event :=
  (List.range e.net.nReact).map (Event.reaction i) ++ (speciesSlots e i).map (fun p => Event.diffusion i p.1 p.2)

/-- all channels of the listed cells, in scan order -/
def channels (e : EngIn) (cells : List Nat) : List Event := cells.flatMap (cellChannels e)

/-- the propensity the engine tabulates for a channel (`mesh_ar`, `mesh_ad`; 0 on a wall slot) -/
def propOf (e : EngIn) (x : State) : Event → Rat
  | .reaction i r => reactionProp e x i r
  | .diffusion i s n => diffPropSlot e x i s n

def reactWeights (e : EngIn) (x : State) (i : Nat) : List Rat := (List.range e.net.nReact).map (reactionProp e x i)
def diffWeights (e : EngIn) (x : State) (i : Nat) : List Rat :=
  (speciesSlots e i).map (fun p => diffPropSlot e x i p.1 p.2)

theorem cellChannels_weights (e : EngIn) (x : State) (i : Nat) :
    (cellChannels e i).map (propOf e x) = reactWeights e x i ++ diffWeights e x i := by
  simp [cellChannels, reactWeights, diffWeights, propOf, Function.comp_def]

theorem a0r_eq (e : EngIn) (x : State) (i : Nat) : a0r e x i = (reactWeights e x i).sum := by
  simp [a0r, reactWeights, foldl_add_eq_sum]

theorem a0d_eq (e : EngIn) (x : State) (i : Nat) : a0d e x i = (diffWeights e x i).sum := by
  have h : (speciesSlots e i).foldl (fun acc p => acc + diffPropSlot e x i p.1 p.2) 0 = a0d e x i := by
    unfold speciesSlots a0d
    rw [List.foldl_flatMap]
    congr 1
    funext acc s
    rw [List.foldl_map]
  rw [← h, foldl_add_eq_sum]; simp [diffWeights]

theorem a0_eq (e : EngIn) (x : State) :
    a0 e x = ((channels e (List.range e.topo.nCells)).map (propOf e x)).sum := by
  unfold a0 channels
  generalize List.range e.topo.nCells = cells
  have : ∀ (a : Rat), cells.foldl (fun acc i => acc + a0r e x i + a0d e x i) a =
      a + ((cells.flatMap (cellChannels e)).map (propOf e x)).sum := by
    induction cells with
    | nil => intro a; simp
    | cons i rest ih =>
      intro a
      rw [List.foldl_cons, ih, List.flatMap_cons, List.map_append, List.sum_append, cellChannels_weights,
        List.sum_append, a0r_eq, a0d_eq]
      ring
  rw [this 0, zero_add]

theorem scanReactions_eq (e : EngIn) (x : State) (i : Nat) (r2 : Rat) (l : List Nat) (cum : Rat) :
    scanReactions e x i r2 l cum = pick (l.map (Event.reaction i)) (l.map (reactionProp e x i)) r2 cum := by
  induction l generalizing cum with
  | nil => rfl
  | cons j rest ih =>
    simp only [scanReactions, List.map_cons, pick, scanIdx]
    split
    · simp
    · rw [ih]; unfold pick
      cases scanIdx (List.map (reactionProp e x i) rest) r2 (cum + reactionProp e x i j) <;> simp

theorem scanDiffusion_eq (e : EngIn) (x : State) (i : Nat) (r2 : Rat) (l : List (Nat × Nat)) (cum : Rat) :
    scanDiffusion e x i r2 l cum =
      pick (l.map (fun p => Event.diffusion i p.1 p.2)) (l.map (fun p => diffPropSlot e x i p.1 p.2)) r2 cum := by
  induction l generalizing cum with
  | nil => rfl
  | cons p rest ih =>
    obtain ⟨s, n⟩ := p
    simp only [scanDiffusion, List.map_cons, pick, scanIdx]
    split
    · simp
    · rw [ih]; unfold pick
      cases scanIdx (List.map (fun p => diffPropSlot e x i p.1 p.2) rest) r2 (cum + diffPropSlot e x i s n) <;> simp

theorem pick_shift {α : Type} (cs : List α) (ws : List Rat) (r c : Rat) : pick cs ws (r - c) 0 = pick cs ws r c := by
  unfold pick; rw [scanIdx_shift, zero_add]

/-- all tabulated propensities are non-negative -/
def PropsNonneg (e : EngIn) (x : State) : Prop := ∀ c, 0 ≤ propOf e x c

/-- `nested_eq_flat`: the engine's per-cell two-level search (outer scan over cells with the sums
`mesh_a0r`, `mesh_a0d`; inner scans on `r − a0_cumul`) picks the same channel as ONE cumulative scan over the
concatenated channel list. -/
theorem selectEvent_eq_flat (e : EngIn) (x : State) (hnn : PropsNonneg e x) (r : Rat) :
    ∀ (cells : List Nat) (cum : Rat), cum ≤ r →
      selectEvent e x r cells cum = pick (channels e cells) ((channels e cells).map (propOf e x)) r cum := by
  intro cells
  induction cells with
  | nil => intro cum _; rfl
  | cons i rest ih =>
    intro cum hcum
    have hwr : ∀ w ∈ reactWeights e x i, 0 ≤ w := by
      intro w hw; simp only [reactWeights, List.mem_map] at hw
      obtain ⟨j, _, rfl⟩ := hw; exact hnn (.reaction i j)
    have hwd : ∀ w ∈ diffWeights e x i, 0 ≤ w := by
      intro w hw; simp only [diffWeights, List.mem_map] at hw
      obtain ⟨p, _, rfl⟩ := hw; exact hnn (.diffusion i p.1 p.2)
    have hchan : channels e (i :: rest) =
        (List.range e.net.nReact).map (Event.reaction i) ++
          ((speciesSlots e i).map (fun p => Event.diffusion i p.1 p.2) ++ channels e rest) := by
      simp [channels, cellChannels, List.append_assoc]
    have hw : (channels e (i :: rest)).map (propOf e x) =
        reactWeights e x i ++ (diffWeights e x i ++ (channels e rest).map (propOf e x)) := by
      rw [hchan]; simp [reactWeights, diffWeights, propOf, Function.comp_def]
    rw [hw, hchan]
    simp only [selectEvent]
    split
    · rename_i h1
      rw [a0r_eq] at h1
      rw [scanReactions_eq, pick_shift,
        pick_append_left _ _ _ _ (by simp [reactWeights]) hcum h1]
      rfl
    · rename_i h1
      rw [a0r_eq] at h1
      have h1' : cum + (reactWeights e x i).sum ≤ r := not_lt.1 h1
      rw [pick_append_right _ _ _ (by simp [reactWeights]) hwr h1']
      split
      · rename_i h2
        rw [a0d_eq, a0r_eq] at h2
        rw [scanDiffusion_eq, pick_shift, a0r_eq,
          pick_append_left _ _ _ _ (by simp [diffWeights]) h1' h2]
        rfl
      · rename_i h2
        rw [a0d_eq, a0r_eq] at h2
        have h2' : cum + (reactWeights e x i).sum + (diffWeights e x i).sum ≤ r := not_lt.1 h2
        rw [pick_append_right _ _ _ (by simp [diffWeights]) hwd h2', a0r_eq, a0d_eq]
        exact ih _ h2'

/-- `select_spec`: for `0 ≤ r < a0` the selection returns the channel `c_k` of the flat list with
`Σ_{j<k} a_j ≤ r < Σ_{j≤k} a_j`; such a channel exists, is unique, and has `a_k > 0`. Conversely every `r`
in that interval selects `c_k`: the set of `r` selecting a channel is an interval of length exactly its
propensity. -/
theorem selectEvent_spec (e : EngIn) (x : State) (hnn : PropsNonneg e x) {r : Rat} (h0 : 0 ≤ r) (h1 : r < a0 e x) :
    ∃ k, ∃ hk : k < (channels e (List.range e.topo.nCells)).length,
      selectEvent e x r (List.range e.topo.nCells) 0 = some ((channels e (List.range e.topo.nCells))[k]) ∧
      prefixSum ((channels e (List.range e.topo.nCells)).map (propOf e x)) k ≤ r ∧
      r < prefixSum ((channels e (List.range e.topo.nCells)).map (propOf e x)) (k + 1) ∧
      0 < propOf e x ((channels e (List.range e.topo.nCells))[k]) := by
  set cs := channels e (List.range e.topo.nCells) with hcs
  set ws := cs.map (propOf e x) with hws
  rw [selectEvent_eq_flat e x hnn r _ 0 h0]
  rw [a0_eq] at h1
  have hsome := scanIdx_isSome (ws := ws) (r := r) (cum := 0) h0 (by simpa using h1)
  obtain ⟨k, hk⟩ := Option.isSome_iff_exists.1 hsome
  have hklt : k < cs.length := by have := (scanIdx_some hk).1; simpa [hws] using this
  obtain ⟨i1, i2⟩ := scanIdx_interval h0 hk
  obtain ⟨hk', hpos⟩ := scanIdx_weight_pos h0 hk
  refine ⟨k, hklt, ?_, by simpa using i1, by simpa using i2, ?_⟩
  · unfold pick; rw [hk]; exact List.getElem?_eq_getElem hklt
  · simpa [hws] using hpos

theorem selectEvent_interval (e : EngIn) (x : State) (hnn : PropsNonneg e x) {r : Rat} (h0 : 0 ≤ r) (k : Nat)
    (hk : k < (channels e (List.range e.topo.nCells)).length)
    (hlo : prefixSum ((channels e (List.range e.topo.nCells)).map (propOf e x)) k ≤ r)
    (hhi : r < prefixSum ((channels e (List.range e.topo.nCells)).map (propOf e x)) (k + 1)) :
    selectEvent e x r (List.range e.topo.nCells) 0 = some ((channels e (List.range e.topo.nCells))[k]) := by
  rw [selectEvent_eq_flat e x hnn r _ 0 h0]
  have hw : ∀ w ∈ (channels e (List.range e.topo.nCells)).map (propOf e x), 0 ≤ w := by
    intro w hw; simp only [List.mem_map] at hw; obtain ⟨c, _, rfl⟩ := hw; exact hnn c
  unfold pick
  rw [scanIdx_of_interval hw (by simpa using hk) (by simpa using hlo) (by simpa using hhi)]
  simp [hk]

end Strengths
