/-
Helper lemmas for C18 (unit and quantity text): digit printer / `int()` round trip, blank handling,
the `u`→`µ` replace chain, the character loop of `parse_units`, the `addunit` fold.
-/
import Strengths.Proofs.Units

namespace Strengths
open Gen

/-! ### digits: `str(int)` and `int(text)` -/

def digits10 : List Char := ['0', '1', '2', '3', '4', '5', '6', '7', '8', '9']

theorem digitChar_spec : ∀ d, d < 10 →
    (digitChar d).isDigit = true ∧ (digitChar d).toNat - '0'.toNat = d ∧ digitChar d ∈ digits10 := by
  decide

theorem showNatF_mem (f n : Nat) : ∀ c ∈ showNatF f n, c ∈ digits10 := by
  induction f generalizing n with
  | zero =>
    intro c hc
    simp only [showNatF, List.mem_singleton] at hc
    subst hc
    exact (digitChar_spec _ (Nat.mod_lt _ (by decide))).2.2
  | succ f ih =>
    intro c hc
    simp only [showNatF] at hc
    split at hc
    · rename_i h
      simp only [List.mem_singleton] at hc
      subst hc
      exact (digitChar_spec _ h).2.2
    · simp only [List.mem_append, List.mem_singleton] at hc
      rcases hc with hc | hc
      · exact ih _ c hc
      · subst hc
        exact (digitChar_spec _ (Nat.mod_lt _ (by decide))).2.2

theorem showNatF_ne_nil (f n : Nat) : showNatF f n ≠ [] := by
  cases f with
  | zero => simp [showNatF]
  | succ f =>
    simp only [showNatF]
    split <;> simp

theorem pyIntGo_digit (acc : Nat) (prev : Bool) (d : Nat) (hd : d < 10) (rest : List Char) :
    pyIntGo acc prev (digitChar d :: rest) = pyIntGo (acc * 10 + d) true rest := by
  have h := digitChar_spec d hd
  simp only [pyIntGo, h.1, if_true, h.2.1]

theorem pyIntGo_showNatF (f : Nat) : ∀ (n : Nat), n ≤ f → ∀ (acc : Nat) (prev : Bool) (rest : List Char),
    pyIntGo acc prev (showNatF f n ++ rest) = pyIntGo (acc * 10 ^ (showNatF f n).length + n) true rest := by
  induction f with
  | zero =>
    intro n hn acc prev rest
    have : n = 0 := by omega
    subst this
    simp only [showNatF, List.singleton_append, List.length_singleton]
    rw [pyIntGo_digit _ _ _ (by decide)]
    simp
  | succ f ih =>
    intro n hn acc prev rest
    simp only [showNatF]
    split
    · rename_i h
      simp only [List.singleton_append, List.length_singleton]
      rw [pyIntGo_digit _ _ _ h]
      simp
    · rename_i h
      rw [List.append_assoc, ih (n / 10) (by omega)]
      simp only [List.singleton_append, List.length_append, List.length_singleton]
      rw [pyIntGo_digit _ _ _ (Nat.mod_lt _ (by decide))]
      congr 1
      rw [Nat.pow_succ]
      have := Nat.div_add_mod n 10
      rw [Nat.add_mul, Nat.mul_assoc]
      omega

theorem pyIntGo_showNat (n : Nat) : pyIntGo 0 false (showNatChars n) = some n := by
  have h := pyIntGo_showNatF n n (Nat.le_refl _) 0 false []
  simp only [List.append_nil, Nat.zero_mul, Nat.zero_add] at h
  rw [showNatChars, h]
  simp [pyIntGo]

/-! ### blanks -/

theorem dropWhile_eq_self_of_all_false {α} (p : α → Bool) (s : List α) (h : ∀ c ∈ s, p c = false) :
    s.dropWhile p = s := by
  cases s with
  | nil => rfl
  | cons a as => simp [List.dropWhile, h a (by simp)]

theorem stripBy_of_none (p : Char → Bool) (s : List Char) (h : ∀ c ∈ s, p c = false) : stripBy p s = s := by
  unfold stripBy
  rw [dropWhile_eq_self_of_all_false _ _ h, dropWhile_eq_self_of_all_false _ _ (by simpa using h)]
  simp

theorem stripBlank_of_noBlank (s : List Char) (h : ∀ c ∈ s, isBlank c = false) : stripBlank s = s :=
  stripBy_of_none _ s h

theorem stripInt_of_noBlank (s : List Char) (h : ∀ c ∈ s, isBlank c = false) : stripBy isIntBlank s = s :=
  stripBy_of_none _ s (fun c hc => by simp [isIntBlank, h c hc])

theorem digits10_props : ∀ c ∈ digits10, isBlank c = false ∧ sepChars.contains c = false ∧
    expChars.contains c = true ∧ c ≠ 'u' ∧ c ≠ '-' ∧ c ≠ '+' := by decide

theorem showIntChars_mem (n : Int) : ∀ c ∈ showIntChars n, c ∈ expChars := by
  have hd : ∀ c ∈ digits10, c ∈ expChars := by decide
  intro c hc
  unfold showIntChars at hc
  split at hc
  · simp only [List.mem_cons] at hc
    rcases hc with hc | hc
    · subst hc; decide
    · exact hd c (showNatF_mem _ _ c hc)
  · exact hd c (showNatF_mem _ _ c hc)

theorem showIntChars_ne_nil (n : Int) : showIntChars n ≠ [] := by
  unfold showIntChars
  split
  · simp
  · exact showNatF_ne_nil _ _

theorem expChars_props : ∀ c ∈ expChars, isBlank c = false ∧ sepChars.contains c = false ∧ c ≠ 'u' ∧ c ≠ '+' := by
  decide

theorem pyInt_of_head (a : Char) (as : List Char) (h1 : a ≠ '-') (h2 : a ≠ '+')
    (hnb : ∀ c ∈ a :: as, isBlank c = false) : pyInt (a :: as) = pyIntBody false (a :: as) := by
  unfold pyInt
  rw [stripInt_of_noBlank _ hnb]
  split
  · rename_i heq; cases heq; exact absurd rfl h1
  · rename_i heq; cases heq; exact absurd rfl h2
  · rfl

/-- `int(str(n)) = n` -/
theorem pyInt_showInt (n : Int) : pyInt (showIntChars n) = some n := by
  have hnb : ∀ c ∈ showIntChars n, isBlank c = false := fun c hc => (expChars_props c (showIntChars_mem n c hc)).1
  by_cases hneg : n < 0
  · have hs : showIntChars n = '-' :: showNatChars n.natAbs := by simp [showIntChars, hneg]
    rw [hs] at hnb ⊢
    unfold pyInt
    rw [stripInt_of_noBlank _ hnb]
    simp only [pyIntBody]
    have hne := showNatF_ne_nil n.natAbs n.natAbs
    split
    · rename_i heq; exact absurd heq hne
    · rw [pyIntGo_showNat]
      simp only [if_true, Option.some.injEq, Int.ofNat_eq_natCast]
      omega
  · have hs : showIntChars n = showNatChars n.toNat := by simp [showIntChars, hneg]
    rw [hs] at hnb ⊢
    have hne := showNatF_ne_nil n.toNat n.toNat
    have hd0 : ∀ c ∈ showNatChars n.toNat, c ≠ '-' ∧ c ≠ '+' := fun c hc =>
      ⟨(digits10_props c (showNatF_mem _ _ c hc)).2.2.2.2.1, (digits10_props c (showNatF_mem _ _ c hc)).2.2.2.2.2⟩
    cases hsn : showNatChars n.toNat with
    | nil => exact absurd hsn hne
    | cons a as =>
      rw [hsn] at hnb hd0
      have ha := hd0 a (by simp)
      rw [pyInt_of_head a as ha.1 ha.2 hnb, ← hsn]
      simp only [pyIntBody]
      split
      · rename_i heq; exact absurd heq hne
      · rw [pyIntGo_showNat]
        simp only [Bool.false_eq_true, if_false, Option.some.injEq, Int.ofNat_eq_natCast]
        omega

/-! ### the character loop of `parse_units` -/

/-- a symbol character: neither separator nor exponent character -/
def symChar (c : Char) : Bool := !sepChars.contains c && !expChars.contains c

def Block.body (b : Block) : List Char := b.sym ++ b.exp
def renderBlock (b : Block) : List Char := b.sep :: b.body

/-- the text of a block list; the separator of the first block is not written -/
def renderBlocks : List Block → List Char
  | [] => []
  | b :: bs => b.body ++ bs.flatMap renderBlock

/-- a block as the character loop produces it from well-formed text -/
structure Block.wf (b : Block) : Prop where
  sep : sepChars.contains b.sep = true
  sym : ∀ c ∈ b.sym, symChar c = true
  exp : ∀ c ∈ b.exp, sepChars.contains c = false
  expHead : b.exp = [] ∨ ∃ x r, b.exp = x :: r ∧ expChars.contains x = true

theorem scan_sym (sym : List Char) (hs : ∀ c ∈ sym, symChar c = true) (rest : List Char) (done : List Block)
    (c : Char) (s0 : List Char) :
    scanBlocks (sym ++ rest) done ⟨c, s0, []⟩ false = scanBlocks rest done ⟨c, s0 ++ sym, []⟩ false := by
  induction sym generalizing s0 with
  | nil => simp
  | cons a as ih =>
    have ha := hs a (by simp)
    simp only [symChar, Bool.and_eq_true, Bool.not_eq_true'] at ha
    simp only [List.cons_append, scanBlocks, ha.1, ha.2, Bool.false_eq_true, if_false, Bool.or_self]
    rw [ih (fun c hc => hs c (by simp [hc]))]
    simp

theorem scan_exp_tail (t : List Char) (ht : ∀ c ∈ t, sepChars.contains c = false) (rest : List Char)
    (done : List Block) (c : Char) (s e0 : List Char) :
    scanBlocks (t ++ rest) done ⟨c, s, e0⟩ true = scanBlocks rest done ⟨c, s, e0 ++ t⟩ true := by
  induction t generalizing e0 with
  | nil => simp
  | cons a as ih =>
    have ha := ht a (by simp)
    simp only [List.cons_append, scanBlocks, ha, Bool.false_eq_true, if_false, Bool.true_or, if_true]
    rw [ih (fun c hc => ht c (by simp [hc]))]
    simp

/-- the loop consumes the body of a well-formed block -/
theorem scan_body (b : Block) (hb : b.wf) (rest : List Char) (done : List Block) :
    scanBlocks (b.body ++ rest) done ⟨b.sep, [], []⟩ false =
      scanBlocks rest done b (!b.exp.isEmpty) := by
  obtain ⟨sep, sym, exp⟩ := b
  simp only [Block.body, List.append_assoc]
  rw [scan_sym sym hb.sym]
  simp only [List.nil_append]
  rcases hb.expHead with h | ⟨x, r, h, hx⟩
  · simp only at h
    subst h
    simp
  · simp only at h
    subst h
    have hsx := hb.exp x (by simp)
    simp only [List.cons_append, scanBlocks, hsx, Bool.false_eq_true, if_false, hx, Bool.or_true, if_true,
      List.nil_append]
    rw [scan_exp_tail r (fun c hc => hb.exp c (by simp [hc]))]
    simp

/-- the character loop inverts `renderBlocks` on well-formed blocks -/
theorem scan_render (bs : List Block) (hbs : ∀ b ∈ bs, b.wf) (b : Block) (hb : b.wf) (done : List Block) :
    scanBlocks (renderBlocks (b :: bs)) done ⟨b.sep, [], []⟩ false = done.reverse ++ b :: bs := by
  induction bs generalizing b done with
  | nil =>
    have := scan_body b hb [] done
    simp only [List.append_nil] at this
    simp only [renderBlocks, List.flatMap_nil, List.append_nil, this, scanBlocks, List.reverse_cons]
  | cons b' bs ih =>
    have hb' := hbs b' (by simp)
    simp only [renderBlocks, List.flatMap_cons, renderBlock]
    rw [scan_body b hb]
    simp only [List.cons_append, scanBlocks, hb'.sep, if_true]
    have := ih (fun x hx => hbs x (by simp [hx])) b' hb' (b :: done)
    simp only [renderBlocks] at this
    rw [this]
    simp

/-! ### the `u` → `µ` replace chain -/

/-- the characters that follow `u` in a pattern of the replace chain -/
def badAfterU : List Char := ['m', 's', 'L', 'M']

/-- every pattern is `u x …` with `x ∈ badAfterU`, replaced by `µ x …` -/
def patOk (a b : List Char) : Bool :=
  match a, b with
  | 'u' :: x :: t, 'µ' :: y :: t' => badAfterU.contains x && x == y && t == t'
  | _, _ => false

theorem uSubst_patOk : ∀ p ∈ uSubst, patOk p.1.toList p.2.toList = true := by decide

/-- no `u` is followed by a character of `badAfterU` (`prevU`: the character before the text is a `u`) -/
def uFreeAux (prevU : Bool) : List Char → Bool
  | [] => true
  | c :: cs => !(prevU && badAfterU.contains c) && uFreeAux (c == 'u') cs

def lastU (p : Bool) : List Char → Bool
  | [] => p
  | c :: cs => lastU (c == 'u') cs

theorem lastU_append (p : Bool) (a b : List Char) : lastU p (a ++ b) = lastU (lastU p a) b := by
  induction a generalizing p with
  | nil => rfl
  | cons c cs ih => simp only [List.cons_append, lastU, ih]

theorem uFreeAux_append (p : Bool) (a b : List Char) :
    uFreeAux p (a ++ b) = (uFreeAux p a && uFreeAux (lastU p a) b) := by
  induction a generalizing p with
  | nil => simp [uFreeAux, lastU]
  | cons c cs ih => simp only [List.cons_append, uFreeAux, lastU, ih, Bool.and_assoc]

/-- text that can be appended to / prepended by clean text without creating a pattern -/
def uClean (a : List Char) : Prop := uFreeAux false a = true ∧ lastU false a = false

theorem uClean_nil : uClean [] := ⟨rfl, rfl⟩

theorem uClean_append {a b : List Char} (ha : uClean a) (hb : uClean b) : uClean (a ++ b) := by
  refine ⟨?_, ?_⟩
  · rw [uFreeAux_append, ha.1, ha.2, hb.1]; rfl
  · rw [lastU_append, ha.2, hb.2]

theorem uClean_of_noU (a : List Char) (h : ∀ c ∈ a, c ≠ 'u') : uClean a := by
  induction a with
  | nil => exact uClean_nil
  | cons c cs ih =>
    have hc : (c == 'u') = false := by simpa using h c (by simp)
    have := ih (fun x hx => h x (by simp [hx]))
    exact ⟨by simp [uFreeAux, hc, this.1], by simp [lastU, hc, this.2]⟩

theorem replaceAux_id (a b : List Char) (x : Char) (t : List Char) (ha : a = 'u' :: x :: t)
    (hx : badAfterU.contains x = true) :
    ∀ (s : List Char) (p : Bool), uFreeAux p s = true → replaceAux a b 0 s = s := by
  intro s
  induction s with
  | nil => intro p _; rfl
  | cons c cs ih =>
    intro p hp
    simp only [uFreeAux, Bool.and_eq_true] at hp
    have hnp : a.isPrefixOf (c :: cs) = false := by
      subst ha
      cases cs with
      | nil => simp [List.isPrefixOf]
      | cons d ds =>
        by_cases hcu : c = 'u'
        · subst hcu
          have h2 := hp.2
          simp only [uFreeAux, beq_self_eq_true, Bool.true_and, Bool.and_eq_true, Bool.not_eq_true'] at h2
          have hdx : x ≠ d := by
            intro h; subst h; rw [hx] at h2; exact absurd h2.1 (by simp)
          simp [List.isPrefixOf, hdx]
        · have : ('u' == c) = false := by simpa using fun h => hcu h.symm
          simp [List.isPrefixOf, this]
    simp only [replaceAux, hnp, Bool.false_and, Bool.false_eq_true, if_false]
    rw [ih _ hp.2]

theorem replaceChain_id (l : List (String × String)) (hl : ∀ p ∈ l, patOk p.1.toList p.2.toList = true)
    (s : List Char) (hs : uFreeAux false s = true) :
    l.foldl (fun acc (p : String × String) => replaceAll p.1.toList p.2.toList acc) s = s := by
  induction l with
  | nil => rfl
  | cons p ps ih =>
    simp only [List.foldl_cons]
    have hp := hl p (by simp)
    have hstep : replaceAll p.1.toList p.2.toList s = s := by
      unfold patOk at hp
      split at hp
      · rename_i x t y t' h1 h2
        simp only [Bool.and_eq_true] at hp
        exact replaceAux_id _ _ x t h1 hp.1.1 s false hs
      · exact absurd hp (by simp)
    rw [hstep]
    exact ih (fun q hq => hl q (by simp [hq]))

/-- preprocessing leaves clean text without blanks unchanged -/
theorem prepUnits_id (s : List Char) (hu : uFreeAux false s = true) (hb : ∀ c ∈ s, isBlank c = false) :
    prepUnits s = s := by
  unfold prepUnits
  have h := replaceChain_id uSubst uSubst_patOk s hu
  have h' : uSubst.foldl (fun acc (x : String × String) =>
      match x with | (a, b) => replaceAll a.toList b.toList acc) s = s := h
  rw [h', stripBlank_of_noBlank _ hb]

/-! ### printed units: `Units.__str__` as a block list -/

/-- exponent text written by `Units.__str__` -/
def expText (e : Int) : List Char := if e = 1 then [] else showIntChars e

def pblock (sym : String) (e : Int) : Block := ⟨'.', sym.toList, expText e⟩

def pblocks (sym : String) (e : Int) : List Block := if e = 0 then [] else [pblock sym e]

def printedBlocks (u : Units) : List Block :=
  pblocks u.sys.space u.dim.space ++ pblocks u.sys.time u.dim.time ++ pblocks u.sys.qty u.dim.qty

theorem joinSep_render (c : Char) (bs : List Block) (h : ∀ b ∈ bs, b.sep = c) :
    joinSep [c] (bs.map Block.body) = renderBlocks bs := by
  induction bs with
  | nil => rfl
  | cons b bs ih =>
    cases bs with
    | nil => simp [joinSep, renderBlocks]
    | cons b' bs' =>
      have h' := h b' (by simp)
      have := ih (fun x hx => h x (by simp [hx]))
      simp only [List.map_cons, joinSep] at this ⊢
      rw [this]
      simp [renderBlocks, renderBlock, h']

theorem showPart_eq (sym : String) (e : Int) : showPart sym.toList e = (pblocks sym e).map Block.body := by
  have h0 : strSkipExp = 0 := rfl
  have h1 : strBareExp = 1 := rfl
  unfold showPart pblocks pblock expText Block.body
  rw [h0, h1]
  by_cases he0 : e = 0
  · simp [he0]
  · by_cases he1 : e = 1
    · simp [he1]
    · simp [he0, he1]

theorem showUnitsChars_eq (u : Units) : showUnitsChars u = renderBlocks (printedBlocks u) := by
  have hs : strSep.toList = ['.'] := by decide
  unfold showUnitsChars
  rw [hs, showPart_eq, showPart_eq, showPart_eq, ← List.map_append, ← List.map_append]
  apply joinSep_render
  intro b hb
  simp only [pblocks, List.mem_append] at hb
  rcases hb with (hb | hb) | hb <;> (split at hb <;> simp_all [pblock])

theorem symChars_of_syms : ∀ s ∈ spaceSyms ++ timeSyms ++ qtySyms ++ densitySyms ++ volumeSyms,
    (s.toList.all fun c => symChar c && !isBlank c) = true ∧ uFreeAux false s.toList = true ∧
      lastU false s.toList = false := by decide +kernel

theorem pblock_wf (sym : String) (e : Int)
    (hs : sym ∈ spaceSyms ++ timeSyms ++ qtySyms ++ densitySyms ++ volumeSyms) : (pblock sym e).wf := by
  have h := (symChars_of_syms sym hs).1
  simp only [List.all_eq_true, Bool.and_eq_true] at h
  refine ⟨(by decide : sepChars.contains '.' = true), fun c hc => (h c hc).1, ?_, ?_⟩
  · intro c hc
    simp only [pblock, expText] at hc
    split at hc
    · simp at hc
    · exact (expChars_props c (showIntChars_mem e c hc)).2.1
  · simp only [pblock, expText]
    split
    · exact Or.inl rfl
    · right
      cases hsn : showIntChars e with
      | nil => exact absurd hsn (showIntChars_ne_nil e)
      | cons x r =>
        refine ⟨x, r, rfl, ?_⟩
        have := showIntChars_mem e x (by rw [hsn]; simp)
        simpa using this

theorem blockExp_pblock (sym : String) (e : Int) : blockExp (pblock sym e) = some e := by
  have hd : pyInt puDefaultExp.toList = some 1 := by decide +kernel
  have hn : ('.' == puNegSep) = false := by decide
  unfold blockExp pblock expText
  by_cases he : e = 1
  · subst he
    simp [hd, hn]
  · have hne := showIntChars_ne_nil e
    simp only [he, if_false, List.isEmpty_iff, hne, pyInt_showInt, hn, Bool.false_eq_true]

theorem addBlock_single (a : Acc) (b : Block) (e : Int) (f su : String) (hb : blockExp b = some e)
    (hc : symContrib (String.ofList b.sym) = .ok [(f, su, 1)]) : a.addBlock b = a.add f su e := by
  simp only [Acc.addBlock, hb, hc, Acc.addAll, Int.mul_one]
  cases a.add f su e <;> rfl

theorem symContrib_space : ∀ s ∈ spaceSyms, symContrib s = .ok [("space", s, 1)] := by decide +kernel
theorem symContrib_time : ∀ s ∈ timeSyms, symContrib s = .ok [("time", s, 1)] := by decide +kernel
theorem symContrib_qty : ∀ s ∈ qtySyms, symContrib s = .ok [("quantity", s, 1)] := by decide +kernel

theorem addBlocks_append (a : Acc) (l1 l2 : List Block) :
    a.addBlocks (l1 ++ l2) = match a.addBlocks l1 with
      | .error e => .error e
      | .ok a' => a'.addBlocks l2 := by
  induction l1 generalizing a with
  | nil => rfl
  | cons b bs ih =>
    simp only [List.cons_append, Acc.addBlocks]
    cases a.addBlock b with
    | error e => rfl
    | ok a' => exact ih a'

def optSym (e : Int) (s : String) : Option String := if e = 0 then none else some s

theorem addBlocks_printed (u : Units) (hv : u.sys.valid = true) :
    ({} : Acc).addBlocks (printedBlocks u) =
      .ok ⟨optSym u.dim.space u.sys.space, optSym u.dim.time u.sys.time, optSym u.dim.qty u.sys.qty, u.dim⟩ := by
  obtain ⟨⟨sp, tm, qt⟩, ⟨ds, dt, dq⟩⟩ := u
  have hv' := (Sys.valid_iff _).1 hv
  simp only at hv'
  have h1 := fun a => addBlock_single a (pblock sp ds) ds "space" sp (blockExp_pblock _ _)
    (by simpa [pblock] using symContrib_space sp hv'.1)
  have h2 := fun a => addBlock_single a (pblock tm dt) dt "time" tm (blockExp_pblock _ _)
    (by simpa [pblock] using symContrib_time tm hv'.2.1)
  have h3 := fun a => addBlock_single a (pblock qt dq) dq "quantity" qt (blockExp_pblock _ _)
    (by simpa [pblock] using symContrib_qty qt hv'.2.2)
  simp only [printedBlocks, addBlocks_append, pblocks, optSym]
  by_cases hs : ds = 0 <;> by_cases ht : dt = 0 <;> by_cases hq : dq = 0 <;>
    simp [hs, ht, hq, Acc.addBlocks, h1, h2, h3, Acc.add, Dim.zero]

/-! ### `parse_units` on rendered blocks -/

/-- what `parse_units` does once the character loop has produced `blocks` -/
def finishBlocks (blocks : List Block) : Res Units :=
  if blocks.any (fun b => !b.exp.isEmpty && badExpText b.exp) then .error .badSyntax
  else
    match ({} : Acc).addBlocks blocks with
    | .error e => .error e
    | .ok acc =>
      let sys : Sys := ⟨acc.space.getD defaultSpace, acc.time.getD defaultTime, acc.qty.getD defaultQty⟩
      if sys.valid then .ok ⟨sys, acc.dim⟩ else .error .badUnit

theorem parseUnitsCore_nonempty (s : List Char) (hne : s ≠ []) (hnb : ∀ c ∈ s, isBlank c = false) :
    parseUnitsCore s = finishBlocks (scanBlocks s [] ⟨puFirstBlockSep, [], []⟩ false) := by
  have h1 : s.isEmpty = false := by simpa using hne
  have h2 : s.any isBlank = false := by simpa using hnb
  simp only [parseUnitsCore, h1, h2, Bool.and_false, Bool.false_eq_true, if_false, finishBlocks]
  rfl

theorem parseUnitsCore_render (b : Block) (bs : List Block) (hb : b.wf) (hbs : ∀ x ∈ bs, x.wf)
    (hsep : b.sep = puFirstBlockSep) (hne : renderBlocks (b :: bs) ≠ [])
    (hnb : ∀ c ∈ renderBlocks (b :: bs), isBlank c = false) :
    parseUnitsCore (renderBlocks (b :: bs)) = finishBlocks (b :: bs) := by
  rw [parseUnitsCore_nonempty _ hne hnb, ← hsep, scan_render bs hbs b hb []]
  rfl

theorem mem_renderBlocks {c : Char} {bs : List Block} (h : c ∈ renderBlocks bs) :
    ∃ b ∈ bs, c = b.sep ∨ c ∈ b.body := by
  cases bs with
  | nil => simp [renderBlocks] at h
  | cons b bs =>
    simp only [renderBlocks, List.mem_append, List.mem_flatMap, renderBlock, List.mem_cons] at h
    rcases h with h | ⟨b', hb', h⟩
    · exact ⟨b, by simp, Or.inr h⟩
    · exact ⟨b', by simp [hb'], h⟩

theorem uClean_renderBlocks (bs : List Block) (h : ∀ b ∈ bs, uClean [b.sep] ∧ uClean b.body) :
    uClean (renderBlocks bs) := by
  cases bs with
  | nil => exact uClean_nil
  | cons b bs =>
    simp only [renderBlocks]
    apply uClean_append (h b (by simp)).2
    have h' : ∀ x ∈ bs, uClean [x.sep] ∧ uClean x.body := fun x hx => h x (by simp [hx])
    clear h
    induction bs with
    | nil => exact uClean_nil
    | cons b' bs ih =>
      simp only [List.flatMap_cons, renderBlock]
      have hb' := h' b' (by simp)
      exact uClean_append (uClean_append hb'.1 hb'.2) (ih (fun x hx => h' x (by simp [hx])))

theorem uClean_sep : ∀ c ∈ sepChars, uFreeAux false [c] = true ∧ lastU false [c] = false ∧ isBlank c = false := by
  decide

theorem uClean_expText (e : Int) : uClean (expText e) ∧ ∀ c ∈ expText e, isBlank c = false := by
  unfold expText
  split
  · exact ⟨uClean_nil, by simp⟩
  · exact ⟨uClean_of_noU _ (fun c hc => (expChars_props c (showIntChars_mem e c hc)).2.2.1),
      fun c hc => (expChars_props c (showIntChars_mem e c hc)).1⟩

theorem pblock_clean (sym : String) (e : Int)
    (hs : sym ∈ spaceSyms ++ timeSyms ++ qtySyms ++ densitySyms ++ volumeSyms) :
    uClean [(pblock sym e).sep] ∧ uClean (pblock sym e).body ∧
      (∀ c, (c = (pblock sym e).sep ∨ c ∈ (pblock sym e).body) → isBlank c = false) := by
  have h := symChars_of_syms sym hs
  have hx := uClean_expText e
  have hd := uClean_sep '.' (by decide)
  refine ⟨⟨hd.1, hd.2.1⟩, uClean_append ⟨h.2.1, h.2.2⟩ hx.1, ?_⟩
  intro c hc
  rcases hc with hc | hc
  · subst hc; exact hd.2.2
  · simp only [pblock, Block.body, List.mem_append] at hc
    rcases hc with hc | hc
    · have := h.1
      simp only [List.all_eq_true, Bool.and_eq_true, Bool.not_eq_true'] at this
      exact (this c hc).2
    · exact hx.2 c hc

theorem asciiDigits_showNat (n : Nat) : asciiDigits (showNatChars n) = true := by
  have hne := showNatF_ne_nil n n
  have hd : ∀ c ∈ digits10, c.isDigit = true := by decide
  simp only [asciiDigits, showNatChars, Bool.and_eq_true, Bool.not_eq_true', List.isEmpty_eq_false_iff, List.all_eq_true]
  exact ⟨hne, fun c hc => hd c (showNatF_mem n n c hc)⟩

theorem strictExp_showInt (n : Int) : strictExp (showIntChars n) = true := by
  by_cases hneg : n < 0
  · have hs : showIntChars n = '-' :: showNatChars n.natAbs := by simp [showIntChars, hneg]
    rw [hs]; exact asciiDigits_showNat _
  · have hs : showIntChars n = showNatChars n.toNat := by simp [showIntChars, hneg]
    rw [hs]
    have hne := showNatF_ne_nil n.toNat n.toNat
    cases hsn : showNatChars n.toNat with
    | nil => exact absurd hsn hne
    | cons a as =>
      have ha : a ≠ '-' := by
        have := (digits10_props a (showNatF_mem _ _ a (by rw [showNatChars] at hsn; rw [hsn]; simp))).2.2.2.2.1
        exact this
      have h2 := asciiDigits_showNat n.toNat
      rw [hsn] at h2
      unfold strictExp
      split
      · rename_i r heq; cases heq; exact absurd rfl ha
      · exact h2

theorem badExpText_showInt (n : Int) : badExpText (showIntChars n) = false := by
  simp [badExpText, strictExp_showInt, pyInt_showInt]

theorem pyInt_expText_ok (e : Int) : (!(expText e).isEmpty && badExpText (expText e)) = false := by
  unfold expText
  split
  · simp
  · simp [badExpText_showInt]

theorem syms_nonempty : ∀ s ∈ spaceSyms ++ timeSyms ++ qtySyms ++ densitySyms ++ volumeSyms, s.toList ≠ [] := by
  decide +kernel

/-! ### printed units are clean, blank-free text -/

def allSyms : List String := spaceSyms ++ timeSyms ++ qtySyms ++ densitySyms ++ volumeSyms

theorem printed_mem (u : Units) (hv : u.sys.valid = true) : ∀ b ∈ printedBlocks u, ∃ sym e, b = pblock sym e ∧
    sym ∈ spaceSyms ++ timeSyms ++ qtySyms ++ densitySyms ++ volumeSyms := by
  have hv' := (Sys.valid_iff _).1 hv
  intro b hb
  simp only [printedBlocks, pblocks, List.mem_append] at hb
  rcases hb with (hb | hb) | hb <;> split at hb <;> simp only [List.mem_singleton, List.not_mem_nil] at hb
  · exact ⟨_, _, hb, by simp [hv'.1]⟩
  · exact ⟨_, _, hb, by simp [hv'.2.1]⟩
  · exact ⟨_, _, hb, by simp [hv'.2.2]⟩

theorem printed_clean (u : Units) (hv : u.sys.valid = true) : uClean (renderBlocks (printedBlocks u)) := by
  apply uClean_renderBlocks
  intro b hb
  obtain ⟨sym, e, rfl, hs⟩ := printed_mem u hv b hb
  exact ⟨(pblock_clean sym e hs).1, (pblock_clean sym e hs).2.1⟩

theorem printed_noBlank (u : Units) (hv : u.sys.valid = true) :
    ∀ c ∈ renderBlocks (printedBlocks u), isBlank c = false := by
  intro c hc
  obtain ⟨b, hb, hcb⟩ := mem_renderBlocks hc
  obtain ⟨sym, e, rfl, hs⟩ := printed_mem u hv b hb
  exact (pblock_clean sym e hs).2.2 c hcb

theorem showUnitsChars_noBlank (u : Units) (hv : u.sys.valid = true) :
    ∀ c ∈ showUnitsChars u, isBlank c = false := by
  rw [showUnitsChars_eq]; exact printed_noBlank u hv

/-! ### `str.strip()` / `str.split()` on `value␣units` -/

theorem stripBy_ends (p : Char → Bool) (a : Char) (m : List Char) (z : Char) (ha : p a = false) (hz : p z = false) :
    stripBy p (a :: (m ++ [z])) = a :: (m ++ [z]) := by
  unfold stripBy
  simp [List.dropWhile, ha, hz]

theorem stripBy_tok_blank (p : Char → Bool) (tok : List Char) (hne : tok ≠ []) (ht : ∀ c ∈ tok, p c = false)
    (b : Char) (hb : p b = true) : stripBy p (tok ++ [b]) = tok := by
  cases tok with
  | nil => exact absurd rfl hne
  | cons a as =>
    unfold stripBy
    have ha := ht a (by simp)
    have hr : ((a :: as).reverse).dropWhile p = (a :: as).reverse :=
      dropWhile_eq_self_of_all_false _ _ (fun c hc => ht c (by simpa [or_comm] using hc))
    simp only [List.cons_append, List.dropWhile, ha]
    rw [show (a :: (as ++ [b])).reverse = b :: (a :: as).reverse by simp]
    simp only [List.dropWhile, hb, hr, List.reverse_reverse]

theorem splitBlankAux_tok (t : List Char) (ht : ∀ c ∈ t, isBlank c = false) (cur rest : List Char) :
    splitBlankAux cur (t ++ rest) = splitBlankAux (cur ++ t) rest := by
  induction t generalizing cur with
  | nil => simp
  | cons a as ih =>
    simp only [List.cons_append, splitBlankAux, ht a (by simp), Bool.false_eq_true, if_false]
    rw [ih (fun c hc => ht c (by simp [hc]))]
    simp

theorem splitBlank_tok (t : List Char) (hne : t ≠ []) (ht : ∀ c ∈ t, isBlank c = false) : splitBlank t = [t] := by
  have := splitBlankAux_tok t ht [] []
  simp only [List.append_nil, List.nil_append] at this
  have he : t.isEmpty = false := by simpa using hne
  rw [splitBlank, this]
  simp [splitBlankAux, he]

theorem splitBlank_two (t u : List Char) (hnt : t ≠ []) (ht : ∀ c ∈ t, isBlank c = false)
    (hnu : u ≠ []) (hu : ∀ c ∈ u, isBlank c = false) (b : Char) (hb : isBlank b = true) :
    splitBlank (t ++ b :: u) = [t, u] := by
  have h1 := splitBlankAux_tok t ht [] (b :: u)
  simp only [List.nil_append] at h1
  have he : t.isEmpty = false := by simpa using hnt
  rw [splitBlank, h1]
  simp only [splitBlankAux, hb, if_true, he, Bool.false_eq_true, if_false]
  have := splitBlank_tok u hnu hu
  rw [splitBlank] at this
  rw [this]

/-! ### rejection: blocks the second loop cannot accept -/

theorem addBlocks_error_of_mem (b : Block) (hb : ∀ a : Acc, (a.addBlock b).isError = true) :
    ∀ (bs : List Block), b ∈ bs → ∀ a : Acc, (a.addBlocks bs).isError = true := by
  intro bs
  induction bs with
  | nil => intro h; simp at h
  | cons x xs ih =>
    intro h a
    simp only [Acc.addBlocks]
    by_cases hx : x = b
    · subst hx
      have := hb a
      cases hab : a.addBlock x with
      | error e => rfl
      | ok a' => rw [hab] at this; exact absurd this (by simp [Res.isError])
    · have hm : b ∈ xs := by
        simp only [List.mem_cons] at h
        rcases h with h | h
        · exact absurd h.symm hx
        · exact h
      cases a.addBlock x with
      | error e => rfl
      | ok a' => exact ih hm a'

theorem finishBlocks_error_of_mem (b : Block) (hb : ∀ a : Acc, (a.addBlock b).isError = true)
    (bs : List Block) (h : b ∈ bs) : (finishBlocks bs).isError = true := by
  unfold finishBlocks
  split
  · rfl
  · have := addBlocks_error_of_mem b hb bs h {}
    cases hab : ({} : Acc).addBlocks bs with
    | error e => rfl
    | ok a' => rw [hab] at this; exact absurd this (by simp [Res.isError])

theorem addBlock_error_of_unknown (b : Block) (h : unitType (String.ofList b.sym) = none) (a : Acc) :
    (a.addBlock b).isError = true := by
  unfold Acc.addBlock
  cases blockExp b with
  | none => rfl
  | some e => simp only [symContrib, h]; rfl

theorem addBlock_error_of_badExp (b : Block) (h : blockExp b = none) (a : Acc) :
    (a.addBlock b).isError = true := by
  unfold Acc.addBlock
  rw [h]; rfl

theorem unitType_empty : unitType (String.ofList []) = none := by decide +kernel

/-! ### rejection: where the characters of the text land -/

theorem scan_mem_done (s : List Char) : ∀ (done : List Block) (cur : Block) (e : Bool) (x : Block),
    x ∈ done → x ∈ scanBlocks s done cur e := by
  induction s with
  | nil => intro done cur e x hx; simp [scanBlocks, hx]
  | cons c cs ih =>
    intro done cur e x hx
    simp only [scanBlocks]
    split
    · exact ih _ _ _ x (by simp [hx])
    · split <;> exact ih _ _ _ x hx

/-- processing a prefix of the text only adds to the finished blocks -/
theorem scan_prefix (a rest : List Char) : ∀ (done : List Block) (cur : Block) (e : Bool),
    ∃ done' cur' e', scanBlocks (a ++ rest) done cur e = scanBlocks rest done' cur' e' ∧ ∀ x ∈ done, x ∈ done' := by
  induction a with
  | nil => intro done cur e; exact ⟨done, cur, e, rfl, fun x hx => hx⟩
  | cons c cs ih =>
    intro done cur e
    simp only [List.cons_append, scanBlocks]
    split
    · obtain ⟨d', c', e', h, hm⟩ := ih (cur :: done) ⟨c, [], []⟩ false
      exact ⟨d', c', e', h, fun x hx => hm x (by simp [hx])⟩
    · split
      · obtain ⟨d', c', e', h, hm⟩ := ih done { cur with exp := cur.exp ++ [c] } (e || expChars.contains c)
        exact ⟨d', c', e', h, hm⟩
      · obtain ⟨d', c', e', h, hm⟩ := ih done { cur with sym := cur.sym ++ [c] } (e || expChars.contains c)
        exact ⟨d', c', e', h, hm⟩

/-- in exponent mode the symbol of the current block is final -/
theorem scan_expmode_sym (s : List Char) : ∀ (done : List Block) (c : Char) (sy ex : List Char),
    ∃ b ∈ scanBlocks s done ⟨c, sy, ex⟩ true, b.sym = sy := by
  induction s with
  | nil => intro done c sy ex; exact ⟨⟨c, sy, ex⟩, by simp [scanBlocks], rfl⟩
  | cons x xs ih =>
    intro done c sy ex
    simp only [scanBlocks]
    split
    · exact ⟨⟨c, sy, ex⟩, scan_mem_done _ _ _ _ _ (by simp), rfl⟩
    · simp only [Bool.true_or, if_true]
      exact ih done c sy (ex ++ [x])

/-- a block with an empty symbol results from: a leading separator, two adjacent separators, a trailing
separator, or an exponent character at the start of a factor -/
theorem scan_emptySym_leading_sep (c : Char) (r : List Char) (hc : sepChars.contains c = true) (s0 : Char) :
    ∃ b ∈ scanBlocks (c :: r) [] ⟨s0, [], []⟩ false, b.sym = [] :=
  ⟨⟨s0, [], []⟩, by simp only [scanBlocks, hc, if_true]; exact scan_mem_done _ _ _ _ _ (by simp), rfl⟩

theorem scan_emptySym_adjacent (a : List Char) (c1 c2 : Char) (r : List Char) (h1 : sepChars.contains c1 = true)
    (h2 : sepChars.contains c2 = true) (done : List Block) (cur : Block) (e : Bool) :
    ∃ b ∈ scanBlocks (a ++ c1 :: c2 :: r) done cur e, b.sym = [] := by
  obtain ⟨d', c', e', h, _⟩ := scan_prefix a (c1 :: c2 :: r) done cur e
  rw [h]
  simp only [scanBlocks, h1, h2, if_true]
  exact ⟨⟨c1, [], []⟩, scan_mem_done _ _ _ _ _ (by simp), rfl⟩

theorem scan_emptySym_trailing (a : List Char) (c : Char) (h1 : sepChars.contains c = true)
    (done : List Block) (cur : Block) (e : Bool) :
    ∃ b ∈ scanBlocks (a ++ [c]) done cur e, b.sym = [] := by
  obtain ⟨d', c', e', h, _⟩ := scan_prefix a [c] done cur e
  rw [h]
  simp only [scanBlocks, h1, if_true]
  exact ⟨⟨c, [], []⟩, by simp, rfl⟩

theorem scan_emptySym_exp_first (d : Char) (r : List Char) (hd : expChars.contains d = true)
    (hs : sepChars.contains d = false) (done : List Block) (c : Char) :
    ∃ b ∈ scanBlocks (d :: r) done ⟨c, [], []⟩ false, b.sym = [] := by
  simp only [scanBlocks, hs, Bool.false_eq_true, if_false, hd, Bool.or_true, if_true]
  exact scan_expmode_sym r done c [] ([] ++ [d])

theorem scan_emptySym_sep_exp (a : List Char) (c d : Char) (r : List Char) (hc : sepChars.contains c = true)
    (hd : expChars.contains d = true) (hs : sepChars.contains d = false) (done : List Block) (cur : Block) (e : Bool) :
    ∃ b ∈ scanBlocks (a ++ c :: d :: r) done cur e, b.sym = [] := by
  obtain ⟨d', c', e', h, _⟩ := scan_prefix a (c :: d :: r) done cur e
  rw [h]
  simp only [scanBlocks, hc, if_true]
  exact scan_emptySym_exp_first d r hd hs _ c

/-- every non-separator character of the text ends up in the symbol or the exponent text of a block;
a character that is not an exponent character never starts an exponent text -/
theorem scan_char_lands (s : List Char) : ∀ (done : List Block) (cur : Block) (e : Bool) (x : Char),
    x ∈ s → sepChars.contains x = false → expChars.contains x = false →
    ((e = false → cur.exp = []) ∧ (e = true → cur.exp ≠ [])) →
    ∃ b ∈ scanBlocks s done cur e, x ∈ b.sym ∨ ∃ h t, b.exp = h :: t ∧ x ∈ t := by
  induction s with
  | nil => intro _ _ _ x hx; simp at hx
  | cons c cs ih =>
    intro done cur e x hx hsep hexp hinv
    simp only [List.mem_cons] at hx
    simp only [scanBlocks]
    rcases hx with hx | hx
    · subst hx
      simp only [hsep, Bool.false_eq_true, if_false, hexp, Bool.or_false]
      cases e with
      | false =>
        simp only [Bool.false_eq_true, if_false]
        -- lands in the symbol; the block may still grow, find it by a second induction
        have key : ∀ (s : List Char) (done : List Block) (cur : Block) (e : Bool), x ∈ cur.sym →
            ∃ b ∈ scanBlocks s done cur e, x ∈ b.sym := by
          intro s
          induction s with
          | nil => intro done cur e h; exact ⟨cur, by simp [scanBlocks], h⟩
          | cons y ys ih2 =>
            intro done cur e h
            simp only [scanBlocks]
            split
            · exact ⟨cur, scan_mem_done _ _ _ _ _ (by simp), h⟩
            · split
              · exact ih2 done _ _ h
              · exact ih2 done _ _ (by simp [h])
        obtain ⟨b, hb, hxb⟩ := key cs done { cur with sym := cur.sym ++ [x] } false (by simp)
        exact ⟨b, hb, Or.inl hxb⟩
      | true =>
        simp only [if_true]
        have key : ∀ (s : List Char) (done : List Block) (cur : Block), (∃ h t, cur.exp = h :: t ∧ x ∈ t) →
            ∃ b ∈ scanBlocks s done cur true, ∃ h t, b.exp = h :: t ∧ x ∈ t := by
          intro s
          induction s with
          | nil => intro done cur h; exact ⟨cur, by simp [scanBlocks], h⟩
          | cons y ys ih2 =>
            intro done cur h
            simp only [scanBlocks]
            split
            · exact ⟨cur, scan_mem_done _ _ _ _ _ (by simp), h⟩
            · simp only [Bool.true_or, if_true]
              obtain ⟨hh, tt, h1, h2⟩ := h
              exact ih2 done _ ⟨hh, tt ++ [y], by simp [h1], by simp [h2]⟩
        obtain ⟨h0, t0, hce⟩ := List.exists_cons_of_ne_nil (hinv.2 rfl)
        obtain ⟨b, hb, hxb⟩ := key cs done { cur with exp := cur.exp ++ [x] }
          ⟨h0, t0 ++ [x], by simp [hce], by simp⟩
        exact ⟨b, hb, Or.inr hxb⟩
    · split
      · exact ih _ _ _ x hx hsep hexp ⟨fun _ => rfl, fun h => by simp at h⟩
      · split
        · rename_i h1 h2
          exact ih _ _ _ x hx hsep hexp
            ⟨by intro h; rw [h] at h2; exact absurd h2 (by simp), fun _ => by simp⟩
        · rename_i h1 h2
          have he : e = false := by
            cases e with
            | false => rfl
            | true => simp at h2
          have hc : expChars.contains c = false := by
            cases hcc : expChars.contains c with
            | false => rfl
            | true => rw [hcc] at h2; simp at h2
          refine ih _ _ _ x hx hsep hexp ⟨fun _ => hinv.1 he, fun h => ?_⟩
          rw [he, hc] at h; simp at h

/-- every character of a block comes from the text (or from the state the loop started in) -/
theorem scan_chars_from_text (Q : Char → Prop) (s : List Char) : ∀ (done : List Block) (cur : Block) (e : Bool),
    (∀ b ∈ done, ∀ c ∈ b.sym ++ b.exp, Q c) → (∀ c ∈ cur.sym ++ cur.exp, Q c) → (∀ c ∈ s, Q c) →
    ∀ b ∈ scanBlocks s done cur e, ∀ c ∈ b.sym ++ b.exp, Q c := by
  induction s with
  | nil =>
    intro done cur e hd hc _ b hb
    simp only [scanBlocks, List.mem_reverse, List.mem_cons] at hb
    rcases hb with hb | hb
    · subst hb; exact hc
    · exact hd b hb
  | cons x xs ih =>
    intro done cur e hd hc hs
    have hx := hs x (by simp)
    have hxs : ∀ c ∈ xs, Q c := fun c h => hs c (by simp [h])
    simp only [scanBlocks]
    split
    · apply ih _ _ _ _ (by simp) hxs
      intro b hb
      simp only [List.mem_cons] at hb
      rcases hb with hb | hb
      · subst hb; exact hc
      · exact hd b hb
    · split
      · apply ih _ _ _ hd _ hxs
        intro c h
        simp only [List.mem_append, List.mem_singleton] at h hc
        rcases h with h | h | h
        · exact hc c (Or.inl h)
        · exact hc c (Or.inr h)
        · subst h; exact hx
      · apply ih _ _ _ hd _ hxs
        intro c h
        simp only [List.mem_append, List.mem_singleton] at h hc
        rcases h with (h | h) | h
        · exact hc c (Or.inl h)
        · subst h; exact hx
        · exact hc c (Or.inr h)

theorem scan_exp_tail_mem (x : Char) (s : List Char) : ∀ (done : List Block) (cur : Block),
    (∃ h t, cur.exp = h :: t ∧ x ∈ t) →
    ∃ b ∈ scanBlocks s done cur true, ∃ h t, b.exp = h :: t ∧ x ∈ t := by
  induction s with
  | nil => intro done cur h; exact ⟨cur, by simp [scanBlocks], h⟩
  | cons y ys ih2 =>
    intro done cur h
    simp only [scanBlocks]
    split
    · exact ⟨cur, scan_mem_done _ _ _ _ _ (by simp), h⟩
    · simp only [Bool.true_or, if_true]
      obtain ⟨hh, tt, h1, h2⟩ := h
      exact ih2 done _ ⟨hh, tt ++ [y], by simp [h1], by simp [h2]⟩

/-- a character directly after an exponent character, inside the same factor, lands in the tail of
that factor's exponent text -/
theorem scan_after_exp (a : List Char) (d y : Char) (r : List Char) (hd : expChars.contains d = true)
    (hds : sepChars.contains d = false) (hys : sepChars.contains y = false)
    (done : List Block) (cur : Block) (e : Bool) :
    ∃ b ∈ scanBlocks (a ++ d :: y :: r) done cur e, ∃ h t, b.exp = h :: t ∧ y ∈ t := by
  obtain ⟨d', c', e', h, _⟩ := scan_prefix a (d :: y :: r) done cur e
  rw [h]
  simp only [scanBlocks, hds, hys, Bool.false_eq_true, if_false, hd, Bool.or_true, if_true]
  apply scan_exp_tail_mem
  cases hce : c'.exp with
  | nil => exact ⟨d, [y], by simp, by simp⟩
  | cons h0 t0 => exact ⟨h0, t0 ++ [d] ++ [y], by simp, by simp⟩

theorem pyIntGo_none (x : Char) (hx1 : x.isDigit = false) (hx2 : x ≠ '_') :
    ∀ (l : List Char) (acc : Nat) (prev : Bool), x ∈ l → pyIntGo acc prev l = none := by
  intro l
  induction l with
  | nil => intro _ _ h; simp at h
  | cons c cs ih =>
    intro acc prev h
    simp only [List.mem_cons] at h
    simp only [pyIntGo]
    split
    · rename_i hc
      rcases h with h | h
      · subst h; rw [hx1] at hc; exact absurd hc (by simp)
      · exact ih _ _ h
    · split
      · rename_i hc hu
        rcases h with h | h
        · subst h
          simp only [Bool.and_eq_true, beq_iff_eq] at hu
          exact absurd hu.1.1 hx2
        · exact ih _ _ h
      · rfl

theorem pyIntBody_none (x : Char) (hx1 : x.isDigit = false) (hx2 : x ≠ '_') (neg : Bool) (l : List Char)
    (hx : x ∈ l) : pyIntBody neg l = none := by
  cases l with
  | nil => rfl
  | cons c cs =>
    simp only [pyIntBody]
    rw [pyIntGo_none x hx1 hx2 _ _ _ hx]

theorem pyInt_none_of_bad_tail (h : Char) (t : List Char) (hnb : ∀ c ∈ h :: t, isBlank c = false)
    (x : Char) (hx : x ∈ t) (hx1 : x.isDigit = false) (hx2 : x ≠ '_') : pyInt (h :: t) = none := by
  unfold pyInt
  rw [stripInt_of_noBlank _ hnb]
  split
  · rename_i r heq
    cases heq
    exact pyIntBody_none x hx1 hx2 _ _ hx
  · rename_i r heq
    cases heq
    exact pyIntBody_none x hx1 hx2 _ _ hx
  · exact pyIntBody_none x hx1 hx2 _ _ (by simp [hx])

theorem finishBlocks_error_of_badExpText (bs : List Block) (b : Block) (hb : b ∈ bs) (hne : b.exp ≠ [])
    (hp : badExpText b.exp = true) : finishBlocks bs = .error .badSyntax := by
  unfold finishBlocks
  have : bs.any (fun b => !b.exp.isEmpty && badExpText b.exp) = true := by
    rw [List.any_eq_true]
    exact ⟨b, hb, by simp [hne, hp]⟩
  rw [if_pos this]

theorem finishBlocks_error_of_badExp (bs : List Block) (b : Block) (hb : b ∈ bs) (hne : b.exp ≠ [])
    (hp : pyInt b.exp = none) : finishBlocks bs = .error .badSyntax :=
  finishBlocks_error_of_badExpText bs b hb hne (by simp [badExpText, hp])

theorem unitType_none_of_not_mem (s : String) (h : s ∉ allSyms) : unitType s = none := by
  have ho : unitTypeOrder = ["space", "time", "quantity", "density", "volume"] := by decide
  simp only [allSyms, List.mem_append, not_or] at h
  simp [unitType, ho, List.lookup, List.filterMap, h.1.1.1.1, h.1.1.1.2, h.1.1.2, h.1.2, h.2]

/-! ### strict exponent text -/

theorem asciiDigits_false_of_mem (t : List Char) (y : Char) (hy : y ∈ t) (hd : y.isDigit = false) :
    asciiDigits t = false := by
  simp only [asciiDigits, Bool.and_eq_false_iff, List.all_eq_false]
  exact Or.inr ⟨y, hy, by simp [hd]⟩

theorem strictExp_false_of_tail (h : Char) (t : List Char) (y : Char) (hy : y ∈ t) (hd : y.isDigit = false) :
    strictExp (h :: t) = false := by
  unfold strictExp
  split
  · rename_i r heq; cases heq; exact asciiDigits_false_of_mem _ y hy hd
  · exact asciiDigits_false_of_mem _ y (by simp [hy]) hd

theorem strictExp_false_of_trailing_sign (e : List Char) : strictExp (e ++ ['-']) = false := by
  cases e with
  | nil => decide
  | cons h t => exact strictExp_false_of_tail h (t ++ ['-']) '-' (by simp) (by decide)

theorem badExpText_of_not_strict (t : List Char) (h : strictExp t = false) : badExpText t = true := by
  have hg : puStrictExponent = true := rfl
  simp [badExpText, hg, h]

/-- a `-` at the very end of a factor ends that factor's exponent text -/
theorem scan_trailing_sign (a rest : List Char) (hrest : rest = [] ∨ ∃ c r, rest = c :: r ∧ sepChars.contains c = true)
    (done : List Block) (cur : Block) (e : Bool) :
    ∃ b ∈ scanBlocks (a ++ '-' :: rest) done cur e, ∃ e', b.exp = e' ++ ['-'] := by
  obtain ⟨d', c', e1, h, _⟩ := scan_prefix a ('-' :: rest) done cur e
  rw [h]
  have hs : sepChars.contains '-' = false := by decide
  have hx : expChars.contains '-' = true := by decide
  simp only [scanBlocks, hs, Bool.false_eq_true, if_false, hx, Bool.or_true, if_true]
  rcases hrest with hr | ⟨c, r, hr, hc⟩
  · subst hr
    exact ⟨{ c' with exp := c'.exp ++ ['-'] }, by simp [scanBlocks], c'.exp, rfl⟩
  · subst hr
    simp only [scanBlocks, hc, if_true]
    exact ⟨{ c' with exp := c'.exp ++ ['-'] }, scan_mem_done _ _ _ _ _ (by simp), c'.exp, rfl⟩

/-- the two outcomes of `parse_units` on non-empty preprocessed text -/
theorem parseUnitsCore_cases (s : List Char) (hne : s ≠ []) :
    parseUnitsCore s = .error .badSyntax ∨
    ((∀ c ∈ s, isBlank c = false) ∧
      parseUnitsCore s = finishBlocks (scanBlocks s [] ⟨puFirstBlockSep, [], []⟩ false)) := by
  by_cases hb : s.any isBlank = true
  · left
    have h1 : s.isEmpty = false := by simpa using hne
    have hg : puRejectsInnerBlank = true := rfl
    simp [parseUnitsCore, h1, hb, hg]
  · right
    have hnb : ∀ c ∈ s, isBlank c = false := by simpa using hb
    exact ⟨hnb, parseUnitsCore_nonempty s hne hnb⟩

/-! ### the `addunit` fold: which base unit each field ends up with -/

def Acc.get (a : Acc) (f : String) : Option String :=
  if f == "space" then a.space else if f == "time" then a.time else if f == "quantity" then a.qty else none

theorem add_ok_get {a a' : Acc} {f su : String} {e : Int} (h : a.add f su e = .ok a') :
    a'.get f = some su ∧ ∀ g v, a.get g = some v → a'.get g = some v := by
  unfold Acc.add at h
  split at h
  · rename_i hf
    have hf' : f = "space" := by simpa using hf
    subst hf'
    split at h
    · rename_i hc
      cases h
      refine ⟨by simp [Acc.get], ?_⟩
      intro g v hg
      simp only [Acc.get] at hg ⊢
      split
      · rename_i hgs
        rw [if_pos hgs] at hg
        simp only [Bool.or_eq_true, beq_iff_eq] at hc
        rcases hc with hc | hc
        · rw [hc] at hg; cases hg
        · rw [hc] at hg; exact hg
      · rename_i hgs
        rw [if_neg hgs] at hg
        exact hg
    · cases h
  · split at h
    · rename_i hf0 hf
      have hf' : f = "time" := by simpa using hf
      subst hf'
      split at h
      · rename_i hc
        cases h
        refine ⟨by simp [Acc.get], ?_⟩
        intro g v hg
        simp only [Acc.get] at hg ⊢
        split
        · rename_i hgs; rw [if_pos hgs] at hg; exact hg
        · rename_i hgs
          rw [if_neg hgs] at hg
          split
          · rename_i hgt
            rw [if_pos hgt] at hg
            simp only [Bool.or_eq_true, beq_iff_eq] at hc
            rcases hc with hc | hc
            · rw [hc] at hg; cases hg
            · rw [hc] at hg; exact hg
          · rename_i hgt; rw [if_neg hgt] at hg; exact hg
      · cases h
    · split at h
      · rename_i hf0 hf1 hf
        have hf' : f = "quantity" := by simpa using hf
        subst hf'
        split at h
        · rename_i hc
          cases h
          refine ⟨by simp [Acc.get], ?_⟩
          intro g v hg
          simp only [Acc.get] at hg ⊢
          split
          · rename_i hgs; rw [if_pos hgs] at hg; exact hg
          · rename_i hgs
            rw [if_neg hgs] at hg
            split
            · rename_i hgt; rw [if_pos hgt] at hg; exact hg
            · rename_i hgt
              rw [if_neg hgt] at hg
              split
              · rename_i hgq
                rw [if_pos hgq] at hg
                simp only [Bool.or_eq_true, beq_iff_eq] at hc
                rcases hc with hc | hc
                · rw [hc] at hg; cases hg
                · rw [hc] at hg; exact hg
              · rename_i hgq; rw [if_neg hgq] at hg; exact hg
        · cases h
      · cases h

theorem addAll_ok_get {e : Int} : ∀ (cs : List (String × String × Int)) {a a' : Acc}, a.addAll e cs = .ok a' →
    (∀ c ∈ cs, a'.get c.1 = some c.2.1) ∧ ∀ g v, a.get g = some v → a'.get g = some v := by
  intro cs
  induction cs with
  | nil => intro a a' h; cases h; exact ⟨by simp, fun _ _ h => h⟩
  | cons c cs ih =>
    intro a a' h
    obtain ⟨f, su, m⟩ := c
    simp only [Acc.addAll] at h
    cases h1 : a.add f su (e * m) with
    | error x => rw [h1] at h; cases h
    | ok a1 =>
      rw [h1] at h
      have k1 := add_ok_get h1
      have k2 := ih h
      refine ⟨?_, fun g v hg => k2.2 g v (k1.2 g v hg)⟩
      intro c hc
      simp only [List.mem_cons] at hc
      rcases hc with hc | hc
      · subst hc; exact k2.2 _ _ k1.1
      · exact k2.1 c hc

/-- the contributions (field, base unit) named by a block -/
def blockNames (b : Block) : List (String × String) :=
  match symContrib (String.ofList b.sym) with
  | .ok cs => cs.map fun c => (c.1, c.2.1)
  | .error _ => []

theorem addBlock_ok_get {a a' : Acc} {b : Block} (h : a.addBlock b = .ok a') :
    (∀ n ∈ blockNames b, a'.get n.1 = some n.2) ∧ ∀ g v, a.get g = some v → a'.get g = some v := by
  unfold Acc.addBlock at h
  cases he : blockExp b with
  | none => rw [he] at h; cases h
  | some e =>
    rw [he] at h
    cases hc : symContrib (String.ofList b.sym) with
    | error x => rw [hc] at h; cases h
    | ok cs =>
      rw [hc] at h
      have k := addAll_ok_get cs h
      refine ⟨?_, k.2⟩
      intro n hn
      simp only [blockNames, hc, List.mem_map] at hn
      obtain ⟨c, hcm, rfl⟩ := hn
      exact k.1 c hcm

theorem addBlocks_ok_get : ∀ (bs : List Block) {a a' : Acc}, a.addBlocks bs = .ok a' →
    (∀ b ∈ bs, ∀ n ∈ blockNames b, a'.get n.1 = some n.2) ∧ ∀ g v, a.get g = some v → a'.get g = some v := by
  intro bs
  induction bs with
  | nil => intro a a' h; cases h; exact ⟨by simp, fun _ _ h => h⟩
  | cons b bs ih =>
    intro a a' h
    simp only [Acc.addBlocks] at h
    cases h1 : a.addBlock b with
    | error x => rw [h1] at h; cases h
    | ok a1 =>
      rw [h1] at h
      have k1 := addBlock_ok_get h1
      have k2 := ih h
      refine ⟨?_, fun g v hg => k2.2 g v (k1.2 g v hg)⟩
      intro x hx n hn
      simp only [List.mem_cons] at hx
      rcases hx with hx | hx
      · subst hx; exact k2.2 _ _ (k1.1 n hn)
      · exact k2.1 x hx n hn

/-- two blocks naming different base units for one field make the second loop fail -/
theorem finishBlocks_error_of_conflict (bs : List Block) (b1 b2 : Block) (h1 : b1 ∈ bs) (h2 : b2 ∈ bs)
    (f u1 u2 : String) (n1 : (f, u1) ∈ blockNames b1) (n2 : (f, u2) ∈ blockNames b2) (hne : u1 ≠ u2) :
    (finishBlocks bs).isError = true := by
  unfold finishBlocks
  split
  · rfl
  · cases hab : ({} : Acc).addBlocks bs with
    | error e => rfl
    | ok a' =>
      have k := (addBlocks_ok_get bs hab).1
      have e1 := k b1 h1 _ n1
      have e2 := k b2 h2 _ n2
      simp only at e1 e2
      rw [e1] at e2
      exact absurd (Option.some.inj e2) hne

/-! ### the grammar: factor lists -/

/-- one factor of the documented grammar: `div` = written after `/` (else after `.` / first),
a supported symbol, an optional integer exponent printed in canonical decimal form -/
structure Factor where
  div : Bool
  sym : String
  exp : Option Int
  deriving Repr, DecidableEq

def Factor.toBlock (f : Factor) : Block :=
  ⟨if f.div then '/' else '.', f.sym.toList, match f.exp with | none => [] | some e => showIntChars e⟩

/-- the signed exponent a factor denotes -/
def Factor.signedExp (f : Factor) : Int := if f.div then -(f.exp.getD 1) else f.exp.getD 1

def renderFactors (fs : List Factor) : List Char := renderBlocks (fs.map Factor.toBlock)

theorem factor_wf (f : Factor) (hs : f.sym ∈ allSyms) : f.toBlock.wf := by
  have h := (symChars_of_syms f.sym hs).1
  simp only [List.all_eq_true, Bool.and_eq_true] at h
  refine ⟨?_, fun c hc => (h c hc).1, ?_, ?_⟩
  · simp only [Factor.toBlock]; split <;> decide
  · intro c hc
    simp only [Factor.toBlock] at hc
    split at hc
    · simp at hc
    · exact (expChars_props c (showIntChars_mem _ c hc)).2.1
  · simp only [Factor.toBlock]
    split
    · exact Or.inl rfl
    · rename_i e _
      right
      cases hsn : showIntChars e with
      | nil => exact absurd hsn (showIntChars_ne_nil e)
      | cons x r =>
        refine ⟨x, r, rfl, ?_⟩
        have := showIntChars_mem e x (by rw [hsn]; simp)
        simpa using this

theorem factor_clean (f : Factor) (hs : f.sym ∈ allSyms) :
    uClean [f.toBlock.sep] ∧ uClean f.toBlock.body ∧
      (∀ c, (c = f.toBlock.sep ∨ c ∈ f.toBlock.body) → isBlank c = false) := by
  have h := symChars_of_syms f.sym hs
  have hsep : f.toBlock.sep ∈ sepChars := by simp only [Factor.toBlock]; split <;> decide
  have hd := uClean_sep _ hsep
  have hx : uClean f.toBlock.exp ∧ ∀ c ∈ f.toBlock.exp, isBlank c = false := by
    simp only [Factor.toBlock]
    split
    · exact ⟨uClean_nil, by simp⟩
    · rename_i e _
      exact ⟨uClean_of_noU _ (fun c hc => (expChars_props c (showIntChars_mem e c hc)).2.2.1),
        fun c hc => (expChars_props c (showIntChars_mem e c hc)).1⟩
  refine ⟨⟨hd.1, hd.2.1⟩, uClean_append ⟨h.2.1, h.2.2⟩ hx.1, ?_⟩
  intro c hc
  rcases hc with hc | hc
  · subst hc; exact hd.2.2
  · simp only [Block.body, List.mem_append] at hc
    rcases hc with hc | hc
    · have := h.1
      simp only [List.all_eq_true, Bool.and_eq_true, Bool.not_eq_true'] at this
      exact (this c hc).2
    · exact hx.2 c hc

theorem blockExp_factor (f : Factor) : blockExp f.toBlock = some f.signedExp := by
  have hd : pyInt puDefaultExp.toList = some 1 := by decide +kernel
  have hn : puNegSep = '/' := rfl
  obtain ⟨div, sym, exp⟩ := f
  cases exp with
  | none =>
    cases div <;> simp [blockExp, Factor.toBlock, Factor.signedExp, hd, hn]
  | some e =>
    have hne := showIntChars_ne_nil e
    cases div <;> simp [blockExp, Factor.toBlock, Factor.signedExp, hne, pyInt_showInt, hn]

theorem factor_exp_ok (f : Factor) : (!f.toBlock.exp.isEmpty && badExpText f.toBlock.exp) = false := by
  obtain ⟨div, sym, exp⟩ := f
  cases exp with
  | none => simp [Factor.toBlock]
  | some e => simp [Factor.toBlock, badExpText_showInt]

/-- the second loop on the signed-exponent view of the factors -/
def addFactors (a : Acc) : List (String × Int) → Res Acc
  | [] => .ok a
  | (sym, e) :: r =>
    match symContrib sym with
    | .error x => .error x
    | .ok cs =>
      match a.addAll e cs with
      | .error x => .error x
      | .ok a' => addFactors a' r

def finishFactors (l : List (String × Int)) : Res Units :=
  match addFactors {} l with
  | .error e => .error e
  | .ok acc =>
    let sys : Sys := ⟨acc.space.getD defaultSpace, acc.time.getD defaultTime, acc.qty.getD defaultQty⟩
    if sys.valid then .ok ⟨sys, acc.dim⟩ else .error .badUnit

theorem addBlocks_factors (fs : List Factor) : ∀ a : Acc,
    a.addBlocks (fs.map Factor.toBlock) = addFactors a (fs.map fun f => (f.sym, f.signedExp)) := by
  induction fs with
  | nil => intro a; rfl
  | cons f fs ih =>
    intro a
    simp only [List.map_cons, Acc.addBlocks, addFactors, Acc.addBlock, blockExp_factor]
    have : String.ofList f.toBlock.sym = f.sym := by simp [Factor.toBlock]
    rw [this]
    cases symContrib f.sym with
    | error x => rfl
    | ok cs =>
      simp only []
      cases a.addAll f.signedExp cs with
      | error x => rfl
      | ok a' => exact ih a'

/-- **reading**: text written from a factor list of the grammar is read back as exactly those factors
(symbol and signed exponent of each), and the result depends on nothing else -/
theorem parse_renderFactors (f : Factor) (fs : List Factor) (hdiv : f.div = false)
    (hs : ∀ g ∈ f :: fs, g.sym ∈ allSyms) :
    parseUnitsChars (renderFactors (f :: fs)) = finishFactors ((f :: fs).map fun g => (g.sym, g.signedExp)) := by
  have hcl : uClean (renderFactors (f :: fs)) := by
    apply uClean_renderBlocks
    intro b hb
    simp only [List.mem_map] at hb
    obtain ⟨g, hg, rfl⟩ := hb
    exact ⟨(factor_clean g (hs g hg)).1, (factor_clean g (hs g hg)).2.1⟩
  have hnb : ∀ c ∈ renderFactors (f :: fs), isBlank c = false := by
    intro c hc
    obtain ⟨b, hb, hcb⟩ := mem_renderBlocks hc
    simp only [List.mem_map] at hb
    obtain ⟨g, hg, rfl⟩ := hb
    exact (factor_clean g (hs g hg)).2.2 c hcb
  have hne : renderFactors (f :: fs) ≠ [] := by
    have := syms_nonempty f.sym (hs f (by simp))
    simp only [renderFactors, List.map_cons, renderBlocks, Block.body, Factor.toBlock]
    intro h
    simp only [List.append_eq_nil_iff] at h
    exact this h.1.1
  rw [parseUnitsChars, prepUnits_id _ hcl.1 hnb]
  have hsep : f.toBlock.sep = puFirstBlockSep := by simp [Factor.toBlock, hdiv]; rfl
  simp only [renderFactors, List.map_cons] at hne hnb ⊢
  rw [parseUnitsCore_render f.toBlock (fs.map Factor.toBlock) (factor_wf f (hs f (by simp)))
    (by intro x hx; simp only [List.mem_map] at hx; obtain ⟨g, hg, rfl⟩ := hx; exact factor_wf g (hs g (by simp [hg])))
    hsep hne hnb]
  have hchk : (f.toBlock :: fs.map Factor.toBlock).any (fun b => !b.exp.isEmpty && badExpText b.exp) = false := by
    rw [List.any_eq_false]
    intro x hx
    have : ∃ g, x = Factor.toBlock g := by
      simp only [List.mem_cons, List.mem_map] at hx
      rcases hx with hx | ⟨g, _, hg⟩
      · exact ⟨f, hx⟩
      · exact ⟨g, hg.symm⟩
    obtain ⟨g, rfl⟩ := this
    rw [factor_exp_ok]; simp
  have hab := addBlocks_factors (f :: fs) {}
  simp only [List.map_cons] at hab
  simp only [finishBlocks, hchk, Bool.false_eq_true, if_false, hab, finishFactors]

/-! ### the dimension a factor list denotes -/

theorem Dim.ext' {a b : Dim} (h1 : a.space = b.space) (h2 : a.time = b.time) (h3 : a.qty = b.qty) : a = b := by
  cases a; cases b; simp_all

theorem Dim.add_assoc' (a b c : Dim) : (a.add b).add c = a.add (b.add c) :=
  Dim.ext' (by simp [Dim.add, Int.add_assoc]) (by simp [Dim.add, Int.add_assoc]) (by simp [Dim.add, Int.add_assoc])

theorem Dim.add_comm' (a b : Dim) : a.add b = b.add a :=
  Dim.ext' (by simp [Dim.add, Int.add_comm]) (by simp [Dim.add, Int.add_comm]) (by simp [Dim.add, Int.add_comm])

theorem Dim.add_zero' (a : Dim) : a.add Dim.zero = a := Dim.ext' (by simp [Dim.add, Dim.zero]) (by simp [Dim.add, Dim.zero]) (by simp [Dim.add, Dim.zero])
theorem Dim.zero_add' (a : Dim) : Dim.zero.add a = a := Dim.ext' (by simp [Dim.add, Dim.zero]) (by simp [Dim.add, Dim.zero]) (by simp [Dim.add, Dim.zero])

def fieldDim (f : String) (e : Int) : Dim :=
  if f == "space" then ⟨e, 0, 0⟩ else if f == "time" then ⟨0, e, 0⟩ else if f == "quantity" then ⟨0, 0, e⟩ else Dim.zero

def contribDim (e : Int) : List (String × String × Int) → Dim
  | [] => Dim.zero
  | c :: r => (fieldDim c.1 (e * c.2.2)).add (contribDim e r)

theorem add_ok_dim {a a' : Acc} {f su : String} {e : Int} (h : a.add f su e = .ok a') :
    a'.dim = a.dim.add (fieldDim f e) := by
  unfold Acc.add at h
  split at h
  · rename_i hf
    split at h
    · cases h; simp [fieldDim, hf, Dim.add]
    · cases h
  · rename_i hf
    split at h
    · rename_i hf2
      split at h
      · cases h; simp [fieldDim, hf, hf2, Dim.add]
      · cases h
    · rename_i hf2
      split at h
      · rename_i hf3
        split at h
        · cases h; simp [fieldDim, hf, hf2, hf3, Dim.add]
        · cases h
      · cases h

theorem addAll_dim {e : Int} : ∀ (cs : List (String × String × Int)) {a a' : Acc}, a.addAll e cs = .ok a' →
    a'.dim = a.dim.add (contribDim e cs) := by
  intro cs
  induction cs with
  | nil => intro a a' h; cases h; simp [contribDim, Dim.add_zero']
  | cons c cs ih =>
    intro a a' h
    obtain ⟨f, su, m⟩ := c
    simp only [Acc.addAll] at h
    cases h1 : a.add f su (e * m) with
    | error x => rw [h1] at h; cases h
    | ok a1 =>
      rw [h1] at h
      rw [ih h, add_ok_dim h1, Dim.add_assoc']
      rfl

/-- dimension of one unit of a symbol, as the `addunit` calls define it -/
def symDimOf (s : String) : Option Dim :=
  match symContrib s with
  | .ok cs => some (contribDim 1 cs)
  | .error _ => none

theorem contribDim_smul (e : Int) (cs : List (String × String × Int)) :
    contribDim e cs = Dim.smul e (contribDim 1 cs) := by
  induction cs with
  | nil => simp [contribDim, Dim.smul, Dim.zero]
  | cons c cs ih =>
    simp only [contribDim, ih]
    apply Dim.ext' <;> simp only [Dim.add, Dim.smul, fieldDim] <;> (repeat' split) <;>
      simp [Dim.zero, Int.mul_add]

/-- the dimension denoted by a list of (symbol, signed exponent) -/
def factorsDim : List (String × Int) → Dim
  | [] => Dim.zero
  | (sym, e) :: r => (Dim.smul e ((symDimOf sym).getD Dim.zero)).add (factorsDim r)

theorem addFactors_dim : ∀ (l : List (String × Int)) {a a' : Acc}, addFactors a l = .ok a' →
    a'.dim = a.dim.add (factorsDim l) := by
  intro l
  induction l with
  | nil => intro a a' h; cases h; simp [factorsDim, Dim.add_zero']
  | cons p r ih =>
    intro a a' h
    obtain ⟨sym, e⟩ := p
    simp only [addFactors] at h
    cases hc : symContrib sym with
    | error x => rw [hc] at h; cases h
    | ok cs =>
      rw [hc] at h
      simp only [] at h
      cases h1 : a.addAll e cs with
      | error x => rw [h1] at h; cases h
      | ok a1 =>
        rw [h1] at h
        simp only [] at h
        rw [ih h, addAll_dim cs h1, Dim.add_assoc', contribDim_smul]
        simp [factorsDim, symDimOf, hc]

theorem finishFactors_dim {l : List (String × Int)} {u : Units} (h : finishFactors l = .ok u) :
    u.dim = factorsDim l := by
  unfold finishFactors at h
  cases hc : addFactors {} l with
  | error x => rw [hc] at h; cases h
  | ok acc =>
    rw [hc] at h
    simp only [] at h
    split at h
    · cases h
      rw [addFactors_dim l hc]
      exact Dim.zero_add' _
    · cases h

theorem factorsDim_perm {l1 l2 : List (String × Int)} (h : l1.Perm l2) : factorsDim l1 = factorsDim l2 := by
  induction h with
  | nil => rfl
  | cons x _ ih => obtain ⟨s, e⟩ := x; simp only [factorsDim, ih]
  | swap x y l =>
    obtain ⟨s, e⟩ := x; obtain ⟨s', e'⟩ := y
    simp only [factorsDim]
    rw [← Dim.add_assoc', ← Dim.add_assoc', Dim.add_comm' (Dim.smul e' _)]
  | trans _ _ ih1 ih2 => rw [ih1, ih2]

/-! ### the replace chain only rewrites the letter `u`: character classes are preserved position-wise -/

theorem replaceAux_map {β} (q : Char → β) (hq : q 'u' = q 'µ') (a b t : List Char) (ha : a = 'u' :: t)
    (hb : b = 'µ' :: t) : ∀ (s : List Char) (skip : Nat),
    (s.take skip ++ replaceAux a b skip s).map q = s.map q := by
  intro s
  induction s with
  | nil => intro skip; simp [replaceAux]
  | cons c cs ih =>
    intro skip
    cases skip with
    | succ k =>
      have := ih k
      simp only [List.take_succ_cons, replaceAux, List.cons_append, List.map_cons, this]
    | zero =>
      simp only [List.take_zero, List.nil_append, replaceAux]
      split
      · rename_i hm
        simp only [Bool.and_eq_true] at hm
        have hp : a <+: (c :: cs) := List.isPrefixOf_iff_prefix.1 hm.1
        subst ha hb
        obtain ⟨r, hr⟩ := hp
        simp only [List.cons_append, List.cons.injEq] at hr
        obtain ⟨hc, hcs⟩ := hr
        subst hc
        have h2 := ih t.length
        rw [← hcs] at h2 ⊢
        simp only [List.take_left', List.length_cons, Nat.add_sub_cancel] at h2 ⊢
        simp only [List.cons_append, List.map_cons, hq]
        rw [h2]
      · have := ih 0
        simp only [List.take_zero, List.nil_append] at this
        simp only [List.map_cons, this]

theorem replaceChain_map {β} (q : Char → β) (hq : q 'u' = q 'µ') (l : List (String × String))
    (hl : ∀ p ∈ l, patOk p.1.toList p.2.toList = true) (s : List Char) :
    (l.foldl (fun acc (p : String × String) => replaceAll p.1.toList p.2.toList acc) s).map q = s.map q := by
  induction l generalizing s with
  | nil => rfl
  | cons p ps ih =>
    simp only [List.foldl_cons]
    rw [ih (fun x hx => hl x (by simp [hx]))]
    have hp := hl p (by simp)
    unfold patOk at hp
    split at hp
    · rename_i x t y t' h1 h2
      simp only [Bool.and_eq_true, beq_iff_eq] at hp
      have := replaceAux_map q hq p.1.toList p.2.toList (x :: t) h1 (by rw [h2, ← hp.1.2, ← hp.2]) s 0
      simpa [replaceAll] using this
    · exact absurd hp (by simp)

def stripByG {α} (p : α → Bool) (s : List α) : List α := ((s.dropWhile p).reverse.dropWhile p).reverse

theorem stripBy_map (p : Char → Bool) (s : List Char) : (stripBy p s).map p = stripByG id (s.map p) := by
  unfold stripBy stripByG
  have hcomp : (id ∘ p) = p := rfl
  rw [List.dropWhile_map, ← List.map_reverse, List.dropWhile_map, hcomp, List.map_reverse]

/-- preprocessing preserves where the blanks are: a blank that survives Python's `strip()` of the raw
text survives in the preprocessed text, and the preprocessed text is empty iff the stripped raw text is -/
theorem prepUnits_blank_classes (s0 : List Char) :
    (prepUnits s0).map isBlank = (stripBlank s0).map isBlank := by
  unfold prepUnits stripBlank
  rw [stripBy_map, stripBy_map]
  have h := replaceChain_map isBlank (by decide) uSubst uSubst_patOk s0
  have h' : (uSubst.foldl (fun acc (x : String × String) =>
      match x with | (a, b) => replaceAll a.toList b.toList acc) s0).map isBlank = s0.map isBlank := h
  rw [h']

theorem parseUnitsChars_inner_blank (s0 : List Char) (h : (stripBlank s0).any isBlank = true) :
    parseUnitsChars s0 = .error .badSyntax := by
  have hm := prepUnits_blank_classes s0
  have hany : (prepUnits s0).any isBlank = true := by
    have e1 : (prepUnits s0).any isBlank = ((prepUnits s0).map isBlank).any id := by simp [List.any_map]
    have e2 : (stripBlank s0).any isBlank = ((stripBlank s0).map isBlank).any id := by simp [List.any_map]
    rw [e1, hm, ← e2, h]
  have hne : prepUnits s0 ≠ [] := by
    intro h0; rw [h0] at hany; simp at hany
  have h1 : (prepUnits s0).isEmpty = false := by simpa using hne
  have hg : puRejectsInnerBlank = true := rfl
  simp [parseUnitsChars, parseUnitsCore, h1, hany, hg]

end Strengths
