/-
Closed forms of the propensities of the stochastic engines (`ReactionProp`, `DiffusionProp`) for C07.
-/
import Mathlib.Algebra.Order.BigOperators.Ring.Finset
import Mathlib.Algebra.Order.Field.Basic
import Mathlib.Data.Nat.Choose.Basic
import Mathlib.Data.Nat.Factorial.BigOperators
import Mathlib.Tactic.Positivity
import Strengths.Proofs.Sums

namespace Strengths
open Finset

theorem foldl_mul_eq_prod {α : Type} (f : α → Rat) (l : List α) (a : Rat) :
    l.foldl (fun acc i => acc * f i) a = a * (l.map f).prod := by
  induction l generalizing a with
  | nil => simp
  | cons x xs ih => simp [List.foldl_cons, ih, mul_assoc]

theorem list_range_map_prod (f : Nat → Rat) (n : Nat) :
    ((List.range n).map f).prod = ∏ i ∈ range n, f i := by
  induction n with
  | zero => simp
  | succ n ih => simp [List.range_succ, Finset.prod_range_succ, ih]

/-- `Π_{q<m} (v − q)` -/
theorem fallingProd_eq (v : Rat) (m : Nat) : fallingProd v m = ∏ q ∈ range m, (v - (q : Rat)) := by
  unfold fallingProd
  rw [foldl_mul_eq_prod, list_range_map_prod, one_mul]

theorem fallingProd_pos {v : Rat} {m : Nat} (h : (m : Rat) ≤ v) : 0 < fallingProd v m := by
  rw [fallingProd_eq]
  apply Finset.prod_pos
  intro q hq
  have : (q : Rat) < (m : Rat) := by exact_mod_cast Finset.mem_range.1 hq
  linarith

/-- for an integer amount `N ≥ m` the falling product is `N!/(N−m)! = m!·C(N, m)`: the number of ordered
selections of `m` distinct molecules (`m!` × the number of distinct reactant combinations) -/
theorem fallingProd_nat (N m : Nat) (h : m ≤ N) :
    fallingProd (N : Rat) m = ((Nat.factorial m * Nat.choose N m : Nat) : Rat) := by
  rw [fallingProd_eq, ← Nat.descFactorial_eq_factorial_mul_choose, Nat.descFactorial_eq_prod_range]
  push_cast
  apply Finset.prod_congr rfl
  intro q hq
  have : q ≤ N := le_trans (le_of_lt (Finset.mem_range.1 hq)) h
  rw [Nat.cast_sub this]

/-- the loop of `ReactionProp` over a list of species: all guards pass → product, otherwise 0 -/
theorem reactionPropAux_eq (e : EngIn) (x : State) (i r : Nat) (l : List Nat) (a : Rat) :
    reactionPropAux e x i r l a =
      if ∀ s ∈ l, (e.net.sub s r : Rat) ≤ x i s then a * (l.map fun s => fallingProd (x i s) (e.net.sub s r)).prod
      else 0 := by
  induction l generalizing a with
  | nil => simp [reactionPropAux]
  | cons s rest ih =>
    simp only [reactionPropAux]
    by_cases h : x i s ≥ (e.net.sub s r : Rat)
    · simp only [h, if_true, ih]
      by_cases h2 : ∀ s' ∈ rest, (e.net.sub s' r : Rat) ≤ x i s'
      · have : ∀ s' ∈ s :: rest, (e.net.sub s' r : Rat) ≤ x i s' := by
          intro s' hs'; rcases List.mem_cons.1 hs' with rfl | hm
          · exact h
          · exact h2 s' hm
        rw [if_pos h2, if_pos this]; simp only [List.map_cons, List.prod_cons]; ring
      · have : ¬ ∀ s' ∈ s :: rest, (e.net.sub s' r : Rat) ≤ x i s' :=
          fun hc => h2 (fun s' hs' => hc s' (by simp [hs']))
        rw [if_neg h2, if_neg this]
    · have : ¬ ∀ s' ∈ s :: rest, (e.net.sub s' r : Rat) ≤ x i s' := fun hc => h (hc s (by simp))
      rw [if_neg h, if_neg this]

/-- "enough reactant molecules of every species" -/
def Enough (e : EngIn) (x : State) (i r : Nat) : Prop :=
  ∀ s, s < e.net.nSpecies → (e.net.sub s r : Rat) ≤ x i s

instance (e : EngIn) (x : State) (i r : Nat) : Decidable (Enough e x i r) := by
  unfold Enough; infer_instance

/-- `ReactionProp` in closed form -/
theorem reactionProp_eq (e : EngIn) (x : State) (i r : Nat) :
    reactionProp e x i r =
      if Enough e x i r then
        e.net.k (e.env i) r * (e.vol i) ^ ((1 : Int) - (e.net.order r : Int)) *
          ∏ s ∈ range e.net.nSpecies, ∏ q ∈ range (e.net.sub s r), (x i s - (q : Rat))
      else 0 := by
  unfold reactionProp
  rw [reactionPropAux_eq]
  have hiff : (∀ s ∈ List.range e.net.nSpecies, (e.net.sub s r : Rat) ≤ x i s) ↔ Enough e x i r := by
    simp [Enough, List.mem_range]
  by_cases h : Enough e x i r
  · rw [if_pos (hiff.2 h), if_pos h, list_range_map_prod]
    simp only [meshKr, fallingProd_eq]
  · rw [if_neg (fun hc => h (hiff.1 hc)), if_neg h]

theorem reactionProp_of_not_enough {e : EngIn} {x : State} {i r : Nat} (h : ¬ Enough e x i r) :
    reactionProp e x i r = 0 := by rw [reactionProp_eq, if_neg h]

/-- the falling products are positive when there are enough molecules -/
theorem fallingProds_pos {e : EngIn} {x : State} {i r : Nat} (h : Enough e x i r) :
    0 < ∏ s ∈ range e.net.nSpecies, ∏ q ∈ range (e.net.sub s r), (x i s - (q : Rat)) := by
  apply Finset.prod_pos
  intro s hs
  rw [← fallingProd_eq]
  exact fallingProd_pos (h s (Finset.mem_range.1 hs))

theorem reactionProp_nonneg {e : EngIn} {x : State} {i r : Nat} (hk : 0 ≤ e.net.k (e.env i) r) (hv : 0 < e.vol i) :
    0 ≤ reactionProp e x i r := by
  rw [reactionProp_eq]
  split
  · rename_i h
    have := fallingProds_pos h
    have hz : 0 < (e.vol i) ^ ((1 : Int) - (e.net.order r : Int)) := zpow_pos hv _
    positivity
  · exact le_refl _

/-- a reaction channel has positive propensity exactly when its environment gives it a non-zero (positive)
constant and the cell holds enough molecules of every reactant -/
theorem reactionProp_pos_iff {e : EngIn} {x : State} {i r : Nat} (hk : 0 ≤ e.net.k (e.env i) r) (hv : 0 < e.vol i) :
    0 < reactionProp e x i r ↔ 0 < e.net.k (e.env i) r ∧ Enough e x i r := by
  rw [reactionProp_eq]
  have hz : 0 < (e.vol i) ^ ((1 : Int) - (e.net.order r : Int)) := zpow_pos hv _
  constructor
  · intro h
    split at h
    · rename_i hE
      refine ⟨?_, hE⟩
      rcases lt_or_eq_of_le hk with hpos | hzero
      · exact hpos
      · rw [← hzero] at h; simp at h
    · exact absurd h (lt_irrefl _)
  · rintro ⟨hpos, hE⟩
    rw [if_pos hE]
    have := fallingProds_pos hE
    positivity

/-- `ReactionProp` reads the network, the environment map and the volumes — not the chemostat flags, not the topology -/
theorem reactionProp_congr {e e' : EngIn} (hn : e'.net = e.net) (he : e'.env = e.env) (hv : e'.vol = e.vol)
    (x : State) (i r : Nat) : reactionProp e' x i r = reactionProp e x i r := by
  rw [reactionProp_eq, reactionProp_eq]
  simp only [Enough, hn, he, hv]

end Strengths
