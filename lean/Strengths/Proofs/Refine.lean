/-
Refinement (C11 ↔ core model): one step of the checked-access engine (`Model/Checked*.lean`, the flat-vector program
`engine_never_faults` is about) computes what the core model of `Model/Engine.lean` computes on the abstraction of the
object — so the theorems of C01 / C02 / C03 / C07 about `eulerStep`, `tauLeapApply`, `gillespieStep` transfer.

`Refines e T L`: the tables of the checked object hold the values of the core input `e : EngIn` (read through the
generated index formulas); `absState`: `mesh_x` as a `State`.  This file: the value-level reads and writes, and the
per-function theorems for the rates, propensities and the Euler step.
-/
import Strengths.Proofs.CheckedSim
import Strengths.Model.Engine

namespace Strengths

/-- `mesh_x` (cell-major flat vector) as the core model's state -/
def absState (ns : Nat) (x : Vec Rat) : State := ⟨fun i s => x.get (i * ns + s)⟩

/-- the checked tables hold the values of the core input -/
structure Refines (e : EngIn) (T : Tabs) (L : Layout) : Prop where
  ns : T.ns = e.net.nSpecies
  nr : T.nr = e.net.nReact
  n : T.n = e.topo.nCells
  tabs : TabsOK T
  layout : LayoutOK T L e.topo.nSlots e.topo.nbr
  sub : ∀ s r, s < T.ns → r < T.nr → T.sub.get (s * T.nr + r) = e.net.sub s r
  sto : ∀ s r, s < T.ns → r < T.nr → T.sto.get (s * T.nr + r) = e.net.sto s r
  kr : ∀ i r, i < T.n → r < T.nr → T.kr.get (i * T.nr + r) = meshKr e i r
  chem : ∀ i s, i < T.n → s < T.ns → (T.chstt.get (i * T.ns + s) ≠ 0 ↔ e.chem i s = true)
  kout : ∀ i s k, i < T.n → s < T.ns → k < e.topo.nSlots i → L.kout i s k = .ok (e.topo.kout i s k)
  kin : ∀ i s k j, i < T.n → s < T.ns → k < e.topo.nSlots i → e.topo.nbr i k = some j →
    L.kin i s k = .ok ((j : Int), e.topo.kin i s k)

theorem foldl_range_succ {β : Type} (f : β → Nat → β) (b : β) (k : Nat) :
    (List.range (k + 1)).foldl f b = f ((List.range k).foldl f b) k := by
  rw [List.range_succ, List.foldl_append]; rfl

/-! ### value-level reads and writes at the registered sites -/

section sites
variable {e : EngIn} {T : Tabs} {L : Layout}

theorem rd_x (x : Vec Rat) (hx : x.size = T.n * T.ns) {i s : Nat} (hi : i < T.n) (hs : s < T.ns) :
    Ok (x.rd (T.xIdx i s)) (fun v => v = x.get (i * T.ns + s)) := by
  unfold Tabs.xIdx; rw [xIndex_nat]
  exact Vec.rd_nat x _ (by rw [hx]; exact flat2_lt T.n T.ns i s hi hs)

theorem rd_x_nbr (x : Vec Rat) (hx : x.size = T.n * T.ns) {j s : Nat} (hj : j < T.n) (hs : s < T.ns) :
    Ok (x.rd (Gen.xIndex T.ns (j : Int) s)) (fun v => v = x.get (j * T.ns + s)) := by
  rw [xIndex_nat]
  exact Vec.rd_nat x _ (by rw [hx]; exact flat2_lt T.n T.ns j s hj hs)

theorem wr_x (x : Vec Rat) (hx : x.size = T.n * T.ns) {i s : Nat} (hi : i < T.n) (hs : s < T.ns) (v : Rat) :
    Ok (x.wr (T.xIdx i s) v) (fun x' => x'.size = T.n * T.ns ∧ x'.get (i * T.ns + s) = v ∧
      ∀ k, k ≠ i * T.ns + s → x'.get k = x.get k) := by
  unfold Tabs.xIdx; rw [xIndex_nat]
  exact Ok.mono (Vec.wr_nat x _ v (by rw [hx]; exact flat2_lt T.n T.ns i s hi hs)) (fun x' h => ⟨h.1.trans hx, h.2.1, h.2.2⟩)

theorem wr_x_nbr (x : Vec Rat) (hx : x.size = T.n * T.ns) {j s : Nat} (hj : j < T.n) (hs : s < T.ns) (v : Rat) :
    Ok (x.wr (Gen.xIndex T.ns (j : Int) s) v) (fun x' => x'.size = T.n * T.ns ∧ x'.get (j * T.ns + s) = v ∧
      ∀ k, k ≠ j * T.ns + s → x'.get k = x.get k) := by
  rw [xIndex_nat]
  exact Ok.mono (Vec.wr_nat x _ v (by rw [hx]; exact flat2_lt T.n T.ns j s hj hs)) (fun x' h => ⟨h.1.trans hx, h.2.1, h.2.2⟩)

theorem rd_d (d : Vec Rat) (hd : d.size = T.n * T.ns) {i s : Nat} (hi : i < T.n) (hs : s < T.ns) :
    Ok (d.rd (T.dIdx i s)) (fun v => v = d.get (i * T.ns + s)) := by
  unfold Tabs.dIdx; rw [dxdtIndex_nat]
  exact Vec.rd_nat d _ (by rw [hd]; exact flat2_lt T.n T.ns i s hi hs)

theorem wr_d (d : Vec Rat) (hd : d.size = T.n * T.ns) {i s : Nat} (hi : i < T.n) (hs : s < T.ns) (v : Rat) :
    Ok (d.wr (T.dIdx i s) v) (fun d' => d'.size = T.n * T.ns ∧ d'.get (i * T.ns + s) = v ∧
      ∀ k, k ≠ i * T.ns + s → d'.get k = d.get k) := by
  unfold Tabs.dIdx; rw [dxdtIndex_nat]
  exact Ok.mono (Vec.wr_nat d _ v (by rw [hd]; exact flat2_lt T.n T.ns i s hi hs)) (fun d' h => ⟨h.1.trans hd, h.2.1, h.2.2⟩)

theorem rd_chem (hR : Refines e T L) {i s : Nat} (hi : i < T.n) (hs : s < T.ns) :
    Ok (T.chstt.rd (T.cIdx i s)) (fun c => (c ≠ 0 ↔ e.chem i s = true)) := by
  unfold Tabs.cIdx; rw [chsttIndex_nat]
  refine Ok.mono (Vec.rd_nat T.chstt _ (by rw [hR.tabs.chstt]; exact flat2_lt T.n T.ns i s hi hs)) (fun c hc => ?_)
  rw [hc]; exact hR.chem i s hi hs

theorem rd_chem_nbr (hR : Refines e T L) {j s : Nat} (hj : j < T.n) (hs : s < T.ns) :
    Ok (T.chstt.rd (Gen.chsttIndex T.ns (j : Int) s)) (fun c => (c ≠ 0 ↔ e.chem j s = true)) := by
  rw [chsttIndex_nat]
  refine Ok.mono (Vec.rd_nat T.chstt _ (by rw [hR.tabs.chstt]; exact flat2_lt T.n T.ns j s hj hs)) (fun c hc => ?_)
  rw [hc]; exact hR.chem j s hj hs

theorem rd_sub (hR : Refines e T L) {s r : Nat} (hs : s < T.ns) (hr : r < T.nr) :
    Ok (T.sub.rd (Gen.subIndex T.nr s r)) (fun q => q = e.net.sub s r) := by
  rw [subIndex_nat]
  refine Ok.mono (Vec.rd_nat T.sub _ (by rw [hR.tabs.sub]; exact flat2_lt T.ns T.nr s r hs hr)) (fun q hq => ?_)
  rw [hq]; exact hR.sub s r hs hr

theorem rd_sto (hR : Refines e T L) {s r : Nat} (hs : s < T.ns) (hr : r < T.nr) :
    Ok (T.sto.rd (Gen.stoIndex T.nr s r)) (fun q => q = e.net.sto s r) := by
  rw [stoIndex_nat]
  refine Ok.mono (Vec.rd_nat T.sto _ (by rw [hR.tabs.sto]; exact flat2_lt T.ns T.nr s r hs hr)) (fun q hq => ?_)
  rw [hq]; exact hR.sto s r hs hr

theorem rd_kr (hR : Refines e T L) {i r : Nat} (hi : i < T.n) (hr : r < T.nr) :
    Ok (T.kr.rd (Gen.krIndex T.nr i r)) (fun q => q = meshKr e i r) := by
  rw [krIndex_nat]
  refine Ok.mono (Vec.rd_nat T.kr _ (by rw [hR.tabs.kr]; exact flat2_lt T.n T.nr i r hi hr)) (fun q hq => ?_)
  rw [hq]; exact hR.kr i r hi hr

end sites

/-! ### rates and propensities -/

section funcs
variable {e : EngIn} {T : Tabs} {L : Layout}

/-- `ReactionRate(i, r)` ↔ `reactionRate` -/
theorem reactionRate_val (hR : Refines e T L) (x : Vec Rat) (hx : x.size = T.n * T.ns) {i r : Nat} (hi : i < T.n) (hr : r < T.nr) :
    Ok (T.reactionRate x i r) (fun v => v = reactionRate e (absState T.ns x) i r) := by
  unfold Tabs.reactionRate reactionRate
  refine Ok.bind (rd_kr hR hi hr) (fun k0 hk0 => ?_)
  rw [← hR.ns]
  refine Ok.forUpTo (fun k (acc : Rat) => acc =
    (List.range k).foldl (fun acc s => acc * ((absState T.ns x) i s) ^ (e.net.sub s r)) (meshKr e i r)) (by simpa using hk0)
    (fun s hs acc hacc => ?_)
  refine Ok.bind (rd_x x hx hi hs) (fun xv hxv => ?_)
  refine Ok.bind (rd_sub hR hs hr) (fun q hq => Ok.pure ?_)
  rw [foldl_range_succ, ← hacc, hxv, hq]; rfl

/-- `ReactionProp(i, r)` ↔ `reactionProp` (the loop with `break`) -/
theorem reactionProp_val (hR : Refines e T L) (x : Vec Rat) (hx : x.size = T.n * T.ns) {i r : Nat} (hi : i < T.n) (hr : r < T.nr) :
    Ok (T.reactionProp x i r) (fun v => v = reactionProp e (absState T.ns x) i r) := by
  unfold Tabs.reactionProp reactionProp
  refine Ok.bind (rd_kr hR hi hr) (fun k0 hk0 => ?_)
  rw [← hR.ns]
  -- the core result is the recursion on the remaining species with the current accumulator (0 once broken)
  let X := absState T.ns x
  refine Ok.bind (Ok.forUpTo (fun k (st : Rat × Bool) =>
      (st.2 = true → st.1 = 0) ∧
      reactionPropAux e X i r (List.range T.ns) (meshKr e i r) =
        (if st.2 then 0 else reactionPropAux e X i r (List.range' k (T.ns - k)) st.1)) ?_ (fun s hs st hst => ?_))
    (fun st hst => Ok.pure ?_)
  · refine ⟨fun h => (by cases h), ?_⟩
    simp only [Bool.false_eq_true, if_false, Nat.sub_zero, hk0]
    rw [List.range_eq_range']
  · by_cases hb : st.2 = true
    · rw [if_pos hb]
      refine Ok.pure ⟨hst.1, ?_⟩
      rw [hst.2, if_pos hb, if_pos hb]
    · rw [if_neg hb]
      simp only [Bool.not_eq_true] at hb
      refine Ok.bind (rd_x x hx hi hs) (fun xv hxv => ?_)
      refine Ok.bind (rd_sub hR hs hr) (fun q hq => ?_)
      have hlist : List.range' s (T.ns - s) = s :: List.range' (s + 1) (T.ns - (s + 1)) := by
        have : T.ns - s = (T.ns - (s + 1)) + 1 := by omega
        rw [this, List.range'_succ]
      have hcore := hst.2
      rw [hb] at hcore
      simp only [Bool.false_eq_true, if_false] at hcore
      rw [hlist] at hcore
      simp only [reactionPropAux] at hcore
      have hxs : X i s = xv := by rw [hxv]; rfl
      rw [hxs, ← hq] at hcore
      by_cases hge : (q : Rat) ≤ xv
      · rw [if_pos hge]
        refine Ok.pure ⟨fun h => (by cases h), ?_⟩
        rw [hcore, if_pos hge]
        simp only [Bool.false_eq_true, if_false]
        rfl
      · rw [if_neg hge]
        refine Ok.pure ⟨fun _ => rfl, ?_⟩
        rw [hcore, if_neg hge]; simp
  · obtain ⟨h0, hcore⟩ := hst
    rw [hcore]
    by_cases hb : st.2 = true
    · rw [if_pos hb]; exact h0 hb
    · rw [if_neg hb]; simp [reactionPropAux]

/-- `DiffusionRate` / `DiffusionProp` ↔ `diffusionProp` -/
theorem diffusionPropC_val (hR : Refines e T L) (x : Vec Rat) (hx : x.size = T.n * T.ns)
    {i s k : Nat} (hi : i < T.n) (hs : s < T.ns) (hk : k < e.topo.nSlots i) :
    Ok (diffusionPropC T L x i s k) (fun v => v = diffusionProp e (absState T.ns x) i s k) := by
  unfold diffusionPropC diffusionProp
  refine Ok.bind (rd_x x hx hi hs) (fun xv hxv => ?_)
  rw [hR.kout i s k hi hs hk, ok_bind]
  exact Ok.pure (by rw [hxv]; rfl)

/-- `DiffusionRateDifference` ↔ `diffusionRateDifference` -/
theorem diffusionRateDifferenceC_val (hR : Refines e T L) (x : Vec Rat) (hx : x.size = T.n * T.ns)
    {i s k j : Nat} (hi : i < T.n) (hs : s < T.ns) (hk : k < e.topo.nSlots i) (hj : e.topo.nbr i k = some j) :
    Ok (diffusionRateDifferenceC T L x i s k) (fun v => v = diffusionRateDifference e (absState T.ns x) i s k) := by
  unfold diffusionRateDifferenceC diffusionRateDifference
  refine Ok.bind (diffusionPropC_val hR x hx hi hs hk) (fun a ha => ?_)
  rw [hR.kin i s k j hi hs hk hj, ok_bind]
  refine Ok.bind (rd_x_nbr x hx (hR.layout.nbr_lt i k j hi hk hj) hs) (fun xj hxj => Ok.pure ?_)
  rw [hj, ha, hxj]; rfl

/-! ### Euler -/

/-- `Compute_dxdt` ↔ `eulerDxdt`: afterwards `mesh_dxdt[i*n_species+s]` is the core model's derivative of (cell i, species s) -/
theorem computeDxdt_val (hR : Refines e T L) (x dxdt : Vec Rat) (hx : x.size = T.n * T.ns) (hd : dxdt.size = T.n * T.ns) :
    Ok (computeDxdt T L x dxdt) (fun d => d.size = T.n * T.ns ∧
      ∀ i s, i < T.n → s < T.ns → d.get (i * T.ns + s) = eulerDxdt e (absState T.ns x) i s) := by
  let X := absState T.ns x
  let Done := fun (i s : Nat) (d : Vec Rat) => d.size = T.n * T.ns ∧
    ∀ i' s', i' < T.n → s' < T.ns → (i' < i ∨ (i' = i ∧ s' < s)) → d.get (i' * T.ns + s') = eulerDxdt e X i' s'
  unfold computeDxdt
  refine Ok.mono (Ok.forUpTo (fun i d => Done i 0 d) ⟨hd, fun i' s' _ _ h => by omega⟩ (fun i hi d hdone => ?_))
    (fun d h => ⟨h.1, fun i s hi hs => h.2 i s hi hs (Or.inl hi)⟩)
  -- rr
  refine Ok.bind (Ok.forUpTo (fun r (rr : Vec Rat) => rr.size = T.nr ∧ ∀ r', r' < r → rr.get r' = reactionRate e X i r')
    ⟨rfl, fun r' h => by omega⟩ (fun r hr rr hrr => ?_)) (fun rr hrr => ?_)
  · refine Ok.bind (reactionRate_val hR x hx hi hr) (fun v hv => ?_)
    refine Ok.mono (Vec.wr_nat rr r v (by rw [hrr.1]; exact hr)) (fun rr' h => ⟨h.1.trans hrr.1, fun r' hr' => ?_⟩)
    by_cases he : r' = r
    · subst he; rw [h.2.1, hv]
    · rw [h.2.2 r' he]; exact hrr.2 r' (by omega)
  rw [hR.layout.nSlots i hi, ok_bind]
  refine Ok.mono (Ok.forUpTo (fun s d => Done i s d) hdone (fun s hs d hdone => ?_))
    (fun d h => ⟨h.1, fun i' s' hi' hs' hb => h.2 i' s' hi' hs' (by omega)⟩)
  -- entry (i, s)
  have hframe : ∀ (d' : Vec Rat), d'.size = T.n * T.ns → (∀ k, k ≠ i * T.ns + s → d'.get k = d.get k) →
      d'.get (i * T.ns + s) = eulerDxdt e X i s → Done i (s + 1) d' := by
    intro d' hsz hfr hval
    refine ⟨hsz, fun i' s' hi' hs' hb => ?_⟩
    by_cases heq : i' = i ∧ s' = s
    · obtain ⟨e1, e2⟩ := heq; subst e1 e2; exact hval
    · have hne : i' * T.ns + s' ≠ i * T.ns + s := by
        intro h
        exact heq (flat2_inj hs' hs h)
      rw [hfr _ hne]
      exact hdone.2 i' s' hi' hs' (by omega)
  refine Ok.bind (wr_d d hdone.1 hi hs 0) (fun d0 hd0 => ?_)
  refine Ok.bind (rd_chem hR hi hs) (fun c hc => ?_)
  by_cases hcz : c ≠ 0
  · rw [if_pos hcz]
    refine Ok.pure (hframe d0 hd0.1 hd0.2.2 ?_)
    rw [hd0.2.1]; unfold eulerDxdt; rw [if_pos (hc.mp hcz)]
  rw [if_neg hcz]
  have hchem : e.chem i s = false := by
    cases h : e.chem i s with
    | false => rfl
    | true => exact absurd (hc.mpr h) hcz
  -- reactions
  let reacF := fun (acc : Rat) (r : Nat) => acc + (e.net.sto s r : Rat) * reactionRate e X i r
  refine Ok.bind (Ok.forUpTo (fun r (dd : Vec Rat) => dd.size = T.n * T.ns ∧ dd.get (i * T.ns + s) = (List.range r).foldl reacF 0 ∧
      ∀ k, k ≠ i * T.ns + s → dd.get k = d.get k) ⟨hd0.1, hd0.2.1, hd0.2.2⟩ (fun r hr dd hdd => ?_)) (fun d1 hd1 => ?_)
  · refine Ok.bind (rd_d dd hdd.1 hi hs) (fun cur hcur => ?_)
    refine Ok.bind (rd_sto hR hs hr) (fun st hst => ?_)
    refine Ok.bind (Vec.rd_nat rr r (by rw [hrr.1]; exact hr)) (fun v hv => ?_)
    refine Ok.mono (wr_d dd hdd.1 hi hs _) (fun dd' h => ⟨h.1, ?_, fun k hk => (h.2.2 k hk).trans (hdd.2.2 k hk)⟩)
    rw [h.2.1, foldl_range_succ, hcur, hdd.2.1, hst, hv, hrr.2 r hr]
  -- diffusion
  let diffF := fun (acc : Rat) (k : Nat) => if (e.topo.nbr i k).isSome then acc - diffusionRateDifference e X i s k else acc
  refine Ok.mono (Ok.forUpTo (fun k (dd : Vec Rat) => dd.size = T.n * T.ns ∧
      dd.get (i * T.ns + s) = (List.range k).foldl diffF ((List.range T.nr).foldl reacF 0) ∧
      ∀ k', k' ≠ i * T.ns + s → dd.get k' = d.get k') ⟨hd1.1, hd1.2.1, hd1.2.2⟩ (fun k hk dd hdd => ?_)) (fun dd hdd => ?_)
  · rw [hR.layout.nbr i k hi hk, ok_bind]
    cases hnb : e.topo.nbr i k with
    | none =>
      simp only [Option.isSome_none, Bool.false_eq_true, if_false]
      refine Ok.pure ⟨hdd.1, ?_, hdd.2.2⟩
      rw [foldl_range_succ, hdd.2.1]
      show _ = diffF _ k
      simp only [diffF, hnb, Option.isSome_none, Bool.false_eq_true, if_false]
    | some j =>
      simp only [Option.isSome_some, if_true]
      refine Ok.bind (diffusionRateDifferenceC_val hR x hx hi hs hk hnb) (fun v hv => ?_)
      refine Ok.bind (rd_d dd hdd.1 hi hs) (fun cur hcur => ?_)
      refine Ok.mono (wr_d dd hdd.1 hi hs _) (fun dd' h => ⟨h.1, ?_, fun k' hk' => (h.2.2 k' hk').trans (hdd.2.2 k' hk')⟩)
      rw [h.2.1, foldl_range_succ, hcur, hdd.2.1, hv]
      show _ = diffF _ k
      simp only [diffF, hnb, Option.isSome_some, if_true]
      rfl
  · refine hframe dd hdd.1 hdd.2.2 ?_
    rw [hdd.2.1]
    unfold eulerDxdt
    rw [hchem]
    simp only [Bool.false_eq_true, if_false]
    rw [← hR.nr]

/-- `Apply_dxdt`: every entry of `mesh_x` advances by its derivative times dt -/
theorem applyDxdt_val (dt : Rat) (x dxdt : Vec Rat) (hx : x.size = T.n * T.ns) (hd : dxdt.size = T.n * T.ns) :
    Ok (applyDxdt T dt dxdt x) (fun x' => x'.size = T.n * T.ns ∧
      ∀ i s, i < T.n → s < T.ns → x'.get (i * T.ns + s) = x.get (i * T.ns + s) + dxdt.get (i * T.ns + s) * dt) := by
  let Inv := fun (i s : Nat) (y : Vec Rat) => y.size = T.n * T.ns ∧
    ∀ i' s', i' < T.n → s' < T.ns →
      y.get (i' * T.ns + s') = if (i' < i ∨ (i' = i ∧ s' < s)) then x.get (i' * T.ns + s') + dxdt.get (i' * T.ns + s') * dt
                               else x.get (i' * T.ns + s')
  unfold applyDxdt
  refine Ok.mono (Ok.forUpTo (fun i y => Inv i 0 y) ⟨hx, fun i' s' _ _ => by
      rw [if_neg (by omega)]⟩ (fun i hi y hy => ?_))
    (fun y h => ⟨h.1, fun i s hi hs => by rw [h.2 i s hi hs, if_pos (Or.inl hi)]⟩)
  refine Ok.mono (Ok.forUpTo (fun s y => Inv i s y) hy (fun s hs y hy => ?_))
    (fun y h => ⟨h.1, fun i' s' hi' hs' => by
      rw [h.2 i' s' hi' hs']
      by_cases hb : i' < i ∨ (i' = i ∧ s' < T.ns)
      · rw [if_pos hb, if_pos (by omega)]
      · rw [if_neg hb, if_neg (by omega)]⟩)
  refine Ok.bind (rd_x y hy.1 hi hs) (fun xv hxv => ?_)
  refine Ok.bind (rd_d dxdt hd hi hs) (fun dv hdv => ?_)
  refine Ok.mono (wr_x y hy.1 hi hs _) (fun y' h => ⟨h.1, fun i' s' hi' hs' => ?_⟩)
  by_cases heq : i' = i ∧ s' = s
  · obtain ⟨e1, e2⟩ := heq; subst e1 e2
    rw [h.2.1, if_pos (by omega), hxv, hdv, hy.2 i' s' hi' hs', if_neg (by omega)]
  · have hne : i' * T.ns + s' ≠ i * T.ns + s := fun hh => heq (flat2_inj hs' hs hh)
    rw [h.2.2 _ hne, hy.2 i' s' hi' hs']
    by_cases hb : i' < i ∨ (i' = i ∧ s' < s)
    · rw [if_pos hb, if_pos (by omega)]
    · rw [if_neg hb, if_neg (by omega)]

/-- Euler, generic layout: `Compute_dxdt; Apply_dxdt` of the checked engine is `eulerStep` of the core model -/
theorem euler_step_refines (hR : Refines e T L) (dt : Rat) (x dxdt : Vec Rat) (hx : x.size = T.n * T.ns) (hd : dxdt.size = T.n * T.ns) :
    Ok (computeDxdt T L x dxdt >>= fun d => applyDxdt T dt d x) (fun x' => x'.size = T.n * T.ns ∧
      ∀ i s, i < T.n → s < T.ns → (absState T.ns x') i s = (eulerStep e dt (absState T.ns x)) i s) := by
  refine Ok.bind (computeDxdt_val hR x dxdt hx hd) (fun d hdv => ?_)
  refine Ok.mono (applyDxdt_val dt x d hx hdv.1) (fun x' hx' => ⟨hx'.1, fun i s hi hs => ?_⟩)
  show x'.get (i * T.ns + s) = x.get (i * T.ns + s) + eulerDxdt e (absState T.ns x) i s * dt
  rw [hx'.2 i s hi hs, hdv.2 i s hi hs]

end funcs

end Strengths
